import PbBss.Proofs.DhtvDomain
import PbBss.Model.Plan
/-! Decidable (list-based, cheap to evaluate in the kernel) form of the two-thirds overlap premise and of plan
coverage, with soundness w.r.t. `PlanOk` / `alignedAfter`. -/
namespace PbBss.Align
open Function

theorem planOk_mono (F : Nat) (a b : ℝ) (hab : 0 ≤ a - b + 1) :
    ∀ (plan : List (Nat × Nat × Nat)) (Al Al' : Finset (Fin F)), Al ⊆ Al' → PlanOk F a b plan Al → PlanOk F a b plan Al'
  | [], _, _, _, _ => trivial
  | seg :: rest, Al, Al', hsub, ⟨h1, h2, h3⟩ => by
    refine ⟨h1, ?_, planOk_mono F a b hab rest _ _ (Finset.union_subset_union_left hsub) h3⟩
    have hc : ((Al ∩ segSet F seg.2.1 seg.2.2).card : ℝ) ≤ (Al' ∩ segSet F seg.2.1 seg.2.2).card := by
      exact_mod_cast Finset.card_le_card (Finset.inter_subset_inter_right hsub)
    calc ((segSet F seg.2.1 seg.2.2).card : ℝ) < _ := h2
      _ ≤ _ := mul_le_mul_of_nonneg_right hc hab

/-- Boolean form for the jitter-domain constants; the aligned set is a predicate `p` -/
def planOkB (F : Nat) : List (Nat × Nat × Nat) → (Fin F → Bool) → Bool
  | [], _ => true
  | seg :: rest, p =>
    decide (0 < seg.1) && decide (0 < (segBins F seg.2.1 seg.2.2).length) &&
      decide (2 * (segBins F seg.2.1 seg.2.2).length ≤ 3 * ((segBins F seg.2.1 seg.2.2).filter p).length) &&
      planOkB F rest (fun f => p f || decide (seg.2.1 ≤ f.val ∧ f.val < seg.2.2))

theorem inter_card_eq_filter_length (F lo hi : Nat) (Al : Finset (Fin F)) (p : Fin F → Bool)
    (hp : ∀ f, p f = true ↔ f ∈ Al) :
    (Al ∩ segSet F lo hi).card = ((segBins F lo hi).filter p).length := by
  have h : Al ∩ segSet F lo hi = ((segBins F lo hi).filter p).toFinset := by
    ext f
    simp only [Finset.mem_inter, segSet, List.mem_toFinset, List.mem_filter, hp f]
    tauto
  rw [h, List.toFinset_card_of_nodup ((segBins_nodup F lo hi).filter _)]

theorem planOkB_sound (F : Nat) : ∀ (plan : List (Nat × Nat × Nat)) (p : Fin F → Bool) (Al : Finset (Fin F)),
    (∀ f, p f = true ↔ f ∈ Al) → planOkB F plan p = true → PlanOk F (0.81 / 1.21) (1.21 / 0.81 * 0.1) plan Al
  | [], _, _, _, _ => trivial
  | seg :: rest, p, Al, hp, h => by
    simp only [planOkB, Bool.and_eq_true, decide_eq_true_eq] at h
    obtain ⟨⟨⟨h1, h2⟩, h3⟩, h4⟩ := h
    refine ⟨h1, ?_, planOkB_sound F rest _ (Al ∪ segSet F seg.2.1 seg.2.2) ?_ h4⟩
    · rw [← segBins_length_eq_card, inter_card_eq_filter_length F _ _ Al p hp] at *
      exact planOk_step_of_two_thirds _ _ h2 h3
    · intro f
      simp only [Bool.or_eq_true, decide_eq_true_eq, Finset.mem_union, mem_segSet, hp f]

theorem mem_alignedAfter (F : Nat) : ∀ (plan : List (Nat × Nat × Nat)) (Al : Finset (Fin F)) (f : Fin F),
    f ∈ alignedAfter F plan Al ↔ f ∈ Al ∨ ∃ seg ∈ plan, seg.2.1 ≤ f.val ∧ f.val < seg.2.2
  | [], Al, f => by simp [alignedAfter]
  | seg :: rest, Al, f => by
    rw [alignedAfter, mem_alignedAfter F rest _ f]
    simp only [Finset.mem_union, mem_segSet, List.mem_cons, exists_eq_or_imp]
    tauto

/-- Boolean plan coverage: every bin lies in some segment -/
def coversB (F : Nat) (plan : List (Nat × Nat × Nat)) : Bool :=
  (List.finRange F).all fun f => plan.any fun seg => decide (seg.2.1 ≤ f.val ∧ f.val < seg.2.2)

theorem coversB_sound (F : Nat) (plan : List (Nat × Nat × Nat)) (Al : Finset (Fin F)) (h : coversB F plan = true)
    (f : Fin F) : f ∈ alignedAfter F plan Al := by
  rw [mem_alignedAfter]
  right
  have := (List.all_eq_true.mp h) f (List.mem_finRange f)
  obtain ⟨seg, hs, hd⟩ := List.any_eq_true.mp this
  exact ⟨seg, hs, by simpa using hd⟩

/-- plan entries `(iterations, lo, hi)` from the plan model, with the shipped iteration counts -/
def planWithIters (main sub : Nat) (c : Plan.Cfg) : List (Nat × Nat × Nat) :=
  match Plan.plan c with
  | [] => []
  | s :: rest => (main, s.1, s.2) :: rest.map fun r => (sub, r.1, r.2)

end PbBss.Align

import PbBss.Model.Greedy
import Mathlib.Order.WithBot
import Mathlib.Data.Fintype.Card
import Mathlib.Data.Finset.Card
import Mathlib.Tactic

namespace PbBss
variable {α : Type} [LinearOrder α] {K : Nat}

/-- view a masked score as an element of `WithBot α` (`none = ⊥ = -inf`) -/
def toWB (x : Sc α) : WithBot α := x

theorem gtSc_iff (x y : Sc α) : gtSc x y = true ↔ toWB y < toWB x := by
  cases x <;> cases y <;> simp [gtSc, toWB, WithBot.none_eq_bot, WithBot.some_eq_coe]

/-- the arg-max dominates the start value and every listed position -/
theorem argmaxOn_ge (s : Fin K → Fin K → Sc α) (l : List (Fin K × Fin K)) (b : Fin K × Fin K) :
    toWB (s b.1 b.2) ≤ toWB (s (argmaxOn s l b).1 (argmaxOn s l b).2) ∧
    ∀ q ∈ l, toWB (s q.1 q.2) ≤ toWB (s (argmaxOn s l b).1 (argmaxOn s l b).2) := by
  induction l generalizing b with
  | nil => simp [argmaxOn]
  | cons p ps ih =>
    simp only [argmaxOn]
    by_cases hg : gtSc (s p.1 p.2) (s b.1 b.2) = true
    · simp only [hg, if_true]
      obtain ⟨h1, h2⟩ := ih p
      have hlt := (gtSc_iff _ _).mp hg
      refine ⟨le_trans hlt.le h1, ?_⟩
      intro q hq
      rcases List.mem_cons.mp hq with rfl | hq
      · exact h1
      · exact h2 q hq
    · simp only [hg]
      obtain ⟨h1, h2⟩ := ih b
      have hle : toWB (s p.1 p.2) ≤ toWB (s b.1 b.2) := by
        rw [gtSc_iff] at hg; exact not_lt.mp hg
      refine ⟨h1, ?_⟩
      intro q hq
      rcases List.mem_cons.mp hq with rfl | hq
      · exact le_trans hle h1
      · exact h2 q hq

theorem mem_allPos' (p : Fin K × Fin K) : p ∈ allPos K := by
  simp [allPos, List.mem_flatMap]

/-- invariant: picked rows `R` are masked together with the columns `σ '' R`; `rp` agrees with `σ` on `R` -/
structure InvD (s0 : Fin K → Fin K → α) (σ : Fin K → Fin K) (s : Fin K → Fin K → Sc α)
    (rp : Fin K → Fin K) (R : Finset (Fin K)) : Prop where
  val : ∀ a b, s a b = if a ∈ R ∨ b ∈ R.image σ then none else some (s0 a b)
  agree : ∀ a ∈ R, rp a = σ a

theorem greedyLoop_eq (hK : 0 < K) (s0 : Fin K → Fin K → α) (σ : Fin K → Fin K)
    (hσ : Function.Injective σ) (hdom : ∀ i j, j ≠ σ i → s0 i j < s0 i (σ i)) :
    ∀ (t : Nat) (s : Fin K → Fin K → Sc α) (rp : Fin K → Fin K) (R : Finset (Fin K)),
      InvD s0 σ s rp R → R.card + t = K → greedyLoop hK t s rp = σ := by
  intro t
  induction t with
  | zero =>
    intro s rp R hI hc
    simp only [greedyLoop]
    have hR : R = Finset.univ := Finset.eq_univ_of_card _ (by simpa using hc)
    funext a; exact hI.agree a (by simp [hR])
  | succ t ih =>
    intro s rp R hI hc
    simp only [greedyLoop]
    set p := argmaxOn s (allPos K) (⟨0, hK⟩, ⟨0, hK⟩) with hp
    have hRlt : R.card < K := by omega
    obtain ⟨a, ha⟩ : ∃ a, a ∉ R := by
      by_contra h; push_neg at h
      have : R = Finset.univ := Finset.eq_univ_iff_forall.mpr h
      simp [this] at hRlt
    have hσa : σ a ∉ R.image σ := by
      simp only [Finset.mem_image, not_exists, not_and]
      intro x hx hxa; exact ha (hσ hxa ▸ hx)
    obtain ⟨_, hmax⟩ := argmaxOn_ge s (allPos K) (⟨0, hK⟩, ⟨0, hK⟩)
    -- the arg-max is unmasked
    have hpa := hmax (a, σ a) (mem_allPos' _)
    have hsa : s a (σ a) = some (s0 a (σ a)) := by rw [hI.val]; simp [ha, hσa]
    have hpsome : ¬ (p.1 ∈ R ∨ p.2 ∈ R.image σ) := by
      intro hm
      have : s p.1 p.2 = none := by rw [hI.val, if_pos hm]
      rw [this, hsa] at hpa
      simp [toWB, WithBot.none_eq_bot, WithBot.some_eq_coe] at hpa
    push_neg at hpsome
    -- and lies on the graph of σ (row dominance)
    have hp2 : p.2 = σ p.1 := by
      by_contra hne
      have hσp : σ p.1 ∉ R.image σ := by
        simp only [Finset.mem_image, not_exists, not_and]
        intro x hx hxa; exact hpsome.1 (hσ hxa ▸ hx)
      have h1 := hmax (p.1, σ p.1) (mem_allPos' _)
      have e1 : s p.1 (σ p.1) = some (s0 p.1 (σ p.1)) := by rw [hI.val]; simp [hpsome.1, hσp]
      have e2 : s p.1 p.2 = some (s0 p.1 p.2) := by rw [hI.val]; simp [hpsome.1, hpsome.2]
      rw [e1, e2] at h1
      simp only [toWB, WithBot.some_eq_coe, WithBot.coe_le_coe] at h1
      exact absurd (hdom p.1 p.2 hne) (not_lt.mpr h1)
    apply ih (maskRC s p.1 p.2) _ (insert p.1 R)
    · refine ⟨?_, ?_⟩
      · intro x y
        simp only [maskRC, hI.val, Finset.image_insert, Finset.mem_insert, ← hp2]
        by_cases hx : x = p.1 <;> by_cases hy : y = p.2 <;> simp [hx, hy]
      · intro x hx
        simp only [Finset.mem_insert] at hx
        by_cases hx1 : x = p.1
        · simp [hx1, hp2]
        · simp only [hx1, if_false]; exact hI.agree x (by tauto)
    · rw [Finset.card_insert_of_notMem hpsome.1]; omega

/-- **row dominance ⇒ the greedy assignment is exactly σ** (used by C15 and C16) -/
theorem row_dominant_greedy (hK : 0 < K) (s0 : Fin K → Fin K → α) (σ : Fin K → Fin K)
    (hσ : Function.Injective σ) (hdom : ∀ i j, j ≠ σ i → s0 i j < s0 i (σ i)) :
    greedy hK s0 = σ := by
  unfold greedy
  apply greedyLoop_eq hK s0 σ hσ hdom K _ _ ∅
  · exact ⟨by simp, by simp⟩
  · simp

end PbBss

import Mathlib.Analysis.Matrix.PosDef
import Mathlib.Analysis.Matrix.Spectrum
import Mathlib.Analysis.SpecialFunctions.Log.Basic
import Mathlib.Tactic

open Matrix
open scoped ComplexOrder

variable {n : Type} [Fintype n] [DecidableEq n]

/-- for a positive definite Hermitian matrix: `n + log det A ≤ tr A` (sum over eigenvalues of `x - 1 - log x ≥ 0`) -/
theorem card_add_log_det_le_trace (A : Matrix n n ℂ) (hA : A.PosDef) :
    (Fintype.card n : ℝ) + Real.log (A.det).re ≤ (A.trace).re := by
  have hH := hA.isHermitian
  have hdet : A.det = ∏ i, ((hH.eigenvalues i : ℝ) : ℂ) := hH.det_eq_prod_eigenvalues
  have htr : A.trace = ∑ i, ((hH.eigenvalues i : ℝ) : ℂ) := hH.trace_eq_sum_eigenvalues
  have hpos : ∀ i, 0 < hH.eigenvalues i := fun i => hA.eigenvalues_pos i
  rw [hdet, htr]
  rw [← Complex.ofReal_prod, ← Complex.ofReal_sum, Complex.ofReal_re, Complex.ofReal_re]
  rw [Real.log_prod (fun i _ => (hpos i).ne')]
  have : ∀ i, 1 + Real.log (hH.eigenvalues i) ≤ hH.eigenvalues i := by
    intro i
    have := Real.log_le_sub_one_of_pos (hpos i)
    linarith
  calc (Fintype.card n : ℝ) + ∑ i, Real.log (hH.eigenvalues i)
      = ∑ i, (1 + Real.log (hH.eigenvalues i)) := by
        rw [Finset.sum_add_distrib]; simp
    _ ≤ ∑ i, hH.eigenvalues i := Finset.sum_le_sum fun i _ => this i


import PbBss.Props.C17Ideal
/-! C17, beyond ideal masks: the pipeline on TWO-LEVEL ("leaky") masks — `g` on the frames a class owns, `h` on all
other frames — with GENERAL (not orthogonal) steering vectors.  This is the shape the EM posteriors have exactly in
the balanced noise-free scene after every number of iterations (`cacg_trajectory_stationary`,
`PbBss/Proofs/FixedPointCacgChain.lean`; `twoLevel c g h`).

* `two_level_mask_psd`   — `get_power_spectral_density_matrix` (model `psd`, floor kept as `max`) on a two-level mask is
  the mass-weighted combination `Σ_j μ_kj P_j a_j a_jᴴ` of the ideal class PSDs;
* `two_level_noise_psd`  — the noise PSD of target `k` is `Σ_j ν_kj P_j a_j a_jᴴ`, `ν_kj = Σ_{i≠k} μ_ij`: it contains the
  target direction with the coefficient `ν_kk = h·Σ_{i≠k} 1/den_i` (`nuW_target`) and every interferer with
  `ν_kj ≥ g/den_j > 0` (`nuW_ge`, `nuW_pos`);
* `mvdr_invariant_under_target_leak` (+ `_psd`, `mvdr_leak_free_of_leaky`) — MPDR = MVDR: adding `δ a aᴴ` to the noise
  PSD rescales the solver value and leaves `u/(aᴴu)` unchanged;
* `leaky_pipeline_sir_partial`, `leaky_pipeline_true_sir`, `two_level_pipeline_sir_partial` — the SIR bound for the MVDR
  vector computed from the LEAKY noise PSD. -/
open Matrix PbBss PbBss.Pipeline
open scoped ComplexOrder

namespace PbBss.PipelineProof

variable {K D : Nat}

/-! ### (i), (ii): the PSD estimator on two-level masks -/
section twoLevel
variable {F T : Nat}

/-- `n_j`: number of frames owned by class `j` -/
noncomputable def frames (owner : Fin T → Fin K) (j : Fin K) : ℝ := ∑ t, if owner t = j then (1 : ℝ) else 0

/-- `P_j`: energy of source `j` in bin `f`, `Σ_{t : owner t = j} |s f t|²` -/
noncomputable def energy (owner : Fin T → Fin K) (s : Fin F → Fin T → ℂ) (f : Fin F) (j : Fin K) : ℝ :=
  ∑ t, if owner t = j then Complex.normSq (s f t) else 0

/-- mass of the two-level mask of class `k`: `g·n_k + h·Σ_{j≠k} n_j` -/
noncomputable def maskMass (g h : ℝ) (owner : Fin T → Fin K) (k : Fin K) : ℝ :=
  g * frames owner k + h * ∑ j, if j = k then (0 : ℝ) else frames owner j

/-- `μ_kj = (if j = k then g else h) / max(g·n_k + h·Σ_{j≠k} n_j, floor)`: the weight of source `j` in the PSD of class `k` -/
noncomputable def muW (floor g h : ℝ) (owner : Fin T → Fin K) (k j : Fin K) : ℝ :=
  (if j = k then g else h) / max (maskMass g h owner k) floor

/-- `ν_kj = Σ_{i≠k} μ_ij`: the weight of source `j` in the noise PSD of target `k` -/
noncomputable def nuW (floor g h : ℝ) (owner : Fin T → Fin K) (k j : Fin K) : ℝ :=
  ∑ i, if i = k then (0 : ℝ) else muW floor g h owner i j

theorem frames_nonneg (owner : Fin T → Fin K) (j : Fin K) : 0 ≤ frames owner j :=
  Finset.sum_nonneg fun t _ => by split <;> norm_num

theorem energy_nonneg (owner : Fin T → Fin K) (s : Fin F → Fin T → ℂ) (f : Fin F) (j : Fin K) :
    0 ≤ energy owner s f j :=
  Finset.sum_nonneg fun t _ => by
    split
    · exact Complex.normSq_nonneg _
    · exact le_refl _

/-- the time sum of the two-level mask of class `k` is `g·n_k + h·Σ_{j≠k} n_j` -/
theorem twoLevel_mass (g h : ℝ) (owner : Fin T → Fin K) (k : Fin K) :
    ∑ t, (if owner t = k then g else h) = maskMass g h owner k := by
  unfold maskMass frames
  have h2 : (∑ j, if j = k then (0 : ℝ) else ∑ t, if owner t = j then (1 : ℝ) else 0)
      = ∑ t, if owner t = k then (0 : ℝ) else 1 := by
    have : ∀ j, (if j = k then (0 : ℝ) else ∑ t, if owner t = j then (1 : ℝ) else 0)
        = ∑ t, if j = k then (0 : ℝ) else if owner t = j then 1 else 0 := by
      intro j; split <;> simp
    simp only [this]
    rw [Finset.sum_comm]
    refine Finset.sum_congr rfl fun t _ => ?_
    rw [Finset.sum_eq_single (owner t)]
    · by_cases h : owner t = k <;> simp [h]
    · intro j _ hj
      split
      · rfl
      · simp [Ne.symm hj]
    · simp
  rw [h2, Finset.mul_sum, Finset.mul_sum, ← Finset.sum_add_distrib]
  refine Finset.sum_congr rfl fun t _ => ?_
  by_cases h : owner t = k <;> simp [h]

theorem maskMass_nonneg {g h : ℝ} (hg : 0 ≤ g) (hh : 0 ≤ h) (owner : Fin T → Fin K) (k : Fin K) :
    0 ≤ maskMass g h owner k := by
  rw [← twoLevel_mass]
  exact Finset.sum_nonneg fun t _ => by split <;> assumption

theorem muW_nonneg {floor g h : ℝ} (hf : 0 < floor) (hg : 0 ≤ g) (hh : 0 ≤ h) (owner : Fin T → Fin K) (k j : Fin K) :
    0 ≤ muW floor g h owner k j := by
  unfold muW
  have : 0 < max (maskMass g h owner k) floor := lt_of_lt_of_le hf (le_max_right _ _)
  split <;> positivity

theorem nuW_nonneg {floor g h : ℝ} (hf : 0 < floor) (hg : 0 ≤ g) (hh : 0 ≤ h) (owner : Fin T → Fin K) (k j : Fin K) :
    0 ≤ nuW floor g h owner k j :=
  Finset.sum_nonneg fun i _ => by
    split
    · exact le_refl _
    · exact muW_nonneg hf hg hh owner i j

/-- **(i) PSD of a two-level mask.**  Frames carry one source each, `y[f,:,t] = a f (owner t) • s f t` (the scene of
`ideal_mask_psd`); the mask of class `k` is `g` on the frames owned by `k` and `h` on all other frames.  Then
`get_power_spectral_density_matrix` (model `psd`, the floor `max(·, floor)` of the normalisation KEPT, no sign
assumption on `g`, `h` needed) returns the mass-weighted combination of the ideal class PSDs
`Σ_j μ_kj · P_j · a_j a_jᴴ`, `μ_kj = (if j = k then g else h) / max(g·n_k + h·Σ_{j≠k} n_j, floor)`. -/
theorem two_level_mask_psd (floor g h : ℝ) (owner : Fin T → Fin K) (s : Fin F → Fin T → ℂ)
    (a : Fin F → Fin K → Fin D → ℂ) (f : Fin F) (k : Fin K) (d e : Fin D) :
    psd floor (fun f d t => a f (owner t) d * s f t) (fun _ k t => if owner t = k then g else h) f k d e =
      ∑ j, ((muW floor g h owner k j * energy owner s f j : ℝ) : ℂ) * (a f j d * (starRingEnd ℂ) (a f j e)) := by
  simp only [psd, normalizeMask, vsum_eq_sum, twoLevel_mass, cj, cx_conj, cx_ofReal]
  have hR : ∀ j, ((muW floor g h owner k j * energy owner s f j : ℝ) : ℂ) * (a f j d * (starRingEnd ℂ) (a f j e))
      = ∑ t, if owner t = j then
          ((muW floor g h owner k j * Complex.normSq (s f t) : ℝ) : ℂ) * (a f j d * (starRingEnd ℂ) (a f j e))
        else 0 := by
    intro j
    unfold energy
    rw [Finset.mul_sum, Complex.ofReal_sum, Finset.sum_mul]
    refine Finset.sum_congr rfl fun t _ => ?_
    split <;> simp
  simp only [hR]
  rw [Finset.sum_comm]
  refine Finset.sum_congr rfl fun t _ => ?_
  rw [Finset.sum_ite_eq]
  simp only [Finset.mem_univ, if_true, muW, map_mul, Complex.ofReal_mul]
  rw [Complex.normSq_eq_conj_mul_self]
  ring

/-- the ideal mask is the case `g = 1`, `h = 0`: only the term `j = k` survives, `μ_kk = 1/max(n_k, floor)` -/
theorem two_level_mask_psd_ideal (floor : ℝ) (owner : Fin T → Fin K) (s : Fin F → Fin T → ℂ)
    (a : Fin F → Fin K → Fin D → ℂ) (f : Fin F) (k : Fin K) (d e : Fin D) :
    psd floor (fun f d t => a f (owner t) d * s f t) (fun _ k t => if owner t = k then (1 : ℝ) else 0) f k d e =
      classPsd (energy owner s f k / max (frames owner k) floor) 0 (a f k) d e := by
  rw [two_level_mask_psd]
  rw [Finset.sum_eq_single k]
  · simp [muW, maskMass, classPsd, cj]
    left
    ring
  · intro j _ hj
    simp [muW, hj]
  · simp

/-- **(ii) noise PSD of target `k` from two-level masks**: `Σ_{i≠k} psd f i = Σ_j ν_kj · P_j · a_j a_jᴴ` with
`ν_kj = Σ_{i≠k} μ_ij`.  The sum runs over ALL sources `j`, the target `j = k` included (coefficient `ν_kk`, see
`nuW_target`: the target leaks into the noise PSD as soon as `h > 0`). -/
theorem two_level_noise_psd (floor g h : ℝ) (owner : Fin T → Fin K) (s : Fin F → Fin T → ℂ)
    (a : Fin F → Fin K → Fin D → ℂ) (f : Fin F) (k : Fin K) (d e : Fin D) :
    noiseFromPsd (psd floor (fun f d t => a f (owner t) d * s f t) (fun _ k t => if owner t = k then g else h)) f k d e =
      ∑ j, ((nuW floor g h owner k j * energy owner s f j : ℝ) : ℂ) * (a f j d * (starRingEnd ℂ) (a f j e)) := by
  simp only [noiseFromPsd, vsum_eq_sum, two_level_mask_psd]
  have hL : ∀ i, (if i = k then (0 : ℂ) else
      ∑ j, ((muW floor g h owner i j * energy owner s f j : ℝ) : ℂ) * (a f j d * (starRingEnd ℂ) (a f j e)))
      = ∑ j, (((if i = k then (0 : ℝ) else muW floor g h owner i j) * energy owner s f j : ℝ) : ℂ)
          * (a f j d * (starRingEnd ℂ) (a f j e)) := by
    intro i; split <;> simp
  simp only [hL]
  rw [Finset.sum_comm]
  refine Finset.sum_congr rfl fun j _ => ?_
  unfold nuW
  rw [← Finset.sum_mul]
  congr 1
  rw [Finset.sum_mul, Complex.ofReal_sum]

/-- the target-leak coefficient: `ν_kk = h · Σ_{i≠k} 1/max(mass_i, floor)` — zero iff `h = 0` (or `K = 1`) -/
theorem nuW_target (floor g h : ℝ) (owner : Fin T → Fin K) (k : Fin K) :
    nuW floor g h owner k k = h * ∑ i, if i = k then (0 : ℝ) else 1 / max (maskMass g h owner i) floor := by
  unfold nuW muW
  rw [Finset.mul_sum]
  refine Finset.sum_congr rfl fun i _ => ?_
  by_cases hi : i = k
  · simp [hi]
  · simp [hi, Ne.symm hi, div_eq_mul_inv]

/-- every interferer `j ≠ k` enters the noise PSD of target `k` at least with its own-class weight `μ_jj = g/den_j` -/
theorem nuW_ge {floor g h : ℝ} (hf : 0 < floor) (hg : 0 ≤ g) (hh : 0 ≤ h) (owner : Fin T → Fin K) {k j : Fin K}
    (hj : j ≠ k) : g / max (maskMass g h owner j) floor ≤ nuW floor g h owner k j := by
  unfold nuW
  have h1 : g / max (maskMass g h owner j) floor = if j = k then (0 : ℝ) else muW floor g h owner j j := by
    simp [hj, muW]
  rw [h1]
  exact Finset.single_le_sum (f := fun i => if i = k then (0 : ℝ) else muW floor g h owner i j)
    (fun i _ => by
      show 0 ≤ if i = k then (0 : ℝ) else muW floor g h owner i j
      split
      · exact le_refl _
      · exact muW_nonneg hf hg hh owner i j) (Finset.mem_univ j)

theorem nuW_pos {floor g h : ℝ} (hf : 0 < floor) (hg : 0 < g) (hh : 0 ≤ h) (owner : Fin T → Fin K) {k j : Fin K}
    (hj : j ≠ k) : 0 < nuW floor g h owner k j := by
  refine lt_of_lt_of_le ?_ (nuW_ge hf hg.le hh owner hj)
  have : 0 < max (maskMass g h owner j) floor := lt_of_lt_of_le hf (le_max_right _ _)
  positivity

end twoLevel

/-! ### (iii) MPDR = MVDR: a target-direction term in the noise PSD does not change the distortionless vector -/

theorem mvdrFromSolve_smul (a u : Fin D → ℂ) {c : ℂ} (hc : c ≠ 0) :
    mvdrFromSolve (α := ℝ) a (c • u) = mvdrFromSolve (α := ℝ) a u := by
  funext d
  simp only [mvdrFromSolve, cdot_eq, dotProduct_smul, Pi.smul_apply, smul_eq_mul]
  exact mul_div_mul_left _ _ hc

/-- **(iii) MVDR is invariant under target leakage into the noise PSD.**  `Φ` any square matrix (Hermitian-ness is
not needed), `u` the solver value `Φ u = a`, `δ` any complex number with `1 + δ·aᴴu ≠ 0`.  Then
`u' = u / (1 + δ·aᴴu)` solves the leaky system `(Φ + δ·a aᴴ) u' = a`, and the distortionless vector `u'/(aᴴu')` computed
from the leaky PSD is the one computed from the leak-free PSD. -/
theorem mvdr_invariant_under_target_leak (Φ : Matrix (Fin D) (Fin D) ℂ) (a u : Fin D → ℂ) (δ : ℂ)
    (hu : Φ *ᵥ u = a) (hδ : 1 + δ * (star a ⬝ᵥ u) ≠ 0) :
    (Φ + δ • vecMulVec a (star a)) *ᵥ ((1 + δ * (star a ⬝ᵥ u))⁻¹ • u) = a ∧
      mvdrFromSolve (α := ℝ) a ((1 + δ * (star a ⬝ᵥ u))⁻¹ • u) = mvdrFromSolve (α := ℝ) a u := by
  refine ⟨?_, mvdrFromSolve_smul a u (inv_ne_zero hδ)⟩
  rw [mulVec_smul, add_mulVec, hu, smul_mulVec, vecMulVec_mulVec, op_smul_eq_smul, smul_smul]
  have : a + (δ * (star a ⬝ᵥ u)) • a = (1 + δ * (star a ⬝ᵥ u)) • a := by rw [add_smul, one_smul]
  rw [this, smul_smul, inv_mul_cancel₀ hδ, one_smul]

/-- (iii) with the guard discharged: `Φ` Hermitian positive semidefinite and `δ ≥ 0` real give `aᴴu = uᴴΦu ≥ 0`, so
`1 + δ·aᴴu ≥ 1 ≠ 0` -/
theorem mvdr_invariant_under_target_leak_psd (Φ : Matrix (Fin D) (Fin D) ℂ) (hΦ : Φ.PosSemidef) (a u : Fin D → ℂ)
    (δ : ℝ) (hδ : 0 ≤ δ) (hu : Φ *ᵥ u = a) :
    (Φ + (δ : ℂ) • vecMulVec a (star a)) *ᵥ ((1 + (δ : ℂ) * (star a ⬝ᵥ u))⁻¹ • u) = a ∧
      mvdrFromSolve (α := ℝ) a ((1 + (δ : ℂ) * (star a ⬝ᵥ u))⁻¹ • u) = mvdrFromSolve (α := ℝ) a u := by
  refine mvdr_invariant_under_target_leak Φ a u δ hu ?_
  have hq : star a ⬝ᵥ u = star u ⬝ᵥ Φ *ᵥ u := by rw [← hu, herm_swap Φ hΦ.1]
  have h0 : 0 ≤ star u ⬝ᵥ Φ *ᵥ u := hΦ.dotProduct_mulVec_nonneg u
  have hre : 0 ≤ (star a ⬝ᵥ u).re := by rw [hq]; exact (Complex.nonneg_iff.mp h0).1
  intro hz
  have := congrArg Complex.re hz
  simp only [Complex.add_re, Complex.one_re, Complex.re_ofReal_mul, Complex.zero_re] at this
  nlinarith [mul_nonneg hδ hre]

/-- (iii), the direction the pipeline needs: the solver is run on the LEAKY PSD `Φ + δ·a aᴴ`.  If the leak-free part `Φ`
is injective (white noise part positive), its value `u'` is a non-zero multiple of a solution `u` of the leak-free
system `Φ u = a`, and yields the same distortionless vector. -/
theorem mvdr_leak_free_of_leaky (Φ : Matrix (Fin D) (Fin D) ℂ) (hinj : ∀ x, Φ *ᵥ x = 0 → x = 0) (a u' : Fin D → ℂ)
    (δ : ℂ) (hu' : (Φ + δ • vecMulVec a (star a)) *ᵥ u' = a) :
    1 - δ * (star a ⬝ᵥ u') ≠ 0 ∧
      Φ *ᵥ ((1 - δ * (star a ⬝ᵥ u'))⁻¹ • u') = a ∧
      mvdrFromSolve (α := ℝ) a u' = mvdrFromSolve (α := ℝ) a ((1 - δ * (star a ⬝ᵥ u'))⁻¹ • u') := by
  have h1 : Φ *ᵥ u' = (1 - δ * (star a ⬝ᵥ u')) • a := by
    rw [add_mulVec, smul_mulVec, vecMulVec_mulVec, op_smul_eq_smul, smul_smul] at hu'
    rw [sub_smul, one_smul]
    exact eq_sub_of_add_eq hu'
  have hne : 1 - δ * (star a ⬝ᵥ u') ≠ 0 := by
    intro hz
    rw [hz, zero_smul] at h1
    have hu0 : u' = 0 := hinj u' h1
    rw [hu0, dotProduct_zero, mul_zero, sub_zero] at hz
    exact one_ne_zero hz
  refine ⟨hne, ?_, (mvdrFromSolve_smul a u' (inv_ne_zero hne)).symm⟩
  rw [mulVec_smul, h1, smul_smul, inv_mul_cancel₀ hne, one_smul]

/-! ### (iv) the SIR bound for the MVDR vector computed from the leaky noise PSD -/

/-- the noise PSD of target `k` as (ii) delivers it, plus the white part of `noisePsd`:
`Σ_j ν_j σ_j a_j a_jᴴ + (Σ_{j≠k} ε_j)·1` — the sum runs over ALL sources, the target `j = k` included -/
noncomputable def leakyNoisePsd (nu sigma eps : Fin K → ℝ) (a : Fin K → Fin D → ℂ) (k : Fin K) : Fin D → Fin D → ℂ :=
  fun d e => (∑ j, ((nu j * sigma j : ℝ) : ℂ) * (a j d * (starRingEnd ℂ) (a j e)))
    + if d = e then ((noiseEps eps k : ℝ) : ℂ) else 0

/-- the scene the beamformer "sees" through the leaky noise PSD: the target keeps its power `σ_k`, every interferer
`j ≠ k` has the leak-weighted power `ν_j σ_j` -/
noncomputable def leakPow (nu sigma : Fin K → ℝ) (k : Fin K) : Fin K → ℝ :=
  fun j => if j = k then sigma k else nu j * sigma j

theorem leakPow_nonneg {nu sigma : Fin K → ℝ} (hs : ∀ j, 0 ≤ sigma j) (hnu : ∀ j, 0 ≤ nu j) (k j : Fin K) :
    0 ≤ leakPow nu sigma k j := by
  unfold leakPow
  split
  · exact hs k
  · exact mul_nonneg (hnu j) (hs j)

/-- leaky noise PSD = leak-free noise PSD of the leak-weighted scene + the target-leak term `ν_k σ_k a_k a_kᴴ` -/
theorem leakyNoisePsd_eq (nu sigma eps : Fin K → ℝ) (a : Fin K → Fin D → ℂ) (k : Fin K) :
    Matrix.of (leakyNoisePsd nu sigma eps a k) =
      Matrix.of (noisePsd (leakPow nu sigma k) eps a k)
        + ((nu k * sigma k : ℝ) : ℂ) • vecMulVec (a k) (star (a k)) := by
  ext d e
  simp only [leakyNoisePsd, noisePsd, classPsd, noiseEps, vsum_eq_sum, cj, cx_conj, cx_ofReal, Matrix.of_apply,
    Matrix.add_apply, Matrix.smul_apply, vecMulVec_apply, Pi.star_apply, smul_eq_mul, RCLike.star_def]
  have hterm : ∀ j, (if j = k then (0 : ℂ) else
        ((leakPow nu sigma k j : ℝ) : ℂ) * (a j d * (starRingEnd ℂ) (a j e)) + if d = e then ((eps j : ℝ) : ℂ) else 0)
      = (((nu j * sigma j : ℝ) : ℂ) * (a j d * (starRingEnd ℂ) (a j e))
          - if j = k then ((nu k * sigma k : ℝ) : ℂ) * (a k d * (starRingEnd ℂ) (a k e)) else 0)
        + (if d = e then (((if j = k then (0 : ℝ) else eps j : ℝ)) : ℂ) else 0) := by
    intro j
    by_cases hj : j = k
    · subst hj; simp
    · simp [hj, leakPow]
  simp only [hterm]
  rw [Finset.sum_add_distrib, Finset.sum_sub_distrib, Finset.sum_ite_eq']
  simp only [Finset.mem_univ, if_true]
  have hw : (∑ j, if d = e then (((if j = k then (0 : ℝ) else eps j : ℝ)) : ℂ) else 0)
      = if d = e then ((∑ j, if j = k then (0 : ℝ) else eps j : ℝ) : ℂ) else 0 := by
    split <;> simp
  rw [hw]
  ring

/-- the leak-weighted interference dominates `ν_min` times the true interference -/
theorem interference_min_weight {nu sigma : Fin K → ℝ} (hs : ∀ j, 0 ≤ sigma j) (k : Fin K) {numin : ℝ}
    (hmin : ∀ j, j ≠ k → numin ≤ nu j) (a : Fin K → Fin D → ℂ) (w : Fin D → ℂ) :
    numin * interference sigma a w k ≤ interference (leakPow nu sigma k) a w k := by
  simp only [interference, vsum_eq_sum, outPower, absSq_eq, Finset.mul_sum]
  refine Finset.sum_le_sum fun j _ => ?_
  by_cases hj : j = k
  · simp [hj]
  · simp only [hj, if_false, leakPow]
    have h1 : 0 ≤ sigma j * Complex.normSq (cdot ℝ w (a j)) := mul_nonneg (hs j) (Complex.normSq_nonneg _)
    nlinarith [hmin j hj]

/-- what (iii) gives for the model's PSDs: the solver value on the leaky noise PSD is a non-zero multiple of a solver
value `u` on the leak-free noise PSD of the leak-weighted scene -/
theorem leaky_solver_reduce (nu sigma eps : Fin K → ℝ) (hs : ∀ j, 0 ≤ sigma j) (hnu : ∀ j, 0 ≤ nu j)
    (a : Fin K → Fin D → ℂ) (k : Fin K) (hpos : 0 < noiseEps eps k) (u' : Fin D → ℂ)
    (hu : (Matrix.of (leakyNoisePsd nu sigma eps a k)) *ᵥ u' = a k) :
    ∃ (u : Fin D → ℂ) (c : ℂ), c ≠ 0 ∧ (Matrix.of (noisePsd (leakPow nu sigma k) eps a k)) *ᵥ u = a k ∧
      u' = (fun d => c * u d) ∧
      mvdrFromSolve (α := ℝ) (a k) u' = mvdrFromSolve (α := ℝ) (a k) u := by
  rw [leakyNoisePsd_eq] at hu
  obtain ⟨hne, hsol, hmv⟩ := mvdr_leak_free_of_leaky (Matrix.of (noisePsd (leakPow nu sigma k) eps a k))
    (fun x hx => noisePsd_injective (leakPow_nonneg hs hnu k) a k hpos hx) (a k) u' _ hu
  refine ⟨_, _, hne, hsol, ?_, hmv⟩
  funext d
  simp only [Pi.smul_apply, smul_eq_mul]
  rw [← mul_assoc, mul_inv_cancel₀ hne, one_mul]

theorem leakPow_self (nu sigma : Fin K → ℝ) (k : Fin K) : leakPow nu sigma k k = sigma k := by simp [leakPow]

theorem outPower_leakPow (nu sigma : Fin K → ℝ) (a : Fin K → Fin D → ℂ) (w : Fin D → ℂ) (k : Fin K) :
    outPower (leakPow nu sigma k) a w k = outPower sigma a w k := by
  simp only [outPower, leakPow_self]

/-- **(iv-a) leakage bound for the MVDR vector computed from the LEAKY noise PSD.**  `Φ_leaky = Σ_j ν_j σ_j a_j a_jᴴ + ε·1`
(all `j`, target included; `σ_j, ν_j ≥ 0`, `ε = Σ_{j≠k} ε_j > 0`), solver contract `Φ_leaky u' = a_k` with the TRUE steering
vector, `v` any zero-forcing vector.  Then `w = u'/(a_kᴴu')` is distortionless for the target and
`Σ_{j≠k} ν_j σ_j |wᴴa_j|² + ε‖w‖² ≤ ε‖v‖²` — exactly the bound of `mvdr_leakage_bound` for the leak-free noise PSD: the
target-leak term `ν_k σ_k a_k a_kᴴ` costs nothing (by `mvdr_leak_free_of_leaky`). -/
theorem leaky_mvdr_leakage_bound (nu sigma eps : Fin K → ℝ) (hs : ∀ j, 0 ≤ sigma j) (hnu : ∀ j, 0 ≤ nu j)
    (he : ∀ j, 0 ≤ eps j) (a : Fin K → Fin D → ℂ) (k : Fin K) (hpos : 0 < noiseEps eps k) (u' v : Fin D → ℂ)
    (hu : (Matrix.of (leakyNoisePsd nu sigma eps a k)) *ᵥ u' = a k)
    (hv1 : star v ⬝ᵥ a k = 1) (hv0 : ∀ j, j ≠ k → star v ⬝ᵥ a j = 0) :
    outPower sigma a (mvdrFromSolve (α := ℝ) (a k) u') k = sigma k ∧
      interference (leakPow nu sigma k) a (mvdrFromSolve (α := ℝ) (a k) u') k
          + noiseEps eps k * normSq (α := ℝ) (mvdrFromSolve (α := ℝ) (a k) u')
        ≤ noiseEps eps k * normSq (α := ℝ) v := by
  obtain ⟨u, c', -, hsol, -, hmv⟩ := leaky_solver_reduce nu sigma eps hs hnu a k hpos u' hu
  rw [hmv]
  obtain ⟨h1, -, -⟩ := C17.sir_bound_mul (leakPow nu sigma k) eps (leakPow_nonneg hs hnu k) he a k hpos u v hsol hv1 hv0
  rw [outPower_leakPow, leakPow_self] at h1
  exact ⟨h1, C17.mvdr_leakage_bound (leakPow nu sigma k) eps (leakPow_nonneg hs hnu k) he a k hpos u v hsol hv1 hv0⟩

/-- **(iv) leaky-mask pipeline bound, leak-weighted powers (partial: two-level masks, expectation-level white noise).**
Any beamformer `w` that is a non-zero multiple of the solver value `u'` on the LEAKY noise PSD
`Σ_j ν_j σ_j a_j a_jᴴ + ε·1` with the true steering vector (`Φ_leaky u' = a_k`: MVDR, Souden form, BAN rescaling …) reaches
`SIR ≥ 1000` (30 dB) in the scene with the interferer powers replaced by their leak-weighted values `ν_j σ_j`
(`leakPow`), under the SAME premises as `ideal_pipeline_sir_partial` (noise floor 40 dB below the target, a
zero-forcing vector of squared norm ≤ 10): nothing is lost through the target-leak term `ν_k σ_k a_k a_kᴴ`. -/
theorem leaky_pipeline_sir_partial (nu sigma eps : Fin K → ℝ) (hs : ∀ j, 0 ≤ sigma j) (hnu : ∀ j, 0 ≤ nu j)
    (he : ∀ j, 0 ≤ eps j) (a : Fin K → Fin D → ℂ) (k : Fin K) (hpos : 0 < noiseEps eps k) (u' v w : Fin D → ℂ) (c : ℂ)
    (hu : (Matrix.of (leakyNoisePsd nu sigma eps a k)) *ᵥ u' = a k)
    (hw : w = fun d => c * u' d) (hc : c ≠ 0)
    (hv1 : star v ⬝ᵥ a k = 1) (hv0 : ∀ j, j ≠ k → star v ⬝ᵥ a j = 0)
    (hI : 0 < interference (leakPow nu sigma k) a w k)
    (hfloor : noiseEps eps k ≤ 1e-4 * sigma k) (hv : normSq (α := ℝ) v ≤ 10) :
    1000 ≤ sirOut (leakPow nu sigma k) a w k ∧
      30 ≤ 10 * Real.logb 10 (sirOut (leakPow nu sigma k) a w k) := by
  obtain ⟨u, c', hc', hsol, hu'eq, -⟩ := leaky_solver_reduce nu sigma eps hs hnu a k hpos u' hu
  have hw' : w = fun d => (c * c') * u d := by
    rw [hw, hu'eq]; funext d; ring
  exact C17.ideal_pipeline_sir_partial (leakPow nu sigma k) eps (leakPow_nonneg hs hnu k) he a k hpos u v w (c * c')
    hsol hw' (mul_ne_zero hc hc') hv1 hv0 hI (by rw [leakPow_self]; exact hfloor) hv

theorem logb_30 {x : ℝ} (h : 1000 ≤ x) : 30 ≤ 10 * Real.logb 10 x := by
  have h3 : Real.logb 10 1000 = 3 := by
    rw [show (1000 : ℝ) = 10 ^ (3 : ℕ) by norm_num, Real.logb_pow, Real.logb_self_eq_one (by norm_num)]
    norm_num
  have := Real.logb_le_logb_of_le (b := 10) (by norm_num) (by norm_num : (0 : ℝ) < 1000) h
  rw [h3] at this
  linarith

/-- **(iv-b) leaky-mask pipeline bound, TRUE powers.**  Same beamformer; the SIR is now measured with the true source
powers `σ_j`.  If every interferer enters the leaky noise PSD at least with weight `ν_min > 0` (`ν_j ≥ ν_min`, `j ≠ k`;
for two-level masks `ν_kj ≥ g/den_j`, `nuW_ge`) then `ν_min · Σ_{j≠k} σ_j|wᴴa_j|² ≤ ε‖v‖²`, and the 30 dB conclusion holds
when the noise floor is 40 dB below `ν_min σ_k`. -/
theorem leaky_pipeline_true_sir (nu sigma eps : Fin K → ℝ) (hs : ∀ j, 0 ≤ sigma j) (hnu : ∀ j, 0 ≤ nu j)
    (he : ∀ j, 0 ≤ eps j) (a : Fin K → Fin D → ℂ) (k : Fin K) (hpos : 0 < noiseEps eps k) (u' v w : Fin D → ℂ) (c : ℂ)
    (hu : (Matrix.of (leakyNoisePsd nu sigma eps a k)) *ᵥ u' = a k)
    (hw : w = fun d => c * u' d) (hc : c ≠ 0)
    (hv1 : star v ⬝ᵥ a k = 1) (hv0 : ∀ j, j ≠ k → star v ⬝ᵥ a j = 0)
    (numin : ℝ) (hnm : 0 < numin) (hmin : ∀ j, j ≠ k → numin ≤ nu j)
    (hI : 0 < interference sigma a w k)
    (hfloor : noiseEps eps k ≤ 1e-4 * (numin * sigma k)) (hv : normSq (α := ℝ) v ≤ 10) :
    numin * interference sigma a (mvdrFromSolve (α := ℝ) (a k) u') k ≤ zfBound (noiseEps eps k) v ∧
      1000 ≤ sirOut sigma a w k ∧ 30 ≤ 10 * Real.logb 10 (sirOut sigma a w k) := by
  have hak : a k ≠ 0 := by
    intro h0; rw [h0, dotProduct_zero] at hv1; exact zero_ne_one hv1
  obtain ⟨u, c', hc', hsol, hu'eq, hmv⟩ := leaky_solver_reduce nu sigma eps hs hnu a k hpos u' hu
  have hsp := leakPow_nonneg hs hnu k
  have hq : star (a k) ⬝ᵥ u ≠ 0 := by
    intro h0
    have := (solve_dot_pos hsp a k hpos (a k) u hsol hak).1
    rw [h0] at this; simp at this
  set w0 := mvdrFromSolve (α := ℝ) (a k) u with hw0
  have hww : w = fun d => (c * c' * (star (a k) ⬝ᵥ u)) * w0 d := by
    rw [hw, hu'eq]; funext d
    simp only [hw0, mvdrFromSolve, cdot_eq]
    field_simp
  have hcc : c * c' * (star (a k) ⬝ᵥ u) ≠ 0 := mul_ne_zero (mul_ne_zero hc hc') hq
  obtain ⟨h1, h2, -⟩ := C17.sir_bound_mul (leakPow nu sigma k) eps hsp he a k hpos u v hsol hv1 hv0
  rw [outPower_leakPow, leakPow_self, ← hw0] at h1
  rw [← hw0] at h2
  have h3 : numin * interference sigma a w0 k ≤ zfBound (noiseEps eps k) v :=
    le_trans (interference_min_weight hs k hmin a w0) h2
  have hI0 : 0 < interference sigma a w0 k := by
    rw [hww, interference_smul] at hI
    have hn : 0 < Complex.normSq (c * c' * (star (a k) ⬝ᵥ u)) := Complex.normSq_pos.mpr hcc
    by_contra hneg
    have := mul_nonpos_of_nonneg_of_nonpos hn.le (not_lt.mp hneg)
    linarith
  have hsir : sirOut sigma a w k = sirOut sigma a w0 k := by
    rw [hww]; exact sirOut_smul sigma a _ hcc k
  have h1000 : 1000 ≤ sirOut sigma a w k := by
    rw [hsir]
    unfold sirOut
    rw [h1, le_div_iff₀ hI0]
    have hzb : zfBound (noiseEps eps k) v ≤ 1e-3 * (numin * sigma k) := by
      unfold zfBound
      have hn := normSq_nonneg v
      have : 0 ≤ numin * sigma k := mul_nonneg hnm.le (hs k)
      nlinarith
    have : numin * (1000 * interference sigma a w0 k) ≤ numin * sigma k := by nlinarith
    exact le_of_mul_le_mul_left this hnm
  refine ⟨?_, h1000, logb_30 h1000⟩
  rw [hmv]; exact h3

/-! ### (ii) + (iv): from the two-level masks to the SIR of the beamformer, in one statement -/
section chain
variable {F T : Nat}

/-- the matrix handed to the solver: `noiseFromPsd (psd …)` of the two-level masks (+ the white part) IS the leaky noise
PSD of (iv) with `σ_j = P_j` (source energies) and `ν_j = ν_kj` -/
theorem two_level_noise_psd_matrix (floor g h : ℝ) (owner : Fin T → Fin K) (s : Fin F → Fin T → ℂ)
    (a : Fin F → Fin K → Fin D → ℂ) (eps : Fin K → ℝ) (f : Fin F) (k : Fin K) :
    Matrix.of (fun d e =>
        noiseFromPsd (psd floor (fun f d t => a f (owner t) d * s f t) (fun _ k t => if owner t = k then g else h)) f k d e
          + if d = e then ((noiseEps eps k : ℝ) : ℂ) else 0)
      = Matrix.of (leakyNoisePsd (nuW floor g h owner k) (energy owner s f) eps (a f) k) := by
  ext d e
  simp only [Matrix.of_apply, leakyNoisePsd, two_level_noise_psd]

/-- **Two-level-mask pipeline bound (partial).**  Scene of `ideal_mask_psd` (`y[f,:,t] = a f (owner t) • s f t`), masks
two-level (`g > 0` on the owned frames, `h ≥ 0` elsewhere — `h < g` is not needed for the bound, the levels enter through
`ν_min` only), PSD estimator with its floor (`0 < floor`), noise PSD of target `k` = sum of the other classes' PSDs plus
the white part `ε·1`, solver contract on THAT matrix with the true steering vector `a f k`, `w` any non-zero multiple of
the solver value.  If `ν_min ≤ g / max(mass_j, floor)` for every interferer `j`, the noise floor is 40 dB below
`ν_min·P_k`, and a zero-forcing vector of squared norm ≤ 10 exists, the output SIR in the TRUE source energies `P_j` is
≥ 1000 (30 dB).  MISSING for the full property: the steering vector / target PSD is the true one here (the leaky
target PSD `Σ_j μ_kj P_j a_j a_jᴴ` is not rank-one, so `souden_same_direction`/`gev_same_direction` do not apply to it),
the white part is at expectation level, and the masks must be exactly two-level. -/
theorem two_level_pipeline_sir_partial (floor g h : ℝ) (hf : 0 < floor) (hg : 0 < g) (hh : 0 ≤ h)
    (owner : Fin T → Fin K) (s : Fin F → Fin T → ℂ) (a : Fin F → Fin K → Fin D → ℂ) (eps : Fin K → ℝ)
    (he : ∀ j, 0 ≤ eps j) (f : Fin F) (k : Fin K) (hpos : 0 < noiseEps eps k) (u' v w : Fin D → ℂ) (c : ℂ)
    (hu : (Matrix.of (fun d e =>
        noiseFromPsd (psd floor (fun f d t => a f (owner t) d * s f t) (fun _ k t => if owner t = k then g else h)) f k d e
          + if d = e then ((noiseEps eps k : ℝ) : ℂ) else 0)) *ᵥ u' = a f k)
    (hw : w = fun d => c * u' d) (hc : c ≠ 0)
    (hv1 : star v ⬝ᵥ a f k = 1) (hv0 : ∀ j, j ≠ k → star v ⬝ᵥ a f j = 0)
    (numin : ℝ) (hnm : 0 < numin) (hmin : ∀ j, j ≠ k → numin ≤ g / max (maskMass g h owner j) floor)
    (hI : 0 < interference (energy owner s f) (a f) w k)
    (hfloor : noiseEps eps k ≤ 1e-4 * (numin * energy owner s f k)) (hv : normSq (α := ℝ) v ≤ 10) :
    1000 ≤ sirOut (energy owner s f) (a f) w k ∧
      30 ≤ 10 * Real.logb 10 (sirOut (energy owner s f) (a f) w k) := by
  rw [two_level_noise_psd_matrix] at hu
  exact (leaky_pipeline_true_sir (nuW floor g h owner k) (energy owner s f) eps (energy_nonneg owner s f)
    (nuW_nonneg hf hg.le hh owner k) he (a f) k hpos u' v w c hu hw hc hv1 hv0 numin hnm
    (fun j hj => le_trans (hmin j hj) (nuW_ge hf hg.le hh owner hj)) hI hfloor hv).2
end chain

/-! ### non-vacuity: two sources, two sensors, NON-orthogonal steering vectors `a₀ = (1,0)`, `a₁ = (1,1)`, two frames
(one per source), mask levels `g = 3/4`, `h = 1/4`, floor `1e-10` -/
section nonvacuous

/-- the example scene: `owner t = t`, `s = (200, 2)` (energies `P = (40000, 4)`), one bin -/
noncomputable def exOwner : Fin 2 → Fin 2 := fun t => t
noncomputable def exS : Fin 1 → Fin 2 → ℂ := fun _ t => if t.val = 0 then 200 else 2
noncomputable def exA : Fin 1 → Fin 2 → Fin 2 → ℂ := fun _ j d => if d.val ≤ j.val then 1 else 0

theorem ex_frames (j : Fin 2) : frames exOwner j = 1 := by
  fin_cases j <;> simp [frames, exOwner, Fin.sum_univ_two]

theorem ex_mass (j : Fin 2) : maskMass (3/4) (1/4) exOwner j = 1 := by
  fin_cases j <;> simp [maskMass, ex_frames, Fin.sum_univ_two] <;> norm_num

theorem ex_mu (k j : Fin 2) : muW 1e-10 (3/4) (1/4) exOwner k j = if j = k then 3/4 else 1/4 := by
  have hm : max (1 : ℝ) 1e-10 = 1 := max_eq_left (by norm_num)
  simp only [muW, ex_mass, hm, div_one]

theorem ex_nu (j : Fin 2) : nuW 1e-10 (3/4) (1/4) exOwner 0 j = if j = 0 then 1/4 else 3/4 := by
  simp only [nuW, Fin.sum_univ_two, ex_mu]
  fin_cases j <;> simp

theorem ex_energy (j : Fin 2) : energy exOwner exS 0 j = if j = 0 then 40000 else 4 := by
  fin_cases j <;> simp [energy, exOwner, exS] <;> norm_num

/-- (i) on the example: the PSD of class 0 is `3/4·40000·a₀a₀ᴴ + 1/4·4·a₁a₁ᴴ`; its `(1,1)` entry `1` is pure leakage of
source 1 into the target PSD, its `(0,0)` entry is `30001` -/
example :
    psd 1e-10 (fun f d t => exA f (exOwner t) d * exS f t) (fun _ k t => if exOwner t = k then (3/4 : ℝ) else 1/4) 0 0 1 1 = 1 ∧
    psd 1e-10 (fun f d t => exA f (exOwner t) d * exS f t) (fun _ k t => if exOwner t = k then (3/4 : ℝ) else 1/4) 0 0 0 0
      = 30001 := by
  constructor <;>
    · rw [two_level_mask_psd]
      simp only [Fin.sum_univ_two, ex_mu, ex_energy]
      simp [exA] <;> norm_num

/-- (ii) on the example: the noise PSD of target 0 contains the target direction: entry `(0,0)` is
`1/4·40000 + 3/4·4 = 10003` -/
example :
    noiseFromPsd (psd 1e-10 (fun f d t => exA f (exOwner t) d * exS f t)
      (fun _ k t => if exOwner t = k then (3/4 : ℝ) else 1/4)) 0 0 0 0 = 10003 := by
  rw [two_level_noise_psd]
  simp only [Fin.sum_univ_two, ex_nu, ex_energy]
  simp [exA]
  norm_num

/-- (iii) on numbers: `Φ = [[4,3],[3,4]]` (`= 3·a₁a₁ᴴ + 1`), `a = (1,0)`, `u = (4,-3)/7`, `δ = 10000`: the guard
`1 + δ·aᴴu = 40007/7 ≠ 0` holds, so the leaky system `[[10004,3],[3,4]]` is solved by `u/(1+δ aᴴu)` -/
example :
    let Φ : Matrix (Fin 2) (Fin 2) ℂ := !![4, 3; 3, 4]
    let a : Fin 2 → ℂ := ![1, 0]
    let u : Fin 2 → ℂ := ![4/7, -3/7]
    (Φ + (10000 : ℂ) • vecMulVec a (star a)) *ᵥ ((1 + (10000 : ℂ) * (star a ⬝ᵥ u))⁻¹ • u) = a := by
  intro Φ a u
  refine (mvdr_invariant_under_target_leak Φ a u 10000 ?_ ?_).1
  · funext i
    fin_cases i <;> simp [Φ, a, u, mulVec, dotProduct, Fin.sum_univ_two] <;> norm_num
  · simp [a, u, dotProduct, Fin.sum_univ_two]
    norm_num

/-- (iv) end to end on the example: every hypothesis of `two_level_pipeline_sir_partial` holds (white part `ε = 1`,
leaky noise PSD `[[10004,3],[3,4]]`, solver value `u' = (4,-3)/40007`, zero-forcing `v = (1,-1)`, `ν_min = 3/4`; the
steering vectors are not orthogonal, the interference at the output is NOT zero) -/
example :
    let u' : Fin 2 → ℂ := fun d => if d.val = 0 then 4/40007 else -3/40007
    1000 ≤ sirOut (energy exOwner exS 0) (exA 0) u' 0 := by
  intro u'
  let eps : Fin 2 → ℝ := fun _ => 1
  let v : Fin 2 → ℂ := fun d => if d.val = 0 then 1 else -1
  have hne : noiseEps eps 0 = 1 := by simp [noiseEps, vsum_eq_sum, Fin.sum_univ_two, eps]
  refine (two_level_pipeline_sir_partial 1e-10 (3/4) (1/4) (by norm_num) (by norm_num) (by norm_num) exOwner exS exA eps
    (fun j => by simp [eps]) 0 0 (by rw [hne]; norm_num) u' v u' 1 ?_ (by funext d; simp) one_ne_zero ?_ ?_ (3/4)
    (by norm_num) ?_ ?_ ?_ ?_).1
  · rw [two_level_noise_psd_matrix]
    funext d
    simp only [mulVec, dotProduct, leakyNoisePsd, Matrix.of_apply, hne, Fin.sum_univ_two, ex_nu, ex_energy]
    fin_cases d <;> simp [exA, u'] <;> norm_num
  · simp [dotProduct, v, exA]
  · intro j hj
    fin_cases j
    · exact absurd rfl hj
    · simp [dotProduct, Fin.sum_univ_two, v, exA]
  · intro j _
    have hm : max (1 : ℝ) 1e-10 = 1 := max_eq_left (by norm_num)
    rw [ex_mass, hm]; norm_num
  · simp [interference, outPower, absSq_eq, cdot_eq, dotProduct, vsum_eq_sum, Fin.sum_univ_two, ex_energy, exA, u']
    norm_num [map_ofNat]
  · rw [hne, ex_energy]; norm_num
  · simp [normSq_eq, Fin.sum_univ_two, v]; norm_num
end nonvacuous

end PbBss.PipelineProof

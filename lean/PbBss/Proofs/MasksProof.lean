import PbBss.Model.Masks
import PbBss.Proofs.RealInst
import Mathlib.Analysis.SpecialFunctions.Complex.Arg
import Mathlib.Tactic
/-! Lemmas about the point kernels of `PbBss/Model/Masks.lean` at `α := ℝ`, `β := ℂ` (used by `Props/C18.lean`). -/
open PbBss PbBss.Masks
namespace PbBss.MasksProof

noncomputable instance : Trig ℝ := ⟨Real.cos, fun y x => Complex.arg ⟨x, y⟩⟩
noncomputable instance : FloorNat ℝ := ⟨fun x => ⌊x⌋₊⟩

@[simp] theorem trig_cos_real (x : ℝ) : Trig.cos x = Real.cos x := rfl
@[simp] theorem trig_atan2_real (y x : ℝ) : Trig.atan2 y x = Complex.arg ⟨x, y⟩ := rfl
@[simp] theorem floorNat_real (x : ℝ) : FloorNat.floorNat x = ⌊x⌋₊ := rfl

/-! ### folds -/

/-- invariant principle for `Fin.foldl` -/
theorem foldl_inv {β : Type} : ∀ {n : Nat} (g : β → Fin n → β) (init : β) (P : Nat → β → Prop), P 0 init →
    (∀ (i : Fin n) (b : β), P i.val b → P (i.val + 1) (g b i)) → P n (Fin.foldl n g init)
  | 0, g, init, P, h0, _ => by simpa [Fin.foldl_zero] using h0
  | n+1, g, init, P, h0, hs => by
    rw [Fin.foldl_succ_last]
    have ih := foldl_inv (fun b (i : Fin n) => g b i.castSucc) init P h0 (fun i b hb => hs i.castSucc b hb)
    exact hs (Fin.last n) _ ih

section argmax
variable {L : Type} [LinearOrder L]

/-- `np.argmax` semantics of `vargmax`: a maximiser, and the FIRST one -/
theorem vargmax_spec {n : Nat} (f : Fin (n+1) → L) :
    (∀ j, f j ≤ f (vargmax f)) ∧ ∀ j, j < vargmax f → f j < f (vargmax f) := by
  have key := foldl_inv (fun best (i : Fin n) => if f best < f i.succ then i.succ else best) (0 : Fin (n+1))
    (fun m best => best.val ≤ m ∧ (∀ j : Fin (n+1), j.val ≤ m → f j ≤ f best) ∧ ∀ j : Fin (n+1), j.val < best.val → f j < f best)
    ⟨le_refl _, by
      intro j hj
      have : j = 0 := Fin.ext (by simpa using hj)
      simp [this], by intro j hj; simp at hj⟩
    (by
      intro i best ⟨h1, h2, h3⟩
      by_cases hlt : f best < f i.succ
      · simp only [hlt, if_true]
        refine ⟨by simp, ?_, ?_⟩
        · intro j hj
          rcases Nat.lt_or_ge j.val (i.val + 1) with h | h
          · exact le_of_lt (lt_of_le_of_lt (h2 j (by omega)) hlt)
          · have : j = i.succ := Fin.ext (by simp; omega)
            simp [this]
        · intro j hj
          exact lt_of_le_of_lt (h2 j (by simp at hj; omega)) hlt
      · simp only [hlt, if_false]
        refine ⟨by omega, ?_, h3⟩
        intro j hj
        rcases Nat.lt_or_ge j.val (i.val + 1) with h | h
        · exact h2 j (by omega)
        · have : j = i.succ := Fin.ext (by simp; omega)
          rw [this]; exact not_lt.mp hlt)
  obtain ⟨-, h2, h3⟩ := key
  exact ⟨fun j => h2 j (by have := j.isLt; omega), fun j hj => h3 j hj⟩

/-- the first maximiser is unique -/
theorem vargmax_unique {n : Nat} (f : Fin (n+1) → L) (k : Fin (n+1)) (h1 : ∀ j, f j ≤ f k)
    (h2 : ∀ j, j < k → f j < f k) : vargmax f = k := by
  obtain ⟨g1, g2⟩ := vargmax_spec f
  rcases lt_trichotomy (vargmax f) k with h | h | h
  · exact absurd (h2 _ h) (not_lt.mpr (g1 k))
  · exact h
  · exact absurd (g2 _ h) (not_lt.mpr (h1 _))

theorem argmaxUpTo_le (f : Nat → L) : ∀ m, argmaxUpTo m f ≤ m
  | 0 => by simp [argmaxUpTo]
  | m+1 => by
    have := argmaxUpTo_le f m
    simp only [argmaxUpTo]; split <;> omega

theorem argmaxUpTo_spec (f : Nat → L) : ∀ m, (∀ j ≤ m, f j ≤ f (argmaxUpTo m f)) ∧
    ∀ j < argmaxUpTo m f, f j < f (argmaxUpTo m f)
  | 0 => by simp [argmaxUpTo]
  | m+1 => by
    obtain ⟨h1, h2⟩ := argmaxUpTo_spec f m
    have hb := argmaxUpTo_le f m
    simp only [argmaxUpTo]
    by_cases hlt : f (argmaxUpTo m f) < f (m+1)
    · simp only [hlt, if_true]
      refine ⟨?_, ?_⟩
      · intro j hj
        rcases Nat.lt_or_ge j (m+1) with h | h
        · exact le_of_lt (lt_of_le_of_lt (h1 j (by omega)) hlt)
        · have : j = m+1 := by omega
          simp [this]
      · intro j hj; exact lt_of_le_of_lt (h1 j (by omega)) hlt
    · simp only [hlt, if_false]
      refine ⟨?_, h2⟩
      intro j hj
      rcases Nat.lt_or_ge j (m+1) with h | h
      · exact h1 j (by omega)
      · have : j = m+1 := by omega
        rw [this]; exact not_lt.mp hlt

/-- the tensor layer's `Nat`-indexed arg-max is the point kernel's `vargmax` -/
theorem argmaxUpTo_eq_vargmax {n : Nat} (f : Nat → L) :
    argmaxUpTo n f = (vargmax fun k : Fin (n+1) => f k.val).val := by
  obtain ⟨h1, h2⟩ := argmaxUpTo_spec f n
  have hle := argmaxUpTo_le f n
  have := vargmax_unique (fun k : Fin (n+1) => f k.val) ⟨argmaxUpTo n f, by omega⟩
    (fun j => h1 j.val (by have := j.isLt; omega)) (fun j hj => h2 j.val hj)
  rw [this]
end argmax

theorem sumRange_eq_vsum {M : Type} [AddCommMonoid M] (f : Nat → M) : ∀ n, sumRange n f = vsum fun k : Fin n => f k.val
  | 0 => by simp [sumRange, vsum, Fin.foldl_zero]
  | n+1 => by
    rw [sumRange, sumRange_eq_vsum f n, vsum_eq_sum, vsum_eq_sum, Fin.sum_univ_castSucc]
    simp

theorem sumRange_eq_sum {M : Type} [AddCommMonoid M] (f : Nat → M) (n : Nat) : sumRange n f = ∑ k : Fin n, f k.val := by
  rw [sumRange_eq_vsum, vsum_eq_sum]

/-! ### ideal binary mask -/
theorem ibm_eq_one_iff {K : Nat} (p : Fin (K+1) → ℝ) (k : Fin (K+1)) : ibm p k = 1 ↔ vargmax p = k := by
  unfold ibm; split <;> simp_all

theorem ibm_zero_or_one {K : Nat} (p : Fin (K+1) → ℝ) (k : Fin (K+1)) : ibm p k = 0 ∨ ibm p k = 1 := by
  unfold ibm; split <;> simp

theorem ibm_sum {K : Nat} (p : Fin (K+1) → ℝ) : ∑ k, ibm p k = 1 := by
  unfold ibm
  simp [Finset.sum_ite_eq]

/-! ### complex magnitudes -/
theorem absSq_eq (z : ℂ) : absSq (α := ℝ) z = Complex.normSq z := by
  simp [absSq, Complex.normSq_apply]

theorem absSq_nonneg (z : ℂ) : 0 ≤ absSq (α := ℝ) z := by
  rw [absSq_eq]; exact Complex.normSq_nonneg z

theorem cabs_eq (z : ℂ) : cabs (α := ℝ) z = ‖z‖ := by
  simp [cabs, absSq_eq, Complex.norm_def]

theorem pooled_eq {D : Nat} (s : Fin D → ℂ) : pooled (α := ℝ) s = ∑ d, Complex.normSq (s d) := by
  simp [pooled, vsum_eq_sum, absSq_eq]

theorem pooled_nonneg {D : Nat} (s : Fin D → ℂ) : 0 ≤ pooled (α := ℝ) s := by
  rw [pooled_eq]; exact Finset.sum_nonneg fun d _ => Complex.normSq_nonneg _

theorem angle_eq (z : ℂ) : angle (α := ℝ) z = Complex.arg z := by
  simp [angle, Complex.eta]

theorem mixture_eq {K : Nat} (s : Fin K → ℂ) : mixture s = ∑ k, s k := by
  simp [mixture, vsum_eq_sum]

/-! ### ratio masks -/
theorem ratioMask_eq {K : Nat} (eps : ℝ) (q : Fin K → ℝ) (k : Fin K) : ratioMask eps q k = q k / (∑ j, q j + eps) := by
  simp [ratioMask, vsum_eq_sum]

theorem ratioMask_range {K : Nat} (eps : ℝ) (q : Fin K → ℝ) (hq : ∀ k, 0 ≤ q k) (heps : 0 ≤ eps)
    (hden : 0 < ∑ j, q j + eps) (k : Fin K) : 0 ≤ ratioMask eps q k ∧ ratioMask eps q k ≤ 1 := by
  rw [ratioMask_eq]
  constructor
  · exact div_nonneg (hq k) hden.le
  · rw [div_le_one hden]
    have : q k ≤ ∑ j, q j := Finset.single_le_sum (fun j _ => hq j) (Finset.mem_univ k)
    linarith

theorem ratioMask_sum {K : Nat} (eps : ℝ) (q : Fin K → ℝ) :
    ∑ k, ratioMask eps q k = (∑ j, q j) / (∑ j, q j + eps) := by
  simp only [ratioMask_eq, Finset.sum_div]

/-! ### ideal complex mask and phase-sensitive mask -/
theorem icm_mul_mixture {K : Nat} (s : Fin K → ℂ) (hy : mixture s ≠ 0) (k : Fin K) : icm s k * mixture s = s k := by
  simp [icm, div_mul_cancel₀ _ hy]

/-- `cos(arg z − arg y) · |z| / |y| = Re(z / y)` -/
theorem cos_arg_sub (z y : ℂ) (hy : y ≠ 0) :
    ‖z‖ * Real.cos (Complex.arg z - Complex.arg y) = (z / y).re * ‖y‖ := by
  by_cases hz : z = 0
  · simp [hz]
  have hzn : ‖z‖ ≠ 0 := by simpa using hz
  have hyn : ‖y‖ ≠ 0 := by simpa using hy
  rw [Real.cos_sub, Complex.cos_arg hz, Complex.cos_arg hy, Complex.sin_arg, Complex.sin_arg, Complex.div_re,
    Complex.normSq_eq_norm_sq]
  field_simp

theorem psm_eq {K : Nat} (eps : ℝ) (s : Fin K → ℂ) (hy : mixture s ≠ 0) (heps : 0 ≤ eps) (k : Fin K) :
    psm eps s k = (icm s k).re * (‖mixture s‖ / (‖mixture s‖ + eps)) := by
  have hyn : 0 < ‖mixture s‖ := by simpa using hy
  have hden : ‖mixture s‖ + eps ≠ 0 := by positivity
  have h := cos_arg_sub (s k) (mixture s) hy
  simp only [psm, icm, cabs_eq, angle_eq, trig_cos_real]
  rw [div_mul_eq_mul_div, h]
  field_simp

/-! ### rows: sorting, percentile, levels -/
theorem sortAsc_perm (l : List ℝ) : (sortAsc l).Perm l := List.mergeSort_perm _ _

theorem sortAsc_length (l : List ℝ) : (sortAsc l).length = l.length := (sortAsc_perm l).length_eq

theorem sortAsc_sorted (l : List ℝ) : (sortAsc l).Pairwise (· ≤ ·) := by
  have h := List.pairwise_mergeSort (le := fun a b : ℝ => !decide (b < a))
    (by intro a b c; simp only [Bool.not_eq_true', decide_eq_false_iff_not, not_lt]; exact fun h1 h2 => le_trans h1 h2)
    (by intro a b; simp only [Bool.or_eq_true, Bool.not_eq_true', decide_eq_false_iff_not, not_lt]; exact le_total a b) l
  refine h.imp ?_
  intro a b; simp

theorem sortAsc_getElem_mono (l : List ℝ) (i j : Nat) (hj : j < (sortAsc l).length) (hij : i ≤ j) :
    (sortAsc l)[i]'(by omega) ≤ (sortAsc l)[j] := by
  rcases Nat.lt_or_ge i j with h | h
  · exact (List.pairwise_iff_getElem.mp (sortAsc_sorted l)) i j (by omega) hj h
  · have : i = j := by omega
    subst this; exact le_refl _

@[simp] theorem half_real : (half : ℝ) = 1 / 2 := by norm_num [half]
@[simp] theorem hundred_real : (hundred : ℝ) = 100 := by simp [hundred]

theorem level_true (w : ℝ) : level w true = 1 / 2 + w / 2 := by simp [level]; ring
theorem level_false (w : ℝ) : level w false = 1 / 2 - w / 2 := by simp [level]; ring

theorem quantileFrac_nonneg {q : ℝ} (hq : 0 ≤ q) : quantileFrac q = 1 - q := by
  simp [quantileFrac, not_lt.mpr hq]

theorem quantileFrac_neg {q : ℝ} (hq : q < 0) : quantileFrac q = -q := by
  simp [quantileFrac, hq]
  ring

/-- unfolding of `np.percentile(·, 100 frac)` over ℝ for a non-empty row and `0 ≤ frac ≤ 1`:
both branches of `_lerp` are the same affine interpolation between two adjacent order statistics -/
theorem percentile_spec (frac : ℝ) (h0 : 0 ≤ frac) (h1 : frac ≤ 1) (row : List ℝ) (hne : row ≠ []) :
    let a := sortAsc row
    let vi : ℝ := ((a.length - 1 : ℕ) : ℝ) * frac
    let lo := ⌊vi⌋₊
    let hi := min (lo + 1) (a.length - 1)
    lo ≤ a.length - 1 ∧ 0 ≤ vi - lo ∧ vi - lo < 1 ∧
    percentileLinear frac row = a.getD lo 0 + (a.getD hi 0 - a.getD lo 0) * (vi - lo) ∧
    a.getD lo 0 ≤ percentileLinear frac row ∧ percentileLinear frac row ≤ a.getD hi 0 := by
  intro a vi lo hi
  have hlen : 0 < a.length := by
    rw [sortAsc_length]; exact List.length_pos_iff.mpr hne
  have hvi0 : 0 ≤ vi := by positivity
  have hvile : vi ≤ ((a.length - 1 : ℕ) : ℝ) := by
    have : (0:ℝ) ≤ ((a.length - 1 : ℕ) : ℝ) := by positivity
    nlinarith
  have hlo : lo ≤ a.length - 1 := by
    have := Nat.floor_le hvi0
    exact_mod_cast (Nat.floor_le_of_le hvile)
  have hg0 : 0 ≤ vi - lo := by have := Nat.floor_le hvi0; linarith
  have hg1 : vi - lo < 1 := by have := Nat.lt_floor_add_one vi; linarith
  have hval : percentileLinear frac row = a.getD lo 0 + (a.getD hi 0 - a.getD lo 0) * (vi - lo) := by
    simp only [percentileLinear, floorNat_real, half_real]
    have hmin : min ⌊((((sortAsc row).length - 1 : ℕ) : ℝ) * frac)⌋₊ ((sortAsc row).length - 1) = lo :=
      Nat.min_eq_left hlo
    rw [hmin]
    split
    · rfl
    · ring
  have hhi : hi < a.length := by
    have : hi ≤ a.length - 1 := Nat.min_le_right _ _
    omega
  have hlohi : lo ≤ hi := by
    simp only [hi]; omega
  have hmono : a.getD lo 0 ≤ a.getD hi 0 := by
    rw [List.getD_eq_getElem?_getD, List.getD_eq_getElem?_getD, List.getElem?_eq_getElem (by omega),
      List.getElem?_eq_getElem hhi]
    exact sortAsc_getElem_mono row lo hi hhi hlohi
  refine ⟨hlo, hg0, hg1, hval, ?_, ?_⟩
  · rw [hval]; nlinarith
  · rw [hval]; nlinarith

/-- at most `n - 1 - ⌊(n-1) frac⌋` points of the row lie strictly above its `frac` quantile -/
theorem count_above_percentile_le (frac : ℝ) (h0 : 0 ≤ frac) (h1 : frac ≤ 1) (row : List ℝ) (hne : row ≠ []) :
    row.countP (fun v => decide (percentileLinear frac row < v)) ≤
      row.length - 1 - ⌊((row.length - 1 : ℕ) : ℝ) * frac⌋₊ := by
  obtain ⟨hlo, -, -, -, hge, -⟩ := percentile_spec frac h0 h1 row hne
  rw [sortAsc_length] at hlo
  set thr := percentileLinear frac row
  set a := sortAsc row with ha
  have hlen : a.length = row.length := sortAsc_length row
  rw [hlen] at hge
  set lo := ⌊((row.length - 1 : ℕ) : ℝ) * frac⌋₊ with hlo_def
  have hpos : 0 < row.length := List.length_pos_iff.mpr hne
  rw [← (sortAsc_perm row).countP_eq, ← ha, ← List.take_append_drop (lo + 1) a, List.countP_append]
  have hzero : List.countP (fun v => decide (thr < v)) (List.take (lo + 1) a) = 0 := by
    rw [List.countP_eq_zero]
    intro v hv
    obtain ⟨j, hj, rfl⟩ := List.mem_take_iff_getElem.mp hv
    have hj' : j ≤ lo := by have := Nat.min_le_left (lo + 1) a.length; omega
    have hlo_lt : lo < a.length := by omega
    have h2 : a[j]'(by omega) ≤ a[lo] := sortAsc_getElem_mono row j lo hlo_lt hj'
    have h3 : a.getD lo 0 = a[lo] := by
      rw [List.getD_eq_getElem?_getD, List.getElem?_eq_getElem hlo_lt]; rfl
    simp only [decide_eq_true_eq, not_lt]
    rw [h3] at hge
    exact le_trans h2 hge
  rw [hzero, zero_add]
  refine le_trans List.countP_le_length ?_
  simp only [List.length_drop, hlen]
  omega

/-! ### Lorenz threshold -/
theorem minList_none (l : List ℝ) : minList l = none ↔ l = [] := by
  cases l <;> simp [minList]

theorem foldl_min_spec : ∀ (xs : List ℝ) (x : ℝ),
    let m := xs.foldl (fun m v => if v < m then v else m) x
    (m = x ∨ m ∈ xs) ∧ m ≤ x ∧ ∀ v ∈ xs, m ≤ v
  | [], x => by simp
  | y :: ys, x => by
    intro m
    obtain ⟨h1, h2, h3⟩ := foldl_min_spec ys (if y < x then y else x)
    simp only [m, List.foldl_cons]
    set m' := ys.foldl (fun m v => if v < m then v else m) (if y < x then y else x)
    have hle : (if y < x then y else x) ≤ x ∧ (if y < x then y else x) ≤ y := by
      split
      · exact ⟨by linarith, le_refl _⟩
      · exact ⟨le_refl _, by linarith⟩
    refine ⟨?_, le_trans h2 hle.1, ?_⟩
    · rcases h1 with h1 | h1
      · rw [h1]; split
        · right; simp
        · left; rfl
      · right; simp [h1]
    · intro v hv
      rcases List.mem_cons.mp hv with rfl | hv
      · exact le_trans h2 hle.2
      · exact h3 v hv

theorem minList_some {l : List ℝ} {t : ℝ} (h : minList l = some t) : t ∈ l ∧ ∀ v ∈ l, t ≤ v := by
  cases l with
  | nil => simp [minList] at h
  | cons x xs =>
    simp only [minList, Option.some.injEq] at h
    obtain ⟨h1, h2, h3⟩ := foldl_min_spec xs x
    rw [h] at h1 h2 h3
    refine ⟨?_, ?_⟩
    · rcases h1 with h1 | h1
      · simp [h1]
      · simp [h1]
    · intro v hv
      rcases List.mem_cons.mp hv with rfl | hv
      · exact h2
      · exact h3 v hv

/-- `np.min(sorted_power[lorenz_function < fraction])`: the threshold is the power of one of the points whose
cumulative share is below the fraction, and the weakest of them -/
theorem lorenzThreshold_some {fraction : ℝ} {row : List ℝ} {t : ℝ} (h : lorenzThreshold fraction row = some t) :
    (∃ p ∈ lorenzPairs row, p.2 < fraction ∧ p.1 = t) ∧ ∀ p ∈ lorenzPairs row, p.2 < fraction → t ≤ p.1 := by
  obtain ⟨h1, h2⟩ := minList_some h
  constructor
  · obtain ⟨p, hp, rfl⟩ := List.mem_map.mp h1
    obtain ⟨hp1, hp2⟩ := List.mem_filter.mp hp
    exact ⟨p, hp1, by simpa using hp2, rfl⟩
  · intro p hp hlt
    exact h2 p.1 (List.mem_map.mpr ⟨p, List.mem_filter.mpr ⟨hp, by simpa using hlt⟩, rfl⟩)

/-- the code raises (`np.min` of an empty selection) exactly when no cumulative share is below the fraction -/
theorem lorenzThreshold_none {fraction : ℝ} {row : List ℝ} :
    lorenzThreshold fraction row = none ↔ ∀ p ∈ lorenzPairs row, ¬ p.2 < fraction := by
  simp only [lorenzThreshold, minList_none, List.map_eq_nil_iff, List.filter_eq_nil_iff, decide_eq_true_eq]

theorem cumsumFrom_length : ∀ (l : List ℝ) (acc : ℝ), (cumsumFrom acc l).length = l.length
  | [], _ => rfl
  | x :: xs, acc => by simp [cumsumFrom, cumsumFrom_length xs]

theorem cumsumFrom_getElem : ∀ (l : List ℝ) (acc : ℝ) (i : Nat) (h : i < (cumsumFrom acc l).length),
    (cumsumFrom acc l)[i] = acc + (l.take (i+1)).sum
  | [], _, i, h => by simp [cumsumFrom] at h
  | x :: xs, acc, 0, _ => by simp [cumsumFrom]
  | x :: xs, acc, i+1, h => by
    simp only [cumsumFrom, List.getElem_cons_succ]
    rw [cumsumFrom_getElem xs (acc + x) i (by simpa [cumsumFrom] using h)]
    simp [List.take_succ_cons, add_assoc]

/-- the pairs the Lorenz mask scans: entry `i` is the `i`-th strongest power together with the share of the total
power carried by the `i+1` strongest points -/
theorem lorenzPairs_getElem (row : List ℝ) (i : Nat) (h : i < (lorenzPairs row).length) :
    (lorenzPairs row)[i] =
      (((sortAsc row).reverse)[i]'(by simp [lorenzPairs, cumsumFrom_length] at h; simpa using h),
       (((sortAsc row).reverse).take (i+1)).sum / row.sum) := by
  have htot : ((sortAsc row).reverse).foldl (· + ·) 0 = row.sum := by
    rw [← List.sum_eq_foldl, List.sum_reverse, (sortAsc_perm row).sum_eq]
  simp only [lorenzPairs, List.getElem_zip, List.getElem_map, cumsumFrom_getElem, zero_add, htot]

theorem lorenzPairs_length (row : List ℝ) : (lorenzPairs row).length = row.length := by
  simp [lorenzPairs, cumsumFrom_length, sortAsc_length]

theorem lorenzPairs_fst_mem {row : List ℝ} {p : ℝ × ℝ} (hp : p ∈ lorenzPairs row) : p.1 ∈ row := by
  obtain ⟨i, hi, rfl⟩ := List.mem_iff_getElem.mp hp
  rw [lorenzPairs_getElem]
  exact (sortAsc_perm row).subset (List.mem_reverse.mp (List.getElem_mem _))

/-! ### tensor layer: axis permutations -/
section tensor
variable {r : Nat}

theorem Tens.ext' {γ : Type} {s t : Tens r γ} (h1 : s.shape = t.shape) (h2 : s.get = t.get) : s = t := by
  cases s; cases t; simp_all

theorem upd_upd {idx : Fin r → Nat} (a : Fin r) (v w : Nat) : upd (upd idx a v) a w = upd idx a w := by
  funext i; simp only [upd]; split <;> rfl

theorem upd_self {idx : Fin r → Nat} (a : Fin r) : upd idx a (idx a) = idx := by
  funext i; simp only [upd]; split
  · next h => rw [h]
  · rfl

theorem upd_same {idx : Fin r → Nat} (a : Fin r) (v : Nat) : upd idx a v a = v := by simp [upd]

/-- a pair of mutually inverse axis maps (`order`: result axis ↦ input axis, as in `np.transpose`) -/
structure AxisPerm (order inv : Fin r → Fin r) : Prop where
  oi : ∀ i, order (inv i) = i
  io : ∀ i, inv (order i) = i

variable {order inv : Fin r → Fin r}

theorem AxisPerm.inv_eq_iff (h : AxisPerm order inv) {i a : Fin r} : i = inv a ↔ order i = a := by
  constructor
  · rintro rfl; exact h.oi a
  · rintro rfl; exact (h.io i).symm

theorem AxisPerm.inv_inj (h : AxisPerm order inv) {i j : Fin r} : inv i = inv j ↔ i = j := by
  constructor
  · intro e; have := congrArg order e; rwa [h.oi, h.oi] at this
  · rintro rfl; rfl

/-- reading the moved index: replacing position `inv a` of the result index is replacing position `a` of the
input index -/
theorem upd_comp_inv (h : AxisPerm order inv) (idx : Fin r → Nat) (a : Fin r) (v : Nat) :
    (fun j => upd idx (inv a) v (inv j)) = upd (fun j => idx (inv j)) a v := by
  funext j
  simp only [upd, h.inv_inj]

theorem fibreSum_transpose {γ : Type} [AddCommMonoid γ] (h : AxisPerm order inv) (t : Tens r γ) (a : Fin r)
    (idx : Fin r → Nat) :
    fibreSum (Tens.transposeT order inv t) (inv a) idx = fibreSum t a (fun j => idx (inv j)) := by
  simp only [fibreSum, Tens.transposeT, h.oi, upd_comp_inv h]

theorem sumKeep_transpose (h : AxisPerm order inv) (t : Tens r ℝ) (a : Fin r) :
    sumKeep (Tens.transposeT order inv t) (inv a) = Tens.transposeT order inv (sumKeep t a) := by
  apply Tens.ext'
  · funext i
    simp only [sumKeep, Tens.transposeT, upd, h.inv_eq_iff]
  · funext idx
    simp only [sumKeep]
    rw [fibreSum_transpose h]
    rfl

theorem pooledPower_transpose (h : AxisPerm order inv) (t : Tens r ℂ) (se : Option (Fin r)) :
    pooledPower (α := ℝ) (Tens.transposeT order inv t) (se.map inv) =
      Tens.transposeT order inv (pooledPower (α := ℝ) t se) := by
  cases se with
  | none => rfl
  | some a =>
    simp only [pooledPower, Option.map_some]
    exact sumKeep_transpose h (t.map (absSq (α := ℝ))) a

/-- `ideal_binary_mask` commutes with every permutation of the axes -/
theorem ibmT_transpose (h : AxisPerm order inv) (t : Tens r ℂ) (sa : Fin r) (se : Option (Fin r)) :
    ibmT (α := ℝ) (Tens.transposeT order inv t) (inv sa) (se.map inv) =
      Tens.transposeT order inv (ibmT (α := ℝ) t sa se) := by
  apply Tens.ext'
  · simp only [ibmT, pooledPower_transpose h]; rfl
  · funext idx
    simp only [ibmT, pooledPower_transpose h]
    simp only [Tens.transposeT, h.oi, upd_comp_inv h]

theorem ratioT_transpose (h : AxisPerm order inv) (eps : ℝ) (p : Tens r ℝ) (sa : Fin r) :
    ratioT eps (Tens.transposeT order inv p) (inv sa) = Tens.transposeT order inv (ratioT eps p sa) := by
  apply Tens.ext'
  · rfl
  · funext idx
    simp only [ratioT]
    rw [fibreSum_transpose h]
    rfl

theorem wienerT_transpose (h : AxisPerm order inv) (eps : ℝ) (t : Tens r ℂ) (sa : Fin r) (se : Option (Fin r)) :
    wienerT eps (Tens.transposeT order inv t) (inv sa) (se.map inv) =
      Tens.transposeT order inv (wienerT eps t sa se) := by
  simp only [wienerT, pooledPower_transpose h, ratioT_transpose h]

theorem irmT_transpose (h : AxisPerm order inv) (eps : ℝ) (t : Tens r ℂ) (sa : Fin r) :
    irmT eps (Tens.transposeT order inv t) (inv sa) = Tens.transposeT order inv (irmT eps t sa) := by
  simp only [irmT]
  exact ratioT_transpose h eps (t.map (cabs (α := ℝ))) sa

theorem mixtureT_transpose (h : AxisPerm order inv) (t : Tens r ℂ) (sa : Fin r) (idx : Fin r → Nat) :
    mixtureT (Tens.transposeT order inv t) (inv sa) idx = mixtureT t sa (fun j => idx (inv j)) :=
  fibreSum_transpose h t sa idx

theorem iamT_transpose (h : AxisPerm order inv) (eps : ℝ) (t : Tens r ℂ) (sa : Fin r) :
    iamT eps (Tens.transposeT order inv t) (inv sa) = Tens.transposeT order inv (iamT eps t sa) := by
  apply Tens.ext'
  · rfl
  · funext idx
    simp only [iamT, mixtureT_transpose h]
    rfl

theorem icmT_transpose (h : AxisPerm order inv) (t : Tens r ℂ) (sa : Fin r) :
    icmT (Tens.transposeT order inv t) (inv sa) = Tens.transposeT order inv (icmT t sa) := by
  apply Tens.ext'
  · rfl
  · funext idx
    simp only [icmT, mixtureT_transpose h]
    rfl

theorem psmT_transpose (h : AxisPerm order inv) (eps : ℝ) (t : Tens r ℂ) (sa : Fin r) :
    psmT eps (Tens.transposeT order inv t) (inv sa) = Tens.transposeT order inv (psmT eps t sa) := by
  apply Tens.ext'
  · rfl
  · funext idx
    simp only [psmT, mixtureT_transpose h]
    rfl

theorem rowOf_transpose (h : AxisPerm order inv) (t : Tens r ℝ) : ∀ (axes : List (Fin r)) (idx : Fin r → Nat),
    rowOf (Tens.transposeT order inv t) (axes.map inv) idx = rowOf t axes (fun j => idx (inv j))
  | [], idx => rfl
  | a :: as, idx => by
    simp only [List.map_cons, rowOf]
    have hshape : (Tens.transposeT order inv t).shape (inv a) = t.shape a := by simp [Tens.transposeT, h.oi]
    rw [hshape]
    congr 1
    funext j
    rw [rowOf_transpose h t as, upd_comp_inv h]

theorem quantileT_transpose (h : AxisPerm order inv) (q w : ℝ) (t : Tens r ℂ) (axes : List (Fin r)) :
    quantileT q w (Tens.transposeT order inv t) (axes.map inv) = Tens.transposeT order inv (quantileT q w t axes) := by
  apply Tens.ext'
  · rfl
  · funext idx
    simp only [quantileT]
    have := rowOf_transpose h (t.map (cabs (α := ℝ))) axes idx
    simp only [Tens.transposeT, Tens.map] at this ⊢
    rw [this]

theorem lorenzPower_transpose (h : AxisPerm order inv) (t : Tens r ℂ) (se : Option (Fin r)) :
    lorenzPower (α := ℝ) (Tens.transposeT order inv t) (se.map inv) =
      Tens.transposeT order inv (lorenzPower (α := ℝ) t se) := by
  cases se with
  | none => rfl
  | some a =>
    simp only [lorenzPower, Option.map_some]
    exact sumKeep_transpose h (t.map fun z => cabs (α := ℝ) z * cabs (α := ℝ) z) a

theorem lorenzT_transpose (h : AxisPerm order inv) (fraction w : ℝ) (t : Tens r ℂ) (se : Option (Fin r))
    (axes : List (Fin r)) :
    lorenzT fraction w (Tens.transposeT order inv t) (se.map inv) (axes.map inv) =
      Tens.transposeT order inv (lorenzT fraction w t se axes) := by
  apply Tens.ext'
  · simp only [lorenzT, lorenzPower_transpose h]; rfl
  · funext idx
    simp only [lorenzT, lorenzPower_transpose h]
    have := rowOf_transpose h (lorenzPower (α := ℝ) t se) axes idx
    simp only [Tens.transposeT] at this ⊢
    rw [this]

/-! ### tensor layer ↔ point kernels -/

/-- entry of the pooled power: the `pooled` kernel applied to the sensor fibre -/
theorem pooledPower_get_some (t : Tens r ℂ) (a : Fin r) (idx : Fin r → Nat) :
    (pooledPower (α := ℝ) t (some a)).get idx = pooled (α := ℝ) fun d : Fin (t.shape a) => t.get (upd idx a d.val) := by
  simp only [pooledPower, sumKeep, fibreSum, sumRange_eq_vsum, pooled, Tens.map]

theorem pooledPower_get_none (t : Tens r ℂ) (idx : Fin r → Nat) :
    (pooledPower (α := ℝ) t none).get idx = absSq (α := ℝ) (t.get idx) := rfl

/-- along the source axis, the tensor-level binary mask is the `ibm` kernel of the fibre of pooled powers -/
theorem ibmT_get (t : Tens r ℂ) (sa : Fin r) (se : Option (Fin r)) (idx : Fin r → Nat) (K : Nat)
    (hK : (pooledPower (α := ℝ) t se).shape sa = K + 1) (k : Fin (K+1)) :
    (ibmT (α := ℝ) t sa se).get (upd idx sa k.val) =
      ibm (fun j : Fin (K+1) => (pooledPower (α := ℝ) t se).get (upd idx sa j.val)) k := by
  simp only [ibmT, hK, Nat.add_sub_cancel, upd_upd, upd_same, ibm, argmaxUpTo_eq_vargmax]
  by_cases h : (vargmax fun j : Fin (K+1) => (pooledPower (α := ℝ) t se).get (upd idx sa j.val)) = k
  · simp [h]
  · have : ¬ (vargmax fun j : Fin (K+1) => (pooledPower (α := ℝ) t se).get (upd idx sa j.val)).val = k.val :=
      fun e => h (Fin.ext e)
    simp [h, this]

theorem ratioT_get (eps : ℝ) (p : Tens r ℝ) (sa : Fin r) (idx : Fin r → Nat) (k : Fin (p.shape sa)) :
    (ratioT eps p sa).get (upd idx sa k.val) = ratioMask eps (fun j : Fin (p.shape sa) => p.get (upd idx sa j.val)) k := by
  simp only [ratioT, fibreSum, upd_upd, sumRange_eq_vsum, ratioMask]

theorem mixtureT_upd (t : Tens r ℂ) (sa : Fin r) (idx : Fin r → Nat) (v : Nat) :
    mixtureT t sa (upd idx sa v) = mixture fun j : Fin (t.shape sa) => t.get (upd idx sa j.val) := by
  simp only [mixtureT, fibreSum, upd_upd, sumRange_eq_vsum, mixture]

theorem icmT_get (t : Tens r ℂ) (sa : Fin r) (idx : Fin r → Nat) (k : Fin (t.shape sa)) :
    (icmT t sa).get (upd idx sa k.val) = icm (fun j : Fin (t.shape sa) => t.get (upd idx sa j.val)) k := by
  simp only [icmT, mixtureT_upd, icm]

theorem psmT_get (eps : ℝ) (t : Tens r ℂ) (sa : Fin r) (idx : Fin r → Nat) (k : Fin (t.shape sa)) :
    (psmT eps t sa).get (upd idx sa k.val) = psm eps (fun j : Fin (t.shape sa) => t.get (upd idx sa j.val)) k := by
  simp only [psmT, mixtureT_upd, psm]

theorem iamT_get (eps : ℝ) (t : Tens r ℂ) (sa : Fin r) (idx : Fin r → Nat) (k : Fin (t.shape sa)) :
    (iamT eps t sa).get (upd idx sa k.val) = iam eps (fun j : Fin (t.shape sa) => t.get (upd idx sa j.val)) k := by
  simp only [iamT, mixtureT_upd, iam]

/-- what a row is: exactly the entries at the in-range indices that agree with `idx` outside the statistics axes -/
theorem mem_rowOf (t : Tens r ℝ) : ∀ (axes : List (Fin r)) (idx : Fin r → Nat) (v : ℝ),
    v ∈ rowOf t axes idx ↔
      ∃ idx' : Fin r → Nat, (∀ i, i ∉ axes → idx' i = idx i) ∧ (∀ a ∈ axes, idx' a < t.shape a) ∧ v = t.get idx'
  | [], idx, v => by
    simp only [rowOf, List.mem_singleton, List.not_mem_nil, not_false_eq_true, forall_const, false_imp_iff,
      implies_true, true_and]
    constructor
    · rintro rfl; exact ⟨idx, fun _ => rfl, rfl⟩
    · rintro ⟨idx', h, rfl⟩
      rw [show idx' = idx from funext h]
  | a :: as, idx, v => by
    simp only [rowOf, List.mem_flatMap, List.mem_range, mem_rowOf t as]
    constructor
    · rintro ⟨j, hj, idx', h1, h2, rfl⟩
      refine ⟨idx', ?_, ?_, rfl⟩
      · intro i hi
        have hia : i ≠ a := fun e => hi (by simp [e])
        have := h1 i (fun hm => hi (List.mem_cons_of_mem _ hm))
        simpa [upd, hia] using this
      · intro b hb
        rcases List.mem_cons.mp hb with rfl | hb
        · by_cases hm : b ∈ as
          · exact h2 b hm
          · have := h1 b hm
            simp only [upd, if_true] at this
            omega
        · exact h2 b hb
    · rintro ⟨idx', h1, h2, rfl⟩
      refine ⟨idx' a, h2 a (by simp), idx', ?_, fun b hb => h2 b (List.mem_cons_of_mem _ hb), rfl⟩
      intro i hi
      by_cases hia : i = a
      · simp [upd, hia]
      · simp only [upd, hia, if_false]
        exact h1 i (by simp [hia, hi])

/-! ### `np.squeeze` of the pooled sensor axis (`keepdims=False`) -/

theorem insAt_self (a : Fin (r+1)) (v : Nat) (idx : Fin r → Nat) : insAt a v idx a = v := by
  simp [insAt]

theorem insAt_skipAt (a : Fin (r+1)) (v : Nat) (idx : Fin r → Nat) (i : Fin r) : insAt a v idx (skipAt a i) = idx i := by
  unfold insAt skipAt
  by_cases h : i.val < a.val
  · simp [h]
  · have h1 : ¬ (i.val + 1 < a.val) := by omega
    have h2 : ¬ (i.val + 1 = a.val) := by omega
    simp [h, h1, h2]

theorem skipAt_ne (a : Fin (r+1)) (i : Fin r) : skipAt a i ≠ a := by
  intro e
  have := congrArg Fin.val e
  unfold skipAt at this
  split at this <;> simp at this <;> omega

theorem skipAt_injective (a : Fin (r+1)) : Function.Injective (skipAt a) := by
  intro i j e
  have := congrArg Fin.val e
  unfold skipAt at this
  apply Fin.ext
  split at this <;> split at this <;> simp at this <;> omega

theorem exists_skipAt (a j : Fin (r+1)) (h : j ≠ a) : ∃ i, skipAt a i = j := by
  have hne : j.val ≠ a.val := fun e => h (Fin.ext e)
  by_cases hlt : j.val < a.val
  · refine ⟨⟨j.val, by have := a.isLt; omega⟩, ?_⟩
    apply Fin.ext; simp [skipAt, hlt]
  · refine ⟨⟨j.val - 1, by have := j.isLt; omega⟩, ?_⟩
    apply Fin.ext
    have : ¬ (j.val - 1 < a.val) := by omega
    simp [skipAt, this]; omega

/-- the axis order induced on the squeezed arrays: `order'` / `inv'` act on the remaining `r` axes like `order` /
`inv` act on the `r+1` axes around the squeezed axis `a` (which sits at position `inv a` after the move) -/
structure SqueezeCompat (order inv : Fin (r+1) → Fin (r+1)) (a : Fin (r+1)) (order' inv' : Fin r → Fin r) : Prop where
  ord : ∀ i, skipAt a (order' i) = order (skipAt (inv a) i)
  inv : ∀ i, skipAt (inv a) (inv' i) = inv (skipAt a i)

/-- squeezing the moved axis of a transposed array is transposing the squeezed array with the induced order -/
theorem squeezeT_transpose {γ : Type} {order inv : Fin (r+1) → Fin (r+1)} {order' inv' : Fin r → Fin r}
    (a : Fin (r+1)) (hc : SqueezeCompat order inv a order' inv') (u : Tens (r+1) γ) :
    Tens.squeezeT (inv a) (Tens.transposeT order inv u) = Tens.transposeT order' inv' (Tens.squeezeT a u) := by
  apply Tens.ext'
  · funext i
    simp only [Tens.squeezeT, Tens.transposeT, hc.ord]
  · funext idx
    simp only [Tens.squeezeT, Tens.transposeT]
    congr 1
    funext j
    by_cases hj : j = a
    · subst hj; rw [insAt_self, insAt_self]
    · obtain ⟨i, rfl⟩ := exists_skipAt a j hj
      rw [← hc.inv, insAt_skipAt, insAt_skipAt]

/-- the induced order always exists and is again a pair of mutually inverse maps -/
theorem exists_squeezeCompat {order inv : Fin (r+1) → Fin (r+1)} (h : AxisPerm order inv) (a : Fin (r+1)) :
    ∃ order' inv', SqueezeCompat order inv a order' inv' ∧ AxisPerm order' inv' := by
  have h1 : ∀ i : Fin r, order (skipAt (inv a) i) ≠ a := by
    intro i e
    have := congrArg inv e
    rw [h.io] at this
    exact skipAt_ne _ _ this
  have h2 : ∀ i : Fin r, inv (skipAt a i) ≠ inv a := by
    intro i e
    exact skipAt_ne _ _ (h.inv_inj.mp e)
  refine ⟨fun i => Classical.choose (exists_skipAt a _ (h1 i)), fun i => Classical.choose (exists_skipAt (inv a) _ (h2 i)),
    ⟨fun i => Classical.choose_spec (exists_skipAt a _ (h1 i)), fun i => Classical.choose_spec (exists_skipAt (inv a) _ (h2 i))⟩, ?_⟩
  constructor
  · intro i
    apply skipAt_injective a
    rw [Classical.choose_spec (exists_skipAt a _ (h1 _)), Classical.choose_spec (exists_skipAt (inv a) _ (h2 i)), h.oi]
  · intro i
    apply skipAt_injective (inv a)
    rw [Classical.choose_spec (exists_skipAt (inv a) _ (h2 _)), Classical.choose_spec (exists_skipAt a _ (h1 i)), h.io]

end tensor

/-! ### Lorenz: the selected points are a prefix of the descending order -/

theorem sortDesc_pairwise (row : List ℝ) : ((sortAsc row).reverse).Pairwise (· ≥ ·) := by
  rw [List.pairwise_reverse]
  exact sortAsc_sorted row

theorem sum_take_mono (d : List ℝ) (hd : ∀ v ∈ d, 0 ≤ v) (i j : Nat) (hij : i ≤ j) :
    (d.take i).sum ≤ (d.take j).sum := by
  have h1 : d.take i = (d.take j).take i := by rw [List.take_take, Nat.min_eq_left hij]
  have h2 := List.sum_take_add_sum_drop (d.take j) i
  have h3 : 0 ≤ ((d.take j).drop i).sum :=
    List.sum_nonneg fun v hv => hd v (List.mem_of_mem_take (List.mem_of_mem_drop hv))
  rw [h1]; linarith

/-- cumulative shares are non-decreasing along the descending order (non-negative powers, positive total): a point
is selected (`share < fraction`) only if every stronger point is — the selection is an initial segment -/
theorem lorenz_selection_prefix (row : List ℝ) (hrow : ∀ v ∈ row, 0 ≤ v) (htot : 0 < row.sum) (fraction : ℝ)
    (i j : Nat) (hij : i ≤ j) (hj : j < (lorenzPairs row).length)
    (hsel : ((lorenzPairs row)[j]).2 < fraction) : ((lorenzPairs row)[i]'(by omega)).2 < fraction := by
  rw [lorenzPairs_getElem] at hsel ⊢
  simp only at hsel ⊢
  have hd : ∀ v ∈ (sortAsc row).reverse, 0 ≤ v := fun v hv =>
    hrow v ((sortAsc_perm row).subset (List.mem_reverse.mp hv))
  have := sum_take_mono _ hd (i+1) (j+1) (by omega)
  exact lt_of_le_of_lt (div_le_div_of_nonneg_right this htot.le) hsel

end PbBss.MasksProof

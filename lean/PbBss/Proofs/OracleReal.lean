import PbBss.Proofs.OracleProof
import PbBss.Proofs.RealInst
/-! Row dominance of the three similarity metrics over ℝ (C15) -/
namespace PbBss.Align
open Function

theorem sum_sq_pos_of_ne {T : Nat} (a b : Fin T → ℝ) (h : a ≠ b) : 0 < ∑ t, (a t - b t) * (a t - b t) := by
  obtain ⟨t0, ht0⟩ : ∃ t, a t ≠ b t := by
    by_contra hall; push_neg at hall; exact h (funext hall)
  apply Finset.sum_pos'
  · intro t _; exact mul_self_nonneg _
  · exact ⟨t0, Finset.mem_univ _, mul_self_pos.mpr (sub_ne_zero.mpr ht0)⟩

/-- euclidean: a reference row is strictly closer to itself than to any different row -/
theorem euclidean_dominant {T : Nat} (tiny : ℝ) (r m : Fin T → ℝ) (h : m ≠ r) :
    sim tiny .euclidean r m < sim tiny .euclidean r r := by
  simp only [sim, vsum_eq_sum, transc_sqrt_real, sub_self, mul_zero, Finset.sum_const_zero, Real.sqrt_zero,
    neg_zero, neg_lt_zero]
  exact Real.sqrt_pos.mpr (sum_sq_pos_of_ne m r h)

theorem vecNormalize_sq_sum {T : Nat} (tiny : ℝ) (ht : 0 < tiny) (a : Fin T → ℝ)
    (ha : tiny ≤ Real.sqrt (∑ t, a t * a t)) : ∑ t, vecNormalize tiny a t * vecNormalize tiny a t = 1 := by
  simp only [vecNormalize, vsum_eq_sum, transc_sqrt_real, max_eq_left ha]
  have hpos : 0 < Real.sqrt (∑ t, a t * a t) := lt_of_lt_of_le ht ha
  have hs : 0 ≤ ∑ t, a t * a t := Finset.sum_nonneg fun t _ => mul_self_nonneg _
  have : ∀ t, a t / Real.sqrt (∑ t, a t * a t) * (a t / Real.sqrt (∑ t, a t * a t))
      = a t * a t / (∑ t, a t * a t) := by
    intro t
    rw [div_mul_div_comm, Real.mul_self_sqrt hs]
  simp only [this]
  rw [← Finset.sum_div, div_self]
  have := Real.sqrt_pos.mp hpos
  exact ne_of_gt this

/-- cos: for rows with norm ≥ tiny, distinct normalised rows score strictly below the self-score -/
theorem cos_dominant {T : Nat} (tiny : ℝ) (ht : 0 < tiny) (r m : Fin T → ℝ)
    (hr : tiny ≤ Real.sqrt (∑ t, r t * r t)) (hm : tiny ≤ Real.sqrt (∑ t, m t * m t))
    (h : vecNormalize tiny m ≠ vecNormalize tiny r) :
    sim tiny .cos r m < sim tiny .cos r r := by
  simp only [sim, vsum_eq_sum]
  have h1 := vecNormalize_sq_sum tiny ht r hr
  have h2 := vecNormalize_sq_sum tiny ht m hm
  have h3 := sum_sq_pos_of_ne _ _ h
  have hexp : ∑ t, (vecNormalize tiny m t - vecNormalize tiny r t) * (vecNormalize tiny m t - vecNormalize tiny r t)
      = (∑ t, vecNormalize tiny m t * vecNormalize tiny m t) + (∑ t, vecNormalize tiny r t * vecNormalize tiny r t)
        - 2 * ∑ t, vecNormalize tiny m t * vecNormalize tiny r t := by
    rw [Finset.mul_sum, ← Finset.sum_add_distrib, ← Finset.sum_sub_distrib]
    apply Finset.sum_congr rfl; intro t _; ring
  rw [hexp, h1, h2] at h3
  rw [h1]; linarith

/-- multiply: for pairwise distinct rows the identity is the strict unique maximiser of the total score -/
theorem multiply_total_lt {K T : Nat} (ρ : Fin K → Fin T → ℝ) (hd : Injective ρ)
    (τ : Fin K → Fin K) (hτ : Bijective τ) (hne : τ ≠ id) :
    ∑ k, (∑ t, ρ (τ k) t * ρ k t) < ∑ k, ∑ t, ρ k t * ρ k t := by
  obtain ⟨k0, hk0⟩ : ∃ k, τ k ≠ k := by
    by_contra hall; push_neg at hall; exact hne (funext hall)
  have hpos : 0 < ∑ k, ∑ t, (ρ (τ k) t - ρ k t) * (ρ (τ k) t - ρ k t) := by
    apply Finset.sum_pos'
    · intro k _; exact Finset.sum_nonneg fun t _ => mul_self_nonneg _
    · exact ⟨k0, Finset.mem_univ _, sum_sq_pos_of_ne _ _ (fun h => hk0 (hd h))⟩
  have hcomp : ∑ k, ∑ t, ρ (τ k) t * ρ (τ k) t = ∑ k, ∑ t, ρ k t * ρ k t :=
    (Equiv.ofBijective τ hτ).sum_comp (fun k => ∑ t, ρ k t * ρ k t)
  have hexp : ∑ k, ∑ t, (ρ (τ k) t - ρ k t) * (ρ (τ k) t - ρ k t)
      = (∑ k, ∑ t, ρ (τ k) t * ρ (τ k) t) + (∑ k, ∑ t, ρ k t * ρ k t) - 2 * ∑ k, ∑ t, ρ (τ k) t * ρ k t := by
    rw [Finset.mul_sum, ← Finset.sum_add_distrib, ← Finset.sum_sub_distrib]
    apply Finset.sum_congr rfl; intro k _
    rw [Finset.mul_sum, ← Finset.sum_add_distrib, ← Finset.sum_sub_distrib]
    apply Finset.sum_congr rfl; intro t _; ring
  rw [hexp, hcomp] at hpos
  linarith

end PbBss.Align

namespace PbBss.Align
open Function

/-- multiply + optimal: the oracle aligner undoes every per-frequency permutation of a reference whose
rows are pairwise distinct in every bin -/
theorem oracle_inverts_multiply_optimal_aux {K F T : Nat} (tiny : ℝ) (ref : Tab3 K F T ℝ)
    (π : Fin F → Equiv.Perm (Fin K)) (hd : ∀ f, Injective fun k => fun t => at3 ref k f t) :
    ∀ k f t, applyMapping (at3 (permuted ref π)) (oracleAligner tiny .multiply .optimal (permuted ref π) ref) k f t
      = at3 ref k f t := by
  intro k f t
  have hassign : assign .optimal (score tiny .multiply (fun k => at3 (permuted ref π) k f) (fun k => at3 ref k f))
      = (π f).symm := by
    apply optimal_eq_of_strict_max _ _ (π f).symm.bijective
    intro τ hτ hne
    have hs : ∀ k j, score tiny .multiply (fun k => at3 (permuted ref π) k f) (fun k => at3 ref k f) k j
        = ∑ t, at3 ref (π f j) f t * at3 ref k f t := by
      intro k j
      simp only [score, scoreMultiply, vsum_eq_sum, permuted, at3_tab3]
    simp only [hs, Equiv.apply_symm_apply]
    have := multiply_total_lt (fun k => fun t => at3 ref k f t) (hd f) (fun k => π f (τ k))
      ((π f).bijective.comp hτ) (by
        intro h
        apply hne
        funext k
        have := congrFun h k
        simp only [id] at this
        rw [← this, Equiv.symm_apply_apply, this])
    exact this
  simp only [applyMapping, oracleAligner]
  rw [hassign]
  simp [permuted]

end PbBss.Align

import PbBss.Proofs.DhtvPlans
/-! The shipped DHTV defaults (STFT sizes 512 and 1024): every later segment overlaps the already processed band by
at least two thirds, and the plan covers every bin.  Decided by kernel evaluation of the plan model. -/
namespace PbBss.Align
open PbBss

def plan512 : List (Nat × Nat × Nat) := planWithIters 20 2 ⟨257, 70, 100, 20⟩
def plan1024 : List (Nat × Nat × Nat) := planWithIters 20 2 ⟨513, 100, 100, 20⟩

theorem plan512_eq : plan512 = [(20, 70, 170), (2, 90, 190), (2, 50, 150), (2, 110, 210), (2, 30, 130),
    (2, 130, 230), (2, 0, 110), (2, 150, 257)] := by decide +kernel

set_option maxRecDepth 100000 in
theorem plan512_tail_ok : planOkB 257 plan512.tail (fun f => decide (70 ≤ f.val ∧ f.val < 170)) = true := by
  decide +kernel

set_option maxRecDepth 100000 in
theorem plan1024_tail_ok : planOkB 513 plan1024.tail (fun f => decide (100 ≤ f.val ∧ f.val < 200)) = true := by
  decide +kernel

set_option maxRecDepth 100000 in
theorem plan512_covers : coversB 257 plan512 = true := by decide +kernel

set_option maxRecDepth 100000 in
theorem plan1024_covers : coversB 513 plan1024 = true := by decide +kernel

theorem plan512_head : plan512 = (20, 70, 170) :: plan512.tail := by decide +kernel
theorem plan1024_head : plan1024 = (20, 100, 200) :: plan1024.tail := by decide +kernel

set_option maxRecDepth 100000 in
theorem len_seg_512 : (segBins 257 70 170).length = 100 := by decide +kernel
set_option maxRecDepth 100000 in
theorem len_seg_1024 : (segBins 513 100 200).length = 100 := by decide +kernel

end PbBss.Align

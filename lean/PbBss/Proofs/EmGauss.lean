import PbBss.Proofs.EmMono
import PbBss.Proofs.TrainersProof
/-! # The spherical / diagonal Gaussian M-step maximises the component part of `Q` (C02)

`GaussianTrainer._fit` with `covariance_type ∈ {'spherical','diagonal'}` as transcribed in `PbBss.Em`
(`sphMstep`, `diagMstep`) against the transcribed log-densities (`sphLogPdf`, `diagLogPdf`): the weighted mean and
the pooled weighted variance(s) maximise `Σ_n c_n log p(y_n; μ, v)` over all means and all positive variances.
Guards: total weight `≥ tiny` (the `max(Σ saliency, tiny)` clamp is inactive) and the new variances positive
(data in general position). -/
open PbBss PbBss.Em Finset

namespace PbBss.EmProof

/-- the scalar inequality behind both: with `A·v̂ ≤ S`, `-(A/2)·log v - S/(2v) ≤ -(A/2)·log v̂ - A/2` -/
theorem gauss_var_opt (A v vh S : ℝ) (hA : 0 ≤ A) (hv : 0 < v) (hvh : 0 < vh) (hS : A * vh ≤ S) :
    -(A / 2) * Real.log v - S / (2 * v) ≤ -(A / 2) * Real.log vh - A / 2 := by
  have hlog : Real.log vh - Real.log v ≤ vh / v - 1 := by
    rw [← Real.log_div hvh.ne' hv.ne']
    exact Real.log_le_sub_one_of_pos (div_pos hvh hv)
  have h1 : A / 2 * (Real.log vh - Real.log v) ≤ A / 2 * (vh / v - 1) :=
    mul_le_mul_of_nonneg_left hlog (by positivity)
  have h2 : A * vh / (2 * v) ≤ S / (2 * v) := div_le_div_of_nonneg_right hS (by positivity)
  have h3 : A / 2 * (vh / v - 1) = A * vh / (2 * v) - A / 2 := by field_simp
  nlinarith

theorem log_inv_sqrt (v : ℝ) (hv : 0 < v) : Real.log (1 / Real.sqrt v) = -(1 / 2) * Real.log v := by
  rw [one_div, Real.log_inv, Real.log_sqrt hv.le]; ring

theorem inv_sqrt_mul_sq (v x : ℝ) (hv : 0 < v) : (1 / Real.sqrt v * x) * (1 / Real.sqrt v * x) = x ^ 2 / v := by
  have h : Real.sqrt v * Real.sqrt v = v := Real.mul_self_sqrt hv.le
  have hs : Real.sqrt v ≠ 0 := (Real.sqrt_pos.mpr hv).ne'
  have e : (1 / Real.sqrt v * x) * (1 / Real.sqrt v * x) = x ^ 2 / (Real.sqrt v * Real.sqrt v) := by
    field_simp
  rw [e, h]

section sph
variable {D N : Nat}

/-- weighted sum of squares about `μ`, one coordinate -/
noncomputable def ssq (c : Fin N → ℝ) (y : Fin N → Fin D → ℝ) (μ : Fin D → ℝ) (d : Fin D) : ℝ :=
  ∑ n, c n * (y n d - μ d) ^ 2

theorem ssq_min (c : Fin N → ℝ) (y : Fin N → Fin D → ℝ) (hC : 0 < ∑ n, c n) (μ : Fin D → ℝ) (d : Fin D) :
    ssq c y (fun d => (∑ n, c n * y n d) / ∑ n, c n) d ≤ ssq c y μ d :=
  PbBss.Trainers.wmean_min_1d c (fun n => y n d) hC (μ d)

theorem sph_compQ_eq (tiny log2pi : ℝ) (c : Fin N → ℝ) (y : Fin N → Fin D → ℝ) (θ : SphG ℝ D) (hv : 0 < θ.var) :
    compQ (sphFamily D tiny log2pi) c y θ
      = (∑ n, c n) * (-(1 / 2 * (D : ℝ) * log2pi))
        + (-((∑ n, c n) * (D : ℝ) / 2) * Real.log θ.var - (∑ d, ssq c y (rd θ.mean) d) / (2 * θ.var)) := by
  unfold compQ sphFamily sphLogPdf ssq
  simp only [transc_log_real, transc_sqrt_real, vsum_eq_sum, half]
  simp only [inv_sqrt_mul_sq _ _ hv, log_inv_sqrt _ hv]
  have e1 : (∑ n, c n) * (-(1 / 2 * (D : ℝ) * log2pi)) = ∑ n, c n * (-(1 / 2 * (D : ℝ) * log2pi)) :=
    Finset.sum_mul _ _ _
  have e2 : -((∑ n, c n) * (D : ℝ) / 2) * Real.log θ.var = ∑ n, -(c n * (D : ℝ) / 2) * Real.log θ.var := by
    rw [Finset.sum_mul, Finset.sum_div, ← Finset.sum_neg_distrib, Finset.sum_mul]
  have e3 : (∑ d, ∑ n, c n * (y n d - rd θ.mean d) ^ 2) / (2 * θ.var)
      = ∑ n, (∑ d, c n * (y n d - rd θ.mean d) ^ 2) / (2 * θ.var) := by
    rw [Finset.sum_comm, Finset.sum_div]
  rw [e1, e2, e3, ← Finset.sum_sub_distrib, ← Finset.sum_add_distrib]
  refine Finset.sum_congr rfl fun n _ => ?_
  rw [← Finset.mul_sum, ← Finset.sum_div]
  norm_num
  ring

theorem sphMstep_mean (tiny : ℝ) (c : Fin N → ℝ) (y : Fin N → Fin D → ℝ) (hC : tiny ≤ ∑ n, c n) (d : Fin D) :
    rd (sphMstep tiny N c (fun _ => 1) y).mean d = (∑ n, c n * y n d) / ∑ n, c n := by
  simp [sphMstep, gaussMean, vsum_eq_sum, max_eq_left hC]

theorem sphMstep_var (tiny : ℝ) (c : Fin N → ℝ) (y : Fin N → Fin D → ℝ) (hC : tiny ≤ ∑ n, c n) :
    (sphMstep tiny N c (fun _ => 1) y).var
      = (∑ d, ssq c y (fun d => (∑ n, c n * y n d) / ∑ n, c n) d) / ((∑ n, c n) * (D : ℝ)) := by
  simp only [sphMstep, gaussMean, vsum_eq_sum, max_eq_left hC, rd_tab, ssq]
  rw [Finset.sum_comm]
  congr 1
  refine Finset.sum_congr rfl fun d _ => Finset.sum_congr rfl fun n _ => ?_
  ring

/-- **spherical Gaussian M-step**: the weighted mean and pooled variance maximise `Σ c_n log p(y_n)` -/
theorem sph_mstep_improves (tiny log2pi : ℝ) (c aux : Fin N → ℝ) (y : Fin N → Fin D → ℝ) (θ : SphG ℝ D)
    (ht : 0 < tiny) (hC : tiny ≤ ∑ n, c n) (hD : 0 < D) (hv : 0 < θ.var)
    (hv' : 0 < (sphMstep tiny N c aux y).var) :
    compQ (sphFamily D tiny log2pi) c y θ
      ≤ compQ (sphFamily D tiny log2pi) c y ((sphFamily D tiny log2pi).mstep N c aux y) := by
  have haux : sphMstep tiny N c aux y = sphMstep tiny N c (fun _ => 1) y := rfl
  have hCpos : 0 < ∑ n, c n := lt_of_lt_of_le ht hC
  show _ ≤ compQ (sphFamily D tiny log2pi) c y (sphMstep tiny N c aux y)
  rw [haux] at hv' ⊢
  rw [sph_compQ_eq tiny log2pi c y θ hv, sph_compQ_eq tiny log2pi c y _ hv']
  refine add_le_add le_rfl ?_
  have hmean : (rd (sphMstep tiny N c (fun _ => 1) y).mean) = fun d => (∑ n, c n * y n d) / ∑ n, c n :=
    funext (sphMstep_mean tiny c y hC)
  rw [hmean]
  set m : Fin D → ℝ := fun d => (∑ n, c n * y n d) / ∑ n, c n with hm
  set vh := (sphMstep tiny N c (fun _ => 1) y).var with hvh
  have hvar : vh = (∑ d, ssq c y m d) / ((∑ n, c n) * (D : ℝ)) := sphMstep_var tiny c y hC
  have hDpos : (0 : ℝ) < D := by exact_mod_cast hD
  have hS0 : (∑ d, ssq c y m d) = (∑ n, c n) * (D : ℝ) * vh := by
    rw [hvar]; field_simp
  have hmin : (∑ d, ssq c y m d) ≤ ∑ d, ssq c y (rd θ.mean) d :=
    Finset.sum_le_sum fun d _ => ssq_min c y hCpos (rd θ.mean) d
  have key := gauss_var_opt ((∑ n, c n) * (D : ℝ)) θ.var vh (∑ d, ssq c y (rd θ.mean) d)
    (by positivity) hv hv' (by rw [← hS0]; exact hmin)
  rw [hS0]
  have e : (∑ n, c n) * (D : ℝ) * vh / (2 * vh) = (∑ n, c n) * (D : ℝ) / 2 := by field_simp
  rw [e]
  linarith

end sph

section diag
variable {D N : Nat}

theorem diag_compQ_eq (tiny log2pi : ℝ) (c : Fin N → ℝ) (y : Fin N → Fin D → ℝ) (θ : DiagG ℝ D)
    (hv : ∀ d, 0 < rd θ.var d) :
    compQ (diagFamily D tiny log2pi) c y θ
      = (∑ n, c n) * (-(1 / 2 * (D : ℝ) * log2pi))
        + ∑ d, (-((∑ n, c n) / 2) * Real.log (rd θ.var d) - ssq c y (rd θ.mean) d / (2 * rd θ.var d)) := by
  unfold compQ diagFamily diagLogPdf ssq
  simp only [transc_log_real, transc_sqrt_real, vsum_eq_sum, half]
  simp only [fun d x => inv_sqrt_mul_sq _ x (hv d), fun d => log_inv_sqrt _ (hv d)]
  have e1 : (∑ n, c n) * (-(1 / 2 * (D : ℝ) * log2pi)) = ∑ n, c n * (-(1 / 2 * (D : ℝ) * log2pi)) :=
    Finset.sum_mul _ _ _
  have e2 : ∑ d, (-((∑ n, c n) / 2) * Real.log (rd θ.var d)
        - (∑ n, c n * (y n d - rd θ.mean d) ^ 2) / (2 * rd θ.var d))
      = ∑ n, ∑ d, (-(c n / 2) * Real.log (rd θ.var d) - c n * (y n d - rd θ.mean d) ^ 2 / (2 * rd θ.var d)) := by
    rw [Finset.sum_comm]
    refine Finset.sum_congr rfl fun d _ => ?_
    rw [Finset.sum_sub_distrib, ← Finset.sum_div, ← Finset.sum_mul, Finset.sum_neg_distrib, ← Finset.sum_div]
  rw [e1, e2, ← Finset.sum_add_distrib]
  refine Finset.sum_congr rfl fun n _ => ?_
  have e4 : (1 : ℝ) / (1 + 1) = 1 / 2 := by norm_num
  rw [e4, Finset.sum_sub_distrib, Finset.mul_sum (a := (1 : ℝ) / 2), mul_sub, mul_add, Finset.mul_sum,
    Finset.mul_sum]
  have e5 : ∀ d, c n * (-(1 / 2) * Real.log (rd θ.var d)) = -(c n / 2) * Real.log (rd θ.var d) := fun d => by ring
  have e6 : ∀ d, c n * (1 / 2 * ((y n d - rd θ.mean d) ^ 2 / rd θ.var d))
      = c n * (y n d - rd θ.mean d) ^ 2 / (2 * rd θ.var d) := fun d => by
    have := (hv d).ne'
    field_simp
  simp only [e5, e6]
  ring

theorem diagMstep_mean (tiny : ℝ) (c : Fin N → ℝ) (y : Fin N → Fin D → ℝ) (hC : tiny ≤ ∑ n, c n) (d : Fin D) :
    rd (diagMstep tiny N c (fun _ => 1) y).mean d = (∑ n, c n * y n d) / ∑ n, c n := by
  simp [diagMstep, gaussMean, vsum_eq_sum, max_eq_left hC]

theorem diagMstep_var (tiny : ℝ) (c : Fin N → ℝ) (y : Fin N → Fin D → ℝ) (hC : tiny ≤ ∑ n, c n) (d : Fin D) :
    rd (diagMstep tiny N c (fun _ => 1) y).var d
      = ssq c y (fun d => (∑ n, c n * y n d) / ∑ n, c n) d / ∑ n, c n := by
  simp only [diagMstep, gaussMean, vsum_eq_sum, max_eq_left hC, rd_tab, ssq]
  congr 1
  refine Finset.sum_congr rfl fun n _ => ?_
  ring

/-- **diagonal Gaussian M-step**: the weighted mean and per-dimension weighted variances maximise
`Σ c_n log p(y_n)` -/
theorem diag_mstep_improves (tiny log2pi : ℝ) (c aux : Fin N → ℝ) (y : Fin N → Fin D → ℝ) (θ : DiagG ℝ D)
    (ht : 0 < tiny) (hC : tiny ≤ ∑ n, c n) (hv : ∀ d, 0 < rd θ.var d)
    (hv' : ∀ d, 0 < rd (diagMstep tiny N c aux y).var d) :
    compQ (diagFamily D tiny log2pi) c y θ
      ≤ compQ (diagFamily D tiny log2pi) c y ((diagFamily D tiny log2pi).mstep N c aux y) := by
  have haux : diagMstep tiny N c aux y = diagMstep tiny N c (fun _ => 1) y := rfl
  have hCpos : 0 < ∑ n, c n := lt_of_lt_of_le ht hC
  show _ ≤ compQ (diagFamily D tiny log2pi) c y (diagMstep tiny N c aux y)
  rw [haux] at hv' ⊢
  rw [diag_compQ_eq tiny log2pi c y θ hv, diag_compQ_eq tiny log2pi c y _ hv']
  refine add_le_add le_rfl (Finset.sum_le_sum fun d _ => ?_)
  have hmean : (rd (diagMstep tiny N c (fun _ => 1) y).mean) = fun d => (∑ n, c n * y n d) / ∑ n, c n :=
    funext (diagMstep_mean tiny c y hC)
  rw [hmean]
  set m : Fin D → ℝ := fun d => (∑ n, c n * y n d) / ∑ n, c n with hm
  set vh := rd (diagMstep tiny N c (fun _ => 1) y).var d with hvh
  have hvar : vh = ssq c y m d / ∑ n, c n := diagMstep_var tiny c y hC d
  have hS0 : ssq c y m d = (∑ n, c n) * vh := by rw [hvar]; field_simp
  have key := gauss_var_opt (∑ n, c n) (rd θ.var d) vh (ssq c y (rd θ.mean) d) hCpos.le (hv d) (hv' d)
    (by rw [← hS0]; exact ssq_min c y hCpos (rd θ.mean) d)
  rw [hS0]
  have e : (∑ n, c n) * vh / (2 * vh) = (∑ n, c n) / 2 := by
    have hne : vh ≠ 0 := (hv' d).ne'
    field_simp
  rw [e]
  linarith

end diag

end PbBss.EmProof

import PbBss.Proofs.FixedPointRound
import PbBss.Proofs.Proof1
/-! A complete `n`-step fixed-point theorem for the BALANCED noise-free orthonormal scene of the Watson mixture
(uniform mixture weights, equal class masses, hard start): all quantities of the EM recursion are explicit, so the
trajectory hypotheses of `fixed_point_chain_partial` can be discharged by induction. -/
open PbBss PbBss.Em Finset

namespace PbBss.FixedPoint

local notation "conj" => starRingEnd ℂ

/-- the model E-step is the Bayes posterior when every weight is at least `tiny` (denominator clamp inactive) -/
theorem eStep_bayes {Θ Y : Type} {K N : Nat} (tiny : ℝ) (htiny : 0 < tiny) (fam : Family Θ Y ℝ)
    (θ : Mixture Θ ℝ (K+1) N) (y : Fin N → Y) (hw : ∀ k n, tiny ≤ θ.w k n) (k : Fin (K+1)) (n : Fin N) :
    eStep tiny fam θ y k n
      = θ.w k n * Real.exp (fam.logPdf (θ.c k) (y n)) / ∑ j, θ.w j n * Real.exp (fam.logPdf (θ.c j) (y n)) := by
  unfold eStep
  have hden : tiny ≤ ∑ j, Real.exp (fam.logPdf (θ.c j) (y n) - vmax (fun j => fam.logPdf (θ.c j) (y n))) * θ.w j n := by
    obtain ⟨j0, hj0⟩ := vmax_mem (fun j => fam.logPdf (θ.c j) (y n))
    have hnn : ∀ j ∈ (univ : Finset (Fin (K+1))),
        0 ≤ Real.exp (fam.logPdf (θ.c j) (y n) - vmax (fun j => fam.logPdf (θ.c j) (y n))) * θ.w j n :=
      fun j _ => mul_nonneg (Real.exp_pos _).le (le_trans htiny.le (hw j n))
    refine le_trans ?_ (Finset.single_le_sum hnn (Finset.mem_univ j0))
    rw [hj0]; simp; exact hw j0 n
  exact affiliation_bayes tiny (fun j => θ.w j n) (fun j => fam.logPdf (θ.c j) (y n)) hden htiny k

theorem sum_ite_one {K : Nat} (c : Fin (K+1)) (E : ℝ) : ∑ j : Fin (K+1), (if c = j then E else 1) = E + K := by
  have : ∀ j : Fin (K+1), (if c = j then E else 1) = 1 + (if c = j then E - 1 else 0) := by
    intro j; split <;> ring
  simp only [this, Finset.sum_add_distrib, Finset.sum_ite_eq, Finset.mem_univ, if_true]
  simp
  ring

theorem hardStart_mass {K N : Nat} (c : Fin N → Fin K) (s : Fin N → ℝ) (k : Fin K) :
    ∑ n, hardStart c k n * s n = classMass c s k := by
  unfold classMass hardStart
  refine Finset.sum_congr rfl fun n _ => ?_
  split <;> simp

section balanced
variable {K N D : Nat} {a : Fin (K+1) → Fin D → ℂ} {c : Fin N → Fin (K+1)} {z : Fin N → Fin D → ℂ}
  (pca : Tab D (Tab D ℂ) → Tab D ℂ × ℝ) (kinv lnorm : ℝ → ℝ)

/-- all modes on their prototypes, one common concentration and log-normaliser -/
def Balanced (a : Fin (K+1) → Fin D → ℂ) (θ : Mixture (Watson ℝ ℂ D) ℝ (K+1) N) (κ ℓ : ℝ) : Prop :=
  ∀ k, Aligned a (θ.c k) k ∧ (θ.c k).kappa = κ ∧ (θ.c k).logNorm = ℓ

/-- the posterior of a balanced model with uniform weights: `e^κ/(e^κ+K)` on the true class, `1/(e^κ+K)` elsewhere -/
theorem eStep_balanced (sc : Scene a c z) (tiny : ℝ) (htiny : 0 < tiny) (ht : tiny ≤ 1 / ((K+1 : ℕ) : ℝ))
    (θ : Mixture (Watson ℝ ℂ D) ℝ (K+1) N) (κ ℓ : ℝ) (hb : Balanced a θ κ ℓ)
    (hw : ∀ k n, θ.w k n = 1 / ((K+1 : ℕ) : ℝ)) (k : Fin (K+1)) (n : Fin N) :
    eStep tiny (watsonFamily D pca kinv lnorm) θ z k n
      = if c n = k then Real.exp κ / (Real.exp κ + K) else 1 / (Real.exp κ + K) := by
  obtain ⟨u, hu, hz⟩ := sc.obs
  rw [eStep_bayes tiny htiny _ θ z (fun k n => by rw [hw]; exact ht)]
  have hlp : ∀ j, (watsonFamily D pca kinv lnorm).logPdf (θ.c j) (z n) = κ * (if c n = j then 1 else 0) - ℓ := by
    intro j
    obtain ⟨⟨p, hp, hm⟩, h2, h3⟩ := hb j
    show watsonLogPdf (θ.c j) (z n) = _
    rw [watsonLogPdf_scene sc.ortho (θ.c j) j (c n) p (u n) hp (hu n) hm (z n) (hz n), h2, h3]
  have hexp : ∀ j, Real.exp ((watsonFamily D pca kinv lnorm).logPdf (θ.c j) (z n))
      = (if c n = j then Real.exp κ else 1) * Real.exp (-ℓ) := by
    intro j
    rw [hlp, sub_eq_add_neg, Real.exp_add]
    split <;> simp
  simp only [hw, hexp]
  have hsum : ∑ j : Fin (K+1), 1 / ((K+1 : ℕ) : ℝ) * ((if c n = j then Real.exp κ else 1) * Real.exp (-ℓ))
      = 1 / ((K+1 : ℕ) : ℝ) * Real.exp (-ℓ) * (Real.exp κ + K) := by
    rw [← sum_ite_one (c n) (Real.exp κ), Finset.mul_sum]
    exact Finset.sum_congr rfl fun j _ => by ring
  rw [hsum]
  have h1 : (0:ℝ) < 1 / ((K+1 : ℕ) : ℝ) := by positivity
  have h2 : 0 < Real.exp (-ℓ) := Real.exp_pos _
  have h3 : 0 < Real.exp κ + K := by positivity
  split <;> field_simp

/-- class masses of the balanced posterior -/
theorem classMass_two_level {K N : Nat} (c : Fin N → Fin K) (s : Fin N → ℝ) (g h : ℝ) (k j : Fin K) :
    classMass c (fun n => (if c n = k then g else h) * s n) j = (if j = k then g else h) * classMass c s j := by
  unfold classMass
  rw [Finset.mul_sum]
  refine Finset.sum_congr rfl fun n _ => ?_
  by_cases h1 : c n = j
  · subst h1; simp
  · simp [h1]

/-- shares of a two-level affiliation on classes of equal mass `S > 0`, with `g + K·h = 1` -/
theorem share_two_level (c : Fin N → Fin (K+1)) (s : Fin N → ℝ) (S : ℝ) (hS : 0 < S)
    (hbal : ∀ k, classMass c s k = S) (g h : ℝ) (hgh : g + K * h = 1) (k j : Fin (K+1)) :
    share c s (fun k n => if c n = k then g else h) k j = if j = k then g else h := by
  unfold share
  have htot : ∑ n, (if c n = k then g else h) * s n = S := by
    rw [← classMass_sum c]
    simp only [classMass_two_level, hbal]
    rw [← Finset.sum_mul]
    have : ∑ j : Fin (K+1), (if j = k then g else h) = g + K * h := by
      have e : ∀ j : Fin (K+1), (if j = k then g else h) = h + (if j = k then g - h else 0) := by
        intro j; split <;> ring
      simp only [e, Finset.sum_add_distrib, Finset.sum_ite_eq', Finset.mem_univ, if_true]
      simp
      ring
    rw [this, hgh, one_mul]
  rw [classMass_two_level, hbal, htot]
  field_simp

/-- the true partition blurred by a uniform leak: `g` on the true class, `h` on every other class
(`g = 1, h = 0`: the hard start; `g = 1 − b + b/(K+1)`, `h = b/(K+1)`: blur weight `b`) -/
def twoLevel {K N : Nat} (c : Fin N → Fin K) (g h : ℝ) : Fin K → Fin N → ℝ := fun k n => if c n = k then g else h

theorem twoLevel_hard {K N : Nat} (c : Fin N → Fin K) : twoLevel c 1 0 = hardStart c := rfl

/-- concentration sequence of the balanced scene started from `twoLevel c g₀ h₀`:
`κ₁ = kinv g₀`, `κ_{i+1} = kinv (e^{κ_i} / (e^{κ_i} + K))` -/
noncomputable def kappaSeq (kinv : ℝ → ℝ) (K : Nat) (g₀ : ℝ) : Nat → ℝ
  | 0 => kinv g₀
  | i+1 => kinv (Real.exp (kappaSeq kinv K g₀ i) / (Real.exp (kappaSeq kinv K g₀ i) + K))

variable (tiny : ℝ) (rule : WeightRule) (tie : Tying N) (eps : ℝ) (s : Fin N → ℝ)

theorem uniform_w (htie : tie.uniform = true) (γ aux : Fin (K+1) → Fin N → ℝ) (k : Fin (K+1)) (n : Fin N) :
    (mStep (watsonFamily D pca kinv lnorm) rule tie eps s z γ aux).w k n = 1 / ((K+1 : ℕ) : ℝ) := by
  simp [Mixture.w, mStep, mWeight, htie]

/-- one EM iteration of a balanced model with uniform weights is balanced again, with concentration
`kinv (e^κ/(e^κ+K))` -/
theorem balanced_step (sc : Scene a c z) (hpca : PcaOn pca z) (hK : 1 ≤ K)
    (hkinv : ∀ x : ℝ, 1 / ((K+1 : ℕ) : ℝ) < x → x ≤ 1 → 0 < kinv x)
    (htiny : 0 < tiny) (ht : tiny ≤ 1 / ((K+1 : ℕ) : ℝ))
    (S : ℝ) (hS : 0 < S) (hbal : ∀ k, classMass c s k = S)
    (θ : Mixture (Watson ℝ ℂ D) ℝ (K+1) N) (κ : ℝ) (hb : Balanced a θ κ (lnorm κ)) (hκ : 0 < κ)
    (hw : ∀ k n, θ.w k n = 1 / ((K+1 : ℕ) : ℝ)) :
    Balanced a (emStep tiny (watsonFamily D pca kinv lnorm) rule tie eps s z θ)
        (kinv (Real.exp κ / (Real.exp κ + K))) (lnorm (kinv (Real.exp κ / (Real.exp κ + K))))
      ∧ 0 < kinv (Real.exp κ / (Real.exp κ + K)) := by
  have hK' : (1:ℝ) ≤ K := by exact_mod_cast hK
  have hE : 1 < Real.exp κ := by
    have := Real.add_one_lt_exp hκ.ne'
    linarith
  have hden : 0 < Real.exp κ + K := by positivity
  have hgh : Real.exp κ / (Real.exp κ + K) + K * (1 / (Real.exp κ + K)) = 1 := by field_simp
  have hhg : 1 / (Real.exp κ + K) < Real.exp κ / (Real.exp κ + K) := div_lt_div_of_pos_right hE hden
  have hg0 : 0 < Real.exp κ / (Real.exp κ + K) := by positivity
  have hγ : eStep tiny (watsonFamily D pca kinv lnorm) θ z
      = fun k n => if c n = k then Real.exp κ / (Real.exp κ + K) else 1 / (Real.exp κ + K) := by
    funext k n
    exact eStep_balanced pca kinv lnorm sc tiny htiny ht θ κ (lnorm κ) hb hw k n
  have hshare := share_two_level c s S hS hbal _ _ hgh
  have hdom : MassDominant c s (eStep tiny (watsonFamily D pca kinv lnorm) θ z) := by
    rw [hγ]
    intro k
    refine ⟨by rw [hshare, if_pos rfl]; exact hg0, fun j hj => ?_⟩
    rw [hshare, hshare, if_pos rfl, if_neg hj]
    exact hhg
  refine ⟨fun k => ?_, ?_⟩
  · rw [emStep_eq]
    have h := mStep_aligned pca kinv lnorm rule tie eps s sc hpca _ (eAux (watsonFamily D pca kinv lnorm) θ z) hdom k
    have hsh : share c s (eStep tiny (watsonFamily D pca kinv lnorm) θ z) k k = Real.exp κ / (Real.exp κ + K) := by
      rw [hγ, hshare, if_pos rfl]
    rw [hsh] at h
    exact h
  · apply hkinv
    · rw [div_lt_div_iff₀ (by positivity) hden]
      push_cast
      nlinarith
    · rw [div_le_one hden]; linarith

theorem fit_w_uniform (htie : tie.uniform = true) (γ₀ : Fin (K+1) → Fin N → ℝ) (i : Nat) (k : Fin (K+1)) (n : Fin N) :
    (fit tiny (watsonFamily D pca kinv lnorm) rule tie eps s z (i+1) γ₀).w k n = 1 / ((K+1 : ℕ) : ℝ) := by
  obtain ⟨aux, haux⟩ := fit_eq_mStep tiny (watsonFamily D pca kinv lnorm) rule tie eps s z γ₀ i
  rw [haux]
  exact uniform_w pca kinv lnorm rule tie eps s htie _ aux k n

/-- **the true partition is a stable fixed point of the balanced noise-free Watson mixture, for every number of
iterations**, from the hard start or any uniform-leak blur that keeps the true class the largest (`h₀ < g₀`):
induction over the EM loop `Em.fit` -/
theorem balanced_chain (sc : Scene a c z) (hpca : PcaOn pca z) (hK : 1 ≤ K)
    (hkinv : ∀ x : ℝ, 1 / ((K+1 : ℕ) : ℝ) < x → x ≤ 1 → 0 < kinv x)
    (htiny : 0 < tiny) (ht : tiny ≤ 1 / ((K+1 : ℕ) : ℝ)) (htie : tie.uniform = true)
    (S : ℝ) (hS : 0 < S) (hbal : ∀ k, classMass c s k = S)
    (g₀ h₀ : ℝ) (hgh : g₀ + K * h₀ = 1) (hh0 : 0 ≤ h₀) (hlt : h₀ < g₀) (i : Nat) :
    Balanced a (fit tiny (watsonFamily D pca kinv lnorm) rule tie eps s z (i+1) (twoLevel c g₀ h₀))
        (kappaSeq kinv K g₀ i) (lnorm (kappaSeq kinv K g₀ i))
      ∧ 0 < kappaSeq kinv K g₀ i := by
  have hK' : (1:ℝ) ≤ K := by exact_mod_cast hK
  induction i with
  | zero =>
    have hKh : 0 ≤ (K:ℝ) * h₀ := mul_nonneg (by positivity) hh0
    have hg1 : g₀ ≤ 1 := by linarith
    have hgK : 1 / ((K+1 : ℕ) : ℝ) < g₀ := by
      rw [div_lt_iff₀ (by positivity)]
      push_cast
      nlinarith
    have hg0 : 0 < g₀ := lt_trans (by positivity) hgK
    have hshare := share_two_level c s S hS hbal g₀ h₀ hgh
    have hdom : MassDominant c s (twoLevel c g₀ h₀) := by
      intro k
      refine ⟨by unfold twoLevel; rw [hshare, if_pos rfl]; exact hg0, fun j hj => ?_⟩
      unfold twoLevel
      rw [hshare, hshare, if_pos rfl, if_neg hj]
      exact hlt
    refine ⟨fun k => ?_, hkinv g₀ hgK hg1⟩
    have h := mStep_aligned pca kinv lnorm rule tie eps s sc hpca (twoLevel c g₀ h₀) (fun _ _ => 1) hdom k
    have hsh : share c s (twoLevel c g₀ h₀) k k = g₀ := by unfold twoLevel; rw [hshare, if_pos rfl]
    rw [hsh] at h
    exact h
  | succ i ih =>
    obtain ⟨hb, hκ⟩ := ih
    rw [fit_succ]
    exact balanced_step pca kinv lnorm tiny rule tie eps s sc hpca hK hkinv htiny ht S hS hbal _ _ hb hκ
      (fit_w_uniform pca kinv lnorm tiny rule tie eps s htie (twoLevel c g₀ h₀) i)

/-- a balanced model with uniform weights and a positive concentration ranks the true class strictly first -/
theorem balanced_argmax (sc : Scene a c z) (htiny : 0 < tiny) (θ : Mixture (Watson ℝ ℂ D) ℝ (K+1) N) (κ ℓ : ℝ)
    (hb : Balanced a θ κ ℓ) (hκ : 0 < κ) (hw : ∀ k n, θ.w k n = 1 / ((K+1 : ℕ) : ℝ)) (n : Fin N) :
    vargmax (fun k => eStep tiny (watsonFamily D pca kinv lnorm) θ z k n) = c n := by
  refine vargmax_of_strict _ (c n) fun j hj => ?_
  apply watson_estep_rank pca kinv lnorm sc tiny htiny θ (fun k => (hb k).1) n j hj
  rw [hw, hw, (hb j).2.2, (hb (c n)).2.2, (hb (c n)).2.1]
  have h1 : (0:ℝ) < 1 / ((K+1 : ℕ) : ℝ) := by positivity
  have h2 : Real.exp (-ℓ) < Real.exp (κ - ℓ) := Real.exp_lt_exp.mpr (by linarith)
  exact mul_lt_mul_of_pos_left h2 h1

end balanced

end PbBss.FixedPoint

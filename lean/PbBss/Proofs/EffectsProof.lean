import PbBss.Model.Effects
import PbBss.Model.TrainerSM
/-! Lemmas for C20: trainer state machine invariants and split fits (core Lean only). -/
namespace PbBss.TrainerSM
variable {α ρ : Type} (run : Option Nat → α → ρ)

/-- invariant of every state reachable from `init c`: the cached table (if any) was built for the bound dimension, and a
dimension given to the constructor stays bound -/
def Inv (c : Option Nat) (s : State) : Prop :=
  (s.cachedFor = none ∨ s.cachedFor = s.dimension) ∧ (∀ d0, c = some d0 → s.dimension = some d0)

theorem inv_init (c : Option Nat) : Inv c (init c) :=
  ⟨Or.inl rfl, fun _ h => h⟩

theorem accept_dimension (s : State) (o : Op α) : (accept run s o).1.dimension = some o.d := by
  unfold accept; split <;> rfl

theorem inv_accept {c : Option Nat} {s : State} (o : Op α) (h : Inv c s)
    (hd : s.dimension = none ∨ s.dimension = some o.d) : Inv c (accept run s o).1 := by
  obtain ⟨h1, h2⟩ := h
  refine ⟨?_, ?_⟩
  · unfold accept
    split
    · cases hc : s.cachedFor with
      | none => simp
      | some t =>
        rcases h1 with h1 | h1
        · rw [hc] at h1; cases h1
        · rcases hd with hd | hd
          · rw [hc, hd] at h1; cases h1
          · rw [hc, hd] at h1; cases h1; simp
    · rcases h1 with h1 | h1
      · exact Or.inl h1
      · rcases hd with hd | hd
        · left; rw [h1, hd]
        · right; simp only; rw [h1, hd]
  · intro d0 hc
    rw [accept_dimension]
    rcases hd with hd | hd
    · rw [h2 d0 hc] at hd; cases hd
    · rw [h2 d0 hc] at hd; exact hd.symm

theorem inv_step {c : Option Nat} {s : State} (o : Op α) (h : Inv c s) : Inv c (step run s o).1 := by
  unfold step
  cases hd : s.dimension with
  | none => exact inv_accept run o h (Or.inl hd)
  | some d0 =>
    simp only
    split
    · rename_i heq; subst heq; exact inv_accept run o h (Or.inr hd)
    · exact h

theorem inv_runOps {c : Option Nat} (ops : List (Op α)) : ∀ {s : State}, Inv c s → Inv c (runOps run s ops) := by
  induction ops with
  | nil => intro s h; exact h
  | cons o os ih => intro s h; exact ih (inv_step run o h)

/-- `s` is the state of a trainer constructed with `dimension=c` after some list of earlier `fit` calls -/
def Reachable (c : Option Nat) (s : State) : Prop := ∃ ops : List (Op α), runOps run (init c) ops = s

theorem inv_of_reachable {c : Option Nat} {s : State} (h : Reachable run c s) : Inv c s := by
  obtain ⟨ops, rfl⟩ := h
  exact inv_runOps run ops (inv_init c)

/-- the table an accepted fit uses, for a state satisfying the invariant -/
theorem accept_out {c : Option Nat} {s : State} (o : Op α) (h : Inv c s)
    (hd : s.dimension = none ∨ s.dimension = some o.d) :
    (accept run s o).2 = if o.usesTable then .ok (some o.d) (run (some o.d) o.args) else .ok none (run none o.args) := by
  unfold accept
  split
  · cases hc : s.cachedFor with
    | none => rfl
    | some t =>
      have : t = o.d := by
        rcases h.1 with h1 | h1
        · rw [hc] at h1; cases h1
        · rcases hd with hd | hd
          · rw [hc, hd] at h1; cases h1
          · rw [hc, hd] at h1; cases h1; rfl
      subst this; rfl
  · rfl

/-! ### split fits -/
section Split
variable {Γ Θ : Type} (mstep : Γ → Θ) (estep : Θ → Γ)

theorem iter_add {β : Type} (f : β → β) (m n : Nat) (x : β) : iter f (m + n) x = iter f n (iter f m x) := by
  induction m generalizing x with
  | zero => simp [iter]
  | succ m ih => rw [Nat.succ_add]; simp only [iter]; exact ih (f x)

theorem loop_from_model (n : Nat) (θ : Θ) (γ : Γ) :
    (iter (loopBody mstep estep) n (some θ, γ)).1 = some (iter (emStep mstep estep) n θ) := by
  induction n generalizing θ γ with
  | zero => rfl
  | succ n ih => simp only [iter]; exact ih _ _

theorem fitModel_eq (n : Nat) (θ : Θ) (dummy : Γ) : fitModel mstep estep n θ dummy = some (fitFromModel mstep estep n θ) :=
  loop_from_model mstep estep n θ dummy

theorem fitAff_eq (n : Nat) (hn : 1 ≤ n) (γ₀ : Γ) : fitAff mstep estep n γ₀ = some (fitFromAff mstep estep n γ₀) := by
  obtain ⟨k, rfl⟩ : ∃ k, n = k + 1 := ⟨n - 1, by omega⟩
  simp only [fitAff, fitFromAff, iter, Nat.add_sub_cancel]
  exact loop_from_model mstep estep k (mstep γ₀) γ₀

theorem fitFrom_split (n₁ n₂ : Nat) (h : 1 ≤ n₁) (γ₀ : Γ) :
    fitFromModel mstep estep n₂ (fitFromAff mstep estep n₁ γ₀) = fitFromAff mstep estep (n₁ + n₂) γ₀ := by
  unfold fitFromModel fitFromAff
  rw [← iter_add]
  congr 1
  omega

theorem fitFromModel_add (n₁ n₂ : Nat) (θ : Θ) :
    fitFromModel mstep estep n₂ (fitFromModel mstep estep n₁ θ) = fitFromModel mstep estep (n₁ + n₂) θ := by
  unfold fitFromModel
  rw [← iter_add]

end Split
end PbBss.TrainerSM

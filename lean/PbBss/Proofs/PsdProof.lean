import PbBss.Model.Psd
import PbBss.Proofs.RealInst
import Mathlib.LinearAlgebra.Matrix.PosDef
import Mathlib.Tactic
/-! Lemmas about `PbBss.Psd` over `ℝ`/`ℂ` (used by `PbBss/Props/C10.lean`). -/
open PbBss PbBss.Psd Matrix
open scoped ComplexOrder

namespace PbBss.Psd

variable {D T : Nat}

theorem wsum_eq (w : Fin T → ℝ) (x : Fin D → Fin T → ℂ) (d e : Fin D) :
    wsum w x d e = ∑ t, (w t : ℂ) * x d t * starRingEnd ℂ (x e t) := by
  unfold wsum; rw [vsum_eq_sum]; simp

theorem normMask_eq (floor : ℝ) (m : Fin T → ℝ) (t : Fin T) :
    normMask floor m t = m t / max (∑ s, m s) floor := by
  unfold normMask; rw [vsum_eq_sum]

theorem posSemidef_finset_sum {n ι : Type} [Fintype n] (s : Finset ι) (A : ι → Matrix n n ℂ)
    (h : ∀ i ∈ s, (A i).PosSemidef) : (∑ i ∈ s, A i).PosSemidef := by
  classical
  induction s using Finset.induction_on with
  | empty => simpa using PosSemidef.zero
  | insert a s ha ih =>
    rw [Finset.sum_insert ha]
    exact (h a (Finset.mem_insert_self a s)).add (ih fun i hi => h i (Finset.mem_insert_of_mem hi))

/-- the weighted sum is `Σ_t w_t · x_t x_tᴴ` as a matrix -/
theorem wsum_matrix (w : Fin T → ℝ) (x : Fin D → Fin T → ℂ) :
    Matrix.of (wsum w x) = ∑ t, ((w t : ℝ) : ℂ) • vecMulVec (fun d => x d t) (star fun d => x d t) := by
  ext d e
  simp [wsum_eq, Matrix.sum_apply, vecMulVec_apply, mul_assoc]

theorem wsum_posSemidef (w : Fin T → ℝ) (hw : ∀ t, 0 ≤ w t) (x : Fin D → Fin T → ℂ) :
    (Matrix.of (wsum w x)).PosSemidef := by
  rw [wsum_matrix]
  apply posSemidef_finset_sum
  intro t _
  exact (posSemidef_vecMulVec_self_star _).smul (by exact_mod_cast hw t)

theorem wsum_hermitian (w : Fin T → ℝ) (x : Fin D → Fin T → ℂ) (d e : Fin D) :
    starRingEnd ℂ (wsum w x d e) = wsum w x e d := by
  rw [wsum_eq, wsum_eq, map_sum]
  apply Finset.sum_congr rfl
  intro t _
  simp only [map_mul, Complex.conj_ofReal, Complex.conj_conj]
  ring

theorem weights_nonneg (floor : ℝ) (nz : Bool) (m : Fin T → ℝ) (hm : ∀ t, 0 ≤ m t) (t : Fin T) :
    0 ≤ weights floor nz m t := by
  unfold weights
  split
  · rw [normMask_eq]
    exact div_nonneg (hm t) (le_trans (Finset.sum_nonneg fun s _ => hm s) (le_max_left _ _))
  · exact hm t

theorem psdNoMask_eq (x : Fin D → Fin T → ℂ) (d e : Fin D) :
    psdNoMask (α := ℝ) x d e = (∑ t, x d t * starRingEnd ℂ (x e t)) / (T : ℂ) := by
  unfold psdNoMask; rw [vsum_eq_sum]; simp

/-- without a mask the estimate is the weighted sum with constant weights `1/T` -/
theorem psdNoMask_eq_wsum (x : Fin D → Fin T → ℂ) :
    psdNoMask (α := ℝ) x = wsum (fun _ => (1 : ℝ) / T) x := by
  funext d e
  rw [psdNoMask_eq, wsum_eq, Finset.sum_div]
  apply Finset.sum_congr rfl
  intro t _
  push_cast
  ring

/-! ### condition_covariance -/

theorem condCov_eq (gamma : ℝ) (phi : Fin D → Fin D → ℂ) (d e : Fin D) :
    condCov gamma phi d e =
      (phi d e + if d = e then (gamma : ℂ) * (∑ i, phi i i) / (D : ℂ) else 0) / (1 + (gamma : ℂ)) := by
  unfold condCov
  simp only [vsum_eq_sum, cx_ofReal]
  split <;> simp

theorem condCov_matrix (gamma : ℝ) (phi : Fin D → Fin D → ℂ) :
    Matrix.of (condCov gamma phi) =
      (1 + (gamma : ℂ))⁻¹ • (Matrix.of phi + ((gamma : ℂ) * (Matrix.of phi).trace / (D : ℂ)) • (1 : Matrix (Fin D) (Fin D) ℂ)) := by
  ext d e
  simp only [Matrix.of_apply, condCov_eq, Matrix.smul_apply, Matrix.add_apply, Matrix.one_apply, smul_eq_mul,
    Matrix.trace, Matrix.diag_apply]
  split <;> simp [div_eq_inv_mul]

/-! ### axis handling of `get_power_spectral_density_matrix` (`psdFull`): every admissible
`(sensor_dim, source_dim, time_dim)` delivers the index-level PSD of the canonical slices -/
section layout
set_option linter.unusedVariables false
set_option linter.unusedSimpArgs false

/-- index into the canonical array `(..., A, T)` from an index into its presentation with axis `A` at position `a`
and `T` at position `b` (the other axes in order): `idx.transpose(movePerm)` -/
def toCanon (n a b : Nat) (idx : List Nat) : List Nat := (movePerm n a b).map fun p => idx.getD p 0

theorem movePerm_perm {n a b : Nat} (ha : a < n) (hb : b < n) (hab : a ≠ b) :
    (movePerm n a b).Perm (List.range n) := by
  unfold movePerm
  have h1 := List.filter_append_perm (fun i => i != a && i != b) (List.range n)
  refine List.Perm.trans (List.Perm.append_left _ ?_) h1
  apply List.Perm.symm
  rw [List.perm_ext_iff_of_nodup (List.Nodup.filter _ List.nodup_range) (by simp [hab])]
  intro x
  simp only [List.mem_filter, List.mem_range, Bool.not_and, Bool.or_eq_true, Bool.not_eq_true', bne_eq_false_iff_eq,
    List.mem_cons, List.not_mem_nil, or_false]
  constructor
  · rintro ⟨_, h⟩; exact h
  · rintro (rfl | rfl) <;> simp [ha, hb]

theorem untranspose_getD (perm idx' : List Nat) {p : Nat} (hp : p < perm.length) :
    (untranspose perm idx').getD p 0 = idx'.getD (perm.idxOf p) 0 := by
  unfold untranspose
  simp [List.getD_eq_getElem?_getD, hp]

theorem canon_round {n : Nat} {perm : List Nat} (hperm : perm.Perm (List.range n)) (idx' : List Nat)
    (hlen : idx'.length = n) : perm.map (fun p => (untranspose perm idx').getD p 0) = idx' := by
  have hl : perm.length = n := by simpa using hperm.length_eq
  have hnd : perm.Nodup := hperm.nodup_iff.mpr List.nodup_range
  apply List.ext_getElem
  · simp [hl, hlen]
  · intro j h1 h2
    have hj : j < perm.length := by simpa using h1
    have hmem : perm[j] < perm.length := by
      have : perm[j] ∈ List.range n := hperm.subset (List.getElem_mem hj)
      rw [hl]; simpa using this
    simp only [List.getElem_map]
    rw [untranspose_getD _ _ hmem, hnd.idxOf_getElem j hj, List.getD_eq_getElem?_getD, List.getElem?_eq_getElem h2]
    rfl

theorem toCanon_untranspose {n a b : Nat} (ha : a < n) (hb : b < n) (hab : a ≠ b) (idx' : List Nat)
    (hlen : idx'.length = n) : toCanon n a b (untranspose (movePerm n a b) idx') = idx' :=
  canon_round (movePerm_perm ha hb hab) idx' hlen


theorem untranspose_length (perm idx' : List Nat) : (untranspose perm idx').length = perm.length := by
  simp [untranspose]

theorem movePerm_length {n a b : Nat} (ha : a < n) (hb : b < n) (hab : a ≠ b) : (movePerm n a b).length = n := by
  simpa using (movePerm_perm ha hb hab).length_eq

/-- writing `v` at the time position of the presented index is writing it at the last canonical position -/
theorem toCanon_set {n a b : Nat} (hab : a ≠ b) (idx : List Nat) (hb : b < idx.length) (v t : Nat) (pre : List Nat)
    (h : toCanon n a b idx = pre ++ [t]) : toCanon n a b (idx.set b v) = pre ++ [v] := by
  unfold toCanon movePerm at *
  simp only [List.map_append, List.map_cons, List.map_nil] at *
  have e1 : ∀ l : List Nat, ∀ x y : Nat, l ++ [x, y] = (l ++ [x]) ++ [y] := by intros; simp
  rw [e1] at h ⊢
  obtain ⟨h1, h2⟩ := List.append_inj' h rfl
  have hga : (idx.set b v).getD a 0 = idx.getD a 0 := by
    simp [List.getD_eq_getElem?_getD, List.getElem?_set, Ne.symm hab]
  have hgb : (idx.set b v).getD b 0 = v := by
    simp [List.getD_eq_getElem?_getD, List.getElem?_set, hb]
  have hF : List.map (fun p => (idx.set b v).getD p 0) (List.filter (fun i => i != a && i != b) (List.range n))
      = List.map (fun p => idx.getD p 0) (List.filter (fun i => i != a && i != b) (List.range n)) := by
    apply List.map_congr_left
    intro p hp
    simp only [List.mem_filter, Bool.and_eq_true, bne_iff_ne] at hp
    simp [List.getD_eq_getElem?_getD, List.getElem?_set, Ne.symm hp.2.2]
  rw [hga, hgb, hF, h1]

theorem normDim_lt {n : Nat} (hn : 0 < n) (d : Int) : normDim n d < n := by
  unfold normDim
  have h1 : 0 ≤ d % (n : Int) := Int.emod_nonneg _ (by omega)
  have h2 : d % (n : Int) < n := Int.emod_lt_of_pos _ (by omega)
  omega

/-- the observation presented with sensors at `sensor_dim`, frames at `time_dim` is read back canonically -/
theorem obsT_present (c : Cfg) (hn : 0 < c.n) (hst : normDim c.n c.sensor ≠ normDim c.n c.time)
    (xc : List Nat → ℂ) (idx' : List Nat) (hlen : idx'.length = c.n) :
    obsT c (fun idx => xc (toCanon c.n (normDim c.n c.sensor) (normDim c.n c.time) idx)) idx' = xc idx' := by
  unfold obsT
  beta_reduce
  rw [toCanon_untranspose (normDim_lt hn _) (normDim_lt hn _) hst idx' hlen]

/-- the (normalised) mask presented with sources at `source_dim`, frames at `time_dim`, read at the
canonical index `lead ++ [k, t]` -/
theorem maskW_present (c : Cfg) (hn : 0 < c.n) (hqt : normDim c.n c.source ≠ normDim c.n c.time) (floor : ℝ)
    (T : Nat) (mc : List Nat → ℝ) (pre : List Nat) (hpre : pre.length + 1 = c.n) (t : Fin T) :
    maskW c floor T c.n (fun idx => mc (toCanon c.n (normDim c.n c.source) (normDim c.n c.time) idx))
      (untranspose (movePerm c.n (normDim c.n c.source) (normDim c.n c.time)) (pre ++ [t.val]))
      = weights floor c.normalize (fun t : Fin T => mc (pre ++ [t.val])) t := by
  have hq := normDim_lt hn c.source
  have ht := normDim_lt hn c.time
  have hlen : (pre ++ [t.val]).length = c.n := by simp [hpre]
  have hr := toCanon_untranspose hq ht hqt (pre ++ [t.val]) hlen
  have hrow : maskRow T (normDim c.n c.time)
      (fun idx => mc (toCanon c.n (normDim c.n c.source) (normDim c.n c.time) idx))
      (untranspose (movePerm c.n (normDim c.n c.source) (normDim c.n c.time)) (pre ++ [t.val]))
      = fun t' : Fin T => mc (pre ++ [t'.val]) := by
    funext t'
    unfold maskRow
    beta_reduce
    rw [toCanon_set hqt _ (by rw [untranspose_length, movePerm_length hq ht hqt]; exact ht) _ t.val pre hr]
  unfold maskW weights
  cases c.normalize
  · simp only [Bool.false_eq_true, if_false, hr]
  · simp only [if_true, hr, Nat.add_sub_cancel, hrow]
    rfl

theorem insertIdx_at_length (lead rest : List Nat) (k : Nat) :
    (lead ++ rest).insertIdx lead.length k = lead ++ k :: rest := by
  induction lead with
  | nil => simp
  | cons a l ih => simp [List.insertIdx_succ_cons, ih]

theorem outFix (lead : List Nat) (pq k d e : Nat) (hp : pq ≤ lead.length) :
    let out := (lead ++ [d, e]).insertIdx pq k
    (out.eraseIdx pq).insertIdx lead.length (out.getD pq 0) = lead ++ [k, d, e] := by
  intro out
  have h1 : out.eraseIdx pq = lead ++ [d, e] := by
    simp [out, List.eraseIdx_insertIdx_self]
  have h2 : out.getD pq 0 = k := by
    have hlen : pq ≤ lead.length + 2 := by omega
    simp [out, List.getD_eq_getElem?_getD, List.getElem?_insertIdx_self, hlen]
  rw [h1, h2, insertIdx_at_length]

/-- `psdFull`, mask with a source axis: for every admissible `(sensor_dim, source_dim, time_dim)` the element of the
result that belongs to (leading index `lead`, source `k`, sensors `d, e`) is the index-level PSD of the canonical slices -/
theorem psdFull_source (c : Cfg) (hn : 2 ≤ c.n)
    (hst : normDim c.n c.sensor ≠ normDim c.n c.time) (hqt : normDim c.n c.source ≠ normDim c.n c.time)
    (floor : ℝ) (shape : List Nat) (xc : List Nat → ℂ) (mc : List Nat → ℝ)
    (lead : List Nat) (hl : lead.length + 2 = c.n) (k : Nat) {D : Nat} (d e : Fin D) :
    psdFull c floor shape
      (fun idx => xc (toCanon c.n (normDim c.n c.sensor) (normDim c.n c.time) idx))
      (.float c.n fun idx => mc (toCanon c.n (normDim c.n c.source) (normDim c.n c.time) idx))
      (if normDim c.n c.source + 2 < c.n then (lead ++ [d.val, e.val]).insertIdx (normDim c.n c.source) k
        else lead ++ [k, d.val, e.val])
    = psd floor c.normalize
        (fun (d : Fin D) (t : Fin (shape.getD (normDim c.n c.time) 0)) => xc (lead ++ [d.val, t.val]))
        (fun t => mc (lead ++ [k, t.val])) d e := by
  have hn0 : 0 < c.n := by omega
  have hn2 : c.n - 2 = lead.length := by omega
  have hn1 : c.n - 1 = lead.length + 1 := by omega
  have hnn : c.n = lead.length + 2 := by omega
  -- the canonical index of the result element
  have hout : (if normDim c.n c.source + 2 < c.n then
        (List.eraseIdx (if normDim c.n c.source + 2 < c.n then
            (lead ++ [d.val, e.val]).insertIdx (normDim c.n c.source) k else lead ++ [k, d.val, e.val])
          (normDim c.n c.source)).insertIdx (c.n - 2)
          ((if normDim c.n c.source + 2 < c.n then
            (lead ++ [d.val, e.val]).insertIdx (normDim c.n c.source) k else lead ++ [k, d.val, e.val]).getD
            (normDim c.n c.source) 0)
      else (if normDim c.n c.source + 2 < c.n then
            (lead ++ [d.val, e.val]).insertIdx (normDim c.n c.source) k else lead ++ [k, d.val, e.val]))
      = lead ++ [k, d.val, e.val] := by
    by_cases h : normDim c.n c.source + 2 < c.n
    · simp only [h, if_true, hn2]
      exact outFix lead _ k d.val e.val (by omega)
    · simp only [h, if_false]
  unfold psdFull
  simp only [MaskArg.toFloat, show ¬ (c.n + 1 = c.n) by omega, if_false, hout]
  have e1 : List.take (c.n - 2) (lead ++ [k, d.val, e.val]) = lead := by rw [hn2]; simp
  have e2 : (lead ++ [k, d.val, e.val]).getD (c.n - 2) 0 = k := by
    rw [hn2]; simp [List.getD_eq_getElem?_getD]
  have e3 : (lead ++ [k, d.val, e.val]).getD (c.n - 1) 0 = d.val := by
    rw [hn1]; simp [List.getD_eq_getElem?_getD, List.getElem?_append_right]
  have e4 : (lead ++ [k, d.val, e.val]).getD c.n 0 = e.val := by
    rw [hnn]; simp [List.getD_eq_getElem?_getD, List.getElem?_append_right]
  simp only [e1, e2, e3, e4]
  unfold psd wsum
  congr 1
  funext t
  have hm := maskW_present c hn0 hqt floor (shape.getD (normDim c.n c.time) 0) mc (lead ++ [k])
    (by simp; omega) t
  simp only [List.append_assoc, List.cons_append, List.nil_append] at hm
  rw [hm, obsT_present c hn0 hst xc _ (by simp; omega), obsT_present c hn0 hst xc _ (by simp; omega)]

/-- `psdFull`, mask without a source axis (documented only for `time_dim = -1`) -/
theorem psdFull_plain (c : Cfg) (hn : 2 ≤ c.n)
    (hst : normDim c.n c.sensor ≠ normDim c.n c.time) (ht : normDim c.n c.time = c.n - 1)
    (floor : ℝ) (shape : List Nat) (xc : List Nat → ℂ) (mc : List Nat → ℝ)
    (lead : List Nat) (hl : lead.length + 2 = c.n) {D : Nat} (d e : Fin D) :
    psdFull c floor shape
      (fun idx => xc (toCanon c.n (normDim c.n c.sensor) (normDim c.n c.time) idx))
      (.float (c.n - 1) mc) (lead ++ [d.val, e.val])
    = psd floor c.normalize
        (fun (d : Fin D) (t : Fin (shape.getD (normDim c.n c.time) 0)) => xc (lead ++ [d.val, t.val]))
        (fun t => mc (lead ++ [t.val])) d e := by
  have hn0 : 0 < c.n := by omega
  have hn2 : c.n - 2 = lead.length := by omega
  have hn1 : c.n - 1 = lead.length + 1 := by omega
  unfold psdFull
  simp only [MaskArg.toFloat, show c.n - 1 + 1 = c.n by omega, if_true]
  have e1 : List.take (c.n - 2) (lead ++ [d.val, e.val]) = lead := by rw [hn2]; simp
  have e3 : (lead ++ [d.val, e.val]).getD (c.n - 2) 0 = d.val := by
    rw [hn2]; simp [List.getD_eq_getElem?_getD]
  have e4 : (lead ++ [d.val, e.val]).getD (c.n - 1) 0 = e.val := by
    rw [hn1]; simp [List.getD_eq_getElem?_getD, List.getElem?_append_right]
  simp only [e1, e3, e4]
  unfold psd wsum
  congr 1
  funext t
  have hm : maskW c floor (shape.getD (normDim c.n c.time) 0) (c.n - 1) mc (lead ++ [t.val])
      = weights floor c.normalize (fun t : Fin (shape.getD (normDim c.n c.time) 0) => mc (lead ++ [t.val])) t := by
    unfold maskW weights
    cases c.normalize
    · simp
    · simp only [if_true]
      have hax : normDim c.n c.time + (c.n - 1) - c.n = lead.length := by omega
      have hrow : maskRow (shape.getD (normDim c.n c.time) 0) lead.length mc (lead ++ [t.val])
          = fun t' : Fin (shape.getD (normDim c.n c.time) 0) => mc (lead ++ [t'.val]) := by
        funext t'
        unfold maskRow
        simp
      rw [hax, hrow]
      rfl
  rw [hm, obsT_present c hn0 hst xc _ (by simp; omega), obsT_present c hn0 hst xc _ (by simp; omega)]

/-- `psdFull` without a mask -/
theorem psdFull_nomask (c : Cfg) (hn : 2 ≤ c.n)
    (hst : normDim c.n c.sensor ≠ normDim c.n c.time)
    (floor : ℝ) (shape : List Nat) (xc : List Nat → ℂ)
    (lead : List Nat) (hl : lead.length + 2 = c.n) {D : Nat} (d e : Fin D) :
    psdFull c floor shape
      (fun idx => xc (toCanon c.n (normDim c.n c.sensor) (normDim c.n c.time) idx))
      (.absent : MaskArg ℝ) (lead ++ [d.val, e.val])
    = psdNoMask (α := ℝ)
        (fun (d : Fin D) (t : Fin (shape.getD (normDim c.n c.time) 0)) => xc (lead ++ [d.val, t.val])) d e := by
  have hn0 : 0 < c.n := by omega
  have hn2 : c.n - 2 = lead.length := by omega
  have hn1 : c.n - 1 = lead.length + 1 := by omega
  unfold psdFull
  simp only [MaskArg.toFloat]
  have e1 : List.take (c.n - 2) (lead ++ [d.val, e.val]) = lead := by rw [hn2]; simp
  have e3 : (lead ++ [d.val, e.val]).getD (c.n - 2) 0 = d.val := by
    rw [hn2]; simp [List.getD_eq_getElem?_getD]
  have e4 : (lead ++ [d.val, e.val]).getD (c.n - 1) 0 = e.val := by
    rw [hn1]; simp [List.getD_eq_getElem?_getD, List.getElem?_append_right]
  simp only [e1, e3, e4]
  unfold psdNoMask
  congr 2
  funext t
  rw [obsT_present c hn0 hst xc _ (by simp; omega), obsT_present c hn0 hst xc _ (by simp; omega)]

end layout

end PbBss.Psd

import PbBss.Model.Bf
import PbBss.Proofs.RealInst
import PbBss.Proofs.Mvdr
import PbBss.Proofs.Gev
import Mathlib.LinearAlgebra.Matrix.Rank
/-! Helper lemmas for C11 / C12: bridge from the executable `Bf` models (at `α := ℝ`, `β := ℂ`) to Mathlib's
`Matrix` API, and the algebra behind the property theorems. -/
open PbBss PbBss.Bf Matrix
open scoped ComplexOrder
namespace PbBss.BfProof

variable {D K n : Nat}

/-! ### bridge: model folds = Mathlib operations -/
theorem cj_eq (z : ℂ) : cj ℝ z = star z := rfl

theorem cdot_eq (x y : Fin D → ℂ) : cdot ℝ x y = star x ⬝ᵥ y := by
  unfold cdot
  rw [vsum_eq_sum]
  rfl

theorem trace_eq (M : Matrix (Fin D) (Fin D) ℂ) : Bf.trace M = Matrix.trace M := by
  unfold Bf.trace
  rw [vsum_eq_sum]
  rfl

theorem matVec_eq (M : Matrix (Fin D) (Fin D) ℂ) (x : Fin D → ℂ) : matVec M x = M *ᵥ x := by
  funext i
  unfold matVec
  rw [vsum_eq_sum]
  rfl

theorem half_eq : half ℝ = (1 / 2 : ℝ) := by
  unfold half; norm_num

theorem hermSym_apply (Φ : Matrix (Fin D) (Fin D) ℂ) (i j : Fin D) :
    hermSym ℝ Φ i j = (1 / 2 : ℂ) * (Φ i j + star (Φ j i)) := by
  unfold hermSym
  rw [half_eq]
  simp

/-- the symmetrised matrix is Hermitian whatever the input -/
theorem hermSym_isHermitian (Φ : Matrix (Fin D) (Fin D) ℂ) :
    (Matrix.of (hermSym ℝ Φ)).IsHermitian := by
  ext i j
  rw [conjTranspose_apply, of_apply, of_apply, hermSym_apply, hermSym_apply]
  simp [add_comm]

/-- symmetrisation does nothing to a Hermitian matrix -/
theorem hermSym_of_isHermitian (Φ : Matrix (Fin D) (Fin D) ℂ) (h : Φ.IsHermitian) :
    Matrix.of (hermSym ℝ Φ) = Φ := by
  ext i j
  rw [of_apply, hermSym_apply]
  have : star (Φ j i) = Φ i j := by
    have := congrFun (congrFun h i) j
    rwa [conjTranspose_apply] at this
  rw [this]; ring

theorem mvdrFromSolve_eq (a u : Fin D → ℂ) : mvdrFromSolve ℝ a u = (star a ⬝ᵥ u)⁻¹ • u := by
  funext d
  unfold mvdrFromSolve
  simp only [cdot_eq, Pi.smul_apply, smul_eq_mul]
  rw [div_eq_inv_mul]

/-! ### `vargmax` returns the first maximiser -/
section argmax
variable {L : Type} [LinearOrder L] {m : Nat}

/-- the fold behind `vargmax`, generalised over the start index and the enumeration of the candidates -/
def amFold (f : Fin m → L) {n : Nat} (e : Fin n → Fin m) (s : Fin m) : Fin m :=
  Fin.foldl n (fun b i => if f b < f (e i) then e i else b) s

theorem amFold_succ (f : Fin m → L) {n : Nat} (e : Fin (n+1) → Fin m) (s : Fin m) :
    amFold f e s = if f (amFold f (fun i => e i.castSucc) s) < f (e (Fin.last n)) then e (Fin.last n)
      else amFold f (fun i => e i.castSucc) s := by
  unfold amFold; rw [Fin.foldl_succ_last]

theorem amFold_spec (f : Fin m → L) : ∀ (n : Nat) (e : Fin n → Fin m) (s : Fin m), StrictMono e → (∀ i, s < e i) →
    f s ≤ f (amFold f e s) ∧ (∀ i, f (e i) ≤ f (amFold f e s)) ∧ (amFold f e s = s ∨ ∃ i, amFold f e s = e i) ∧
    (amFold f e s ≠ s → f s < f (amFold f e s)) ∧ (∀ i, e i < amFold f e s → f (e i) < f (amFold f e s)) := by
  intro n
  induction n with
  | zero =>
    intro e s _ _
    have : amFold f e s = s := by unfold amFold; simp [Fin.foldl_zero]
    rw [this]
    exact ⟨le_rfl, fun i => i.elim0, Or.inl rfl, fun h => (h rfl).elim, fun i => i.elim0⟩
  | succ n ih =>
    intro e s he hs
    have he' : StrictMono fun i : Fin n => e i.castSucc := fun a b hab => he (by simpa using hab)
    obtain ⟨h1, h2, h3, h4, h5⟩ := ih (fun i => e i.castSucc) s he' (fun i => hs _)
    rw [amFold_succ]
    set b := amFold f (fun i => e i.castSucc) s with hb
    by_cases hlt : f b < f (e (Fin.last n))
    · rw [if_pos hlt]
      refine ⟨le_of_lt (lt_of_le_of_lt h1 hlt), ?_, Or.inr ⟨_, rfl⟩, fun _ => lt_of_le_of_lt h1 hlt, ?_⟩
      · intro i
        rcases Fin.eq_castSucc_or_eq_last i with ⟨j, rfl⟩ | rfl
        · exact le_of_lt (lt_of_le_of_lt (h2 j) hlt)
        · exact le_rfl
      · intro i hi
        rcases Fin.eq_castSucc_or_eq_last i with ⟨j, rfl⟩ | rfl
        · exact lt_of_le_of_lt (h2 j) hlt
        · exact (lt_irrefl _ hi).elim
    · rw [if_neg hlt]
      refine ⟨h1, ?_, ?_, h4, ?_⟩
      · intro i
        rcases Fin.eq_castSucc_or_eq_last i with ⟨j, rfl⟩ | rfl
        · exact h2 j
        · exact not_lt.mp hlt
      · rcases h3 with h3 | ⟨j, hj⟩
        · exact Or.inl h3
        · exact Or.inr ⟨j.castSucc, hj⟩
      · intro i hi
        rcases Fin.eq_castSucc_or_eq_last i with ⟨j, rfl⟩ | rfl
        · exact h5 j hi
        · rcases h3 with h3 | ⟨j, hj⟩
          · rw [h3] at hi; exact (lt_asymm hi (hs _)).elim
          · rw [hj] at hi
            exact (lt_asymm hi (he (Fin.castSucc_lt_last j))).elim

theorem vargmax_eq_amFold {n : Nat} (f : Fin (n+1) → L) : vargmax f = amFold f Fin.succ 0 := rfl

/-- `np.argmax`: the value at the returned index is a maximum … -/
theorem vargmax_ge {n : Nat} (f : Fin (n+1) → L) (k : Fin (n+1)) : f k ≤ f (vargmax f) := by
  obtain ⟨h1, h2, -, -, -⟩ := amFold_spec f n Fin.succ 0 (Fin.strictMono_succ) (fun i => Fin.succ_pos i)
  rw [vargmax_eq_amFold]
  rcases Fin.eq_zero_or_eq_succ k with rfl | ⟨j, rfl⟩
  · exact h1
  · exact h2 j

/-- … and every earlier index has a strictly smaller value (first maximiser) -/
theorem vargmax_first {n : Nat} (f : Fin (n+1) → L) (k : Fin (n+1)) (hk : k < vargmax f) : f k < f (vargmax f) := by
  obtain ⟨-, -, -, h4, h5⟩ := amFold_spec f n Fin.succ 0 (Fin.strictMono_succ) (fun i => Fin.succ_pos i)
  rw [vargmax_eq_amFold] at hk ⊢
  rcases Fin.eq_zero_or_eq_succ k with rfl | ⟨j, rfl⟩
  · exact h4 (ne_of_gt hk)
  · exact h5 j hk
end argmax

/-! ### MVDR -/
section mvdr
variable (Φ : Matrix (Fin D) (Fin D) ℂ) (a u : Fin D → ℂ)

/-- `aᴴ u = uᴴ Φ u` when `Φ u = a`, `Φ` Hermitian -/
theorem den_eq_quad (hΦ : Φ.IsHermitian) (hu : Φ *ᵥ u = a) : star a ⬝ᵥ u = star u ⬝ᵥ Φ *ᵥ u := by
  rw [← hu, herm_swap Φ hΦ]

/-- the denominator `aᴴ Φ⁻¹ a` is a real number -/
theorem den_real (hΦ : Φ.IsHermitian) (hu : Φ *ᵥ u = a) : star (star a ⬝ᵥ u) = star a ⬝ᵥ u := by
  rw [den_eq_quad Φ a u hΦ hu, ← herm_swap Φ hΦ u u, ← star_dotProduct, herm_swap Φ hΦ]

theorem den_im (hΦ : Φ.IsHermitian) (hu : Φ *ᵥ u = a) : (star a ⬝ᵥ u).im = 0 := by
  have h := den_real Φ a u hΦ hu
  have := congrArg Complex.im h
  simp only [RCLike.star_def, Complex.conj_im] at this
  linarith

/-- … and positive for a positive definite `Φ` and `a ≠ 0` -/
theorem den_pos (hΦ : Φ.PosDef) (ha : a ≠ 0) (hu : Φ *ᵥ u = a) : 0 < (star a ⬝ᵥ u).re := by
  have hu0 : u ≠ 0 := by
    rintro rfl
    rw [mulVec_zero] at hu
    exact ha hu.symm
  have hpos := hΦ.re_dotProduct_pos hu0
  rw [den_eq_quad Φ a u hΦ.1 hu]
  simpa using hpos

theorem den_ne_zero (hΦ : Φ.PosDef) (ha : a ≠ 0) (hu : Φ *ᵥ u = a) : star a ⬝ᵥ u ≠ 0 := by
  intro h
  have := den_pos Φ a u hΦ ha hu
  rw [h] at this
  simp at this

theorem den_eq_ofReal (hΦ : Φ.IsHermitian) (hu : Φ *ᵥ u = a) : star a ⬝ᵥ u = (((star a ⬝ᵥ u).re : ℝ) : ℂ) := by
  apply Complex.ext
  · simp
  · simp [den_im Φ a u hΦ hu]
end mvdr

/-! ### LCMV -/

theorem lcmvCombine_eq (U : Fin K → Fin D → ℂ) (t : Fin K → ℂ) : lcmvCombine U t = ∑ k, t k • U k := by
  funext d
  unfold lcmvCombine
  rw [vsum_eq_sum, Finset.sum_apply]
  refine Finset.sum_congr rfl fun k _ => ?_
  simp [mul_comm]

theorem lcmvGram_apply (A U : Fin K → Fin D → ℂ) (j k : Fin K) : lcmvGram ℝ A U j k = star (A j) ⬝ᵥ U k := by
  unfold lcmvGram; rw [cdot_eq]

/-- the constraints hold for whatever `U`, as soon as `t` solves the Gram system -/
theorem lcmv_constraints (A U : Fin K → Fin D → ℂ) (r t : Fin K → ℂ)
    (ht : Matrix.of (lcmvGram ℝ A U) *ᵥ t = r) (j : Fin K) :
    star (lcmvCombine U t) ⬝ᵥ A j = star (r j) := by
  rw [star_dotProduct, lcmvCombine_eq, dotProduct_sum, ← ht]
  congr 1
  simp only [mulVec, dotProduct, of_apply, lcmvGram_apply]
  refine Finset.sum_congr rfl fun k _ => ?_
  rw [Finset.sum_mul]
  refine Finset.sum_congr rfl fun i _ => ?_
  simp only [Pi.smul_apply, smul_eq_mul]
  ring

theorem lcmvGram_eq (Φ : Matrix (Fin D) (Fin D) ℂ) (hΦ : Φ.IsHermitian) (A U : Fin K → Fin D → ℂ)
    (hU : ∀ k, Φ *ᵥ U k = A k) :
    Matrix.of (lcmvGram ℝ A U) = (Matrix.of fun d k => U k d)ᴴ * Φ * (Matrix.of fun d k => U k d) := by
  ext j k
  rw [of_apply, lcmvGram_apply, ← hU j, herm_swap Φ hΦ, Matrix.mul_apply]
  simp only [dotProduct, mulVec, Matrix.mul_apply, conjTranspose_apply, of_apply, Pi.star_apply, Finset.sum_mul,
    Finset.mul_sum]
  rw [Finset.sum_comm]
  refine Finset.sum_congr rfl fun x _ => Finset.sum_congr rfl fun y _ => ?_
  ring

theorem lcmv_gram_posDef (Φ : Matrix (Fin D) (Fin D) ℂ) (hΦ : Φ.PosDef) (A U : Fin K → Fin D → ℂ)
    (hU : ∀ k, Φ *ᵥ U k = A k) (hA : LinearIndependent ℂ A) :
    (Matrix.of (lcmvGram ℝ A U)).PosDef := by
  rw [lcmvGram_eq Φ hΦ.1 A U hU]
  apply hΦ.conjTranspose_mul_mul_same
  intro x y hxy
  have key : ∀ z : Fin K → ℂ, Φ *ᵥ ((Matrix.of fun d k => U k d) *ᵥ z) = ∑ k, z k • A k := by
    intro z
    have : (Matrix.of fun d k => U k d) *ᵥ z = ∑ k, z k • U k := by
      funext d
      simp [mulVec, dotProduct, Finset.sum_apply, mul_comm]
    rw [this, mulVec_sum]
    refine Finset.sum_congr rfl fun k _ => ?_
    rw [mulVec_smul, hU]
  have h := congrArg (Φ *ᵥ ·) hxy
  simp only [key] at h
  have hsub : ∑ k, (x k - y k) • A k = 0 := by
    simp only [sub_smul, Finset.sum_sub_distrib, h, sub_self]
  have := Fintype.linearIndependent_iff.mp hA (fun k => x k - y k) hsub
  funext k
  exact sub_eq_zero.mp (this k)

/-! ### Souden MVDR / WMWF -/

/-- cancel an invertible matrix on the left -/
theorem mul_left_cancel_of_isUnit {A : Matrix (Fin D) (Fin D) ℂ} (hA : IsUnit A) {X Y : Matrix (Fin D) (Fin D) ℂ}
    (h : A * X = A * Y) : X = Y := by
  have hdet := (Matrix.isUnit_iff_isUnit_det A).mp hA
  calc X = A⁻¹ * (A * X) := by rw [← Matrix.mul_assoc, Matrix.nonsing_inv_mul _ hdet, Matrix.one_mul]
    _ = A⁻¹ * (A * Y) := by rw [h]
    _ = Y := by rw [← Matrix.mul_assoc, Matrix.nonsing_inv_mul _ hdet, Matrix.one_mul]

theorem mulVec_left_cancel_of_isUnit {A : Matrix (Fin D) (Fin D) ℂ} (hA : IsUnit A) {x y : Fin D → ℂ}
    (h : A *ᵥ x = A *ᵥ y) : x = y := by
  have hdet := (Matrix.isUnit_iff_isUnit_det A).mp hA
  calc x = A⁻¹ *ᵥ (A *ᵥ x) := by rw [mulVec_mulVec, Matrix.nonsing_inv_mul _ hdet, one_mulVec]
    _ = A⁻¹ *ᵥ (A *ᵥ y) := by rw [h]
    _ = y := by rw [mulVec_mulVec, Matrix.nonsing_inv_mul _ hdet, one_mulVec]

/-- `stable_solve(Φnn, σ a aᴴ) = σ u aᴴ` with `u = Φnn⁻¹ a` -/
theorem phi_rank_one (N : Matrix (Fin D) (Fin D) ℂ) (hN : IsUnit N) (a u : Fin D → ℂ) (σ : ℂ)
    (phi : Matrix (Fin D) (Fin D) ℂ) (hphi : N * phi = σ • vecMulVec a (star a)) (hu : N *ᵥ u = a) :
    phi = σ • vecMulVec u (star a) := by
  apply mul_left_cancel_of_isUnit hN
  rw [hphi, Matrix.mul_smul, ← hu]
  congr 1
  ext i j
  simp only [Matrix.mul_apply, vecMulVec_apply, mulVec, dotProduct, Finset.sum_mul]
  exact Finset.sum_congr rfl fun k _ => by ring

theorem trace_rank_one (a u : Fin D → ℂ) (σ : ℂ) :
    Bf.trace (σ • vecMulVec u (star a) : Matrix (Fin D) (Fin D) ℂ) = σ * (star a ⬝ᵥ u) := by
  rw [trace_eq, trace_smul, smul_eq_mul]
  congr 1
  simp only [Matrix.trace, diag_apply, vecMulVec_apply, dotProduct, mul_comm]

theorem souden_rank_one (N : Matrix (Fin D) (Fin D) ℂ) (hN : N.PosDef) (a u : Fin D → ℂ) (ha : a ≠ 0)
    (σ : ℝ) (hσ : 0 < σ) (phi : Matrix (Fin D) (Fin D) ℂ)
    (hphi : N * phi = (σ : ℂ) • vecMulVec a (star a)) (hu : N *ᵥ u = a) (ref : Fin D) (eps : ℝ)
    (heps : eps ≤ σ * (star a ⬝ᵥ u).re) :
    souden phi ref eps = star (a ref) • mvdrFromSolve ℝ a u := by
  have hphi' := phi_rank_one N hN.isUnit a u σ phi hphi hu
  have hpos := den_pos N a u hN ha hu
  obtain ⟨q, hq⟩ : ∃ q : ℝ, star a ⬝ᵥ u = (q : ℂ) := ⟨_, den_eq_ofReal N a u hN.1 hu⟩
  have hqre : (star a ⬝ᵥ u).re = q := by rw [hq]; simp
  rw [hqre] at heps hpos
  funext d
  unfold souden soudenMat
  rw [mvdrFromSolve_eq]
  simp only [cx_re, cx_ofReal]
  have htr : Bf.trace (phi : Fin D → Fin D → ℂ) = ((σ * q : ℝ) : ℂ) := by
    rw [hphi', trace_rank_one, hq]; push_cast; rfl
  rw [htr, Complex.ofReal_re, max_eq_left heps, hphi', hq]
  simp only [Matrix.smul_apply, vecMulVec_apply, Pi.smul_apply, Pi.star_apply, smul_eq_mul]
  have hq' : (q : ℂ) ≠ 0 := by exact_mod_cast hpos.ne'
  have hσ' : (σ : ℂ) ≠ 0 := by exact_mod_cast hσ.ne'
  push_cast
  field_simp


/-- WMWF for a rank-one target solves the normal equations `(Φxx + μ Φnn) w = Φxx e_ref` -/
theorem wmwf_normal_eq (N : Matrix (Fin D) (Fin D) ℂ) (hN : N.PosDef) (a u : Fin D → ℂ) (ha : a ≠ 0)
    (σ : ℝ) (hσ : 0 < σ) (μ : ℝ) (hμ : 0 ≤ μ) (phi : Matrix (Fin D) (Fin D) ℂ)
    (hphi : N * phi = (σ : ℂ) • vecMulVec a (star a)) (hu : N *ᵥ u = a) (ref : Fin D) :
    ((σ : ℂ) • vecMulVec a (star a) + (μ : ℂ) • N) *ᵥ wmwf μ phi ref =
      fun d => ((σ : ℂ) • vecMulVec a (star a) : Matrix (Fin D) (Fin D) ℂ) d ref := by
  have hphi' := phi_rank_one N hN.isUnit a u σ phi hphi hu
  have hpos := den_pos N a u hN ha hu
  obtain ⟨q, hq⟩ : ∃ q : ℝ, star a ⬝ᵥ u = (q : ℂ) := ⟨_, den_eq_ofReal N a u hN.1 hu⟩
  have hqre : (star a ⬝ᵥ u).re = q := by rw [hq]; simp
  rw [hqre] at hpos
  have hne : ((μ : ℂ) + (σ : ℂ) * (q : ℂ)) ≠ 0 := by
    have : (0 : ℝ) < μ + σ * q := by positivity
    exact_mod_cast this.ne'
  -- the filter is a multiple of `u`
  have hw : wmwf μ phi ref = ((σ : ℂ) * star (a ref) / ((μ : ℂ) + (σ : ℂ) * (q : ℂ))) • u := by
    funext d
    unfold wmwf wmwfFilter
    simp only [cx_ofReal]
    rw [hphi', trace_rank_one, hq]
    simp only [Matrix.smul_apply, vecMulVec_apply, Pi.smul_apply, Pi.star_apply, smul_eq_mul]
    field_simp
  rw [hw, mulVec_smul, add_mulVec, smul_mulVec, smul_mulVec, hu]
  have h1 : vecMulVec a (star a) *ᵥ u = (q : ℂ) • a := by
    funext i
    simp only [mulVec, vecMulVec_apply, Pi.smul_apply, smul_eq_mul, ← hq]
    simp only [dotProduct, Finset.sum_mul]
    exact Finset.sum_congr rfl fun k _ => by ring
  rw [h1]
  funext d
  simp only [Pi.smul_apply, Pi.add_apply, Matrix.smul_apply, vecMulVec_apply, Pi.star_apply, smul_eq_mul]
  field_simp
  ring

theorem wmwf_exact (N : Matrix (Fin D) (Fin D) ℂ) (hN : N.PosDef) (a u : Fin D → ℂ) (ha : a ≠ 0)
    (σ : ℝ) (hσ : 0 < σ) (μ : ℝ) (hμ : 0 < μ) (phi : Matrix (Fin D) (Fin D) ℂ)
    (hphi : N * phi = (σ : ℂ) • vecMulVec a (star a)) (hu : N *ᵥ u = a) (ref : Fin D) :
    wmwf μ phi ref = fun d =>
      (((σ : ℂ) • vecMulVec a (star a) + (μ : ℂ) • N)⁻¹ * ((σ : ℂ) • vecMulVec a (star a))) d ref := by
  set X : Matrix (Fin D) (Fin D) ℂ := (σ : ℂ) • vecMulVec a (star a) with hX
  have hXpsd : X.PosSemidef := by
    have := (posSemidef_vecMulVec_self_star a).smul (show (0 : ℂ) ≤ (σ : ℂ) by exact_mod_cast hσ.le)
    exact this
  have hMpd : (X + (μ : ℂ) • N).PosDef :=
    Matrix.PosDef.posSemidef_add hXpsd (hN.smul (show (0 : ℂ) < (μ : ℂ) by exact_mod_cast hμ))
  apply mulVec_left_cancel_of_isUnit hMpd.isUnit
  rw [wmwf_normal_eq N hN a u ha σ hσ μ hμ.le phi hphi hu ref]
  have hdet := (Matrix.isUnit_iff_isUnit_det _).mp hMpd.isUnit
  funext d
  have : (X + (μ : ℂ) • N) *ᵥ (fun d => ((X + (μ : ℂ) • N)⁻¹ * X) d ref) =
      fun d => ((X + (μ : ℂ) • N) * ((X + (μ : ℂ) • N)⁻¹ * X)) d ref := by
    funext i
    simp only [mulVec, dotProduct, Matrix.mul_apply]
  rw [this, ← Matrix.mul_assoc, Matrix.mul_nonsing_inv _ hdet, Matrix.one_mul]


/-- `tr(Φnn⁻¹ Φxx)` is real for Hermitian `Φnn`, `Φxx` -/
theorem trace_solve_im (N X phi : Matrix (Fin D) (Fin D) ℂ) (hN : N.IsHermitian) (hNu : IsUnit N)
    (hX : X.IsHermitian) (hphi : N * phi = X) : (Bf.trace (phi : Fin D → Fin D → ℂ)).im = 0 := by
  have hdet := (Matrix.isUnit_iff_isUnit_det N).mp hNu
  have hp : phi = N⁻¹ * X := by
    apply mul_left_cancel_of_isUnit hNu
    rw [hphi, ← Matrix.mul_assoc, Matrix.mul_nonsing_inv _ hdet, Matrix.one_mul]
  have hstar : star (Matrix.trace phi) = Matrix.trace phi := by
    rw [← trace_conjTranspose, hp, conjTranspose_mul, hX.eq, hN.inv.eq, trace_mul_comm]
  rw [trace_eq]
  have := congrArg Complex.im hstar
  simp only [RCLike.star_def, Complex.conj_im] at this
  linarith

/-- the model-level fact behind `wmwf_zero_eq_souden` -/
theorem wmwf_zero_eq_souden_of_real (phi : Matrix (Fin D) (Fin D) ℂ) (ref : Fin D) (eps : ℝ)
    (him : (Bf.trace (phi : Fin D → Fin D → ℂ)).im = 0) (heps : eps ≤ (Bf.trace (phi : Fin D → Fin D → ℂ)).re) :
    wmwf (0 : ℝ) phi ref = souden phi ref eps := by
  funext d
  unfold wmwf wmwfFilter souden soudenMat
  simp only [cx_re, cx_ofReal, max_eq_left heps]
  congr 1
  apply Complex.ext <;> simp [him]

/-- `souden` is invariant under a positive scaling of `phi` (guards: both traces stay above `eps`) -/
theorem souden_smul (phi : Matrix (Fin D) (Fin D) ℂ) (ref : Fin D) (eps c : ℝ) (hc : 0 < c)
    (heps : eps ≤ (Bf.trace (phi : Fin D → Fin D → ℂ)).re)
    (heps' : eps ≤ c * (Bf.trace (phi : Fin D → Fin D → ℂ)).re)
    (hpos : 0 < (Bf.trace (phi : Fin D → Fin D → ℂ)).re) :
    souden (((c : ℂ) • phi : Matrix (Fin D) (Fin D) ℂ)) ref eps = souden phi ref eps := by
  funext d
  unfold souden soudenMat
  simp only [cx_re, cx_ofReal]
  have htr : Bf.trace (((c : ℂ) • phi : Matrix (Fin D) (Fin D) ℂ) : Fin D → Fin D → ℂ) =
      (c : ℂ) * Bf.trace (phi : Fin D → Fin D → ℂ) := by
    rw [trace_eq, trace_eq, trace_smul, smul_eq_mul]
  rw [htr]
  have hre : ((c : ℂ) * Bf.trace (phi : Fin D → Fin D → ℂ)).re = c * (Bf.trace (phi : Fin D → Fin D → ℂ)).re := by
    simp
  rw [hre, max_eq_left heps, max_eq_left heps', Matrix.smul_apply, smul_eq_mul]
  have h1 : ((Bf.trace (phi : Fin D → Fin D → ℂ)).re : ℂ) ≠ 0 := by exact_mod_cast hpos.ne'
  have h2 : (c : ℂ) ≠ 0 := by exact_mod_cast hc.ne'
  push_cast
  field_simp


/-! ### GEV / PCA -/
/-- quadratic form of a column of `V` = diagonal entry of `Vᴴ P V` -/
theorem quad_col (V P : Matrix (Fin D) (Fin D) ℂ) (k : Fin D) :
    star (fun d => V d k) ⬝ᵥ P *ᵥ (fun d => V d k) = (Vᴴ * P * V) k k := by
  simp only [dotProduct, mulVec, Matrix.mul_apply, conjTranspose_apply, Pi.star_apply, Finset.mul_sum,
    Finset.sum_mul]
  rw [Finset.sum_comm]
  exact Finset.sum_congr rfl fun x _ => Finset.sum_congr rfl fun y _ => by ring

theorem isUnit_of_contract (V P : Matrix (Fin D) (Fin D) ℂ) (hN : Vᴴ * P * V = 1) : IsUnit V :=
  (Matrix.isUnit_iff_isUnit_det V).mpr (Matrix.isUnit_det_of_left_inverse hN)

/-- the selected generalised eigenvector attains `λ_max` with unit noise power -/
theorem gev_quotient (Pxx Pnn V : Matrix (Fin (n+1)) (Fin (n+1)) ℂ) (l : Fin (n+1) → ℝ)
    (hN : Vᴴ * Pnn * V = 1) (hX : Vᴴ * Pxx * V = diagonal (fun i => (l i : ℂ))) :
    star (gevSelect l V) ⬝ᵥ Pxx *ᵥ gevSelect l V = (l (vargmax l) : ℂ) ∧
    star (gevSelect l V) ⬝ᵥ Pnn *ᵥ gevSelect l V = 1 := by
  unfold gevSelect
  constructor
  · rw [quad_col, hX, diagonal_apply_eq]
  · rw [quad_col, hN, one_apply_eq]

theorem gev_max (Pxx Pnn V : Matrix (Fin (n+1)) (Fin (n+1)) ℂ) (l : Fin (n+1) → ℝ)
    (hN : Vᴴ * Pnn * V = 1) (hX : Vᴴ * Pxx * V = diagonal (fun i => (l i : ℂ))) (v : Fin (n+1) → ℂ) :
    (star v ⬝ᵥ Pxx *ᵥ v).re ≤ l (vargmax l) * (star v ⬝ᵥ Pnn *ᵥ v).re :=
  gev_rayleigh_le Pxx Pnn V l (isUnit_of_contract V Pnn hN) hN hX _ (fun i => vargmax_ge l i) v

/-- from the contract: `Pxx v_k = λ_k Pnn v_k` -/
theorem geig_of_contract (Pxx Pnn V : Matrix (Fin D) (Fin D) ℂ) (l : Fin D → ℝ)
    (hN : Vᴴ * Pnn * V = 1) (hX : Vᴴ * Pxx * V = diagonal (fun i => (l i : ℂ))) (k : Fin D) :
    Pxx *ᵥ (fun d => V d k) = (l k : ℂ) • (Pnn *ᵥ fun d => V d k) := by
  have hV := isUnit_of_contract V Pnn hN
  have hVH : IsUnit Vᴴ := by
    rw [Matrix.isUnit_iff_isUnit_det, det_conjTranspose]
    exact ((Matrix.isUnit_iff_isUnit_det V).mp hV).star
  have hmat : Pxx * V = Pnn * V * diagonal (fun i => (l i : ℂ)) := by
    apply mul_left_cancel_of_isUnit hVH
    rw [← Matrix.mul_assoc, hX, ← Matrix.mul_assoc, ← Matrix.mul_assoc, hN, Matrix.one_mul]
  funext d
  have := congrFun (congrFun hmat d) k
  rw [Matrix.mul_apply, Matrix.mul_diagonal] at this
  simp only [mulVec, dotProduct, Pi.smul_apply, smul_eq_mul]
  rw [this, Matrix.mul_apply, mul_comm]


/-- PCA: from the `np.linalg.eigh` contract (`U` unitary, `Uᴴ Φ U = diag λ`, ascending) the last column attains
`λ_last` with unit norm and no vector has a larger Rayleigh quotient `vᴴΦv / vᴴv` -/
theorem pca_max (P U : Matrix (Fin (n+1)) (Fin (n+1)) ℂ) (l : Fin (n+1) → ℝ) (hU : Uᴴ * U = 1)
    (hX : Uᴴ * P * U = diagonal (fun i => (l i : ℂ))) (hl : Monotone l) :
    star (pcaSelect l U).1 ⬝ᵥ P *ᵥ (pcaSelect l U).1 = ((pcaSelect l U).2 : ℂ) ∧
    star (pcaSelect l U).1 ⬝ᵥ (pcaSelect l U).1 = 1 ∧
    ∀ v : Fin (n+1) → ℂ, (star v ⬝ᵥ P *ᵥ v).re ≤ (pcaSelect l U).2 * (star v ⬝ᵥ v).re := by
  have hN : Uᴴ * (1 : Matrix (Fin (n+1)) (Fin (n+1)) ℂ) * U = 1 := by rw [Matrix.mul_one, hU]
  unfold pcaSelect
  refine ⟨?_, ?_, fun v => ?_⟩
  · simp only; rw [quad_col, hX, diagonal_apply_eq]
  · have := quad_col U 1 (Fin.last n)
    rw [one_mulVec, hN, one_apply_eq] at this
    exact this
  · have := gev_rayleigh_le P 1 U l (isUnit_of_contract U 1 hN) hN hX (l (Fin.last n))
      (fun i => hl (Fin.le_last i)) v
    rwa [one_mulVec] at this

theorem vnorm_eq (v : Fin D → ℂ) : vnorm (α := ℝ) v = Real.sqrt ((star v ⬝ᵥ v).re) := by
  unfold vnorm
  rw [vsum_eq_sum]
  simp only [transc_sqrt_real, cx_re, cx_im]
  congr 1
  simp only [dotProduct, Complex.re_sum, Pi.star_apply]
  refine Finset.sum_congr rfl fun i _ => ?_
  simp [Complex.mul_re]

/-- the scaling options of `get_pca_vector` applied to a unit-norm eigenvector; `csqrt` (NumPy's complex square
root) is only used on the trace, which is a non-negative real for a positive semidefinite matrix -/
theorem pca_scalings (csqrt : ℂ → ℂ) (hcs : ∀ x : ℝ, 0 ≤ x → csqrt (x : ℂ) = ((Real.sqrt x : ℝ) : ℂ))
    (P : Matrix (Fin D) (Fin D) ℂ) (hP : P.PosSemidef) (v : Fin D → ℂ) (hv : star v ⬝ᵥ v = 1) (lam : ℝ) :
    pcaVector csqrt .none P v lam = v ∧
    pcaVector csqrt .trace P v lam = ((Real.sqrt (Matrix.trace P).re : ℝ) : ℂ) • v ∧
    pcaVector csqrt .eigenvalue P v lam = (lam : ℂ) • v ∧
    0 ≤ (Matrix.trace P).re ∧ (P ≠ 0 → 0 < Real.sqrt (Matrix.trace P).re) := by
  have hnorm : vnorm (α := ℝ) v = 1 := by rw [vnorm_eq, hv]; simp
  have htr0 : 0 ≤ Matrix.trace P := hP.trace_nonneg
  have htr_re : 0 ≤ (Matrix.trace P).re := (Complex.nonneg_iff.mp htr0).1
  have htr_im : (Matrix.trace P).im = 0 := (Complex.nonneg_iff.mp htr0).2.symm
  have htr : Bf.trace (P : Fin D → Fin D → ℂ) = (((Matrix.trace P).re : ℝ) : ℂ) := by
    rw [trace_eq]; apply Complex.ext <;> simp [htr_im]
  refine ⟨rfl, ?_, ?_, htr_re, fun hne => ?_⟩
  · funext d
    simp only [pcaVector, hnorm, htr, hcs _ htr_re, cx_ofReal, Pi.smul_apply, smul_eq_mul]
    simp [mul_comm]
  · funext d
    simp only [pcaVector, hnorm, cx_ofReal, Pi.smul_apply, smul_eq_mul]
    simp [mul_comm]
  · apply Real.sqrt_pos.mpr
    rcases lt_or_eq_of_le htr_re with h | h
    · exact h
    · exfalso
      apply hne
      rw [← hP.trace_eq_zero_iff]
      apply Complex.ext <;> simp [← h, htr_im]


/-- the largest eigenvalue of a non-zero positive semidefinite matrix is positive -/
theorem pca_lambda_pos (P U : Matrix (Fin (n+1)) (Fin (n+1)) ℂ) (l : Fin (n+1) → ℝ) (hU : Uᴴ * U = 1)
    (hX : Uᴴ * P * U = diagonal (fun i => (l i : ℂ))) (hl : Monotone l) (hP : P.PosSemidef) (hne : P ≠ 0) :
    0 < (pcaSelect l U).2 := by
  unfold pcaSelect
  simp only
  by_contra hcon
  have hle : ∀ i, l i ≤ 0 := fun i => le_trans (hl (Fin.le_last i)) (not_lt.mp hcon)
  have hUU : U * Uᴴ = 1 := mul_eq_one_comm.mp hU
  have htr : Matrix.trace P = ((∑ i, l i : ℝ) : ℂ) := by
    have h1 : Matrix.trace (Uᴴ * P * U) = Matrix.trace P := by
      rw [Matrix.trace_mul_comm, ← Matrix.mul_assoc, hUU, Matrix.one_mul]
    rw [← h1, hX, trace_diagonal]; push_cast; rfl
  have h0 : 0 ≤ Matrix.trace P := hP.trace_nonneg
  have hsum : (∑ i, l i) ≤ 0 := Finset.sum_nonpos fun i _ => hle i
  have hz : Matrix.trace P = 0 := by
    rw [htr] at h0 ⊢
    have : (0 : ℝ) ≤ ∑ i, l i := by exact_mod_cast h0
    have : (∑ i, l i) = 0 := le_antisymm hsum this
    rw [this]; simp
  exact hne (hP.trace_eq_zero_iff.mp hz)

/-! ### rank-one estimates -/
theorem outer_eq (a : Fin D → ℂ) : Matrix.of (outer ℝ a) = vecMulVec a (star a) := by
  ext i j; simp [outer, vecMulVec_apply]

theorem trace_outer (a : Fin D → ℂ) : Bf.trace (outer ℝ a) = star a ⬝ᵥ a := by
  rw [show Bf.trace (outer ℝ a) = Bf.trace (Matrix.of (outer ℝ a) : Fin D → Fin D → ℂ) from rfl, outer_eq, trace_eq]
  simp only [Matrix.trace, diag_apply, vecMulVec_apply, dotProduct, mul_comm]

theorem rankOne_eq (P : Matrix (Fin D) (Fin D) ℂ) (a : Fin D → ℂ) :
    Matrix.of (rankOne ℝ P a) = (Matrix.trace P / (star a ⬝ᵥ a)) • vecMulVec a (star a) := by
  ext i j
  simp only [rankOne, of_apply, Matrix.smul_apply, smul_eq_mul, trace_outer, trace_eq, ← outer_eq]

theorem norm_sq_pos (a : Fin D → ℂ) (ha : a ≠ 0) : star a ⬝ᵥ a ≠ 0 := by
  intro h
  exact ha (dotProduct_star_self_eq_zero.mp h)

theorem norm_sq_real (a : Fin D → ℂ) : star (star a ⬝ᵥ a) = star a ⬝ᵥ a := by
  rw [← star_dotProduct]

/-- the rank-one estimate is Hermitian (for a real trace), of rank ≤ 1 and has the trace of the input -/
theorem rank1_props (P : Matrix (Fin D) (Fin D) ℂ) (a : Fin D → ℂ) (ha : a ≠ 0) :
    ((Matrix.trace P).im = 0 → (Matrix.of (rankOne ℝ P a)).IsHermitian) ∧
    (Matrix.of (rankOne ℝ P a)).rank ≤ 1 ∧
    Matrix.trace (Matrix.of (rankOne ℝ P a)) = Matrix.trace P := by
  rw [rankOne_eq]
  refine ⟨fun him => ?_, ?_, ?_⟩
  · have hs : star (Matrix.trace P / (star a ⬝ᵥ a)) = Matrix.trace P / (star a ⬝ᵥ a) := by
      rw [star_div₀, norm_sq_real]
      congr 1
      apply Complex.ext <;> simp [him]
    unfold Matrix.IsHermitian
    rw [conjTranspose_smul, hs, conjTranspose_vecMulVec, star_star]
  · calc ((Matrix.trace P / (star a ⬝ᵥ a)) • vecMulVec a (star a)).rank
        ≤ (vecMulVec a (star a)).rank := by
          rw [← Matrix.mul_one ((Matrix.trace P / (star a ⬝ᵥ a)) • vecMulVec a (star a)), Matrix.smul_mul,
            ← Matrix.mul_smul]
          exact Matrix.rank_mul_le_left _ _
      _ ≤ 1 := Matrix.rank_vecMulVec_le _ _
  · rw [trace_smul, smul_eq_mul]
    have : Matrix.trace (vecMulVec a (star a)) = star a ⬝ᵥ a := by
      simp only [Matrix.trace, diag_apply, vecMulVec_apply, dotProduct, mul_comm]
    rw [this, div_mul_cancel₀ _ (norm_sq_pos a ha)]

/-- exactly rank-one input `σ b bᴴ` and an estimate `a` of the steering vector parallel to `b`: the input is recovered -/
theorem rank1_recovers (b : Fin D → ℂ) (hb : b ≠ 0) (σ c : ℂ) (hc : c ≠ 0) :
    Matrix.of (rankOne ℝ (σ • vecMulVec b (star b)) (c • b)) = σ • vecMulVec b (star b) := by
  rw [rankOne_eq]
  have hbb := norm_sq_pos b hb
  have htr : Matrix.trace (σ • vecMulVec b (star b)) = σ * (star b ⬝ᵥ b) := by
    rw [trace_smul, smul_eq_mul]
    congr 1
    simp only [Matrix.trace, diag_apply, vecMulVec_apply, dotProduct, mul_comm]
  have hsc : star c ≠ 0 := star_ne_zero.mpr hc
  ext i j
  simp only [htr, Matrix.smul_apply, vecMulVec_apply, Pi.smul_apply, Pi.star_apply, smul_eq_mul, star_smul,
    smul_dotProduct, dotProduct_smul]
  field_simp

/-- PCA: an eigenvector of `σ b bᴴ` for a non-zero eigenvalue is parallel to `b` -/
theorem pca_top_parallel (b v : Fin D → ℂ) (σ lam : ℂ) (hlam : lam ≠ 0)
    (hv : (σ • vecMulVec b (star b)) *ᵥ v = lam • v) : v = (σ * (star b ⬝ᵥ v) / lam) • b := by
  have h1 : (σ • vecMulVec b (star b)) *ᵥ v = (σ * (star b ⬝ᵥ v)) • b := by
    funext i
    simp only [Pi.smul_apply, mulVec, Matrix.smul_apply, vecMulVec_apply, smul_eq_mul, dotProduct, Finset.mul_sum,
      Finset.sum_mul, Pi.star_apply]
    exact Finset.sum_congr rfl fun k _ => by ring
  rw [h1] at hv
  funext i
  have := congrFun hv i
  simp only [Pi.smul_apply, smul_eq_mul] at this ⊢
  field_simp
  linear_combination -this

/-- GEV: for `Φxx = σ b bᴴ` the estimated transfer function `Φnn w` of a generalised eigenvector with non-zero
eigenvalue is parallel to `b` -/
theorem gev_atf_parallel (N : Matrix (Fin D) (Fin D) ℂ) (b w : Fin D → ℂ) (σ lam : ℂ) (hlam : lam ≠ 0)
    (hw : (σ • vecMulVec b (star b)) *ᵥ w = lam • (N *ᵥ w)) : gevAtf N w = (σ * (star b ⬝ᵥ w) / lam) • b := by
  have h1 : (σ • vecMulVec b (star b)) *ᵥ w = (σ * (star b ⬝ᵥ w)) • b := by
    funext i
    simp only [Pi.smul_apply, mulVec, Matrix.smul_apply, vecMulVec_apply, smul_eq_mul, dotProduct, Finset.mul_sum,
      Finset.sum_mul, Pi.star_apply]
    exact Finset.sum_congr rfl fun k _ => by ring
  rw [h1] at hw
  unfold gevAtf
  rw [matVec_eq]
  funext i
  have := congrFun hw i
  simp only [Pi.smul_apply, smul_eq_mul] at this ⊢
  field_simp
  linear_combination -this


/-! ### blind analytic normalisation -/
theorem cabs_eq (z : ℂ) : cabs (α := ℝ) z = ‖z‖ := by
  unfold cabs
  simp only [transc_sqrt_real, cx_re, cx_im]
  rw [Complex.norm_def, Complex.normSq_apply]

theorem isZero_iff (z : ℂ) : isZero (α := ℝ) z = true ↔ z = 0 := by
  unfold isZero
  simp only [cx_re, cx_im, Bool.and_eq_true, Bool.not_eq_eq_eq_not, Bool.not_true, decide_eq_false_iff_not, not_lt]
  constructor
  · rintro ⟨⟨⟨h1, h2⟩, h3⟩, h4⟩
    exact Complex.ext (le_antisymm h2 h1) (le_antisymm h4 h3)
  · rintro rfl; simp

theorem ban_nom_eq (w : Fin D → ℂ) (N : Matrix (Fin D) (Fin D) ℂ) :
    (vsum fun a => vsum fun b => vsum fun c => CxOps.conj (α := ℝ) (w a) * N a b * N b c * w c) =
      star w ⬝ᵥ N *ᵥ (N *ᵥ w) := by
  simp only [vsum_eq_sum, cx_conj, dotProduct, mulVec, Pi.star_apply, Finset.mul_sum]
  refine Finset.sum_congr rfl fun a _ => Finset.sum_congr rfl fun b _ => Finset.sum_congr rfl fun c _ => ?_
  simp only [RCLike.star_def]; ring

theorem ban_den_eq (w : Fin D → ℂ) (N : Matrix (Fin D) (Fin D) ℂ) :
    (vsum fun a => vsum fun b => CxOps.conj (α := ℝ) (w a) * N a b * w b) = star w ⬝ᵥ N *ᵥ w := by
  simp only [vsum_eq_sum, cx_conj, dotProduct, mulVec, Pi.star_apply, Finset.mul_sum]
  refine Finset.sum_congr rfl fun a _ => Finset.sum_congr rfl fun b _ => ?_
  simp only [RCLike.star_def]; ring

/-- closed form of the gain for any `csqrt` with `|csqrt z| = sqrt |z|`; Lean's `x / 0 = 0` coincides with the
code's "`0` where the denominator is `0`" -/
theorem banFactor_eq (csqrt : ℂ → ℂ) (hcs : ∀ z, ‖csqrt z‖ = Real.sqrt ‖z‖) (w : Fin D → ℂ)
    (N : Matrix (Fin D) (Fin D) ℂ) :
    banFactor (α := ℝ) csqrt w N = Real.sqrt ‖star w ⬝ᵥ N *ᵥ (N *ᵥ w)‖ / ‖star w ⬝ᵥ N *ᵥ w‖ := by
  unfold banFactor
  simp only [ban_nom_eq, ban_den_eq, cabs_eq]
  set d := star w ⬝ᵥ N *ᵥ w
  have hdd : ‖csqrt (d * CxOps.conj (α := ℝ) d)‖ = ‖d‖ := by
    rw [hcs, cx_conj, norm_mul, RCLike.norm_conj, Real.sqrt_mul_self (norm_nonneg d)]
  by_cases hz : isZero (α := ℝ) (csqrt (d * CxOps.conj (α := ℝ) d)) = true
  · rw [if_pos hz]
    have h0 : csqrt (d * CxOps.conj (α := ℝ) d) = 0 := (isZero_iff _).mp hz
    rw [h0, norm_zero] at hdd
    rw [← hdd]; simp
  · rw [if_neg hz, norm_div, hcs, hdd]

theorem ban_eq_smul (csqrt : ℂ → ℂ) (w : Fin D → ℂ) (N : Matrix (Fin D) (Fin D) ℂ) :
    ban (α := ℝ) csqrt w N = ((banFactor (α := ℝ) csqrt w N : ℝ) : ℂ) • w := by
  funext d
  simp [ban, mul_comm]

/-- Hermitian positive definite `Φnn`, `w ≠ 0`: the gain is the positive real `sqrt(wᴴΦΦw) / (wᴴΦw)` -/
theorem banFactor_pos (csqrt : ℂ → ℂ) (hcs : ∀ z, ‖csqrt z‖ = Real.sqrt ‖z‖) (w : Fin D → ℂ)
    (N : Matrix (Fin D) (Fin D) ℂ) (hN : N.PosDef) (hw : w ≠ 0) :
    banFactor (α := ℝ) csqrt w N = Real.sqrt (star w ⬝ᵥ N *ᵥ (N *ᵥ w)).re / (star w ⬝ᵥ N *ᵥ w).re ∧
    0 < banFactor (α := ℝ) csqrt w N := by
  have hNw : N *ᵥ w ≠ 0 := by
    intro h
    have := hN.re_dotProduct_pos hw
    rw [h] at this; simp at this
  have hnom : star w ⬝ᵥ N *ᵥ (N *ᵥ w) = star (N *ᵥ w) ⬝ᵥ (N *ᵥ w) := (herm_swap N hN.1 w (N *ᵥ w)).symm
  have hnom0 : 0 < star (N *ᵥ w) ⬝ᵥ (N *ᵥ w) := by
    have := (Matrix.PosDef.one (n := Fin D) (R := ℂ)).dotProduct_mulVec_pos hNw
    rwa [one_mulVec] at this
  have hd0 : 0 < star w ⬝ᵥ N *ᵥ w := hN.dotProduct_mulVec_pos hw
  have e1 : ‖star w ⬝ᵥ N *ᵥ (N *ᵥ w)‖ = (star w ⬝ᵥ N *ᵥ (N *ᵥ w)).re := by
    rw [hnom]
    have h := Complex.pos_iff.mp hnom0
    rw [← Complex.abs_re_eq_norm.mpr h.2.symm, abs_of_pos h.1]
  have e2 : ‖star w ⬝ᵥ N *ᵥ w‖ = (star w ⬝ᵥ N *ᵥ w).re := by
    have h := Complex.pos_iff.mp hd0
    rw [← Complex.abs_re_eq_norm.mpr h.2.symm, abs_of_pos h.1]
  rw [banFactor_eq csqrt hcs, e1, e2]
  refine ⟨rfl, div_pos (Real.sqrt_pos.mpr ?_) (Complex.pos_iff.mp hd0).1⟩
  rw [hnom]; exact (Complex.pos_iff.mp hnom0).1

/-- the result depends on the input vector's scale only through its phase: `ban(c w) = (c/|c|) ban(w)` -/
theorem ban_smul (csqrt : ℂ → ℂ) (hcs : ∀ z, ‖csqrt z‖ = Real.sqrt ‖z‖) (w : Fin D → ℂ)
    (N : Matrix (Fin D) (Fin D) ℂ) (c : ℂ) (hc : c ≠ 0) :
    ban (α := ℝ) csqrt (c • w) N = (c / (‖c‖ : ℂ)) • ban (α := ℝ) csqrt w N := by
  have hcn : ‖c‖ ≠ 0 := norm_ne_zero_iff.mpr hc
  have hf : banFactor (α := ℝ) csqrt (c • w) N = banFactor (α := ℝ) csqrt w N / ‖c‖ := by
    rw [banFactor_eq csqrt hcs, banFactor_eq csqrt hcs]
    have h1 : star (c • w) ⬝ᵥ N *ᵥ (N *ᵥ (c • w)) = (star c * c) * (star w ⬝ᵥ N *ᵥ (N *ᵥ w)) := by
      rw [mulVec_smul, mulVec_smul, star_smul, smul_dotProduct, dotProduct_smul, smul_eq_mul, smul_eq_mul]; ring
    have h2 : star (c • w) ⬝ᵥ N *ᵥ (c • w) = (star c * c) * (star w ⬝ᵥ N *ᵥ w) := by
      rw [mulVec_smul, star_smul, smul_dotProduct, dotProduct_smul, smul_eq_mul, smul_eq_mul]; ring
    have hn : ‖star c * c‖ = ‖c‖ * ‖c‖ := by rw [norm_mul, norm_star]
    rw [h1, h2, norm_mul, norm_mul (star c * c), hn, Real.sqrt_mul (mul_nonneg (norm_nonneg c) (norm_nonneg c)),
      Real.sqrt_mul_self (norm_nonneg c)]
    field_simp
  rw [ban_eq_smul, ban_eq_smul, hf, smul_smul, smul_smul]
  congr 1
  push_cast
  field_simp


/-- exactly rank-one target `σ b bᴴ`, (generalised) eigen-solver contract, column `k` with eigenvalue `≠ 0`:
the rank-one estimate built from `Φnn v_k` is the target itself -/
theorem rank1_recovers_of_contract (Pnn V : Matrix (Fin D) (Fin D) ℂ) (l : Fin D → ℝ) (b : Fin D → ℂ) (hb : b ≠ 0)
    (σ : ℂ) (hN : Vᴴ * Pnn * V = 1)
    (hX : Vᴴ * (σ • vecMulVec b (star b)) * V = diagonal (fun i => (l i : ℂ))) (k : Fin D) (hk : l k ≠ 0) :
    Matrix.of (rankOne ℝ (σ • vecMulVec b (star b)) (gevAtf Pnn fun d => V d k)) = σ • vecMulVec b (star b) ∧
    ∃ c : ℂ, c ≠ 0 ∧ gevAtf Pnn (fun d => V d k) = c • b := by
  have hlk : (l k : ℂ) ≠ 0 := by exact_mod_cast hk
  have hge := geig_of_contract (σ • vecMulVec b (star b)) Pnn V l hN hX k
  have hpar := gev_atf_parallel Pnn b (fun d => V d k) σ (l k) hlk hge
  have hc : σ * (star b ⬝ᵥ fun d => V d k) / (l k : ℂ) ≠ 0 := by
    intro h0
    rw [h0, zero_smul] at hpar
    have h1 := quad_col V Pnn k
    rw [hN, one_apply_eq] at h1
    unfold gevAtf at hpar
    rw [matVec_eq] at hpar
    rw [hpar, dotProduct_zero] at h1
    exact zero_ne_one h1
  exact ⟨by rw [hpar]; exact rank1_recovers b hb σ _ hc, _, hc, hpar⟩

end PbBss.BfProof

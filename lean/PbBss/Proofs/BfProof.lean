import PbBss.Model.Bf
import PbBss.Proofs.RealInst
import PbBss.Proofs.Mvdr
import PbBss.Proofs.Gev
/-! Helper lemmas for C11 / C12: bridge from the executable `Bf` models (at `α := ℝ`, `β := ℂ`) to Mathlib's
`Matrix` API, and the algebra behind the property theorems. -/
open PbBss PbBss.Bf Matrix
open scoped ComplexOrder
namespace PbBss.BfProof

variable {D K : Nat}

/-! ### bridge: model folds = Mathlib operations -/
theorem cj_eq (z : ℂ) : cj ℝ z = star z := rfl

theorem cdot_eq (x y : Fin D → ℂ) : cdot ℝ x y = star x ⬝ᵥ y := by
  unfold cdot
  rw [vsum_eq_sum]
  rfl

theorem trace_eq (M : Matrix (Fin D) (Fin D) ℂ) : Bf.trace M = Matrix.trace M := by
  unfold Bf.trace
  rw [vsum_eq_sum]
  rfl

theorem matVec_eq (M : Matrix (Fin D) (Fin D) ℂ) (x : Fin D → ℂ) : matVec M x = M *ᵥ x := by
  funext i
  unfold matVec
  rw [vsum_eq_sum]
  rfl

theorem half_eq : half ℝ = (1 / 2 : ℝ) := by
  unfold half; norm_num

theorem hermSym_apply (Φ : Matrix (Fin D) (Fin D) ℂ) (i j : Fin D) :
    hermSym ℝ Φ i j = (1 / 2 : ℂ) * (Φ i j + star (Φ j i)) := by
  unfold hermSym
  rw [half_eq]
  simp

/-- the symmetrised matrix is Hermitian whatever the input -/
theorem hermSym_isHermitian (Φ : Matrix (Fin D) (Fin D) ℂ) :
    (Matrix.of (hermSym ℝ Φ)).IsHermitian := by
  ext i j
  rw [conjTranspose_apply, of_apply, of_apply, hermSym_apply, hermSym_apply]
  simp [add_comm]

/-- symmetrisation does nothing to a Hermitian matrix -/
theorem hermSym_of_isHermitian (Φ : Matrix (Fin D) (Fin D) ℂ) (h : Φ.IsHermitian) :
    Matrix.of (hermSym ℝ Φ) = Φ := by
  ext i j
  rw [of_apply, hermSym_apply]
  have : star (Φ j i) = Φ i j := by
    have := congrFun (congrFun h i) j
    rwa [conjTranspose_apply] at this
  rw [this]; ring

theorem mvdrFromSolve_eq (a u : Fin D → ℂ) : mvdrFromSolve ℝ a u = (star a ⬝ᵥ u)⁻¹ • u := by
  funext d
  unfold mvdrFromSolve
  simp only [cdot_eq, Pi.smul_apply, smul_eq_mul]
  rw [div_eq_inv_mul]

/-! ### `vargmax` returns the first maximiser -/
section argmax
variable {L : Type} [LinearOrder L] {m : Nat}

/-- the fold behind `vargmax`, generalised over the start index and the enumeration of the candidates -/
def amFold (f : Fin m → L) {n : Nat} (e : Fin n → Fin m) (s : Fin m) : Fin m :=
  Fin.foldl n (fun b i => if f b < f (e i) then e i else b) s

theorem amFold_succ (f : Fin m → L) {n : Nat} (e : Fin (n+1) → Fin m) (s : Fin m) :
    amFold f e s = if f (amFold f (fun i => e i.castSucc) s) < f (e (Fin.last n)) then e (Fin.last n)
      else amFold f (fun i => e i.castSucc) s := by
  unfold amFold; rw [Fin.foldl_succ_last]

theorem amFold_spec (f : Fin m → L) : ∀ (n : Nat) (e : Fin n → Fin m) (s : Fin m), StrictMono e → (∀ i, s < e i) →
    f s ≤ f (amFold f e s) ∧ (∀ i, f (e i) ≤ f (amFold f e s)) ∧ (amFold f e s = s ∨ ∃ i, amFold f e s = e i) ∧
    (amFold f e s ≠ s → f s < f (amFold f e s)) ∧ (∀ i, e i < amFold f e s → f (e i) < f (amFold f e s)) := by
  intro n
  induction n with
  | zero =>
    intro e s _ _
    have : amFold f e s = s := by unfold amFold; simp [Fin.foldl_zero]
    rw [this]
    exact ⟨le_rfl, fun i => i.elim0, Or.inl rfl, fun h => (h rfl).elim, fun i => i.elim0⟩
  | succ n ih =>
    intro e s he hs
    have he' : StrictMono fun i : Fin n => e i.castSucc := fun a b hab => he (by simpa using hab)
    obtain ⟨h1, h2, h3, h4, h5⟩ := ih (fun i => e i.castSucc) s he' (fun i => hs _)
    rw [amFold_succ]
    set b := amFold f (fun i => e i.castSucc) s with hb
    by_cases hlt : f b < f (e (Fin.last n))
    · rw [if_pos hlt]
      refine ⟨le_of_lt (lt_of_le_of_lt h1 hlt), ?_, Or.inr ⟨_, rfl⟩, fun _ => lt_of_le_of_lt h1 hlt, ?_⟩
      · intro i
        rcases Fin.eq_castSucc_or_eq_last i with ⟨j, rfl⟩ | rfl
        · exact le_of_lt (lt_of_le_of_lt (h2 j) hlt)
        · exact le_rfl
      · intro i hi
        rcases Fin.eq_castSucc_or_eq_last i with ⟨j, rfl⟩ | rfl
        · exact lt_of_le_of_lt (h2 j) hlt
        · exact (lt_irrefl _ hi).elim
    · rw [if_neg hlt]
      refine ⟨h1, ?_, ?_, h4, ?_⟩
      · intro i
        rcases Fin.eq_castSucc_or_eq_last i with ⟨j, rfl⟩ | rfl
        · exact h2 j
        · exact not_lt.mp hlt
      · rcases h3 with h3 | ⟨j, hj⟩
        · exact Or.inl h3
        · exact Or.inr ⟨j.castSucc, hj⟩
      · intro i hi
        rcases Fin.eq_castSucc_or_eq_last i with ⟨j, rfl⟩ | rfl
        · exact h5 j hi
        · rcases h3 with h3 | ⟨j, hj⟩
          · rw [h3] at hi; exact (lt_asymm hi (hs _)).elim
          · rw [hj] at hi
            exact (lt_asymm hi (he (Fin.castSucc_lt_last j))).elim

theorem vargmax_eq_amFold {n : Nat} (f : Fin (n+1) → L) : vargmax f = amFold f Fin.succ 0 := rfl

/-- `np.argmax`: the value at the returned index is a maximum … -/
theorem vargmax_ge {n : Nat} (f : Fin (n+1) → L) (k : Fin (n+1)) : f k ≤ f (vargmax f) := by
  obtain ⟨h1, h2, -, -, -⟩ := amFold_spec f n Fin.succ 0 (Fin.strictMono_succ) (fun i => Fin.succ_pos i)
  rw [vargmax_eq_amFold]
  rcases Fin.eq_zero_or_eq_succ k with rfl | ⟨j, rfl⟩
  · exact h1
  · exact h2 j

/-- … and every earlier index has a strictly smaller value (first maximiser) -/
theorem vargmax_first {n : Nat} (f : Fin (n+1) → L) (k : Fin (n+1)) (hk : k < vargmax f) : f k < f (vargmax f) := by
  obtain ⟨-, -, -, h4, h5⟩ := amFold_spec f n Fin.succ 0 (Fin.strictMono_succ) (fun i => Fin.succ_pos i)
  rw [vargmax_eq_amFold] at hk ⊢
  rcases Fin.eq_zero_or_eq_succ k with rfl | ⟨j, rfl⟩
  · exact h4 (ne_of_gt hk)
  · exact h5 j hk
end argmax

/-! ### MVDR -/
section mvdr
variable (Φ : Matrix (Fin D) (Fin D) ℂ) (a u : Fin D → ℂ)

/-- `aᴴ u = uᴴ Φ u` when `Φ u = a`, `Φ` Hermitian -/
theorem den_eq_quad (hΦ : Φ.IsHermitian) (hu : Φ *ᵥ u = a) : star a ⬝ᵥ u = star u ⬝ᵥ Φ *ᵥ u := by
  rw [← hu, herm_swap Φ hΦ]

/-- the denominator `aᴴ Φ⁻¹ a` is a real number -/
theorem den_real (hΦ : Φ.IsHermitian) (hu : Φ *ᵥ u = a) : star (star a ⬝ᵥ u) = star a ⬝ᵥ u := by
  rw [den_eq_quad Φ a u hΦ hu, ← herm_swap Φ hΦ u u, ← star_dotProduct, herm_swap Φ hΦ]

theorem den_im (hΦ : Φ.IsHermitian) (hu : Φ *ᵥ u = a) : (star a ⬝ᵥ u).im = 0 := by
  have h := den_real Φ a u hΦ hu
  have := congrArg Complex.im h
  simp only [RCLike.star_def, Complex.conj_im] at this
  linarith

/-- … and positive for a positive definite `Φ` and `a ≠ 0` -/
theorem den_pos (hΦ : Φ.PosDef) (ha : a ≠ 0) (hu : Φ *ᵥ u = a) : 0 < (star a ⬝ᵥ u).re := by
  have hu0 : u ≠ 0 := by
    rintro rfl
    rw [mulVec_zero] at hu
    exact ha hu.symm
  have hpos := hΦ.re_dotProduct_pos hu0
  rw [den_eq_quad Φ a u hΦ.1 hu]
  simpa using hpos

theorem den_ne_zero (hΦ : Φ.PosDef) (ha : a ≠ 0) (hu : Φ *ᵥ u = a) : star a ⬝ᵥ u ≠ 0 := by
  intro h
  have := den_pos Φ a u hΦ ha hu
  rw [h] at this
  simp at this

theorem den_eq_ofReal (hΦ : Φ.IsHermitian) (hu : Φ *ᵥ u = a) : star a ⬝ᵥ u = (((star a ⬝ᵥ u).re : ℝ) : ℂ) := by
  apply Complex.ext
  · simp
  · simp [den_im Φ a u hΦ hu]
end mvdr

/-! ### LCMV -/

theorem lcmvCombine_eq (U : Fin K → Fin D → ℂ) (t : Fin K → ℂ) : lcmvCombine U t = ∑ k, t k • U k := by
  funext d
  unfold lcmvCombine
  rw [vsum_eq_sum, Finset.sum_apply]
  refine Finset.sum_congr rfl fun k _ => ?_
  simp [mul_comm]

theorem lcmvGram_apply (A U : Fin K → Fin D → ℂ) (j k : Fin K) : lcmvGram ℝ A U j k = star (A j) ⬝ᵥ U k := by
  unfold lcmvGram; rw [cdot_eq]

/-- the constraints hold for whatever `U`, as soon as `t` solves the Gram system -/
theorem lcmv_constraints (A U : Fin K → Fin D → ℂ) (r t : Fin K → ℂ)
    (ht : Matrix.of (lcmvGram ℝ A U) *ᵥ t = r) (j : Fin K) :
    star (lcmvCombine U t) ⬝ᵥ A j = star (r j) := by
  rw [star_dotProduct, lcmvCombine_eq, dotProduct_sum, ← ht]
  congr 1
  simp only [mulVec, dotProduct, of_apply, lcmvGram_apply]
  refine Finset.sum_congr rfl fun k _ => ?_
  rw [Finset.sum_mul]
  refine Finset.sum_congr rfl fun i _ => ?_
  simp only [Pi.smul_apply, smul_eq_mul]
  ring

theorem lcmvGram_eq (Φ : Matrix (Fin D) (Fin D) ℂ) (hΦ : Φ.IsHermitian) (A U : Fin K → Fin D → ℂ)
    (hU : ∀ k, Φ *ᵥ U k = A k) :
    Matrix.of (lcmvGram ℝ A U) = (Matrix.of fun d k => U k d)ᴴ * Φ * (Matrix.of fun d k => U k d) := by
  ext j k
  rw [of_apply, lcmvGram_apply, ← hU j, herm_swap Φ hΦ, Matrix.mul_apply]
  simp only [dotProduct, mulVec, Matrix.mul_apply, conjTranspose_apply, of_apply, Pi.star_apply, Finset.sum_mul,
    Finset.mul_sum]
  rw [Finset.sum_comm]
  refine Finset.sum_congr rfl fun x _ => Finset.sum_congr rfl fun y _ => ?_
  ring

theorem lcmv_gram_posDef (Φ : Matrix (Fin D) (Fin D) ℂ) (hΦ : Φ.PosDef) (A U : Fin K → Fin D → ℂ)
    (hU : ∀ k, Φ *ᵥ U k = A k) (hA : LinearIndependent ℂ A) :
    (Matrix.of (lcmvGram ℝ A U)).PosDef := by
  rw [lcmvGram_eq Φ hΦ.1 A U hU]
  apply hΦ.conjTranspose_mul_mul_same
  intro x y hxy
  have key : ∀ z : Fin K → ℂ, Φ *ᵥ ((Matrix.of fun d k => U k d) *ᵥ z) = ∑ k, z k • A k := by
    intro z
    have : (Matrix.of fun d k => U k d) *ᵥ z = ∑ k, z k • U k := by
      funext d
      simp [mulVec, dotProduct, Finset.sum_apply, mul_comm]
    rw [this, mulVec_sum]
    refine Finset.sum_congr rfl fun k _ => ?_
    rw [mulVec_smul, hU]
  have h := congrArg (Φ *ᵥ ·) hxy
  simp only [key] at h
  have hsub : ∑ k, (x k - y k) • A k = 0 := by
    simp only [sub_smul, Finset.sum_sub_distrib, h, sub_self]
  have := Fintype.linearIndependent_iff.mp hA (fun k => x k - y k) hsub
  funext k
  exact sub_eq_zero.mp (this k)

/-! ### Souden MVDR / WMWF -/

/-- cancel an invertible matrix on the left -/
theorem mul_left_cancel_of_isUnit {A : Matrix (Fin D) (Fin D) ℂ} (hA : IsUnit A) {X Y : Matrix (Fin D) (Fin D) ℂ}
    (h : A * X = A * Y) : X = Y := by
  have hdet := (Matrix.isUnit_iff_isUnit_det A).mp hA
  calc X = A⁻¹ * (A * X) := by rw [← Matrix.mul_assoc, Matrix.nonsing_inv_mul _ hdet, Matrix.one_mul]
    _ = A⁻¹ * (A * Y) := by rw [h]
    _ = Y := by rw [← Matrix.mul_assoc, Matrix.nonsing_inv_mul _ hdet, Matrix.one_mul]

theorem mulVec_left_cancel_of_isUnit {A : Matrix (Fin D) (Fin D) ℂ} (hA : IsUnit A) {x y : Fin D → ℂ}
    (h : A *ᵥ x = A *ᵥ y) : x = y := by
  have hdet := (Matrix.isUnit_iff_isUnit_det A).mp hA
  calc x = A⁻¹ *ᵥ (A *ᵥ x) := by rw [mulVec_mulVec, Matrix.nonsing_inv_mul _ hdet, one_mulVec]
    _ = A⁻¹ *ᵥ (A *ᵥ y) := by rw [h]
    _ = y := by rw [mulVec_mulVec, Matrix.nonsing_inv_mul _ hdet, one_mulVec]

/-- `stable_solve(Φnn, σ a aᴴ) = σ u aᴴ` with `u = Φnn⁻¹ a` -/
theorem phi_rank_one (N : Matrix (Fin D) (Fin D) ℂ) (hN : IsUnit N) (a u : Fin D → ℂ) (σ : ℂ)
    (phi : Matrix (Fin D) (Fin D) ℂ) (hphi : N * phi = σ • vecMulVec a (star a)) (hu : N *ᵥ u = a) :
    phi = σ • vecMulVec u (star a) := by
  apply mul_left_cancel_of_isUnit hN
  rw [hphi, Matrix.mul_smul, ← hu]
  congr 1
  ext i j
  simp only [Matrix.mul_apply, vecMulVec_apply, mulVec, dotProduct, Finset.sum_mul]
  exact Finset.sum_congr rfl fun k _ => by ring

theorem trace_rank_one (a u : Fin D → ℂ) (σ : ℂ) :
    Bf.trace (σ • vecMulVec u (star a) : Matrix (Fin D) (Fin D) ℂ) = σ * (star a ⬝ᵥ u) := by
  rw [trace_eq, trace_smul, smul_eq_mul]
  congr 1
  simp only [Matrix.trace, diag_apply, vecMulVec_apply, dotProduct, mul_comm]

theorem souden_rank_one (N : Matrix (Fin D) (Fin D) ℂ) (hN : N.PosDef) (a u : Fin D → ℂ) (ha : a ≠ 0)
    (σ : ℝ) (hσ : 0 < σ) (phi : Matrix (Fin D) (Fin D) ℂ)
    (hphi : N * phi = (σ : ℂ) • vecMulVec a (star a)) (hu : N *ᵥ u = a) (ref : Fin D) (eps : ℝ)
    (heps : eps ≤ σ * (star a ⬝ᵥ u).re) :
    souden phi ref eps = star (a ref) • mvdrFromSolve ℝ a u := by
  have hphi' := phi_rank_one N hN.isUnit a u σ phi hphi hu
  have hpos := den_pos N a u hN ha hu
  obtain ⟨q, hq⟩ : ∃ q : ℝ, star a ⬝ᵥ u = (q : ℂ) := ⟨_, den_eq_ofReal N a u hN.1 hu⟩
  have hqre : (star a ⬝ᵥ u).re = q := by rw [hq]; simp
  rw [hqre] at heps hpos
  funext d
  unfold souden soudenMat
  rw [mvdrFromSolve_eq]
  simp only [cx_re, cx_ofReal]
  have htr : Bf.trace (phi : Fin D → Fin D → ℂ) = ((σ * q : ℝ) : ℂ) := by
    rw [hphi', trace_rank_one, hq]; push_cast; rfl
  rw [htr, Complex.ofReal_re, max_eq_left heps, hphi', hq]
  simp only [Matrix.smul_apply, vecMulVec_apply, Pi.smul_apply, Pi.star_apply, smul_eq_mul]
  have hq' : (q : ℂ) ≠ 0 := by exact_mod_cast hpos.ne'
  have hσ' : (σ : ℂ) ≠ 0 := by exact_mod_cast hσ.ne'
  push_cast
  field_simp


/-- WMWF for a rank-one target solves the normal equations `(Φxx + μ Φnn) w = Φxx e_ref` -/
theorem wmwf_normal_eq (N : Matrix (Fin D) (Fin D) ℂ) (hN : N.PosDef) (a u : Fin D → ℂ) (ha : a ≠ 0)
    (σ : ℝ) (hσ : 0 < σ) (μ : ℝ) (hμ : 0 ≤ μ) (phi : Matrix (Fin D) (Fin D) ℂ)
    (hphi : N * phi = (σ : ℂ) • vecMulVec a (star a)) (hu : N *ᵥ u = a) (ref : Fin D) :
    ((σ : ℂ) • vecMulVec a (star a) + (μ : ℂ) • N) *ᵥ wmwf μ phi ref =
      fun d => ((σ : ℂ) • vecMulVec a (star a) : Matrix (Fin D) (Fin D) ℂ) d ref := by
  have hphi' := phi_rank_one N hN.isUnit a u σ phi hphi hu
  have hpos := den_pos N a u hN ha hu
  obtain ⟨q, hq⟩ : ∃ q : ℝ, star a ⬝ᵥ u = (q : ℂ) := ⟨_, den_eq_ofReal N a u hN.1 hu⟩
  have hqre : (star a ⬝ᵥ u).re = q := by rw [hq]; simp
  rw [hqre] at hpos
  have hne : ((μ : ℂ) + (σ : ℂ) * (q : ℂ)) ≠ 0 := by
    have : (0 : ℝ) < μ + σ * q := by positivity
    exact_mod_cast this.ne'
  -- the filter is a multiple of `u`
  have hw : wmwf μ phi ref = ((σ : ℂ) * star (a ref) / ((μ : ℂ) + (σ : ℂ) * (q : ℂ))) • u := by
    funext d
    unfold wmwf wmwfFilter
    simp only [cx_ofReal]
    rw [hphi', trace_rank_one, hq]
    simp only [Matrix.smul_apply, vecMulVec_apply, Pi.smul_apply, Pi.star_apply, smul_eq_mul]
    field_simp
  rw [hw, mulVec_smul, add_mulVec, smul_mulVec, smul_mulVec, hu]
  have h1 : vecMulVec a (star a) *ᵥ u = (q : ℂ) • a := by
    funext i
    simp only [mulVec, vecMulVec_apply, Pi.smul_apply, smul_eq_mul, ← hq]
    simp only [dotProduct, Finset.sum_mul]
    exact Finset.sum_congr rfl fun k _ => by ring
  rw [h1]
  funext d
  simp only [Pi.smul_apply, Pi.add_apply, Matrix.smul_apply, vecMulVec_apply, Pi.star_apply, smul_eq_mul]
  field_simp
  ring

theorem wmwf_exact (N : Matrix (Fin D) (Fin D) ℂ) (hN : N.PosDef) (a u : Fin D → ℂ) (ha : a ≠ 0)
    (σ : ℝ) (hσ : 0 < σ) (μ : ℝ) (hμ : 0 < μ) (phi : Matrix (Fin D) (Fin D) ℂ)
    (hphi : N * phi = (σ : ℂ) • vecMulVec a (star a)) (hu : N *ᵥ u = a) (ref : Fin D) :
    wmwf μ phi ref = fun d =>
      (((σ : ℂ) • vecMulVec a (star a) + (μ : ℂ) • N)⁻¹ * ((σ : ℂ) • vecMulVec a (star a))) d ref := by
  set X : Matrix (Fin D) (Fin D) ℂ := (σ : ℂ) • vecMulVec a (star a) with hX
  have hXpsd : X.PosSemidef := by
    have := (posSemidef_vecMulVec_self_star a).smul (show (0 : ℂ) ≤ (σ : ℂ) by exact_mod_cast hσ.le)
    exact this
  have hMpd : (X + (μ : ℂ) • N).PosDef :=
    Matrix.PosDef.posSemidef_add hXpsd (hN.smul (show (0 : ℂ) < (μ : ℂ) by exact_mod_cast hμ))
  apply mulVec_left_cancel_of_isUnit hMpd.isUnit
  rw [wmwf_normal_eq N hN a u ha σ hσ μ hμ.le phi hphi hu ref]
  have hdet := (Matrix.isUnit_iff_isUnit_det _).mp hMpd.isUnit
  funext d
  have : (X + (μ : ℂ) • N) *ᵥ (fun d => ((X + (μ : ℂ) • N)⁻¹ * X) d ref) =
      fun d => ((X + (μ : ℂ) • N) * ((X + (μ : ℂ) • N)⁻¹ * X)) d ref := by
    funext i
    simp only [mulVec, dotProduct, Matrix.mul_apply]
  rw [this, ← Matrix.mul_assoc, Matrix.mul_nonsing_inv _ hdet, Matrix.one_mul]

end PbBss.BfProof

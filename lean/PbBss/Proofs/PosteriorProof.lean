import PbBss.Model.Posterior
import PbBss.Proofs.RealInst
import Mathlib.Analysis.SpecialFunctions.Log.Basic
import Mathlib.Analysis.SpecialFunctions.Sqrt
import Mathlib.Algebra.BigOperators.Fin
import Mathlib.Algebra.Order.BigOperators.Group.Finset
import Mathlib.Analysis.Complex.Basic
import Mathlib.Analysis.Complex.Norm
import Mathlib.Tactic
/-! Helper lemmas about the `Posterior` models over `ℝ` / `ℂ` (used by `Props/C01`, `C04`, `C05`). -/
open PbBss PbBss.Posterior

noncomputable instance : CxMk ℝ ℂ := ⟨fun a b => ⟨a, b⟩⟩

namespace PbBss.PosteriorProof

/-! ### `vmax` under shifts and reindexing -/

theorem vmax_add_const {n : Nat} (f : Fin (n+1) → ℝ) (c : ℝ) : vmax (fun k => f k + c) = vmax f + c := by
  apply le_antisymm
  · obtain ⟨k, hk⟩ := vmax_mem (fun k => f k + c)
    rw [hk]; exact add_le_add (vmax_ge f k) le_rfl
  · obtain ⟨k, hk⟩ := vmax_mem f
    rw [hk]; exact vmax_ge (fun k => f k + c) k

theorem vmax_comp_perm {n : Nat} (f : Fin (n+1) → ℝ) (σ : Equiv.Perm (Fin (n+1))) :
    vmax (fun k => f (σ k)) = vmax f := by
  apply le_antisymm
  · obtain ⟨k, hk⟩ := vmax_mem (fun k => f (σ k))
    rw [hk]; exact vmax_ge f (σ k)
  · obtain ⟨k, hk⟩ := vmax_mem f
    rw [hk]
    have := vmax_ge (fun k => f (σ k)) (σ.symm k)
    simpa using this

/-! ### the mask factor -/

/-- the factor the mask contributes to class `k` (`1` without a mask) -/
noncomputable def mfac {n : Nat} (mask : Option (Fin n → Bool)) (k : Fin n) : ℝ :=
  match mask with
  | none => 1
  | some m => if m k then 1 else 0

theorem mfac_nonneg {n : Nat} (mask : Option (Fin n → Bool)) (k : Fin n) : 0 ≤ mfac mask k := by
  unfold mfac; split
  · norm_num
  · split <;> norm_num

theorem mfac_le_one {n : Nat} (mask : Option (Fin n → Bool)) (k : Fin n) : mfac mask k ≤ 1 := by
  unfold mfac; split
  · norm_num
  · split <;> norm_num

theorem applyMask_eq {n : Nat} (mask : Option (Fin n → Bool)) (u : Fin n → ℝ) (k : Fin n) :
    applyMask mask u k = u k * mfac mask k := by
  unfold applyMask mfac maskVal
  cases mask <;> simp

/-- the term of class `k` in the denominator -/
noncomputable def term {K : Nat} (w lp : Fin (K+1) → ℝ) (mask : Option (Fin (K+1) → Bool)) (k : Fin (K+1)) : ℝ :=
  Real.exp (lp k - vmax lp) * w k * mfac mask k

theorem unnorm_eq {K : Nat} (w lp : Fin (K+1) → ℝ) (mask) (k) : unnorm w lp mask k = term w lp mask k := by
  unfold unnorm term
  rw [applyMask_eq]; simp

theorem denominator_eq {K : Nat} (tiny : ℝ) (w lp : Fin (K+1) → ℝ) (mask) :
    denominator tiny w lp mask = max (∑ k, term w lp mask k) tiny := by
  unfold denominator
  rw [vsum_eq_sum]; simp only [unnorm_eq]

theorem affiliation_none_eq {K : Nat} (tiny : ℝ) (w lp : Fin (K+1) → ℝ) (mask) (k) :
    Posterior.affiliation tiny none w lp mask k = term w lp mask k / max (∑ j, term w lp mask j) tiny := by
  unfold Posterior.affiliation clip
  simp only [unnorm_eq, denominator_eq]

theorem affiliation_some_eq {K : Nat} (tiny e : ℝ) (w lp : Fin (K+1) → ℝ) (mask) (k) :
    Posterior.affiliation tiny (some e) w lp mask k = min (1 - e) (max (Posterior.affiliation tiny none w lp mask k) e) := by
  unfold Posterior.affiliation clip
  rfl

theorem term_nonneg {K : Nat} {w lp : Fin (K+1) → ℝ} (hw : ∀ k, 0 ≤ w k) (mask) (k) : 0 ≤ term w lp mask k := by
  unfold term
  exact mul_nonneg (mul_nonneg (Real.exp_pos _).le (hw k)) (mfac_nonneg mask k)

theorem sum_term_nonneg {K : Nat} {w lp : Fin (K+1) → ℝ} (hw : ∀ k, 0 ≤ w k) (mask) :
    0 ≤ ∑ k, term w lp mask k := Finset.sum_nonneg fun k _ => term_nonneg hw mask k

theorem den_pos {K : Nat} {tiny : ℝ} (ht : 0 < tiny) (w lp : Fin (K+1) → ℝ) (mask) :
    0 < max (∑ j, term w lp mask j) tiny := lt_of_lt_of_le ht (le_max_right _ _)

/-! ### clipping -/

theorem clip_bounds {e x : ℝ} (he : e ≤ 1/2) : e ≤ min (1 - e) (max x e) ∧ min (1 - e) (max x e) ≤ 1 - e := by
  refine ⟨le_min (by linarith) (le_max_right _ _), min_le_left _ _⟩

theorem clip_dist {e x : ℝ} (he0 : 0 < e) (he : e ≤ 1/2) (hx0 : 0 ≤ x) (hx1 : x ≤ 1) :
    |min (1 - e) (max x e) - x| ≤ e := by
  rcases le_total x e with h | h
  · rw [max_eq_right h, min_eq_right (by linarith), abs_le]; constructor <;> linarith
  · rw [max_eq_left h]
    rcases le_total x (1 - e) with h2 | h2
    · rw [min_eq_right h2]; simp; linarith
    · rw [min_eq_left h2, abs_le]; constructor <;> linarith

/-! ### broadcasting -/

theorem ite_one {d i : Nat} (h : i < d) : (if d = 1 then 0 else i) = i := by
  split
  · omega
  · rfl

/-! ### initialisers -/

theorem sum_oneHot {K N : Nat} (labels : Fin N → Fin K) (n : Fin N) :
    ∑ k, (oneHot labels k n : ℝ) = 1 := by
  unfold oneHot
  rw [Finset.sum_ite_eq Finset.univ (labels n) (fun _ => (1 : ℝ))]
  simp

theorem sum_ite_const {K : Nat} (j : Fin K) (c : ℝ) :
    ∑ k : Fin K, (if j = k then (1 : ℝ) else c) = 1 + ((K : ℝ) - 1) * c := by
  have : ∀ k : Fin K, (if j = k then (1 : ℝ) else c) = c + (if j = k then (1 - c) else 0) := by
    intro k; split <;> ring
  simp only [this, Finset.sum_add_distrib, Finset.sum_ite_eq Finset.univ j (fun _ => (1 - c : ℝ))]
  simp; ring

/-! ### norms of complex vectors -/

theorem absSq_eq_normSq (z : ℂ) : absSq (α := ℝ) z = Complex.normSq z := by
  unfold absSq; simp [Complex.normSq_apply]

theorem absSq_nonneg (z : ℂ) : 0 ≤ absSq (α := ℝ) z := by
  rw [absSq_eq_normSq]; exact Complex.normSq_nonneg z

/-- `Σ_d |y_d|²` -/
noncomputable def sqSum {D : Nat} (y : Fin D → ℂ) : ℝ := ∑ d, Complex.normSq (y d)

theorem sqSum_nonneg {D : Nat} (y : Fin D → ℂ) : 0 ≤ sqSum y :=
  Finset.sum_nonneg fun d _ => Complex.normSq_nonneg _

theorem norm2_eq {D : Nat} (y : Fin D → ℂ) : norm2 (α := ℝ) y = Real.sqrt (sqSum y) := by
  unfold norm2 sqSum
  rw [vsum_eq_sum]; simp only [absSq_eq_normSq, transc_sqrt_real]

theorem norm2_nonneg {D : Nat} (y : Fin D → ℂ) : 0 ≤ norm2 (α := ℝ) y := by
  rw [norm2_eq]; exact Real.sqrt_nonneg _

theorem sqSum_eq_zero_iff {D : Nat} (y : Fin D → ℂ) : sqSum y = 0 ↔ ∀ d, y d = 0 := by
  unfold sqSum
  rw [Finset.sum_eq_zero_iff_of_nonneg (fun d _ => Complex.normSq_nonneg _)]
  simp

theorem norm2_pos_iff {D : Nat} (y : Fin D → ℂ) : 0 < norm2 (α := ℝ) y ↔ ∃ d, y d ≠ 0 := by
  rw [norm2_eq, Real.sqrt_pos]
  constructor
  · intro h
    by_contra hc
    push Not at hc
    have := (sqSum_eq_zero_iff y).mpr hc
    linarith
  · rintro ⟨d, hd⟩
    apply lt_of_le_of_ne (sqSum_nonneg y)
    intro h0
    exact hd ((sqSum_eq_zero_iff y).mp h0.symm d)

theorem sqSum_smul {D : Nat} (c : ℂ) (y : Fin D → ℂ) : sqSum (fun d => c * y d) = Complex.normSq c * sqSum y := by
  unfold sqSum
  simp only [Complex.normSq_mul, Finset.mul_sum]

theorem norm2_smul {D : Nat} (c : ℂ) (y : Fin D → ℂ) :
    norm2 (α := ℝ) (fun d => c * y d) = ‖c‖ * norm2 (α := ℝ) y := by
  rw [norm2_eq, norm2_eq, sqSum_smul, Real.sqrt_mul (Complex.normSq_nonneg c), ← Complex.norm_def]

theorem whereDen_of_pos {eps n : ℝ} (h : 0 < n) : unitNormDen EpsStyle.where_ eps n = n := by
  unfold unitNormDen
  simp [not_lt.mpr h.le, h]

theorem whereDen_of_zero {eps : ℝ} : unitNormDen EpsStyle.where_ eps 0 = eps := by
  unfold unitNormDen
  simp

theorem maxDen_of_le {eps n : ℝ} (h : eps ≤ n) : unitNormDen EpsStyle.max eps n = n := by
  unfold unitNormDen
  exact max_eq_left h

theorem divReal_eq (z : ℂ) (r : ℝ) : divReal z r = z / (r : ℂ) := by
  unfold divReal
  apply Complex.ext
  · simp [CxMk.ofParts, Complex.div_ofReal_re]
  · simp [CxMk.ofParts, Complex.div_ofReal_im]

theorem unitNorm_apply {D : Nat} (style : EpsStyle) (eps : ℝ) (y : Fin D → ℂ) (d : Fin D) :
    unitNorm style eps y d = y d / ((unitNormDen style eps (norm2 (α := ℝ) y) : ℝ) : ℂ) := by
  unfold unitNorm; exact divReal_eq _ _

/-- dividing by a positive denominator `r` and rescaling: the common core of all `*_smul` lemmas -/
theorem div_smul_core {c : ℂ} (hc : c ≠ 0) (x : ℂ) (r : ℝ) :
    c * x / ((‖c‖ * r : ℝ) : ℂ) = (c / ((‖c‖ : ℝ) : ℂ)) * (x / (r : ℂ)) := by
  have hn : ((‖c‖ : ℝ) : ℂ) ≠ 0 := by
    exact_mod_cast (norm_pos_iff.mpr hc).ne'
  by_cases hr : (r : ℂ) = 0
  · have : r = 0 := by exact_mod_cast hr
    subst this; simp
  · push_cast; field_simp

/-! ### relabelling of the classes (C05) -/

theorem mfac_map_perm {n : Nat} (mask : Option (Fin n → Bool)) (σ : Equiv.Perm (Fin n)) (k : Fin n) :
    mfac (mask.map fun m k => m (σ k)) k = mfac mask (σ k) := by
  cases mask <;> rfl

theorem term_perm {K : Nat} (w lp : Fin (K+1) → ℝ) (mask : Option (Fin (K+1) → Bool))
    (σ : Equiv.Perm (Fin (K+1))) (k : Fin (K+1)) :
    term (fun k => w (σ k)) (fun k => lp (σ k)) (mask.map fun m k => m (σ k)) k = term w lp mask (σ k) := by
  unfold term
  rw [vmax_comp_perm, mfac_map_perm]

theorem affiliation_perm {K : Nat} (tiny : ℝ) (eps : Option ℝ) (w lp : Fin (K+1) → ℝ)
    (mask : Option (Fin (K+1) → Bool)) (σ : Equiv.Perm (Fin (K+1))) (k : Fin (K+1)) :
    Posterior.affiliation tiny eps (fun k => w (σ k)) (fun k => lp (σ k)) (mask.map fun m k => m (σ k)) k
      = Posterior.affiliation tiny eps w lp mask (σ k) := by
  unfold Posterior.affiliation
  simp only [unnorm_eq, denominator_eq, term_perm]
  rw [Equiv.sum_comp σ (fun k => term w lp mask k)]

theorem redAxis_perm {n : Nat} (b : Bool) (g : Fin n → ℝ) (σ : Equiv.Perm (Fin n)) (i : Fin n) :
    redAxis b (fun k => g (σ k)) i = redAxis b g (σ i) := by
  unfold redAxis
  cases b
  · simp
  · simp only [if_true, vsum_eq_sum]; exact Equiv.sum_comp σ g

theorem sumTied_perm {F K T : Nat} (tie : Tie) (x : Fin F → Fin K → Fin T → ℝ) (σ : Equiv.Perm (Fin K))
    (f : Fin F) (k : Fin K) (t : Fin T) :
    sumTied tie (fun f k t => x f (σ k) t) f k t = sumTied tie x f (σ k) t := by
  unfold sumTied
  congr 1
  funext f'
  exact redAxis_perm tie.k (fun k' => redAxis tie.t (fun t' => x f' k' t') t) σ k

theorem estimateWeight_perm {F K T : Nat} (i2 : Bool) (tie : Tie) (γ : Fin F → Fin K → Fin T → ℝ)
    (σ : Equiv.Perm (Fin K)) (f : Fin F) (k : Fin K) (t : Fin T) :
    estimateWeight i2 tie (fun f k t => γ f (σ k) t) f k t = estimateWeight i2 tie γ f (σ k) t := by
  unfold estimateWeight
  cases i2
  · simp only [Bool.false_eq_true, if_false]; rw [sumTied_perm]
  · simp

theorem estimateWeightSal_perm {F K T : Nat} (i2 : Bool) (tie : Tie) (eps : ℝ) (γ : Fin F → Fin K → Fin T → ℝ)
    (sal : Fin F → Fin T → ℝ) (σ : Equiv.Perm (Fin K)) (f : Fin F) (k : Fin K) (t : Fin T) :
    estimateWeightSal i2 tie eps (fun f k t => γ f (σ k) t) sal f k t = estimateWeightSal i2 tie eps γ sal f (σ k) t := by
  unfold estimateWeightSal
  cases i2
  · simp only [Bool.false_eq_true, if_false]
    have h := fun f k t => sumTied_perm tie (fun f k t => γ f k t * sal f t) σ f k t
    simp only [h, vsum_eq_sum]
    rw [Equiv.sum_comp σ (fun k' => absv (sumTied tie (fun f k t => γ f k t * sal f t) f k' t))]
  · simp

theorem integrationWeight_perm {F K T : Nat} (tiny : ℝ) (tie : Tie) (γ : Fin F → Fin K → Fin T → ℝ)
    (sal : Fin F → Fin T → ℝ) (σ : Equiv.Perm (Fin K)) (f : Fin F) (k : Fin K) (t : Fin T) :
    integrationWeight tiny tie (fun f k t => γ f (σ k) t) sal f k t = integrationWeight tiny tie γ sal f (σ k) t := by
  unfold integrationWeight
  split
  · rfl
  · have h := fun f k t => sumTied_perm tie (fun f k t => γ f k t * sal f t) σ f k t
    simp only [h, vsum_eq_sum]
    rw [Equiv.sum_comp σ (fun k' => sumTied tie (fun f k t => γ f k t * sal f t) f k' t)]

theorem mixWeight_perm {F K T : Nat} (rule : WeightRule ℝ) (tie : Tie) (γ : Fin F → Fin K → Fin T → ℝ)
    (sal : Fin F → Fin T → ℝ) (σ : Equiv.Perm (Fin K)) (f : Fin F) (k : Fin K) (t : Fin T) :
    mixWeight rule tie (fun f k t => γ f (σ k) t) sal f k t = mixWeight rule tie γ sal f (σ k) t := by
  cases rule with
  | mean i2 => exact estimateWeight_perm i2 tie γ σ f k t
  | saliency i2 eps => exact estimateWeightSal_perm i2 tie eps γ sal σ f k t
  | integration tiny => exact integrationWeight_perm tiny tie γ sal σ f k t

/-- relabelled run of an abstract EM: if the (relabelled) E- and M-steps intertwine the class actions, so does
every number of iterations -/
theorem fit_intertwine {Γ Θ : Type} (aΓ : Γ → Γ) (aΘ : Θ → Θ) (E E' : Θ → Γ) (M M' : Γ → Θ)
    (hE : ∀ θ, E' (aΘ θ) = aΓ (E θ)) (hM : ∀ γ, M' (aΓ γ) = aΘ (M γ)) (n : Nat) (γ : Γ) :
    fit E' M' n (aΓ γ) = aΘ (fit E M n γ) := by
  induction n with
  | zero => exact hM γ
  | succ n ih => simp only [fit]; rw [ih, hE, hM]

/-- class relabelling of the three kinds of objects of the generic mixture trainer -/
def permE {α : Type} {F K T : Nat} (σ : Equiv.Perm (Fin K)) (e : EOut α F K T) : EOut α F K T :=
  ⟨fun f k t => e.aff f (σ k) t, fun f k t => e.aux f (σ k) t⟩

def permMix {α P : Type} {F K T : Nat} (σ : Equiv.Perm (Fin K)) (θ : Mix α P F K T) : Mix α P F K T :=
  ⟨fun f k t => θ.weight f (σ k) t, fun k => θ.comp (σ k)⟩

def permCfg {α P : Type} {F K T : Nat} (σ : Equiv.Perm (Fin K)) (c : MixCfg α P F K T) : MixCfg α P F K T :=
  { c with mask := c.mask.map fun m f k t => m f (σ k) t }

theorem eStep_perm {P : Type} {F K T : Nat} (c : MixCfg ℝ P F (K+1) T) (θ : Mix ℝ P F (K+1) T)
    (σ : Equiv.Perm (Fin (K+1))) : Mix.eStep (permCfg σ c) (permMix σ θ) = permE σ (Mix.eStep c θ) := by
  unfold Mix.eStep permE permMix permCfg
  congr 1
  funext f k t
  have hm : (Option.map (fun m f k t => m f (σ k) t) c.mask).map (fun m k' => m f k' t)
      = (c.mask.map fun m k' => m f k' t).map fun m k => m (σ k) := by
    cases c.mask <;> rfl
  simp only [hm]
  exact affiliation_perm c.tiny c.eps (fun k' => θ.weight f k' t) (fun k' => c.logPdf (θ.comp k') f t)
    (c.mask.map fun m k' => m f k' t) σ k

theorem mStep_perm {P : Type} {F K T : Nat} (c : MixCfg ℝ P F K T) (e : EOut ℝ F K T) (σ : Equiv.Perm (Fin K)) :
    Mix.mStep (permCfg σ c) (permE σ e) = permMix σ (Mix.mStep c e) := by
  unfold Mix.mStep permE permMix permCfg
  congr 1
  funext f k t
  exact mixWeight_perm c.rule c.tie e.aff c.sal σ f k t

/-! ### gains on the observations (C04) -/

theorem normalizeWhere_smul {D : Nat} (tiny : ℝ) {c : ℂ} (hc : c ≠ 0) (y : Fin D → ℂ) (hy : ∃ d, y d ≠ 0)
    (d : Fin D) :
    normalizeWhere (α := ℝ) tiny (fun d => c * y d) d = (c / ((‖c‖ : ℝ) : ℂ)) * normalizeWhere (α := ℝ) tiny y d := by
  have hpos := (norm2_pos_iff y).mpr hy
  have hpos' : 0 < ‖c‖ * norm2 (α := ℝ) y := mul_pos (norm_pos_iff.mpr hc) hpos
  unfold normalizeWhere
  rw [unitNorm_apply, unitNorm_apply, norm2_smul, whereDen_of_pos hpos, whereDen_of_pos hpos']
  exact div_smul_core hc (y d) _

theorem normalizeMax_smul {D : Nat} (tiny : ℝ) {c : ℂ} (hc : c ≠ 0) (y : Fin D → ℂ)
    (h1 : tiny ≤ norm2 (α := ℝ) y) (h2 : tiny ≤ norm2 (α := ℝ) (fun d => c * y d)) (d : Fin D) :
    normalizeMax (α := ℝ) tiny (fun d => c * y d) d = (c / ((‖c‖ : ℝ) : ℂ)) * normalizeMax (α := ℝ) tiny y d := by
  unfold normalizeMax
  rw [unitNorm_apply, unitNorm_apply, maxDen_of_le h1, maxDen_of_le h2, norm2_smul]
  exact div_smul_core hc (y d) _

theorem unit_mul_conj {c : ℂ} (hc : c ≠ 0) :
    (c / ((‖c‖ : ℝ) : ℂ)) * (starRingEnd ℂ) (c / ((‖c‖ : ℝ) : ℂ)) = 1 := by
  rw [Complex.mul_conj, Complex.normSq_eq_norm_sq]
  have hn : 0 < ‖c‖ := norm_pos_iff.mpr hc
  simp only [norm_div, Complex.norm_real, Real.norm_eq_abs, abs_of_pos hn, div_self hn.ne']
  norm_num

theorem outer_smul {D : Nat} (a : ℂ) (z : Fin D → ℂ) (d e : Fin D) :
    outer (α := ℝ) (fun d => a * z d) d e = (a * (starRingEnd ℂ) a) * outer (α := ℝ) z d e := by
  unfold outer
  simp only [cx_conj, map_mul]; ring

theorem outer_phase {D : Nat} {u : ℂ} (hu : ‖u‖ = 1) (z : Fin D → ℂ) :
    outer (α := ℝ) (fun d => u * z d) = outer (α := ℝ) z := by
  funext d e
  rw [outer_smul, Complex.mul_conj, Complex.normSq_eq_norm_sq, hu]; simp

theorem outer_normalizeWhere_smul {D : Nat} (tiny : ℝ) {c : ℂ} (hc : c ≠ 0) (y : Fin D → ℂ) (hy : ∃ d, y d ≠ 0) :
    outer (α := ℝ) (normalizeWhere (α := ℝ) tiny fun d => c * y d) = outer (α := ℝ) (normalizeWhere (α := ℝ) tiny y) := by
  have h : normalizeWhere (α := ℝ) tiny (fun d => c * y d)
      = fun d => (c / ((‖c‖ : ℝ) : ℂ)) * normalizeWhere (α := ℝ) tiny y d :=
    funext fun d => normalizeWhere_smul tiny hc y hy d
  rw [h]; funext d e
  rw [outer_smul, unit_mul_conj hc, one_mul]

theorem outer_normalizeMax_smul {D : Nat} (tiny : ℝ) {c : ℂ} (hc : c ≠ 0) (y : Fin D → ℂ)
    (h1 : tiny ≤ norm2 (α := ℝ) y) (h2 : tiny ≤ norm2 (α := ℝ) (fun d => c * y d)) :
    outer (α := ℝ) (normalizeMax (α := ℝ) tiny fun d => c * y d) = outer (α := ℝ) (normalizeMax (α := ℝ) tiny y) := by
  have h : normalizeMax (α := ℝ) tiny (fun d => c * y d)
      = fun d => (c / ((‖c‖ : ℝ) : ℂ)) * normalizeMax (α := ℝ) tiny y d :=
    funext fun d => normalizeMax_smul tiny hc y h1 h2 d
  rw [h]; funext d e
  rw [outer_smul, unit_mul_conj hc, one_mul]

theorem quadForm_eq_outer {D : Nat} (B : Fin D → Fin D → ℂ) (z : Fin D → ℂ) :
    quadForm (α := ℝ) B z = ∑ d, ∑ e, B d e * outer (α := ℝ) z e d := by
  unfold quadForm outer
  simp only [vsum_eq_sum]
  refine Finset.sum_congr rfl fun d _ => Finset.sum_congr rfl fun e _ => ?_
  ring

theorem absSq_eq_re_mul_conj (x : ℂ) : absSq (α := ℝ) x = (x * (starRingEnd ℂ) x).re := by
  rw [absSq_eq_normSq, Complex.mul_conj]; simp

theorem innerAbsSq_eq_outer {D : Nat} (w z : Fin D → ℂ) :
    innerAbsSq (α := ℝ) w z = (∑ d, ∑ e, (starRingEnd ℂ) (w d) * w e * outer (α := ℝ) z d e).re := by
  unfold innerAbsSq outer
  rw [absSq_eq_re_mul_conj]
  simp only [vsum_eq_sum, cx_conj, map_sum, map_mul, Complex.conj_conj, Finset.sum_mul, Finset.mul_sum]
  congr 1
  rw [Finset.sum_comm]
  refine Finset.sum_congr rfl fun d _ => Finset.sum_congr rfl fun e _ => ?_
  ring

theorem scatter_eq_outer {D N : Nat} (s : Fin N → ℝ) (z : Fin N → Fin D → ℂ) (d e : Fin D) :
    scatter (α := ℝ) s z d e = ∑ n, (s n : ℂ) * outer (α := ℝ) (z n) d e := by
  unfold scatter outer
  rw [vsum_eq_sum]; rfl

/-! positive scaling of real vectors (vMF) -/

theorem normalizeMaxR_pos_smul {D : Nat} (tiny : ℝ) {c : ℝ} (hc : 0 < c) (y : Fin D → ℝ)
    (h1 : tiny ≤ Real.sqrt (∑ d, y d * y d)) (h2 : tiny ≤ Real.sqrt (∑ d, (c * y d) * (c * y d))) (ht : 0 < tiny) :
    normalizeMaxR tiny (fun d => c * y d) = normalizeMaxR tiny y := by
  funext d
  unfold normalizeMaxR
  simp only [vsum_eq_sum, transc_sqrt_real]
  rw [max_eq_left h1, max_eq_left h2]
  have hs : Real.sqrt (∑ d, (c * y d) * (c * y d)) = c * Real.sqrt (∑ d, y d * y d) := by
    have : ∑ d, (c * y d) * (c * y d) = c ^ 2 * ∑ d, y d * y d := by
      rw [Finset.mul_sum]; exact Finset.sum_congr rfl fun d _ => by ring
    rw [this, Real.sqrt_mul (sq_nonneg c), Real.sqrt_sq hc.le]
  rw [hs]
  have hn : 0 < Real.sqrt (∑ d, y d * y d) := lt_of_lt_of_le ht h1
  field_simp

/-! ### NaN-freedom in a special-values model (C01, logical core of the floating-point clause)

The generic `Posterior.affiliation` is instantiated once more, at `SV`: exact reals plus `+∞`, `-∞`, `NaN` with the
IEEE rules for the special values (`∞ - ∞`, `0 · ∞`, `0/0`, `∞/∞` are NaN; comparisons with NaN are false; `max` is
Lean's `Float` `max`).  No rounding and no overflow threshold: what is captured is exactly where NaNs can be *created*. -/

/-- IEEE special values without rounding and without an overflow threshold: exact reals plus `±∞` and `NaN`. -/
inductive SV
  | fin (r : ℝ)
  | pinf
  | ninf
  | nan

namespace SV
open Classical in
noncomputable def add : SV → SV → SV
  | nan, _ => nan
  | _, nan => nan
  | fin a, fin b => fin (a + b)
  | pinf, ninf => nan
  | ninf, pinf => nan
  | pinf, _ => pinf
  | _, pinf => pinf
  | ninf, _ => ninf
  | _, ninf => ninf

def neg : SV → SV
  | fin a => fin (-a)
  | pinf => ninf
  | ninf => pinf
  | nan => nan

open Classical in
noncomputable def mul : SV → SV → SV
  | nan, _ => nan
  | _, nan => nan
  | fin a, fin b => fin (a * b)
  | fin a, pinf => if a = 0 then nan else if 0 < a then pinf else ninf
  | fin a, ninf => if a = 0 then nan else if 0 < a then ninf else pinf
  | pinf, fin a => if a = 0 then nan else if 0 < a then pinf else ninf
  | ninf, fin a => if a = 0 then nan else if 0 < a then ninf else pinf
  | pinf, pinf => pinf
  | ninf, ninf => pinf
  | pinf, ninf => ninf
  | ninf, pinf => ninf

open Classical in
noncomputable def div : SV → SV → SV
  | nan, _ => nan
  | _, nan => nan
  | fin a, fin b => if b = 0 then (if a = 0 then nan else if 0 < a then pinf else ninf) else fin (a / b)
  | fin _, pinf => fin 0
  | fin _, ninf => fin 0
  | pinf, fin b => if 0 ≤ b then pinf else ninf
  | ninf, fin b => if 0 ≤ b then ninf else pinf
  | pinf, pinf => nan
  | pinf, ninf => nan
  | ninf, pinf => nan
  | ninf, ninf => nan

open Classical in
/-- `x ≤ y` as IEEE compares (false whenever a NaN is involved) -/
noncomputable def le : SV → SV → Bool
  | nan, _ => false
  | _, nan => false
  | fin a, fin b => decide (a ≤ b)
  | ninf, _ => true
  | _, pinf => true
  | _, _ => false

/-- Lean's `Float` `max` / `min`: `if x ≤ y then y else x` / `if x ≤ y then x else y` -/
noncomputable def max (x y : SV) : SV := if le x y then y else x
noncomputable def min (x y : SV) : SV := if le x y then x else y

noncomputable def exp : SV → SV
  | fin a => fin (Real.exp a)
  | pinf => pinf
  | ninf => fin 0
  | nan => nan

noncomputable instance : Add SV := ⟨add⟩
noncomputable instance : Sub SV := ⟨fun a b => add a (neg b)⟩
noncomputable instance : Mul SV := ⟨mul⟩
noncomputable instance : Div SV := ⟨div⟩
noncomputable instance : Max SV := ⟨max⟩
noncomputable instance : Min SV := ⟨min⟩
instance : OfNat SV 0 := ⟨fin 0⟩
instance : OfNat SV 1 := ⟨fin 1⟩
noncomputable instance : Transc SV := ⟨exp, fun _ => nan, fun _ => nan⟩

@[simp] theorem fin_add (a b : ℝ) : (fin a + fin b : SV) = fin (a + b) := rfl
@[simp] theorem fin_mul (a b : ℝ) : (fin a * fin b : SV) = fin (a * b) := rfl
@[simp] theorem fin_sub (a b : ℝ) : (fin a - fin b : SV) = fin (a - b) := by
  show add (fin a) (neg (fin b)) = _; simp [neg, add, sub_eq_add_neg]
@[simp] theorem ninf_sub_fin (b : ℝ) : (ninf - fin b : SV) = ninf := rfl
@[simp] theorem exp_fin (a : ℝ) : (Transc.exp (fin a) : SV) = fin (Real.exp a) := rfl
@[simp] theorem exp_ninf : (Transc.exp ninf : SV) = fin 0 := rfl
@[simp] theorem zero_eq : (0 : SV) = fin 0 := rfl
@[simp] theorem one_eq : (1 : SV) = fin 1 := rfl
theorem fin_div {a b : ℝ} (hb : b ≠ 0) : (fin a / fin b : SV) = fin (a / b) := by
  show div (fin a) (fin b) = _; simp [div, hb]
theorem max_fin (a b : ℝ) : (Max.max (fin a) (fin b) : SV) = fin (Max.max a b) := by
  show max (fin a) (fin b) = _
  unfold max le
  by_cases h : a ≤ b <;> simp [h, le_of_not_ge]
theorem max_ninf_fin (b : ℝ) : (Max.max ninf (fin b) : SV) = fin b := by
  show max ninf (fin b) = _; simp [max, le]
theorem max_fin_ninf (a : ℝ) : (Max.max (fin a) ninf : SV) = fin a := by
  show max (fin a) ninf = _; simp [max, le]
theorem max_ninf_ninf : (Max.max ninf ninf : SV) = ninf := by
  show max ninf ninf = _; simp [max, le]

theorem add_nan (x : SV) : (x + nan : SV) = nan := by
  show add x nan = nan; cases x <;> rfl
theorem nan_mul (x : SV) : (nan * x : SV) = nan := by
  show mul nan x = nan; cases x <;> rfl
theorem nan_div (x : SV) : (nan / x : SV) = nan := by
  show div nan x = nan; cases x <;> rfl
theorem ninf_sub_ninf : (ninf - ninf : SV) = nan := rfl
theorem exp_nan : (Transc.exp nan : SV) = nan := rfl
theorem max_nan (x : SV) : (Max.max nan x : SV) = nan := by
  show max nan x = nan; simp [max, le]

/-- entries that are finite or `-∞` (what a log-pdf array may contain) -/
def Good (x : SV) : Prop := x = ninf ∨ ∃ r, x = fin r

theorem vsum_fin {n : Nat} (x : Fin n → ℝ) : vsum (fun k => fin (x k)) = fin (∑ k, x k) := by
  unfold vsum
  induction n with
  | zero => simp [Fin.foldl_zero]
  | succ n ih =>
    rw [Fin.foldl_succ_last, Fin.sum_univ_castSucc]
    have := ih (fun i => x i.castSucc)
    simp only [this, fin_add]

theorem vsum_last_nan {n : Nat} (f : Fin (n+1) → SV) (h : f (Fin.last n) = nan) : vsum f = nan := by
  unfold vsum
  rw [Fin.foldl_succ_last, h, add_nan]

/-- `np.amax` over finite / `-∞` entries: `-∞` iff all entries are `-∞`, otherwise the largest finite entry -/
theorem vmax_good {n : Nat} (f : Fin (n+1) → SV) (hf : ∀ k, Good (f k)) :
    (vmax f = ninf ∧ ∀ k, f k = ninf) ∨ ∃ m, vmax f = fin m ∧ (∃ k, f k = fin m) ∧ ∀ k r, f k = fin r → r ≤ m := by
  induction n with
  | zero =>
    have h0 : vmax f = f 0 := by simp [vmax, Fin.foldl_zero]
    rcases hf 0 with h | ⟨r, h⟩
    · left; refine ⟨by rw [h0, h], fun k => ?_⟩
      have : k = 0 := by omega
      rw [this, h]
    · right; refine ⟨r, by rw [h0, h], ⟨0, h⟩, fun k r' hk => ?_⟩
      have : k = 0 := by omega
      rw [this, h] at hk; cases hk; exact le_rfl
  | succ n ih =>
    have hstep : vmax f = Max.max (vmax fun i => f i.castSucc) (f (Fin.last (n+1))) := by
      unfold vmax
      rw [Fin.foldl_succ_last]
      simp only [Fin.succ_castSucc, Fin.castSucc_zero, Fin.succ_last]
    rcases ih (fun i => f i.castSucc) (fun k => hf _) with ⟨h1, h2⟩ | ⟨m, h1, ⟨k1, hk1⟩, h3⟩
    · rcases hf (Fin.last (n+1)) with hl | ⟨r, hl⟩
      · left; refine ⟨by rw [hstep, h1, hl, max_ninf_ninf], fun k => ?_⟩
        rcases Fin.eq_castSucc_or_eq_last k with ⟨j, rfl⟩ | rfl
        · exact h2 j
        · exact hl
      · right; refine ⟨r, by rw [hstep, h1, hl, max_ninf_fin], ⟨_, hl⟩, fun k r' hk => ?_⟩
        rcases Fin.eq_castSucc_or_eq_last k with ⟨j, rfl⟩ | rfl
        · rw [h2 j] at hk; cases hk
        · rw [hl] at hk; cases hk; exact le_rfl
    · rcases hf (Fin.last (n+1)) with hl | ⟨r, hl⟩
      · right; refine ⟨m, by rw [hstep, h1, hl, max_fin_ninf], ⟨k1.castSucc, hk1⟩, fun k r' hk => ?_⟩
        rcases Fin.eq_castSucc_or_eq_last k with ⟨j, rfl⟩ | rfl
        · exact h3 j r' hk
        · rw [hl] at hk; cases hk
      · right; refine ⟨Max.max m r, by rw [hstep, h1, hl, max_fin], ?_, fun k r' hk => ?_⟩
        · rcases max_cases m r with ⟨he, _⟩ | ⟨he, _⟩
          · exact ⟨k1.castSucc, by rw [he]; exact hk1⟩
          · exact ⟨Fin.last (n+1), by rw [he]; exact hl⟩
        · rcases Fin.eq_castSucc_or_eq_last k with ⟨j, rfl⟩ | rfl
          · exact le_trans (h3 j r' hk) (le_max_left _ _)
          · rw [hl] at hk; cases hk; exact le_max_right _ _

theorem maskVal_sv (b : Bool) : (maskVal b : SV) = fin (if b then 1 else 0) := by
  unfold maskVal; cases b <;> rfl

/-- the real value of `exp (lp k - max)` in the special-values model -/
noncomputable def expShift (x : SV) (m : ℝ) : ℝ :=
  match x with
  | fin r => Real.exp (r - m)
  | _ => 0

theorem exp_sub_good {x : SV} (hx : Good x) (m : ℝ) : (Transc.exp (x - fin m) : SV) = fin (expShift x m) := by
  rcases hx with h | ⟨r, h⟩ <;> subst h <;> simp [expShift]

theorem expShift_nonneg (x : SV) (m : ℝ) : 0 ≤ expShift x m := by
  unfold expShift; split
  · exact (Real.exp_pos _).le
  · exact le_rfl

/-- **no NaN in the special-values model**: finite non-negative weights, `tiny > 0`, every log-pdf finite or `-∞`
and at least one finite ⇒ every posterior is a finite real in `[0, 1]` (with or without a mask).  The value is
`x_k / max(Σ x, tiny)` with `x_k = exp(lp_k - max) · w_k · mask_k`, the real-arithmetic formula of the theorems above. -/
theorem affiliation_finite {K : Nat} {t : ℝ} (ht : 0 < t) (wr : Fin (K+1) → ℝ) (hw : ∀ k, 0 ≤ wr k)
    (lp : Fin (K+1) → SV) (hlp : ∀ k, Good (lp k)) (hfin : ∃ k r, lp k = fin r)
    (mask : Option (Fin (K+1) → Bool)) (k : Fin (K+1)) :
    ∃ r : ℝ, Posterior.affiliation (fin t) none (fun k => fin (wr k)) lp mask k = fin r ∧ 0 ≤ r ∧ r ≤ 1 := by
  rcases vmax_good lp hlp with ⟨_, hall⟩ | ⟨m, hm, _, _⟩
  · obtain ⟨k0, r0, h0⟩ := hfin
    rw [hall k0] at h0; cases h0
  · set x : Fin (K+1) → ℝ := fun k => expShift (lp k) m * wr k * mfac mask k with hx
    have hx0 : ∀ k, 0 ≤ x k := fun k =>
      mul_nonneg (mul_nonneg (expShift_nonneg _ _) (hw k)) (mfac_nonneg mask k)
    have hu : ∀ k, unnorm (fun k => fin (wr k)) lp mask k = fin (x k) := by
      intro k
      unfold unnorm applyMask
      rw [hm]
      cases mask with
      | none => simp only [exp_sub_good (hlp k), fin_mul, hx, mfac, mul_one]
      | some msk =>
        simp only [exp_sub_good (hlp k), fin_mul, maskVal_sv, hx, mfac]
    have hden : denominator (fin t) (fun k => fin (wr k)) lp mask = fin (Max.max (∑ j, x j) t) := by
      unfold denominator
      have : unnorm (fun k => fin (wr k)) lp mask = fun k => fin (x k) := funext hu
      rw [this, vsum_fin, max_fin]
    have hpos : 0 < Max.max (∑ j, x j) t := lt_of_lt_of_le ht (le_max_right _ _)
    refine ⟨x k / Max.max (∑ j, x j) t, ?_, div_nonneg (hx0 k) hpos.le, ?_⟩
    · unfold Posterior.affiliation clip
      simp only [hu, hden]
      exact fin_div hpos.ne'
    · rw [div_le_one hpos]
      exact le_trans (Finset.single_le_sum (fun j _ => hx0 j) (Finset.mem_univ k)) (le_max_left _ _)

/-- … and the hypothesis "at least one finite log-pdf" is forced: when the log-pdf of EVERY class is `-∞`
the routine computes `-∞ - (-∞)` and every posterior of that observation is NaN (known finding of C01) -/
theorem affiliation_nan_of_all_ninf {K : Nat} (tiny : SV) (w : Fin (K+1) → SV) (lp : Fin (K+1) → SV)
    (hall : ∀ k, lp k = ninf) (k : Fin (K+1)) :
    Posterior.affiliation tiny none w lp none k = nan := by
  have hmax : vmax lp = ninf := by
    rcases vmax_good lp (fun k => Or.inl (hall k)) with ⟨h, _⟩ | ⟨m, _, ⟨k1, hk1⟩, _⟩
    · exact h
    · rw [hall k1] at hk1; cases hk1
  have hu : ∀ k, unnorm w lp none k = nan := by
    intro k
    unfold unnorm applyMask
    simp only [hmax, hall k, ninf_sub_ninf, exp_nan, nan_mul]
  unfold Posterior.affiliation clip
  simp only [hu, nan_div]

end SV

end PbBss.PosteriorProof

import PbBss.Proofs.FixedPointRank
import Mathlib.Analysis.InnerProductSpace.PiL2
/-! M-step mechanisms behind C03 in the noise-free orthonormal scene: the weighted scatter of observations
`z n = u n • a (c n)` is `Σ_j m_j a_j a_jᴴ`, its top eigenvector under mass dominance is `a_k` up to a unit phase,
the Gaussian mean of a class is the mass-weighted combination of the prototypes. -/
open PbBss PbBss.Em Finset

namespace PbBss.FixedPoint

local notation "conj" => starRingEnd ℂ

/-- weight mass that sits on the observations of true class `j` -/
noncomputable def classMass {K N : Nat} (c : Fin N → Fin K) (w : Fin N → ℝ) (j : Fin K) : ℝ :=
  ∑ n, if c n = j then w n else 0

theorem classMass_sum {K N : Nat} (c : Fin N → Fin K) (w : Fin N → ℝ) : ∑ j, classMass c w j = ∑ n, w n := by
  unfold classMass
  rw [Finset.sum_comm]
  simp

theorem classMass_nonneg {K N : Nat} (c : Fin N → Fin K) (w : Fin N → ℝ) (hw : ∀ n, 0 ≤ w n) (j : Fin K) :
    0 ≤ classMass c w j :=
  Finset.sum_nonneg fun n _ => by split <;> simp [hw n]

/-- the hard (one-hot) start on the true partition -/
def hardStart {K N : Nat} (c : Fin N → Fin K) : Fin K → Fin N → ℝ := fun k n => if c n = k then 1 else 0

theorem classMass_hard {K N : Nat} (c : Fin N → Fin K) (s : Fin N → ℝ) (k j : Fin K) :
    classMass c (fun n => hardStart c k n * s n) j = if j = k then ∑ n, hardStart c k n * s n else 0 := by
  unfold classMass hardStart
  split
  · next h =>
    subst h
    refine Finset.sum_congr rfl fun n _ => ?_
    by_cases h1 : c n = j <;> simp [h1]
  · next h =>
    refine Finset.sum_eq_zero fun n _ => ?_
    by_cases h1 : c n = j
    · simp [h1, h]
    · simp [h1]

/-- fiberwise regrouping of a sum over observations by their true class -/
theorem sum_by_class {M : Type} [AddCommMonoid M] {K N : Nat} (c : Fin N → Fin K) (f : Fin N → Fin K → M) :
    ∑ n, f n (c n) = ∑ j, ∑ n, if c n = j then f n j else 0 := by
  rw [Finset.sum_comm]
  refine Finset.sum_congr rfl fun n _ => ?_
  rw [Finset.sum_eq_single (c n)]
  · simp
  · intro j _ hj; simp [Ne.symm hj]
  · simp

theorem watsonScatter_eq {N D : Nat} (w : Fin N → ℝ) (z : Fin N → Fin D → ℂ) (d e : Fin D) :
    rd2 (watsonScatter w z) d e = (∑ n, (w n : ℂ) * (z n d * conj (z n e))) / ((∑ n, w n : ℝ) : ℂ) := by
  simp [watsonScatter, outerSum, vsum_eq_sum]

/-- the numerator of every weighted scatter in the scene: phases cancel, observations regroup by class -/
theorem outer_scene {K N D : Nat} (a : Fin K → Fin D → ℂ) (c : Fin N → Fin K) (u : Fin N → ℂ)
    (hu : ∀ n, Complex.normSq (u n) = 1) (z : Fin N → Fin D → ℂ) (hz : ∀ n d, z n d = u n * a (c n) d)
    (w : Fin N → ℝ) (d e : Fin D) :
    ∑ n, (w n : ℂ) * (z n d * conj (z n e)) = ∑ j, (classMass c w j : ℂ) * (a j d * conj (a j e)) := by
  have h1 : ∀ n, (w n : ℂ) * (z n d * conj (z n e)) = (w n : ℂ) * (a (c n) d * conj (a (c n) e)) := by
    intro n
    rw [hz, hz, map_mul]
    have : u n * conj (u n) = 1 := by rw [Complex.mul_conj, hu]; simp
    calc (w n : ℂ) * (u n * a (c n) d * (conj (u n) * conj (a (c n) e)))
        = (w n : ℂ) * ((u n * conj (u n)) * (a (c n) d * conj (a (c n) e))) := by ring
      _ = _ := by rw [this, one_mul]
  simp only [h1]
  rw [sum_by_class c (fun n j => (w n : ℂ) * (a j d * conj (a j e)))]
  refine Finset.sum_congr rfl fun j _ => ?_
  unfold classMass
  rw [Complex.ofReal_sum, Finset.sum_mul]
  refine Finset.sum_congr rfl fun n _ => ?_
  split <;> simp

/-- **scatter of the scene**: `Σ_n w_n z_n z_nᴴ / Σ_n w_n = Σ_j m_j a_j a_jᴴ`, `m_j` = share of the weight on class `j`
(no orthogonality needed; the per-frame phases / gains have cancelled) -/
theorem watsonScatter_scene {K N D : Nat} (a : Fin K → Fin D → ℂ) (c : Fin N → Fin K) (u : Fin N → ℂ)
    (hu : ∀ n, Complex.normSq (u n) = 1) (z : Fin N → Fin D → ℂ) (hz : ∀ n d, z n d = u n * a (c n) d)
    (w : Fin N → ℝ) (d e : Fin D) :
    rd2 (watsonScatter w z) d e
      = ∑ j, ((classMass c w j / ∑ n, w n : ℝ) : ℂ) * (a j d * conj (a j e)) := by
  rw [watsonScatter_eq, outer_scene a c u hu z hz, Finset.sum_div]
  refine Finset.sum_congr rfl fun j _ => ?_
  rw [Complex.ofReal_div]; ring

/-! ### spectral facts about `S = Σ_j m_j a_j a_jᴴ` with orthonormal `a` -/
section spectral
variable {K D : Nat} {a : Fin K → Fin D → ℂ} {m : Fin K → ℝ} {S : Fin D → Fin D → ℂ}

/-- coefficient of `w` on prototype `j` -/
noncomputable def coef (a : Fin K → Fin D → ℂ) (w : Fin D → ℂ) (j : Fin K) : ℂ := ∑ e, conj (a j e) * w e

theorem S_mulVec (hS : ∀ d e, S d e = ∑ j, (m j : ℂ) * (a j d * conj (a j e))) (w : Fin D → ℂ) (d : Fin D) :
    ∑ e, S d e * w e = ∑ j, (m j : ℂ) * coef a w j * a j d := by
  simp only [hS, Finset.sum_mul]
  rw [Finset.sum_comm]
  refine Finset.sum_congr rfl fun j _ => ?_
  unfold coef
  rw [Finset.mul_sum, Finset.sum_mul]
  refine Finset.sum_congr rfl fun e _ => ?_
  ring

theorem coef_proto (ha : OrthoProto a) (k j : Fin K) : coef a (a k) j = if k = j then 1 else 0 := by
  unfold coef
  rw [← ha k j]
  exact Finset.sum_congr rfl fun e _ => mul_comm _ _

/-- every prototype is an eigenvector: `S a_k = m_k a_k` -/
theorem proto_eigen (ha : OrthoProto a) (hS : ∀ d e, S d e = ∑ j, (m j : ℂ) * (a j d * conj (a j e)))
    (k : Fin K) (d : Fin D) : ∑ e, S d e * a k e = (m k : ℂ) * a k d := by
  rw [S_mulVec hS]
  simp only [coef_proto ha]
  rw [Finset.sum_eq_single k]
  · simp
  · intro j _ hj; simp [Ne.symm hj]
  · simp

/-- Rayleigh quotient numerator: `wᴴ S w = Σ_j m_j |⟨a_j, w⟩|²` -/
theorem rayleigh_eq (hS : ∀ d e, S d e = ∑ j, (m j : ℂ) * (a j d * conj (a j e))) (w : Fin D → ℂ) :
    ∑ d, ∑ e, conj (w d) * S d e * w e = ((∑ j, m j * Complex.normSq (coef a w j) : ℝ) : ℂ) := by
  have : ∀ d, ∑ e, conj (w d) * S d e * w e = conj (w d) * ∑ j, (m j : ℂ) * coef a w j * a j d := by
    intro d
    rw [← S_mulVec hS, Finset.mul_sum]
    exact Finset.sum_congr rfl fun e _ => by ring
  simp only [this, Finset.mul_sum]
  rw [Finset.sum_comm, Complex.ofReal_sum]
  refine Finset.sum_congr rfl fun j _ => ?_
  have hc : ∑ d, conj (w d) * a j d = conj (coef a w j) := by
    unfold coef
    rw [map_sum]
    refine Finset.sum_congr rfl fun d _ => ?_
    rw [map_mul, Complex.conj_conj]; ring
  calc ∑ d, conj (w d) * ((m j : ℂ) * coef a w j * a j d)
      = (m j : ℂ) * coef a w j * ∑ d, conj (w d) * a j d := by
        rw [Finset.mul_sum]; exact Finset.sum_congr rfl fun d _ => by ring
    _ = _ := by
        rw [hc, Complex.ofReal_mul, Complex.normSq_eq_conj_mul_self]; ring

/-- Bessel's inequality for the orthonormal prototypes -/
theorem bessel (ha : OrthoProto a) (w : Fin D → ℂ) :
    ∑ j, Complex.normSq (coef a w j) ≤ ∑ d, Complex.normSq (w d) := by
  let A : Fin K → EuclideanSpace ℂ (Fin D) := fun j => WithLp.toLp 2 (a j)
  let W : EuclideanSpace ℂ (Fin D) := WithLp.toLp 2 w
  have hA : Orthonormal ℂ A := by
    rw [orthonormal_iff_ite]
    intro i j
    rw [EuclideanSpace.inner_eq_star_dotProduct]
    have := ha j i
    simp only [A, dotProduct, Pi.star_apply]
    rw [show (∑ d, a j d * star (a i d)) = ∑ d, a j d * conj (a i d) from rfl, this]
    by_cases h : i = j <;> simp [h, eq_comm]
  have hB := hA.sum_inner_products_le W (s := Finset.univ)
  have e1 : ∀ j, ‖inner ℂ (A j) W‖ ^ 2 = Complex.normSq (coef a w j) := by
    intro j
    rw [EuclideanSpace.inner_eq_star_dotProduct, Complex.sq_norm]
    congr 1
    simp only [A, W, dotProduct, Pi.star_apply, coef]
    exact Finset.sum_congr rfl fun d _ => mul_comm _ _
  have e2 : ‖W‖ ^ 2 = ∑ d, Complex.normSq (w d) := by
    rw [EuclideanSpace.norm_sq_eq]
    exact Finset.sum_congr rfl fun d _ => Complex.sq_norm _
  simpa only [e1, e2] using hB

end spectral

/-- contract of `get_pca` (`np.linalg.eigh`, last column / last eigenvalue): a unit eigenvector whose eigenvalue is
the maximum of the Rayleigh quotient -/
structure PcaContract {D : Nat} (S : Tab D (Tab D ℂ)) (p : Tab D ℂ × ℝ) : Prop where
  unit : ∑ d, Complex.normSq (rd p.1 d) = 1
  eig : ∀ d, ∑ e, rd2 S d e * rd p.1 e = (p.2 : ℂ) * rd p.1 d
  top : ∀ v : Fin D → ℂ, ∑ d, Complex.normSq (v d) = 1 → (∑ d, ∑ e, conj (v d) * rd2 S d e * v e).re ≤ p.2

/-- **top eigenvector under mass dominance**: if `S = Σ_j m_j a_j a_jᴴ` with orthonormal prototypes and `m_k` is
positive and strictly the largest, any pair returned under the PCA contract is `(φ•a_k, m_k)` with `|φ| = 1`. -/
theorem top_eigvec_scene {K D : Nat} {a : Fin K → Fin D → ℂ} (ha : OrthoProto a) (m : Fin K → ℝ)
    (S : Tab D (Tab D ℂ)) (hS : ∀ d e, rd2 S d e = ∑ j, (m j : ℂ) * (a j d * conj (a j e)))
    (k : Fin K) (hk : 0 < m k) (hdom : ∀ j, j ≠ k → m j < m k)
    (p : Tab D ℂ × ℝ) (hp : PcaContract S p) :
    p.2 = m k ∧ Complex.normSq (coef a (rd p.1) k) = 1 ∧ (∀ j, j ≠ k → coef a (rd p.1) j = 0)
      ∧ ∀ d, rd p.1 d = coef a (rd p.1) k * a k d := by
  set w := rd p.1 with hw
  set x : Fin K → ℝ := fun j => Complex.normSq (coef a w j) with hx
  have hx0 : ∀ j, 0 ≤ x j := fun j => Complex.normSq_nonneg _
  have hxs : ∑ j, x j ≤ 1 := by
    have := bessel ha w
    rwa [hp.unit] at this
  -- λ = wᴴSw = Σ m_j x_j
  have hlam : p.2 = ∑ j, m j * x j := by
    have h1 : ∑ d, ∑ e, conj (w d) * rd2 S d e * w e = ((p.2 : ℝ) : ℂ) := by
      have : ∀ d, ∑ e, conj (w d) * rd2 S d e * w e = conj (w d) * ((p.2 : ℂ) * w d) := by
        intro d
        rw [← hp.eig d, Finset.mul_sum]
        exact Finset.sum_congr rfl fun e _ => by ring
      simp only [this]
      have h2 : ∀ d, conj (w d) * ((p.2 : ℂ) * w d) = (p.2 : ℂ) * ((Complex.normSq (w d) : ℝ) : ℂ) := by
        intro d; rw [Complex.normSq_eq_conj_mul_self]; ring
      have hu : ∑ d, Complex.normSq (w d) = 1 := hp.unit
      simp only [h2, ← Finset.mul_sum]
      rw [← Complex.ofReal_sum, hu]
      simp
    rw [rayleigh_eq (m := m) (a := a) hS w] at h1
    exact_mod_cast h1.symm
  -- m_k ≤ λ
  have hge : m k ≤ p.2 := by
    have hunit : ∑ d, Complex.normSq (a k d) = 1 := scene_norm_sq ha k 1 (by simp) (a k) (by simp)
    have := hp.top (a k) hunit
    rw [rayleigh_eq (m := m) (a := a) hS (a k), Complex.ofReal_re] at this
    simp only [coef_proto ha] at this
    rw [Finset.sum_eq_single k] at this
    · simpa using this
    · intro j _ hj; simp [Ne.symm hj]
    · simp
  -- the off-class coefficients vanish
  have hsplit : ∑ j, m j * x j = m k * ∑ j, x j - ∑ j, (m k - m j) * x j := by
    rw [Finset.mul_sum, ← Finset.sum_sub_distrib]
    exact Finset.sum_congr rfl fun j _ => by ring
  have hnn : ∀ j ∈ (Finset.univ : Finset (Fin K)), 0 ≤ (m k - m j) * x j := by
    intro j _
    by_cases h : j = k
    · simp [h]
    · exact mul_nonneg (sub_nonneg.mpr (hdom j h).le) (hx0 j)
  have hle : ∑ j, (m k - m j) * x j ≤ 0 := by
    have : m k * ∑ j, x j ≤ m k := by nlinarith
    linarith
  have hzero : ∀ j, (m k - m j) * x j = 0 := by
    have := (Finset.sum_eq_zero_iff_of_nonneg hnn).mp (le_antisymm hle (Finset.sum_nonneg hnn))
    exact fun j => this j (Finset.mem_univ j)
  have hxj : ∀ j, j ≠ k → x j = 0 := by
    intro j hj
    rcases mul_eq_zero.mp (hzero j) with h | h
    · exact absurd (hdom j hj) (by linarith)
    · exact h
  have hsum1 : ∑ j, m j * x j = m k * x k := by
    rw [Finset.sum_eq_single k]
    · intro j _ hj; rw [hxj j hj, mul_zero]
    · simp
  have hxk_le : x k ≤ 1 := le_trans (Finset.single_le_sum (fun j _ => hx0 j) (Finset.mem_univ k)) hxs
  have hxk : x k = 1 := by
    have : m k ≤ m k * x k := by rw [← hsum1, ← hlam]; exact hge
    have : 1 ≤ x k := by
      by_contra hlt
      have hlt' : x k < 1 := not_le.mp hlt
      nlinarith
    linarith
  have hcoef0 : ∀ j, j ≠ k → coef a w j = 0 := fun j hj => Complex.normSq_eq_zero.mp (hxj j hj)
  have hlamk : p.2 = m k := by rw [hlam, hsum1, hxk, mul_one]
  refine ⟨hlamk, hxk, hcoef0, ?_⟩
  intro d
  have h := hp.eig d
  rw [S_mulVec (m := m) (a := a) hS, Finset.sum_eq_single k, hlamk] at h
  · have hmk : ((m k : ℝ) : ℂ) ≠ 0 := by exact_mod_cast hk.ne'
    have : (m k : ℂ) * (coef a w k * a k d) = (m k : ℂ) * w d := by rw [← h]; ring
    exact (mul_left_cancel₀ hmk this).symm
  · intro j _ hj; rw [hcoef0 j hj]; simp
  · simp

/-! ### Gaussian mean -/

theorem gaussMean_eq {N D : Nat} (tiny : ℝ) (w : Fin N → ℝ) (y : Fin N → Fin D → ℝ) (d : Fin D) :
    rd (gaussMean tiny w y) d = (∑ n, w n * y n d) / max (∑ n, w n) tiny := by
  simp [gaussMean, vsum_eq_sum]

/-- noise-free data `y n = μ (c n)`: the weighted mean is the mass-weighted combination of the class means -/
theorem gaussMean_scene {K N D : Nat} (tiny : ℝ) (μ : Fin K → Fin D → ℝ) (c : Fin N → Fin K)
    (y : Fin N → Fin D → ℝ) (hy : ∀ n d, y n d = μ (c n) d) (w : Fin N → ℝ) (hden : tiny ≤ ∑ n, w n) (d : Fin D) :
    rd (gaussMean tiny w y) d = ∑ j, classMass c w j / (∑ n, w n) * μ j d := by
  rw [gaussMean_eq, max_eq_left hden]
  simp only [hy]
  rw [sum_by_class c (fun n j => w n * μ j d), Finset.sum_div]
  refine Finset.sum_congr rfl fun j _ => ?_
  unfold classMass
  rw [div_mul_eq_mul_div, Finset.sum_mul]
  congr 1
  refine Finset.sum_congr rfl fun n _ => ?_
  split <;> simp

end PbBss.FixedPoint

import PbBss.Model.Em
import PbBss.Proofs.RealInst
import Mathlib.Analysis.SpecialFunctions.Sqrt
import Mathlib.Tactic
/-! # The von Mises-Fisher family of the executable EM model (`PbBss.Em.vmfFamily`)

E-step ranking (sign of the concentration) and the domain of the M-step output (unit mean direction, concentration inside
its clipping range) — the same definitions `driver_em` runs against `VMFMMTrainer` on C03's scenes. -/
open PbBss PbBss.Em Finset

namespace PbBss.EmVmf
variable {D N : Nat}

/-- two classes with the same concentration and log-normaliser: the log-density gap is `κ·(μ_cᵀy − μ_jᵀy)` -/
theorem vmfLogPdf_sub (θc θj : Vmf ℝ D) (y : Fin D → ℝ) (hκ : θc.kappa = θj.kappa) (hl : θc.logNorm = θj.logNorm) :
    vmfLogPdf θc y - vmfLogPdf θj y
      = θc.kappa * ((∑ d, y d * rd θc.mean d) - ∑ d, y d * rd θj.mean d) := by
  simp only [vmfLogPdf, vsum_eq_sum, ← hκ, ← hl]
  ring

/-- **vMF ranking**: with a common positive concentration the class whose mean direction has the larger inner product
with the observation has the larger log-density -/
theorem vmf_rank (θc θj : Vmf ℝ D) (y : Fin D → ℝ) (hκ : θc.kappa = θj.kappa) (hl : θc.logNorm = θj.logNorm)
    (hpos : 0 < θc.kappa) (h : ∑ d, y d * rd θj.mean d < ∑ d, y d * rd θc.mean d) :
    vmfLogPdf θj y < vmfLogPdf θc y := by
  have := vmfLogPdf_sub θc θj y hκ hl
  have hgap : 0 < θc.kappa * ((∑ d, y d * rd θc.mean d) - ∑ d, y d * rd θj.mean d) :=
    mul_pos hpos (by linarith)
  linarith

/-- with a NEGATIVE concentration the order flips (what a wrong sign would do) -/
theorem vmf_rank_neg (θc θj : Vmf ℝ D) (y : Fin D → ℝ) (hκ : θc.kappa = θj.kappa) (hl : θc.logNorm = θj.logNorm)
    (hneg : θc.kappa < 0) (h : ∑ d, y d * rd θj.mean d < ∑ d, y d * rd θc.mean d) :
    vmfLogPdf θc y < vmfLogPdf θj y := by
  have := vmfLogPdf_sub θc θj y hκ hl
  have hgap : θc.kappa * ((∑ d, y d * rd θc.mean d) - ∑ d, y d * rd θj.mean d) < 0 :=
    mul_neg_of_neg_of_pos hneg (by linarith)
  linarith

/-- the fitted concentration lies in its clipping range -/
theorem vmfMstep_kappa_range (lnorm : ℝ → ℝ) (lo hi tiny : ℝ) (w aux : Fin N → ℝ) (y : Fin N → Fin D → ℝ)
    (hlh : lo ≤ hi) :
    lo ≤ (vmfMstep lnorm lo hi tiny N w aux y).kappa ∧ (vmfMstep lnorm lo hi tiny N w aux y).kappa ≤ hi := by
  simp only [vmfMstep]
  split_ifs <;> constructor <;> linarith

/-- the fitted mean direction has unit length when the resultant is not floored (`tiny ≤ ‖r‖`) -/
theorem vmfMstep_mean_unit (lnorm : ℝ → ℝ) (lo hi tiny : ℝ) (w aux : Fin N → ℝ) (y : Fin N → Fin D → ℝ)
    (ht : 0 < tiny)
    (hr : tiny ≤ Real.sqrt (∑ d, (∑ n, w n * y n d) * (∑ n, w n * y n d))) :
    ∑ d, rd (vmfMstep lnorm lo hi tiny N w aux y).mean d * rd (vmfMstep lnorm lo hi tiny N w aux y).mean d = 1 := by
  simp only [vmfMstep, rd_tab, vsum_eq_sum, transc_sqrt_real]
  set S := ∑ d, (∑ n, w n * y n d) * (∑ n, w n * y n d) with hS
  have hpos : 0 < Real.sqrt S := lt_of_lt_of_le ht hr
  rw [max_eq_left hr]
  have hS0 : 0 ≤ S := Finset.sum_nonneg fun d _ => mul_self_nonneg _
  have hsq : Real.sqrt S * Real.sqrt S = S := Real.mul_self_sqrt hS0
  have : ∀ d, (∑ n, w n * y n d) / Real.sqrt S * ((∑ n, w n * y n d) / Real.sqrt S)
      = (∑ n, w n * y n d) * (∑ n, w n * y n d) / S := by
    intro d
    rw [div_mul_div_comm, hsq]
  simp only [this]
  rw [← Finset.sum_div, ← hS]
  exact div_self (by nlinarith [hpos])

/-- the log-normaliser stored with the fitted component is the one of its own concentration -/
theorem vmfMstep_logNorm (lnorm : ℝ → ℝ) (lo hi tiny : ℝ) (w aux : Fin N → ℝ) (y : Fin N → Fin D → ℝ) :
    (vmfMstep lnorm lo hi tiny N w aux y).logNorm = lnorm (vmfMstep lnorm lo hi tiny N w aux y).kappa := rfl

end PbBss.EmVmf

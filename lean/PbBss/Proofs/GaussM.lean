import PbBss.Proofs.TrLogDet
import Mathlib.Analysis.Matrix.Order
import Mathlib.LinearAlgebra.Matrix.NonsingularInverse

open Matrix
open scoped ComplexOrder MatrixOrder

variable {n : Type} [Fintype n] [DecidableEq n]

/-- crux of the full-covariance Gaussian / Tyler M-step optimality:
`n + log det S ≤ log det Σ + tr(Σ⁻¹ S)` for positive definite `Σ, S`. -/
theorem gaussian_mstep_crux (Sg S : Matrix n n ℂ) (hSg : Sg.PosDef) (hS : S.PosDef) :
    (Fintype.card n : ℝ) + Real.log (S.det).re ≤ Real.log (Sg.det).re + ((Sg⁻¹ * S).trace).re := by
  have hinv : Sg⁻¹.PosDef := hSg.inv
  obtain ⟨B, hB⟩ := CStarAlgebra.nonneg_iff_eq_star_mul_self.mp hinv.posSemidef.nonneg
  rw [star_eq_conjTranspose] at hB
  -- B is invertible
  have hdetinv : (Sg⁻¹).det ≠ 0 := (hinv.det_pos).ne'
  have hdetB : B.det ≠ 0 := by
    intro h; apply hdetinv; rw [hB, det_mul, h, mul_zero]
  have hBunit : IsUnit B := (Matrix.isUnit_iff_isUnit_det B).mpr (isUnit_iff_ne_zero.mpr hdetB)
  have hinj : Function.Injective B.vecMul := Matrix.vecMul_injective_of_isUnit hBunit
  have hA : (B * S * Bᴴ).PosDef := hS.mul_mul_conjTranspose_same hinj
  have key := card_add_log_det_le_trace (B * S * Bᴴ) hA
  have htr : (B * S * Bᴴ).trace = (Sg⁻¹ * S).trace := by
    rw [Matrix.trace_mul_cycle, hB]
  have hdet : (B * S * Bᴴ).det = (Sg⁻¹).det * S.det := by
    rw [det_mul, det_mul, hB, det_mul]; ring
  rw [htr, hdet] at key
  -- determinants are positive reals
  have hSgpos := hSg.det_pos
  have hSpos := hS.det_pos
  have hinvdet : (Sg⁻¹).det = (Sg.det)⁻¹ := by
    rw [Matrix.det_nonsing_inv, Ring.inverse_eq_inv']
  have ofRe : ∀ z : ℂ, 0 < z → z = ((z.re : ℝ) : ℂ) := by
    intro z hz
    have := (Complex.lt_def.mp hz).2
    apply Complex.ext <;> simp
    simpa using this.symm
  have h1 : ((Sg⁻¹).det * S.det).re = (Sg.det.re)⁻¹ * S.det.re := by
    rw [hinvdet, ofRe _ hSgpos, ofRe _ hSpos, ← Complex.ofReal_inv, ← Complex.ofReal_mul, Complex.ofReal_re]
    simp
  rw [h1] at key
  have p1 : 0 < Sg.det.re := (Complex.lt_def.mp hSgpos).1
  have p2 : 0 < S.det.re := (Complex.lt_def.mp hSpos).1
  rw [Real.log_mul (inv_pos.mpr p1).ne' p2.ne', Real.log_inv] at key
  linarith


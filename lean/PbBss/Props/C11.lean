import PbBss.Proofs.BfProof
/-! # C11 — MVDR / LCMV / Wiener constraints and optimality (work in progress: spike theorems) -/
open PbBss PbBss.Bf Matrix
open scoped ComplexOrder
namespace PbBss.C11
variable {D : Nat}

theorem mvdr_distortionless_core (Φ : Matrix (Fin D) (Fin D) ℂ) (hΦ : Φ.IsHermitian) (a u : Fin D → ℂ)
    (hu : Φ *ᵥ u = a) (hq : star a ⬝ᵥ u ≠ 0) :
    star ((star a ⬝ᵥ u)⁻¹ • u) ⬝ᵥ a = 1 := _root_.mvdr_distortionless Φ hΦ a u hu hq

end PbBss.C11

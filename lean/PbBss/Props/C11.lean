import PbBss.Proofs.BfProof
/-! # C11 — MVDR, LCMV and Wiener beamformers satisfy their constraints and optimality

Statements only (helper lemmas: `PbBss/Proofs/BfProof.lean`, spikes `Proofs/Mvdr.lean`).  Models:
`PbBss/Model/Bf.lean` at `α := ℝ`, `β := ℂ`, tied to `pb_bss/extraction/beamformer.py` by the correspondence run of
`harness/props/c11.py`.  The linear solver is an external: it enters through its contract `A x = b`
(`np.linalg.solve` / `stable_solve` on an invertible matrix).  `Matrix.of f` reads a model table `f` as a matrix. -/
open PbBss PbBss.Bf PbBss.BfProof Matrix
open scoped ComplexOrder
namespace PbBss.C11
variable {D K F n : Nat}

/-! ### MVDR -/
/-- `get_mvdr_vector` is distortionless: `wᴴ a = 1` for every steering vector `a ≠ 0` and positive definite noise
PSD, where `u` is what the solver returned for the symmetrised matrix (`0.5 (Φ + Φᴴ)`) -/
theorem mvdr_distortionless (Φ : Matrix (Fin D) (Fin D) ℂ) (hΦ : Φ.PosDef) (a u : Fin D → ℂ) (ha : a ≠ 0)
    (hu : Matrix.of (hermSym ℝ Φ) *ᵥ u = a) :
    star (mvdrFromSolve ℝ a u) ⬝ᵥ a = 1 := by
  rw [hermSym_of_isHermitian Φ hΦ.1] at hu
  rw [mvdrFromSolve_eq]
  exact _root_.mvdr_distortionless Φ hΦ.1 a u hu (den_ne_zero Φ a u hΦ ha hu)

/-- … and no distortionless vector has a smaller noise output power `vᴴ Φ v` -/
theorem mvdr_optimal (Φ : Matrix (Fin D) (Fin D) ℂ) (hΦ : Φ.PosDef) (a u : Fin D → ℂ) (ha : a ≠ 0)
    (hu : Matrix.of (hermSym ℝ Φ) *ᵥ u = a) (v : Fin D → ℂ) (hv : star v ⬝ᵥ a = 1) :
    (star (mvdrFromSolve ℝ a u) ⬝ᵥ Φ *ᵥ mvdrFromSolve ℝ a u).re ≤ (star v ⬝ᵥ Φ *ᵥ v).re := by
  rw [hermSym_of_isHermitian Φ hΦ.1] at hu
  rw [mvdrFromSolve_eq]
  exact _root_.mvdr_optimal Φ hΦ.posSemidef a u v hu (den_ne_zero Φ a u hΦ ha hu) hv

/-- the whole per-bin function, for any solver meeting the contract `A (solve A b) = b` on invertible `A` -/
theorem getMvdrVector_spec (solve : Matrix (Fin D) (Fin D) ℂ → (Fin D → ℂ) → Fin D → ℂ)
    (hsolve : ∀ (A : Matrix (Fin D) (Fin D) ℂ) b, IsUnit A → A *ᵥ solve A b = b)
    (Φ : Matrix (Fin D) (Fin D) ℂ) (hΦ : Φ.PosDef) (a : Fin D → ℂ) (ha : a ≠ 0) :
    star (getMvdrVector ℝ solve a Φ) ⬝ᵥ a = 1 ∧
    ∀ v : Fin D → ℂ, star v ⬝ᵥ a = 1 →
      (star (getMvdrVector ℝ solve a Φ) ⬝ᵥ Φ *ᵥ getMvdrVector ℝ solve a Φ).re ≤ (star v ⬝ᵥ Φ *ᵥ v).re := by
  have hu : Matrix.of (hermSym ℝ Φ) *ᵥ solve (hermSym ℝ Φ) a = a := by
    apply hsolve
    rw [hermSym_of_isHermitian Φ hΦ.1]; exact hΦ.isUnit
  exact ⟨mvdr_distortionless Φ hΦ a _ ha hu, fun v hv => mvdr_optimal Φ hΦ a _ ha hu v hv⟩

/-- stacks of bins and sources: every `(source, bin)` entry of the stacked result is distortionless for its own
steering vector and optimal for its bin's noise PSD -/
theorem mvdrStack_spec {K F : Nat} (solve : Matrix (Fin D) (Fin D) ℂ → (Fin D → ℂ) → Fin D → ℂ)
    (hsolve : ∀ (A : Matrix (Fin D) (Fin D) ℂ) b, IsUnit A → A *ᵥ solve A b = b)
    (atf : Fin K → Fin F → Fin D → ℂ) (noise : Fin F → Matrix (Fin D) (Fin D) ℂ)
    (hΦ : ∀ f, (noise f).PosDef) (ha : ∀ k f, atf k f ≠ 0) (k : Fin K) (f : Fin F) :
    star (mvdrStack ℝ solve atf noise k f) ⬝ᵥ atf k f = 1 ∧
    ∀ v : Fin D → ℂ, star v ⬝ᵥ atf k f = 1 →
      (star (mvdrStack ℝ solve atf noise k f) ⬝ᵥ noise f *ᵥ mvdrStack ℝ solve atf noise k f).re ≤
        (star v ⬝ᵥ noise f *ᵥ v).re :=
  getMvdrVector_spec solve hsolve (noise f) (hΦ f) (atf k f) (ha k f)

/-! ### LCMV -/
/-- every linear constraint is met: `wᴴ a_j = conj r_j` (`= r_j` for the real response vectors of the documented use)
as soon as `t` solves the Gram system `(Aᴴ U) t = r` -/
theorem lcmv_constraints (A U : Fin K → Fin D → ℂ) (r t : Fin K → ℂ)
    (ht : Matrix.of (lcmvGram ℝ A U) *ᵥ t = r) (j : Fin K) :
    star (lcmvCombine U t) ⬝ᵥ A j = star (r j) := BfProof.lcmv_constraints A U r t ht j

/-- the Gram matrix `Aᴴ Φ⁻¹ A` is positive definite (so the second solve is well posed) when the steering vectors are
linearly independent and `Φ` is positive definite -/
theorem lcmv_gram_posDef (Φ : Matrix (Fin D) (Fin D) ℂ) (hΦ : Φ.PosDef) (A U : Fin K → Fin D → ℂ)
    (hU : ∀ k, Φ *ᵥ U k = A k) (hA : LinearIndependent ℂ A) :
    (Matrix.of (lcmvGram ℝ A U)).PosDef := BfProof.lcmv_gram_posDef Φ hΦ A U hU hA

/-- `get_lcmv_vector` (one bin) with solvers meeting the contract: all constraints hold -/
theorem getLcmvVector_spec (solveD : Matrix (Fin D) (Fin D) ℂ → (Fin D → ℂ) → Fin D → ℂ)
    (solveK : Matrix (Fin K) (Fin K) ℂ → (Fin K → ℂ) → Fin K → ℂ)
    (hD : ∀ (M : Matrix (Fin D) (Fin D) ℂ) b, IsUnit M → M *ᵥ solveD M b = b)
    (hK : ∀ (M : Matrix (Fin K) (Fin K) ℂ) b, IsUnit M → M *ᵥ solveK M b = b)
    (Φ : Matrix (Fin D) (Fin D) ℂ) (hΦ : Φ.PosDef) (A : Fin K → Fin D → ℂ) (hA : LinearIndependent ℂ A)
    (r : Fin K → ℂ) (j : Fin K) :
    star (getLcmvVector ℝ solveD solveK A r Φ) ⬝ᵥ A j = star (r j) ∧
    ((r j).im = 0 → star (getLcmvVector ℝ solveD solveK A r Φ) ⬝ᵥ A j = r j) := by
  have hU : ∀ k, Φ *ᵥ solveD Φ (A k) = A k := fun k => hD Φ (A k) hΦ.isUnit
  have hG := BfProof.lcmv_gram_posDef Φ hΦ A (fun k => solveD Φ (A k)) hU hA
  have ht := hK (Matrix.of (lcmvGram ℝ A fun k => solveD Φ (A k))) r hG.isUnit
  have h := BfProof.lcmv_constraints A (fun k => solveD Φ (A k)) r _ ht j
  refine ⟨h, fun hr => ?_⟩
  rw [show getLcmvVector ℝ solveD solveK A r Φ = lcmvCombine (fun k => solveD Φ (A k))
    (solveK (Matrix.of (lcmvGram ℝ A fun k => solveD Φ (A k))) r) from rfl, h]
  apply Complex.ext <;> simp [hr]

/-! ### Souden MVDR and the weighted multichannel Wiener filter;  `phi` = solver result for `Φnn phi = Φxx` -/
/-- rank-one target `σ a aᴴ`: Souden's MVDR is the MVDR vector scaled by `conj a_ref`
(guard `eps ≤ tr(Φnn⁻¹Φxx) = σ aᴴΦnn⁻¹a`: the `np.maximum(·, eps)` floor is inactive) -/
theorem souden_rank_one (N : Matrix (Fin D) (Fin D) ℂ) (hN : N.PosDef) (a u : Fin D → ℂ) (ha : a ≠ 0)
    (σ : ℝ) (hσ : 0 < σ) (phi : Matrix (Fin D) (Fin D) ℂ)
    (hphi : N * phi = (σ : ℂ) • vecMulVec a (star a)) (hu : N *ᵥ u = a) (ref : Fin D) (eps : ℝ)
    (heps : eps ≤ σ * (star a ⬝ᵥ u).re) :
    souden phi ref eps = star (a ref) • mvdrFromSolve ℝ a u :=
  BfProof.souden_rank_one N hN a u ha σ hσ phi hphi hu ref eps heps

/-- … hence it reproduces the target at the reference channel: `wᴴ a = a_ref` -/
theorem souden_reproduces_reference (N : Matrix (Fin D) (Fin D) ℂ) (hN : N.PosDef) (a u : Fin D → ℂ) (ha : a ≠ 0)
    (σ : ℝ) (hσ : 0 < σ) (phi : Matrix (Fin D) (Fin D) ℂ)
    (hphi : N * phi = (σ : ℂ) • vecMulVec a (star a)) (hu : N *ᵥ u = a) (ref : Fin D) (eps : ℝ)
    (heps : eps ≤ σ * (star a ⬝ᵥ u).re) :
    star (souden phi ref eps) ⬝ᵥ a = a ref := by
  rw [BfProof.souden_rank_one N hN a u ha σ hσ phi hphi hu ref eps heps, star_smul, smul_dotProduct, star_star,
    mvdrFromSolve_eq, _root_.mvdr_distortionless N hN.1 a u hu (den_ne_zero N a u hN ha hu)]
  simp

/-- rank-one target, `μ > 0`: the WMWF vector is the exact minimiser `(Φxx + μ Φnn)⁻¹ Φxx e_ref` -/
theorem wmwf_exact (N : Matrix (Fin D) (Fin D) ℂ) (hN : N.PosDef) (a u : Fin D → ℂ) (ha : a ≠ 0)
    (σ : ℝ) (hσ : 0 < σ) (μ : ℝ) (hμ : 0 < μ) (phi : Matrix (Fin D) (Fin D) ℂ)
    (hphi : N * phi = (σ : ℂ) • vecMulVec a (star a)) (hu : N *ᵥ u = a) (ref : Fin D) :
    wmwf μ phi ref = fun d =>
      (((σ : ℂ) • vecMulVec a (star a) + (μ : ℂ) • N)⁻¹ * ((σ : ℂ) • vecMulVec a (star a))) d ref :=
  BfProof.wmwf_exact N hN a u ha σ hσ μ hμ phi hphi hu ref

/-- `μ = 0`: WMWF equals Souden's MVDR, for every Hermitian target (the trace `tr(Φnn⁻¹Φxx)` is then real;
guard: it is not below the floor `eps`) -/
theorem wmwf_zero_eq_souden (N X phi : Matrix (Fin D) (Fin D) ℂ) (hN : N.PosDef) (hX : X.IsHermitian)
    (hphi : N * phi = X) (ref : Fin D) (eps : ℝ) (heps : eps ≤ (Matrix.trace phi).re) :
    wmwf (0 : ℝ) phi ref = souden phi ref eps := by
  apply wmwf_zero_eq_souden_of_real phi ref eps (trace_solve_im N X phi hN.1 hN.isUnit hX hphi)
  rwa [trace_eq]

/-- Souden's MVDR is invariant to a positive scaling of the target PSD and of the noise PSD
(`phiX`, `phiN` are the solver results for the scaled problems; guards: the floor `eps` stays inactive) -/
theorem souden_scale (N X phi phiX phiN : Matrix (Fin D) (Fin D) ℂ) (hN : N.PosDef) (c : ℝ) (hc : 0 < c)
    (hphi : N * phi = X) (hphiX : N * phiX = (c : ℂ) • X) (hphiN : ((c : ℂ) • N) * phiN = X)
    (ref : Fin D) (eps : ℝ) (hpos : 0 < (Matrix.trace phi).re) (h1 : eps ≤ (Matrix.trace phi).re)
    (h2 : eps ≤ c * (Matrix.trace phi).re) (h3 : eps ≤ c⁻¹ * (Matrix.trace phi).re) :
    souden phiX ref eps = souden phi ref eps ∧ souden phiN ref eps = souden phi ref eps := by
  rw [← trace_eq] at hpos h1 h2 h3
  have hX : phiX = (c : ℂ) • phi := by
    apply mul_left_cancel_of_isUnit hN.isUnit
    rw [hphiX, Matrix.mul_smul, hphi]
  have hc' : (c : ℂ) ≠ 0 := by exact_mod_cast hc.ne'
  have hNs : phiN = ((c⁻¹ : ℝ) : ℂ) • phi := by
    apply mul_left_cancel_of_isUnit hN.isUnit
    have : (c : ℂ) • (N * phiN) = X := by rw [← Matrix.smul_mul]; exact hphiN
    rw [Matrix.mul_smul, hphi, ← this, smul_smul]
    push_cast
    rw [inv_mul_cancel₀ hc', one_smul]
  exact ⟨hX ▸ souden_smul phi ref eps c hc h1 h2 hpos,
    hNs ▸ souden_smul phi ref eps c⁻¹ (inv_pos.mpr hc) h1 h3 hpos⟩

/-- WMWF is invariant to a joint positive scaling of both PSDs -/
theorem wmwf_joint_scale (N X phi phi' : Matrix (Fin D) (Fin D) ℂ) (hN : N.PosDef) (c : ℝ) (hc : 0 < c)
    (hphi : N * phi = X) (hphi' : ((c : ℂ) • N) * phi' = (c : ℂ) • X) (μ : ℝ) (ref : Fin D) :
    wmwf μ phi' ref = wmwf μ phi ref := by
  have hc' : (c : ℂ) ≠ 0 := by exact_mod_cast hc.ne'
  have : phi' = phi := by
    apply mul_left_cancel_of_isUnit hN.isUnit
    have h : (c : ℂ) • (N * phi') = (c : ℂ) • X := by rw [← Matrix.smul_mul]; exact hphi'
    rw [hphi]
    exact smul_right_injective _ hc' h
  rw [this]

/-! ### reference channel -/
/-- `get_optimal_reference_channel` returns the first arg-max of the library's own SNR criterion -/
theorem ref_channel_argmax (wmat X N : Fin F → Fin (n+1) → Fin (n+1) → ℂ) (eps : ℝ) :
    (∀ R, refSnr wmat X N eps R ≤ refSnr wmat X N eps (refChannel wmat X N eps)) ∧
    (∀ R, R < refChannel wmat X N eps → refSnr wmat X N eps R < refSnr wmat X N eps (refChannel wmat X N eps)) :=
  ⟨fun R => vargmax_ge _ R, fun R hR => vargmax_first _ R hR⟩

/-- `get_mvdr_vector_souden(ref_channel=None)`: one channel for all bins, the beamformer is that channel's column,
and the channel is the first maximiser of the criterion evaluated on the candidate filters
`mat = phi / max(tr phi, eps)` -/
theorem soudenAuto_spec (phi X N : Fin F → Fin (n+1) → Fin (n+1) → ℂ) (eps : ℝ) :
    (∀ f, (soudenAuto phi X N eps).2 f = souden (phi f) (soudenAuto phi X N eps).1 eps) ∧
    (∀ R, refSnr (fun f => soudenMat (phi f) eps) X N eps R ≤
      refSnr (fun f => soudenMat (phi f) eps) X N eps (soudenAuto phi X N eps).1) ∧
    (∀ R, R < (soudenAuto phi X N eps).1 → refSnr (fun f => soudenMat (phi f) eps) X N eps R <
      refSnr (fun f => soudenMat (phi f) eps) X N eps (soudenAuto phi X N eps).1) :=
  ⟨fun _ => rfl, fun R => vargmax_ge _ R, fun R hR => vargmax_first _ R hR⟩

/-- `get_wmwf_vector(reference_channel=None)` likewise -/
theorem wmwfAuto_spec (μ : ℝ) (phi X N : Fin F → Fin (n+1) → Fin (n+1) → ℂ) (tiny : ℝ) :
    (∀ f, (wmwfAuto μ phi X N tiny).2 f = wmwf μ (phi f) (wmwfAuto μ phi X N tiny).1) ∧
    (∀ R, refSnr (fun f => wmwfFilter μ (phi f)) X N tiny R ≤
      refSnr (fun f => wmwfFilter μ (phi f)) X N tiny (wmwfAuto μ phi X N tiny).1) ∧
    (∀ R, R < (wmwfAuto μ phi X N tiny).1 → refSnr (fun f => wmwfFilter μ (phi f)) X N tiny R <
      refSnr (fun f => wmwfFilter μ (phi f)) X N tiny (wmwfAuto μ phi X N tiny).1) :=
  ⟨fun _ => rfl, fun R => vargmax_ge _ R, fun R hR => vargmax_first _ R hR⟩

/-! ### non-vacuity: the hypotheses are met by concrete data -/
example : star (mvdrFromSolve ℝ (fun _ : Fin 2 => (1 : ℂ)) (fun _ => 1)) ⬝ᵥ (fun _ : Fin 2 => (1 : ℂ)) = 1 := by
  refine mvdr_distortionless (1 : Matrix (Fin 2) (Fin 2) ℂ) Matrix.PosDef.one _ _ ?_ ?_
  · intro h; simpa using congrFun h 0
  · rw [hermSym_of_isHermitian _ Matrix.isHermitian_one, one_mulVec]

example : LinearIndependent ℂ (fun _ : Fin 1 => fun _ : Fin 2 => (1 : ℂ)) := by
  rw [Fintype.linearIndependent_iff]
  intro g hg i
  have := congrFun hg 0
  simp at this
  rw [Subsingleton.elim i 0]; exact this

end PbBss.C11

import PbBss.Proofs.BfWrapperProof
/-! # C13 — beamforming helpers agree with their primitives and act per leading index

Statements only (helper lemmas: `PbBss/Proofs/BfWrapperProof.lean`).  Model: `PbBss/Model/BfWrapper.lean`,
executed by `driver_psd` and compared with `pb_bss/extraction/beamformer_wrapper.py`, `beamformer.py`
(`apply_beamforming_vector`, `phase_correction`) and `pb_bss/math/solve.py` by `harness/props/c13.py`.

Names are character lists (`"…".toList`).  The primitives `get_bf_vector` composes are the fields of
`Prims` (abstract: their own properties are C11/C12). -/
namespace PbBss.C13
open PbBss PbBss.BfWrapper

/-! ### `get_bf_vector`: name dispatch (discrete, exact) -/

/-- every accepted name (`acceptedNames`: the twelve cores × {plain, `+ban`}) is read as the plan its name spells -/
theorem dispatch_table : ∀ e ∈ acceptedNames, dispatch e.1 = some e.2 := by decide

/-- `chN` / `chN+ban` for every non-empty string of digits `N` selects channel `int(N)` -/
theorem dispatch_channel (ds : List Char) (hne : ds ≠ []) (hd : ∀ x ∈ ds, x.isDigit = true) :
    dispatch ('c' :: 'h' :: ds) = some ⟨.ch (digitsToNat ds), false⟩ ∧
    dispatch ('c' :: 'h' :: ds ++ "+ban".toList) = some ⟨.ch (digitsToNat ds), true⟩ := by
  have hl : 'l' ∉ 'c' :: 'h' :: ds := by
    intro h
    rcases List.mem_cons.mp h with h1 | h1
    · exact absurd h1 (by decide)
    rcases List.mem_cons.mp h1 with h2 | h2
    · exact absurd h2 (by decide)
    · exact digit_ne_l (hd _ h2) rfl
  constructor
  · rw [dispatch_noBan hl (ch_not_ban ds hd), coreOf_ch ds hne hd]; rfl
  · rw [dispatch_ban hl, coreOf_ch ds hne hd]; rfl

/-- nothing else is accepted: a name the dispatch does not reject is one of the 24 table names or `ch<digits>[+ban]`,
and it gets exactly the table's plan -/
theorem dispatch_rejects (name : List Char) (p : Plan) (h : dispatch name = some p) :
    (name, p) ∈ acceptedNames ∨
    ∃ ds, ds ≠ [] ∧ (∀ x ∈ ds, x.isDigit = true) ∧
      ((name = 'c' :: 'h' :: ds ∧ p = ⟨.ch (digitsToNat ds), false⟩) ∨
       (name = 'c' :: 'h' :: ds ++ "+ban".toList ∧ p = ⟨.ch (digitsToNat ds), true⟩)) :=
  dispatch_some h

/-- names containing `lcmv` are refused (the assertion at the top of `get_bf_vector`) -/
theorem dispatch_lcmv_rejected (name : List Char) (h : hasSub "lcmv".toList name = true) :
    dispatch name = none := by
  unfold dispatch; rw [if_pos h]

/-- the value computed for a plan is the composition of primitives the name spells -/
theorem evalPlan_composition {M V : Type} (P : Prims M V) (t n : M) :
    evalPlan P ⟨.pca, false⟩ t n = P.pcaVector t ∧
    evalPlan P ⟨.mvdr .pca, false⟩ t n = P.mvdr (P.pcaVector t) n ∧
    evalPlan P ⟨.mvdr .scaledGev, false⟩ t n = P.mvdr (P.matVec n (P.gevVector t n)) n ∧
    evalPlan P ⟨.souden none, false⟩ t n = P.souden t n ∧
    evalPlan P ⟨.souden (some .pca), false⟩ t n = P.souden (P.rank1 t (P.pcaVector t)) n ∧
    evalPlan P ⟨.souden (some .gev), false⟩ t n = P.souden (P.rank1 t (P.matVec n (P.gevVector t n))) n ∧
    evalPlan P ⟨.gev none, false⟩ t n = P.gevVector t n ∧
    evalPlan P ⟨.gev (some .pca), false⟩ t n = P.gevVector (P.rank1 t (P.pcaVector t)) n ∧
    evalPlan P ⟨.gev (some .gev), false⟩ t n = P.gevVector (P.rank1 t (P.matVec n (P.gevVector t n))) n ∧
    evalPlan P ⟨.wmwf none, false⟩ t n = P.wmwf t n ∧
    evalPlan P ⟨.wmwf (some .pca), false⟩ t n = P.wmwf (P.rank1 t (P.pcaVector t)) n ∧
    evalPlan P ⟨.wmwf (some .gev), false⟩ t n = P.wmwf (P.rank1 t (P.matVec n (P.gevVector t n))) n ∧
    (∀ k, evalPlan P ⟨.ch k, false⟩ t n = P.unit k t) ∧
    (∀ c, evalPlan P ⟨c, true⟩ t n = P.ban (evalPlan P ⟨c, false⟩ t n) n) :=
  ⟨rfl, rfl, rfl, rfl, rfl, rfl, rfl, rfl, rfl, rfl, rfl, rfl, fun _ => rfl, fun _ => rfl⟩

/-- non-vacuity: a documented name, end to end -/
example {M V : Type} (P : Prims M V) (t n : M) :
    (dispatch "rank1_gev+mvdr_souden+ban".toList).map (fun p => evalPlan P p t n)
      = some (P.ban (P.souden (P.rank1 t (P.matVec n (P.gevVector t n))) n) n) := by
  rw [dispatch_table ("rank1_gev+mvdr_souden+ban".toList, ⟨.souden (some .gev), true⟩) (by decide)]
  rfl

example : dispatch "gev_ban".toList = none := by decide      -- the docstring's own example is NOT an accepted name
example : dispatch "ch12+ban".toList = some ⟨.ch 12, true⟩ := by decide

/-! ### `apply_beamforming_vector` -/

/-- `apply_beamforming_vector(w, x)[t] = wᴴ x[:, t]` (per leading index) -/
theorem applyBf_eq {D T : Nat} (w : Fin D → ℂ) (x : Fin D → Fin T → ℂ) (t : Fin T) :
    applyBf ℝ w x t = ∑ a, starRingEnd ℂ (w a) * x a t ∧
    applyBf ℝ w x t = star w ⬝ᵥ (fun a => x a t) := by
  have h : applyBf ℝ w x t = ∑ a, starRingEnd ℂ (w a) * x a t := by
    unfold applyBf; rw [vsum_eq_sum]; simp
  exact ⟨h, by rw [h]; simp [dotProduct]⟩

/-! ### `phase_correction` (one leading index; bins `0..F`, sensors `D`) -/
section phase
variable {F D : Nat}

/-- bin 0 is untouched -/
theorem phase_first_bin (v : Fin (F+1) → Fin D → ℂ) (d : Fin D) : phaseCorrection ℝ v 0 d = v 0 d := rfl

/-- magnitudes are unchanged -/
theorem phase_magnitude (v : Fin (F+1) → Fin D → ℂ) (f : Fin (F+1)) (d : Fin D) :
    ‖phaseCorrection ℝ v f d‖ = ‖v f d‖ := by
  rw [phaseCorrection_eq_mult, norm_mul, norm_mult, mul_one]

/-- consecutive bins are phase aligned: `w_fᴴ w_{f-1}` is real and non-negative (it equals `|v_fᴴ v_{f-1}|`) -/
theorem phase_aligned (v : Fin (F+1) → Fin D → ℂ) (g : Fin F) :
    let c := phaseCorrection ℝ v
    let z := ∑ d, starRingEnd ℂ (c g.succ d) * c g.castSucc d
    z.im = 0 ∧ 0 ≤ z.re ∧ z = ((‖∑ d, starRingEnd ℂ (v g.succ d) * v g.castSucc d‖ : ℝ) : ℂ) := by
  intro c z
  have h : z = ((‖∑ d, starRingEnd ℂ (v g.succ d) * v g.castSucc d‖ : ℝ) : ℂ) := phase_inner v g
  refine ⟨?_, ?_, h⟩
  · rw [h, Complex.ofReal_im]
  · rw [h, Complex.ofReal_re]; exact norm_nonneg _

/-- non-vacuity: two bins `(1), (-1)` are aligned to `(1), (1)` -/
example : phaseCorrection ℝ (fun (f : Fin 2) (_ : Fin 1) => if f = 0 then (1 : ℂ) else -1) 1 0 = 1 := by
  have h := phase_aligned (fun (f : Fin 2) (_ : Fin 1) => if f = 0 then (1 : ℂ) else -1) (0 : Fin 1)
  have hm := phase_magnitude (fun (f : Fin 2) (_ : Fin 1) => if f = 0 then (1 : ℂ) else -1) 1 0
  simp only [Fin.isValue, Finset.univ_unique, Fin.default_eq_zero, Finset.sum_singleton, Fin.succ_zero_eq_one,
    Fin.castSucc_zero, phase_first_bin, if_true, mul_one, one_ne_zero, if_false, map_neg, map_one] at h
  obtain ⟨-, -, h3⟩ := h
  simp only [Fin.isValue, norm_neg, norm_one, Complex.ofReal_one] at h3
  have := congrArg (starRingEnd ℂ) h3
  simpa using this
end phase

/-! ### leading axes (full arrays addressed by multi-indices) -/

/-- `phase_correction` on an array of any shape `(..., bins, sensors)` acts per leading index: the element at
`lead ++ [f, d]` is the one-problem result on the slice `x[lead]` (the source addresses bins and sensors from the END
of the shape: `[..., 1:, :]`, `sum(axis=-1)`, `cumprod(axis=-2)`) -/
theorem phaseCorrection_fixLead (shape : List Nat) (x : List Nat → ℂ) (lead : List Nat)
    (hl : lead.length + 2 = shape.length) (F : Nat) (f : Fin (F+1))
    (d : Fin (shape.getD (shape.length - 1) 0)) :
    phaseFull ℝ shape x (lead ++ [f.val, d.val]) =
      phaseCorrection ℝ (fun (f : Fin (F+1)) (d : Fin (shape.getD (shape.length - 1) 0)) =>
        x (lead ++ [f.val, d.val])) f d :=
  phaseFull_fixLead shape x lead hl F f d

/-- the pre-fix source (`cumprod(..., axis=0)`, fixed in e74d97d) does NOT act per leading index: for the array `wx`
of shape (2, 2, 1) (both leading indices hold the bins `(1), (-1)`) the element `[1, 1, 0]` differs from the
one-problem result, while the `axis=-2` model agrees.  (With a single leading index both coincide, which is why the
two-bin doctest of the source cannot see the difference.) -/
theorem cumprod_axis0_not_per_index :
    phaseFullAxis0 ℝ [2, 2, 1] wx [1, 1, 0]
      ≠ phaseCorrection ℝ (fun (f : Fin 2) (d : Fin 1) => wx ([1] ++ [f.val, d.val])) 1 0 ∧
    phaseFull ℝ [2, 2, 1] wx [1, 1, 0]
      = phaseCorrection ℝ (fun (f : Fin 2) (d : Fin 1) => wx ([1] ++ [f.val, d.val])) 1 0 := by
  rw [axis0_value, axisM2_value, perIndex_value]
  norm_num

/-! ### `stable_solve`: regular matrices are isolated from singular neighbours -/
section solve
variable {n : Nat} {γ : Type}

/-- a matrix whose own `solve` succeeds gets exactly that solution, whatever happens to the other matrices -/
theorem stableSolve_regular_isolated (batched : Option (Fin n → γ)) (single : Fin n → Option γ) (lstsq : Fin n → γ)
    (hc : SolveContract batched single) (i : Fin n) (c : γ) (hi : single i = some c) :
    stableSolve batched single lstsq i = c := by
  unfold stableSolve
  cases batched with
  | some b =>
    have := hc i
    rw [hi] at this
    simpa using this.symm
  | none => simp [hi]

/-- … in particular two stacks that agree at position `i` (regular there) give the same result at `i` -/
theorem stableSolve_neighbours_irrelevant (b₁ b₂ : Option (Fin n → γ)) (s₁ s₂ : Fin n → Option γ) (l₁ l₂ : Fin n → γ)
    (h₁ : SolveContract b₁ s₁) (h₂ : SolveContract b₂ s₂) (i : Fin n) (c : γ) (e₁ : s₁ i = some c) (e₂ : s₂ i = some c) :
    stableSolve b₁ s₁ l₁ i = stableSolve b₂ s₂ l₂ i := by
  rw [stableSolve_regular_isolated b₁ s₁ l₁ h₁ i c e₁, stableSolve_regular_isolated b₂ s₂ l₂ h₂ i c e₂]

/-- all matrices regular: the result is the batched `solve` -/
theorem stableSolve_all_regular (b : Fin n → γ) (single : Fin n → Option γ) (lstsq : Fin n → γ) :
    stableSolve (some b) single lstsq = b := rfl

/-- a matrix whose `solve` raises gets its least-squares solution -/
theorem stableSolve_singular_lstsq (batched : Option (Fin n → γ)) (single : Fin n → Option γ) (lstsq : Fin n → γ)
    (hc : SolveContract batched single) (i : Fin n) (hi : single i = none) :
    stableSolve batched single lstsq i = lstsq i := by
  unfold stableSolve
  cases batched with
  | some b => have := hc i; rw [hi] at this; cases this
  | none => simp [hi]
end solve

end PbBss.C13

import PbBss.Model.Effects
import PbBss.Model.TrainerSM
import PbBss.Proofs.EffectsProof
import PbBss.Generated.Effects
/-! # C20 — calls are pure, reproducible and history-free

Three models (DESIGN.md section 4, C20):
1. the effect IR of every function of the anchored modules, regenerated from the Python AST of the repository's current
   working tree on every run (`PbBss.Generated`), checked against the Lean-proved-sound certificate checker `Eff.checkCert`;
2. the trainer state machine `PbBss.TrainerSM` (state ⟨dimension, cachedFor⟩, operation `fit d args`);
3. the loop of `CACGMMTrainer.fit` for an abstract E- and M-step (split fits).
All statements are discrete; no Mathlib is needed. -/
namespace PbBss.C20
open Eff PbBss.TrainerSM

/-! ## 1. purity -/

/-- **Soundness of the certificate checker.** If `checkCert p may = true` then along EVERY execution of the effect
program `p` (statement instances in any order, any number of times — an over-approximation of all control flow) the
contents of every buffer passed in by the caller are unchanged.  Aliased parameters need no extra hypothesis. -/
theorem checkCert_sound (p : Prog) (may : Var → List Var) (hc : checkCert p may = true)
    (s0 s : St) (hi : Init p s0) (hx : Exec p s0 s) :
    ∀ q l, q ∈ p.params → s0.env q = some l → s.heap l = s0.heap l :=
  Eff.checkCert_sound p may hc s0 s hi hx

/-- General form used for callee summaries: with a consistent aliasing certificate, the only caller buffers an execution
can change are those of the parameters listed by `writesTo` (the derived "mutates" summary), and whatever a variable is
bound to afterwards is covered by its may-set (the derived "returns" summary). -/
theorem summary_sound (p : Prog) (may : Var → List Var) (hc : checkAlias p may = true)
    (s0 s : St) (hi : Init p s0) (hx : Exec p s0 s) :
    (∀ l, IsParamBuf p s0 l → (∀ q ∈ writesTo p may, s0.env q ≠ some l) → s.heap l = s0.heap l) ∧
    (∀ x l, s.env x = some l → IsParamBuf p s0 l → ∃ q, q ∈ may x ∧ q ∈ p.params ∧ s0.env q = some l) :=
  ⟨Eff.writes_sound p may hc s0 s hi hx, (Eff.may_sound p may hc s0 s hi hx).2⟩

/-- **Every entry point is pure** (regenerated from source and re-proved on every run): the certificate emitted by the
translator for every analysed function — all functions and methods of the anchored modules and of the modules they call
into, except the listed exception — passes the checker. -/
theorem allEntryPointsPure : ∀ f ∈ Generated.entryPoints, checkCert f.prog f.may = true := by
  decide +kernel

/-- Consequence for the generated programs: no execution of the effect program of an entry point changes a caller buffer. -/
theorem pure_of_cert (f : Fn) (hf : f ∈ Generated.entryPoints) (s0 s : St) (hi : Init f.prog s0)
    (hx : Exec f.prog s0 s) : ∀ q l, q ∈ f.prog.params → s0.env q = some l → s.heap l = s0.heap l :=
  Eff.checkCert_sound f.prog f.may (allEntryPointsPure f hf) s0 s hi hx

/-- **Callee summaries are consistent**: for every analysed function the summary that callers use at its call sites
(parameters it may write to, parameters its result may alias) contains the summary derived from the function's own
certificate, and that certificate's aliasing part checks. -/
theorem summaries_consistent : ∀ f ∈ Generated.functions, f.summaryOk = true := by
  decide +kernel

/-- The single listed exception is `set_snr` (documented: rescales the noise argument in place when `inplace=True`);
its certificate shows that the only parameter it can write to is `N` (variable 1), never the target signal `X`. -/
theorem exceptions_listed :
    Generated.exceptions.map (·.name) = ["sxr_module.set_snr"] ∧
    ∀ f ∈ Generated.exceptions, f.summaryOk = true ∧ f.summary.mutates = [1] := by
  decide +kernel

/-- entry points and exceptions together are all analysed functions -/
theorem entryPoints_cover : Generated.entryPoints.length + Generated.exceptions.length = Generated.functions.length := by
  decide +kernel

/-- non-vacuity: the checker rejects the defect fixed in 139a48e (`covariance /= trace` on the parameter) and accepts the
defensive-copy idiom -/
example : checkCert ⟨[0], [.alloc 1, .write 0]⟩ (mayOf [(0, [0])]) = false := by decide
example : checkCert ⟨[0], [.alias 1 [0], .alloc 2, .write 2]⟩ (mayOf [(0, [0]), (1, [0])]) = true := by decide
example : Generated.entryPoints ≠ [] := by decide +kernel

/-! ## 2. trainer reuse -/
section Trainer
variable {α ρ : Type} (run : Option Nat → α → ρ)

/-- **Invariant of every reachable trainer state**: the cached table (inner trainer / spline), if one exists, was built
for the bound feature dimension, and a dimension passed to the constructor stays bound.  (Induction over the list of
earlier `fit` calls, any length.) -/
theorem reachable_cache_inv (c : Option Nat) (ops : List (Op α)) :
    let s := runOps run (init c) ops
    (s.cachedFor = none ∨ s.cachedFor = s.dimension) ∧ (∀ d0, c = some d0 → s.dimension = some d0) :=
  inv_runOps run ops (inv_init c)

/-- **A reused trainer equals a fresh one**: if a `fit` on a trainer that went through ANY list of earlier fits is
accepted with table `t` and result `r`, a fresh trainer (same constructor argument) accepts it with the same table and
the same result. -/
theorem reuse_eq_fresh (c : Option Nat) (ops : List (Op α)) (o : Op α) (t : Option Nat) (r : ρ)
    (h : (step run (runOps run (init c) ops) o).2 = .ok t r) : (step run (init c) o).2 = .ok t r := by
  have hinv : Inv c (runOps run (init c) ops) := inv_runOps run ops (inv_init c)
  generalize runOps run (init c) ops = s at h hinv
  -- the reused trainer accepted: its dimension is unbound or equals o.d
  have hs : s.dimension = none ∨ s.dimension = some o.d := by
    cases hd : s.dimension with
    | none => exact Or.inl rfl
    | some d0 =>
      right
      unfold step at h; rw [hd] at h; simp only at h
      split at h
      · rename_i heq; rw [heq]
      · cases h
  have hout : (step run s o).2 = (accept run s o).2 := by
    unfold step
    rcases hs with hs | hs
    · rw [hs]
    · rw [hs]; simp
  -- the fresh trainer accepts too
  have hc : (init c).dimension = none ∨ (init c).dimension = some o.d := by
    cases c with
    | none => exact Or.inl rfl
    | some d0 =>
      right
      have := hinv.2 d0 rfl
      rcases hs with hs | hs
      · rw [hs] at this; cases this
      · rw [hs] at this; exact this.symm
  have hfresh : (step run (init c) o).2 = (accept run (init c) o).2 := by
    unfold step
    rcases hc with hc | hc
    · rw [hc]
    · rw [hc]; simp
  rw [hfresh, accept_out run o (inv_init c) hc, ← accept_out run o hinv hs, ← hout, h]

/-- **A different feature dimension is rejected** (instead of reusing cached tables), and the rejection leaves the
trainer unchanged. -/
theorem rejects_other_dimension (c : Option Nat) (ops : List (Op α)) (o : Op α) (d0 : Nat)
    (hd : (runOps run (init c) ops).dimension = some d0) (hne : o.d ≠ d0) :
    step run (runOps run (init c) ops) o = (runOps run (init c) ops, .reject) := by
  unfold step
  rw [hd]
  simp only
  rw [if_neg (fun h => hne h.symm)]

/-- the table an accepted fit uses was built for the dimension of the data of THAT fit (never for an earlier one) -/
theorem table_used_is_for_dimension (c : Option Nat) (ops : List (Op α)) (o : Op α) (t : Nat) (r : ρ)
    (h : (step run (runOps run (init c) ops) o).2 = .ok (some t) r) : t = o.d := by
  have h' := reuse_eq_fresh run c ops o (some t) r h
  have hc : (init c).dimension = none ∨ (init c).dimension = some o.d := by
    cases c with
    | none => exact Or.inl rfl
    | some d0 =>
      right
      unfold step at h'
      simp only [init] at h'
      split at h'
      · rename_i heq; simp [init, heq]
      · cases h'
  have hfresh : (step run (init c) o).2 = (accept run (init c) o).2 := by
    unfold step
    rcases hc with hc | hc
    · rw [hc]
    · rw [hc]; simp
  rw [hfresh, accept_out run o (inv_init c) hc] at h'
  split at h'
  · injection h' with h1 _; injection h1 with h1; exact h1.symm
  · cases h'

/-- after the first accepted fit the dimension is bound, and stays bound -/
theorem dimension_bound_after_accept (s : State) (o : Op α) (t : Option Nat) (r : ρ)
    (h : (step run s o).2 = .ok t r) : (step run s o).1.dimension = some o.d := by
  unfold step at h ⊢
  cases hd : s.dimension with
  | none => simp only; exact accept_dimension run s o
  | some d0 =>
    rw [hd] at h
    simp only at h ⊢
    split
    · exact accept_dimension run s o
    · rename_i hne; rw [if_neg hne] at h; cases h

/-- non-vacuity: WITHOUT the dimension assertion a reused trainer would run a fit of dimension 3 with the table cached
for dimension 2 — `reuse_eq_fresh` fails for that machine -/
example : (stepNoCheck (fun t (_ : Unit) => t) (stepNoCheck (fun t (_ : Unit) => t) (init none) ⟨2, true, ()⟩).1 ⟨3, true, ()⟩).2
    = .ok (some 2) (some 2) := by decide
example : (step (fun t (_ : Unit) => t) (step (fun t (_ : Unit) => t) (init none) ⟨2, true, ()⟩).1 ⟨3, true, ()⟩).2
    = .reject := by decide
example : (step (fun t (_ : Unit) => t) (init none) ⟨3, true, ()⟩).2 = .ok (some 3) (some 3) := by decide

end Trainer

/-! ## 3. split fits -/
section Split
variable {Γ Θ : Type} (mstep : Γ → Θ) (estep : Θ → Γ)

/-- **Split fit** (closed form): continuing a fit of `n₁ ≥ 1` iterations from the returned model for `n₂` iterations is
the fit of `n₁ + n₂` iterations. -/
theorem fit_split (n₁ n₂ : Nat) (h : 1 ≤ n₁) (γ₀ : Γ) :
    fitFromModel mstep estep n₂ (fitFromAff mstep estep n₁ γ₀) = fitFromAff mstep estep (n₁ + n₂) γ₀ :=
  fitFrom_split mstep estep n₁ n₂ h γ₀

/-- the same statement for the transcribed loop of `CACGMMTrainer.fit` (state `model`/`affiliation`, E-step only when a
model exists): the model returned after `n₁ ≥ 1` iterations exists, and restarting the loop from it for `n₂` iterations
returns what one loop of `n₁ + n₂` iterations returns -/
theorem fit_split_loop (n₁ n₂ : Nat) (h : 1 ≤ n₁) (γ₀ dummy : Γ) :
    ∃ θ, fitAff mstep estep n₁ γ₀ = some θ ∧ fitModel mstep estep n₂ θ dummy = fitAff mstep estep (n₁ + n₂) γ₀ := by
  refine ⟨fitFromAff mstep estep n₁ γ₀, fitAff_eq mstep estep n₁ h γ₀, ?_⟩
  rw [fitModel_eq, fitAff_eq mstep estep (n₁ + n₂) (by omega), fitFrom_split mstep estep n₁ n₂ h]

/-- **Any composition**: a fit of `n₁ ≥ 1` iterations followed by consecutive fits of `ns = [n₂, …, n_j]` iterations, each
continued from the model returned by the previous one, equals one uninterrupted fit of `n₁ + n₂ + … + n_j` iterations. -/
theorem fit_composition (n₁ : Nat) (h : 1 ≤ n₁) (ns : List Nat) (γ₀ : Γ) :
    ns.foldl (fun θ n => fitFromModel mstep estep n θ) (fitFromAff mstep estep n₁ γ₀)
      = fitFromAff mstep estep (n₁ + ns.sum) γ₀ := by
  induction ns generalizing n₁ with
  | nil => simp
  | cons n ns ih =>
    simp only [List.foldl_cons, List.sum_cons]
    rw [fitFrom_split mstep estep n₁ n h, ih (n₁ + n) (by omega), Nat.add_assoc]

/-- the same from a fitted model (no positivity needed) -/
theorem fit_composition_from_model (ns : List Nat) (θ : Θ) :
    ns.foldl (fun θ n => fitFromModel mstep estep n θ) θ = fitFromModel mstep estep ns.sum θ := by
  induction ns generalizing θ with
  | nil => rfl
  | cons n ns ih =>
    simp only [List.foldl_cons, List.sum_cons]
    rw [ih, fitFromModel_add]

/-- determinism: the result of a fit is a function of the start value (arguments and random draws) and the iteration
count only — the model has no other state -/
theorem fit_deterministic (n n' : Nat) (γ γ' : Γ) (hn : n = n') (hγ : γ = γ') :
    fitAff mstep estep n γ = fitAff mstep estep n' γ' := by
  subst hn; subst hγ; rfl

/-- non-vacuity / sanity on a concrete step function: iterations are really counted -/
example : fitFromAff (fun (g : Nat) => g + 1) (fun (t : Nat) => 2 * t) 3 0 = 7 := by decide
example : fitFromModel (fun (g : Nat) => g + 1) (fun (t : Nat) => 2 * t) 2 (fitFromAff (fun g => g + 1) (fun t => 2 * t) 1 0) = 7 := by
  decide

end Split
end PbBss.C20

import PbBss.Proofs.EmMono
import PbBss.Proofs.EmGauss
import PbBss.Proofs.EmWatson
import PbBss.Proofs.GaussM
import PbBss.Proofs.EmCacg
import PbBss.Proofs.EmNonVacuous
import PbBss.Proofs.EmFull
import PbBss.Proofs.EmGcacg
import PbBss.Proofs.EmWatsonConvex
/-! # C02 — EM iterations never decrease the mixture log-likelihood

Statements only (helper lemmas: `PbBss/Proofs/{Em,EmProof,EmMono,EmGauss,EmWatson,EmCacg,GaussM,TrLogDet}.lean`).
Model: `PbBss/Model/Em.lean` — the generic EM loop (`fit n γ₀ = emStep^[n-1] (mStep γ₀)`), the weight update for
every tying option (`mWeight`), spherical / diagonal Gaussian, complex Watson and cACG component families, the two-stream
product family (GCACGMM with unit stream weights), `logLik` and `logLikMethod` (`CACGMM.log_likelihood`).  The same
definitions are executed on `Float` by `driver_em` and compared step-wise with the real trainers on every run
(`harness/props/c02.py`).

Reading of the property.  "No numerical guard is active" is made explicit as hypotheses on the stretch `a ≤ i ≤ b` of
the iteration history: mixture weights positive, the E-step's denominator clamp `max(·, tiny)` inactive
(`ClampFree`), and — per family — the M-step's own clamps inactive (total class mass `≥ tiny`, variances positive,
cACG eigenvalue / quadratic-form floors inactive, Watson concentration not clipped).  With a saliency the monitored
quantity is the saliency-weighted log-likelihood `Σ_n s_n log Σ_k π_k p_k(y_n)` (DESIGN.md 5c).

Gaps (not theorems here): (a) the Watson concentration in the code is a *spline* approximation of the exact inverse
hypergeometric ratio — `TangentAt` states the exact M-step condition; for the true log-normaliser
`C + log ₁F₁(1;D;κ)` (`watsonLogNorm`, the cumulant generating function of a Beta(1, D−1) variable) it is PROVED from
"the returned concentration solves `watsonRatio D κ = λ` exactly" (`watson_lognorm_convex`, `watson_tangent_exact`,
`em_monotone_cwmm_exact`), so the only assumption left is the spline's approximation error, which the correspondence
run measures; (b) GCACGMM is covered by the product-family lemma (`product_mstep_Q`) but is not an instance of the executable EM
model (its trajectories are judged by the search on the real code); (c) floating-point rounding. -/
namespace PbBss.C02
open PbBss PbBss.Em PbBss.EmProof PbBss.EmCacg Finset

section generic
variable {Θ Y : Type} {K N : Nat}

/-- Jensen / Gibbs step of EM for one observation: log-likelihood gain `≥` expected complete-data gain under the
current posterior `p / Σ p`. -/
theorem em_bound {K : Type} [Fintype K] [Nonempty K] (p q : K → ℝ) (hp : ∀ k, 0 < p k) (hq : ∀ k, 0 < q k) :
    ∑ k, (p k / ∑ j, p j) * (Real.log (q k) - Real.log (p k)) ≤ Real.log (∑ k, q k) - Real.log (∑ k, p k) :=
  _root_.em_bound p q hp hq

/-- GEM step on the model: any parameter change that does not decrease `Q(θ, ·)` does not decrease the
saliency-weighted observed-data log-likelihood. -/
theorem gem_step (fam : Family Θ Y ℝ) (s : Fin N → ℝ) (y : Fin N → Y) (θ θ' : Mixture Θ ℝ (K+1) N)
    (hs : ∀ n, 0 ≤ s n) (hw : ∀ k n, 0 < θ.w k n) (hw' : ∀ k n, 0 < θ'.w k n)
    (hQ : Qfun fam s y θ θ ≤ Qfun fam s y θ θ') : logLik fam s θ y ≤ logLik fam s θ' y :=
  EmProof.gem_step fam s y θ θ' hs hw hw' hQ

/-- The weight update (`estimate_mixture_weight`: normalised group masses of `γ·s`) maximises the weight part of
`Q` over all positive sub-probability weight families that respect the tying — every `weight_constant_axis`. -/
theorem weights_maximise_Q {G : Nat} (grp : Fin N → Fin G) (s : Fin N → ℝ) (γ π' : Fin K → Fin N → ℝ)
    (hs : ∀ n, 0 ≤ s n) (hγ : ∀ k n, 0 ≤ γ k n) (hπ : ∀ k n, 0 < π' k n)
    (htied : ∀ k n m, grp n = grp m → π' k n = π' k m) (hsum : ∀ n, ∑ k, π' k n ≤ 1) :
    Wq s γ π' ≤ Wq s γ (fun k n => groupSum grp (grp n) (fun m => γ k m * s m)
                                / ∑ j, groupSum grp (grp n) (fun m => γ j m * s m)) :=
  EmProof.weights_maximise_Q grp s γ π' hs hγ hπ htied hsum

/-- The E-step of the model is the Bayes posterior when its denominator clamp is inactive. -/
theorem eStep_is_posterior (tiny : ℝ) (fam : Family Θ Y ℝ) (θ : Mixture Θ ℝ (K+1) N) (y : Fin N → Y)
    (htiny : 0 < tiny) (hc : ClampFree tiny fam θ y) (k : Fin (K+1)) (n : Fin N) :
    eStep tiny fam θ y k n = post fam θ y k n :=
  eStep_eq_post' tiny fam θ y htiny hc k n

/-- `fit (i+1) = emStep (fit i)`: the model's `fit` is the trainer loop (what the correspondence run compares). -/
theorem fit_alternation (tiny : ℝ) (fam : Family Θ Y ℝ) (rule : WeightRule) (tie : Tying N) (eps : ℝ)
    (s : Fin N → ℝ) (y : Fin N → Y) (γ₀ : Fin (K+1) → Fin N → ℝ) (i : Nat) (hi : 1 ≤ i) :
    fit tiny fam rule tie eps s y (i+1) γ₀ = emStep tiny fam rule tie eps s y (fit tiny fam rule tie eps s y i γ₀) :=
  fit_succ tiny fam rule tie eps s y γ₀ i hi

/-- **One EM iteration does not decrease the log-likelihood** (any family whose M-step does not decrease the
component part of `Q`; any tying; any saliency `≥ 0`). -/
theorem em_step_monotone (tiny : ℝ) (fam : Family Θ Y ℝ) (rule : WeightRule) (tie : Tying N) (eps : ℝ)
    (s : Fin N → ℝ) (y : Fin N → Y) (θ : Mixture Θ ℝ (K+1) N) (htiny : 0 < tiny) (hs : ∀ n, 0 ≤ s n)
    (hrule : rule = .mean → ∀ n, s n = 1) (hinv : WInv tie θ) (hw : ∀ k n, 0 < θ.w k n)
    (hclamp : ClampFree tiny fam θ y)
    (hw' : ∀ k n, 0 < (emStep tiny fam rule tie eps s y θ).w k n)
    (hfloor : FloorFree rule tie eps fam s y θ)
    (hcomp : CompImproves fam s y θ) :
    logLik fam s θ y ≤ logLik fam s (emStep tiny fam rule tie eps s y θ) y :=
  EmProof.em_step_monotone tiny fam rule tie eps s y θ htiny hs hrule hinv hw hclamp hw' hfloor hcomp

/-- **EM monotonicity, any number of iterations** (induction over the iteration count): along every stretch
`a ≤ i ≤ b` of the history of one fit on which no guard is active, `L(fit a) ≤ L(fit b)`.
`rule = .mean` is the code path `saliency=None` (then `s = 1`). -/
theorem em_monotone (tiny : ℝ) (fam : Family Θ Y ℝ) (rule : WeightRule) (tie : Tying N) (eps : ℝ)
    (s : Fin N → ℝ) (y : Fin N → Y) (γ₀ : Fin (K+1) → Fin N → ℝ) (htiny : 0 < tiny) (hs : ∀ n, 0 ≤ s n)
    (heps : 0 ≤ eps) (hrule : rule = .mean → ∀ n, s n = 1)
    (hγ₀ : ∀ k n, 0 ≤ γ₀ k n) (hγ₀1 : ∀ n, ∑ k, γ₀ k n ≤ 1)
    (a b : Nat) (ha : 1 ≤ a) (hab : a ≤ b)
    (hw : ∀ i, a ≤ i → i ≤ b → ∀ k n, 0 < (fit tiny fam rule tie eps s y i γ₀).w k n)
    (hclamp : ∀ i, a ≤ i → i < b → ClampFree tiny fam (fit tiny fam rule tie eps s y i γ₀) y)
    (hfloor : ∀ i, a ≤ i → i < b → FloorFree rule tie eps fam s y (fit tiny fam rule tie eps s y i γ₀))
    (hcomp : ∀ i, a ≤ i → i < b → CompImproves fam s y (fit tiny fam rule tie eps s y i γ₀)) :
    logLik fam s (fit tiny fam rule tie eps s y a γ₀) y ≤ logLik fam s (fit tiny fam rule tie eps s y b γ₀) y :=
  EmProof.em_monotone tiny fam rule tie eps s y γ₀ htiny hs heps hrule hγ₀ hγ₀1 a b ha hab hw hclamp hfloor hcomp

/-- The structural weight invariants (non-negative, sum `≤ 1`, constant on tie groups, `1/K` under
`weight_constant_axis=-2`) hold for every iterate — they are consequences of the update, not hypotheses. -/
theorem iterate_weight_invariants (tiny : ℝ) (fam : Family Θ Y ℝ) (rule : WeightRule) (tie : Tying N) (eps : ℝ)
    (s : Fin N → ℝ) (y : Fin N → Y) (γ₀ : Fin (K+1) → Fin N → ℝ) (htiny : 0 < tiny) (hs : ∀ n, 0 ≤ s n)
    (heps : 0 ≤ eps) (hγ₀ : ∀ k n, 0 ≤ γ₀ k n) (hγ₀1 : ∀ n, ∑ k, γ₀ k n ≤ 1) (i : Nat) (hi : 1 ≤ i) :
    WInv tie (fit tiny fam rule tie eps s y i γ₀) :=
  fit_WInv tiny fam rule tie eps s y γ₀ htiny hs heps hγ₀ hγ₀1 i hi

/-- `CACGMM.log_likelihood` (`np.sum(logsumexp(log_pdf, b=weight, axis=-2))`) **is** the mixture log-likelihood,
mixture weights included — so it is non-decreasing too. -/
theorem logLik_method (fam : Family Θ Y ℝ) (θ : Mixture Θ ℝ (K+1) N) (y : Fin N → Y) (hw : ∀ k n, 0 < θ.w k n) :
    logLikMethod fam θ y = logLik fam (fun _ => 1) θ y :=
  logLikMethod_eq fam θ y hw

end generic

/-! ## The component M-steps do not decrease the component part of `Q` -/
section families
variable {D N : Nat}

/-- spherical Gaussian (`covariance_type='spherical'`): exact M-step -/
theorem sph_mstep_Q (tiny log2pi : ℝ) (c aux : Fin N → ℝ) (y : Fin N → Fin D → ℝ) (θ : SphG ℝ D)
    (ht : 0 < tiny) (hC : tiny ≤ ∑ n, c n) (hD : 0 < D) (hv : 0 < θ.var)
    (hv' : 0 < (sphMstep tiny N c aux y).var) :
    compQ (sphFamily D tiny log2pi) c y θ
      ≤ compQ (sphFamily D tiny log2pi) c y ((sphFamily D tiny log2pi).mstep N c aux y) :=
  sph_mstep_improves tiny log2pi c aux y θ ht hC hD hv hv'

/-- diagonal Gaussian (`covariance_type='diagonal'`): exact M-step -/
theorem diag_mstep_Q (tiny log2pi : ℝ) (c aux : Fin N → ℝ) (y : Fin N → Fin D → ℝ) (θ : DiagG ℝ D)
    (ht : 0 < tiny) (hC : tiny ≤ ∑ n, c n) (hv : ∀ d, 0 < rd θ.var d)
    (hv' : ∀ d, 0 < rd (diagMstep tiny N c aux y).var d) :
    compQ (diagFamily D tiny log2pi) c y θ
      ≤ compQ (diagFamily D tiny log2pi) c y ((diagFamily D tiny log2pi).mstep N c aux y) :=
  diag_mstep_improves tiny log2pi c aux y θ ht hC hv hv'

/-- full-covariance Gaussian (`covariance_type='full'`, the default): exact M-step.  `pchol` is sklearn's precision
Cholesky routine with the contract `PcholOk` (upper triangular `P`, positive diagonal, `(P Pᵀ) Σ = 1`,
`ℓ = Σ_d log P_dd`); positive definiteness of the new covariance follows from the contract holding on it. -/
theorem full_mstep_Q (pchol : Tab D (Tab D ℝ) → Tab D (Tab D ℝ) × ℝ) (tiny log2pi : ℝ)
    (c aux : Fin N → ℝ) (y : Fin N → Fin D → ℝ) (θ : FullG ℝ D)
    (ht : 0 < tiny) (hc : ∀ n, 0 ≤ c n) (hC : tiny ≤ ∑ n, c n)
    (hP : PcholOk θ.cov (pchol θ.cov))
    (hP' : PcholOk (fullMstep tiny N c aux y).cov (pchol (fullMstep tiny N c aux y).cov)) :
    compQ (fullFamily D pchol tiny log2pi) c y θ
      ≤ compQ (fullFamily D pchol tiny log2pi) c y ((fullFamily D pchol tiny log2pi).mstep N c aux y) :=
  full_mstep_improves_of_nonneg pchol tiny log2pi c aux y θ ht hc hC hP hP'

/-- complex Watson: principal eigenvector (`get_pca` contract) + exact inverse hypergeometric ratio (`TangentAt`) -/
theorem watson_mstep_Q (pca : Tab D (Tab D ℂ) → Tab D ℂ × ℝ) (kinv lnorm : ℝ → ℝ) (c aux : Fin N → ℝ)
    (z : Fin N → Fin D → ℂ) (θ : Watson ℝ ℂ D) (hC : 0 < ∑ n, c n)
    (hunit : ∑ d, Complex.normSq (rd θ.mode d) = 1) (hk : 0 ≤ θ.kappa) (hln : θ.logNorm = lnorm θ.kappa)
    (hpca : PcaContract (rd2 (watsonScatter c z)) (pca (watsonScatter c z)))
    (htan : TangentAt lnorm (kinv (pca (watsonScatter c z)).2) (pca (watsonScatter c z)).2) :
    compQ (watsonFamily D pca kinv lnorm) c z θ
      ≤ compQ (watsonFamily D pca kinv lnorm) c z ((watsonFamily D pca kinv lnorm).mstep N c aux z) :=
  watson_mstep_improves pca kinv lnorm c aux z θ hC hunit hk hln hpca htan

/-- the exact concentration update is what convexity + differentiability of the log-normaliser give -/
theorem watson_tangent_of_convex (f : ℝ → ℝ) (x0 f' : ℝ) (hc : ConvexOn ℝ Set.univ f) (hd : HasDerivAt f f' x0) :
    TangentAt f x0 f' :=
  tangent_of_convex f x0 f' hc hd

/-! ### The true Watson log-normaliser `C + log ₁F₁(1; D; κ)` (`PbBss/Proofs/EmWatsonConvex.lean`) -/

/-- the kernel `(D−1)∫₀¹ e^{κt}(1−t)^{D−2} dt` IS the hypergeometric series `₁F₁(1; D; κ) = Σ_n κⁿ/(D)_n` that
`log_norm_1f1` evaluates through `scipy.special.hyp1f1` -/
theorem watson_kernel_is_1F1 (D : ℕ) (hD : 2 ≤ D) (κ : ℝ) :
    watsonKernel D κ = ∑' n, κ ^ n / ∏ j ∈ Finset.range n, ((D : ℝ) + j) :=
  watsonKernel_eq_tsum D hD κ

/-- the log-normaliser is convex on all of ℝ (second derivative = variance under the exponentially tilted Beta law) -/
theorem watson_lognorm_convex (D : ℕ) (hD : 2 ≤ D) (C : ℝ) : ConvexOn ℝ Set.univ (watsonLogNorm D C) :=
  watsonLogNorm_convex D hD C

/-- its derivative is the hypergeometric ratio (the model expectation of `|mᴴz|²`), which lies in `(0, 1)`, equals
`1/D` at `κ = 0` and is strictly increasing — so the exact inverse the spline approximates is unique -/
theorem watson_lognorm_deriv (D : ℕ) (hD : 2 ≤ D) (C κ : ℝ) :
    HasDerivAt (watsonLogNorm D C) (watsonRatio D κ) κ ∧ 0 < watsonRatio D κ ∧ watsonRatio D κ < 1
      ∧ watsonRatio D 0 = 1 / D ∧ StrictMono (watsonRatio D) :=
  ⟨watsonLogNorm_hasDerivAt D hD C κ, watsonRatio_pos D hD κ, watsonRatio_lt_one D hD κ, watsonRatio_zero D hD,
    watsonRatio_strictMono D hD⟩

/-- the exact concentration update satisfies the M-step condition `TangentAt` — no convexity hypothesis left -/
theorem watson_tangent_exact (D : ℕ) (hD : 2 ≤ D) (C : ℝ) (kinv : ℝ → ℝ) (lam : ℝ)
    (hinv : watsonRatio D (kinv lam) = lam) : TangentAt (watsonLogNorm D C) (kinv lam) lam :=
  EmProof.watson_tangent_exact D hD C kinv lam hinv

/-- complex Watson M-step with the true log-normaliser: principal eigenvector + exact inverse ratio -/
theorem watson_mstep_Q_exact (hD : 2 ≤ D) (C : ℝ) (pca : Tab D (Tab D ℂ) → Tab D ℂ × ℝ) (kinv : ℝ → ℝ)
    (c aux : Fin N → ℝ) (z : Fin N → Fin D → ℂ) (θ : Watson ℝ ℂ D) (hC : 0 < ∑ n, c n)
    (hunit : ∑ d, Complex.normSq (rd θ.mode d) = 1) (hk : 0 ≤ θ.kappa)
    (hln : θ.logNorm = watsonLogNorm D C θ.kappa)
    (hpca : PcaContract (rd2 (watsonScatter c z)) (pca (watsonScatter c z)))
    (hinv : watsonRatio D (kinv (pca (watsonScatter c z)).2) = (pca (watsonScatter c z)).2) :
    compQ (watsonFamily D pca kinv (watsonLogNorm D C)) c z θ
      ≤ compQ (watsonFamily D pca kinv (watsonLogNorm D C)) c z
          ((watsonFamily D pca kinv (watsonLogNorm D C)).mstep N c aux z) :=
  watson_mstep_improves_exact hD C pca kinv c aux z θ hC hunit hk hln hpca hinv

open Matrix in
open scoped ComplexOrder MatrixOrder in
/-- full-covariance Gaussian / Tyler step, matrix level: `n + log det S ≤ log det Σ + tr(Σ⁻¹ S)` — the sample
scatter `S` maximises `-log det Σ - tr(Σ⁻¹ S)` over all positive definite `Σ`. -/
theorem gaussian_full_crux {n : Type} [Fintype n] [DecidableEq n] (Sg S : Matrix n n ℂ) (hSg : Sg.PosDef)
    (hS : S.PosDef) :
    (Fintype.card n : ℝ) + Real.log (S.det).re ≤ Real.log (Sg.det).re + ((Sg⁻¹ * S).trace).re :=
  gaussian_mstep_crux Sg S hSg hS

/-- two streams with unit stream weights (GCACGMM): the joint M-step improves if each stream's does -/
theorem product_mstep_Q {Θ₁ Θ₂ Y₁ Y₂ : Type} (fam₁ : Family Θ₁ Y₁ ℝ) (fam₂ : Family Θ₂ Y₂ ℝ)
    (c aux : Fin N → ℝ) (y : Fin N → Y₁ × Y₂) (θ : Θ₁ × Θ₂)
    (h₁ : compQ fam₁ c (fun n => (y n).1) θ.1 ≤ compQ fam₁ c (fun n => (y n).1) (fam₁.mstep N c aux (fun n => (y n).1)))
    (h₂ : compQ fam₂ c (fun n => (y n).2) θ.2
        ≤ compQ fam₂ c (fun n => (y n).2) (fam₂.mstep N c (fun _ => 1) (fun n => (y n).2))) :
    compQ (prodFamily fam₁ fam₂) c y θ ≤ compQ (prodFamily fam₁ fam₂) c y ((prodFamily fam₁ fam₂).mstep N c aux y) :=
  prod_mstep_improves fam₁ fam₂ c aux y θ h₁ h₂

/-- **cACG M-step (Tyler / Ito minorise-maximise step), all three `covariance_norm` options**: with the quadratic
forms of the *previous* parameters as surrogate weights, `eigh` meeting its contract and every floor inactive, the
step does not decrease `Σ c_n log p(z_n)`. -/
theorem cacg_mstep_Q {D : Nat}
    (eigh : Tab (D+1) (Tab (D+1) ℂ) → Tab (D+1) (Tab (D+1) ℂ) × Tab (D+1) ℝ)
    (nrm : CovNorm) (floor tiny : ℝ) (c : Fin N → ℝ) (z : Fin N → Fin (D+1) → ℂ) (θ : Cacg ℝ ℂ (D+1))
    (ht : 0 < tiny) (hc : ∀ n, 0 ≤ c n) (hC : tiny ≤ ∑ n, c n) (hθ : Valid θ)
    (hq : ∀ n, 10 * tiny ≤ cacgQuad tiny θ (z n))
    (heig : EighOk (cacgScatter nrm tiny N c (fun n => cacgQuad tiny θ (z n)) z)
      (eigh (cacgScatter nrm tiny N c (fun n => cacgQuad tiny θ (z n)) z)))
    (hfloor : EigGuard nrm floor tiny
      (rd (eigh (cacgScatter nrm tiny N c (fun n => cacgQuad tiny θ (z n)) z)).2))
    (htr : nrm = .trace →
      tiny ≤ ∑ d, (rd2 (cacgScatter .none tiny N c (fun n => cacgQuad tiny θ (z n)) z) d d).re)
    (hpos' : ∀ e, 0 < rd (cacgMstep eigh nrm floor tiny N c (fun n => cacgQuad tiny θ (z n)) z).vals e)
    (hq' : ∀ n, tiny <
      cacgQuad tiny (cacgMstep eigh nrm floor tiny N c (fun n => cacgQuad tiny θ (z n)) z) (z n)) :
    compQ (cacgFamily D eigh nrm floor tiny) c z θ
      ≤ compQ (cacgFamily D eigh nrm floor tiny) c z
          ((cacgFamily D eigh nrm floor tiny).mstep N c
            (fun n => (cacgFamily D eigh nrm floor tiny).aux θ (z n)) z) :=
  cacg_family_mstep_improves eigh nrm floor tiny c z θ ht hc hC hθ hq heig hfloor htr hpos' hq'

open Matrix in
open scoped ComplexOrder MatrixOrder in
/-- the same step at the matrix level: `B ← (d/Σc) Σ_n c_n z_n z_nᴴ / (z_nᴴ B₀⁻¹ z_n)` does not decrease
`Σ_n c_n (−d·log(z_nᴴ B⁻¹ z_n) − log det B)` -/
theorem tyler_step_Q {d : Nat} (B₀ : Matrix (Fin d) (Fin d) ℂ) (hB₀ : B₀.PosDef) (c : Fin N → ℝ)
    (z : Fin N → Fin d → ℂ) (hc : ∀ n, 0 ≤ c n) (hC : 0 < ∑ n, c n) (hq : ∀ n, 0 < qf B₀ (z n))
    (hS : (tylerS B₀ c z).PosDef) :
    ∑ n, c n * acgVal B₀ (z n) ≤ ∑ n, c n * acgVal (tylerS B₀ c z) (z n) :=
  tyler_step_improves B₀ hB₀ c z hc hC hq hS

open Matrix in
open scoped ComplexOrder MatrixOrder in
/-- the cACG density does not depend on the scale of `B`: eigenvalue, trace and no normalisation are equivalent -/
theorem cacg_scale_invariant {d : Nat} {B : Matrix (Fin d) (Fin d) ℂ} (hB : B.PosDef) {r : ℝ} (hr : 0 < r)
    {z : Fin d → ℂ} (hz : z ≠ 0) : acgVal ((r : ℂ) • B) z = acgVal B z :=
  acgVal_smul hB hr hz

/-- the eigen-form `_log_pdf` of the model is `−D·log(zᴴB⁻¹z) − log det B` for `B = U diag(λ) Uᴴ` -/
theorem cacg_logPdf_is_density {d : Nat} (tiny : ℝ) {θ : Cacg ℝ ℂ d} (hθ : Valid θ) (z : Fin d → ℂ)
    (h : tiny ≤ qf (covM θ) z) : cacgLogPdf tiny θ z = acgVal (covM θ) z :=
  cacgLogPdf_eq tiny hθ z h

end families

/-! ## Family instances of the monotonicity theorem (guards spelled out) -/
section instances
variable {D N K : Nat}

/-- **GMM, spherical covariances**: along any stretch of one fit where every class keeps mass `≥ tiny` and a positive
variance (data in general position) and the posterior clamp is inactive, the log-likelihood never decreases. -/
theorem em_monotone_gmm_spherical (tiny log2pi : ℝ) (rule : WeightRule) (tie : Tying N) (eps : ℝ)
    (s : Fin N → ℝ) (y : Fin N → Fin D → ℝ) (γ₀ : Fin (K+1) → Fin N → ℝ) (htiny : 0 < tiny) (hs : ∀ n, 0 ≤ s n)
    (heps : 0 ≤ eps) (hrule : rule = .mean → ∀ n, s n = 1) (hrule' : rule ≠ .tinyFloor) (hD : 0 < D)
    (hγ₀ : ∀ k n, 0 ≤ γ₀ k n) (hγ₀1 : ∀ n, ∑ k, γ₀ k n ≤ 1) (a b : Nat) (ha : 1 ≤ a) (hab : a ≤ b)
    (hw : ∀ i, a ≤ i → i ≤ b → ∀ k n, 0 < (fit tiny (sphFamily D tiny log2pi) rule tie eps s y i γ₀).w k n)
    (hclamp : ∀ i, a ≤ i → i < b →
      ClampFree tiny (sphFamily D tiny log2pi) (fit tiny (sphFamily D tiny log2pi) rule tie eps s y i γ₀) y)
    (hmass : ∀ i, a ≤ i → i < b → ∀ k,
      tiny ≤ ∑ n, post (sphFamily D tiny log2pi) (fit tiny (sphFamily D tiny log2pi) rule tie eps s y i γ₀) y k n * s n)
    (hvar : ∀ i, a ≤ i → i ≤ b → ∀ k, 0 < ((fit tiny (sphFamily D tiny log2pi) rule tie eps s y i γ₀).c k).var) :
    logLik (sphFamily D tiny log2pi) s (fit tiny (sphFamily D tiny log2pi) rule tie eps s y a γ₀) y
      ≤ logLik (sphFamily D tiny log2pi) s (fit tiny (sphFamily D tiny log2pi) rule tie eps s y b γ₀) y := by
  refine EmProof.em_monotone tiny _ rule tie eps s y γ₀ htiny hs heps hrule hγ₀ hγ₀1 a b ha hab hw hclamp
    (fun i _ _ => floorFree_of_ne rule tie eps _ s _ _ hrule') ?_
  intro i h1 h2 k
  have hi1 : 1 ≤ i := le_trans ha h1
  refine sph_mstep_improves tiny log2pi _ _ y _ htiny (hmass i h1 h2 k) hD (hvar i h1 h2.le k) ?_
  have := hvar (i+1) (by omega) (by omega) k
  rw [fit_succ_c tiny _ rule tie eps s y γ₀ i hi1 htiny (hclamp i h1 h2) k] at this
  exact this

/-- **GMM, diagonal covariances** -/
theorem em_monotone_gmm_diagonal (tiny log2pi : ℝ) (rule : WeightRule) (tie : Tying N) (eps : ℝ)
    (s : Fin N → ℝ) (y : Fin N → Fin D → ℝ) (γ₀ : Fin (K+1) → Fin N → ℝ) (htiny : 0 < tiny) (hs : ∀ n, 0 ≤ s n)
    (heps : 0 ≤ eps) (hrule : rule = .mean → ∀ n, s n = 1) (hrule' : rule ≠ .tinyFloor)
    (hγ₀ : ∀ k n, 0 ≤ γ₀ k n) (hγ₀1 : ∀ n, ∑ k, γ₀ k n ≤ 1) (a b : Nat) (ha : 1 ≤ a) (hab : a ≤ b)
    (hw : ∀ i, a ≤ i → i ≤ b → ∀ k n, 0 < (fit tiny (diagFamily D tiny log2pi) rule tie eps s y i γ₀).w k n)
    (hclamp : ∀ i, a ≤ i → i < b →
      ClampFree tiny (diagFamily D tiny log2pi) (fit tiny (diagFamily D tiny log2pi) rule tie eps s y i γ₀) y)
    (hmass : ∀ i, a ≤ i → i < b → ∀ k,
      tiny ≤ ∑ n, post (diagFamily D tiny log2pi) (fit tiny (diagFamily D tiny log2pi) rule tie eps s y i γ₀) y k n * s n)
    (hvar : ∀ i, a ≤ i → i ≤ b → ∀ k d,
      0 < rd ((fit tiny (diagFamily D tiny log2pi) rule tie eps s y i γ₀).c k).var d) :
    logLik (diagFamily D tiny log2pi) s (fit tiny (diagFamily D tiny log2pi) rule tie eps s y a γ₀) y
      ≤ logLik (diagFamily D tiny log2pi) s (fit tiny (diagFamily D tiny log2pi) rule tie eps s y b γ₀) y := by
  refine EmProof.em_monotone tiny _ rule tie eps s y γ₀ htiny hs heps hrule hγ₀ hγ₀1 a b ha hab hw hclamp
    (fun i _ _ => floorFree_of_ne rule tie eps _ s _ _ hrule') ?_
  intro i h1 h2 k
  have hi1 : 1 ≤ i := le_trans ha h1
  refine diag_mstep_improves tiny log2pi _ _ y _ htiny (hmass i h1 h2 k) (hvar i h1 h2.le k) ?_
  have := hvar (i+1) (by omega) (by omega) k
  rw [fit_succ_c tiny _ rule tie eps s y γ₀ i hi1 htiny (hclamp i h1 h2) k] at this
  exact this

/-- **GMM, full covariances** (the default `covariance_type`): along any stretch of one fit on which every class keeps
mass `≥ tiny` and sklearn's precision-Cholesky routine meets its contract on every class covariance (which includes:
the covariance is positive definite — data in general position), the log-likelihood never decreases. -/
theorem em_monotone_gmm_full (tiny log2pi : ℝ) (pchol : Tab D (Tab D ℝ) → Tab D (Tab D ℝ) × ℝ)
    (rule : WeightRule) (tie : Tying N) (eps : ℝ)
    (s : Fin N → ℝ) (y : Fin N → Fin D → ℝ) (γ₀ : Fin (K+1) → Fin N → ℝ) (htiny : 0 < tiny) (hs : ∀ n, 0 ≤ s n)
    (heps : 0 ≤ eps) (hrule : rule = .mean → ∀ n, s n = 1) (hrule' : rule ≠ .tinyFloor)
    (hγ₀ : ∀ k n, 0 ≤ γ₀ k n) (hγ₀1 : ∀ n, ∑ k, γ₀ k n ≤ 1) (a b : Nat) (ha : 1 ≤ a) (hab : a ≤ b)
    (hw : ∀ i, a ≤ i → i ≤ b → ∀ k n, 0 < (fit tiny (fullFamily D pchol tiny log2pi) rule tie eps s y i γ₀).w k n)
    (hclamp : ∀ i, a ≤ i → i < b → ClampFree tiny (fullFamily D pchol tiny log2pi)
      (fit tiny (fullFamily D pchol tiny log2pi) rule tie eps s y i γ₀) y)
    (hmass : ∀ i, a ≤ i → i < b → ∀ k, tiny ≤ ∑ n, post (fullFamily D pchol tiny log2pi)
      (fit tiny (fullFamily D pchol tiny log2pi) rule tie eps s y i γ₀) y k n * s n)
    (hchol : ∀ i, a ≤ i → i ≤ b → ∀ k,
      PcholOk ((fit tiny (fullFamily D pchol tiny log2pi) rule tie eps s y i γ₀).c k).cov
        (pchol ((fit tiny (fullFamily D pchol tiny log2pi) rule tie eps s y i γ₀).c k).cov)) :
    logLik (fullFamily D pchol tiny log2pi) s (fit tiny (fullFamily D pchol tiny log2pi) rule tie eps s y a γ₀) y
      ≤ logLik (fullFamily D pchol tiny log2pi) s (fit tiny (fullFamily D pchol tiny log2pi) rule tie eps s y b γ₀) y := by
  refine EmProof.em_monotone tiny _ rule tie eps s y γ₀ htiny hs heps hrule hγ₀ hγ₀1 a b ha hab hw hclamp
    (fun i _ _ => floorFree_of_ne rule tie eps _ s _ _ hrule') ?_
  intro i h1 h2 k
  have hi1 : 1 ≤ i := le_trans ha h1
  have hpost0 : ∀ n, 0 ≤ post (fullFamily D pchol tiny log2pi)
      (fit tiny (fullFamily D pchol tiny log2pi) rule tie eps s y i γ₀) y k n * s n :=
    fun n => mul_nonneg (post_pos _ _ y (hw i h1 h2.le) k n).le (hs n)
  refine full_mstep_improves_of_nonneg pchol tiny log2pi _ _ y _ htiny hpost0 (hmass i h1 h2 k) (hchol i h1 h2.le k) ?_
  have := hchol (i+1) (by omega) (by omega) k
  rw [fit_succ_c tiny _ rule tie eps s y γ₀ i hi1 htiny (hclamp i h1 h2) k] at this
  exact this

/-- **cWMM**: with `get_pca` meeting its contract on every scatter it is handed, a concentration map `kinv ≥ 0`, and the
exact (unclipped) concentration update on the stretch (`TangentAt`), the log-likelihood never decreases. -/
theorem em_monotone_cwmm (tiny : ℝ) (pca : Tab D (Tab D ℂ) → Tab D ℂ × ℝ) (kinv lnorm : ℝ → ℝ)
    (rule : WeightRule) (tie : Tying N) (eps : ℝ)
    (s : Fin N → ℝ) (z : Fin N → Fin D → ℂ) (γ₀ : Fin (K+1) → Fin N → ℝ) (htiny : 0 < tiny) (hs : ∀ n, 0 ≤ s n)
    (heps : 0 ≤ eps) (hrule : rule = .mean → ∀ n, s n = 1) (hrule' : rule ≠ .tinyFloor)
    (hγ₀ : ∀ k n, 0 ≤ γ₀ k n) (hγ₀1 : ∀ n, ∑ k, γ₀ k n ≤ 1) (a b : Nat) (ha : 1 ≤ a) (hab : a ≤ b)
    (hpca : ∀ w : Fin N → ℝ, PcaContract (rd2 (watsonScatter w z)) (pca (watsonScatter w z)))
    (hkinv : ∀ x, 0 ≤ kinv x)
    (hw : ∀ i, a ≤ i → i ≤ b → ∀ k n, 0 < (fit tiny (watsonFamily D pca kinv lnorm) rule tie eps s z i γ₀).w k n)
    (hclamp : ∀ i, a ≤ i → i < b →
      ClampFree tiny (watsonFamily D pca kinv lnorm) (fit tiny (watsonFamily D pca kinv lnorm) rule tie eps s z i γ₀) z)
    (hmass : ∀ i, a ≤ i → i < b → ∀ k,
      0 < ∑ n, post (watsonFamily D pca kinv lnorm) (fit tiny (watsonFamily D pca kinv lnorm) rule tie eps s z i γ₀) z k n * s n)
    (htan : ∀ i, a ≤ i → i < b → ∀ k,
      let c := fun n => post (watsonFamily D pca kinv lnorm)
        (fit tiny (watsonFamily D pca kinv lnorm) rule tie eps s z i γ₀) z k n * s n
      TangentAt lnorm (kinv (pca (watsonScatter c z)).2) (pca (watsonScatter c z)).2) :
    logLik (watsonFamily D pca kinv lnorm) s (fit tiny (watsonFamily D pca kinv lnorm) rule tie eps s z a γ₀) z
      ≤ logLik (watsonFamily D pca kinv lnorm) s (fit tiny (watsonFamily D pca kinv lnorm) rule tie eps s z b γ₀) z := by
  refine EmProof.em_monotone tiny _ rule tie eps s z γ₀ htiny hs heps hrule hγ₀ hγ₀1 a b ha hab hw hclamp
    (fun i _ _ => floorFree_of_ne rule tie eps _ s _ _ hrule') ?_
  intro i h1 h2 k
  have hi1 : 1 ≤ i := le_trans ha h1
  obtain ⟨w, aux, hc⟩ := fit_c_mstep tiny (watsonFamily D pca kinv lnorm) rule tie eps s z γ₀ i hi1 k
  have hc' : (fit tiny (watsonFamily D pca kinv lnorm) rule tie eps s z i γ₀).c k
      = watsonMstep pca kinv lnorm N w aux z := hc
  have hv := watsonMstep_valid pca kinv lnorm w aux z (hpca w)
  refine watson_mstep_improves pca kinv lnorm _ _ z _ (hmass i h1 h2 k) ?_ ?_ ?_ (hpca _) (htan i h1 h2 k)
  · rw [hc']; exact hv.1
  · rw [hc']; exact hkinv _
  · rw [hc']; exact hv.2

/-- **cWMM with the true log-normaliser** `C + log ₁F₁(1; D; κ)`: the `TangentAt` hypothesis of `em_monotone_cwmm` is
replaced by "the concentration map inverts the hypergeometric ratio exactly on the eigenvalues the stretch meets". -/
theorem em_monotone_cwmm_exact (hD : 2 ≤ D) (C tiny : ℝ) (pca : Tab D (Tab D ℂ) → Tab D ℂ × ℝ) (kinv : ℝ → ℝ)
    (rule : WeightRule) (tie : Tying N) (eps : ℝ)
    (s : Fin N → ℝ) (z : Fin N → Fin D → ℂ) (γ₀ : Fin (K+1) → Fin N → ℝ) (htiny : 0 < tiny) (hs : ∀ n, 0 ≤ s n)
    (heps : 0 ≤ eps) (hrule : rule = .mean → ∀ n, s n = 1) (hrule' : rule ≠ .tinyFloor)
    (hγ₀ : ∀ k n, 0 ≤ γ₀ k n) (hγ₀1 : ∀ n, ∑ k, γ₀ k n ≤ 1) (a b : Nat) (ha : 1 ≤ a) (hab : a ≤ b)
    (hpca : ∀ w : Fin N → ℝ, PcaContract (rd2 (watsonScatter w z)) (pca (watsonScatter w z)))
    (hkinv : ∀ x, 0 ≤ kinv x)
    (hw : ∀ i, a ≤ i → i ≤ b → ∀ k n,
      0 < (fit tiny (watsonFamily D pca kinv (watsonLogNorm D C)) rule tie eps s z i γ₀).w k n)
    (hclamp : ∀ i, a ≤ i → i < b →
      ClampFree tiny (watsonFamily D pca kinv (watsonLogNorm D C))
        (fit tiny (watsonFamily D pca kinv (watsonLogNorm D C)) rule tie eps s z i γ₀) z)
    (hmass : ∀ i, a ≤ i → i < b → ∀ k,
      0 < ∑ n, post (watsonFamily D pca kinv (watsonLogNorm D C))
        (fit tiny (watsonFamily D pca kinv (watsonLogNorm D C)) rule tie eps s z i γ₀) z k n * s n)
    (hinv : ∀ i, a ≤ i → i < b → ∀ k,
      let c := fun n => post (watsonFamily D pca kinv (watsonLogNorm D C))
        (fit tiny (watsonFamily D pca kinv (watsonLogNorm D C)) rule tie eps s z i γ₀) z k n * s n
      watsonRatio D (kinv (pca (watsonScatter c z)).2) = (pca (watsonScatter c z)).2) :
    logLik (watsonFamily D pca kinv (watsonLogNorm D C)) s
        (fit tiny (watsonFamily D pca kinv (watsonLogNorm D C)) rule tie eps s z a γ₀) z
      ≤ logLik (watsonFamily D pca kinv (watsonLogNorm D C)) s
        (fit tiny (watsonFamily D pca kinv (watsonLogNorm D C)) rule tie eps s z b γ₀) z :=
  em_monotone_cwmm tiny pca kinv (watsonLogNorm D C) rule tie eps s z γ₀ htiny hs heps hrule hrule' hγ₀ hγ₀1 a b ha hab
    hpca hkinv hw hclamp hmass
    (fun i h1 h2 k => EmProof.watson_tangent_exact D hD C kinv _ (hinv i h1 h2 k))

/-- **cACGMM** (every `covariance_norm`): along any stretch of one fit on which the stored cACG parameters are valid
(orthonormal eigenvectors, positive eigenvalues), `eigh` meets its contract and no floor is active (class mass,
quadratic forms `≥ 10·tiny`, eigenvalue / trace floors), the log-likelihood never decreases. -/
theorem em_monotone_cacgmm (tiny floor : ℝ)
    (eigh : Tab (D+1) (Tab (D+1) ℂ) → Tab (D+1) (Tab (D+1) ℂ) × Tab (D+1) ℝ) (nrm : CovNorm)
    (rule : WeightRule) (tie : Tying N) (eps : ℝ)
    (s : Fin N → ℝ) (z : Fin N → Fin (D+1) → ℂ) (γ₀ : Fin (K+1) → Fin N → ℝ) (htiny : 0 < tiny) (hs : ∀ n, 0 ≤ s n)
    (heps : 0 ≤ eps) (hrule : rule = .mean → ∀ n, s n = 1) (hrule' : rule ≠ .tinyFloor)
    (hγ₀ : ∀ k n, 0 ≤ γ₀ k n) (hγ₀1 : ∀ n, ∑ k, γ₀ k n ≤ 1) (a b : Nat) (ha : 1 ≤ a) (hab : a ≤ b)
    (hw : ∀ i, a ≤ i → i ≤ b → ∀ k n, 0 < (fit tiny (cacgFamily D eigh nrm floor tiny) rule tie eps s z i γ₀).w k n)
    (hclamp : ∀ i, a ≤ i → i < b → ClampFree tiny (cacgFamily D eigh nrm floor tiny)
      (fit tiny (cacgFamily D eigh nrm floor tiny) rule tie eps s z i γ₀) z)
    (hvalid : ∀ i, a ≤ i → i ≤ b → ∀ k, Valid ((fit tiny (cacgFamily D eigh nrm floor tiny) rule tie eps s z i γ₀).c k))
    (hquad : ∀ i, a ≤ i → i ≤ b → ∀ k n,
      10 * tiny ≤ cacgQuad tiny ((fit tiny (cacgFamily D eigh nrm floor tiny) rule tie eps s z i γ₀).c k) (z n))
    (hstep : ∀ i, a ≤ i → i < b → ∀ k,
      let θ := fit tiny (cacgFamily D eigh nrm floor tiny) rule tie eps s z i γ₀
      let c := fun n => post (cacgFamily D eigh nrm floor tiny) θ z k n * s n
      let A := cacgScatter nrm tiny N c (fun n => cacgQuad tiny (θ.c k) (z n)) z
      tiny ≤ ∑ n, c n ∧ EighOk A (eigh A) ∧ EigGuard nrm floor tiny (rd (eigh A).2) ∧
      (nrm = .trace →
        tiny ≤ ∑ d, (rd2 (cacgScatter .none tiny N c (fun n => cacgQuad tiny (θ.c k) (z n)) z) d d).re)) :
    logLik (cacgFamily D eigh nrm floor tiny) s (fit tiny (cacgFamily D eigh nrm floor tiny) rule tie eps s z a γ₀) z
      ≤ logLik (cacgFamily D eigh nrm floor tiny) s
          (fit tiny (cacgFamily D eigh nrm floor tiny) rule tie eps s z b γ₀) z := by
  refine EmProof.em_monotone tiny _ rule tie eps s z γ₀ htiny hs heps hrule hγ₀ hγ₀1 a b ha hab hw hclamp
    (fun i _ _ => floorFree_of_ne rule tie eps _ s _ _ hrule') ?_
  intro i h1 h2 k
  have hi1 : 1 ≤ i := le_trans ha h1
  obtain ⟨hC, heig, hfl, htr⟩ := hstep i h1 h2 k
  have hnext := fit_succ_c tiny (cacgFamily D eigh nrm floor tiny) rule tie eps s z γ₀ i hi1 htiny (hclamp i h1 h2) k
  have hpost0 : ∀ n, 0 ≤ post (cacgFamily D eigh nrm floor tiny)
      (fit tiny (cacgFamily D eigh nrm floor tiny) rule tie eps s z i γ₀) z k n * s n :=
    fun n => mul_nonneg (post_pos _ _ z (hw i h1 h2.le) k n).le (hs n)
  refine cacg_family_mstep_improves eigh nrm floor tiny _ z _ htiny hpost0 hC (hvalid i h1 h2.le k)
    (hquad i h1 h2.le k) heig hfl htr ?_ ?_
  · have := (hvalid (i+1) (by omega) (by omega) k).pos
    rw [hnext] at this
    exact this
  · intro n
    have := hquad (i+1) (by omega) (by omega) k n
    rw [hnext] at this
    have h10 : tiny < 10 * tiny := by linarith
    exact lt_of_lt_of_le h10 this

/-- **GCACGMM with unit stream weights** (`prodFamily (sliced cACG) fam₂`: one cACG per class and frequency bin, one
second-stream component per class shared by all bins; inline weight update with its `tiny` floor = `WeightRule.tinyFloor`):
along any stretch of one fit on which the weight floor and the posterior clamp are inactive, the second stream's M-step
does not decrease its part of `Q` (`h₂`; discharged by `sph_mstep_Q` / `diag_mstep_Q` / `full_mstep_Q` for the three
`covariance_type`s) and every bin's cACG step meets the guards of `cacg_mstep_Q`, the log-likelihood never decreases. -/
theorem em_monotone_gcacgmm {F : Nat} {Θ₂ Y₂ : Type} (tiny floor : ℝ)
    (eigh : Tab (D+1) (Tab (D+1) ℂ) → Tab (D+1) (Tab (D+1) ℂ) × Tab (D+1) ℝ) (nrm : CovNorm)
    (fam₂ : Family Θ₂ Y₂ ℝ) (rule : WeightRule) (tie : Tying N) (eps : ℝ)
    (s : Fin N → ℝ) (y : Fin N → (Fin F × (Fin (D+1) → ℂ)) × Y₂) (γ₀ : Fin (K+1) → Fin N → ℝ)
    (htiny : 0 < tiny) (hs : ∀ n, 0 ≤ s n) (heps : 0 ≤ eps) (hrule : rule = .mean → ∀ n, s n = 1)
    (hγ₀ : ∀ k n, 0 ≤ γ₀ k n) (hγ₀1 : ∀ n, ∑ k, γ₀ k n ≤ 1) (a b : Nat) (ha : 1 ≤ a) (hab : a ≤ b) :
    let fam := prodFamily (sliced (F := F) (cacgFamily D eigh nrm floor tiny)) fam₂
    let fitI := fun i => fit tiny fam rule tie eps s y i γ₀
    (∀ i, a ≤ i → i ≤ b → ∀ k n, 0 < (fitI i).w k n) →
    (∀ i, a ≤ i → i < b → ClampFree tiny fam (fitI i) y) →
    (∀ i, a ≤ i → i < b → FloorFree rule tie eps fam s y (fitI i)) →
    -- second stream: exact / non-decreasing M-step
    (∀ i, a ≤ i → i < b → ∀ k,
      let c := fun n => post fam (fitI i) y k n * s n
      compQ fam₂ c (fun n => (y n).2) ((fitI i).c k).2
        ≤ compQ fam₂ c (fun n => (y n).2) (fam₂.mstep N c (fun _ => 1) (fun n => (y n).2))) →
    -- spatial stream: every bin's Tyler step is guard-free
    (∀ i, a ≤ i → i < b → ∀ k f,
      let c := fun n => if ((y n).1).1 = f then post fam (fitI i) y k n * s n else 0
      let θ := rd ((fitI i).c k).1 f
      let z := fun n => ((y n).1).2
      let A := cacgScatter nrm tiny N c (fun n => cacgQuad tiny θ (z n)) z
      let θ' := cacgMstep eigh nrm floor tiny N c (fun n => cacgQuad tiny θ (z n)) z
      tiny ≤ ∑ n, c n ∧ Valid θ ∧ (∀ n, 10 * tiny ≤ cacgQuad tiny θ (z n)) ∧ EighOk A (eigh A) ∧
      EigGuard nrm floor tiny (rd (eigh A).2) ∧
      (nrm = .trace → tiny ≤ ∑ d, (rd2 (cacgScatter .none tiny N c (fun n => cacgQuad tiny θ (z n)) z) d d).re) ∧
      (∀ e, 0 < rd θ'.vals e) ∧ (∀ n, tiny < cacgQuad tiny θ' (z n))) →
    logLik fam s (fitI a) y ≤ logLik fam s (fitI b) y := by
  intro fam fitI hw hclamp hfloor h₂ hbin
  refine EmProof.em_monotone tiny fam rule tie eps s y γ₀ htiny hs heps hrule hγ₀ hγ₀1 a b ha hab hw hclamp hfloor ?_
  intro i h1 h2 k
  have hpost0 : ∀ n, 0 ≤ post fam (fitI i) y k n * s n :=
    fun n => mul_nonneg (post_pos _ _ y (hw i h1 h2.le) k n).le (hs n)
  refine prod_mstep_improves _ fam₂ _ _ y _ ?_ (h₂ i h1 h2 k)
  refine sliced_cacg_mstep_improves eigh nrm floor tiny _ (fun n => (y n).1) _ fun f => ?_
  obtain ⟨hC, hval, hq, heig, hfl, htr, hpos', hq'⟩ := hbin i h1 h2 k f
  have hc0 : ∀ n, 0 ≤ (if ((y n).1).1 = f then post fam (fitI i) y k n * s n else 0) := by
    intro n; split_ifs
    · exact hpost0 n
    · exact le_refl _
  exact cacg_family_mstep_improves eigh nrm floor tiny _ _ _ htiny hc0 hC hval hq heig hfl htr hpos' hq'

end instances

/-! ## Non-vacuity -/
section examples

/-- `sph_mstep_Q`'s hypotheses hold for two points `0, 2` with unit weights against a unit-variance start -/
example : (0 : ℝ) < 1e-10 ∧ (1e-10 : ℝ) ≤ ∑ n : Fin 2, (fun _ => (1 : ℝ)) n ∧ 0 < 1 ∧
    0 < (⟨tab fun _ => 0, 1⟩ : SphG ℝ 1).var ∧
    0 < (sphMstep (D := 1) 1e-10 2 (fun _ => (1 : ℝ)) (fun _ => 1) (fun n _ => if n = 0 then 0 else 2)).var := by
  refine ⟨by norm_num, by norm_num, by norm_num, by norm_num, ?_⟩
  simp [sphMstep, gaussMean, vsum_eq_sum, Fin.sum_univ_two]
  norm_num

/-- **Every hypothesis of `em_monotone_gmm_spherical` is met by a concrete trajectory** with `a = 1 < b = 3` (one class,
observations `0, 2`, unit saliency; `PbBss/Proofs/EmNonVacuous.lean` computes every iterate: weight 1, mean 1,
variance 1), so the monotonicity theorem is not vacuous. -/
example :
    let tiny : ℝ := 1e-10
    let fam := sphFamily (α := ℝ) 1 tiny 1
    let fitI := fun i => fit (K := 0) tiny fam .unitNorm NV.tie (1e-10) (fun _ => 1) NV.y i (fun _ _ => 1)
    (∀ i, 1 ≤ i → i ≤ 3 → ∀ k n, 0 < (fitI i).w k n) ∧
    (∀ i, 1 ≤ i → i < 3 → ClampFree tiny fam (fitI i) NV.y) ∧
    (∀ i, 1 ≤ i → i < 3 → ∀ k, tiny ≤ ∑ n, post fam (fitI i) NV.y k n * 1) ∧
    (∀ i, 1 ≤ i → i ≤ 3 → ∀ k, 0 < ((fitI i).c k).var) := by
  intro tiny fam fitI
  have h : ∀ i, 1 ≤ i → fitI i = NV.θs := NV.fitN_eq
  refine ⟨fun i h1 _ k n => ?_, fun i h1 _ => ?_, fun i h1 _ k => ?_, fun i h1 _ k => ?_⟩
  · rw [h i h1]; exact NV.w_pos k n
  · rw [h i h1]; exact NV.clampFree
  · rw [h i h1]
    have hk : k = 0 := Fin.ext (by omega)
    subst hk
    exact NV.mass
  · rw [h i h1]; exact NV.var_pos k

/-- `TangentAt` is satisfiable: `f x = x²` at `x0 = 1` with slope `2` -/
example : TangentAt (fun x : ℝ => x ^ 2) 1 2 := by
  intro x; nlinarith [sq_nonneg (x - 1)]

end examples

end PbBss.C02

import PbBss.Proofs.TrainersProof
/-! # C08 — trainers return the documented weighted estimators; EM alternates them

Statements only (helper lemmas: `PbBss/Proofs/TrainersProof.lean`).  Model: `PbBss/Model/Trainers.lean`, the same
definitions the driver `driver_trainers` executes on `Float` against the real trainers (`harness/props/c08.py`).
`sal = none` is `saliency=None`, `some s` a saliency array.  `eigh`, the spline inverse of the hypergeometric ratio
and the bounded solver of the Bingham eigenvalues are parameters with the contract of DESIGN.md 2.1
(`EighContract`). -/
namespace PbBss.C08
open PbBss PbBss.Align PbBss.Trainers Finset

section gaussian
variable {N D : Nat}

/-- Gaussian trainers: weighted sample mean and pooled weighted scatter about that mean, for the three covariance
types (`tiny ≤ Σ s` is the floor of the denominator not being active). -/
theorem gaussian_fit_formulas (tiny : ℝ) (s : Fin N → ℝ) (y : Fin N → Fin D → ℝ) (hs : tiny ≤ ∑ n, s n) :
    let μ := gaussMean tiny (some s) y
    (∀ d, μ d = (∑ n, s n * y n d) / ∑ n, s n) ∧
    (∀ d e, gaussCovFull tiny (some s) y d e = (∑ n, s n * (y n d - μ d) * (y n e - μ e)) / ∑ n, s n) ∧
    (∀ d, gaussCovDiag tiny (some s) y d = (∑ n, s n * (y n d - μ d) * (y n d - μ d)) / ∑ n, s n) ∧
    gaussCovSph tiny (some s) y = (∑ d, (∑ n, s n * (y n d - μ d) * (y n d - μ d)) / ∑ n, s n) / D := by
  intro μ
  have hden := denFloor_some tiny s hs
  refine ⟨fun d => ?_, fun d e => ?_, fun d => ?_, ?_⟩
  · simp only [μ, gaussMean_eq, hden, wOf_some]
  · simp only [μ, gaussCovFull_eq, hden, wOf_some]
  · simp only [μ, gaussCovDiag_eq, gaussCovFull_eq, hden, wOf_some]
  · simp only [μ, gaussCovSph_eq, gaussCovFull_eq, hden, wOf_some]

/-- `saliency=None` is the weighted estimator with unit weights (denominator `N`) -/
theorem gaussian_fit_unweighted (tiny : ℝ) (y : Fin N → Fin D → ℝ) (hN : tiny ≤ (N : ℝ)) (d e : Fin D) :
    gaussMean tiny none y d = gaussMean tiny (some fun _ => 1) y d ∧
    gaussCovFull tiny none y d e = gaussCovFull tiny (some fun _ => 1) y d e := by
  have h1 : denFloor tiny (some fun _ : Fin N => (1 : ℝ)) = (N : ℝ) := by
    rw [denFloor_some]; · simp
    · simpa using hN
  have hm : ∀ d, gaussMean tiny none y d = gaussMean tiny (some fun _ => 1) y d := by
    intro d; simp only [gaussMean_eq, h1, denFloor_none, wOf_some, wOf_none]
  refine ⟨hm d, ?_⟩
  simp only [gaussCovFull_eq, h1, denFloor_none, wOf_some, wOf_none, hm]

/-- the weighted mean minimises the weighted sum of squared distances (what makes it "the" location estimate) -/
theorem wmean_minimises (tiny : ℝ) (s : Fin N → ℝ) (y : Fin N → Fin D → ℝ) (hs : tiny ≤ ∑ n, s n)
    (hpos : 0 < ∑ n, s n) (m : Fin D → ℝ) :
    ∑ n, s n * ∑ d, (y n d - gaussMean tiny (some s) y d) ^ 2 ≤ ∑ n, s n * ∑ d, (y n d - m d) ^ 2 := by
  simp_rw [Finset.mul_sum]
  rw [Finset.sum_comm, Finset.sum_comm (f := fun n d => s n * (y n d - m d) ^ 2)]
  apply Finset.sum_le_sum
  intro d _
  have := wmean_min_1d s (fun n => y n d) hpos (m d)
  simpa only [gaussMean_eq, denFloor_some tiny s hs, wOf_some] using this

/-- complex Gaussian: `Σ = Σ_n s_n y_n y_nᴴ / Σ_n s_n` -/
theorem cgauss_fit (tiny : ℝ) (s : Fin N → ℝ) (y : Fin N → Fin D → ℂ) (hs : tiny ≤ ∑ n, s n) (d e : Fin D) :
    cgaussCov tiny (some s) y d e =
      (∑ n, (s n : ℂ) * y n d * (starRingEnd ℂ) (y n e)) / ((∑ n, s n : ℝ) : ℂ) := by
  simp only [cgaussCov, vsum_eq_sum, wOf_some, cx_ofReal, cx_conj, denFloor_some tiny s hs]

/-- vMF: mean = normalised weighted resultant of the normalised data, concentration = Banerjee's approximation at
`r̄ = min(‖R‖ / Σ s, 1)`, clipped to `[lo, hi]` -/
theorem vmf_fit (tiny lo hi : ℝ) (s : Fin N → ℝ) (y : Fin N → Fin D → ℝ)
    (hR : tiny ≤ vecNorm (vmfResultant (some s) (unitRowsR tiny y))) :
    let R := vmfResultant (some s) (unitRowsR tiny y)
    let rbar := min (Real.sqrt (∑ d, R d * R d) / ∑ n, s n) 1
    (∀ d, R d = ∑ n, s n * (y n d / max (Real.sqrt (∑ e, y n e * y n e)) tiny)) ∧
    (∀ d, (vmfFit tiny lo hi (some s) y).1 d = R d / Real.sqrt (∑ d, R d * R d)) ∧
    (vmfFit tiny lo hi (some s) y).2 = min (max ((rbar * D - rbar * rbar * rbar) / (1 - rbar * rbar)) lo) hi := by
  intro R rbar
  have hfun : at1 (tab1 (vmfResultant (some s) (unitRowsR tiny y))) = vmfResultant (some s) (unitRowsR tiny y) := by
    funext d; simp
  refine ⟨fun d => ?_, fun d => ?_, ?_⟩
  · simp [R, vmfResultant, unitRowsR, vsum_eq_sum, wOf_some]
  · have hR' := hR
    rw [vecNorm_eq] at hR'
    simp only [vmfFit, hfun, vmfMean, vecNorm_eq, max_eq_left hR', R]
  · simp only [vmfFit, hfun, vmfConcentration, clip, banerjee, vmfRbar, vecNorm_eq, vsum_eq_sum, wOf_some, rbar, R]
end gaussian

section eig
variable {N D : Nat}

/-- complex Watson: under the `eigh` contract the mode is a unit-norm eigenvector of the weighted scatter of the
normalised data for the LARGEST eigenvalue, and the concentration is the (clipped, tabulated) inverse ratio at that
eigenvalue -/
theorem watson_fit (yLo yHi maxc : ℝ) (spl : ℝ → ℝ)
    (eigh : (Fin (D+1) → Fin (D+1) → ℂ) → Eig ℝ ℂ (D+1)) (sal : Option (Fin N → ℝ)) (z : Fin N → Fin (D+1) → ℂ)
    (hc : EighContract (scatterPlain sal z) (eigh (scatterPlain sal z))) :
    let E := eigh (scatterPlain sal z)
    let r := watsonFit yLo yHi maxc spl eigh sal z
    (∀ d, ∑ e, scatterPlain sal z d e * r.1 e = (E.vals (Fin.last D) : ℂ) * r.1 d) ∧
    (∑ d, (starRingEnd ℂ) (r.1 d) * r.1 d = 1) ∧
    (∀ i, E.vals i ≤ E.vals (Fin.last D)) ∧
    r.2 = watsonConcentration yLo yHi maxc spl (E.vals (Fin.last D)) :=
  watsonFit_spec yLo yHi maxc spl eigh sal z hc

/-- "principal": the top eigenvalue is the maximum of the Rayleigh quotient, `vᴴ S v ≤ λ_last ‖v‖²` for every `v`
(the quadratic form being the real number `Σ_i λ_i |u_iᴴ v|²`) -/
theorem watson_mode_maximises (eigh : (Fin (D+1) → Fin (D+1) → ℂ) → Eig ℝ ℂ (D+1)) (sal : Option (Fin N → ℝ))
    (z : Fin N → Fin (D+1) → ℂ) (hc : EighContract (scatterPlain sal z) (eigh (scatterPlain sal z)))
    (v : Fin (D+1) → ℂ) :
    let E := eigh (scatterPlain sal z)
    ∃ r : ℝ, (∑ d, ∑ e, (starRingEnd ℂ) (v d) * scatterPlain sal z d e * v e) = (r : ℂ) ∧
      r ≤ E.vals (Fin.last D) * ∑ d, Complex.normSq (v d) :=
  ⟨_, (rayleigh_le_top hc v).1, (rayleigh_le_top hc v).2⟩

/-- the scatter the Watson / Bingham trainers decompose: `Σ_n s_n z_n z_nᴴ / Σ_n s_n` -/
theorem scatter_formula (s : Fin N → ℝ) (z : Fin N → Fin D → ℂ) (d e : Fin D) :
    scatterPlain (some s) z d e = (∑ n, (s n : ℂ) * z n d * (starRingEnd ℂ) (z n e)) / ((∑ n, s n : ℝ) : ℂ) := by
  simp only [scatterPlain, denPlain, vsum_eq_sum, wOf_some, cx_ofReal, cx_conj]

/-- cACG `_fit`: the new covariance is the eigenvalue-normalised Tyler-type scatter
`B⁺ = C / λ_max(C)`, `C = herm(D Σ_n γ_n z_n z_nᴴ / q_n / Σ_n γ_n)` (no floor active, `λ_max ≥ tiny`) -/
theorem cacg_step (tiny qfloor floor : ℝ) (eigh : (Fin (D+1) → Fin (D+1) → ℂ) → Eig ℝ ℂ (D+1))
    (sal : Option (Fin N → ℝ)) (q : Fin N → ℝ) (z : Fin N → Fin (D+1) → ℂ)
    (hq : ∀ n, qfloor ≤ q n) (hden : tiny ≤ denPlain sal) (ht : 0 < tiny) :
    let C := forceHermitian (α := ℝ) (cacgCov tiny qfloor sal q z)
    EighContract C (eigh C) → tiny ≤ vmax (eigh C).vals → (∀ i, floor ≤ (eigh C).vals i / vmax (eigh C).vals) →
    (∀ d e, cacgCov tiny qfloor sal q z d e =
        (((D + 1 : ℕ) : ℝ) : ℂ) * (∑ n, z n d * (starRingEnd ℂ) (z n e) * ((wOf sal n / q n : ℝ) : ℂ)) / ((denPlain sal : ℝ) : ℂ)) ∧
    (∀ d e, eigCovariance (cacgStep true .eigenvalue tiny qfloor floor eigh sal q z) d e =
        C d e / ((vmax (eigh C).vals : ℝ) : ℂ)) := by
  intro C hc hmax hfloor
  refine ⟨fun d e => cacgCov_eq tiny qfloor sal q z hq hden d e, fun d e => ?_⟩
  rw [cacgStep_eq]
  exact fromCovariance_eigenvalue_cov tiny floor eigh C hc hmax ht hfloor d e

/-- fixed point of the iteration `fit` runs: if the model `m` reproduces itself through one `_fit` with its own
quadratic forms `q_n = max(|z_nᴴ B⁻¹ z_n|, tiny)`, then `B = C(B) / λ_max`, `C(B) = herm((D/N) Σ_n z_n z_nᴴ / q_n)`:
Tyler's fixed-point equation up to the scale fixed by the eigenvalue normalisation -/
theorem cacg_fixed_point (tiny qfloor floor : ℝ) (eigh : (Fin (D+1) → Fin (D+1) → ℂ) → Eig ℝ ℂ (D+1))
    (z : Fin N → Fin (D+1) → ℂ) (m : Eig ℝ ℂ (D+1)) (ht : 0 < tiny)
    (hfix : m = cacgStep true .eigenvalue tiny qfloor floor eigh none (fun n => cacgQuad tiny m (z n)) z) :
    let q := fun n => cacgQuad tiny m (z n)
    let C := forceHermitian (α := ℝ) (cacgCov tiny qfloor none q z)
    EighContract C (eigh C) → tiny ≤ vmax (eigh C).vals → (∀ i, floor ≤ (eigh C).vals i / vmax (eigh C).vals) →
    (∀ d e, eigCovariance m d e = C d e / ((vmax (eigh C).vals : ℝ) : ℂ)) ∧
    (∀ n, q n = max (Real.sqrt (Complex.normSq
        (∑ d, ∑ e, (starRingEnd ℂ) (z n d) * eigCovariance (eigInv m) d e * z n e))) tiny) := by
  intro q C hc hmax hfloor
  refine ⟨fun d e => ?_, fun n => cacgQuad_eq tiny m (z n)⟩
  have h := fromCovariance_eigenvalue_cov tiny floor eigh C hc hmax ht hfloor d e
  have h2 := hfix
  rw [cacgStep_eq] at h2
  simp only [if_true] at h2
  exact (congrArg (fun M => eigCovariance M d e) h2).trans h

/-- `ComplexAngularCentralGaussianTrainer.fit`: one fixed-point step per iteration, started from `q = 1`, each
followed by the quadratic forms of the new model -/
theorem cacg_fit_iterates (hermitize : Bool) (norm : CovNorm) (tiny qfloor floor : ℝ)
    (eigh : (Fin (D+1) → Fin (D+1) → ℂ) → Eig ℝ ℂ (D+1)) (y : Fin N → Fin (D+1) → ℂ) (it : Nat) :
    let prev := cacgFit hermitize norm tiny qfloor floor eigh y it
    let z := unitRowsWhere tiny y
    let m := cacgStep hermitize norm tiny qfloor floor eigh none (at1 prev.1) z
    let next := cacgFit hermitize norm tiny qfloor floor eigh y (it+1)
    (∀ i, at1 next.2.1 i = m.vals i) ∧ (∀ d i, at2 next.2.2 d i = m.vecs d i) ∧
    (∀ n, at1 next.1 n = cacgQuad tiny m (z n)) ∧
    (∀ n, at1 (cacgFit hermitize norm tiny qfloor floor eigh y 0).1 n = 1) :=
  cacgFit_succ hermitize norm tiny qfloor floor eigh y it

/-- the matrix whose quadratic form the E-step evaluates is the inverse of the stored covariance -/
theorem cacg_quadratic_form_is_inverse {n : Nat} (m : Eig ℝ ℂ n) (A : Fin n → Fin n → ℂ) (hc : EighContract A m)
    (hne : ∀ i, m.vals i ≠ 0) (d e : Fin n) :
    ∑ f, eigCovariance m d f * eigCovariance (eigInv m) f e = if d = e then 1 else 0 :=
  eigCovariance_mul_inv m hc.orthonormal hc.complete hne d e

/-- complex Bingham: eigenvectors are those of the (Hermitian) weighted scatter (the `eigh` contract itself);
the eigenvalues are the cumulative sums from the end of the solver's (negative) differences, the largest being `0` -/
theorem bingham_fit (x : Fin D → ℝ) :
    binghamPost (1e-8 : ℝ) none x (Fin.last D) = 0 ∧
    (∀ i : Fin D, binghamPost (1e-8 : ℝ) none x i.castSucc = x i + binghamPost (1e-8 : ℝ) none x i.succ) :=
  ⟨binghamEst_last x, fun i => binghamEst_castSucc x i⟩
end eig

section weights
variable {F K T : Nat}

/-- mixture weights: mean affiliation over the tied axes (no saliency), `1/K` when tied over the classes -/
theorem weight_update_mean (aff : Fin F → Fin K → Fin T → ℝ) :
    (∀ f k, weightMeanT (aff f) k = (∑ t, aff f k t) / T) ∧
    (∀ k t, weightMeanF aff k t = (∑ f, aff f k t) / F) ∧
    (∀ k, weightMeanFT aff k = (∑ f, ∑ t, aff f k t) / ((F * T : ℕ) : ℝ)) ∧
    (∀ k : Fin K, weightUniform (α := ℝ) K k = 1 / K) := by
  refine ⟨fun f k => ?_, fun k t => ?_, fun k => ?_, fun k => rfl⟩ <;>
    simp [weightMeanT, weightMeanF, weightMeanFT, vsum_eq_sum]

/-- with saliency: the saliency-weighted sums over the tied axes, L1-renormalised over the classes; for normalised
affiliations this is the saliency-weighted mean affiliation `Σ_t γ_kt s_t / Σ_t s_t` -/
theorem weight_update_saliency (eps : ℝ) (aff : Fin K → Fin T → ℝ) (s : Fin T → ℝ)
    (h0 : ∀ k t, 0 ≤ aff k t) (hs : ∀ t, 0 ≤ s t) (hpos : 0 < ∑ k, ∑ t, aff k t * s t) :
    (∀ k, weightSalT eps aff s k = (∑ t, aff k t * s t) / ∑ k', ∑ t, aff k' t * s t) ∧
    ((∀ t, ∑ k, aff k t = 1) → 0 < ∑ t, s t → ∀ k, weightSalT eps aff s k = (∑ t, aff k t * s t) / ∑ t, s t) := by
  constructor
  · intro k
    have hS : ∀ k, 0 ≤ (vsum fun t => aff k t * s t) := by
      intro k; rw [vsum_eq_sum]; exact Finset.sum_nonneg fun t _ => mul_nonneg (h0 k t) (hs t)
    have hp : 0 < ∑ k, (vsum fun t => aff k t * s t) := by simpa [vsum_eq_sum] using hpos
    have := (l1Where_sum_one eps (fun k => vsum fun t => aff k t * s t) hS hp).2.2 k
    simpa [weightSalT, vsum_eq_sum] using this
  · intro h1 hsp k
    exact weightSalT_eq eps aff s h0 h1 hs hsp k

/-- tuple form tied over the class axis with saliency (`(-2,)`): the equal share `1/K` wherever the saliency-weighted
class sum is positive (fix 07e42d1; before it the stored value was `1`) -/
theorem weight_update_tied_classes (eps : ℝ) (aff : Fin K → ℝ) (s : ℝ) (hpos : 0 < ∑ k, aff k * s) :
    weightSalK eps aff s = 1 / K := by
  have h := (l1Where_sum_one eps (fun _ : Fin 1 => vsum fun k => aff k * s) (fun _ => by rw [vsum_eq_sum]; exact hpos.le)
    (by simpa [vsum_eq_sum] using hpos)).2.1
  simp only [weightSalK]
  rw [Fin.sum_univ_one] at h
  rw [h]
end weights

section repetition
variable {N R D : Nat}

/-- integer saliency = physical repetition.  `rep` lists the frames of the repeated data set (frame `n` occurs
`s n` times, in any order); every estimator with saliency `s` on `y` equals the unweighted estimator on the
repeated data (`y ∘ rep`, and `q ∘ rep` for the quadratic forms of the cACG step). -/
theorem saliency_repeat (s : Fin N → ℕ) (rep : Fin R → Fin N)
    (hrep : ∀ n, (univ.filter fun m => rep m = n).card = s n) (tiny : ℝ) (hs : tiny ≤ ∑ n, (s n : ℝ)) :
    (∀ (y : Fin N → Fin D → ℝ) d e,
        gaussMean tiny (some fun n => (s n : ℝ)) y d = gaussMean tiny none (fun m => y (rep m)) d ∧
        gaussCovFull tiny (some fun n => (s n : ℝ)) y d e = gaussCovFull tiny none (fun m => y (rep m)) d e) ∧
    (∀ (y : Fin N → Fin D → ℂ) d e,
        cgaussCov tiny (some fun n => (s n : ℝ)) y d e = cgaussCov tiny none (fun m => y (rep m)) d e ∧
        scatterPlain (some fun n => (s n : ℝ)) y d e = scatterPlain (α := ℝ) none (fun m => y (rep m)) d e) ∧
    (∀ (z : Fin N → Fin D → ℝ) d,
        vmfResultant (some fun n => (s n : ℝ)) z d = vmfResultant none (fun m => z (rep m)) d) ∧
    (∀ r : Fin D → ℝ, vmfRbar (N := N) (some fun n => (s n : ℝ)) r = vmfRbar (N := R) none r) ∧
    (∀ (qfloor : ℝ) (q : Fin N → ℝ) (z : Fin N → Fin D → ℂ) d e,
        cacgCov tiny qfloor (some fun n => (s n : ℝ)) q z d e =
          cacgCov tiny qfloor none (fun m => q (rep m)) (fun m => z (rep m)) d e) :=
  ⟨fun y d e => ⟨gaussMean_repeat s rep hrep tiny hs y d, gaussCovFull_repeat s rep hrep tiny hs y d e⟩,
   fun y d e => ⟨cgaussCov_repeat s rep hrep tiny hs y d e, scatterPlain_repeat s rep hrep y d e⟩,
   fun z d => vmfResultant_repeat s rep hrep z d,
   fun r => vmfRbar_repeat s rep hrep r,
   fun qfloor q z d e => cacgCov_repeat s rep hrep tiny qfloor q z d e⟩

/-- the same for the mixture weights (normalised affiliations): saliency-weighted, L1-renormalised weight =
plain mean affiliation over the repeated frames -/
theorem saliency_repeat_weights {K T R : Nat} (eps : ℝ) (s : Fin T → ℕ) (rep : Fin R → Fin T)
    (hrep : ∀ t, (univ.filter fun m => rep m = t).card = s t) (aff : Fin K → Fin T → ℝ)
    (h0 : ∀ k t, 0 ≤ aff k t) (h1 : ∀ t, ∑ k, aff k t = 1) (hpos : 0 < ∑ t, (s t : ℝ)) (k : Fin K) :
    weightSalT eps aff (fun t => (s t : ℝ)) k = weightMeanT (fun k m => aff k (rep m)) k :=
  weight_repeat eps s rep hrep aff h0 h1 hpos k

/-- such a repetition map exists for every saliency vector: `np.repeat`'s own order -/
theorem saliency_repeat_exists (s : Fin N → ℕ) :
    ∀ n, (univ.filter fun m => repeatIndex s m = n).card = s n := repeatIndex_card s
end repetition

/-- a mixture fit of `n+1` iterations is the M-step on the start affiliations followed by `n` alternations of
E-step and M-step (and `fit` with 0 iterations returns no model) -/
theorem fit_alternation {Γ Θ : Type} (mStep : Γ → Θ) (eStep : Θ → Γ) (n : Nat) (g0 : Γ) :
    emFit mStep eStep (n+1) g0 = some ((mStep ∘ eStep)^[n] (mStep g0)) ∧ emFit mStep eStep 0 g0 = none :=
  ⟨emFit_succ mStep eStep n g0, rfl⟩

/-- E-step of the cACG mixture model: the Bayes posterior `π_k p_k(z_n) / Σ_j π_j p_j(z_n)` under the current model
(`log p_k = -D log q_kn - log det B_k`), clipped to `[eps, 1-eps]` when `eps ≠ 0`; it also returns the quadratic forms
`q_kn` that the following M-step (`cacg_step`) divides by -/
theorem estep_posterior {K N D : Nat} (tiny eps : ℝ) (w : Fin (K+1) → Fin N → ℝ) (m : Fin (K+1) → Eig ℝ ℂ D)
    (z : Fin N → Fin D → ℂ) (n : Fin N) (lp : Fin (K+1) → ℝ)
    (hlp : ∀ k, lp k = -(D : ℝ) * Real.log (cacgQuad tiny (m k) (z n)) - ∑ i, Real.log ((m k).vals i))
    (hden : tiny ≤ ∑ k, Real.exp (lp k - vmax lp) * w k n) (k : Fin (K+1)) :
    (cacgmmEStep tiny eps w m z).2 k n = cacgQuad tiny (m k) (z n) ∧
    (cacgmmEStep tiny eps w m z).1 k n =
      (if eps = 0 then w k n * Real.exp (lp k) / ∑ j, w j n * Real.exp (lp j)
       else min (max (w k n * Real.exp (lp k) / ∑ j, w j n * Real.exp (lp j)) eps) (1 - eps)) := by
  have h := cacgmmEStep_spec tiny eps w m z n lp hlp hden k
  exact ⟨h.1, by rw [h.2, clipAff_eq]⟩

/-! ### non-vacuity -/
example : gaussMean (N := 2) (D := 1) (1 / 1000 : ℝ) (some fun _ => 1) (fun n _ => (n.val : ℝ)) 0 = 1 / 2 := by
  have h : (1 / 1000 : ℝ) ≤ ∑ _n : Fin 2, (1 : ℝ) := by norm_num
  rw [gaussMean_eq, denFloor_some _ _ h]
  simp [wOf_some, Fin.sum_univ_two]
example : emFit (fun g : Nat => g + 1) (fun m : Nat => 10 * m) 3 0 = some 111 := by decide
example : (univ.filter fun m : Fin 3 => (![0, 1, 1] : Fin 3 → Fin 2) m = 1).card = (![1, 2] : Fin 2 → ℕ) 1 := by decide

end PbBss.C08

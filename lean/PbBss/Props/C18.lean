import PbBss.Proofs.MasksProof
/-! # C18 — oracle masks satisfy their defining identities in every axis layout

Statements only (helper lemmas in `PbBss/Proofs/MasksProof.lean`).  Model: `PbBss/Model/Masks.lean`, a
transcription of `pb_bss/extraction/mask_module.py` in two layers — point kernels (one time-frequency point / one
row of statistics points) and a tensor layer with the axis arguments — tied to the code by the correspondence run
of `harness/props/c18.py` (the driver executes the tensor layer on full arrays, for every axis layout).
The theorems are about the real/complex interpretation (`α := ℝ`, `β := ℂ`); `cabs = ‖·‖`, `angle = Complex.arg`. -/
namespace PbBss.C18
open PbBss PbBss.Masks PbBss.MasksProof

/-! ## ideal binary mask -/

/-- one point: the mask is 0/1-valued, sums to one over the sources, and equals one exactly at the FIRST source of
maximal (sensor-pooled) power — ties are resolved towards the lowest index -/
theorem ibm_onehot {K : Nat} (p : Fin (K+1) → ℝ) :
    (∀ k, ibm p k = 0 ∨ ibm p k = 1) ∧ ∑ k, ibm p k = 1 ∧ (∃! k, ibm p k = 1) ∧
    ∀ k, ibm p k = 1 ↔ (∀ j, p j ≤ p k) ∧ ∀ j, j < k → p j < p k := by
  refine ⟨ibm_zero_or_one p, ibm_sum p, ⟨vargmax p, (ibm_eq_one_iff p _).mpr rfl, ?_⟩, ?_⟩
  · intro k hk; exact ((ibm_eq_one_iff p k).mp hk).symm
  · intro k
    rw [ibm_eq_one_iff]
    constructor
    · rintro rfl; exact vargmax_spec p
    · rintro ⟨h1, h2⟩; exact vargmax_unique p k h1 h2

/-- whole array, any `source_axis`, optional `sensor_axis` (`keepdims=True`): along the source axis through any
index the mask is the one-hot indicator of the first maximum of the pooled power -/
theorem ibm_onehot_tensor {r : Nat} (t : Tens r ℂ) (sa : Fin r) (se : Option (Fin r)) (idx : Fin r → Nat) (K : Nat)
    (hK : (pooledPower (α := ℝ) t se).shape sa = K + 1) :
    let P : Fin (K+1) → ℝ := fun j => (pooledPower (α := ℝ) t se).get (upd idx sa j.val)
    let M : Fin (K+1) → ℝ := fun k => (ibmT (α := ℝ) t sa se).get (upd idx sa k.val)
    (∀ k, M k = 0 ∨ M k = 1) ∧ ∑ k, M k = 1 ∧ ∀ k, M k = 1 ↔ (∀ j, P j ≤ P k) ∧ ∀ j, j < k → P j < P k := by
  intro P M
  have hM : M = ibm P := by funext k; exact ibmT_get t sa se idx K hK k
  rw [hM]
  exact ⟨(ibm_onehot P).1, (ibm_onehot P).2.1, (ibm_onehot P).2.2.2⟩

/-- the pooled power that enters the arg-max is `Σ_d |s[k, d]|²` over the sensor axis (`|s[k]|²` without one) -/
theorem pooled_power_def {r : Nat} (t : Tens r ℂ) (a : Fin r) (idx : Fin r → Nat) :
    (pooledPower (α := ℝ) t (some a)).get idx = ∑ d : Fin (t.shape a), Complex.normSq (t.get (upd idx a d.val)) ∧
    (pooledPower (α := ℝ) t none).get idx = Complex.normSq (t.get idx) := by
  rw [pooledPower_get_some, pooled_eq, pooledPower_get_none, absSq_eq]
  exact ⟨rfl, rfl⟩

/-! ## Wiener-like and ideal ratio masks -/

/-- `wiener_like_mask` at one point with `K` sources and `D` pooled sensors: values in `[0, 1]`, the sum over the
sources is `P / (P + eps)` with `P` the total power; with `eps → 0` it is exactly one wherever the mixture has
power, and for `eps > 0` it misses one by at most `eps / P` -/
theorem wiener_range_sum {K D : Nat} (eps : ℝ) (heps : 0 ≤ eps) (s : Fin K → Fin D → ℂ)
    (hden : 0 < (∑ k, pooled (α := ℝ) (s k)) + eps) :
    (∀ k, 0 ≤ wiener eps s k ∧ wiener eps s k ≤ 1) ∧
    ∑ k, wiener eps s k = (∑ k, pooled (α := ℝ) (s k)) / ((∑ k, pooled (α := ℝ) (s k)) + eps) ∧
    (eps = 0 → ∑ k, wiener eps s k = 1) ∧
    (0 < ∑ k, pooled (α := ℝ) (s k) → 1 - ∑ k, wiener eps s k ≤ eps / ∑ k, pooled (α := ℝ) (s k)) := by
  have hsum := ratioMask_sum eps (fun k => pooled (α := ℝ) (s k))
  refine ⟨fun k => ratioMask_range eps _ (fun k => pooled_nonneg (s k)) heps hden k, hsum, ?_, ?_⟩
  · intro h0
    rw [wiener, hsum]; subst h0
    simp only [add_zero] at hden ⊢
    exact div_self hden.ne'
  · intro hP
    rw [wiener, hsum]
    set P := ∑ k, pooled (α := ℝ) (s k)
    have e : 1 - P / (P + eps) = eps / (P + eps) := by
      field_simp
      ring
    rw [e]
    exact div_le_div_of_nonneg_left heps hP (by linarith)

/-- `ideal_ratio_mask` at one point: the same with magnitudes `|s_k|` in place of powers -/
theorem irm_range_sum {K : Nat} (eps : ℝ) (heps : 0 ≤ eps) (s : Fin K → ℂ) (hden : 0 < (∑ k, ‖s k‖) + eps) :
    (∀ k, 0 ≤ irm eps s k ∧ irm eps s k ≤ 1) ∧ ∑ k, irm eps s k = (∑ k, ‖s k‖) / ((∑ k, ‖s k‖) + eps) ∧
    (eps = 0 → ∑ k, irm eps s k = 1) := by
  have hq : (fun k => cabs (α := ℝ) (s k)) = fun k => ‖s k‖ := by funext k; exact cabs_eq _
  have hsum := ratioMask_sum eps (fun k => cabs (α := ℝ) (s k))
  simp only [hq] at hsum
  refine ⟨fun k => ?_, by rw [irm, hq]; exact hsum, ?_⟩
  · rw [irm, hq]; exact ratioMask_range eps _ (fun k => norm_nonneg _) heps hden k
  · intro h0
    rw [irm, hq, hsum]; subst h0
    simp only [add_zero] at hden ⊢
    exact div_self hden.ne'

/-- the tensor-level Wiener / ratio masks are these kernels applied to the fibre along the source axis -/
theorem wiener_tensor_is_kernel {r : Nat} (eps : ℝ) (t : Tens r ℂ) (sa : Fin r) (se : Option (Fin r))
    (idx : Fin r → Nat) (k : Fin ((pooledPower (α := ℝ) t se).shape sa)) :
    (wienerT eps t sa se).get (upd idx sa k.val) =
      ratioMask eps (fun j : Fin ((pooledPower (α := ℝ) t se).shape sa) =>
        (pooledPower (α := ℝ) t se).get (upd idx sa j.val)) k :=
  ratioT_get eps _ sa idx k

/-! ## ideal complex mask, phase-sensitive mask -/

/-- the ideal complex mask times the mixture reproduces each source (where the mixture is non-zero) -/
theorem icm_reconstruct {K : Nat} (s : Fin K → ℂ) (hy : ∑ j, s j ≠ 0) (k : Fin K) :
    icm s k * ∑ j, s j = s k := by
  rw [← mixture_eq] at hy ⊢
  exact icm_mul_mixture s hy k

/-- the phase-sensitive mask `|s_k| / (|y| + eps) · cos(∠s_k − ∠y)` is the real part of the ideal complex mask, up
to the eps guard `|y| / (|y| + eps)`; exactly the real part for `eps = 0` -/
theorem psm_eq_re_icm {K : Nat} (eps : ℝ) (heps : 0 ≤ eps) (s : Fin K → ℂ) (hy : ∑ j, s j ≠ 0) (k : Fin K) :
    psm eps s k = (icm s k).re * (‖∑ j, s j‖ / (‖∑ j, s j‖ + eps)) ∧ psm 0 s k = (icm s k).re := by
  rw [← mixture_eq] at hy ⊢
  refine ⟨psm_eq eps s hy heps k, ?_⟩
  rw [psm_eq 0 s hy (le_refl 0) k, add_zero, div_self (by simpa using hy), mul_one]

/-- tensor level: along the source axis the whole-array functions are these kernels -/
theorem icm_psm_tensor_is_kernel {r : Nat} (eps : ℝ) (t : Tens r ℂ) (sa : Fin r) (idx : Fin r → Nat)
    (k : Fin (t.shape sa)) :
    (icmT t sa).get (upd idx sa k.val) = icm (fun j : Fin (t.shape sa) => t.get (upd idx sa j.val)) k ∧
    (psmT eps t sa).get (upd idx sa k.val) = psm eps (fun j : Fin (t.shape sa) => t.get (upd idx sa j.val)) k ∧
    (iamT eps t sa).get (upd idx sa k.val) = iam eps (fun j : Fin (t.shape sa) => t.get (upd idx sa j.val)) k :=
  ⟨icmT_get t sa idx k, psmT_get eps t sa idx k, iamT_get eps t sa idx k⟩

/-! ## quantile mask -/

/-- levels `0.5 ± weight/2`; for `q ≥ 0` the high level sits exactly on the points strictly above the `(1-q)`
quantile of the row, for `q < 0` exactly on the points strictly below the `|q|` quantile -/
theorem quantile_levels (q w : ℝ) (row : List ℝ) (x : ℝ) :
    (0 ≤ q → quantileLevel q w row x = if percentileLinear (1 - q) row < x then 1 / 2 + w / 2 else 1 / 2 - w / 2) ∧
    (q < 0 → quantileLevel q w row x = if x < percentileLinear (-q) row then 1 / 2 + w / 2 else 1 / 2 - w / 2) := by
  constructor
  · intro hq
    simp only [quantileLevel, quantileFrac_nonneg hq, not_lt.mpr hq, if_false]
    by_cases h : percentileLinear (1 - q) row < x
    · simp [h, level_true]
    · simp [h, level_false]
  · intro hq
    simp only [quantileLevel, quantileFrac_neg hq, hq, if_true]
    by_cases h : x < percentileLinear (-q) row
    · simp [h, level_true]
    · simp [h, level_false]

/-- for a non-zero weight the two levels differ, so "value = high level" identifies the set -/
theorem quantile_high_iff (q w : ℝ) (hw : w ≠ 0) (hq : 0 ≤ q) (row : List ℝ) (x : ℝ) :
    quantileLevel q w row x = 1 / 2 + w / 2 ↔ percentileLinear (1 - q) row < x := by
  rw [(quantile_levels q w row x).1 hq]
  split
  · simp_all
  · constructor
    · intro h; exfalso; apply hw; linarith
    · intro h; contradiction

/-- the threshold is `np.percentile(·, 100 frac)` with linear interpolation: the affine interpolation between the
order statistics `lo = ⌊(n-1) frac⌋` and `lo + 1` of the ascending row, hence between them -/
theorem quantile_threshold (frac : ℝ) (h0 : 0 ≤ frac) (h1 : frac ≤ 1) (row : List ℝ) (hne : row ≠ []) :
    let a := sortAsc row
    let vi : ℝ := ((a.length - 1 : ℕ) : ℝ) * frac
    let lo := ⌊vi⌋₊
    let hi := min (lo + 1) (a.length - 1)
    a.Perm row ∧ a.Pairwise (· ≤ ·) ∧
    percentileLinear frac row = a.getD lo 0 + (a.getD hi 0 - a.getD lo 0) * (vi - lo) ∧
    a.getD lo 0 ≤ percentileLinear frac row ∧ percentileLinear frac row ≤ a.getD hi 0 := by
  intro a vi lo hi
  obtain ⟨-, -, -, h4, h5, h6⟩ := percentile_spec frac h0 h1 row hne
  exact ⟨sortAsc_perm row, sortAsc_sorted row, h4, h5, h6⟩

/-- consequently at most `n - 1 - ⌊(n-1)(1-q)⌋` of the `n` points of a row carry the high level (`0 ≤ q ≤ 1`) -/
theorem quantile_high_count (q w : ℝ) (hw : w ≠ 0) (hq0 : 0 ≤ q) (hq1 : q ≤ 1) (row : List ℝ) (hne : row ≠ []) :
    row.countP (fun x => decide (quantileLevel q w row x = 1 / 2 + w / 2)) ≤
      row.length - 1 - ⌊((row.length - 1 : ℕ) : ℝ) * (1 - q)⌋₊ := by
  have h := count_above_percentile_le (1 - q) (by linarith) (by linarith) row hne
  have : (fun x => decide (quantileLevel q w row x = 1 / 2 + w / 2)) =
      fun x => decide (percentileLinear (1 - q) row < x) := by
    funext x; exact decide_eq_decide.mpr (quantile_high_iff q w hw hq0 row x)
  rw [this]; exact h

/-- whole array: the value at `idx` is the level of `|signal[idx]|` within its row, and the row consists exactly of
the magnitudes at the in-range indices that agree with `idx` outside the statistics axes `axes` ("along the chosen
axes") — for every number and position of axes -/
theorem quantile_tensor_rows {r : Nat} (q w : ℝ) (t : Tens r ℂ) (axes : List (Fin r)) (idx : Fin r → Nat) :
    let m : Tens r ℝ := t.map (cabs (α := ℝ))
    (quantileT q w t axes).get idx = quantileLevel q w (rowOf m axes idx) ‖t.get idx‖ ∧
    ∀ v, v ∈ rowOf m axes idx ↔
      ∃ idx' : Fin r → Nat, (∀ i, i ∉ axes → idx' i = idx i) ∧ (∀ a ∈ axes, idx' a < t.shape a) ∧ v = ‖t.get idx'‖ := by
  intro m
  refine ⟨by simp only [quantileT, Tens.map, cabs_eq, m], fun v => ?_⟩
  rw [mem_rowOf]
  simp only [m, Tens.map, cabs_eq]

/-! ## Lorenz mask -/

/-- when the code does not raise, the levels are `0.5 ± weight/2` and the high level sits exactly on the points
strictly stronger than the threshold; the threshold is the power of a point of the row, namely the weakest of the
strongest points whose cumulative share of the total power stays below the Lorenz fraction -/
theorem lorenz_levels (fraction w : ℝ) (row : List ℝ) (x v : ℝ) (h : lorenzLevel fraction w row x = some v) :
    ∃ t, lorenzThreshold fraction row = some t ∧ t ∈ row ∧
      v = (if t < x then 1 / 2 + w / 2 else 1 / 2 - w / 2) ∧
      (∃ p ∈ lorenzPairs row, p.2 < fraction ∧ p.1 = t) ∧ ∀ p ∈ lorenzPairs row, p.2 < fraction → t ≤ p.1 := by
  simp only [lorenzLevel, Option.map_eq_some_iff] at h
  obtain ⟨t, ht, rfl⟩ := h
  obtain ⟨h1, h2⟩ := lorenzThreshold_some ht
  refine ⟨t, ht, ?_, ?_, h1, h2⟩
  · obtain ⟨p, hp, -, rfl⟩ := h1
    exact lorenzPairs_fst_mem hp
  · by_cases hx : t < x
    · simp [hx, level_true]
    · simp [hx, level_false]

/-- the scanned pairs: entry `i` is (the `i`-th strongest power, share of the total carried by the `i+1`
strongest points); the code raises exactly when not even the strongest point alone stays below the fraction … -/
theorem lorenz_pairs (row : List ℝ) (i : Nat) (h : i < row.length) :
    (lorenzPairs row).length = row.length ∧
    ((lorenzPairs row)[i]'(by rw [lorenzPairs_length]; exact h)) =
      (((sortAsc row).reverse)[i]'(by simp [sortAsc_length]; exact h),
       (((sortAsc row).reverse).take (i+1)).sum / row.sum) :=
  ⟨lorenzPairs_length row, lorenzPairs_getElem row i _⟩

/-- … i.e. the error branch (`np.min` of an empty array raises `ValueError`): no cumulative share is below the
fraction — the quantifier's "a single point carries the Lorenz fraction" -/
theorem lorenz_raises_iff (fraction w : ℝ) (row : List ℝ) (x : ℝ) :
    lorenzLevel fraction w row x = none ↔ ∀ p ∈ lorenzPairs row, ¬ p.2 < fraction := by
  simp only [lorenzLevel, Option.map_eq_none_iff, lorenzThreshold_none]

/-- the scan runs over the powers in DESCENDING order, and (non-negative powers, positive total) the points whose
cumulative share stays below the fraction form an initial segment of that order — "the strongest points whose
cumulative share of the power stays below the Lorenz fraction"; the threshold is the weakest of them
(`lorenz_levels`) -/
theorem lorenz_selection_is_prefix (row : List ℝ) (hrow : ∀ v ∈ row, 0 ≤ v) (htot : 0 < row.sum) (fraction : ℝ) :
    ((sortAsc row).reverse).Pairwise (· ≥ ·) ∧
    ∀ (i j : Nat) (hij : i ≤ j) (hj : j < (lorenzPairs row).length),
      ((lorenzPairs row)[j]).2 < fraction → ((lorenzPairs row)[i]'(by omega)).2 < fraction :=
  ⟨sortDesc_pairwise row, fun i j hij hj => lorenz_selection_prefix row hrow htot fraction i j hij hj⟩

/-- whole array: the value at `idx` is the level of the (sensor-pooled) power `Σ_d |signal|²` at `idx` within its
row of pooled powers along the statistics axes -/
theorem lorenz_tensor_rows {r : Nat} (fraction w : ℝ) (t : Tens r ℂ) (se : Option (Fin r)) (axes : List (Fin r))
    (idx : Fin r → Nat) :
    let p : Tens r ℝ := lorenzPower (α := ℝ) t se
    (lorenzT fraction w t se axes).get idx = lorenzLevel fraction w (rowOf p axes idx) (p.get idx) ∧
    (∀ a, se = some a → p.get idx = ∑ d : Fin (t.shape a), ‖t.get (upd idx a d.val)‖ * ‖t.get (upd idx a d.val)‖) ∧
    (se = none → p.get idx = ‖t.get idx‖ * ‖t.get idx‖) ∧
    ∀ v, v ∈ rowOf p axes idx ↔
      ∃ idx' : Fin r → Nat, (∀ i, i ∉ axes → idx' i = idx i) ∧ (∀ a ∈ axes, idx' a < p.shape a) ∧ v = p.get idx' := by
  intro p
  refine ⟨rfl, ?_, ?_, fun v => mem_rowOf p axes idx v⟩
  · rintro a rfl
    simp only [p, lorenzPower, sumKeep, fibreSum, sumRange_eq_sum, Tens.map, cabs_eq]
  · rintro rfl
    simp only [p, lorenzPower, Tens.map, cabs_eq]

/-! ## axis layout -/

/-- **moving axes of the input moves the same axes of the output and nothing else** (`keepdims=True`): for every
permutation of the axes (`np.moveaxis` of the source and/or sensor and/or statistics axes is a special case; its
axis order `moveaxisOrder` and `transposeT` are compared with NumPy by the correspondence run), every mask of the
transposed input, called with the moved axis arguments, is the transposed mask -/
theorem mask_axis_equivariance {r : Nat} {order inv : Fin r → Fin r} (h : AxisPerm order inv) (t : Tens r ℂ)
    (sa : Fin r) (se : Option (Fin r)) (eps q w fraction : ℝ) (axes : List (Fin r)) :
    let t' := Tens.transposeT order inv t
    ibmT (α := ℝ) t' (inv sa) (se.map inv) = Tens.transposeT order inv (ibmT (α := ℝ) t sa se) ∧
    wienerT eps t' (inv sa) (se.map inv) = Tens.transposeT order inv (wienerT eps t sa se) ∧
    irmT eps t' (inv sa) = Tens.transposeT order inv (irmT eps t sa) ∧
    iamT eps t' (inv sa) = Tens.transposeT order inv (iamT eps t sa) ∧
    psmT eps t' (inv sa) = Tens.transposeT order inv (psmT eps t sa) ∧
    icmT t' (inv sa) = Tens.transposeT order inv (icmT t sa) ∧
    quantileT q w t' (axes.map inv) = Tens.transposeT order inv (quantileT q w t axes) ∧
    lorenzT fraction w t' (se.map inv) (axes.map inv) = Tens.transposeT order inv (lorenzT fraction w t se axes) :=
  ⟨ibmT_transpose h t sa se, wienerT_transpose h eps t sa se, irmT_transpose h eps t sa, iamT_transpose h eps t sa,
   psmT_transpose h eps t sa, icmT_transpose h t sa, quantileT_transpose h q w t axes,
   lorenzT_transpose h fraction w t se axes⟩

/-- the same with `keepdims=False` (the pooled sensor axis `a` is squeezed out of the result, for the three masks
that pool sensors): moving the source / sensor / statistics axes of the input permutes the remaining axes of the
squeezed result by the induced order, which always exists (`exists_squeezeCompat`) -/
theorem mask_axis_equivariance_squeezed {r : Nat} {order inv : Fin (r+1) → Fin (r+1)} (h : AxisPerm order inv)
    (t : Tens (r+1) ℂ) (sa a : Fin (r+1)) (eps fraction w : ℝ) (axes : List (Fin (r+1))) :
    ∃ order' inv', AxisPerm order' inv' ∧ SqueezeCompat order inv a order' inv' ∧
      let t' := Tens.transposeT order inv t
      Tens.squeezeT (inv a) (ibmT (α := ℝ) t' (inv sa) (some (inv a))) =
        Tens.transposeT order' inv' (Tens.squeezeT a (ibmT (α := ℝ) t sa (some a))) ∧
      Tens.squeezeT (inv a) (wienerT eps t' (inv sa) (some (inv a))) =
        Tens.transposeT order' inv' (Tens.squeezeT a (wienerT eps t sa (some a))) ∧
      Tens.squeezeT (inv a) (lorenzT fraction w t' (some (inv a)) (axes.map inv)) =
        Tens.transposeT order' inv' (Tens.squeezeT a (lorenzT fraction w t (some a) axes)) := by
  obtain ⟨order', inv', hc, hp⟩ := exists_squeezeCompat h a
  refine ⟨order', inv', hp, hc, ?_, ?_, ?_⟩
  · have := ibmT_transpose h t sa (some a)
    simp only [Option.map_some] at this
    rw [this, squeezeT_transpose a hc]
  · have := wienerT_transpose h eps t sa (some a)
    simp only [Option.map_some] at this
    rw [this, squeezeT_transpose a hc]
  · have := lorenzT_transpose h fraction w t (some a) axes
    simp only [Option.map_some] at this
    rw [this, squeezeT_transpose a hc]

/-- what `squeezeT` is: the entry at `idx` is the un-squeezed entry with a `0` inserted at the squeezed position -/
theorem squeeze_spec {r : Nat} {γ : Type} (a : Fin (r+1)) (u : Tens (r+1) γ) (idx : Fin r → Nat) :
    (∀ i, (Tens.squeezeT a u).shape i = u.shape (skipAt a i)) ∧
    ∃ idx', (Tens.squeezeT a u).get idx = u.get idx' ∧ idx' a = 0 ∧ ∀ i, idx' (skipAt a i) = idx i :=
  ⟨fun _ => rfl, insAt a 0 idx, rfl, insAt_self a 0 idx, insAt_skipAt a 0 idx⟩

/-- what `transposeT` is: result axis `i` is input axis `order i`; entry at `idx` is the input entry at the index
whose position `order i` holds `idx i` -/
theorem transpose_spec {r : Nat} {order inv : Fin r → Fin r} (h : AxisPerm order inv) (t : Tens r ℂ)
    (idx : Fin r → Nat) :
    (∀ i, (Tens.transposeT order inv t).shape i = t.shape (order i)) ∧
    ∃ idx', (Tens.transposeT order inv t).get idx = t.get idx' ∧ ∀ i, idx' (order i) = idx i :=
  ⟨fun _ => rfl, fun j => idx (inv j), rfl, fun i => by simp only [h.io]⟩

/-! ## all-zero input -/

/-- every eps-guarded mask of an all-zero point is 0, and its denominator is `eps` itself: with `eps ≠ 0` no
division by zero occurs (that is what makes the floating-point result finite); the binary mask is one-hot at
index 0 -/
theorem zero_input_finite {K D : Nat} (eps : ℝ) (k : Fin K) :
    wiener eps (fun (_ : Fin K) (_ : Fin D) => (0 : ℂ)) k = 0 ∧
    irm eps (fun _ : Fin K => (0 : ℂ)) k = 0 ∧ iam eps (fun _ : Fin K => (0 : ℂ)) k = 0 ∧
    psm eps (fun _ : Fin K => (0 : ℂ)) k = 0 ∧
    (∑ _j : Fin K, pooled (α := ℝ) (fun _ : Fin D => (0 : ℂ))) + eps = eps ∧
    (∑ _j : Fin K, ‖(0 : ℂ)‖) + eps = eps ∧ ‖∑ _j : Fin K, (0 : ℂ)‖ + eps = eps := by
  have hp : pooled (α := ℝ) (fun _ : Fin D => (0 : ℂ)) = 0 := by simp [pooled_eq]
  refine ⟨?_, ?_, ?_, ?_, by simp [hp], by simp, by simp⟩
  · simp [wiener, ratioMask_eq, hp]
  · simp [irm, ratioMask_eq, cabs_eq]
  · simp [iam, cabs_eq]
  · simp [psm, cabs_eq]

theorem zero_input_ibm {K : Nat} (k : Fin (K+1)) : ibm (fun _ : Fin (K+1) => (0 : ℝ)) k = if k = 0 then 1 else 0 := by
  have : vargmax (fun _ : Fin (K+1) => (0 : ℝ)) = 0 :=
    vargmax_unique _ 0 (fun _ => le_refl _) (fun j hj => absurd hj (by simp))
  simp only [ibm, this]
  by_cases h : k = 0
  · simp [h]
  · simp [h, Ne.symm h]

/-! ## non-vacuity -/
example : ibm (fun k : Fin 3 => if k.val = 1 then (2 : ℝ) else if k.val = 2 then 2 else 1) 1 = 1 := by
  rw [(ibm_onehot _).2.2.2]
  constructor
  · intro j; fin_cases j <;> norm_num
  · intro j hj; fin_cases j <;> simp_all

example : icm (fun k : Fin 2 => if k.val = 0 then (1 : ℂ) else Complex.I) 0 * ∑ j : Fin 2, (if j.val = 0 then (1 : ℂ) else Complex.I)
    = 1 := by
  have := icm_reconstruct (fun k : Fin 2 => if k.val = 0 then (1 : ℂ) else Complex.I)
    (by simp [Fin.sum_univ_two, Complex.ext_iff]) 0
  simpa using this

end PbBss.C18

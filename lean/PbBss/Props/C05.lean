import PbBss.Proofs.EmEquivariance
import PbBss.Proofs.PosteriorProof
/-! # C05 — mixture training is equivariant under relabelling of the classes

For every permutation `σ : Equiv.Perm (Fin K)` of the class labels.  Models: `Posterior.affiliation`
(`log_pdf_to_affiliation`), `Posterior.mixWeight` (the three weight formulas used by the seven `_m_step`s, every
`weight_constant_axis` option `tie` / the integer `-2` branch), the trainer loop `Posterior.fit`, and the generic
mixture trainer `Mix.eStep` / `Mix.mStep` whose per-class component routines (`logPdf`, `auxStat`, `fitComp`) are
parameters: per-class externals are functions, hence commute with a relabelling.

`permE σ`, `permMix σ`, `permCfg σ` relabel E-step outputs (affiliations + quadratic forms), fitted mixtures
(weights + components) and the source-activity mask of a configuration.  Over `ℝ` the statements are exact
equalities; "up to rounding" (sums over the class axis are reordered) is left to the search. -/
namespace PbBss.C05
open PbBss PbBss.Posterior PbBss.PosteriorProof

/-- E-step kernel: relabelled weights, log-pdfs and activity mask give the relabelled posterior
(with or without clipping) -/
theorem affiliation_perm {K : Nat} (tiny : ℝ) (eps : Option ℝ) (w lp : Fin (K+1) → ℝ)
    (mask : Option (Fin (K+1) → Bool)) (σ : Equiv.Perm (Fin (K+1))) (k : Fin (K+1)) :
    Posterior.affiliation tiny eps (fun k => w (σ k)) (fun k => lp (σ k)) (mask.map fun m k => m (σ k)) k
      = Posterior.affiliation tiny eps w lp mask (σ k) :=
  PosteriorProof.affiliation_perm tiny eps w lp mask σ k

variable {F K T : Nat}

/-- `np.sum(·, axis=weight_constant_axis, keepdims=True)` commutes with a relabelling, for every subset of tied axes -/
theorem sumTied_perm (tie : Tie) (x : Fin F → Fin K → Fin T → ℝ) (σ : Equiv.Perm (Fin K)) (f k t) :
    sumTied tie (fun f k t => x f (σ k) t) f k t = sumTied tie x f (σ k) t :=
  PosteriorProof.sumTied_perm tie x σ f k t

/-- `estimate_mixture_weight` without saliency -/
theorem estimateWeight_perm (i2 : Bool) (tie : Tie) (γ : Fin F → Fin K → Fin T → ℝ) (σ : Equiv.Perm (Fin K)) (f k t) :
    estimateWeight i2 tie (fun f k t => γ f (σ k) t) f k t = estimateWeight i2 tie γ f (σ k) t :=
  PosteriorProof.estimateWeight_perm i2 tie γ σ f k t

/-- `estimate_mixture_weight` with saliency (L1 normalisation over the class axis, `where` guard) -/
theorem estimateWeightSal_perm (i2 : Bool) (tie : Tie) (eps : ℝ) (γ : Fin F → Fin K → Fin T → ℝ)
    (sal : Fin F → Fin T → ℝ) (σ : Equiv.Perm (Fin K)) (f k t) :
    estimateWeightSal i2 tie eps (fun f k t => γ f (σ k) t) sal f k t = estimateWeightSal i2 tie eps γ sal f (σ k) t :=
  PosteriorProof.estimateWeightSal_perm i2 tie eps γ sal σ f k t

/-- the in-line weight formula of GCACGMM / VMFCACGMM -/
theorem integrationWeight_perm (tiny : ℝ) (tie : Tie) (γ : Fin F → Fin K → Fin T → ℝ) (sal : Fin F → Fin T → ℝ)
    (σ : Equiv.Perm (Fin K)) (f k t) :
    integrationWeight tiny tie (fun f k t => γ f (σ k) t) sal f k t = integrationWeight tiny tie γ sal f (σ k) t :=
  PosteriorProof.integrationWeight_perm tiny tie γ sal σ f k t

/-- **the weight estimate commutes with σ**, for each of the three formulas and every tying option -/
theorem mixWeight_perm (rule : WeightRule ℝ) (tie : Tie) (γ : Fin F → Fin K → Fin T → ℝ) (sal : Fin F → Fin T → ℝ)
    (σ : Equiv.Perm (Fin K)) (f k t) :
    mixWeight rule tie (fun f k t => γ f (σ k) t) sal f k t = mixWeight rule tie γ sal f (σ k) t :=
  PosteriorProof.mixWeight_perm rule tie γ sal σ f k t

/-- **induction over the iterations**, for an abstract EM step pair: if the E- and M-step of the relabelled run
(`E'`, `M'`) intertwine the class actions with those of the original run, then so does `fit` for every number of
iterations (`fit … n` = `n+1` iterations) -/
theorem fit_equivariant {Γ Θ : Type} (aΓ : Γ → Γ) (aΘ : Θ → Θ) (E E' : Θ → Γ) (M M' : Γ → Θ)
    (hE : ∀ θ, E' (aΘ θ) = aΓ (E θ)) (hM : ∀ γ, M' (aΓ γ) = aΘ (M γ)) (n : Nat) (γ : Γ) :
    fit E' M' n (aΓ γ) = aΘ (fit E M n γ) :=
  fit_intertwine aΓ aΘ E E' M M' hE hM n γ

/-- … and the posteriors returned by `fit_predict` are relabelled the same way -/
theorem fitPredict_equivariant {Γ Θ : Type} (aΓ : Γ → Γ) (aΘ : Θ → Θ) (E E' : Θ → Γ) (M M' : Γ → Θ)
    (hE : ∀ θ, E' (aΘ θ) = aΓ (E θ)) (hM : ∀ γ, M' (aΓ γ) = aΘ (M γ)) (n : Nat) (γ : Γ) :
    fitPredict E' M' n (aΓ γ) = aΓ (fitPredict E M n γ) := by
  unfold fitPredict
  rw [fit_intertwine aΓ aΘ E E' M M' hE hM n γ, hE]

/-- E-step of the generic mixture trainer under relabelling (model, and mask if given) -/
theorem eStep_perm {P : Type} {K : Nat} (c : MixCfg ℝ P F (K+1) T) (θ : Mix ℝ P F (K+1) T)
    (σ : Equiv.Perm (Fin (K+1))) : Mix.eStep (permCfg σ c) (permMix σ θ) = permE σ (Mix.eStep c θ) :=
  PosteriorProof.eStep_perm c θ σ

/-- M-step of the generic mixture trainer under relabelling (weights by any rule / tying, components from their own
class row) -/
theorem mStep_perm {P : Type} (c : MixCfg ℝ P F K T) (e : EOut ℝ F K T) (σ : Equiv.Perm (Fin K)) :
    Mix.mStep (permCfg σ c) (permE σ e) = permMix σ (Mix.mStep c e) :=
  PosteriorProof.mStep_perm c e σ

/-- **C05 for the generic mixture trainer**: permuting the class axis of the initial affiliation (and of the
source-activity mask) permutes the fitted model the same way — every weight rule, every tying option, every
component family, every number of iterations -/
theorem mixture_fit_perm {P : Type} {K : Nat} (c : MixCfg ℝ P F (K+1) T) (σ : Equiv.Perm (Fin (K+1))) (n : Nat)
    (e₀ : EOut ℝ F (K+1) T) :
    fit (Mix.eStep (permCfg σ c)) (Mix.mStep (permCfg σ c)) n (permE σ e₀)
      = permMix σ (fit (Mix.eStep c) (Mix.mStep c) n e₀) :=
  fit_intertwine (permE σ) (permMix σ) (Mix.eStep c) (Mix.eStep (permCfg σ c)) (Mix.mStep c) (Mix.mStep (permCfg σ c))
    (fun θ => PosteriorProof.eStep_perm c θ σ) (fun e => PosteriorProof.mStep_perm c e σ) n e₀

/-- … and so are the posteriors of `fit_predict` -/
theorem mixture_fitPredict_perm {P : Type} {K : Nat} (c : MixCfg ℝ P F (K+1) T) (σ : Equiv.Perm (Fin (K+1)))
    (n : Nat) (e₀ : EOut ℝ F (K+1) T) (f : Fin F) (k : Fin (K+1)) (t : Fin T) :
    (fitPredict (Mix.eStep (permCfg σ c)) (Mix.mStep (permCfg σ c)) n (permE σ e₀)).aff f k t
      = (fitPredict (Mix.eStep c) (Mix.mStep c) n e₀).aff f (σ k) t := by
  have := fitPredict_equivariant (permE σ) (permMix σ) (Mix.eStep c) (Mix.eStep (permCfg σ c)) (Mix.mStep c)
    (Mix.mStep (permCfg σ c)) (fun θ => PosteriorProof.eStep_perm c θ σ) (fun e => PosteriorProof.mStep_perm c e σ) n e₀
  rw [this]; rfl

/-- non-vacuity / sanity: a transposition really moves a class (two classes, unequal log-pdfs): the relabelled
posterior of class 0 is the original posterior of class 1, and the two posteriors differ -/
example : ∃ (w lp : Fin 2 → ℝ), Posterior.affiliation (1/1000) none w lp none 0 ≠ Posterior.affiliation (1/1000) none w lp none 1 ∧
    Posterior.affiliation (1/1000) none (fun k => w (Equiv.swap 0 1 k)) (fun k => lp (Equiv.swap 0 1 k)) none 0
      = Posterior.affiliation (1/1000) none w lp none 1 := by
  refine ⟨fun _ => 1, fun k => if k = 0 then 0 else Real.log 2, ?_, ?_⟩
  · have hmax : vmax (fun k : Fin 2 => if k = 0 then (0 : ℝ) else Real.log 2) = Real.log 2 := by
      apply le_antisymm
      · obtain ⟨k, hk⟩ := vmax_mem (fun k : Fin 2 => if k = 0 then (0 : ℝ) else Real.log 2)
        rw [hk]; fin_cases k <;> simp [Real.log_nonneg]
      · have := vmax_ge (fun k : Fin 2 => if k = 0 then (0 : ℝ) else Real.log 2) 1
        simpa using this
    simp only [affiliation_none_eq, term, mfac, hmax]
    have hd : 0 < max (∑ j : Fin 2, Real.exp ((if j = 0 then (0 : ℝ) else Real.log 2) - Real.log 2) * 1 * 1) (1/1000) :=
      lt_of_lt_of_le (by norm_num) (le_max_right _ _)
    intro h
    rw [div_left_inj' hd.ne'] at h
    simp [Real.exp_neg, Real.exp_log] at h
  · have := PosteriorProof.affiliation_perm (K := 1) (1/1000) none (fun _ => 1)
      (fun k => if k = 0 then 0 else Real.log 2) none (Equiv.swap 0 1) 0
    simpa using this


/-! ## Relabelling equivariance on the executable EM model `Em.fit` (`PbBss/Proofs/EmEquivariance.lean`)

The theorems above are about the mixture model of `Posterior.lean`; the same property on the model the monotonicity (C02),
fixed-point (C03) and pipeline-chain (C16/C17) theorems are about: for EVERY component family, weight rule, tying, saliency
and number of iterations, with no hypotheses. -/
section em_model
open PbBss.Em PbBss.EmProof
variable {Θ Y : Type} {K N : Nat}

/-- the posterior of the relabelled model is the relabelled posterior -/
theorem em_eStep_perm (tiny : ℝ) (fam : Family Θ Y ℝ) (θ : Mixture Θ ℝ (K+1) N) (y : Fin N → Y)
    (σ : Equiv.Perm (Fin (K+1))) (k : Fin (K+1)) (n : Fin N) :
    eStep tiny fam (θ.perm σ) y k n = eStep tiny fam θ y (σ k) n :=
  EmProof.eStep_perm tiny fam θ y σ k n

/-- the M-step of the relabelled posteriors is the relabelled M-step (all three weight rules, both tying modes) -/
theorem em_mStep_perm (fam : Family Θ Y ℝ) (rule : WeightRule) (tie : Tying N) (eps : ℝ) (s : Fin N → ℝ)
    (y : Fin N → Y) (γ aux : Fin K → Fin N → ℝ) (σ : Equiv.Perm (Fin K)) :
    mStep fam rule tie eps s y (fun k => γ (σ k)) (fun k => aux (σ k)) = (mStep fam rule tie eps s y γ aux).perm σ :=
  EmProof.mStep_perm fam rule tie eps s y γ aux σ

/-- **`fit` is equivariant under relabelling of the classes**, every number of iterations -/
theorem em_fit_perm (tiny : ℝ) (fam : Family Θ Y ℝ) (rule : WeightRule) (tie : Tying N) (eps : ℝ) (s : Fin N → ℝ)
    (y : Fin N → Y) (n : Nat) (γ₀ : Fin (K+1) → Fin N → ℝ) (σ : Equiv.Perm (Fin (K+1))) :
    fit tiny fam rule tie eps s y n (fun k => γ₀ (σ k)) = (fit tiny fam rule tie eps s y n γ₀).perm σ :=
  EmProof.fit_perm tiny fam rule tie eps s y n γ₀ σ

/-- … and so are the posteriors of the fitted model (`fit_predict`) and its log-likelihood -/
theorem em_fit_predict_perm (tiny : ℝ) (fam : Family Θ Y ℝ) (rule : WeightRule) (tie : Tying N) (eps : ℝ)
    (s : Fin N → ℝ) (y : Fin N → Y) (n : Nat) (γ₀ : Fin (K+1) → Fin N → ℝ) (σ : Equiv.Perm (Fin (K+1)))
    (k : Fin (K+1)) (m : Fin N) :
    eStep tiny fam (fit tiny fam rule tie eps s y n (fun k => γ₀ (σ k))) y k m
      = eStep tiny fam (fit tiny fam rule tie eps s y n γ₀) y (σ k) m :=
  EmProof.fit_predict_perm tiny fam rule tie eps s y n γ₀ σ k m

theorem em_fit_logLik_perm (tiny : ℝ) (fam : Family Θ Y ℝ) (rule : WeightRule) (tie : Tying N) (eps : ℝ)
    (s : Fin N → ℝ) (y : Fin N → Y) (n : Nat) (γ₀ : Fin (K+1) → Fin N → ℝ) (σ : Equiv.Perm (Fin (K+1))) :
    logLik fam s (fit tiny fam rule tie eps s y n (fun k => γ₀ (σ k))) y
      = logLik fam s (fit tiny fam rule tie eps s y n γ₀) y :=
  EmProof.fit_logLik_perm tiny fam rule tie eps s y n γ₀ σ

end em_model

end PbBss.C05

import PbBss.Proofs.DistProof
/-! # C07 — `log_pdf` is the logarithm of the named, normalised density

Statements only (proofs: `PbBss/Proofs/DistProof.lean`).  Models: `PbBss/Model/Dist.lean`, one observation of
each `log_pdf` of `pb_bss/distribution/{gaussian, complex_circular_symmetric_gaussian, von_mises_fisher,
complex_watson, complex_bingham, complex_angular_central_gaussian}.py`, tied to the code by the correspondence
run of `harness/props/c07.py` (driver `driver_dist`, `α := Float`); here `α := ℝ`, `β := ℂ`, `pi := Real.pi`.

Each theorem identifies the transcription with the textbook closed form of the density *under the contract of
the externals it receives* (precision-Cholesky factor, `slogdet`/`solve`, `ive`, `hyp1f1`, a unitary
eigen-decomposition).  The contracts are re-checked numerically on every run (`contract:*` rows of the
correspondence).

**Normalisation.**  Proved here: the three real Gaussians and the complex Gaussian integrate to one w.r.t. Lebesgue
measure (`gaussians_integrate_to_one`, `cgauss_integrates_to_one`), the cACG `log_pdf` integrates to the sphere area
`2π^D/(D-1)!` (`cacg_integrates_to_sphere_area`), the complex Watson density integrates to one
(`watson_integrates_to_one`), and the `D = 1` von Mises–Fisher law sums to one.

**Gap (not a theorem).**  "`exp(log_pdf)` integrates to one over the unit sphere" for von Mises–Fisher (`D ≥ 2`) and the
complex Bingham distribution needs `∫ exp(κ μᵀx) dS = (2π)^{D/2} I_{D/2-1}(κ) / κ^{D/2-1}` (Mathlib has no Bessel
functions) and Kent's formula for the complex Bingham normaliser.  These two integrals are supported by the
quadrature search on the real code only; the theorems identify `log_pdf` with the textbook closed form in which the
normaliser occurs. -/
namespace PbBss.C07
open PbBss PbBss.Dist Matrix
open scoped BigOperators ComplexOrder

/-! ## Gaussians (`gaussian.py`) -/

/-- **full covariance.** With scikit-learn's contract for `precision_cholesky` (`P` upper triangular with positive
diagonal, `P Pᵀ = Σ⁻¹`) and `log_det_precision_cholesky = Σ_i log P_ii`, `Gaussian.log_pdf` is
`-D/2 log 2π - ½ log det Σ - ½ (y-μ)ᵀ Σ⁻¹ (y-μ)`.  (The whitening `einsum('...Dd,...nD->...nd')` is `Pᵀ(y-μ)`;
with the transposed subscripts — the defect fixed in 79c9618 — this statement is false for non-normal `P`.) -/
theorem gaussian_full_logPdf {D : Nat} (μ y : Fin D → ℝ) (P S : Matrix (Fin D) (Fin D) ℝ) (ell : ℝ)
    (htri : P.IsUpperTriangular) (hpos : ∀ i, 0 < P i i) (hP : P * Pᵀ = S⁻¹)
    (hell : ell = ∑ i, Real.log (P i i)) :
    gaussLogPdf Real.pi μ (fun i j => P i j) ell y
      = -(D : ℝ) / 2 * Real.log (2 * Real.pi) - 1 / 2 * Real.log S.det
        - 1 / 2 * ((y - μ) ⬝ᵥ (S⁻¹ *ᵥ (y - μ))) :=
  gaussLogPdf_closed μ y P S ell htri hpos hP hell

/-- guard against the totalised `⁻¹`/`log`: the contract itself forces `det Σ > 0`, so `Σ⁻¹` above is the
true inverse and `log det Σ` a true logarithm -/
theorem gaussian_contract_forces_invertible {D : Nat} (P S : Matrix (Fin D) (Fin D) ℝ)
    (htri : P.IsUpperTriangular) (hpos : ∀ i, 0 < P i i) (hP : P * Pᵀ = S⁻¹) : 0 < S.det :=
  (logdet_of_contract P S htri hpos hP).1

/-- **diagonal covariance**, contract form: `p_d = 1/√σ_d²`, `ℓ = Σ log p_d` -/
theorem gaussian_diag_logPdf {D : Nat} (μ y p c : Fin D → ℝ) (ell : ℝ) (hc : ∀ d, 0 < c d)
    (hp : ∀ d, p d = 1 / Real.sqrt (c d)) (hell : ell = ∑ d, Real.log (p d)) :
    diagLogPdf Real.pi μ p ell y
      = -(D : ℝ) / 2 * Real.log (2 * Real.pi) - 1 / 2 * Real.log (∏ d, c d)
        - 1 / 2 * ∑ d, (y d - μ d) ^ 2 / c d :=
  diagLogPdf_closed μ y p c ell hc hp hell

/-- **diagonal covariance**, whole object (`__post_init__` with the scikit-learn helpers modelled + `log_pdf`) -/
theorem gaussian_diag_ofCov {D : Nat} (μ y c : Fin D → ℝ) (hc : ∀ d, 0 < c d) :
    diagOfCov Real.pi μ c y
      = -(D : ℝ) / 2 * Real.log (2 * Real.pi) - 1 / 2 * Real.log (∏ d, c d)
        - 1 / 2 * ∑ d, (y d - μ d) ^ 2 / c d :=
  diagOfCov_closed μ y c hc

/-- **spherical covariance** `σ² I`, contract form: `-D/2 log 2π - D/2 log σ² - ‖y-μ‖²/(2σ²)` -/
theorem gaussian_spherical_logPdf {D : Nat} (μ y : Fin D → ℝ) (p c ell : ℝ) (hc : 0 < c)
    (hp : p = 1 / Real.sqrt c) (hell : ell = (D : ℝ) * Real.log p) :
    sphLogPdf Real.pi μ p ell y
      = -(D : ℝ) / 2 * Real.log (2 * Real.pi) - (D : ℝ) / 2 * Real.log c
        - 1 / (2 * c) * ∑ d, (y d - μ d) ^ 2 :=
  sphLogPdf_closed μ y p c ell hc hp hell

/-- **spherical covariance**, whole object -/
theorem gaussian_spherical_ofCov {D : Nat} (μ y : Fin D → ℝ) (c : ℝ) (hc : 0 < c) :
    sphOfCov Real.pi μ c y
      = -(D : ℝ) / 2 * Real.log (2 * Real.pi) - (D : ℝ) / 2 * Real.log c
        - 1 / (2 * c) * ∑ d, (y d - μ d) ^ 2 :=
  sphOfCov_closed μ y c hc

/-- **the three real Gaussians integrate to one** w.r.t. Lebesgue measure on `ℝ^D` (every `D`): full covariance for any
upper triangular factor with positive diagonal and `ℓ = Σ log P_ii` (it is the law `N(μ, (P Pᵀ)⁻¹)`), diagonal and
spherical for positive variances.  Proof: whitening is a linear change of variables with Jacobian `det P`, then
Fubini and Mathlib's one-dimensional `integral_gaussianPDFReal_eq_one`. -/
theorem gaussians_integrate_to_one {D : Nat} (μ : Fin D → ℝ) :
    (∀ (P : Matrix (Fin D) (Fin D) ℝ) (ell : ℝ), P.IsUpperTriangular → (∀ i, 0 < P i i) →
        ell = ∑ i, Real.log (P i i) →
        ∫ y : Fin D → ℝ, Real.exp (gaussLogPdf Real.pi μ (fun i j => P i j) ell y) = 1) ∧
    (∀ c : Fin D → ℝ, (∀ d, 0 < c d) → ∫ y : Fin D → ℝ, Real.exp (diagOfCov Real.pi μ c y) = 1) ∧
    (∀ c : ℝ, 0 < c → ∫ y : Fin D → ℝ, Real.exp (sphOfCov Real.pi μ c y) = 1) :=
  ⟨fun P ell htri hpos hell => integral_exp_gaussLogPdf μ P ell htri hpos hell,
   fun c hc => integral_exp_diagOfCov μ c hc, fun c hc => integral_exp_sphOfCov μ c hc⟩

/-- the diagonal Gaussian density is the product of Mathlib's one-dimensional Gaussian densities
`ProbabilityTheory.gaussianPDFReal (μ_d) (σ_d²)` -/
theorem gaussian_diag_is_product_density {D : Nat} (μ y c : Fin D → ℝ) (hc : ∀ d, 0 < c d) :
    Real.exp (diagOfCov Real.pi μ c y)
      = ∏ d, ProbabilityTheory.gaussianPDFReal (μ d) (c d).toNNReal (y d) :=
  exp_diagOfCov_eq_prod μ y c hc

/-! ## complex circularly symmetric Gaussian -/

/-- with `Σ` Hermitian positive definite, `s = solve(Σ, y)` and `logdet = slogdet(Σ)[1] = log|det Σ|`:
`log_pdf = -D log π - log det Σ - yᴴ Σ⁻¹ y` -/
theorem cgauss_logPdf {D : Nat} (S : Matrix (Fin D) (Fin D) ℂ) (hS : S.PosDef) (s y : Fin D → ℂ)
    (logdet : ℝ) (hs : S *ᵥ s = y) (hld : logdet = Real.log ‖S.det‖) :
    cgaussLogPdf Real.pi logdet s y
      = -(D : ℝ) * Real.log Real.pi - Real.log (S.det).re - (star y ⬝ᵥ (S⁻¹ *ᵥ y)).re :=
  cgaussLogPdf_closed S hS s y logdet hs hld

/-- **the complex Gaussian integrates to one** w.r.t. Lebesgue measure on `ℂ^D = ℝ^{2D}`, for every Hermitian positive
definite `Σ` (externals at their contract values `s = Σ⁻¹y`, `logdet = log|det Σ|`).  Proof: `Σ⁻¹ = BᴴB`, the
complex-linear change of variables `w = By` has real Jacobian `|det B|² = 1/det Σ`, and `∫_ℂ e^{-|z|²} = π`. -/
theorem cgauss_integrates_to_one {D : Nat} (S : Matrix (Fin D) (Fin D) ℂ) (hS : S.PosDef) :
    ∫ y : Fin D → ℂ, Real.exp (cgaussLogPdf Real.pi (Real.log ‖S.det‖) (S⁻¹ *ᵥ y) y) = 1 :=
  integral_exp_cgauss S hS

/-! ## von Mises–Fisher -/

/-- given `ive(D/2-1, κ) = I_{D/2-1}(κ)·e^{-κ}` with `I > 0`, `κ > 0`, and an observation whose norm is not below
`tiny`: `log_pdf = κ μᵀx - [ D/2 log 2π + log I_{D/2-1}(κ) - (D/2-1) log κ ]`, `x = y/‖y‖` -/
theorem vmf_logPdf {D : Nat} (μ y : Fin D → ℝ) (κ Inu tiny : ℝ) (hκ : 0 < κ) (hI : 0 < Inu)
    (hy : tiny ≤ Real.sqrt (∑ d, y d ^ 2)) :
    vmfLogPdf Real.pi tiny μ κ (Inu * Real.exp (-κ)) y
      = κ * ∑ d, y d / Real.sqrt (∑ e, y e ^ 2) * μ d
        - ((D : ℝ) / 2 * Real.log (2 * Real.pi) + Real.log Inu - ((D : ℝ) / 2 - 1) * Real.log κ) :=
  vmfLogPdf_closed μ y κ Inu tiny hκ hI hy

/-- the density itself: `C_D(κ) e^{κ μᵀx}` with `C_D(κ) = κ^{D/2-1} / ((2π)^{D/2} I_{D/2-1}(κ))` -/
theorem vmf_pdf {D : Nat} (μ y : Fin D → ℝ) (κ Inu tiny : ℝ) (hκ : 0 < κ) (hI : 0 < Inu)
    (hy : tiny ≤ Real.sqrt (∑ d, y d ^ 2)) :
    Real.exp (vmfLogPdf Real.pi tiny μ κ (Inu * Real.exp (-κ)) y)
      = κ ^ ((D : ℝ) / 2 - 1) / ((2 * Real.pi) ^ ((D : ℝ) / 2) * Inu)
        * Real.exp (κ * ∑ d, y d / Real.sqrt (∑ e, y e ^ 2) * μ d) :=
  exp_vmfLogPdf μ y κ Inu tiny hκ hI hy

/-- `D = 1` (two-point sphere `{+1,-1}`, counting measure): with the elementary closed form
`I_{-1/2}(κ) = √(2/(πκ)) cosh κ` the von Mises–Fisher law **sums to one** -/
theorem vmf_D1_sums_to_one (m κ tiny : ℝ) (hm : m = 1 ∨ m = -1) (hκ : 0 < κ) (ht : tiny ≤ 1) :
    Real.exp (vmfLogPdf (D := 1) Real.pi tiny (fun _ => m) κ
        (Real.sqrt (2 / (Real.pi * κ)) * Real.cosh κ * Real.exp (-κ)) (fun _ => 1))
      + Real.exp (vmfLogPdf (D := 1) Real.pi tiny (fun _ => m) κ
        (Real.sqrt (2 / (Real.pi * κ)) * Real.cosh κ * Real.exp (-κ)) (fun _ => -1)) = 1 :=
  vmf_D1_sum_one m κ tiny hm hκ ht

/-! ## complex Watson -/

/-- with `h = hyp1f1(1, D, κ) = M(1; D; κ)`: `log_pdf = κ |wᴴz|² - log( 2π^D/(D-1)! · M(1; D; κ) )` -/
theorem watson_logPdf {D : Nat} (w y : Fin D → ℂ) (κ M : ℝ) :
    watsonLogPdf Real.pi w κ M y
      = κ * ‖∑ d, y d * star (w d)‖ ^ 2
        - Real.log (2 * Real.pi ^ D / ((D - 1).factorial : ℝ) * M) :=
  watsonLogPdf_closed w y κ M

/-- **the complex Watson `log_pdf` integrates to one** over the Euclidean unit sphere of `ℂ^D`, `D = n+1`, w.r.t. the surface
measure induced by Lebesgue measure, for every `κ ≥ 0` and every mode `w` that is the first column of a unitary matrix
(the trainer's mode is an eigenvector returned by `eigh`), with the external `hyp1f1(1, D, κ)` at its contract value
`kummerM1 n κ = Σ_m κ^m n!/(m+n)! = M(1; D; κ)` (Mathlib has no hypergeometric functions: defined by the series, which
the correspondence run compares with `scipy.special.hyp1f1`).  Proof: the moments `∫_S |wᴴu|^{2m} dS = 2π^D m!/(m+D-1)!`
follow from `∫_{ℂ^D} |y_0|^{2m} e^{-|y|²} dy = π^D m!` by polar coordinates; then the exponential series is integrated
term by term. -/
theorem watson_integrates_to_one {n : Nat} (κ : ℝ) (hκ : 0 ≤ κ) (U : Matrix (Fin (n + 1)) (Fin (n + 1)) ℂ)
    (hU : Uᴴ * U = 1) :
    ∫ u : Metric.sphere (0 : CE (n + 1)) 1,
        Real.exp (watsonLogPdf Real.pi (fun d => U d 0) κ (kummerM1 n κ) u.1.ofLp) ∂(volE (n + 1)).toSphere
      = 1 :=
  watson_sphere_integral κ hκ U hU

/-! ## complex Bingham -/

/-- `norm(remove_duplicate_eigenvalues=False)` is Kent's formula `2π^D Σ_j e^{λ_j} / ∏_{k≠j}(λ_j - λ_k)` -/
theorem bingham_norm_raw {D : Nat} (lam : Fin D → ℝ) :
    binghamNormRaw Real.pi lam
      = 2 * Real.pi ^ D * ∑ j, Real.exp (lam j) / ∏ k ∈ Finset.univ.erase j, (lam j - lam k) :=
  binghamNormRaw_closed lam

/-- `norm()` is that formula at the sorted-and-spread eigenvalues `λ' = removeDup eps λ` -/
theorem bingham_norm {D : Nat} (eps : ℝ) (lam : Fin D → ℝ) :
    binghamNorm Real.pi eps lam
      = 2 * Real.pi ^ D * ∑ j, Real.exp (removeDup eps lam j)
          / ∏ k ∈ Finset.univ.erase j, (removeDup eps lam j - removeDup eps lam k) :=
  binghamNormRaw_closed _

/-- **in the property's domain** (pairwise gaps `≥ eps > 0`; the code's `eps` is `1e-8`, the property's bound `1e-3`)
`norm()` is Kent's formula at the stored eigenvalues themselves: the sort does not matter (the formula is
symmetric) and the spreading map is the identity -/
theorem bingham_norm_of_gaps {D : Nat} (eps : ℝ) (heps : 0 < eps) (lam : Fin D → ℝ)
    (hgap : ∀ i j, i ≠ j → eps ≤ |lam i - lam j|) :
    binghamNorm Real.pi eps lam
      = 2 * Real.pi ^ D * ∑ j, Real.exp (lam j) / ∏ k ∈ Finset.univ.erase j, (lam j - lam k) :=
  binghamNorm_of_gaps eps heps lam hgap

/-- `log_pdf = zᴴ B z - log norm`, `B = U diag(λ) Uᴴ` -/
theorem bingham_logPdf {D : Nat} (U : Matrix (Fin D) (Fin D) ℂ) (lam : Fin D → ℝ) (y : Fin D → ℂ) (eps : ℝ) :
    binghamLogPdf Real.pi eps (fun i j => U i j) lam y
      = (star y ⬝ᵥ (specMat U lam *ᵥ y)).re
        - Real.log (2 * Real.pi ^ D * ∑ j, Real.exp (removeDup eps lam j)
            / ∏ k ∈ Finset.univ.erase j, (removeDup eps lam j - removeDup eps lam k)) :=
  binghamLogPdf_closed U lam y eps

/-- the sort inside `_remove_duplicate_eigenvalues` rearranges the eigenvalues and puts them in ascending order -/
theorem bingham_sorted {D : Nat} (lam : Fin D → ℝ) :
    (List.ofFn (sortedFam lam)).Perm (List.ofFn lam) ∧ Monotone (sortedFam lam) :=
  ⟨sortedFam_perm lam, sortedFam_mono lam⟩

/-- the spreading map is order preserving: consecutive outputs differ by at least `eps`, hence strictly ascending -/
theorem bingham_spread_order {D : Nat} (eps : ℝ) (heps : 0 < eps) (lam : Fin D → ℝ) :
    StrictMono (removeDup eps lam) ∧
    ∀ (j : Fin D) (h : j.val + 1 < D), removeDup eps lam j + eps ≤ removeDup eps lam ⟨j.val + 1, h⟩ :=
  ⟨removeDup_strictMono eps heps lam, removeDup_gap eps lam⟩

/-- it leaves eigenvalue sets whose (sorted) gaps are `≥ eps` untouched, and it is idempotent -/
theorem bingham_spread_idempotent {D : Nat} (eps : ℝ) (heps : 0 ≤ eps) (lam : Fin D → ℝ) :
    ((∀ (j : Fin D) (h : j.val + 1 < D), sortedFam lam j + eps ≤ sortedFam lam ⟨j.val + 1, h⟩) →
      removeDup eps lam = sortedFam lam) ∧
    removeDup eps (removeDup eps lam) = removeDup eps lam :=
  ⟨removeDup_eq_sorted eps lam, removeDup_idem eps heps lam⟩

/-- it moves every eigenvalue upwards by at most `(D-1)·eps` -/
theorem bingham_spread_moves {D : Nat} (eps : ℝ) (heps : 0 ≤ eps) (lam : Fin D → ℝ) (j : Fin D) :
    0 ≤ removeDup eps lam j - sortedFam lam j ∧
      removeDup eps lam j - sortedFam lam j ≤ ((D - 1 : ℕ) : ℝ) * eps :=
  ⟨(removeDup_moves eps heps lam j).1, (removeDup_moves eps heps lam j).2.2⟩

/-! ## complex angular central Gaussian -/

/-- with a unitary `U`, positive `λ`, a non-zero observation `y`, `z = y/‖y‖`, `B = U diag(λ) Uᴴ` and the
guard that the floor `tiny` is not active: `log_pdf = -D log(zᴴ B⁻¹ z) - log det B`
(the normalised cACG density `(D-1)!/(2π^D) · det(B)⁻¹ (zᴴB⁻¹z)^{-D}` times the sphere area `2π^D/(D-1)!`) -/
theorem cacg_logPdf {D : Nat} (tiny : ℝ) (U : Matrix (Fin D) (Fin D) ℂ) (lam : Fin D → ℝ)
    (y z : Fin D → ℂ) (hU : Uᴴ * U = 1) (hl : ∀ e, 0 < lam e)
    (hy : 0 < Real.sqrt (∑ d, ‖y d‖ ^ 2))
    (hz : z = fun d => y d / ((Real.sqrt (∑ d, ‖y d‖ ^ 2) : ℝ) : ℂ))
    (hguard : tiny ≤ (star z ⬝ᵥ ((specMat U lam)⁻¹ *ᵥ z)).re) :
    cacgLogPdf tiny (fun i j => U i j) lam y
      = -(D : ℝ) * Real.log (star z ⬝ᵥ ((specMat U lam)⁻¹ *ᵥ z)).re
        - Real.log ((specMat U lam).det).re :=
  cacgLogPdf_closed tiny U lam y z hU hl hy hz hguard

/-- the stored eigen-decomposition is one of `B`: `det B = ∏ λ` and `B⁻¹ = U diag(1/λ) Uᴴ` -/
theorem cacg_spectral {D : Nat} (U : Matrix (Fin D) (Fin D) ℂ) (lam : Fin D → ℝ) (hU : Uᴴ * U = 1)
    (hl : ∀ e, lam e ≠ 0) :
    (specMat U lam).det = ((∏ e, lam e : ℝ) : ℂ) ∧ (specMat U lam)⁻¹ = specMat U (fun e => 1 / lam e) :=
  ⟨specMat_det U lam hU, specMat_inv U lam hU hl⟩

/-- **the cACG `log_pdf` integrates to the sphere area `2π^D/(D-1)!`** over the Euclidean unit sphere of `ℂ^D` with
respect to the surface measure induced by Lebesgue measure of `ℂ^D = ℝ^{2D}` (`Measure.toSphere`; `CE D` is
`EuclideanSpace ℂ (Fin D)`, `volE D` the transported Lebesgue measure), for every unitary `U`, positive `λ` and a
floor `tiny` below the quadratic form.  Proof: polar coordinates turn `∫_{ℂ^D} e^{-zᴴB⁻¹z} = π^D det B` (the complex
Gaussian integral above) into `∫_S (zᴴB⁻¹z)^{-D} dS = 2π^D det B/(D-1)!`.  The second part says that this constant is
indeed the total surface measure of the sphere. -/
theorem cacg_integrates_to_sphere_area {D : Nat} (hD : 0 < D) (tiny : ℝ) (U : Matrix (Fin D) (Fin D) ℂ)
    (lam : Fin D → ℝ) (hU : Uᴴ * U = 1) (hl : ∀ e, 0 < lam e)
    (hguard : ∀ u : Metric.sphere (0 : CE D) 1, tiny ≤ cacgQ U lam u.1) :
    ∫ u : Metric.sphere (0 : CE D) 1,
        Real.exp (cacgLogPdf tiny (fun i j => U i j) lam u.1.ofLp) ∂(volE D).toSphere
      = 2 * Real.pi ^ D / ((D - 1).factorial : ℝ) ∧
    (volE D).toSphere.real Set.univ = 2 * Real.pi ^ D / ((D - 1).factorial : ℝ) :=
  ⟨cacg_sphere_integral hD tiny U lam hU hl hguard, toSphere_volE_univ hD⟩

/-! ## non-vacuity -/

/-- the hypotheses of `gaussian_full_logPdf` are satisfiable by a NON-diagonal covariance:
`Σ = [[1,-1],[-1,2]]`, `Σ⁻¹ = [[2,1],[1,1]] = P Pᵀ` with `P = [[1,1],[0,1]]` -/
example : ∃ (P S : Matrix (Fin 2) (Fin 2) ℝ), P.IsUpperTriangular ∧ (∀ i, 0 < P i i) ∧ P * Pᵀ = S⁻¹ ∧
    S 0 1 ≠ 0 := by
  refine ⟨!![1, 1; 0, 1], !![1, -1; -1, 2], ?_, ?_, ?_, by norm_num⟩
  · intro i j hij
    fin_cases i <;> fin_cases j <;> simp_all
  · intro i; fin_cases i <;> simp
  · have hPP : (!![1, 1; 0, 1] : Matrix (Fin 2) (Fin 2) ℝ) * (!![1, 1; 0, 1] : Matrix (Fin 2) (Fin 2) ℝ)ᵀ
        = !![2, 1; 1, 1] := by
      ext i j
      fin_cases i <;> fin_cases j <;>
        (simp [Matrix.mul_apply, Fin.sum_univ_two, Matrix.transpose_apply]; try norm_num)
    rw [hPP]
    symm
    apply Matrix.inv_eq_right_inv
    ext i j
    fin_cases i <;> fin_cases j <;> simp [Matrix.mul_apply, Fin.sum_univ_two] <;> norm_num

/-- the spreading map acts as the doctest says: `[0.5, 0.5] ↦ [0.5, 0.5 + eps]` -/
example (eps : ℝ) (heps : 0 ≤ eps) : spread eps [0.5, 0.5] = [0.5, 0.5 + eps] := by
  simp [spread, spreadAux, max_eq_right heps]

/-- the cACG hypotheses are satisfiable (`U = 1`, `λ = (1, 2)`) -/
example : ∃ (U : Matrix (Fin 2) (Fin 2) ℂ) (lam : Fin 2 → ℝ), Uᴴ * U = 1 ∧ ∀ e, 0 < lam e :=
  ⟨1, ![1, 2], by simp, by intro e; fin_cases e <;> simp⟩

end PbBss.C07

import PbBss.Proofs.PosteriorProof
/-! # C01 — affiliations are valid distributions and equal the model's Bayes posterior

Statements over `ℝ` about `PbBss.Posterior.affiliation` (= `log_pdf_to_affiliation` for one observation, the very
definition the driver executes on `Float`), the weight broadcasting, the E-step of the generic mixture
(`Mix.eStep` = `predict`) and the initialisers.  `mfac mask k` is the factor the source-activity mask
contributes (`1` without a mask, `1`/`0` for an active / inactive source).

Gap (not a theorem): "never NaN / finite for any magnitude" is a floating-point claim; what is proved is the
logical core of the guards (`affiliation_max_term`: no term exceeds `1` and one equals `1`; denominators are
bounded below by `tiny`; `0 ≤ γ ≤ 1` and `Σ γ ≤ 1` even when the denominator is floored). -/
namespace PbBss.C01
open PbBss PbBss.Posterior PbBss.PosteriorProof

variable {K : Nat}

/-- posteriors are non-negative (weights non-negative, `tiny > 0`) -/
theorem affiliation_nonneg {tiny : ℝ} {w : Fin (K+1) → ℝ} (hw : ∀ k, 0 ≤ w k) (ht : 0 < tiny)
    (lp : Fin (K+1) → ℝ) (mask : Option (Fin (K+1) → Bool)) (k : Fin (K+1)) :
    0 ≤ Posterior.affiliation tiny none w lp mask k := by
  rw [affiliation_none_eq]
  exact div_nonneg (term_nonneg hw mask k) (den_pos ht w lp mask).le

/-- posteriors never exceed one — also when the denominator is floored by `tiny` -/
theorem affiliation_le_one {tiny : ℝ} {w : Fin (K+1) → ℝ} (hw : ∀ k, 0 ≤ w k) (ht : 0 < tiny)
    (lp : Fin (K+1) → ℝ) (mask : Option (Fin (K+1) → Bool)) (k : Fin (K+1)) :
    Posterior.affiliation tiny none w lp mask k ≤ 1 := by
  rw [affiliation_none_eq, div_le_one (den_pos ht w lp mask)]
  refine le_trans ?_ (le_max_left _ _)
  exact Finset.single_le_sum (fun j _ => term_nonneg hw mask j) (Finset.mem_univ k)

/-- the class sum never exceeds one, whatever the denominator guard does -/
theorem affiliation_sum_le_one {tiny : ℝ} (w : Fin (K+1) → ℝ) (ht : 0 < tiny)
    (lp : Fin (K+1) → ℝ) (mask : Option (Fin (K+1) → Bool)) :
    ∑ k, Posterior.affiliation tiny none w lp mask k ≤ 1 := by
  simp only [affiliation_none_eq]
  rw [← Finset.sum_div, div_le_one (den_pos ht w lp mask)]
  exact le_max_left _ _

/-- **normalisation**: the posteriors of one observation sum to one, under the forced hypothesis that the
denominator is not floored (`hden`; see `hden_of_positive_mass` and `hden_fails_when_argmax_masked`) -/
theorem affiliation_sum_one {tiny : ℝ} {w lp : Fin (K+1) → ℝ} (mask : Option (Fin (K+1) → Bool)) (ht : 0 < tiny)
    (hden : tiny ≤ ∑ k, Real.exp (lp k - vmax lp) * w k * mfac mask k) :
    ∑ k, Posterior.affiliation tiny none w lp mask k = 1 := by
  simp only [affiliation_none_eq]
  change tiny ≤ ∑ k, term w lp mask k at hden
  rw [max_eq_left hden, ← Finset.sum_div]
  exact div_self (by linarith)

/-- **Bayes' rule**: `γ_k = π_k m_k p_k / Σ_j π_j m_j p_j` with `p_k = exp (lp k)` -/
theorem affiliation_bayes {tiny : ℝ} {w lp : Fin (K+1) → ℝ} (mask : Option (Fin (K+1) → Bool)) (ht : 0 < tiny)
    (hden : tiny ≤ ∑ k, Real.exp (lp k - vmax lp) * w k * mfac mask k) (k : Fin (K+1)) :
    Posterior.affiliation tiny none w lp mask k
      = w k * mfac mask k * Real.exp (lp k) / ∑ j, w j * mfac mask j * Real.exp (lp j) := by
  rw [affiliation_none_eq]
  change tiny ≤ ∑ k, term w lp mask k at hden
  rw [max_eq_left hden]
  have hm : 0 < Real.exp (vmax lp) := Real.exp_pos _
  have h : ∀ j, term w lp mask j = w j * mfac mask j * Real.exp (lp j) / Real.exp (vmax lp) := by
    intro j; unfold term; rw [Real.exp_sub]; ring
  have hs : 0 < ∑ j, term w lp mask j := lt_of_lt_of_le ht hden
  simp only [h] at hs ⊢
  rw [← Finset.sum_div] at hs ⊢
  have hs' : (∑ j, w j * mfac mask j * Real.exp (lp j)) ≠ 0 := by
    intro h0; rw [h0, zero_div] at hs; exact lt_irrefl _ hs
  field_simp

/-- a source the mask declares inactive gets posterior exactly zero -/
theorem affiliation_masked {tiny : ℝ} (w lp : Fin (K+1) → ℝ) (m : Fin (K+1) → Bool) (k : Fin (K+1))
    (h : m k = false) : Posterior.affiliation tiny none w lp (some m) k = 0 := by
  rw [affiliation_none_eq]
  simp [term, mfac, h]

/-- where every source is declared inactive the whole column is zero -/
theorem affiliation_all_masked {tiny : ℝ} (w lp : Fin (K+1) → ℝ) (m : Fin (K+1) → Bool)
    (h : ∀ k, m k = false) (k : Fin (K+1)) : Posterior.affiliation tiny none w lp (some m) k = 0 :=
  affiliation_masked w lp m k (h k)

/-- subtracting the maximum: no exponential exceeds one and one of them equals one (no overflow, no `0/0`) -/
theorem affiliation_max_term (lp : Fin (K+1) → ℝ) :
    (∃ k, Real.exp (lp k - vmax lp) = 1) ∧ ∀ j, Real.exp (lp j - vmax lp) ≤ 1 := by
  constructor
  · obtain ⟨k, hk⟩ := vmax_mem lp
    exact ⟨k, by rw [hk, sub_self, Real.exp_zero]⟩
  · intro j
    rw [← Real.exp_zero]
    exact Real.exp_le_exp.mpr (by have := vmax_ge lp j; linarith)

/-- a common additive constant of the log-pdfs (e.g. a normaliser shared by all classes) does not matter -/
theorem affiliation_shift (tiny : ℝ) (eps : Option ℝ) (w lp : Fin (K+1) → ℝ) (mask : Option (Fin (K+1) → Bool))
    (c : ℝ) : Posterior.affiliation tiny eps w (fun k => lp k + c) mask = Posterior.affiliation tiny eps w lp mask := by
  have hu : unnorm w (fun k => lp k + c) mask = unnorm w lp mask := by
    funext k
    rw [unnorm_eq, unnorm_eq]; unfold term
    rw [vmax_add_const]; congr 3; ring
  unfold Posterior.affiliation denominator
  rw [hu]

/-- with clipping (`affiliation_eps = e`): every value lies in `[e, 1 - e]` and the class sum deviates from one
by at most `(K+1)·e` ("Strictly, you need re-normalization after clipping. We skip that here.") -/
theorem affiliation_clip {tiny e : ℝ} {w lp : Fin (K+1) → ℝ} (mask : Option (Fin (K+1) → Bool))
    (hw : ∀ k, 0 ≤ w k) (ht : 0 < tiny) (he0 : 0 < e) (he : e ≤ 1/2)
    (hden : tiny ≤ ∑ k, Real.exp (lp k - vmax lp) * w k * mfac mask k) :
    (∀ k, e ≤ Posterior.affiliation tiny (some e) w lp mask k ∧ Posterior.affiliation tiny (some e) w lp mask k ≤ 1 - e) ∧
      |∑ k, Posterior.affiliation tiny (some e) w lp mask k - 1| ≤ (K + 1 : ℕ) * e := by
  constructor
  · intro k; rw [affiliation_some_eq]; exact clip_bounds he
  · rw [← affiliation_sum_one mask ht hden, ← Finset.sum_sub_distrib]
    refine le_trans (Finset.abs_sum_le_sum_abs _ _) ?_
    have : ∀ k ∈ Finset.univ, |Posterior.affiliation tiny (some e) w lp mask k - Posterior.affiliation tiny none w lp mask k| ≤ e := by
      intro k _
      rw [affiliation_some_eq]
      exact clip_dist he0 he (affiliation_nonneg hw ht lp mask k) (affiliation_le_one hw ht lp mask k)
    refine le_trans (Finset.sum_le_sum this) ?_
    simp

/-- the forced hypothesis follows from "every class has mass": if a class attaining the maximal log-pdf is
active and has weight `≥ tiny`, the denominator is not floored (its term is `exp 0 · w`) -/
theorem hden_of_positive_mass {tiny : ℝ} {w lp : Fin (K+1) → ℝ} (mask : Option (Fin (K+1) → Bool))
    (hw : ∀ k, 0 ≤ w k) (k0 : Fin (K+1)) (hk0 : lp k0 = vmax lp) (hact : mfac mask k0 = 1) (hw0 : tiny ≤ w k0) :
    tiny ≤ ∑ k, Real.exp (lp k - vmax lp) * w k * mfac mask k := by
  refine le_trans ?_ (Finset.single_le_sum (f := fun k => Real.exp (lp k - vmax lp) * w k * mfac mask k)
    (fun j _ => term_nonneg hw mask j) (Finset.mem_univ k0))
  simp [hk0, hact, hw0]

/-- without a mask, weights `≥ tiny` suffice -/
theorem hden_no_mask {tiny : ℝ} {w : Fin (K+1) → ℝ} (lp : Fin (K+1) → ℝ) (hpos : ∀ k, tiny ≤ w k) (ht : 0 < tiny) :
    tiny ≤ ∑ k, Real.exp (lp k - vmax lp) * w k * mfac none k := by
  obtain ⟨k0, hk0⟩ := vmax_mem lp
  exact hden_of_positive_mass none (fun k => le_trans ht.le (hpos k)) k0 hk0.symm rfl (hpos k0)

/-- the hypothesis is forced: the maximum is subtracted over ALL classes before the mask is applied, so when
the arg-max class is inactive and the active one lies far enough below, the column does not sum to one although
a source with positive weight is active (real-code counterpart: single precision, known finding of C01) -/
theorem hden_fails_when_argmax_masked {tiny : ℝ} (ht : 0 < tiny) :
    ∃ (w lp : Fin 2 → ℝ) (m : Fin 2 → Bool), (∀ k, 0 < w k) ∧ m 1 = true ∧
      ∑ k, Posterior.affiliation tiny none w lp (some m) k < 1 := by
  refine ⟨fun _ => 1, fun k => if k = 0 then 0 else Real.log tiny - 1, fun k => decide (k = 1),
    fun _ => one_pos, by simp, ?_⟩
  have hlt : Real.log tiny - 1 < 0 ∨ 0 ≤ Real.log tiny - 1 := lt_or_ge _ _
  -- value of the maximum
  have hexp : Real.exp (Real.log tiny - 1) = tiny * Real.exp (-1) := by
    rw [sub_eq_add_neg, Real.exp_add, Real.exp_log ht]
  simp only [affiliation_none_eq]
  rw [← Finset.sum_div, div_lt_one (den_pos ht _ _ _)]
  refine lt_of_lt_of_le ?_ (le_max_right _ _)
  rw [Fin.sum_univ_two]
  simp only [term, mfac]
  simp only [Fin.isValue, zero_ne_one, decide_false, Bool.false_eq_true, ↓reduceIte, mul_zero, zero_add,
    decide_true, mul_one, one_ne_zero]
  -- the active term is exp (log tiny - 1 - max) ≤ exp (log tiny - 1) < tiny
  have hmax : (0 : ℝ) ≤ vmax (fun k : Fin 2 => if k = 0 then (0 : ℝ) else Real.log tiny - 1) := by
    have := vmax_ge (fun k : Fin 2 => if k = 0 then (0 : ℝ) else Real.log tiny - 1) 0
    simpa using this
  calc Real.exp (Real.log tiny - 1 - vmax fun k : Fin 2 => if k = 0 then (0 : ℝ) else Real.log tiny - 1)
      ≤ Real.exp (Real.log tiny - 1) := Real.exp_le_exp.mpr (by linarith)
    _ = tiny * Real.exp (-1) := hexp
    _ < tiny * 1 := by
        apply mul_lt_mul_of_pos_left _ ht
        rw [← Real.exp_zero]; exact Real.exp_lt_exp.mpr (by norm_num)
    _ = tiny := mul_one _

/-- non-vacuity: `K+1 = 3`, `w = (0.2, 0.3, 0.5)`, `lp = (−700, 800, 799)`, third class inactive — every
hypothesis of `affiliation_sum_one` / `affiliation_bayes` / `affiliation_clip` is met -/
example : ∃ (w lp : Fin 3 → ℝ) (m : Fin 3 → Bool) (tiny : ℝ), 0 < tiny ∧ (∀ k, 0 ≤ w k) ∧
    tiny ≤ ∑ k, Real.exp (lp k - vmax lp) * w k * mfac (some m) k := by
  refine ⟨![0.2, 0.3, 0.5], ![-700, 800, 799], ![true, true, false], 0.25, by norm_num, ?_, ?_⟩
  · intro k; fin_cases k <;> simp <;> norm_num
  · refine hden_of_positive_mass (some ![true, true, false]) ?_ 1 ?_ ?_ ?_
    · intro k; fin_cases k <;> simp <;> norm_num
    · apply le_antisymm (vmax_ge _ _)
      obtain ⟨k, hk⟩ := vmax_mem (![-700, 800, 799] : Fin 3 → ℝ)
      rw [hk]; fin_cases k <;> simp <;> norm_num
    · simp [mfac]
    · simp; norm_num


/-! ### where a NaN can come from (special-values model `SV`: exact reals + `±∞` + `NaN`, IEEE rules, no rounding) -/

/-- **no NaN is created**: with finite non-negative weights, `tiny > 0` and log-pdfs that are finite or `-∞` with
at least one finite entry, `log_pdf_to_affiliation` — the same generic definition, run on special values — returns a
finite real in `[0, 1]` for every class, with or without a source-activity mask (in particular also when the
denominator is floored).  Partial: rounding and the overflow threshold of `Float` are not modelled. -/
theorem affiliation_finite_special_values {t : ℝ} (ht : 0 < t) (wr : Fin (K+1) → ℝ) (hw : ∀ k, 0 ≤ wr k)
    (lp : Fin (K+1) → SV) (hlp : ∀ k, lp k = SV.ninf ∨ ∃ r, lp k = SV.fin r) (hfin : ∃ k r, lp k = SV.fin r)
    (mask : Option (Fin (K+1) → Bool)) (k : Fin (K+1)) :
    ∃ r : ℝ, Posterior.affiliation (SV.fin t) none (fun k => SV.fin (wr k)) lp mask k = SV.fin r ∧ 0 ≤ r ∧ r ≤ 1 :=
  SV.affiliation_finite ht wr hw lp hlp hfin mask k

/-- the hypothesis is forced: if the log-pdf of EVERY class is `-∞` the routine evaluates `-∞ - (-∞)` and the whole
column is NaN (real-code counterpart: known finding `all-component-log-pdfs-minus-inf-nan-posterior`) -/
theorem affiliation_nan_of_all_minus_inf (tiny : SV) (w lp : Fin (K+1) → SV) (hall : ∀ k, lp k = SV.ninf)
    (k : Fin (K+1)) : Posterior.affiliation tiny none w lp none k = SV.nan :=
  SV.affiliation_nan_of_all_ninf tiny w lp hall k

/-! ### `predict` = Bayes' rule on the model's own fields, under every tying option -/

/-- `predict` of the generic mixture (`Mix.eStep`, clipping off): the posterior of class `k` at `(f, t)` is Bayes'
rule with the model's stored (broadcast) weight `θ.weight f k t` and the density `exp (logPdf (θ.comp k) f t)`
reported by its own component — whatever the component family (`logPdf` is a parameter) -/
theorem predict_bayes {P : Type} {F T : Nat} (c : MixCfg ℝ P F (K+1) T) (θ : Mix ℝ P F (K+1) T)
    (hc : c.eps = none) (ht : 0 < c.tiny) (f : Fin F) (t : Fin T)
    (hden : c.tiny ≤ ∑ k, Real.exp (c.logPdf (θ.comp k) f t - vmax fun k' => c.logPdf (θ.comp k') f t)
      * θ.weight f k t * mfac (c.mask.map fun m k' => m f k' t) k) (k : Fin (K+1)) :
    (Mix.eStep c θ).aff f k t
      = θ.weight f k t * mfac (c.mask.map fun m k' => m f k' t) k * Real.exp (c.logPdf (θ.comp k) f t)
        / ∑ j, θ.weight f j t * mfac (c.mask.map fun m k' => m f k' t) j * Real.exp (c.logPdf (θ.comp j) f t) := by
  unfold Mix.eStep
  simp only [hc]
  exact affiliation_bayes (w := fun k' => θ.weight f k' t) (lp := fun k' => c.logPdf (θ.comp k') f t) _ ht hden k

/-- … and it is a distribution over the classes -/
theorem predict_sum_one {P : Type} {F T : Nat} (c : MixCfg ℝ P F (K+1) T) (θ : Mix ℝ P F (K+1) T)
    (hc : c.eps = none) (ht : 0 < c.tiny) (f : Fin F) (t : Fin T)
    (hden : c.tiny ≤ ∑ k, Real.exp (c.logPdf (θ.comp k) f t - vmax fun k' => c.logPdf (θ.comp k') f t)
      * θ.weight f k t * mfac (c.mask.map fun m k' => m f k' t) k) :
    ∑ k, (Mix.eStep c θ).aff f k t = 1 := by
  unfold Mix.eStep
  simp only [hc]
  exact affiliation_sum_one (w := fun k' => θ.weight f k' t) (lp := fun k' => c.logPdf (θ.comp k') f t) _ ht hden

/-- integration models (GCACGMM, VMFCACGMM): the density entering Bayes' rule is the product of the
exponent-weighted stream densities, `p_spatial ^ spatial_weight · p_spectral ^ spectral_weight` -/
theorem integration_density (sw spw a b : ℝ) :
    Real.exp (integrationLogPdf sw spw a b) = Real.exp a ^ sw * Real.exp b ^ spw := by
  unfold integrationLogPdf
  rw [Real.exp_add, mul_comm sw a, mul_comm spw b, Real.exp_mul, Real.exp_mul]

/-- `_unit_norm` with `eps_style` `'plus'` / `'max'` and `eps > 0` never divides by zero; with `'where'` the
denominator is `eps` exactly for zero frames -/
theorem unitNormDen_pos {eps n : ℝ} (heps : 0 < eps) (hn : 0 ≤ n) (style : EpsStyle) :
    0 < unitNormDen style eps n := by
  cases style
  · exact add_pos_of_nonneg_of_pos hn heps
  · exact lt_of_lt_of_le heps (le_max_right _ _)
  · rcases hn.lt_or_eq with h | h
    · rw [whereDen_of_pos h]; exact h
    · rw [← h, whereDen_of_zero]; exact heps

/-- `unsqueeze(weight, weight_constant_axis)` for the four documented options of the integration models:
stored shapes `(F, K)`, `(K, T)`, `(K,)`, `()` become `(F, K, 1)`, `(1, K, T)`, `(1, K, 1)`, `(1, 1, 1)`; an axis
outside the future rank is the `IndexError` branch -/
theorem unsqueeze_documented_options (F K' T : Nat) :
    unsqueezeShape [F, K'] [-1] = some [F, K', 1] ∧ unsqueezeShape [K', T] [-3] = some [1, K', T] ∧
    unsqueezeShape [K'] [-3, -1] = some [1, K', 1] ∧ unsqueezeShape [] [-3, -2, -1] = some [1, 1, 1] ∧
    unsqueezeShape [] [-2] = none := by
  refine ⟨?_, ?_, ?_, ?_, ?_⟩ <;> simp [unsqueezeShape, sortNat, insSorted, insertAt]

/-- which stored entry meets log-pdf entry `(f, k, t)` for every weight shape the library produces
(`keepdims` shapes of `estimate_mixture_weight`, `np.full([K, 1], 1/K)`, the unsqueezed shapes above):
class `k` always meets the weight of class `k`, at its own `f` / `t` where the weight depends on them -/
theorem weightAt_documented_options {α : Type} (wd : Nat → α) {F K' T f k t : Nat} (hf : f < F) (hk : k < K')
    (ht : t < T) :
    weightAt wd [F, K', 1] f k t = wd (f * K' + k) ∧ weightAt wd [1, K', T] f k t = wd (k * T + t) ∧
    weightAt wd [1, K', 1] f k t = wd k ∧ weightAt wd [K', 1] f k t = wd k ∧
    weightAt wd [F, 1, T] f k t = wd (f * T + t) ∧ weightAt wd [F, 1, 1] f k t = wd f ∧
    weightAt wd [1, 1, 1] f k t = wd 0 ∧ weightAt wd [F, K', T] f k t = wd ((f * K' + k) * T + t) := by
  refine ⟨?_, ?_, ?_, ?_, ?_, ?_, ?_, ?_⟩ <;> simp [weightAt, bcastOffset, ite_one hf, ite_one hk, ite_one ht]

/-! ### initialisers -/

/-- `iid.uniform_normalized`: non-negative draws with a positive sum give a point of the simplex -/
theorem uniformNormalized_simplex {K' : Nat} {u : Fin K' → ℝ} (hu : ∀ k, 0 ≤ u k) (hs : 0 < ∑ k, u k) :
    (∀ k, 0 ≤ uniformNormalized u k ∧ uniformNormalized u k ≤ 1) ∧ ∑ k, uniformNormalized u k = 1 := by
  unfold uniformNormalized
  simp only [vsum_eq_sum]
  refine ⟨fun k => ⟨div_nonneg (hu k) hs.le, ?_⟩, ?_⟩
  · rw [div_le_one hs]
    exact Finset.single_le_sum (fun j _ => hu j) (Finset.mem_univ k)
  · rw [← Finset.sum_div]; exact div_self hs.ne'

/-- `iid.one_hot` / `flag(minimum=0)`: entries are `0` or `1`, exactly one `1` per observation -/
theorem oneHot_simplex {K' N : Nat} (labels : Fin N → Fin K') (n : Fin N) :
    (∀ k, (oneHot labels k n : ℝ) = if labels n = k then 1 else 0) ∧ ∑ k, (oneHot labels k n : ℝ) = 1 :=
  ⟨fun _ => rfl, sum_oneHot labels n⟩

/-- `iid.dirichlet`: the swap of the last two axes keeps every drawn row a point of the simplex
(contract of `np.random.dirichlet`: rows non-negative with sum one) -/
theorem dirichletT_simplex {K' N : Nat} (draws : Fin N → Fin K' → ℝ) (h0 : ∀ n k, 0 ≤ draws n k)
    (h1 : ∀ n, ∑ k, draws n k = 1) (n : Fin N) :
    (∀ k, 0 ≤ dirichletT draws k n) ∧ ∑ k, dirichletT draws k n = 1 :=
  ⟨fun k => h0 n k, h1 n⟩

/-- **`flag`**: for every `minimum` in `(0, 1/K)` the non-assigned classes get exactly `minimum`, the assigned
class the remainder `1 - (K-1)·minimum`, and each observation sums to one -/
theorem flag_values {K' N : Nat} {m : ℝ} (hm0 : 0 < m) (hm1 : m < 1 / (K' : ℝ)) (labels : Fin N → Fin K')
    (k : Fin K') (n : Fin N) :
    flag m labels k n = (if labels n = k then 1 - ((K' : ℝ) - 1) * m else m) ∧ ∑ k', flag m labels k' n = 1 := by
  have hK : 0 < K' := Fin.pos k
  have hKr : (0 : ℝ) < K' := by exact_mod_cast hK
  have hcast : (((K' - 1 : Nat)) : ℝ) = (K' : ℝ) - 1 := by
    rw [Nat.cast_sub hK]; simp
  have hKm : (K' : ℝ) * m < 1 := by
    have := mul_lt_mul_of_pos_left hm1 hKr
    rwa [mul_one_div_cancel hKr.ne'] at this
  have ha : 0 < 1 - ((K' : ℝ) - 1) * m := by nlinarith
  set a := 1 - ((K' : ℝ) - 1) * m with ha_def
  have hc1 : m / a ≤ 1 := by rw [div_le_one ha]; nlinarith
  have hc0 : 0 < m / a := div_pos hm0 ha
  have hraw : ∀ k', max (oneHot labels k' n : ℝ) (m / a) = if labels n = k' then 1 else m / a := by
    intro k'; unfold oneHot
    split
    · exact max_eq_left hc1
    · exact max_eq_right hc0.le
  have hsum : ∑ k', max (oneHot labels k' n : ℝ) (m / a) = 1 / a := by
    simp only [hraw]
    rw [sum_ite_const]
    field_simp
    rw [ha_def]; ring
  have hval : ∀ k', flag m labels k' n = (if labels n = k' then a else m) := by
    intro k'
    unfold flag
    simp only [vsum_eq_sum, hcast, ← ha_def]
    rw [hsum, hraw]
    split
    · field_simp
    · field_simp
  refine ⟨hval k, ?_⟩
  simp only [hval]
  have := sum_ite_const (labels n) (m / a)
  have h2 : ∀ k' : Fin K', (if labels n = k' then a else m) = a * (if labels n = k' then 1 else m / a) := by
    intro k'; split
    · ring
    · field_simp
  simp only [h2, ← Finset.mul_sum, sum_ite_const]
  field_simp
  rw [ha_def]; ring

/-- tail of `deflationSeed`: for `eps ≥ 0` (whatever the similarities) the result is a distribution over the
`K+1` classes — the sum before normalising is at least one, so the division is safe -/
theorem deflation_simplex {K' : Nat} {eps : ℝ} (sims : Fin K' → ℝ) (heps : 0 ≤ eps) :
    (∀ k, 0 ≤ deflationTail eps sims k) ∧ ∑ k, deflationTail eps sims k = 1 := by
  set q : Fin (K'+1) → ℝ := fun k =>
    max (if h : k.val < K' then sims ⟨k.val, h⟩ else 1 - vsum sims) eps with hq
  have hq0 : ∀ k, 0 ≤ q k := fun k => le_trans heps (le_max_right _ _)
  have hS : 1 ≤ ∑ k, q k := by
    rw [Fin.sum_univ_castSucc]
    have h1 : ∀ i : Fin K', sims i ≤ q i.castSucc := by
      intro i; simp only [hq]
      have : (i.castSucc : Fin (K'+1)).val < K' := by simp
      rw [dif_pos this]; exact le_max_left _ _
    have h2 : 1 - ∑ i, sims i ≤ q (Fin.last K') := by
      simp only [hq]
      rw [dif_neg (by simp), vsum_eq_sum]; exact le_max_left _ _
    have := Finset.sum_le_sum (fun i (_ : i ∈ Finset.univ) => h1 i)
    linarith
  have hS0 : 0 < ∑ k, q k := lt_of_lt_of_le one_pos hS
  have hv : ∀ k, deflationTail eps sims k = q k / ∑ j, q j := by
    intro k; unfold deflationTail; simp only [vsum_eq_sum, hq]
  refine ⟨fun k => ?_, ?_⟩
  · rw [hv]; exact div_nonneg (hq0 k) hS0.le
  · simp only [hv]; rw [← Finset.sum_div]; exact div_self hS0.ne'


/-- similarity of `deflationSeed`: `|Σ_d conj(Z_d) m_d|²` lies in `[0, 1]` for vectors of norm at most one
(Cauchy–Schwarz), so `1 - similarity` and the product of the "distances" stay in `[0, 1]` -/
theorem deflationSimilarity_le_one {D : Nat} (z m : Fin D → ℂ) (hz : ∑ d, Complex.normSq (z d) ≤ 1)
    (hm : ∑ d, Complex.normSq (m d) ≤ 1) :
    0 ≤ deflationSimilarity (α := ℝ) z m ∧ deflationSimilarity (α := ℝ) z m ≤ 1 := by
  unfold deflationSimilarity
  refine ⟨absSq_nonneg _, ?_⟩
  rw [absSq_eq_normSq, vsum_eq_sum, Complex.normSq_eq_norm_sq]
  have h1 : ‖∑ d, CxOps.conj (α := ℝ) (z d) * m d‖ ≤ ∑ d, ‖z d‖ * ‖m d‖ := by
    refine le_trans (norm_sum_le _ _) (Finset.sum_le_sum fun d _ => ?_)
    rw [norm_mul, cx_conj, Complex.norm_conj]
  have h2 : (∑ d, ‖z d‖ * ‖m d‖) ^ 2 ≤ (∑ d, ‖z d‖ ^ 2) * ∑ d, ‖m d‖ ^ 2 :=
    Finset.sum_mul_sq_le_sq_mul_sq _ _ _
  have hz' : ∑ d, ‖z d‖ ^ 2 ≤ 1 := by simpa [Complex.normSq_eq_norm_sq] using hz
  have hm' : ∑ d, ‖m d‖ ^ 2 ≤ 1 := by simpa [Complex.normSq_eq_norm_sq] using hm
  have hz0 : 0 ≤ ∑ d, ‖z d‖ ^ 2 := Finset.sum_nonneg fun d _ => sq_nonneg _
  calc ‖∑ d, CxOps.conj (α := ℝ) (z d) * m d‖ ^ 2
      ≤ (∑ d, ‖z d‖ * ‖m d‖) ^ 2 := by
        apply pow_le_pow_left₀ (norm_nonneg _) h1
    _ ≤ (∑ d, ‖z d‖ ^ 2) * ∑ d, ‖m d‖ ^ 2 := h2
    _ ≤ 1 * 1 := mul_le_mul hz' hm' (Finset.sum_nonneg fun d _ => sq_nonneg _) (by norm_num)
    _ = 1 := one_mul 1

/-! ### normalisation guard of the cACG models (`eps_style='where'`) -/

/-- zero frames stay zero instead of `0/0` -/
theorem normalizeWhere_zero {D : Nat} (tiny : ℝ) (y : Fin D → ℂ) (hy : ∀ d, y d = 0) (d : Fin D) :
    normalizeWhere (α := ℝ) tiny y d = 0 := by
  unfold normalizeWhere; rw [unitNorm_apply, hy d, zero_div]

/-- every other frame is projected onto the unit sphere -/
theorem normalizeWhere_unit {D : Nat} (tiny : ℝ) (y : Fin D → ℂ) (hy : ∃ d, y d ≠ 0) :
    norm2 (α := ℝ) (normalizeWhere (α := ℝ) tiny y) = 1 := by
  have hpos := (norm2_pos_iff y).mpr hy
  have hden : ∀ d, normalizeWhere (α := ℝ) tiny y d = (((norm2 (α := ℝ) y)⁻¹ : ℝ) : ℂ) * y d := by
    intro d; unfold normalizeWhere; rw [unitNorm_apply, whereDen_of_pos hpos]
    push_cast; field_simp
  have : normalizeWhere (α := ℝ) tiny y = fun d => (((norm2 (α := ℝ) y)⁻¹ : ℝ) : ℂ) * y d := funext hden
  rw [this, norm2_smul]
  simp only [Complex.norm_real, Real.norm_eq_abs, abs_inv, abs_of_pos hpos]
  exact inv_mul_cancel₀ hpos.ne'

end PbBss.C01

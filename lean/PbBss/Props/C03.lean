import PbBss.Proofs.FixedPointRound
import PbBss.Proofs.FixedPointChain
import PbBss.Proofs.FixedPointCacg
import PbBss.Proofs.EmVmf
import PbBss.Proofs.FixedPointVmf
import PbBss.Proofs.FixedPointSph
import PbBss.Proofs.FixedPointCacgChain
import PbBss.Proofs.FixedPointGcacg
import PbBss.Proofs.FixedPointGcacgSliced
/-! # C03 — the true partition of separable data is a stable EM fixed point

What is proved here (about the SAME definitions `driver_em` / `driver_dist` / `driver_posterior` execute, at
`α := ℝ`, `β := ℂ`):

1. the **ranking mechanisms** of the E-step, one observation at a time — the sign of the Watson / vMF
   concentration, the reciprocal eigenvalues of the cACG quadratic form, the orientation of the Gaussian whitening,
   the product of the two streams of the integration models, and "ranking of `π·exp(lp)` = ranking of posteriors";
2. the **M-step mechanisms** in the noise-free orthonormal scene (`z n = u n • a (c n)`, `‖u n‖ = 1`, `a` orthonormal):
   the weighted scatter is `Σ_j m_j a_j a_jᴴ` (phases / gains cancel), the prototypes are its eigenvectors, and under
   mass dominance the PCA contract forces the top eigenvector to be `a_k` up to a unit phase; the Gaussian mean of
   noise-free classes;
3. **one full EM round** of the Watson mixture from the hard true partition, a chain of rounds under explicit
   per-iterate hypotheses (`fixed_point_chain_partial`), and a complete `n`-step fixed-point theorem by induction
   over `Em.fit` for the balanced scene (`fixed_point_watson_balanced`);
4. **one full EM round** of the cACG mixture from the hard true partition (`cacg_round_hard`);
5. the **vMF mixture** on the executable model: the first M-step from the hard true partition returns the prototypes
   exactly (any class masses), one full EM round (`vmf_round_hard`), and the complete `n`-step fixed-point theorem by
   induction over `Em.fit` for the balanced scene (`fixed_point_vmf_balanced`: means, common concentration, "points
   at the true prototype", arg-max = truth, for every `n ≥ 1`);
6. the **spherical Gaussian mixture**: the complete `n`-step fixed-point theorem for the balanced scene from a strictly
   blurred start (`fixed_point_sph_balanced`; the hard start on noise-free classes has variance 0 — no density);
7. the **cACG mixture**: the complete `n`-step fixed-point theorem for the balanced scene from the hard start and from
   blurred starts with `h₀ ≤ floor·g₀` (`fixed_point_cacg_balanced`, `_blur`; the trajectory is stationary after the
   first M-step: every class stays `U diag(1, floor, …, floor) Uᴴ` on its prototype, `cacg_trajectory_stationary`);
8. the **integration model GCACGMM** (`prodFamily` of the cACG and the spherical Gaussian family, also with the spatial
   stream `sliced` over frequency bins as the driver instantiates it): the complete `n`-step fixed-point theorem for the
   balanced two-stream scene (`fixed_point_gcacg_balanced`, `fixed_point_gcacg_sliced_balanced`).

NOT proved: the quantitative statement for `|cos| ≤ 0.3`, perturbation `≤ 1e-2` (needs eigenvector perturbation
bounds), the Bingham model, fixed-point statements for the full-covariance Gaussian / integration trainers (their
steps are in the executable model and tied step-wise; only their E-step ranking is a theorem), and — outside the balanced scene — the derivation of the per-iterate mass-dominance / margin hypotheses of
`fixed_point_chain_partial` from the start. -/
open PbBss PbBss.Em PbBss.FixedPoint Finset

namespace PbBss.C03

local notation "conj" => starRingEnd ℂ

/-! ## 1. E-step ranking mechanisms -/

/-- **Watson, sign of κ**: two classes with the same concentration `κ > 0` and the same log-normaliser — the class
whose mode has the larger `|wᴴz|²` has the strictly larger log-pdf. -/
theorem watson_rank {D : Nat} (θc θj : Watson ℝ ℂ D) (z : Fin D → ℂ)
    (hκ : θj.kappa = θc.kappa) (hl : θj.logNorm = θc.logNorm) (hpos : 0 < θc.kappa)
    (h : Complex.normSq (∑ d, z d * conj (rd θj.mode d)) < Complex.normSq (∑ d, z d * conj (rd θc.mode d))) :
    watsonLogPdf θj z < watsonLogPdf θc z := by
  rw [watsonLogPdf_eq, watsonLogPdf_eq, hκ, hl]
  have := mul_lt_mul_of_pos_left h hpos
  linarith

/-- with a NEGATIVE concentration the order flips (this is what a wrong sign of κ does) -/
theorem watson_rank_neg {D : Nat} (θc θj : Watson ℝ ℂ D) (z : Fin D → ℂ)
    (hκ : θj.kappa = θc.kappa) (hl : θj.logNorm = θc.logNorm) (hneg : θc.kappa < 0)
    (h : Complex.normSq (∑ d, z d * conj (rd θj.mode d)) < Complex.normSq (∑ d, z d * conj (rd θc.mode d))) :
    watsonLogPdf θc z < watsonLogPdf θj z := by
  rw [watsonLogPdf_eq, watsonLogPdf_eq, hκ, hl]
  have := mul_lt_mul_of_neg_left h hneg
  linarith

/-- noise-free orthonormal corollary: modes `= a_k` up to unit phases, `z = u•a_c` ⇒ class `c` strictly first,
by exactly `κ` -/
theorem watson_rank_scene {K D : Nat} {a : Fin K → Fin D → ℂ} (ha : OrthoProto a) (θ : Fin K → Watson ℝ ℂ D)
    (hmode : ∀ k, Aligned a (θ k) k) (κ ℓ : ℝ) (hκ : ∀ k, (θ k).kappa = κ) (hl : ∀ k, (θ k).logNorm = ℓ)
    (c j : Fin K) (hj : j ≠ c) (u : ℂ) (hu : Complex.normSq u = 1) (z : Fin D → ℂ) (hz : ∀ d, z d = u * a c d) :
    watsonLogPdf (θ c) z - watsonLogPdf (θ j) z = κ ∧ (0 < κ → watsonLogPdf (θ j) z < watsonLogPdf (θ c) z) := by
  obtain ⟨pc, hpc, hmc⟩ := hmode c
  obtain ⟨pj, hpj, hmj⟩ := hmode j
  rw [watsonLogPdf_scene ha (θ c) c c pc u hpc hu hmc z hz, watsonLogPdf_scene ha (θ j) j c pj u hpj hu hmj z hz]
  simp only [if_true, if_neg (Ne.symm hj), hκ, hl]
  constructor
  · ring
  · intro h; linarith

example : ∃ (θc θj : Watson ℝ ℂ 2) (z : Fin 2 → ℂ), watsonLogPdf θj z < watsonLogPdf θc z :=
  ⟨⟨tab ![1, 0], 1, 0⟩, ⟨tab ![0, 1], 1, 0⟩, ![1, 0], by
    apply watson_rank ⟨tab ![1, 0], 1, 0⟩ ⟨tab ![0, 1], 1, 0⟩ ![1, 0] rfl rfl (by norm_num)
    simp [Fin.sum_univ_two]⟩

/-- **cACG, reciprocal eigenvalues**: every class covariance is `U diag(1, φ, …, φ) Uᴴ` with the eigenvalue-1
eigenvector on the class prototype (`Spiked`), prototypes orthonormal, `z = u•a_c`: the true class wins by exactly
`−D·log φ > 0`.  The floor `max(·, tiny)` of the quadratic form is inactive (`tiny ≤ 1`). -/
theorem cacg_rank {K D : Nat} {a : Fin K → Fin D → ℂ} (ha : OrthoProto a) (tiny φ : ℝ) (hφ0 : 0 < φ) (hφ1 : φ < 1)
    (htiny : tiny ≤ 1) (θ : Fin K → Cacg ℝ ℂ D) (hθ : ∀ k, Spiked (θ k) (a k) φ)
    (c j : Fin K) (hj : j ≠ c) (u : ℂ) (hu : Complex.normSq u = 1) (z : Fin D → ℂ) (hz : ∀ d, z d = u * a c d) :
    cacgLogPdf tiny (θ c) z - cacgLogPdf tiny (θ j) z = -((D : ℝ) * Real.log φ)
      ∧ cacgLogPdf tiny (θ j) z < cacgLogPdf tiny (θ c) z := by
  have hD : 0 < (D : ℝ) := by
    obtain ⟨-, t, -⟩ := hθ c
    exact_mod_cast Fin.pos t
  have hqc : quadRaw (θ c) z = 1 := by
    rw [quadRaw_spiked (θ c) (a c) φ (hθ c), scene_inner_sq ha c c u hu z hz, scene_norm_sq ha c u hu z hz]; simp
  have hqj : quadRaw (θ j) z = 1 / φ := by
    rw [quadRaw_spiked (θ j) (a j) φ (hθ j), scene_inner_sq ha j c u hu z hz, scene_norm_sq ha c u hu z hz]
    simp [Ne.symm hj]
  have h1φ : 1 < 1 / φ := by rw [lt_div_iff₀ hφ0]; linarith
  have hdiff : cacgLogPdf tiny (θ c) z - cacgLogPdf tiny (θ j) z = -((D : ℝ) * Real.log φ) := by
    rw [cacgLogPdf_eq, cacgLogPdf_eq, hqc, hqj, sumLog_spiked _ _ _ (hθ c), sumLog_spiked _ _ _ (hθ j),
      max_eq_left htiny, max_eq_left (le_trans htiny h1φ.le), Real.log_one, one_div, Real.log_inv]
    ring
  refine ⟨hdiff, ?_⟩
  have : 0 < -((D : ℝ) * Real.log φ) := by
    have := Real.log_neg hφ0 hφ1
    nlinarith
  linarith

/-- the same scene with the eigenvalues NOT inverted in the quadratic form (`cacgLogPdfInverted`): the true class is
ranked strictly LAST — what the reciprocal in `cacgQuad` is for -/
theorem cacg_rank_inverted {K D : Nat} {a : Fin K → Fin D → ℂ} (ha : OrthoProto a) (tiny φ : ℝ) (hφ0 : 0 < φ)
    (hφ1 : φ < 1) (htiny : tiny ≤ φ) (θ : Fin K → Cacg ℝ ℂ D) (hθ : ∀ k, Spiked (θ k) (a k) φ)
    (c j : Fin K) (hj : j ≠ c) (u : ℂ) (hu : Complex.normSq u = 1) (z : Fin D → ℂ) (hz : ∀ d, z d = u * a c d) :
    cacgLogPdfInverted tiny (θ c) z < cacgLogPdfInverted tiny (θ j) z := by
  have hD : 0 < (D : ℝ) := by
    obtain ⟨-, t, -⟩ := hθ c
    exact_mod_cast Fin.pos t
  unfold cacgLogPdfInverted
  rw [quadInverted_spiked (θ c) (a c) φ (hθ c), quadInverted_spiked (θ j) (a j) φ (hθ j),
    scene_inner_sq ha c c u hu z hz, scene_inner_sq ha j c u hu z hz, scene_norm_sq ha c u hu z hz,
    sumLog_spiked _ _ _ (hθ c), sumLog_spiked _ _ _ (hθ j)]
  simp only [if_true, if_neg (Ne.symm hj), sub_self, zero_mul, add_zero, sub_zero, one_mul, zero_add]
  rw [max_eq_left (le_trans htiny hφ1.le), max_eq_left htiny, Real.log_one]
  have := Real.log_neg hφ0 hφ1
  nlinarith

/-- non-vacuity of the `Spiked` scene: identity eigenvectors, spectra `(1, ½)` and `(½, 1)`, standard-basis prototypes -/
example : ∃ (a : Fin 2 → Fin 2 → ℂ) (θ : Fin 2 → Cacg ℝ ℂ 2), OrthoProto a ∧ ∀ k, Spiked (θ k) (a k) (1/2) := by
  refine ⟨a2, fun k => ⟨tab2 fun g e => if g = e then 1 else 0, tab fun e => if e = k then 1 else 1/2⟩,
    scene2.ortho, fun k => ⟨?_, k, 1, by simp, ?_, by simp, fun e he => by simp [he]⟩⟩
  · intro e e'
    fin_cases e <;> fin_cases e' <;> simp
  · intro g
    fin_cases k <;> fin_cases g <;> simp [a2]

/-- **spherical Gaussian**: equal variances — the class whose mean is closer has the larger log-pdf -/
theorem sph_rank {D : Nat} (log2pi : ℝ) (θc θj : SphG ℝ D) (y : Fin D → ℝ) (hv : θj.var = θc.var) (hpos : 0 < θc.var)
    (h : ∑ d, (y d - rd θc.mean d) ^ 2 < ∑ d, (y d - rd θj.mean d) ^ 2) :
    sphLogPdf log2pi θj y < sphLogPdf log2pi θc y := by
  rw [sphLogPdf_eq log2pi θc y hpos, sphLogPdf_eq log2pi θj y (hv ▸ hpos), hv]
  have := div_lt_div_of_pos_right h hpos
  have := mul_lt_mul_of_pos_left this (half_pos)
  linarith

/-- noise-free: `y = μ_c`, `μ_j ≠ μ_c` ⇒ `c` strictly first -/
theorem sph_rank_noise_free {D : Nat} (log2pi : ℝ) (θc θj : SphG ℝ D) (y : Fin D → ℝ) (hv : θj.var = θc.var)
    (hpos : 0 < θc.var) (hy : ∀ d, y d = rd θc.mean d) (hne : ∃ d, rd θj.mean d ≠ rd θc.mean d) :
    sphLogPdf log2pi θj y < sphLogPdf log2pi θc y := by
  apply sph_rank log2pi θc θj y hv hpos
  obtain ⟨d0, hd0⟩ := hne
  have h0 : ∑ d, (y d - rd θc.mean d) ^ 2 = 0 := Finset.sum_eq_zero fun d _ => by rw [hy d]; ring
  rw [h0]
  refine lt_of_lt_of_le ?_ (Finset.single_le_sum (fun d _ => sq_nonneg (y d - rd θj.mean d)) (Finset.mem_univ d0))
  rw [hy d0]
  exact pow_pos_of_ne_zero' (sub_ne_zero.mpr (Ne.symm hd0))
where
  pow_pos_of_ne_zero' {x : ℝ} (h : x ≠ 0) : 0 < x ^ 2 := by positivity

/-- **diagonal Gaussian**: equal variance vectors — smaller variance-weighted distance ranks first -/
theorem diag_rank {D : Nat} (log2pi : ℝ) (θc θj : DiagG ℝ D) (y : Fin D → ℝ) (hv : ∀ d, rd θj.var d = rd θc.var d)
    (hpos : ∀ d, 0 < rd θc.var d)
    (h : ∑ d, (y d - rd θc.mean d) ^ 2 / rd θc.var d < ∑ d, (y d - rd θj.mean d) ^ 2 / rd θc.var d) :
    diagLogPdf log2pi θj y < diagLogPdf log2pi θc y := by
  rw [diagLogPdf_eq log2pi θc y hpos, diagLogPdf_eq log2pi θj y (fun d => hv d ▸ hpos d)]
  simp only [hv]
  have := mul_lt_mul_of_pos_left h (half_pos)
  linarith

theorem diag_rank_noise_free {D : Nat} (log2pi : ℝ) (θc θj : DiagG ℝ D) (y : Fin D → ℝ)
    (hv : ∀ d, rd θj.var d = rd θc.var d) (hpos : ∀ d, 0 < rd θc.var d) (hy : ∀ d, y d = rd θc.mean d)
    (hne : ∃ d, rd θj.mean d ≠ rd θc.mean d) :
    diagLogPdf log2pi θj y < diagLogPdf log2pi θc y := by
  apply diag_rank log2pi θc θj y hv hpos
  obtain ⟨d0, hd0⟩ := hne
  have h0 : ∑ d, (y d - rd θc.mean d) ^ 2 / rd θc.var d = 0 :=
    Finset.sum_eq_zero fun d _ => by rw [hy d]; simp
  rw [h0]
  refine lt_of_lt_of_le ?_ (Finset.single_le_sum (fun d _ => div_nonneg (sq_nonneg (y d - rd θj.mean d)) (hpos d).le)
    (Finset.mem_univ d0))
  rw [hy d0]
  have : rd θc.mean d0 - rd θj.mean d0 ≠ 0 := sub_ne_zero.mpr (Ne.symm hd0)
  have := hpos d0
  positivity

/-- **full-covariance Gaussian, orientation of the whitening**: under the precision-Cholesky contract
`P Pᵀ = Λ = Σ⁻¹` (same for both classes) the class with the smaller Mahalanobis distance `(y−μ)ᵀ Λ (y−μ)` ranks first.
(With the transposed factor the code would measure `(y−μ)ᵀ PᵀP (y−μ)` instead.) -/
theorem gauss_full_rank {D : Nat} (pi ell : ℝ) (P Λ : Fin D → Fin D → ℝ) (hP : ∀ d e, Λ d e = ∑ k, P d k * P e k)
    (μc μj y : Fin D → ℝ) (h : mahal Λ (fun d => y d - μc d) < mahal Λ (fun d => y d - μj d)) :
    Dist.gaussLogPdf pi μj P ell y < Dist.gaussLogPdf pi μc P ell y := by
  rw [gaussLogPdf_eq pi ell P Λ hP, gaussLogPdf_eq pi ell P Λ hP]
  linarith

/-- noise-free: `y = μ_c` and `μ_c − μ_j` not in the kernel of the precision ⇒ `c` strictly first -/
theorem gauss_full_rank_noise_free {D : Nat} (pi ell : ℝ) (P Λ : Fin D → Fin D → ℝ)
    (hP : ∀ d e, Λ d e = ∑ k, P d k * P e k) (μc μj : Fin D → ℝ) (hΛ : 0 < mahal Λ (fun d => μc d - μj d)) :
    Dist.gaussLogPdf pi μj P ell μc < Dist.gaussLogPdf pi μc P ell μc := by
  apply gauss_full_rank pi ell P Λ hP
  have : mahal Λ (fun d => μc d - μc d) = 0 := by simp [mahal]
  rw [this]; exact hΛ

example : Dist.gaussLogPdf (D := 1) (3 : ℝ) ![1] (fun _ _ => 1) 0 ![0]
    < Dist.gaussLogPdf (D := 1) (3 : ℝ) ![0] (fun _ _ => 1) 0 ![0] := by
  apply gauss_full_rank 3 0 (fun _ _ => 1) (fun _ _ => 1) (by simp)
  simp [mahal]

/-- **vMF, sign of κ**: same `κ > 0` (and normaliser) — larger `μᵀx` ranks first (`tiny > 0`: the norm clamp
`max(‖y‖, tiny)` only rescales) -/
theorem vmf_rank {D : Nat} (pi tiny : ℝ) (htiny : 0 < tiny) (μc μj : Fin D → ℝ) (κ ive : ℝ) (hκ : 0 < κ)
    (y : Fin D → ℝ) (h : ∑ d, y d * μj d < ∑ d, y d * μc d) :
    Dist.vmfLogPdf pi tiny μj κ ive y < Dist.vmfLogPdf pi tiny μc κ ive y := by
  rw [vmfLogPdf_eq, vmfLogPdf_eq]
  have hden : 0 < max (Real.sqrt (∑ d, y d * y d)) tiny := lt_of_lt_of_le htiny (le_max_right _ _)
  have := mul_lt_mul_of_pos_right (div_lt_div_of_pos_right h hden) hκ
  linarith

/-- a negative concentration flips the order -/
theorem vmf_rank_neg {D : Nat} (pi tiny : ℝ) (htiny : 0 < tiny) (μc μj : Fin D → ℝ) (κ ive : ℝ) (hκ : κ < 0)
    (y : Fin D → ℝ) (h : ∑ d, y d * μj d < ∑ d, y d * μc d) :
    Dist.vmfLogPdf pi tiny μc κ ive y < Dist.vmfLogPdf pi tiny μj κ ive y := by
  rw [vmfLogPdf_eq, vmfLogPdf_eq]
  have hden : 0 < max (Real.sqrt (∑ d, y d * y d)) tiny := lt_of_lt_of_le htiny (le_max_right _ _)
  have := mul_lt_mul_of_neg_right (div_lt_div_of_pos_right h hden) hκ
  linarith

/-- noise-free orthonormal corollary: means `a_k`, `y = g•a_c` with a positive gain ⇒ `c` first -/
theorem vmf_rank_scene {K D : Nat} {a : Fin K → Fin D → ℝ} (ha : OrthoProtoR a) (pi tiny : ℝ) (htiny : 0 < tiny)
    (κ ive : ℝ) (hκ : 0 < κ) (c j : Fin K) (hj : j ≠ c) (g : ℝ) (hg : 0 < g) (y : Fin D → ℝ)
    (hy : ∀ d, y d = g * a c d) :
    Dist.vmfLogPdf pi tiny (a j) κ ive y < Dist.vmfLogPdf pi tiny (a c) κ ive y := by
  apply vmf_rank pi tiny htiny (a c) (a j) κ ive hκ
  have e : ∀ k, ∑ d, y d * a k d = g * ∑ d, a c d * a k d := by
    intro k; rw [Finset.mul_sum]; exact Finset.sum_congr rfl fun d _ => by rw [hy]; ring
  rw [e, e, ha c j, ha c c]
  simp [Ne.symm hj, hg]

/-- **product of the two streams** (`integrationLogPdf` = `spatial_weight·a + spectral_weight·b`): non-negative
stream weights, both streams rank class `c` weakly first and one of them strictly with a positive weight ⇒ the
combined log-pdf ranks `c` strictly first -/
theorem product_of_streams_rank (sw cw ac aj bc bj : ℝ) (hsw : 0 ≤ sw) (hcw : 0 ≤ cw) (ha : aj ≤ ac) (hb : bj ≤ bc)
    (hstrict : (0 < sw ∧ aj < ac) ∨ (0 < cw ∧ bj < bc)) :
    Posterior.integrationLogPdf sw cw aj bj < Posterior.integrationLogPdf sw cw ac bc := by
  unfold Posterior.integrationLogPdf
  rcases hstrict with ⟨h1, h2⟩ | ⟨h1, h2⟩
  · have := mul_lt_mul_of_pos_left h2 h1
    have := mul_le_mul_of_nonneg_left hb hcw
    linarith
  · have := mul_lt_mul_of_pos_left h2 h1
    have := mul_le_mul_of_nonneg_left ha hsw
    linarith

example : Posterior.integrationLogPdf (1 : ℝ) 1 0 0 < Posterior.integrationLogPdf 1 1 1 0 :=
  product_of_streams_rank 1 1 1 0 0 0 (by norm_num) (by norm_num) (by norm_num) le_rfl (Or.inl ⟨by norm_num, by norm_num⟩)

/-- integration model GCACGMM in the noise-free orthonormal scene: spatial stream = spiked cACG components on the
prototypes, spectral stream = spherical Gaussians of equal variance with the embedding on its class mean; stream
weights non-negative, not both zero ⇒ the combined log-pdf ranks the true class strictly first -/
theorem gcacg_rank_scene {K D E : Nat} {a : Fin K → Fin D → ℂ} (ha : OrthoProto a) (tiny φ : ℝ) (hφ0 : 0 < φ)
    (hφ1 : φ < 1) (htiny : tiny ≤ 1) (θ : Fin K → Cacg ℝ ℂ D) (hθ : ∀ k, Spiked (θ k) (a k) φ)
    (log2pi : ℝ) (g : Fin K → SphG ℝ E) (v : ℝ) (hv : ∀ k, (g k).var = v) (hv0 : 0 < v)
    (hmeans : ∀ j k, j ≠ k → ∃ d, rd (g j).mean d ≠ rd (g k).mean d)
    (sw cw : ℝ) (hsw : 0 ≤ sw) (hcw : 0 ≤ cw) (hw : 0 < sw ∨ 0 < cw)
    (c j : Fin K) (hj : j ≠ c) (u : ℂ) (hu : Complex.normSq u = 1) (z : Fin D → ℂ) (hz : ∀ d, z d = u * a c d)
    (e : Fin E → ℝ) (he : ∀ d, e d = rd (g c).mean d) :
    Posterior.integrationLogPdf sw cw (cacgLogPdf tiny (θ j) z) (sphLogPdf log2pi (g j) e)
      < Posterior.integrationLogPdf sw cw (cacgLogPdf tiny (θ c) z) (sphLogPdf log2pi (g c) e) := by
  have h1 := (cacg_rank ha tiny φ hφ0 hφ1 htiny θ hθ c j hj u hu z hz).2
  have h2 := sph_rank_noise_free log2pi (g c) (g j) e (by rw [hv, hv]) (by rw [hv]; exact hv0) he (hmeans j c hj)
  apply product_of_streams_rank sw cw _ _ _ _ hsw hcw h1.le h2.le
  rcases hw with h | h
  · exact Or.inl ⟨h, h1⟩
  · exact Or.inr ⟨h, h2⟩

/-- integration model vMF-cACGMM in the noise-free orthonormal scene (spectral stream = vMF components with a common
positive concentration on orthonormal mean directions) -/
theorem vmfcacg_rank_scene {K D E : Nat} {a : Fin K → Fin D → ℂ} (ha : OrthoProto a) (tiny φ : ℝ) (hφ0 : 0 < φ)
    (hφ1 : φ < 1) (htiny0 : 0 < tiny) (htiny : tiny ≤ 1) (θ : Fin K → Cacg ℝ ℂ D) (hθ : ∀ k, Spiked (θ k) (a k) φ)
    {b : Fin K → Fin E → ℝ} (hb : OrthoProtoR b) (pi κ ive : ℝ) (hκ : 0 < κ)
    (sw cw : ℝ) (hsw : 0 ≤ sw) (hcw : 0 ≤ cw) (hw : 0 < sw ∨ 0 < cw)
    (c j : Fin K) (hj : j ≠ c) (u : ℂ) (hu : Complex.normSq u = 1) (z : Fin D → ℂ) (hz : ∀ d, z d = u * a c d)
    (gain : ℝ) (hg : 0 < gain) (e : Fin E → ℝ) (he : ∀ d, e d = gain * b c d) :
    Posterior.integrationLogPdf sw cw (cacgLogPdf tiny (θ j) z) (Dist.vmfLogPdf pi tiny (b j) κ ive e)
      < Posterior.integrationLogPdf sw cw (cacgLogPdf tiny (θ c) z) (Dist.vmfLogPdf pi tiny (b c) κ ive e) := by
  have h1 := (cacg_rank ha tiny φ hφ0 hφ1 htiny θ hθ c j hj u hu z hz).2
  have h2 := vmf_rank_scene hb pi tiny htiny0 κ ive hκ c j hj gain hg e he
  apply product_of_streams_rank sw cw _ _ _ _ hsw hcw h1.le h2.le
  rcases hw with h | h
  · exact Or.inl ⟨h, h1⟩
  · exact Or.inr ⟨h, h2⟩

/-- **ranking of `π·exp(lp)` is the ranking of the posteriors** (model E-step; any `tiny > 0`, so the statement does
not depend on whether the denominator clamp is active) -/
theorem posterior_rank_iff {Θ Y : Type} {K N : Nat} (tiny : ℝ) (htiny : 0 < tiny) (fam : Family Θ Y ℝ)
    (θ : Mixture Θ ℝ (K+1) N) (y : Fin N → Y) (j c : Fin (K+1)) (n : Fin N) :
    eStep tiny fam θ y j n < eStep tiny fam θ y c n
      ↔ θ.w j n * Real.exp (fam.logPdf (θ.c j) (y n)) < θ.w c n * Real.exp (fam.logPdf (θ.c c) (y n)) :=
  eStep_lt_iff tiny htiny fam θ y j c n

/-- log form: `log π_j + lp_j < log π_c + lp_c` for all `j ≠ c` (weights positive) ⇒ class `c` has the strictly
largest posterior, and `np.argmax` over the class axis returns `c` -/
theorem posterior_argmax {Θ Y : Type} {K N : Nat} (tiny : ℝ) (htiny : 0 < tiny) (fam : Family Θ Y ℝ)
    (θ : Mixture Θ ℝ (K+1) N) (y : Fin N → Y) (c : Fin (K+1)) (n : Fin N) (hw : ∀ k, 0 < θ.w k n)
    (h : ∀ j, j ≠ c → Real.log (θ.w j n) + fam.logPdf (θ.c j) (y n) < Real.log (θ.w c n) + fam.logPdf (θ.c c) (y n)) :
    (∀ j, j ≠ c → eStep tiny fam θ y j n < eStep tiny fam θ y c n)
      ∧ vargmax (fun k => eStep tiny fam θ y k n) = c := by
  have key : ∀ j, j ≠ c → eStep tiny fam θ y j n < eStep tiny fam θ y c n := by
    intro j hj
    rw [eStep_lt_iff tiny htiny]
    have := Real.exp_lt_exp.mpr (h j hj)
    rwa [Real.exp_add, Real.exp_add, Real.exp_log (hw j), Real.exp_log (hw c)] at this
  exact ⟨key, vargmax_of_strict _ c key⟩

/-- the same for the full `log_pdf_to_affiliation` model (`Posterior.affiliation`, no mask, `affiliation_eps = 0`) -/
theorem posterior_rank_affiliation {K : Nat} (tiny : ℝ) (htiny : 0 < tiny) (w lp : Fin (K+1) → ℝ) (j c : Fin (K+1)) :
    Posterior.affiliation tiny none w lp none j < Posterior.affiliation tiny none w lp none c
      ↔ w j * Real.exp (lp j) < w c * Real.exp (lp c) := by
  simp only [Posterior.affiliation, Posterior.clip, Posterior.denominator, Posterior.unnorm, Posterior.applyMask,
    transc_exp_real]
  have hden : 0 < max (vsum fun k => Real.exp (lp k - vmax lp) * w k) tiny := lt_of_lt_of_le htiny (le_max_right _ _)
  rw [div_lt_div_iff_of_pos_right hden]
  have hm : 0 < Real.exp (vmax lp) := Real.exp_pos _
  have e : ∀ k, Real.exp (lp k - vmax lp) * w k = (w k * Real.exp (lp k)) / Real.exp (vmax lp) := by
    intro k; rw [Real.exp_sub]; ring
  rw [e, e, div_lt_div_iff_of_pos_right hm]

example : ∃ (w lp : Fin 2 → ℝ), Posterior.affiliation 1 none w lp none 1 < Posterior.affiliation 1 none w lp none 0 :=
  ⟨![1, 1], ![1, 0], by
    rw [posterior_rank_affiliation 1 one_pos]
    simp⟩

/-! ## 2. M-step mechanisms in the noise-free orthonormal scene -/

/-- **scatter of the scene** (`Em.watsonScatter`, also the numerator `Em.outerSum` of the cACG step): for
`z n = u n • a (c n)` with unit phases `u n`, `Σ_n w_n z_n z_nᴴ / Σ_n w_n = Σ_j m_j a_j a_jᴴ` where `m_j` is the share
of the weight sitting on true class `j`.  The phases (per-frame gains after normalisation) have cancelled. -/
theorem scatter_scene {K N D : Nat} (a : Fin K → Fin D → ℂ) (c : Fin N → Fin K) (u : Fin N → ℂ)
    (hu : ∀ n, Complex.normSq (u n) = 1) (z : Fin N → Fin D → ℂ) (hz : ∀ n d, z n d = u n * a (c n) d)
    (w : Fin N → ℝ) (d e : Fin D) :
    rd2 (watsonScatter w z) d e = ∑ j, ((classMass c w j / ∑ n, w n : ℝ) : ℂ) * (a j d * conj (a j e))
      ∧ rd2 (outerSum w z) d e = ∑ j, (classMass c w j : ℂ) * (a j d * conj (a j e)) := by
  refine ⟨watsonScatter_scene a c u hu z hz w d e, ?_⟩
  rw [← outer_scene a c u hu z hz w d e]
  simp [outerSum, vsum_eq_sum]

/-- gain invariance of the scatter: it depends on the observations only through `c` (not through the phases) -/
theorem scatter_phase_invariant {K N D : Nat} (a : Fin K → Fin D → ℂ) (c : Fin N → Fin K) (u u' : Fin N → ℂ)
    (hu : ∀ n, Complex.normSq (u n) = 1) (hu' : ∀ n, Complex.normSq (u' n) = 1) (w : Fin N → ℝ) (d e : Fin D) :
    rd2 (watsonScatter w (fun n d => u n * a (c n) d)) d e = rd2 (watsonScatter w (fun n d => u' n * a (c n) d)) d e := by
  rw [watsonScatter_scene a c u hu _ (fun _ _ => rfl), watsonScatter_scene a c u' hu' _ (fun _ _ => rfl)]

/-- every prototype is an eigenvector of the scene's scatter, with eigenvalue its mass share -/
theorem proto_eigenvector {K N D : Nat} {a : Fin K → Fin D → ℂ} (ha : OrthoProto a) (c : Fin N → Fin K)
    (u : Fin N → ℂ) (hu : ∀ n, Complex.normSq (u n) = 1) (z : Fin N → Fin D → ℂ) (hz : ∀ n d, z n d = u n * a (c n) d)
    (w : Fin N → ℝ) (k : Fin K) (d : Fin D) :
    ∑ e, rd2 (watsonScatter w z) d e * a k e = ((classMass c w k / ∑ n, w n : ℝ) : ℂ) * a k d :=
  proto_eigen (m := fun j => classMass c w j / ∑ n, w n) ha (watsonScatter_scene a c u hu z hz w) k d

/-- **top eigenvector under mass dominance**: if class `k`'s share `m_k` is positive and strictly the largest, then
ANY pair `(w, λ)` returned under the PCA contract (unit eigenvector, eigenvalue = maximum of the Rayleigh quotient)
is `λ = m_k`, `w = φ•a_k` with `|φ| = |a_kᴴw| = 1`, and `w ⟂ a_j` for `j ≠ k`. -/
theorem top_eigenvector_scene {K N D : Nat} {a : Fin K → Fin D → ℂ} (ha : OrthoProto a) (c : Fin N → Fin K)
    (u : Fin N → ℂ) (hu : ∀ n, Complex.normSq (u n) = 1) (z : Fin N → Fin D → ℂ) (hz : ∀ n d, z n d = u n * a (c n) d)
    (w : Fin N → ℝ) (k : Fin K) (hk : 0 < classMass c w k / ∑ n, w n)
    (hdom : ∀ j, j ≠ k → classMass c w j / (∑ n, w n) < classMass c w k / ∑ n, w n)
    (p : Tab D ℂ × ℝ) (hp : PcaContract (watsonScatter w z) p) :
    p.2 = classMass c w k / ∑ n, w n
      ∧ Complex.normSq (∑ e, conj (a k e) * rd p.1 e) = 1
      ∧ (∀ j, j ≠ k → ∑ e, conj (a j e) * rd p.1 e = 0)
      ∧ ∀ d, rd p.1 d = (∑ e, conj (a k e) * rd p.1 e) * a k d :=
  top_eigvec_scene ha (fun j => classMass c w j / ∑ n, w n) (watsonScatter w z)
    (watsonScatter_scene a c u hu z hz w) k hk hdom p hp

/-- hard start: the weights `γ₀ k · s` of class `k` sit entirely on class `k` (`m_kj = δ_kj`) -/
theorem share_hard_start {K N : Nat} (c : Fin N → Fin K) (s : Fin N → ℝ) (hmass : ∀ k, 0 < ∑ n, hardStart c k n * s n)
    (k j : Fin K) : share c s (hardStart c) k j = if j = k then 1 else 0 :=
  share_hard c s hmass k j

/-- **Gaussian mean, noise-free classes**: `Em.gaussMean` of data `y n = μ (c n)` is the mass-weighted combination of
the class means (denominator clamp inactive) … -/
theorem gauss_mean_scene {K N D : Nat} (tiny : ℝ) (μ : Fin K → Fin D → ℝ) (c : Fin N → Fin K)
    (y : Fin N → Fin D → ℝ) (hy : ∀ n d, y n d = μ (c n) d) (w : Fin N → ℝ) (hden : tiny ≤ ∑ n, w n) (d : Fin D) :
    rd (gaussMean tiny w y) d = ∑ j, classMass c w j / (∑ n, w n) * μ j d :=
  gaussMean_scene tiny μ c y hy w hden d

/-- … and under the hard partition it is the class mean itself -/
theorem gauss_mean_hard {K N D : Nat} (tiny : ℝ) (μ : Fin K → Fin D → ℝ) (c : Fin N → Fin K)
    (y : Fin N → Fin D → ℝ) (hy : ∀ n d, y n d = μ (c n) d) (s : Fin N → ℝ) (k : Fin K)
    (hpos : 0 < ∑ n, hardStart c k n * s n) (hden : tiny ≤ ∑ n, hardStart c k n * s n) (d : Fin D) :
    rd (gaussMean tiny (fun n => hardStart c k n * s n) y) d = μ k d := by
  rw [gaussMean_scene tiny μ c y hy _ hden d]
  simp only [classMass_hard]
  rw [Finset.sum_eq_single k]
  · rw [if_pos rfl, div_self hpos.ne', one_mul]
  · intro j _ hj; simp [hj]
  · simp

/-- non-vacuity of the PCA contract and of the dominance hypotheses: `S = diag(1, 0)`, prototypes = standard basis -/
example : ∃ (S : Tab 2 (Tab 2 ℂ)) (p : Tab 2 ℂ × ℝ), PcaContract S p :=
  ⟨tab2 ![![1, 0], ![0, 0]], (tab ![1, 0], 1), by
    refine ⟨by simp [Fin.sum_univ_two], ?_, ?_⟩
    · intro d; fin_cases d <;> simp [Fin.sum_univ_two]
    · intro v hv
      simp only [Fin.sum_univ_two] at hv
      simp only [Fin.sum_univ_two, rd2_tab2]
      simp [Complex.normSq_apply] at hv ⊢
      nlinarith [mul_self_nonneg (v 1).re, mul_self_nonneg (v 1).im]⟩

/-! ## 3. One EM round, and a chain of rounds, of the Watson mixture (`Em.fit … watsonFamily`) -/

section round
variable {K N D : Nat} {a : Fin (K+1) → Fin D → ℂ} {c : Fin N → Fin (K+1)} {z : Fin N → Fin D → ℂ}

/-- **Watson M-step under mass dominance** (any affiliations `γ`, e.g. a blurred start or a later E-step): if for
every class its own observations carry strictly the largest, positive share of its weight `γ_k·s`, the M-step of the
mixture puts every mode on its prototype (up to a unit phase) with concentration `kinv(own share)` -/
theorem watson_mstep_mass_dominant (sc : Scene a c z) (pca : Tab D (Tab D ℂ) → Tab D ℂ × ℝ) (hpca : PcaOn pca z)
    (kinv lnorm : ℝ → ℝ) (rule : WeightRule) (tie : Tying N) (eps : ℝ) (s : Fin N → ℝ)
    (γ aux : Fin (K+1) → Fin N → ℝ) (hdom : MassDominant c s γ) (k : Fin (K+1)) :
    Aligned a ((mStep (watsonFamily D pca kinv lnorm) rule tie eps s z γ aux).c k) k
      ∧ ((mStep (watsonFamily D pca kinv lnorm) rule tie eps s z γ aux).c k).kappa = kinv (share c s γ k k)
      ∧ ((mStep (watsonFamily D pca kinv lnorm) rule tie eps s z γ aux).c k).logNorm
          = lnorm (kinv (share c s γ k k)) :=
  mStep_aligned pca kinv lnorm rule tie eps s sc hpca γ aux hdom k

/-- **the true partition survives one EM round (cWMM)**.  Noise-free orthonormal scene, hard start on the truth,
every class has positive saliency mass, `get_pca` honours its contract.  Then `θ₁ = fit … 1 γ_true` (the first
M-step) has every mode on its prototype up to a unit phase and EQUAL concentrations `kinv 1` (every class scatter is
the rank-one projector, top eigenvalue 1), and the E-step of `θ₁` ranks the true class strictly first at every
observation where the explicit weight margin `π_j < π_c·exp(kinv 1)` holds (any weight rule / tying). -/
theorem watson_round_hard (sc : Scene a c z) (pca : Tab D (Tab D ℂ) → Tab D ℂ × ℝ) (hpca : PcaOn pca z)
    (kinv lnorm : ℝ → ℝ) (tiny : ℝ) (htiny : 0 < tiny) (rule : WeightRule) (tie : Tying N) (eps : ℝ) (s : Fin N → ℝ)
    (hmass : ∀ k, 0 < ∑ n, hardStart c k n * s n) :
    let fam := watsonFamily D pca kinv lnorm
    let θ₁ := fit tiny fam rule tie eps s z 1 (hardStart c)
    (∀ k, Aligned a (θ₁.c k) k ∧ (θ₁.c k).kappa = kinv 1 ∧ (θ₁.c k).logNorm = lnorm (kinv 1))
      ∧ (∀ n j, j ≠ c n → θ₁.w j n < θ₁.w (c n) n * Real.exp (kinv 1) →
            eStep tiny fam θ₁ z j n < eStep tiny fam θ₁ z (c n) n)
      ∧ ∀ n, (∀ j, j ≠ c n → θ₁.w j n < θ₁.w (c n) n * Real.exp (kinv 1)) →
            vargmax (fun k => eStep tiny fam θ₁ z k n) = c n := by
  intro fam θ₁
  have hpar : ∀ k, Aligned a (θ₁.c k) k ∧ (θ₁.c k).kappa = kinv 1 ∧ (θ₁.c k).logNorm = lnorm (kinv 1) := by
    intro k
    have h := mStep_aligned pca kinv lnorm rule tie eps s sc hpca (hardStart c) (fun _ _ => 1)
      (massDominant_hard c s hmass) k
    rw [share_hard c s hmass, if_pos rfl] at h
    exact h
  have hrank : ∀ n j, j ≠ c n → θ₁.w j n < θ₁.w (c n) n * Real.exp (kinv 1) →
      eStep tiny fam θ₁ z j n < eStep tiny fam θ₁ z (c n) n := by
    intro n j hj hm
    apply watson_estep_rank pca kinv lnorm sc tiny htiny θ₁ (fun k => (hpar k).1) n j hj
    rw [(hpar j).2.2, (hpar (c n)).2.2, (hpar (c n)).2.1, sub_eq_add_neg, Real.exp_add, ← mul_assoc]
    exact mul_lt_mul_of_pos_right hm (Real.exp_pos _)
  exact ⟨hpar, hrank, fun n h => vargmax_of_strict _ (c n) fun j hj => hrank n j hj (h j hj)⟩

/-- with `weight_constant_axis = -2` (uniform weights `1/K`) the margin is just `0 < kinv 1`: a positive
concentration -/
theorem watson_round_hard_uniform (sc : Scene a c z) (pca : Tab D (Tab D ℂ) → Tab D ℂ × ℝ) (hpca : PcaOn pca z)
    (kinv lnorm : ℝ → ℝ) (hκ : 0 < kinv 1) (tiny : ℝ) (htiny : 0 < tiny) (rule : WeightRule) (tie : Tying N)
    (htie : tie.uniform = true) (eps : ℝ) (s : Fin N → ℝ) (hmass : ∀ k, 0 < ∑ n, hardStart c k n * s n) (n : Fin N) :
    vargmax (fun k => eStep tiny (watsonFamily D pca kinv lnorm)
      (fit tiny (watsonFamily D pca kinv lnorm) rule tie eps s z 1 (hardStart c)) z k n) = c n := by
  have h := (watson_round_hard sc pca hpca kinv lnorm tiny htiny rule tie eps s hmass).2.2 n
  apply h
  intro j _
  have hw : ∀ k, (fit tiny (watsonFamily D pca kinv lnorm) rule tie eps s z 1 (hardStart c)).w k n
      = 1 / ((K + 1 : ℕ) : ℝ) := by
    intro k
    simp [fit_one, Mixture.w, mStep, mWeight, htie]
  rw [hw, hw]
  have hpos : 0 < 1 / ((K + 1 : ℕ) : ℝ) := by positivity
  have : 1 < Real.exp (kinv 1) := by
    have := Real.add_one_lt_exp hκ.ne'
    linarith
  nlinarith

/-- **chain of EM rounds (partial)**.  For every iterate `i+1 ≤ n` of `fit`:
if the affiliations the `i`-th M-step was computed from (`affAt … i`: the start `γ₀` for `i = 0`, else the E-step of
iterate `i`) are mass dominant, the modes of iterate `i+1` sit on the prototypes (up to unit phases) with
concentration `kinv (own share)`; if moreover iterate `i+1` satisfies the explicit margin
`π_j·exp(−logNorm_j) < π_c·exp(κ_c − logNorm_c)`, its E-step has arg-max = truth at every observation.

PARTIAL: the two trajectory hypotheses `hdom` / `hmargin` are carried for EVERY iterate instead of being derived from
the start.  They abstract the quantitative part of C03 — that the soft posteriors of a noise-free scene keep most of
each class's mass on its own observations and that class-size / concentration imbalance never outweighs the
likelihood gap `κ_c`; for extreme imbalance they can fail (then the literal property fails in real arithmetic too).
For the hard start both hold at the first iterate (`watson_round_hard`). -/
theorem fixed_point_chain_partial (sc : Scene a c z) (pca : Tab D (Tab D ℂ) → Tab D ℂ × ℝ) (hpca : PcaOn pca z)
    (kinv lnorm : ℝ → ℝ) (tiny : ℝ) (htiny : 0 < tiny) (rule : WeightRule) (tie : Tying N) (eps : ℝ) (s : Fin N → ℝ)
    (γ₀ : Fin (K+1) → Fin N → ℝ) (n : Nat)
    (hdom : ∀ i, i < n → MassDominant c s (affAt tiny (watsonFamily D pca kinv lnorm) rule tie eps s z γ₀ i))
    (hmargin : ∀ i, i < n → ∀ obs j, j ≠ c obs →
      Margin c (fit tiny (watsonFamily D pca kinv lnorm) rule tie eps s z (i+1) γ₀) obs j) :
    ∀ i, i < n →
      (∀ k, Aligned a ((fit tiny (watsonFamily D pca kinv lnorm) rule tie eps s z (i+1) γ₀).c k) k)
      ∧ ∀ obs, vargmax (fun k => eStep tiny (watsonFamily D pca kinv lnorm)
          (fit tiny (watsonFamily D pca kinv lnorm) rule tie eps s z (i+1) γ₀) z k obs) = c obs := by
  intro i hi
  obtain ⟨aux, haux⟩ := fit_eq_mStep tiny (watsonFamily D pca kinv lnorm) rule tie eps s z γ₀ i
  have hal : ∀ k, Aligned a ((fit tiny (watsonFamily D pca kinv lnorm) rule tie eps s z (i+1) γ₀).c k) k := by
    intro k
    rw [haux]
    exact (mStep_aligned pca kinv lnorm rule tie eps s sc hpca _ aux (hdom i hi) k).1
  refine ⟨hal, fun obs => vargmax_of_strict _ (c obs) fun j hj => ?_⟩
  exact watson_estep_rank pca kinv lnorm sc tiny htiny _ hal obs j hj (hmargin i hi obs j hj)

/-- non-vacuity of the round theorems: two classes on the standard basis of `ℂ²`, one observation each, a PCA that
honours its contract on every scatter of this data, uniform weights, `kinv ≡ 1` — all hypotheses hold together, and
the conclusion is the concrete statement "arg-max = truth" -/
example (n : Fin 2) :
    vargmax (fun k => eStep (1/4) (watsonFamily 2 diagPca (fun _ => 1) (fun _ => 0))
      (fit (1/4) (watsonFamily 2 diagPca (fun _ => 1) (fun _ => 0)) WeightRule.unitNorm ⟨true, 1, tab fun _ => 0⟩ 0
        (fun _ => 1) a2 1 (hardStart fun m : Fin 2 => m)) a2 k n) = n :=
  watson_round_hard_uniform scene2 diagPca pcaOn2 (fun _ => 1) (fun _ => 0) one_pos (1/4) (by norm_num)
    WeightRule.unitNorm ⟨true, 1, tab fun _ => 0⟩ rfl 0 (fun _ => 1)
    (fun k => by fin_cases k <;> simp [hardStart]) n

/-- **the true partition is a stable fixed point for EVERY number of iterations (cWMM, balanced scene)**.
Noise-free orthonormal scene; start = the true partition blurred by a uniform leak that keeps the true class the
largest (`twoLevel c g₀ h₀`: `g₀` on the true class, `h₀ < g₀` on the others, `g₀ + K·h₀ = 1`; the hard start is
`g₀ = 1, h₀ = 0`); `weight_constant_axis = -2` (uniform weights), all classes of equal positive saliency mass `S`,
at least two classes, `get_pca` under its contract, and the one property of the concentration spline that matters:
`kinv x > 0` for `1/(K+1) < x ≤ 1` (the hypergeometric-ratio inverse is positive above `1/D`, and `K+1 ≤ D` orthonormal
prototypes exist only then).  Denominator clamp inactive (`tiny ≤ 1/(K+1)`).
Then for every `n ≥ 1` the model `fit n γ₀` has every mode on its prototype (up to a unit phase), one common
concentration `kappaSeq kinv K g₀ (n-1) > 0` (`κ₁ = kinv g₀`, `κ_{i+1} = kinv(e^{κ_i}/(e^{κ_i}+K))`), and the arg-max
of its E-step is the true class at every observation.  Proved by induction over the EM loop — no trajectory
hypothesis. -/
theorem fixed_point_watson_balanced (sc : Scene a c z) (pca : Tab D (Tab D ℂ) → Tab D ℂ × ℝ) (hpca : PcaOn pca z)
    (kinv lnorm : ℝ → ℝ) (hK : 1 ≤ K) (hkinv : ∀ x : ℝ, 1 / ((K+1 : ℕ) : ℝ) < x → x ≤ 1 → 0 < kinv x)
    (tiny : ℝ) (htiny : 0 < tiny) (ht : tiny ≤ 1 / ((K+1 : ℕ) : ℝ)) (rule : WeightRule) (tie : Tying N)
    (htie : tie.uniform = true) (eps : ℝ) (s : Fin N → ℝ) (S : ℝ) (hS : 0 < S) (hbal : ∀ k, classMass c s k = S)
    (g₀ h₀ : ℝ) (hgh : g₀ + K * h₀ = 1) (hh0 : 0 ≤ h₀) (hlt : h₀ < g₀) (n : Nat) (hn : 1 ≤ n) :
    let fam := watsonFamily D pca kinv lnorm
    let θ := fit tiny fam rule tie eps s z n (twoLevel c g₀ h₀)
    (∀ k, Aligned a (θ.c k) k ∧ (θ.c k).kappa = kappaSeq kinv K g₀ (n-1))
      ∧ 0 < kappaSeq kinv K g₀ (n-1)
      ∧ ∀ obs, vargmax (fun k => eStep tiny fam θ z k obs) = c obs := by
  intro fam θ
  obtain ⟨i, rfl⟩ : ∃ i, n = i + 1 := ⟨n - 1, by omega⟩
  obtain ⟨hb, hκ⟩ := balanced_chain pca kinv lnorm tiny rule tie eps s sc hpca hK hkinv htiny ht htie S hS hbal
    g₀ h₀ hgh hh0 hlt i
  refine ⟨fun k => ⟨(hb k).1, (hb k).2.1⟩, hκ, fun obs => ?_⟩
  exact balanced_argmax pca kinv lnorm tiny sc htiny θ _ _ hb hκ
    (fit_w_uniform pca kinv lnorm tiny rule tie eps s htie (twoLevel c g₀ h₀) i) obs

/-- the hard start (`γ₀` = one-hot truth) is the case `g₀ = 1`, `h₀ = 0` -/
theorem fixed_point_watson_balanced_hard (sc : Scene a c z) (pca : Tab D (Tab D ℂ) → Tab D ℂ × ℝ) (hpca : PcaOn pca z)
    (kinv lnorm : ℝ → ℝ) (hK : 1 ≤ K) (hkinv : ∀ x : ℝ, 1 / ((K+1 : ℕ) : ℝ) < x → x ≤ 1 → 0 < kinv x)
    (tiny : ℝ) (htiny : 0 < tiny) (ht : tiny ≤ 1 / ((K+1 : ℕ) : ℝ)) (rule : WeightRule) (tie : Tying N)
    (htie : tie.uniform = true) (eps : ℝ) (s : Fin N → ℝ) (S : ℝ) (hS : 0 < S) (hbal : ∀ k, classMass c s k = S)
    (n : Nat) (hn : 1 ≤ n) (obs : Fin N) :
    vargmax (fun k => eStep tiny (watsonFamily D pca kinv lnorm)
      (fit tiny (watsonFamily D pca kinv lnorm) rule tie eps s z n (hardStart c)) z k obs) = c obs :=
  (fixed_point_watson_balanced sc pca hpca kinv lnorm hK hkinv tiny htiny ht rule tie htie eps s S hS hbal 1 0
    (by simp) le_rfl one_pos n hn).2.2 obs

/-- non-vacuity of `fixed_point_watson_balanced`: the two-class scene above satisfies all its hypotheses, here with
the blurred start `g₀ = 3/4`, `h₀ = 1/4` -/
example (n : Nat) (hn : 1 ≤ n) (obs : Fin 2) :
    vargmax (fun k => eStep (1/4) (watsonFamily 2 diagPca (fun _ => 1) (fun _ => 0))
      (fit (1/4) (watsonFamily 2 diagPca (fun _ => 1) (fun _ => 0)) WeightRule.unitNorm ⟨true, 1, tab fun _ => 0⟩ 0
        (fun _ => 1) a2 n (twoLevel (fun m : Fin 2 => m) (3/4) (1/4))) a2 k obs) = obs :=
  (fixed_point_watson_balanced scene2 diagPca pcaOn2 (fun _ => 1) (fun _ => 0) le_rfl (fun _ _ _ => one_pos) (1/4)
    (by norm_num) (by norm_num) WeightRule.unitNorm ⟨true, 1, tab fun _ => 0⟩ rfl 0 (fun _ => 1) 1 one_pos
    (fun k => by fin_cases k <;> simp [classMass]) (3/4) (1/4) (by norm_num) (by norm_num) (by norm_num) n hn).2.2 obs

end round

/-! ## 4. One EM round of the cACG mixture (`Em.fit … cacgFamily`, covariance_norm = 'eigenvalue') -/

/-- **the true partition survives one EM round (cACGMM)**.  Noise-free orthonormal scene, hard start on the truth,
every class has saliency mass `≥ tiny > 0`, `eigh` honours its contract, `0 < floor < 1`.  Then the first M-step
gives every class the spiked covariance `U diag(1, floor, …, floor) Uᴴ` with the eigenvalue-1 eigenvector on its
prototype (the eigenvalue floor regularises the rank-one scatter), and the E-step ranks the true class strictly first
at every observation where the explicit weight margin `π_j < π_c·exp(−(D+1)·log floor)` holds.
Guards carried: `10·tiny ≤ 1` (quadratic-form floor of the Tyler weights), `tiny ≤ class mass`, `tiny ≤ 1`. -/
theorem cacg_round_hard {K N D : Nat} {a : Fin (K+1) → Fin (D+1) → ℂ} {c : Fin N → Fin (K+1)}
    {z : Fin N → Fin (D+1) → ℂ} (sc : Scene a c z)
    (eigh : Tab (D+1) (Tab (D+1) ℂ) → Tab (D+1) (Tab (D+1) ℂ) × Tab (D+1) ℝ) (tiny floor : ℝ)
    (heigh : EighOn eigh tiny z) (htiny : 0 < tiny) (h10 : ((10 : ℕ) : ℝ) * tiny ≤ 1)
    (hf0 : 0 < floor) (hf1 : floor < 1) (rule : WeightRule) (tie : Tying N) (eps : ℝ) (s : Fin N → ℝ)
    (hmass : ∀ k, tiny ≤ ∑ n, hardStart c k n * s n) :
    let fam := cacgFamily D eigh CovNorm.eigenvalue floor tiny
    let θ₁ := fit tiny fam rule tie eps s z 1 (hardStart c)
    (∀ k, Spiked (θ₁.c k) (a k) floor)
      ∧ (∀ n j, j ≠ c n → θ₁.w j n < θ₁.w (c n) n * Real.exp (-(((D+1 : ℕ) : ℝ) * Real.log floor)) →
            eStep tiny fam θ₁ z j n < eStep tiny fam θ₁ z (c n) n)
      ∧ ∀ n, (∀ j, j ≠ c n → θ₁.w j n < θ₁.w (c n) n * Real.exp (-(((D+1 : ℕ) : ℝ) * Real.log floor))) →
            vargmax (fun k => eStep tiny fam θ₁ z k n) = c n := by
  intro fam θ₁
  have ht1 : tiny ≤ 1 := by
    have : (0:ℝ) ≤ ((10 : ℕ) : ℝ) * tiny - tiny := by push_cast; linarith
    linarith
  have hsp : ∀ k, Spiked (θ₁.c k) (a k) floor := by
    intro k
    show Spiked ((mStep fam rule tie eps s z (hardStart c) (fun _ _ => 1)).c k) (a k) floor
    rw [mStep_c]
    exact cacgMstep_hard_spiked sc eigh tiny floor heigh h10 ht1 hf0.le hf1.le s k
      (lt_of_lt_of_le htiny (hmass k)) (hmass k)
  have hrank : ∀ n j, j ≠ c n → θ₁.w j n < θ₁.w (c n) n * Real.exp (-(((D+1 : ℕ) : ℝ) * Real.log floor)) →
      eStep tiny fam θ₁ z j n < eStep tiny fam θ₁ z (c n) n := by
    intro n j hj hm
    obtain ⟨u, hu, hz⟩ := sc.obs
    rw [eStep_lt_iff tiny htiny]
    have hd := (cacg_rank sc.ortho tiny floor hf0 hf1 ht1 (fun k => θ₁.c k) hsp (c n) j hj (u n) (hu n) (z n) (hz n)).1
    have e : fam.logPdf (θ₁.c (c n)) (z n) = fam.logPdf (θ₁.c j) (z n) + -(((D+1 : ℕ) : ℝ) * Real.log floor) := by
      show cacgLogPdf tiny (θ₁.c (c n)) (z n) = cacgLogPdf tiny (θ₁.c j) (z n) + _
      linarith
    rw [e, Real.exp_add, ← mul_assoc, mul_comm (θ₁.w (c n) n) _, mul_assoc]
    rw [mul_comm (θ₁.w j n)]
    exact mul_lt_mul_of_pos_left hm (Real.exp_pos _)
  exact ⟨hsp, hrank, fun n h => vargmax_of_strict _ (c n) fun j hj => hrank n j hj (h j hj)⟩


/-- with `weight_constant_axis = -2` (uniform weights) the margin holds automatically (`floor < 1`): after one EM
round from the hard true partition the arg-max of the cACGMM posterior is the true class at every observation -/
theorem cacg_round_hard_uniform {K N D : Nat} {a : Fin (K+1) → Fin (D+1) → ℂ} {c : Fin N → Fin (K+1)}
    {z : Fin N → Fin (D+1) → ℂ} (sc : Scene a c z)
    (eigh : Tab (D+1) (Tab (D+1) ℂ) → Tab (D+1) (Tab (D+1) ℂ) × Tab (D+1) ℝ) (tiny floor : ℝ)
    (heigh : EighOn eigh tiny z) (htiny : 0 < tiny) (h10 : ((10 : ℕ) : ℝ) * tiny ≤ 1)
    (hf0 : 0 < floor) (hf1 : floor < 1) (rule : WeightRule) (tie : Tying N) (htie : tie.uniform = true) (eps : ℝ)
    (s : Fin N → ℝ) (hmass : ∀ k, tiny ≤ ∑ n, hardStart c k n * s n) (n : Fin N) :
    vargmax (fun k => eStep tiny (cacgFamily D eigh CovNorm.eigenvalue floor tiny)
      (fit tiny (cacgFamily D eigh CovNorm.eigenvalue floor tiny) rule tie eps s z 1 (hardStart c)) z k n) = c n := by
  apply (cacg_round_hard sc eigh tiny floor heigh htiny h10 hf0 hf1 rule tie eps s hmass).2.2 n
  intro j _
  have hw : ∀ k, (fit tiny (cacgFamily D eigh CovNorm.eigenvalue floor tiny) rule tie eps s z 1 (hardStart c)).w k n
      = 1 / ((K + 1 : ℕ) : ℝ) := by
    intro k
    simp [fit_one, Mixture.w, mStep, mWeight, htie]
  rw [hw, hw]
  have hpos : 0 < 1 / ((K + 1 : ℕ) : ℝ) := by positivity
  have hlog : 0 < -(((D+1 : ℕ) : ℝ) * Real.log floor) := by
    have := Real.log_neg hf0 hf1
    have hD : (0:ℝ) < ((D+1 : ℕ) : ℝ) := by positivity
    nlinarith
  have : 1 < Real.exp (-(((D+1 : ℕ) : ℝ) * Real.log floor)) := by
    have := Real.add_one_lt_exp hlog.ne'
    linarith
  nlinarith

/-- non-vacuity of the cACG round theorems: the two-class scene on the standard basis of `ℂ²` with an `eigh` that honours
its contract on every scatter of this data, `tiny = 1/100`, `floor = 1/2` -/
example (n : Fin 2) :
    vargmax (fun k => eStep (1/100) (cacgFamily 1 diagEigh CovNorm.eigenvalue (1/2) (1/100))
      (fit (1/100) (cacgFamily 1 diagEigh CovNorm.eigenvalue (1/2) (1/100)) WeightRule.mean ⟨true, 1, tab fun _ => 0⟩ 0
        (fun _ => 1) a2 1 (hardStart fun m : Fin 2 => m)) a2 k n) = n :=
  cacg_round_hard_uniform scene2 diagEigh (1/100) (1/2) (eighOn2 _) (by norm_num) (by norm_num) (by norm_num)
    (by norm_num) WeightRule.mean ⟨true, 1, tab fun _ => 0⟩ rfl 0 (fun _ => 1)
    (fun k => by fin_cases k <;> simp [hardStart] <;> norm_num) n

/-! ## The vMF family of the executable EM model (`Em.vmfFamily`, stepped against `VMFMMTrainer` by the driver) -/
section vmf_em
open PbBss.EmVmf
variable {D N : Nat}

/-- vMF E-step ranking on the executable family: common concentration `κ > 0` — the class whose mean direction has the
larger inner product with the observation ranks first; for `κ < 0` the order flips (`vmf_em_rank_neg`). -/
theorem vmf_em_rank (θc θj : Vmf ℝ D) (y : Fin D → ℝ) (hκ : θc.kappa = θj.kappa) (hl : θc.logNorm = θj.logNorm)
    (hpos : 0 < θc.kappa) (h : ∑ d, y d * rd θj.mean d < ∑ d, y d * rd θc.mean d) :
    vmfLogPdf θj y < vmfLogPdf θc y :=
  EmVmf.vmf_rank θc θj y hκ hl hpos h

theorem vmf_em_rank_neg (θc θj : Vmf ℝ D) (y : Fin D → ℝ) (hκ : θc.kappa = θj.kappa) (hl : θc.logNorm = θj.logNorm)
    (hneg : θc.kappa < 0) (h : ∑ d, y d * rd θj.mean d < ∑ d, y d * rd θc.mean d) :
    vmfLogPdf θc y < vmfLogPdf θj y :=
  EmVmf.vmf_rank_neg θc θj y hκ hl hneg h

/-- vMF M-step output is a valid component: unit mean direction (resultant not floored), concentration inside
`[min_concentration, max_concentration]`, stored log-normaliser = the one of its own concentration. -/
theorem vmf_em_mstep_valid (lnorm : ℝ → ℝ) (lo hi tiny : ℝ) (w aux : Fin N → ℝ) (y : Fin N → Fin D → ℝ)
    (ht : 0 < tiny) (hlh : lo ≤ hi)
    (hr : tiny ≤ Real.sqrt (∑ d, (∑ n, w n * y n d) * (∑ n, w n * y n d))) :
    let θ := vmfMstep lnorm lo hi tiny N w aux y
    (∑ d, rd θ.mean d * rd θ.mean d = 1) ∧ lo ≤ θ.kappa ∧ θ.kappa ≤ hi ∧ θ.logNorm = lnorm θ.kappa :=
  ⟨vmfMstep_mean_unit lnorm lo hi tiny w aux y ht hr, (vmfMstep_kappa_range lnorm lo hi tiny w aux y hlh).1,
   (vmfMstep_kappa_range lnorm lo hi tiny w aux y hlh).2, rfl⟩

end vmf_em

/-! ## The vMF mixture: fixed point of the EM loop (`PbBss/Proofs/FixedPointVmf.lean`) -/
section vmf_fixed_point
variable {K N D : Nat} {a : Fin (K+1) → Fin D → ℝ} {c : Fin N → Fin (K+1)} {y : Fin N → Fin D → ℝ}

/-- **first vMF M-step from the hard true partition**: noise-free classes on real orthonormal prototypes (the mixture
has already normalised the observations, so positive gains are gone), ANY positive class masses not below the
resultant floor — the fitted mean direction of class `k` is exactly `a k`. -/
theorem vmf_first_mstep_hard (ha : OrthoProtoR a) (hy : ∀ n d, y n d = a (c n) d) (lnorm : ℝ → ℝ) (lo hi tinyV : ℝ)
    (tiny : ℝ) (rule : WeightRule) (tie : Tying N) (eps : ℝ) (s : Fin N → ℝ)
    (hmass : ∀ k, 0 < ∑ n, hardStart c k n * s n) (hguard : ∀ k, tinyV ≤ ∑ n, hardStart c k n * s n)
    (k : Fin (K+1)) (d : Fin D) :
    rd ((fit tiny (vmfFamily D lnorm lo hi tinyV) rule tie eps s y 1 (hardStart c)).c k).mean d = a k d :=
  FixedPoint.vmf_first_mstep_hard ha hy lnorm lo hi tinyV tiny rule tie eps s hmass hguard k d

/-- **the true partition survives one EM round (vMFMM)**, any weight rule / tying / class masses: after the first
M-step every class has its prototype as mean and the common concentration `κ₁`; an observation's true class is
strictly first as soon as the weight margin `π_j < π_c·e^{κ₁}` holds. -/
theorem vmf_round_hard (ha : OrthoProtoR a) (hy : ∀ n d, y n d = a (c n) d) (lnorm : ℝ → ℝ) (lo hi tinyV : ℝ)
    (tiny : ℝ) (htiny : 0 < tiny) (rule : WeightRule) (tie : Tying N) (eps : ℝ) (s : Fin N → ℝ)
    (hmass : ∀ k, 0 < ∑ n, hardStart c k n * s n) (hguard : ∀ k, tinyV ≤ ∑ n, hardStart c k n * s n) :
    let fam := vmfFamily D lnorm lo hi tinyV
    let θ₁ := fit tiny fam rule tie eps s y 1 (hardStart c)
    (∀ k, (∀ d, rd (θ₁.c k).mean d = a k d) ∧ (θ₁.c k).kappa = vmfKappa D lo hi 1
        ∧ (θ₁.c k).logNorm = lnorm (vmfKappa D lo hi 1))
      ∧ (∀ n j, j ≠ c n → θ₁.w j n < θ₁.w (c n) n * Real.exp (vmfKappa D lo hi 1) →
            eStep tiny fam θ₁ y j n < eStep tiny fam θ₁ y (c n) n)
      ∧ ∀ n, (∀ j, j ≠ c n → θ₁.w j n < θ₁.w (c n) n * Real.exp (vmfKappa D lo hi 1)) →
            vargmax (fun k => eStep tiny fam θ₁ y k n) = c n :=
  FixedPoint.vmf_round_hard ha hy lnorm lo hi tinyV tiny htiny rule tie eps s hmass hguard

/-- with `weight_constant_axis = -2` (uniform weights) the margin is automatic: `0 < min_concentration ≤ max_concentration` -/
theorem vmf_round_hard_uniform (ha : OrthoProtoR a) (hy : ∀ n d, y n d = a (c n) d) (lnorm : ℝ → ℝ) (lo hi tinyV : ℝ)
    (hlo : 0 < lo) (hlh : lo ≤ hi) (tiny : ℝ) (htiny : 0 < tiny) (rule : WeightRule) (tie : Tying N)
    (htie : tie.uniform = true) (eps : ℝ) (s : Fin N → ℝ)
    (hmass : ∀ k, 0 < ∑ n, hardStart c k n * s n) (hguard : ∀ k, tinyV ≤ ∑ n, hardStart c k n * s n) (n : Fin N) :
    vargmax (fun k => eStep tiny (vmfFamily D lnorm lo hi tinyV)
      (fit tiny (vmfFamily D lnorm lo hi tinyV) rule tie eps s y 1 (hardStart c)) y k n) = c n :=
  FixedPoint.vmf_round_hard_uniform ha hy lnorm lo hi tinyV hlo hlh tiny htiny rule tie htie eps s hmass hguard n

/-- **the true partition is a stable fixed point for EVERY number of iterations (vMFMM, balanced scene)**.
Noise-free real orthonormal scene, start = the true partition blurred by a uniform leak that keeps the true class the
largest (`twoLevel c g₀ h₀`), uniform weights, equal positive class masses `S`, clipping bounds `0 < lo ≤ hi`
(`min_concentration = 1e-10 > 0` in the code), E-step denominator clamp and resultant floor inactive.  Then for every
`n ≥ 1` the model `fit n γ₀` has the posterior levels `(g, h) = levSeq … (n−1)` still ordered (`h < g`), every class the
mean direction `(g·a_k + h·Σ_{j≠k} a_j)/ρ` (unit length, closer to its own prototype than to any other), one common
concentration in `[lo, hi]`, and the arg-max of its E-step is the true class at every observation.  Induction over the
EM loop, no trajectory hypothesis.  The proof uses only `lo ≤ κ ≤ hi` and "κ is common to the classes", so it is
indifferent to the value Banerjee's formula takes at mean resultant length exactly 1 (ℝ: `x/0 = 0 → lo`; IEEE: `+inf → hi`). -/
theorem fixed_point_vmf_balanced (ha : OrthoProtoR a) (hy : ∀ n d, y n d = a (c n) d) (lnorm : ℝ → ℝ)
    (lo hi tinyV : ℝ) (hlo : 0 < lo) (hlh : lo ≤ hi) (tiny : ℝ) (htiny : 0 < tiny) (ht : tiny ≤ 1 / ((K+1 : ℕ) : ℝ))
    (rule : WeightRule) (tie : Tying N) (htie : tie.uniform = true) (eps : ℝ) (s : Fin N → ℝ) (S : ℝ) (hS : 0 < S)
    (hbal : ∀ k, classMass c s k = S) (hguard : tinyV ≤ S / Real.sqrt ((K+1 : ℕ) : ℝ))
    (g₀ h₀ : ℝ) (hgh : g₀ + K * h₀ = 1) (hh0 : 0 ≤ h₀) (hlt : h₀ < g₀) (n : Nat) (hn : 1 ≤ n) :
    let fam := vmfFamily D lnorm lo hi tinyV
    let θ := fit tiny fam rule tie eps s y n (twoLevel c g₀ h₀)
    let g := (levSeq D K lo hi g₀ h₀ (n-1)).1
    let h := (levSeq D K lo hi g₀ h₀ (n-1)).2
    let κ := vmfKappa D lo hi (rho K g h)
    (g + K * h = 1 ∧ 0 ≤ h ∧ h < g)
      ∧ (lo ≤ κ ∧ κ ≤ hi)
      ∧ (∀ k, (∀ d, rd (θ.c k).mean d = (∑ j, (if j = k then g else h) * a j d) / rho K g h)
            ∧ (θ.c k).kappa = κ ∧ (θ.c k).logNorm = lnorm κ)
      ∧ (∀ k, (∀ j, j ≠ k → ∑ d, rd (θ.c k).mean d * a j d < ∑ d, rd (θ.c k).mean d * a k d)
            ∧ ∑ d, rd (θ.c k).mean d * rd (θ.c k).mean d = 1)
      ∧ ∀ obs, vargmax (fun k => eStep tiny fam θ y k obs) = c obs :=
  FixedPoint.fixed_point_vmf_balanced ha hy lnorm lo hi tinyV hlo hlh tiny htiny ht rule tie htie eps s S hS hbal hguard
    g₀ h₀ hgh hh0 hlt n hn

/-- the hard start is the case `g₀ = 1`, `h₀ = 0` -/
theorem fixed_point_vmf_balanced_hard (ha : OrthoProtoR a) (hy : ∀ n d, y n d = a (c n) d) (lnorm : ℝ → ℝ)
    (lo hi tinyV : ℝ) (hlo : 0 < lo) (hlh : lo ≤ hi) (tiny : ℝ) (htiny : 0 < tiny) (ht : tiny ≤ 1 / ((K+1 : ℕ) : ℝ))
    (rule : WeightRule) (tie : Tying N) (htie : tie.uniform = true) (eps : ℝ) (s : Fin N → ℝ) (S : ℝ) (hS : 0 < S)
    (hbal : ∀ k, classMass c s k = S) (hguard : tinyV ≤ S / Real.sqrt ((K+1 : ℕ) : ℝ))
    (n : Nat) (hn : 1 ≤ n) (obs : Fin N) :
    vargmax (fun k => eStep tiny (vmfFamily D lnorm lo hi tinyV)
      (fit tiny (vmfFamily D lnorm lo hi tinyV) rule tie eps s y n (hardStart c)) y k obs) = c obs :=
  FixedPoint.fixed_point_vmf_balanced_hard ha hy lnorm lo hi tinyV hlo hlh tiny htiny ht rule tie htie eps s S hS hbal
    hguard n hn obs

/-- non-vacuity: two classes on the standard basis of `ℝ²`, one observation each, blurred start `(3/4, 1/4)`, all `n ≥ 1` -/
example (n : Nat) (hn : 1 ≤ n) (obs : Fin 2) :
    vargmax (fun k => eStep (1/4) (vmfFamily 2 (fun _ => 0) 1 2 (1/2))
      (fit (1/4) (vmfFamily 2 (fun _ => 0) 1 2 (1/2)) WeightRule.unitNorm ⟨true, 1, tab fun _ => 0⟩ 0
        (fun _ => 1) a2R n (twoLevel (fun m : Fin 2 => m) (3/4) (1/4))) a2R k obs) = obs :=
  (fixed_point_vmf_balanced ortho_a2R (c := fun m : Fin 2 => m) (fun _ _ => rfl) (fun _ => 0) 1 2 (1/2) one_pos
    (by norm_num) (1/4) (by norm_num) (by norm_num) WeightRule.unitNorm ⟨true, 1, tab fun _ => 0⟩ rfl 0 (fun _ => 1) 1
    one_pos (fun k => by fin_cases k <;> simp [classMass]) (by rw [one_div]; simpa using half_le_inv_sqrt_two)
    (3/4) (1/4) (by norm_num) (by norm_num) (by norm_num) n hn).2.2.2.2 obs

end vmf_fixed_point

/-! ## The spherical Gaussian mixture: fixed point of the EM loop (`PbBss/Proofs/FixedPointSph.lean`) -/
section sph_fixed_point
variable {K N D : Nat} {a : Fin (K+1) → Fin D → ℝ} {c : Fin N → Fin (K+1)} {y : Fin N → Fin D → ℝ}

/-- **the true partition is a stable fixed point for EVERY number of iterations (GMM, spherical covariances, balanced
scene)**.  Noise-free classes on real orthonormal means, start = the true partition blurred by a uniform leak with
`0 < h₀ < g₀` (STRICTLY blurred: from the hard start the variance of a noise-free class is 0 and the Gaussian has no
density — outside the property), uniform weights, equal positive class masses `S ≥ tinyG`, at least two classes,
E-step denominator clamp inactive.  Then for every `n ≥ 1` the model `fit n γ₀` has posterior levels `0 < h < g`, every
class the mean `g·a_k + h·Σ_{j≠k} a_j` (strictly closer to its own prototype than to any other), one common variance
`sphVar K D g h > 0`, and the arg-max of its E-step is the true class at every observation.  Induction over the EM loop;
the totalised `1/sqrt 0`, `log 0` of the real-number model are never used (`sphLogPdf` is rewritten only under `0 < var`). -/
theorem fixed_point_sph_balanced (ha : OrthoProtoR a) (hy : ∀ n d, y n d = a (c n) d) (hK : 1 ≤ K)
    (tinyG log2pi : ℝ) (tiny : ℝ) (htiny : 0 < tiny) (ht : tiny ≤ 1 / ((K+1 : ℕ) : ℝ))
    (rule : WeightRule) (tie : Tying N) (htie : tie.uniform = true) (eps : ℝ) (s : Fin N → ℝ) (S : ℝ) (hS : 0 < S)
    (hbal : ∀ k, classMass c s k = S) (hguard : tinyG ≤ S)
    (g₀ h₀ : ℝ) (hgh : g₀ + K * h₀ = 1) (hh0 : 0 < h₀) (hlt : h₀ < g₀) (n : Nat) (hn : 1 ≤ n) :
    let fam := sphFamily D tinyG log2pi
    let θ := fit tiny fam rule tie eps s y n (twoLevel c g₀ h₀)
    let g := (sphLevSeq D K g₀ h₀ (n-1)).1
    let h := (sphLevSeq D K g₀ h₀ (n-1)).2
    let v := sphVar K D g h
    (g + K * h = 1 ∧ 0 < h ∧ h < g)
      ∧ 0 < v
      ∧ (∀ k, (∀ d, rd (θ.c k).mean d = ∑ j, (if j = k then g else h) * a j d) ∧ (θ.c k).var = v)
      ∧ (∀ k j, j ≠ k → ∑ d, (rd (θ.c k).mean d - a k d) ^ 2 < ∑ d, (rd (θ.c k).mean d - a j d) ^ 2)
      ∧ ∀ obs, vargmax (fun k => eStep tiny fam θ y k obs) = c obs :=
  FixedPoint.fixed_point_sph_balanced ha hy hK tinyG log2pi tiny htiny ht rule tie htie eps s S hS hbal hguard g₀ h₀ hgh
    hh0 hlt n hn

/-- non-vacuity: two classes on the standard basis of `ℝ²`, start `(3/4, 1/4)`, all `n ≥ 1` (first variance `3/16`) -/
example (n : Nat) (hn : 1 ≤ n) (obs : Fin 2) :
    vargmax (fun k => eStep (1/4) (sphFamily 2 (1/2) 0)
      (fit (1/4) (sphFamily 2 (1/2) 0) WeightRule.unitNorm ⟨true, 1, tab fun _ => 0⟩ 0
        (fun _ => 1) a2R n (twoLevel (fun m : Fin 2 => m) (3/4) (1/4))) a2R k obs) = obs :=
  (fixed_point_sph_balanced ortho_a2R (c := fun m : Fin 2 => m) (fun _ _ => rfl) le_rfl (1/2) 0 (1/4) (by norm_num)
    (by norm_num) WeightRule.unitNorm ⟨true, 1, tab fun _ => 0⟩ rfl 0 (fun _ => 1) 1 one_pos
    (fun k => by fin_cases k <;> simp [classMass]) (by norm_num)
    (3/4) (1/4) (by norm_num) (by norm_num) (by norm_num) n hn).2.2.2.2 obs

end sph_fixed_point

/-! ## The cACG mixture: fixed point of the EM loop for every number of iterations (`PbBss/Proofs/FixedPointCacgChain.lean`) -/
section cacg_fixed_point
open PbBss.FixedPoint.CacgChain
variable {K N D : Nat} {a : Fin (K+1) → Fin (D+1) → ℂ} {c : Fin N → Fin (K+1)} {z : Fin N → Fin (D+1) → ℂ}
  (eigh : Tab (D+1) (Tab (D+1) ℂ) → Tab (D+1) (Tab (D+1) ℂ) × Tab (D+1) ℝ) (tiny floor : ℝ)
  (rule : WeightRule) (tie : Tying N) (eps : ℝ) (s : Fin N → ℝ)

/-- **the true partition is a stable fixed point for EVERY number of iterations (cACGMM, balanced scene)**.
Noise-free orthonormal scene, hard start on the truth, uniform weights, equal class masses `S ≥ tiny`, `eigh` under its
contract (orthonormal eigenvector columns, no ordering), `0 < floor < 1`, `covariance_norm = 'eigenvalue'`; guards:
quadratic-form floor (`10·tiny ≤ 1`) and posterior denominator clamp (`tiny ≤ 1/(K+1)`) inactive.  Induction over `fit`
with the quadratic forms of the preceding E-step as Tyler weights. -/
theorem fixed_point_cacg_balanced (sc : Scene a c z) (heigh : EighOn eigh tiny z) (htiny : 0 < tiny)
    (h10 : ((10 : ℕ) : ℝ) * tiny ≤ 1) (ht : tiny ≤ 1 / ((K+1 : ℕ) : ℝ)) (hf0 : 0 < floor) (hf1 : floor < 1)
    (htie : tie.uniform = true) (S : ℝ) (hS : tiny ≤ S) (hbal : ∀ k, classMass c s k = S) :
    ∀ n, 1 ≤ n → ∀ obs,
      vargmax (fun k => eStep tiny (cacgFamily D eigh CovNorm.eigenvalue floor tiny)
        (fit tiny (cacgFamily D eigh CovNorm.eigenvalue floor tiny) rule tie eps s z n (hardStart c)) z k obs) = c obs :=
  CacgChain.fixed_point_cacg_balanced eigh tiny floor rule tie eps s sc heigh htiny h10 ht hf0 hf1 htie S hS hbal

/-- the same from a blurred start with `h₀ ≤ floor·g₀` (a larger leak puts a middle eigenvalue between `floor` and 1
on the other prototypes in the first covariance; that case is not proved) -/
theorem fixed_point_cacg_balanced_blur (sc : Scene a c z) (heigh : EighOn eigh tiny z) (htiny : 0 < tiny)
    (h10 : ((10 : ℕ) : ℝ) * tiny ≤ 1) (ht : tiny ≤ 1 / ((K+1 : ℕ) : ℝ)) (hf0 : 0 < floor) (hf1 : floor < 1)
    (htie : tie.uniform = true) (S : ℝ) (hS : tiny ≤ S) (hbal : ∀ k, classMass c s k = S)
    (g₀ h₀ : ℝ) (hgh : g₀ + K * h₀ = 1) (hh0 : 0 ≤ h₀) (hlt : h₀ ≤ floor * g₀) :
    ∀ n, 1 ≤ n → ∀ obs,
      vargmax (fun k => eStep tiny (cacgFamily D eigh CovNorm.eigenvalue floor tiny)
        (fit tiny (cacgFamily D eigh CovNorm.eigenvalue floor tiny) rule tie eps s z n (twoLevel c g₀ h₀)) z k obs)
        = c obs :=
  CacgChain.fixed_point_cacg_balanced_blur eigh tiny floor rule tie eps s sc heigh htiny h10 ht hf0 hf1 htie S hS hbal
    g₀ h₀ hgh hh0 hlt

/-- the trajectory is stationary: after every `n ≥ 1` iterations each class is `U diag(1, floor, …, floor) Uᴴ` with the
eigenvalue-1 eigenvector on its prototype, and the posterior is the same two-level table -/
theorem cacg_trajectory_stationary (sc : Scene a c z) (heigh : EighOn eigh tiny z) (htiny : 0 < tiny)
    (h10 : ((10 : ℕ) : ℝ) * tiny ≤ 1) (ht : tiny ≤ 1 / ((K+1 : ℕ) : ℝ)) (hf0 : 0 < floor) (hf1 : floor < 1)
    (htie : tie.uniform = true) (S : ℝ) (hS : tiny ≤ S) (hbal : ∀ k, classMass c s k = S) (n : Nat) (hn : 1 ≤ n) :
    (∀ k, Spiked ((fit tiny (cacgFamily D eigh CovNorm.eigenvalue floor tiny) rule tie eps s z n (hardStart c)).c k)
        (a k) floor)
      ∧ ∀ k obs, eStep tiny (cacgFamily D eigh CovNorm.eigenvalue floor tiny)
          (fit tiny (cacgFamily D eigh CovNorm.eigenvalue floor tiny) rule tie eps s z n (hardStart c)) z k obs
        = if c obs = k then ratioE D floor / (ratioE D floor + K) else 1 / (ratioE D floor + K) :=
  CacgChain.cacg_trajectory_stationary eigh tiny floor rule tie eps s sc heigh htiny h10 ht hf0 hf1 htie S hS hbal n hn

/-- non-vacuity: the two-class scene on the standard basis of `ℂ²` (`tiny = 1/100`, `floor = 1/2`), all `n ≥ 1` -/
example : ∀ n, 1 ≤ n → ∀ obs : Fin 2,
    vargmax (fun k => eStep (1/100) (cacgFamily 1 diagEigh CovNorm.eigenvalue (1/2) (1/100))
      (fit (1/100) (cacgFamily 1 diagEigh CovNorm.eigenvalue (1/2) (1/100)) WeightRule.mean ⟨true, 1, tab fun _ => 0⟩ 0
        (fun _ => 1) a2 n (hardStart fun m : Fin 2 => m)) a2 k obs) = obs :=
  fixed_point_cacg_balanced (K := 1) diagEigh (1/100) (1/2) WeightRule.mean ⟨true, 1, tab fun _ => 0⟩ 0 (fun _ => 1)
    scene2 (eighOn2 _) (by norm_num) (by norm_num) (by norm_num) (by norm_num) (by norm_num) rfl 1 (by norm_num)
    (fun k => by fin_cases k <;> simp [classMass])

end cacg_fixed_point

/-! ## The integration model GCACGMM: fixed point of the EM loop (`PbBss/Proofs/FixedPointGcacg{,Sliced}.lean`) -/
section gcacg_fixed_point
open PbBss.FixedPoint.Gcacg PbBss.FixedPoint.GcacgSliced

/-- **the true partition is a stable fixed point for EVERY number of iterations (GCACGMM, one bin, balanced scene)**.
Two streams with the same true class: spatial = noise-free observations on complex orthonormal prototypes `a`,
spectral = embeddings equal to real orthonormal class means `b`; equal class masses, uniform weights, unit stream weights
(`prodFamily`), `eigh` under its contract, `0 < floor < 1`; start blurred with `0 < h₀ ≤ floor·g₀` (the Gaussian stream has no
density from the hard start; the cACG stream's first covariance stays spiked).  For every `n ≥ 1`: the level invariant
(`0 < h ≤ floor·g`, discharged along the whole trajectory, not assumed), every cACG component spiked on its prototype,
every Gaussian mean `g·b_k + h·Σ_{j≠k} b_j` (closer to its own prototype) with one common positive variance, and the
arg-max of the E-step — whose log-density gap is the SUM of the two streams' gaps — is the true class. -/
theorem fixed_point_gcacg_balanced {K N D E : Nat} {a : Fin (K+1) → Fin (D+1) → ℂ} {b : Fin (K+1) → Fin E → ℝ}
    {c : Fin N → Fin (K+1)} {z : Fin N → Fin (D+1) → ℂ} {y : Fin N → Fin E → ℝ}
    (sc : Scene a c z) (hb : OrthoProtoR b) (hy : ∀ n d, y n d = b (c n) d)
    (hK : 1 ≤ K) (eigh : Tab (D+1) (Tab (D+1) ℂ) → Tab (D+1) (Tab (D+1) ℂ) × Tab (D+1) ℝ)
    (tiny floor tinyG log2pi : ℝ) (heigh : EighOn eigh tiny z) (htiny : 0 < tiny)
    (h10 : ((10 : ℕ) : ℝ) * tiny ≤ 1) (ht : tiny ≤ 1 / ((K+1 : ℕ) : ℝ)) (hf0 : 0 < floor) (hf1 : floor < 1)
    (rule : WeightRule) (tie : Tying N) (htie : tie.uniform = true) (eps : ℝ) (s : Fin N → ℝ)
    (S : ℝ) (hS : tiny ≤ S) (hbal : ∀ k, classMass c s k = S) (hguard : tinyG ≤ S)
    (g₀ h₀ : ℝ) (hgh : g₀ + K * h₀ = 1) (hh0 : 0 < h₀) (hlt : h₀ ≤ floor * g₀) (n : Nat) (hn : 1 ≤ n) :
    let fam := prodFamily (cacgFamily D eigh CovNorm.eigenvalue floor tiny) (sphFamily E tinyG log2pi)
    let yz : Fin N → (Fin (D+1) → ℂ) × (Fin E → ℝ) := fun m => (z m, y m)
    let θ := fit tiny fam rule tie eps s yz n (twoLevel c g₀ h₀)
    let g := (gLevSeq D E K floor g₀ h₀ (n-1)).1
    let h := (gLevSeq D E K floor g₀ h₀ (n-1)).2
    let v := sphVar K E g h
    (g + K * h = 1 ∧ 0 < h ∧ h ≤ floor * g)
      ∧ h < g ∧ 0 < v
      ∧ (∀ k, Spiked (θ.c k).1 (a k) floor)
      ∧ (∀ k, (∀ d, rd (θ.c k).2.mean d = ∑ j, (if j = k then g else h) * b j d) ∧ (θ.c k).2.var = v)
      ∧ (∀ k j, j ≠ k → ∑ d, (rd (θ.c k).2.mean d - b k d) ^ 2 < ∑ d, (rd (θ.c k).2.mean d - b j d) ^ 2)
      ∧ ∀ obs, vargmax (fun k => eStep tiny fam θ yz k obs) = c obs :=
  Gcacg.fixed_point_gcacg_balanced sc hb hy hK eigh tiny floor tinyG log2pi heigh htiny h10 ht hf0 hf1 rule tie htie eps s
    S hS hbal hguard g₀ h₀ hgh hh0 hlt n hn

/-- the same with the spatial stream `sliced` over `F` frequency bins (per-bin prototypes and cACG components, one
Gaussian tied over the bins, every bin with the same class masses) — the instantiation `driver_em` executes -/
theorem fixed_point_gcacg_sliced_balanced {F K N D E : Nat} {a : Fin F → Fin (K+1) → Fin (D+1) → ℂ}
    {b : Fin (K+1) → Fin E → ℝ} {bin : Fin N → Fin F} {c : Fin N → Fin (K+1)} {z : Fin N → Fin (D+1) → ℂ}
    {y : Fin N → Fin E → ℝ}
    (sc : BinScene a bin c z) (hb : OrthoProtoR b)
    (hy : ∀ n d, y n d = b (c n) d) (hK : 1 ≤ K) (hF : 0 < F)
    (eigh : Tab (D+1) (Tab (D+1) ℂ) → Tab (D+1) (Tab (D+1) ℂ) × Tab (D+1) ℝ)
    (tiny floor tinyG log2pi : ℝ) (heigh : EighOn eigh tiny z) (htiny : 0 < tiny)
    (h10 : ((10 : ℕ) : ℝ) * tiny ≤ 1) (ht : tiny ≤ 1 / ((K+1 : ℕ) : ℝ)) (hf0 : 0 < floor) (hf1 : floor < 1)
    (rule : WeightRule) (tie : Tying N) (htie : tie.uniform = true) (eps : ℝ) (s : Fin N → ℝ)
    (Sb : Fin F → ℝ) (hSb : ∀ f, tiny ≤ Sb f)
    (hbalb : ∀ f k, classMass c (fun n => if bin n = f then s n else 0) k = Sb f) (hguard : tinyG ≤ ∑ f, Sb f)
    (g₀ h₀ : ℝ) (hgh : g₀ + K * h₀ = 1) (hh0 : 0 < h₀) (hlt : h₀ ≤ floor * g₀) (n : Nat) (hn : 1 ≤ n) :
    let fam := prodFamily (sliced (F := F) (cacgFamily D eigh CovNorm.eigenvalue floor tiny)) (sphFamily E tinyG log2pi)
    let yz : Fin N → (Fin F × (Fin (D+1) → ℂ)) × (Fin E → ℝ) := fun m => ((bin m, z m), y m)
    let θ := fit tiny fam rule tie eps s yz n (twoLevel c g₀ h₀)
    let g := (gLevSeq D E K floor g₀ h₀ (n-1)).1
    let h := (gLevSeq D E K floor g₀ h₀ (n-1)).2
    let v := sphVar K E g h
    (g + K * h = 1 ∧ 0 < h ∧ h ≤ floor * g)
      ∧ h < g ∧ 0 < v
      ∧ (∀ k f, Spiked (rd (θ.c k).1 f) (a f k) floor)
      ∧ (∀ k, (∀ d, rd (θ.c k).2.mean d = ∑ j, (if j = k then g else h) * b j d) ∧ (θ.c k).2.var = v)
      ∧ (∀ k j, j ≠ k → ∑ d, (rd (θ.c k).2.mean d - b k d) ^ 2 < ∑ d, (rd (θ.c k).2.mean d - b j d) ^ 2)
      ∧ ∀ obs, vargmax (fun k => eStep tiny fam θ yz k obs) = c obs :=
  GcacgSliced.fixed_point_gcacg_sliced_balanced sc hb hy hK hF eigh tiny floor tinyG log2pi heigh htiny h10 ht hf0 hf1
    rule tie htie eps s Sb hSb hbalb hguard g₀ h₀ hgh hh0 hlt n hn

end gcacg_fixed_point

end PbBss.C03

import PbBss.Props.C17Ideal
import PbBss.Proofs.PipelineLeaky
import PbBss.Proofs.PipelineLeakyEm
import PbBss.Proofs.PipelineChain
import PbBss.Proofs.PipelineChainWatson
/-! # C17 — the documented pipeline separates a separable scene

`PbBss/Props/C17Ideal.lean` (same namespace `PbBss.C17`) holds the index contract of the chain and the IDEAL-mask scene.
This file adds the masks the pipeline really uses — EM posteriors, which are not one-hot: in the balanced scene the EM
fixed-point theorems of C03 make them exactly TWO-LEVEL (`g` on the true class of a frame, `h` on every other class).

* `two_level_mask_psd`, `two_level_noise_psd`: `get_power_spectral_density_matrix` (model `psd`, floor kept as `max`) with
  two-level masks and GENERAL steering vectors returns the mass-weighted combination `Σ_j μ_kj P_j a_j a_jᴴ` of the ideal
  class PSDs; the noise PSD of target `k` is `Σ_j ν_kj P_j a_j a_jᴴ` and CONTAINS the target direction (`ν_kk`).
* `mvdr_invariant_under_target_leak`, `mvdr_leak_free_of_leaky`: the distortionless MVDR vector does not change when a
  multiple of the target's rank-one matrix is added to the noise PSD (MPDR = MVDR), in both directions.
* `leaky_mvdr_leakage_bound`, `two_level_pipeline_sir_partial`: hence the MVDR-type beamformer built from the LEAKY noise PSD
  and the true steering vector obeys the same leakage bound as with ideal masks — the target-leak term costs nothing — and
  reaches 30 dB under the same premises, the interferer powers weighted by `ν_min = min_j g/max(mass_j, floor)`.
* `em_posterior_psd`: one statement across the EM model and the pipeline model — the masks are literally
  `eStep (fit … n (hardStart c))` of the cACG mixture (any `n ≥ 1`), the PSDs are those of `psd`.

* `balanced_pipeline_chain`: ONE theorem across the three stage models (EM → alignment → PSD) — `pipelinePsd` (the composite
  of the documented chain) applied to the EM posteriors of F bins, relabelled per bin by an arbitrary permutation field,
  aligned by the greedy aligner and a global permutation: in every bin the `k`-th PSD is the two-level PSD of one true source
  `σ k` (the same in every bin), for every number of EM iterations.

Still partial (search-only clauses): the beamformer uses the TRUE steering vector (the leaky target PSD is not rank-one, so
the ATF / rank-one estimates from leaky masks are not covered), white noise enters at expectation level, masks are exactly
two-level (balanced noise-free scene), DHTV convergence from the permuted start. -/
namespace PbBss.C17
open Matrix PbBss PbBss.Pipeline PbBss.PipelineProof PbBss.Em PbBss.FixedPoint PbBss.FixedPoint.CacgChain
open scoped ComplexOrder

section leaky
variable {F K D T : Nat}

/-- **two-level masks give the mass-weighted combination of the ideal class PSDs** (general steering vectors; no
hypotheses: the floor of the mask normalisation is kept as `max`).  `ideal_mask_psd` is the case `g = 1`, `h = 0`. -/
theorem two_level_mask_psd (floor g h : ℝ) (owner : Fin T → Fin K) (s : Fin F → Fin T → ℂ)
    (a : Fin F → Fin K → Fin D → ℂ) (f : Fin F) (k : Fin K) (d e : Fin D) :
    psd floor (fun f d t => a f (owner t) d * s f t) (fun _ k t => if owner t = k then g else h) f k d e =
      ∑ j, ((muW floor g h owner k j * energy owner s f j : ℝ) : ℂ) * (a f j d * (starRingEnd ℂ) (a f j e)) :=
  PipelineProof.two_level_mask_psd floor g h owner s a f k d e

/-- the noise PSD handed to the beamformer of target `k` (sum of the other classes' PSDs): `Σ_j ν_kj P_j a_j a_jᴴ`,
`ν_kj = Σ_{i≠k} μ_ij` — it contains the target direction with coefficient `ν_kk` (`nuW_target`) -/
theorem two_level_noise_psd (floor g h : ℝ) (owner : Fin T → Fin K) (s : Fin F → Fin T → ℂ)
    (a : Fin F → Fin K → Fin D → ℂ) (f : Fin F) (k : Fin K) (d e : Fin D) :
    noiseFromPsd (psd floor (fun f d t => a f (owner t) d * s f t) (fun _ k t => if owner t = k then g else h)) f k d e =
      ∑ j, ((nuW floor g h owner k j * energy owner s f j : ℝ) : ℂ) * (a f j d * (starRingEnd ℂ) (a f j e)) :=
  PipelineProof.two_level_noise_psd floor g h owner s a f k d e

/-- **MPDR = MVDR**: adding `δ·a aᴴ` (target leakage) to the noise PSD rescales the solver value and leaves the
distortionless MVDR vector unchanged -/
theorem mvdr_invariant_under_target_leak (Φ : Matrix (Fin D) (Fin D) ℂ) (a u : Fin D → ℂ) (δ : ℂ)
    (hu : Φ *ᵥ u = a) (hδ : 1 + δ * (star a ⬝ᵥ u) ≠ 0) :
    (Φ + δ • vecMulVec a (star a)) *ᵥ ((1 + δ * (star a ⬝ᵥ u))⁻¹ • u) = a ∧
      mvdrFromSolve (α := ℝ) a ((1 + δ * (star a ⬝ᵥ u))⁻¹ • u) = mvdrFromSolve (α := ℝ) a u :=
  PipelineProof.mvdr_invariant_under_target_leak Φ a u δ hu hδ

/-- the direction the pipeline needs: the solver runs on the LEAKY matrix; its value is a multiple of a solution of the
leak-free system and gives the same MVDR vector -/
theorem mvdr_leak_free_of_leaky (Φ : Matrix (Fin D) (Fin D) ℂ) (hinj : ∀ x, Φ *ᵥ x = 0 → x = 0) (a u' : Fin D → ℂ)
    (δ : ℂ) (hu' : (Φ + δ • vecMulVec a (star a)) *ᵥ u' = a) :
    1 - δ * (star a ⬝ᵥ u') ≠ 0 ∧
      Φ *ᵥ ((1 - δ * (star a ⬝ᵥ u'))⁻¹ • u') = a ∧
      mvdrFromSolve (α := ℝ) a u' = mvdrFromSolve (α := ℝ) a ((1 - δ * (star a ⬝ᵥ u'))⁻¹ • u') :=
  PipelineProof.mvdr_leak_free_of_leaky Φ hinj a u' δ hu'

/-- **leakage bound from the leaky noise PSD**: exactly the leak-free bound (interferer powers weighted by `ν_j`) -/
theorem leaky_mvdr_leakage_bound (nu sigma eps : Fin K → ℝ) (hs : ∀ j, 0 ≤ sigma j) (hnu : ∀ j, 0 ≤ nu j)
    (he : ∀ j, 0 ≤ eps j) (a : Fin K → Fin D → ℂ) (k : Fin K) (hpos : 0 < noiseEps eps k) (u' v : Fin D → ℂ)
    (hu : (Matrix.of (leakyNoisePsd nu sigma eps a k)) *ᵥ u' = a k)
    (hv1 : star v ⬝ᵥ a k = 1) (hv0 : ∀ j, j ≠ k → star v ⬝ᵥ a j = 0) :
    outPower sigma a (mvdrFromSolve (α := ℝ) (a k) u') k = sigma k ∧
      interference (leakPow nu sigma k) a (mvdrFromSolve (α := ℝ) (a k) u') k
          + noiseEps eps k * normSq (α := ℝ) (mvdrFromSolve (α := ℝ) (a k) u')
        ≤ noiseEps eps k * normSq (α := ℝ) v :=
  PipelineProof.leaky_mvdr_leakage_bound nu sigma eps hs hnu he a k hpos u' v hu hv1 hv0

/-- **two-level-mask pipeline bound (partial: true steering vector, expectation-level white noise)**: masks `g`/`h`
(`0 < g`, `0 ≤ h`), PSDs from `psd`, noise PSD = sum of the other classes' PSDs plus `ε·1`, any beamformer that is a non-zero
multiple of the solver value on that LEAKY noise PSD with the true steering vector: output SIR (true source energies)
`≥ 1000`, i.e. 30 dB, under the premises of the ideal-mask theorem with the noise floor measured against
`ν_min · P_k`, `ν_min ≤ g / max(mass_j, floor)`. -/
theorem two_level_pipeline_sir_partial (floor g h : ℝ) (hf : 0 < floor) (hg : 0 < g) (hh : 0 ≤ h)
    (owner : Fin T → Fin K) (s : Fin F → Fin T → ℂ) (a : Fin F → Fin K → Fin D → ℂ) (eps : Fin K → ℝ)
    (he : ∀ j, 0 ≤ eps j) (f : Fin F) (k : Fin K) (hpos : 0 < noiseEps eps k) (u' v w : Fin D → ℂ) (c : ℂ)
    (hu : (Matrix.of (fun d e =>
        noiseFromPsd (psd floor (fun f d t => a f (owner t) d * s f t) (fun _ k t => if owner t = k then g else h)) f k d e
          + if d = e then ((noiseEps eps k : ℝ) : ℂ) else 0)) *ᵥ u' = a f k)
    (hw : w = fun d => c * u' d) (hc : c ≠ 0)
    (hv1 : star v ⬝ᵥ a f k = 1) (hv0 : ∀ j, j ≠ k → star v ⬝ᵥ a f j = 0)
    (numin : ℝ) (hnm : 0 < numin) (hmin : ∀ j, j ≠ k → numin ≤ g / max (maskMass g h owner j) floor)
    (hI : 0 < interference (energy owner s f) (a f) w k)
    (hfloor : noiseEps eps k ≤ 1e-4 * (numin * energy owner s f k)) (hv : normSq (α := ℝ) v ≤ 10) :
    1000 ≤ sirOut (energy owner s f) (a f) w k ∧
      30 ≤ 10 * Real.logb 10 (sirOut (energy owner s f) (a f) w k) :=
  PipelineProof.two_level_pipeline_sir_partial floor g h hf hg hh owner s a eps he f k hpos u' v w c hu hw hc hv1 hv0
    numin hnm hmin hI hfloor hv

end leaky

section em
variable {K N D : Nat} {a : Fin (K+1) → Fin (D+1) → ℂ} {c : Fin N → Fin (K+1)} {z : Fin N → Fin (D+1) → ℂ}

/-- **EM posterior → PSD, one statement across the EM model and the pipeline model**: balanced noise-free orthonormal scene,
cACG mixture fitted for ANY `n ≥ 1` iterations from the hard true partition (`Em.fit`), its E-step posterior used as the
masks of `get_power_spectral_density_matrix` (model `psd`) on the same observations: the class PSDs and the noise PSDs are
the two-level combinations with `g = E/(E+K)`, `h = 1/(E+K)`, `E = floor^{-(D+1)}`. -/
theorem em_posterior_psd (eigh : Tab (D+1) (Tab (D+1) ℂ) → Tab (D+1) (Tab (D+1) ℂ) × Tab (D+1) ℝ) (tiny floor : ℝ)
    (rule : WeightRule) (tie : Tying N) (eps : ℝ) (s : Fin N → ℝ)
    (sc : Scene a c z) (heigh : EighOn eigh tiny z) (htiny : 0 < tiny)
    (h10 : ((10 : ℕ) : ℝ) * tiny ≤ 1) (ht : tiny ≤ 1 / ((K+1 : ℕ) : ℝ)) (hf0 : 0 < floor) (hf1 : floor < 1)
    (htie : tie.uniform = true) (S : ℝ) (hS : tiny ≤ S) (hbal : ∀ k, classMass c s k = S) (n : Nat) (hn : 1 ≤ n)
    (pfloor : ℝ) (k : Fin (K+1)) (d e : Fin (D+1)) :
    let post : Fin 1 → Fin (K+1) → Fin N → ℝ := fun _ k t =>
      eStep tiny (cacgFamily D eigh CovNorm.eigenvalue floor tiny)
        (fit tiny (cacgFamily D eigh CovNorm.eigenvalue floor tiny) rule tie eps s z n (hardStart c)) z k t
    let obs : Fin 1 → Fin (D+1) → Fin N → ℂ := fun _ d t => z t d
    psd pfloor obs post 0 k d e =
        ∑ j, ((muW pfloor (cacgG K D floor) (cacgH K D floor) c k j * frames c j : ℝ) : ℂ)
          * (a j d * (starRingEnd ℂ) (a j e)) ∧
      noiseFromPsd (psd pfloor obs post) 0 k d e =
        ∑ j, ((nuW pfloor (cacgG K D floor) (cacgH K D floor) c k j * frames c j : ℝ) : ℂ)
          * (a j d * (starRingEnd ℂ) (a j e)) :=
  PipelineProof.em_posterior_psd eigh tiny floor rule tie eps s sc heigh htiny h10 ht hf0 hf1 htie S hS hbal n hn pfloor k d e

end em

section chain
variable {K N D F : Nat} {a : Fin (K+1) → Fin (D+1) → ℂ} {c : Fin N → Fin (K+1)} {z : Fin N → Fin (D+1) → ℂ}

/-- **the documented chain on the balanced scene, across the three stage models**: F frequency bins carry the balanced
noise-free scene; the cACG mixture is fitted for ANY `n ≥ 1` iterations (`Em.fit`); whatever class order each bin's model
has (`π` arbitrary — the permutation problem), the greedy aligner's mapping (alignment model) and any global permutation `g`
are applied and the masks go into `get_power_spectral_density_matrix` (`pipelinePsd` = the composite of the chain, with its
own floor kept as `max`).  Then in every bin the `k`-th PSD is the two-level PSD of ONE true source `σ k = π₀(g k)`, and the
noise PSD of target `k` is the two-level noise PSD of that source — the objects `two_level_pipeline_sir_partial` is about. -/
theorem balanced_pipeline_chain
    (eigh : Tab (D+1) (Tab (D+1) ℂ) → Tab (D+1) (Tab (D+1) ℂ) × Tab (D+1) ℝ)
    (tiny floor : ℝ) (rule : WeightRule) (tie : Tying N) (eps : ℝ) (s : Fin N → ℝ)
    (sc : Scene a c z) (heigh : EighOn eigh tiny z) (htiny : 0 < tiny)
    (h10 : ((10 : ℕ) : ℝ) * tiny ≤ 1) (ht : tiny ≤ 1 / ((K+1 : ℕ) : ℝ)) (hf0 : 0 < floor) (hf1 : floor < 1)
    (htie : tie.uniform = true) (S : ℝ) (hS : tiny ≤ S) (hbal : ∀ k, classMass c s k = S) (n : Nat) (hn : 1 ≤ n)
    (hE : 10 * (N : ℝ) ≤ ratioE D floor) (atiny : ℝ) (hat : atiny ≤ cacgG K D floor)
    (π : Fin F → Equiv.Perm (Fin (K+1))) (g : Equiv.Perm (Fin (K+1))) (pfloor : ℝ)
    (f : Fin F) (k : Fin (K+1)) (d e : Fin (D+1)) :
    let base := Align.emMask F eigh tiny floor rule tie eps s c z n
    let post : Fin F → Fin (K+1) → Fin N → ℝ := toFKT (Align.at3 (Align.permuted base π))
    let m : Fin (K+1) → Fin F → Fin (K+1) := Align.greedyAligner atiny .cos (Align.permuted base π)
    let obs : Fin F → Fin (D+1) → Fin N → ℂ := fun _ d t => z t d
    let σ : Fin (K+1) → Fin (K+1) := fun k => Align.permAtBin π 0 (g k)
    pipelinePsd pfloor obs post m g f k d e =
        ∑ j, ((muW pfloor (cacgG K D floor) (cacgH K D floor) c (σ k) j * frames c j : ℝ) : ℂ)
          * (a j d * (starRingEnd ℂ) (a j e)) ∧
      noiseFromPsd (pipelinePsd pfloor obs post m g) f k d e =
        ∑ j, ((nuW pfloor (cacgG K D floor) (cacgH K D floor) c (σ k) j * frames c j : ℝ) : ℂ)
          * (a j d * (starRingEnd ℂ) (a j e)) :=
  PipelineChain.balanced_pipeline_chain eigh tiny floor rule tie eps s sc heigh htiny h10 ht hf0 hf1 htie S hS hbal n hn hE
    atiny hat π g pfloor f k d e

/-- **the same chain for the complex Watson mixture (cWMM)**, the second spatial model of the documented pipeline: balanced
scene, start `twoLevel c g₀ h₀` (hard start: `g₀ = 1`, `h₀ = 0`), `get_pca` under its contract, the concentration map positive
above `1/(K+1)`; posterior levels `G_n = e^{κ_n}/(e^{κ_n}+K)`, `H_n = 1/(e^{κ_n}+K)` with `κ_n = kappaSeq kinv K g₀ (n-1)`;
smallness condition of the alignment domain as a hypothesis on the concentration, `log(10·N) ≤ κ_n` (the code's spline is
clipped at `max_concentration = 500`, which noise-free data reach). -/
theorem watson_balanced_pipeline_chain (sc : Scene a c z)
    (pca : Tab (D+1) (Tab (D+1) ℂ) → Tab (D+1) ℂ × ℝ)
    (hpca : PcaOn pca z) (kinv lnorm : ℝ → ℝ) (hK : 1 ≤ K)
    (hkinv : ∀ x : ℝ, 1 / ((K+1 : ℕ) : ℝ) < x → x ≤ 1 → 0 < kinv x)
    (tiny : ℝ) (htiny : 0 < tiny) (ht : tiny ≤ 1 / ((K+1 : ℕ) : ℝ)) (rule : WeightRule) (tie : Tying N)
    (htie : tie.uniform = true) (eps : ℝ) (s : Fin N → ℝ) (S : ℝ) (hS : 0 < S) (hbal : ∀ k, classMass c s k = S)
    (g₀ h₀ : ℝ) (hgh : g₀ + K * h₀ = 1) (hh0 : 0 ≤ h₀) (hlt : h₀ < g₀) (n : Nat) (hn : 1 ≤ n)
    (hκ : Real.log (10 * (N : ℝ)) ≤ kappaSeq kinv K g₀ (n-1)) (atiny : ℝ)
    (hat : atiny ≤ PipelineChainWatson.watsonG kinv K g₀ n)
    (π : Fin F → Equiv.Perm (Fin (K+1))) (g : Equiv.Perm (Fin (K+1))) (pfloor : ℝ)
    (f : Fin F) (k : Fin (K+1)) (d e : Fin (D+1)) :
    let base := PipelineChainWatson.watsonMask F pca kinv lnorm tiny rule tie eps s c z g₀ h₀ n
    let post : Fin F → Fin (K+1) → Fin N → ℝ := toFKT (Align.at3 (Align.permuted base π))
    let m : Fin (K+1) → Fin F → Fin (K+1) := Align.greedyAligner atiny .cos (Align.permuted base π)
    let obs : Fin F → Fin (D+1) → Fin N → ℂ := fun _ d t => z t d
    let σ : Fin (K+1) → Fin (K+1) := fun k => Align.permAtBin π 0 (g k)
    pipelinePsd pfloor obs post m g f k d e =
        ∑ j, ((muW pfloor (PipelineChainWatson.watsonG kinv K g₀ n) (PipelineChainWatson.watsonH kinv K g₀ n) c (σ k) j
              * frames c j : ℝ) : ℂ) * (a j d * (starRingEnd ℂ) (a j e)) ∧
      noiseFromPsd (pipelinePsd pfloor obs post m g) f k d e =
        ∑ j, ((nuW pfloor (PipelineChainWatson.watsonG kinv K g₀ n) (PipelineChainWatson.watsonH kinv K g₀ n) c (σ k) j
              * frames c j : ℝ) : ℂ) * (a j d * (starRingEnd ℂ) (a j e)) :=
  PipelineChainWatson.watson_balanced_pipeline_chain sc pca hpca kinv lnorm hK hkinv tiny htiny ht rule tie htie eps s S hS
    hbal g₀ h₀ hgh hh0 hlt n hn hκ atiny hat π g pfloor f k d e

end chain

end PbBss.C17

import PbBss.Proofs.JitterProof
import PbBss.Proofs.DhtvDomain
import PbBss.Proofs.DhtvShipped
import PbBss.Proofs.PlanProof
/-! # C16 — blind alignment restores a frequency-consistent class order

Models: `Model/Plan.lean` (`alignment_plan`), `Model/Align.lean` (`greedyAligner`, `dhtv`).  Tie to the code:
`harness/props/c16.py` (plans exhaustive and exact; mappings exact on continuous random masks).

What is a theorem: plan coverage for every configuration with `shift ≤ width`; the returned mapping is the
accumulated net reordering (DHTV and adjacent-bin chain); identity on consistent masks; the greedy aligner
restores ONE class order for every permutation field under adjacent-bin row dominance, and the stated analytic
domain (patterns with pairwise cosine ≤ 0.1, jitter ≤ 10 %) implies that dominance for the `cos` metric.
DHTV (cos / multiply): from a majority in the first segment and a two-thirds overlap of every later segment with
the already processed band, every processed bin ends in ONE class order (`dhtv_majority`, `dhtv_restores_in_domain`).
Not a theorem: the same for the `euclidean` metric (search only). -/
namespace PbBss.C16
open PbBss PbBss.Align PbBss.Plan Function

/-- the DHTV alignment plan covers every frequency bin whenever `start + width ≤ F` and `0 < shift ≤ width` -/
theorem plan_covers (c : Cfg) (hw : c.start + c.width ≤ c.F) (hs : 0 < c.shift) (hsw : c.shift ≤ c.width)
    (f : Nat) (hf : f < c.F) : ∃ seg ∈ plan c, seg.1 ≤ f ∧ f < seg.2 := Plan.plan_covers c hw hs hsw f hf

/-- the first plan entry is the main segment, stretched to the border when there is no lower/upper neighbour -/
theorem plan_segments_within (c : Cfg) :
    (plan c).head? = some (if ((rangeDown c.start c.shift).map fun s => (s, s + c.width)).isEmpty then 0 else c.start,
      if ((rangeUp (c.start + c.shift) (c.F - c.width) c.shift).map fun s => (s, s + c.width)).isEmpty then c.F
      else c.start + c.width) := by
  simp [plan]

section net
variable {α : Type} [Field α] [LinearOrder α] [Transc α] {K F T : Nat}

/-- DHTV: the returned mapping is a per-bin permutation and is exactly the net reordering the procedure
applied: the converged features are `apply_mapping(start features, mapping)` — for EVERY mask, plan, metric
and assignment algorithm -/
theorem dhtv_net_reordering (tiny : α) (metric : Metric) (algo : Algo) (plan : List (Nat × Nat × Nat))
    (mask : Tab3 K F T α) :
    (∀ f, Bijective fun k => at2 (dhtv tiny metric algo plan mask).mapping k f) ∧
    ∀ k f t, at3 (dhtv tiny metric algo plan mask).features k f t =
      applyMapping (fun k f => at3 (dhtvStart tiny metric mask) k f)
        (at2 (dhtv tiny metric algo plan mask).mapping) k f t :=
  dhtv_inv tiny metric algo plan mask

/-- adjacent-bin aligner: identity at bin 0, then `mapping[:, f] = a_f[mapping[:, f-1]]` with `a_f` the
greedy assignment between bins `f` and `f-1` — the chain of adjacent-bin assignments -/
theorem greedyAligner_net (tiny : α) (metric : Metric) (mask : Tab3 K F T α) (k : Fin K) :
    (∀ h0 : 0 < F, greedyAligner tiny metric mask k ⟨0, h0⟩ = k) ∧
    ∀ (f : Nat) (hf : f + 1 < F),
      greedyAligner tiny metric mask k ⟨f + 1, hf⟩ =
        at1 (adjacentAssign tiny metric mask (f + 1)) (greedyAligner tiny metric mask k ⟨f, by omega⟩) :=
  ⟨fun _ => rfl, fun _ _ => rfl⟩
end net

section restore
variable {α : Type} [Field α] [LinearOrder α] [IsStrictOrderedRing α] [Transc α] {K F T : Nat}

/-- an already consistent mask (adjacent-bin row dominant) is returned unchanged: identity mapping -/
theorem consistent_identity (tiny : α) (metric : Metric) (base : Tab3 K F T α)
    (hdom : AdjacentDominant tiny metric base) (k : Fin K) (f : Fin F) :
    greedyAligner tiny metric base k f = k := greedyAligner_identity tiny metric base hdom k f

/-- **greedy aligner**: for EVERY per-frequency permutation field `π` of an adjacent-bin row-dominant mask the
aligned mask has the same class order (`π₀`) in every bin -/
theorem greedyAligner_restores (tiny : α) (metric : Metric) (base : Tab3 K F T α)
    (π : Fin F → Equiv.Perm (Fin K)) (hdom : AdjacentDominant tiny metric base) (k : Fin K) (f : Fin F) (t : Fin T) :
    applyMapping (at3 (permuted base π)) (greedyAligner tiny metric (permuted base π)) k f t
      = at3 base (permAtBin π 0 k) f t := greedyAligner_restores_aux tiny metric base π hdom k f t

/-- DHTV leaves a mask untouched (identity mapping, features unchanged) when every bin of every plan segment is
row dominant at the identity against the segment centroid -/
theorem dhtv_identity_on_dominant (tiny : α) (metric : Metric) (algo : Algo) (plan : List (Nat × Nat × Nat))
    (mask : Tab3 K F T α)
    (hdom : ∀ seg ∈ plan, ∀ f : Fin F, seg.2.1 ≤ f.val → f.val < seg.2.2 → ∀ i j : Fin K, j ≠ i →
      score tiny (if metric == .cos then Metric.multiply else metric)
          (fun k => at3 (dhtvStart tiny metric mask) k f)
          (at2 (tab2 (if metric == .cos then fun k => vecNormalize tiny (centroid (dhtvStart tiny metric mask) seg.2.1 seg.2.2 k)
            else centroid (dhtvStart tiny metric mask) seg.2.1 seg.2.2))) i j
        < score tiny (if metric == .cos then Metric.multiply else metric)
          (fun k => at3 (dhtvStart tiny metric mask) k f)
          (at2 (tab2 (if metric == .cos then fun k => vecNormalize tiny (centroid (dhtvStart tiny metric mask) seg.2.1 seg.2.2 k)
            else centroid (dhtvStart tiny metric mask) seg.2.1 seg.2.2))) i i) :
    dhtv tiny metric algo plan mask = ⟨dhtvStart tiny metric mask, tab2 fun k _ => k⟩ := by
  unfold dhtv
  have hstart : (if (metric == Metric.cos) = true then tab3 (fun k f => vecNormalize tiny (at3 mask k f)) else mask)
      = dhtvStart tiny metric mask := rfl
  simp only [hstart]
  generalize hs0 : (⟨dhtvStart tiny metric mask, tab2 fun k _ => k⟩ : St K F T α) = s0
  have hfeat : s0.features = dhtvStart tiny metric mask := by rw [← hs0]
  clear hs0
  induction plan with
  | nil => rfl
  | cons seg plan ih =>
    simp only [List.foldl_cons]
    have hpass : segmentPass (metric == .cos) (if (metric == .cos) = true then Metric.multiply else metric)
        tiny algo seg.2.1 seg.2.2 s0 = (s0, false) := by
      apply segmentPass_id
      intro f h1 h2
      rw [hfeat]
      exact assign_row_dominant algo _ id bijective_id
        (fun i j hj => hdom seg (by simp) f h1 h2 i j hj)
    rw [segmentIter_id _ _ _ _ _ _ _ hpass]
    exact ih (fun seg' hseg' => hdom seg' (List.mem_cons_of_mem _ hseg'))
end restore

/-- the analytic domain of the property implies the dominance hypothesis (cos metric): non-negative activity
patterns with pairwise cosine ≤ 0.1 and per-bin multiplicative jitter ≤ 10 % -/
theorem jitter_cos_dominant {K F T : Nat} (tiny : ℝ) (pat : Fin K → Fin T → ℝ) (base : Tab3 K F T ℝ)
    (hpat : ∀ k t, 0 ≤ pat k t) (hn : ∀ k, 0 < nrm (pat k))
    (hcos : ∀ k k', k' ≠ k → (∑ t, pat k' t * pat k t) ≤ 0.1 * (nrm (pat k') * nrm (pat k)))
    (hj1 : ∀ k f t, 0.9 * pat k t ≤ at3 base k f t) (hj2 : ∀ k f t, at3 base k f t ≤ 1.1 * pat k t)
    (ht : ∀ k f, tiny ≤ nrm (fun t => at3 base k f t)) :
    AdjacentDominant tiny .cos base := jitter_adjacent_dominant tiny pat base hpat hn hcos hj1 hj2 ht

/-- corollary: in the stated domain the greedy aligner (cos) returns one class order for every permutation field -/
theorem greedyAligner_consistent_in_domain {K F T : Nat} (tiny : ℝ) (pat : Fin K → Fin T → ℝ) (base : Tab3 K F T ℝ)
    (hpat : ∀ k t, 0 ≤ pat k t) (hn : ∀ k, 0 < nrm (pat k))
    (hcos : ∀ k k', k' ≠ k → (∑ t, pat k' t * pat k t) ≤ 0.1 * (nrm (pat k') * nrm (pat k)))
    (hj1 : ∀ k f t, 0.9 * pat k t ≤ at3 base k f t) (hj2 : ∀ k f t, at3 base k f t ≤ 1.1 * pat k t)
    (ht : ∀ k f, tiny ≤ nrm (fun t => at3 base k f t)) (π : Fin F → Equiv.Perm (Fin K)) (k : Fin K) (f : Fin F) (t : Fin T) :
    applyMapping (at3 (permuted base π)) (greedyAligner tiny .cos (permuted base π)) k f t
      = at3 base (permAtBin π 0 k) f t :=
  greedyAligner_restores tiny .cos base π (jitter_cos_dominant tiny pat base hpat hn hcos hj1 hj2 ht) k f t

/-! ### DHTV from a first-segment majority -/

/-- **DHTV, abstract form** (metrics `cos`, `multiply`; any assignment algorithm; any plan): class patterns `G` with
same-class inner products ≥ a, different-class ≤ b, all in [0,1]; start features in the per-bin orders `π`; the bins
`Al₀` share the order `σ₀`; every plan segment has ≥ 1 pass and `|S| < |aligned ∩ S| · (a − b + 1)` (`PlanOk`).
Then in every bin of `Al₀` and of every plan segment the converged features are the patterns in the order `σ₀`. -/
theorem dhtv_majority {K F T : Nat} (G : Fin K → Fin F → Fin T → ℝ) (a b : ℝ) (hG : PatHyp G a b)
    (tiny : ℝ) (ht : 0 < tiny) (metric : Metric) (hm : metric = .cos ∨ metric = .multiply) (algo : Algo)
    (plan : List (Nat × Nat × Nat)) (mask : Tab3 K F T ℝ) (π : Fin F → Equiv.Perm (Fin K))
    (σ0 : Equiv.Perm (Fin K)) (Al0 : Finset (Fin F))
    (hstart : GlobalState G (dhtvStart tiny metric mask) π) (hAl : ∀ g ∈ Al0, π g = σ0)
    (hplan : PlanOk F a b plan Al0) :
    ∀ f ∈ alignedAfter F plan Al0, ∀ k t, at3 (dhtv tiny metric algo plan mask).features k f t = G (σ0 k) f t :=
  Align.dhtv_majority G a b hG tiny ht metric hm algo plan mask π σ0 Al0 hstart hAl hplan

/-- the per-segment hypothesis holds whenever at least two thirds of the segment's `n` bins are aligned (`m` of them),
for the constants of the jitter domain — 70 % in the first segment is more than that -/
theorem planOk_step_of_two_thirds (n m : Nat) (hn : 0 < n) (h : 2 * n ≤ 3 * m) :
    (n : ℝ) < m * ((0.81 / 1.21 : ℝ) - 1.21 / 0.81 * 0.1 + 1) := Align.planOk_step_of_two_thirds n m hn h

/-- **DHTV in the stated domain** (`cos` metric): a per-frequency permutation `π` of a consistent mask whose class
patterns are non-negative with pairwise cosine ≤ 0.1 and jitter ≤ 10 %; a set `Al₀` of bins sharing the order `σ₀`;
a plan satisfying `PlanOk` for the domain constants.  Then the aligned mask has the order `σ₀` in every bin of
`alignedAfter` (= `Al₀` and every plan segment; all bins when the plan covers them, `plan_covers`), and the net
reordering `π_f ∘ mapping[:, f]` is the constant `σ₀`. -/
theorem dhtv_restores_in_domain {K F T : Nat} (tiny : ℝ) (ht : 0 < tiny) (pat : Fin K → Fin T → ℝ)
    (base : Tab3 K F T ℝ) (hpat : ∀ k t, 0 ≤ pat k t) (hn : ∀ k, 0 < nrm (pat k))
    (hcos : ∀ k k', k' ≠ k → (∑ t, pat k' t * pat k t) ≤ 0.1 * (nrm (pat k') * nrm (pat k)))
    (hj1 : ∀ k f t, 0.9 * pat k t ≤ at3 base k f t) (hj2 : ∀ k f t, at3 base k f t ≤ 1.1 * pat k t)
    (htn : ∀ k f, tiny ≤ nrm (fun t => at3 base k f t))
    (algo : Algo) (plan : List (Nat × Nat × Nat)) (π : Fin F → Equiv.Perm (Fin K)) (σ0 : Equiv.Perm (Fin K))
    (Al0 : Finset (Fin F)) (hAl : ∀ g ∈ Al0, π g = σ0)
    (hplan : PlanOk F (0.81 / 1.21) (1.21 / 0.81 * 0.1) plan Al0) :
    ∀ f ∈ alignedAfter F plan Al0, ∀ k,
      (∀ t, at3 (dhtv tiny .cos algo plan (permuted base π)).features k f t = normRows tiny base (σ0 k) f t) ∧
      π f (at2 (dhtv tiny .cos algo plan (permuted base π)).mapping k f) = σ0 k := by
  have hG := patHyp_of_jitter tiny ht pat base hpat hn hcos hj1 hj2 htn
  have hmain := Align.dhtv_majority (normRows tiny base) _ _ hG tiny ht .cos (Or.inl rfl) algo plan
    (permuted base π) π σ0 Al0 (globalState_start_cos tiny base π) hAl hplan
  intro f hf k
  refine ⟨hmain f hf k, ?_⟩
  -- the converged features are also the start features reordered by the mapping
  have hinv := (dhtv_inv tiny .cos algo plan (permuted base π)).2 k f
  have hstart := globalState_start_cos tiny base π
  set m := at2 (dhtv tiny .cos algo plan (permuted base π)).mapping k f with hmdef
  have hrows : normRows tiny base (π f m) f = normRows tiny base (σ0 k) f := by
    funext t
    rw [← hstart f m t, ← hinv t, hmain f hf k t]
  -- different classes have different normalised rows (same-class inner product ≥ a > b ≥ different-class)
  by_contra hne
  have h1 := hG.same (σ0 k) f f
  have h2 := hG.diff (π f m) (σ0 k) f f hne
  rw [hrows] at h2
  norm_num at h1 h2
  linarith

/-- the premise holds for a plan whose first segment is `[lo₀, hi₀)` with `n₀` bins as soon as at least 70 % of
those bins form the majority `Al₀` and the Boolean overlap check `planOkB` passes for the remaining segments -/
theorem planOk_of_first_majority {F : Nat} (it lo hi n0 : Nat) (rest : List (Nat × Nat × Nat))
    (hit : 0 < it) (hlen : (segBins F lo hi).length = n0) (hn0 : 0 < n0)
    (hrest : planOkB F rest (fun f => decide (lo ≤ f.val ∧ f.val < hi)) = true)
    (Al0 : Finset (Fin F)) (hsub : Al0 ⊆ segSet F lo hi) (hmaj : 7 * n0 ≤ 10 * Al0.card) :
    PlanOk F (0.81 / 1.21) (1.21 / 0.81 * 0.1) ((it, lo, hi) :: rest) Al0 := by
  refine ⟨hit, ?_, ?_⟩
  · show ((segSet F lo hi).card : ℝ) < _
    rw [Finset.inter_eq_left.mpr hsub, ← segBins_length_eq_card, hlen]
    exact Align.planOk_step_of_two_thirds n0 Al0.card hn0 (by omega)
  · apply planOk_mono F _ _ (by norm_num) rest (segSet F lo hi) _ Finset.subset_union_right
    exact planOkB_sound F rest _ _ (fun f => by simp [mem_segSet]) hrest

/-- **shipped default, STFT size 512** (F = 257): if at least 70 of the 100 bins of the first segment share one
order, the overlap premise holds for the whole plan and every bin ends up processed -/
theorem shipped_512_planOk (Al0 : Finset (Fin 257)) (hsub : Al0 ⊆ segSet 257 70 170) (hmaj : 70 ≤ Al0.card) :
    PlanOk 257 (0.81 / 1.21) (1.21 / 0.81 * 0.1) plan512 Al0 ∧ ∀ f, f ∈ alignedAfter 257 plan512 Al0 := by
  refine ⟨?_, fun f => coversB_sound 257 plan512 Al0 plan512_covers f⟩
  rw [plan512_head]
  exact planOk_of_first_majority 20 70 170 100 _ (by decide) len_seg_512 (by decide) plan512_tail_ok Al0 hsub
    (by omega)

/-- **shipped default, STFT size 1024** (F = 513) -/
theorem shipped_1024_planOk (Al0 : Finset (Fin 513)) (hsub : Al0 ⊆ segSet 513 100 200) (hmaj : 70 ≤ Al0.card) :
    PlanOk 513 (0.81 / 1.21) (1.21 / 0.81 * 0.1) plan1024 Al0 ∧ ∀ f, f ∈ alignedAfter 513 plan1024 Al0 := by
  refine ⟨?_, fun f => coversB_sound 513 plan1024 Al0 plan1024_covers f⟩
  rw [plan1024_head]
  exact planOk_of_first_majority 20 100 200 100 _ (by decide) len_seg_1024 (by decide) plan1024_tail_ok Al0 hsub
    (by omega)

/-- the plan the theorems talk about is the documented one of `from_stft_size(512)` -/
theorem shipped_512_plan : plan512 = [(20, 70, 170), (2, 90, 190), (2, 50, 150), (2, 110, 210), (2, 30, 130),
    (2, 130, 230), (2, 0, 110), (2, 150, 257)] := plan512_eq

/-! ### non-vacuity: the shipped 512 default satisfies the plan hypotheses and is covered -/
example : (⟨257, 70, 100, 20⟩ : Cfg).start + (⟨257, 70, 100, 20⟩ : Cfg).width ≤ 257 ∧ (0:Nat) < 20 ∧ 20 ≤ 100 := by decide
example : plan ⟨257, 70, 100, 20⟩ =
    [(70, 170), (90, 190), (50, 150), (110, 210), (30, 130), (130, 230), (0, 110), (150, 257)] := by decide
example : (plan ⟨513, 100, 100, 20⟩).length = 20 := by decide

end PbBss.C16

import PbBss.Proofs.TrainersProof
/-! # C09 — fitted parameters stay inside their documented domain

Statements only (helper lemmas: `PbBss/Proofs/TrainersProof.lean`; model `PbBss/Model/Trainers.lean`).
Everything here is about the ℝ/ℂ interpretation; NaN/overflow freedom on extreme magnitudes is searched on the real
code (`harness/props/c09.py`), not proved.  Hypotheses such as `tiny ≤ λ_max` are forced by the proofs: the excluded
point (a class whose weighted scatter is exactly zero) is where the real code leaves the domain (known finding
`cacg-zero-scatter`). -/
namespace PbBss.C09
open PbBss PbBss.Align PbBss.Trainers Finset
open scoped ComplexOrder

section cacg
variable {D : Nat}

/-- `covariance_norm='eigenvalue'`: every stored eigenvalue lies in `[floor, 1]` and the maximum is `1`,
provided the largest eigenvalue of the scatter is at least `tiny` -/
theorem cacg_eigs_range (tiny floor : ℝ) (lam : Fin (D+1) → ℝ)
    (hmax : tiny ≤ vmax lam) (ht : 0 < tiny) (hf : 0 < floor ∧ floor ≤ 1) :
    (∀ i, floor ≤ cacgEigsEigenvalue tiny floor lam i ∧ cacgEigsEigenvalue tiny floor lam i ≤ 1) ∧
    ∃ i, cacgEigsEigenvalue tiny floor lam i = 1 :=
  cacgEigsEigenvalue_range tiny floor lam hmax ht hf.2

/-- the same through `from_covariance` (whatever `eigh` returns) -/
theorem cacg_eigs_range_fromCovariance (tiny floor : ℝ) (eigh : (Fin (D+1) → Fin (D+1) → ℂ) → Eig ℝ ℂ (D+1))
    (c : Fin (D+1) → Fin (D+1) → ℂ) (hmax : tiny ≤ vmax (eigh c).vals) (ht : 0 < tiny) (hf : 0 < floor ∧ floor ≤ 1) :
    let m := fromCovariance .eigenvalue tiny floor eigh c
    (∀ i, floor ≤ m.vals i ∧ m.vals i ≤ 1) ∧ (∃ i, m.vals i = 1) ∧ m.vecs = (eigh c).vecs :=
  ⟨(cacgEigsEigenvalue_range tiny floor _ hmax ht hf.2).1, (cacgEigsEigenvalue_range tiny floor _ hmax ht hf.2).2, rfl⟩

/-- `covariance_norm='trace'`: the matrix handed to `eigh` has unit trace (`tr ≥ tiny`, real for a Hermitian
scatter); the stored eigenvalues are `≥ floor·λ_max`, `≥ tiny > 0`, and sum to `1` up to flooring:
`1 ≤ Σ e ≤ 1 + (D+1)·max(λ_max·floor, tiny)` (spectrum `λ ≥ 0`, `Σ λ = 1` by the `eigh` contract, `eig_trace`) -/
theorem cacg_trace_norm (tiny floor t : ℝ) (ht : 0 < tiny) (c : Fin (D+1) → Fin (D+1) → ℂ)
    (htr : ∑ d, c d d = (t : ℂ)) (htt : tiny < t) (lam : Fin (D+1) → ℝ) :
    (∑ d, c d d / cxMax (α := ℝ) (vsum fun d => c d d) (CxOps.ofReal tiny) = 1) ∧
    (∀ i, lam i ≤ cacgEigsRelative tiny floor lam i ∧ vmax lam * floor ≤ cacgEigsRelative tiny floor lam i ∧
      0 < cacgEigsRelative tiny floor lam i) ∧
    ((∀ i, 0 ≤ lam i) → ∑ i, lam i = 1 →
      1 ≤ ∑ i, cacgEigsRelative tiny floor lam i ∧
      ∑ i, cacgEigsRelative tiny floor lam i ≤ 1 + (D + 1 : ℕ) * max (vmax lam * floor) tiny) := by
  refine ⟨trace_normalised tiny t c htr htt ht, fun i => ?_, fun h0 h1 => cacgEigsRelative_trace tiny floor ht lam h0 h1⟩
  have := cacgEigsRelative_ge tiny floor lam i
  exact ⟨this.1, this.2.1, lt_of_lt_of_le ht this.2.2⟩

/-- trace of a matrix = sum of the eigenvalues `eigh` returns for it (used above) -/
theorem cacg_trace_is_eigsum {n : Nat} {A : Fin n → Fin n → ℂ} {E : Eig ℝ ℂ n} (h : EighContract A E) :
    ∑ d, A d d = ((∑ i, E.vals i : ℝ) : ℂ) := eig_trace h

/-- the stored covariance `U diag(e) Uᴴ` is Hermitian positive definite (unitary `U`, all `e i > 0`) -/
theorem cacg_cov_posdef {n : Nat} (m : Eig ℝ ℂ n)
    (horth : ∀ i j, ∑ d, (starRingEnd ℂ) (m.vecs d i) * m.vecs d j = if i = j then 1 else 0)
    (hpos : ∀ i, 0 < m.vals i) : (Matrix.of (eigCovariance m)).PosDef :=
  eigCovariance_posDef m horth hpos

/-- in particular after `from_covariance` with a positive floor (both eigenvalue rules) -/
theorem cacg_fromCovariance_posdef (norm : CovNorm) (tiny floor : ℝ)
    (eigh : (Fin (D+1) → Fin (D+1) → ℂ) → Eig ℝ ℂ (D+1)) (c : Fin (D+1) → Fin (D+1) → ℂ) (ht : 0 < tiny) (hf : 0 < floor)
    (horth : ∀ c' : Fin (D+1) → Fin (D+1) → ℂ, ∀ i j,
      ∑ d, (starRingEnd ℂ) ((eigh c').vecs d i) * (eigh c').vecs d j = if i = j then 1 else 0) :
    (Matrix.of (eigCovariance (fromCovariance norm tiny floor eigh c))).PosDef := by
  apply eigCovariance_posDef
  · cases norm <;> exact horth _
  · intro i
    cases norm
    · exact lt_of_lt_of_le hf (le_max_right _ _)
    · exact lt_of_lt_of_le ht (cacgEigsRelative_ge tiny floor _ i).2.2
    · exact lt_of_lt_of_le ht (cacgEigsRelative_ge tiny floor _ i).2.2
end cacg

section weights
variable {F K T : Nat}

/-- mixture weights lie on the simplex: non-negative, summing to one over the classes — exactly for normalised
affiliations (`δ = 0`), up to `δ = K·eps` when the affiliations were clipped to `[eps, 1-eps]`.  Constancy along the
tied axes is by construction (the weight is not a function of the tied index). -/
theorem weight_simplex (aff : Fin K → Fin T → ℝ) (hT : 0 < T) (h0 : ∀ k t, 0 ≤ aff k t)
    (δ : ℝ) (h1 : ∀ t, |∑ k, aff k t - 1| ≤ δ) :
    (∀ k, 0 ≤ weightMeanT aff k) ∧ |∑ k, weightMeanT aff k - 1| ≤ δ :=
  weightMeanT_simplex aff hT h0 δ h1

/-- saliency path (`_unit_norm(..., ord=1, eps_style='where')`) and integration models (`/ max(sum, tiny)`):
exactly on the simplex whenever the tied sums have positive total -/
theorem weight_simplex_renormalised (eps tiny : ℝ) (S : Fin K → ℝ) (hS : ∀ k, 0 ≤ S k) :
    (0 < ∑ k, S k → (∀ k, 0 ≤ l1Where eps S k) ∧ ∑ k, l1Where eps S k = 1) ∧
    (0 < tiny → tiny ≤ ∑ k, S k → (∀ k, 0 ≤ l1Plain tiny S k) ∧ ∑ k, l1Plain tiny S k = 1) :=
  ⟨fun hp => ⟨(l1Where_sum_one eps S hS hp).1, (l1Where_sum_one eps S hS hp).2.1⟩,
   fun ht hp => l1Plain_sum_one tiny S hS ht hp⟩

/-- tied over the classes: `1/K` each -/
theorem weight_simplex_uniform (hK : 0 < K) :
    (∀ k : Fin K, 0 ≤ weightUniform (α := ℝ) K k) ∧ ∑ k : Fin K, weightUniform (α := ℝ) K k = 1 := by
  have : (0 : ℝ) < K := by exact_mod_cast hK
  constructor
  · intro k; simp only [weightUniform]; positivity
  · simp only [weightUniform, Finset.sum_const, Finset.card_univ, Fintype.card_fin, nsmul_eq_mul]
    field_simp
end weights

section modes
variable {N D : Nat}

/-- vMF mean has unit norm whenever the weighted resultant is at least `tiny` long -/
theorem vmf_mean_unit (tiny : ℝ) (ht : 0 < tiny) (r : Fin D → ℝ) (hr : tiny ≤ vecNorm r) :
    ∑ d, vmfMean tiny r d ^ 2 = 1 := vmfMean_unit tiny ht r hr

/-- Watson mode has unit norm (it is a column of the unitary `eigh` output) -/
theorem watson_mode_unit (yLo yHi maxc : ℝ) (spl : ℝ → ℝ)
    (eigh : (Fin (D+1) → Fin (D+1) → ℂ) → Eig ℝ ℂ (D+1)) (sal : Option (Fin N → ℝ)) (z : Fin N → Fin (D+1) → ℂ)
    (hc : EighContract (scatterPlain sal z) (eigh (scatterPlain sal z))) :
    ∑ d, (starRingEnd ℂ) ((watsonFit yLo yHi maxc spl eigh sal z).1 d) * (watsonFit yLo yHi maxc spl eigh sal z).1 d = 1 :=
  (watsonFit_spec yLo yHi maxc spl eigh sal z hc).2.1

/-- concentrations stay within their configured bounds: vMF in `[min, max]` (any data, any saliency), Watson in
`[0, max]` as soon as the interpolant does inside its table -/
theorem concentration_bounds (tiny lo hi : ℝ) (hlh : lo ≤ hi) (sal : Option (Fin N → ℝ)) (y : Fin N → Fin D → ℝ)
    (yLo yHi maxc : ℝ) (spl : ℝ → ℝ) (lam : ℝ) (hm : 0 ≤ maxc) (hs : 0 ≤ spl lam ∧ spl lam ≤ maxc) :
    (lo ≤ (vmfFit tiny lo hi sal y).2 ∧ (vmfFit tiny lo hi sal y).2 ≤ hi) ∧
    (0 ≤ watsonConcentration yLo yHi maxc spl lam ∧ watsonConcentration yLo yHi maxc spl lam ≤ maxc) :=
  ⟨clip_mem _ lo hi hlh, watsonConcentration_range yLo yHi maxc spl lam hm hs⟩
end modes

section gaussian
variable {N D : Nat}

/-- Gaussian covariance: symmetric, positive semidefinite, and positive definite iff no non-zero direction is
orthogonal to every positively weighted centred observation (i.e. those observations span ℝ^D) -/
theorem gaussian_cov_psd (tiny : ℝ) (sal : Option (Fin N → ℝ)) (y : Fin N → Fin D → ℝ)
    (hw : ∀ n, 0 ≤ wOf sal n) (hden : 0 < denFloor tiny sal) :
    (∀ d e, gaussCovFull tiny sal y d e = gaussCovFull tiny sal y e d) ∧
    (∀ v : Fin D → ℝ, 0 ≤ ∑ d, ∑ e, v d * gaussCovFull tiny sal y d e * v e) ∧
    ((∀ v : Fin D → ℝ, v ≠ 0 → 0 < ∑ d, ∑ e, v d * gaussCovFull tiny sal y d e * v e) ↔
      (∀ v : Fin D → ℝ, v ≠ 0 → ∃ n, 0 < wOf sal n ∧ ∑ d, v d * (y n d - gaussMean tiny sal y d) ≠ 0)) :=
  ⟨gaussCovFull_symm tiny sal y, gaussCovFull_psd tiny sal y hw hden, gaussCovFull_posDef_iff tiny sal y hw hden⟩

/-- diagonal and spherical covariance types: non-negative variances (positive as soon as one positively weighted
observation differs from the mean in that coordinate — the code rejects the zero case with a `ValueError`) -/
theorem gaussian_var_nonneg (tiny : ℝ) (sal : Option (Fin N → ℝ)) (y : Fin N → Fin D → ℝ)
    (hw : ∀ n, 0 ≤ wOf sal n) (hden : 0 < denFloor tiny sal) :
    (∀ d, 0 ≤ gaussCovDiag tiny sal y d) ∧ 0 ≤ gaussCovSph tiny sal y := by
  have hd : ∀ d, 0 ≤ gaussCovFull tiny sal y d d := by
    intro d
    rw [gaussCovFull_eq]
    refine div_nonneg (Finset.sum_nonneg fun n _ => ?_) hden.le
    rw [mul_assoc]; exact mul_nonneg (hw n) (mul_self_nonneg _)
  refine ⟨fun d => by rw [gaussCovDiag_eq]; exact hd d, ?_⟩
  rw [gaussCovSph_eq]
  exact div_nonneg (Finset.sum_nonneg fun d _ => hd d) (Nat.cast_nonneg _)
end gaussian

section bingham
variable {D : Nat}

/-- complex Bingham eigenvalues from the bounds contract of the solver (`x j ≤ 0`: differences in
`[-max_concentration, -1e-8]`).  `max_concentration = inf`: all `≤ 0`, ascending, the last one exactly `0`.
Finite `max_concentration = m`: all `≥ -m`, and when the clipped values are at least `eps` apart the second
de-duplication is the identity, so they are `≤ 0` with maximum `0`; in general the last one is `≥ 0` (clipped
duplicates are re-spaced upwards by `eps`: known finding `bingham-eigenvalue-positive`). -/
theorem bingham_eigs (eps m : ℝ) (heps : 0 ≤ eps) (hm : 0 ≤ m) (x : Fin D → ℝ) (hx : ∀ j, x j ≤ 0) :
    ((∀ i, binghamPost eps none x i ≤ 0) ∧ binghamPost eps none x (Fin.last D) = 0 ∧
      ∀ i j, i ≤ j → binghamPost eps none x i ≤ binghamPost eps none x j) ∧
    ((∀ i, -m ≤ binghamPost eps (some m) x i) ∧ 0 ≤ binghamPost eps (some m) x (Fin.last D) ∧
      ((∀ i : Fin D, eps ≤ max (binghamEst x i.succ) (-m) - max (binghamEst x i.castSucc) (-m)) →
        (∀ i, binghamPost eps (some m) x i ≤ 0) ∧ binghamPost eps (some m) x (Fin.last D) = 0)) := by
  have hfun : at1 (tab1 (binghamEst x)) = binghamEst x := by funext i; simp
  refine ⟨⟨binghamEst_nonpos x hx, binghamEst_last x, binghamEst_mono x hx⟩, ?_, ?_, ?_⟩
  · intro i
    simp only [binghamPost, hfun]
    have := removeDup_first_le eps heps (fun i => max (binghamEst x i) (-m)) i
    exact le_trans (le_max_right (binghamEst x 0) (-m)) this
  · simp only [binghamPost, hfun]
    refine le_trans ?_ (removeDup_ge eps _ (Fin.last D))
    rw [binghamEst_last]; exact le_max_left _ _
  · intro hgap
    simp only [binghamPost, hfun]
    have hid := removeDup_id eps (fun i => max (binghamEst x i) (-m)) hgap
    refine ⟨fun i => ?_, ?_⟩
    · rw [hid]; exact max_le (binghamEst_nonpos x hx i) (by linarith)
    · rw [hid, binghamEst_last]; exact max_eq_left (by linarith)
end bingham

/-! ### non-vacuity -/
example : ∃ i, cacgEigsEigenvalue (D := 1) (1 / 1000 : ℝ) (1 / 10) ![1, 2] i = 1 :=
  (cacg_eigs_range (1 / 1000) (1 / 10) ![1, 2] (by
    have := vmax_ge (![1, 2] : Fin 2 → ℝ) 1
    simp at this; linarith) (by norm_num) ⟨by norm_num, by norm_num⟩).2
example : ∑ k : Fin 4, weightUniform (α := ℝ) 4 k = 1 := (weight_simplex_uniform (by norm_num)).2
example : binghamPost (1 / 100 : ℝ) none ![-2, -1] (Fin.last 2) = 0 :=
  (bingham_eigs (1 / 100) 5 (by norm_num) (by norm_num) ![-2, -1] (by intro j; fin_cases j <;> simp)).1.2.1

end PbBss.C09

import PbBss.Proofs.TensorProof
/-! # C06 — leading (frequency/batch) axes are independent problems -/
namespace PbBss.C06
open PbBss PbBss.Tensor

variable {α β γ : Type}

/-- elementwise operations with NumPy broadcasting act slice by slice -/
theorem zipWith_slices (f : α → β → γ) (a : T α) (b : T β) (c : Nat) (lead : List Nat)
    (ha : c ≤ a.rank) (hb : c ≤ b.rank) :
    fixLead (zipWith f a b) c lead = zipWith f (fixLead a c lead) (fixLead b c lead) :=
  zipWith_fixLead f a b c lead ha hb

end PbBss.C06

import PbBss.Proofs.EmSlices
import PbBss.Proofs.TensorProof
import PbBss.Proofs.TensorEmProof
/-! # C06 — leading (frequency/batch) axes are independent problems

Statements only (proofs: `PbBss/Proofs/TensorProof.lean`; model: `PbBss/Model/Tensor.lean`).

A tensor is `⟨rshape, get⟩` with REVERSED shape and REVERSED multi-index (head = last NumPy axis).
`fixLead t c lead` is the NumPy slice `t[lead]` that keeps the last `c` axes (`lead` reversed; a leading axis
of size 1 is read at 0 — NumPy broadcasting).  "Leading axes are independent problems" is, for a
function `f` of core rank `c`,

    fixLead (f x) c' lead = f (fixLead x c lead)        for every leading index `lead`.

Section 1 proves this for every primitive addressed from the END of the shape, section 2 for the
tensor-layer transcriptions of pb_bss functions (which are compositions of those primitives, tied to
`/repo` by the element-wise correspondence run of `harness/props/c06.py` on full stacked arrays),
section 3 for singleton leading axes, section 4 gives the two counter-witnesses (non-negative axis,
missing reshape-back).  Everything is structural: no property of the scalar type is used, so the
statements hold verbatim for the `Float` instance the driver executes.

The rank hypotheses (`c ≤ t.rank`) say that an operand really has the `c` core axes the function
addresses (NumPy would raise otherwise); `ValidLead dims lead` says the leading index is in range on
every non-singleton leading axis. -/
set_option linter.unusedSectionVars false
namespace PbBss.C06
open PbBss PbBss.Tensor

variable {α β γ : Type}

/-! ## 1. primitives addressed by negative axes -/

/-- elementwise unary operations (and operations with a Python scalar) act slice by slice -/
theorem map_slices (f : α → β) (t : T α) (c : Nat) (lead : List Nat) :
    fixLead (map f t) c lead = map f (fixLead t c lead) := map_fixLead f t c lead

/-- elementwise binary operations with NumPy broadcasting act slice by slice; an operand whose leading
axes are singletons or missing is read as if it were repeated -/
theorem zipWith_slices (f : α → β → γ) (a : T α) (b : T β) (c : Nat) (lead : List Nat)
    (ha : c ≤ a.rank) (hb : c ≤ b.rank) :
    fixLead (zipWith f a b) c lead = zipWith f (fixLead a c lead) (fixLead b c lead) :=
  zipWith_fixLead f a b c lead ha hb

/-- `np.sum / np.mean / np.amax(…, axis=-(k+1), keepdims=True)` (any fold `r`), `k < c` -/
theorem reduceKeep_slices (k : Nat) (r : Nat → (Nat → α) → β) (t : T α) (c : Nat) (lead : List Nat)
    (hk : k < c) : fixLead (reduceKeep k r t) c lead = reduceKeep k r (fixLead t c lead) :=
  reduceKeep_fixLead k r t c lead hk

/-- `np.sum / np.mean / np.amax(…, axis=-(k+1))` and every `'...x->...'` einsum contraction: the core rank
drops by one -/
theorem reduceDrop_slices (k : Nat) (r : Nat → (Nat → α) → β) (t : T α) (c : Nat) (lead : List Nat)
    (hk : k ≤ c) : fixLead (reduceDrop k r t) c lead = reduceDrop k r (fixLead t (c + 1) lead) :=
  reduceDrop_fixLead k r t c lead hk

section
variable [Add α] [Mul α] [OfNat α 0] [OfNat α 1]
/-- `np.cumprod(t, axis=-(k+1))`, `k < c` (the corrected `phase_correction` accumulation) -/
theorem cumprodFromEnd_slices (k : Nat) (t : T α) (c : Nat) (lead : List Nat) (hk : k < c) :
    fixLead (cumprodFromEnd k t) c lead = cumprodFromEnd k (fixLead t c lead) :=
  scanAxis_fixLead k prodN t c lead hk

/-- `np.cumsum(t, axis=-(k+1))`, `k < c` -/
theorem cumsumFromEnd_slices (k : Nat) (t : T α) (c : Nat) (lead : List Nat) (hk : k < c) :
    fixLead (cumsumFromEnd k t) c lead = cumsumFromEnd k (fixLead t c lead) :=
  scanAxis_fixLead k sumN t c lead hk
end

/-- `t[..., None, :, …]` (e.g. the class axis `y[..., None, :, :]` of every mixture model) -/
theorem expandDims_slices (k : Nat) (t : T α) (c : Nat) (lead : List Nat) (hk : k ≤ c) :
    fixLead (expandDims k t) (c + 1) lead = expandDims k (fixLead t c lead) :=
  expandDims_fixLead k t c lead hk

/-- `np.swapaxes(t, -(i+1), -(j+1))` (e.g. `normalize_observation` of the cACG) -/
theorem swapaxes_slices (i j : Nat) (t : T α) (c : Nat) (lead : List Nat) (hi : i < c) (hj : j < c) :
    fixLead (swapaxes i j t) c lead = swapaxes i j (fixLead t c lead) :=
  swapaxes_fixLead i j t c lead hi hj

/-- the `reshape(-1, *core)` → operation on the last axes → reshape-back pair (`__post_init__` of the
Gaussians, `get_pca`) acts slice by slice -/
theorem reshape_pair_slices (op : T α → T β) (c c' : Nat) (t : T α) (lead : List Nat)
    (hop : ∀ u l, fixLead (op u) c' l = op (fixLead u c l))
    (hshape : (op (flattenLead c t)).rshape.drop c' = (flattenLead c t).rshape.drop c)
    (hc : c ≤ t.rank) (hc' : c' ≤ (op (flattenLead c t)).rank)
    (hv : ValidLead (t.rshape.drop c) lead) :
    fixLead (unflattenLead c' (t.rshape.drop c) (op (flattenLead c t))) c' lead = op (fixLead t c lead) :=
  reshape_pair op c c' t lead hop hshape hc hc' hv

/-! ## 2. transcriptions of pb_bss functions -/

section transcriptions
variable [Add α] [Sub α] [Mul α] [Div α] [Neg α] [OfNat α 0] [OfNat α 1] [NatCast α] [Max α]
  [LT α] [DecidableLT α] [BEq α] [Transc α]

/-- `log_pdf_to_affiliation` (shared posterior routine; weights of any broadcast-compatible shape, optional
source-activity mask and clipping): the posterior of a stack at a leading index is the posterior of that
slice computed alone -/
theorem posterior_slices (tiny : α) (w lp : T α) (mask : Option (T α)) (clip : Option α) (lead : List Nat)
    (hw : 2 ≤ w.rank) (hlp : 2 ≤ lp.rank) (hm : ∀ m, mask = some m → 2 ≤ m.rank) :
    fixLead (logPdfToAffiliation tiny w lp mask clip) 2 lead =
      logPdfToAffiliation tiny (fixLead w 2 lead) (fixLead lp 2 lead) (mask.map (fixLead · 2 lead)) clip :=
  logPdfToAffiliation_fixLead tiny w lp mask clip lead hw hlp hm

/-- `estimate_mixture_weight(…, weight_constant_axis=(-1,))`: mixture weights are tied only within a slice -/
theorem mixtureWeight_slices (eps : α) (aff : T α) (sal : Option (T α)) (lead : List Nat) (ha : 2 ≤ aff.rank) :
    fixLead (estimateMixtureWeight eps aff sal) 2 lead =
      estimateMixtureWeight eps (fixLead aff 2 lead) (sal.map (fixLead · 1 lead)) :=
  estimateMixtureWeight_fixLead eps aff sal lead ha

/-- `GaussianTrainer._fit` (all three covariance types, with and without saliency): mean and covariance of
the stacked fit at a leading index are those of the slice fitted alone -/
theorem gaussianFit_slices (tiny : α) (ct : CovType) (y : T α) (sal : Option (T α)) (lead : List Nat)
    (hy : 2 ≤ y.rank) (hs : ∀ s, sal = some s → 1 ≤ s.rank) :
    fixLead (gaussianFit tiny ct y sal).1 1 lead =
        (gaussianFit tiny ct (fixLead y 2 lead) (sal.map (fixLead · 1 lead))).1 ∧
    fixLead (gaussianFit tiny ct y sal).2 (covRank ct) lead =
        (gaussianFit tiny ct (fixLead y 2 lead) (sal.map (fixLead · 1 lead))).2 :=
  ⟨gaussianFit_mean_fixLead tiny ct y sal lead hy hs, gaussianFit_cov_fixLead tiny ct y sal lead hy hs⟩

/-- `Gaussian.log_pdf` (einsums `'...Dd,...nD->...nd'`, `'...nd,...nd->...n'`) -/
theorem gaussianLogPdf_slices (log2pi : α) (mean pc logDet y : T α) (lead : List Nat)
    (hm : 1 ≤ mean.rank) (hp : 2 ≤ pc.rank) (hy : 2 ≤ y.rank) :
    fixLead (gaussianLogPdf log2pi mean pc logDet y) 1 lead =
      gaussianLogPdf log2pi (fixLead mean 1 lead) (fixLead pc 2 lead) (fixLead logDet 0 lead) (fixLead y 2 lead) :=
  gaussianLogPdf_fixLead log2pi mean pc logDet y lead hm hp hy

/-- `DiagonalGaussian.log_pdf` (einsum `'...d,...nd->...nd'`, the subscripts of commit d40e2c0) -/
theorem diagonalGaussianLogPdf_slices (log2pi : α) (mean pc logDet y : T α) (lead : List Nat)
    (hm : 1 ≤ mean.rank) (hp : 1 ≤ pc.rank) (hy : 2 ≤ y.rank) :
    fixLead (diagonalGaussianLogPdf log2pi mean pc logDet y) 1 lead =
      diagonalGaussianLogPdf log2pi (fixLead mean 1 lead) (fixLead pc 1 lead) (fixLead logDet 0 lead)
        (fixLead y 2 lead) :=
  diagonalGaussianLogPdf_fixLead log2pi mean pc logDet y lead hm hp hy

/-- `SphericalGaussian.log_pdf` (einsum `'...,...nd->...nd'`) -/
theorem sphericalGaussianLogPdf_slices (log2pi : α) (mean pc logDet y : T α) (lead : List Nat)
    (hm : 1 ≤ mean.rank) (hy : 2 ≤ y.rank) :
    fixLead (sphericalGaussianLogPdf log2pi mean pc logDet y) 1 lead =
      sphericalGaussianLogPdf log2pi (fixLead mean 1 lead) (fixLead pc 0 lead) (fixLead logDet 0 lead)
        (fixLead y 2 lead) :=
  sphericalGaussianLogPdf_fixLead log2pi mean pc logDet y lead hm hy

/-- `DiagonalGaussian.__post_init__` with its reshapes (commit eb73118): both derived fields of the stack,
read at a valid leading index, are what the one-model computation gives for that slice -/
theorem diagonalPostInit_slices (cov : T α) (lead : List Nat) (hc : 1 ≤ cov.rank)
    (hv : ValidLead (cov.rshape.drop 1) lead) :
    fixLead (diagonalPostInit cov).1 1 lead = (diagonalPostInitCore (fixLead cov 1 lead)).1 ∧
    fixLead (diagonalPostInit cov).2 0 lead = (diagonalPostInitCore (fixLead cov 1 lead)).2 :=
  diagonalPostInit_fixLead cov lead hc hv

/-- the same against the stand-alone object: `DiagonalGaussian(mean[lead], covariance[lead])` runs the same
reshapes with no leading axis and gets exactly the slice of the stacked fields -/
theorem diagonalPostInit_standalone (cov : T α) (lead : List Nat) (hc : 1 ≤ cov.rank)
    (hv : ValidLead (cov.rshape.drop 1) lead) :
    fixLead (diagonalPostInit cov).1 1 lead = (diagonalPostInit (fixLead cov 1 lead)).1 ∧
    fixLead (diagonalPostInit cov).2 0 lead = (diagonalPostInit (fixLead cov 1 lead)).2 :=
  Tensor.diagonalPostInit_standalone cov lead hc hv

/-- `SphericalGaussian.__post_init__` with its reshapes -/
theorem sphericalPostInit_slices (dim : Nat) (cov : T α) (lead : List Nat) (hv : ValidLead cov.rshape lead) :
    fixLead (sphericalPostInit dim cov).1 0 lead = (sphericalPostInitCore dim (fixLead cov 0 lead)).1 ∧
    fixLead (sphericalPostInit dim cov).2 0 lead = (sphericalPostInitCore dim (fixLead cov 0 lead)).2 :=
  sphericalPostInit_fixLead dim cov lead hv

theorem sphericalPostInit_standalone (dim : Nat) (cov : T α) (lead : List Nat) (hv : ValidLead cov.rshape lead) :
    fixLead (sphericalPostInit dim cov).1 0 lead = (sphericalPostInit dim (fixLead cov 0 lead)).1 ∧
    fixLead (sphericalPostInit dim cov).2 0 lead = (sphericalPostInit dim (fixLead cov 0 lead)).2 :=
  Tensor.sphericalPostInit_standalone dim cov lead hv

/-- `Gaussian.__post_init__`: `reshape(-1, D, D)`, the per-matrix external `chol` (contract: sklearn's
`_compute_precision_cholesky(·, 'full')` treats the matrices of the flat stack one by one), reshape back,
log-determinant from the diagonal -/
theorem fullPostInit_slices (chol : T α → T α) (cov : T α) (lead : List Nat) (hc : 2 ≤ cov.rank)
    (hv : ValidLead (cov.rshape.drop 2) lead) :
    fixLead (fullPostInit chol cov).1 2 lead = (fullPostInitCore chol (fixLead cov 2 lead)).1 ∧
    fixLead (fullPostInit chol cov).2 0 lead = (fullPostInitCore chol (fixLead cov 2 lead)).2 :=
  fullPostInit_fixLead chol cov lead hc hv

/-- `VonMisesFisherTrainer._fit`: mean direction and concentration -/
theorem vmfFit_slices (tiny minC maxC : α) (y : T α) (sal : Option (T α)) (lead : List Nat)
    (hy : 2 ≤ y.rank) (hs : ∀ s, sal = some s → 1 ≤ s.rank) :
    fixLead (vmfFit tiny minC maxC y sal).1 1 lead =
        (vmfFit tiny minC maxC (fixLead y 2 lead) (sal.map (fixLead · 1 lead))).1 ∧
    fixLead (vmfFit tiny minC maxC y sal).2 0 lead =
        (vmfFit tiny minC maxC (fixLead y 2 lead) (sal.map (fixLead · 1 lead))).2 :=
  vmfFit_fixLead tiny minC maxC y sal lead hy hs

/-- `VonMisesFisher.log_pdf` (the values of `log_norm()`, computed elementwise with `scipy.special.ive`, are
an input of core rank 0) -/
theorem vmfLogPdf_slices (tiny : α) (mean conc logNorm y : T α) (lead : List Nat)
    (hm : 1 ≤ mean.rank) (hy : 2 ≤ y.rank) :
    fixLead (vmfLogPdf tiny mean conc logNorm y) 1 lead =
      vmfLogPdf tiny (fixLead mean 1 lead) (fixLead conc 0 lead) (fixLead logNorm 0 lead) (fixLead y 2 lead) :=
  vmfLogPdf_fixLead tiny mean conc logNorm y lead hm hy

theorem fullPostInit_standalone (chol : T α → T α) (cov : T α) (lead : List Nat) (hc : 2 ≤ cov.rank)
    (hv : ValidLead (cov.rshape.drop 2) lead) :
    fixLead (fullPostInit chol cov).1 2 lead = (fullPostInit chol (fixLead cov 2 lead)).1 ∧
    fixLead (fullPostInit chol cov).2 0 lead = (fullPostInit chol (fixLead cov 2 lead)).2 :=
  Tensor.fullPostInit_standalone chol cov lead hc hv

end transcriptions

section complex
variable {κ : Type} [Add α] [Sub α] [Mul α] [Div α] [Neg α] [OfNat α 0] [OfNat α 1] [NatCast α] [Max α]
  [LT α] [DecidableLT α] [BEq α] [Transc α]
  [Add κ] [Sub κ] [Mul κ] [Div κ] [OfNat κ 0] [OfNat κ 1] [CxOps α κ]

/-- the scatter matrix of `ComplexCircularSymmetricGaussianTrainer._fit` (`floorDen = some tiny`; this is the
whole trainer), `ComplexWatsonTrainer._fit` and `ComplexBinghamTrainer._fit` (`floorDen = none`; the part
before the per-matrix external `eigh`) -/
theorem scatter_slices (floorDen : Option α) (y : T κ) (sal : Option (T α)) (lead : List Nat)
    (hy : 2 ≤ y.rank) (hs : ∀ s, sal = some s → 1 ≤ s.rank) :
    fixLead (scatter floorDen y sal) 2 lead = scatter floorDen (fixLead y 2 lead) (sal.map (fixLead · 1 lead)) :=
  scatter_fixLead floorDen y sal lead hy hs

/-- `ComplexWatson.log_pdf` (values of `log_norm()` — elementwise `hyp1f1` — are an input) -/
theorem watsonLogPdf_slices (mode : T κ) (conc logNorm : T α) (y : T κ) (lead : List Nat)
    (hm : 1 ≤ mode.rank) (hy : 2 ≤ y.rank) :
    fixLead (watsonLogPdf mode conc logNorm y) 1 lead =
      watsonLogPdf (fixLead mode 1 lead) (fixLead conc 0 lead) (fixLead logNorm 0 lead) (fixLead y 2 lead) :=
  watsonLogPdf_fixLead mode conc logNorm y lead hm hy

/-- `ComplexBingham.log_pdf` including the `covariance` property (values of `log_norm()` are an input) -/
theorem binghamLogPdf_slices (vecs : T κ) (vals logNorm : T α) (y : T κ) (lead : List Nat)
    (hv : 2 ≤ vecs.rank) (hl : 1 ≤ vals.rank) (hy : 2 ≤ y.rank) :
    fixLead (binghamLogPdf vecs vals logNorm y) 1 lead =
      binghamLogPdf (fixLead vecs 2 lead) (fixLead vals 1 lead) (fixLead logNorm 0 lead) (fixLead y 2 lead) :=
  binghamLogPdf_fixLead vecs vals logNorm y lead hv hl hy

/-- cACG `normalize_observation` (unit norm over the last axis, then `swapaxes(-2, -1)`) -/
theorem cacgNormalize_slices (tiny : α) (y : T κ) (lead : List Nat) (hy : 2 ≤ y.rank) :
    fixLead (cacgNormalize tiny y) 2 lead = cacgNormalize tiny (fixLead y 2 lead) :=
  cacgNormalize_fixLead tiny y lead hy

/-- the start value `np.ones((*independent, N))` of `ComplexAngularCentralGaussianTrainer.fit` (commit cf5e8f1)
has the leading shape of the observation: each slice starts from `np.ones(N)` -/
theorem cacgStart_slices (y : T κ) (lead : List Nat) :
    fixLead (cacgStartQuadraticForm (α := α) y) 1 lead = cacgStartQuadraticForm (fixLead y 2 lead) :=
  cacgStartQuadraticForm_fixLead y lead

/-- `ComplexAngularCentralGaussianTrainer._fit` up to the per-matrix external `eigh`: the (hermitised)
covariance handed to `from_covariance` -/
theorem cacgFitCovariance_slices (tiny : α) (herm : Bool) (y : T κ) (sal : Option (T α)) (q : T α) (lead : List Nat)
    (hy : 2 ≤ y.rank) (hq : 1 ≤ q.rank) (hs : ∀ s, sal = some s → 1 ≤ s.rank) :
    fixLead (cacgFitCovariance tiny herm y sal q) 2 lead =
      cacgFitCovariance tiny herm (fixLead y 2 lead) (sal.map (fixLead · 1 lead)) (fixLead q 1 lead) :=
  cacgFitCovariance_fixLead tiny herm y sal q lead hy hq hs

/-- eigenvalue normalisation and flooring of `from_covariance(covariance_norm='eigenvalue')` -/
theorem cacgEigenvalueNorm_slices (tiny floor : α) (vals : T α) (lead : List Nat) (hl : 1 ≤ vals.rank) :
    fixLead (cacgEigenvalueNorm tiny floor vals) 1 lead = cacgEigenvalueNorm tiny floor (fixLead vals 1 lead) :=
  cacgEigenvalueNorm_fixLead tiny floor vals lead hl

/-- `ComplexAngularCentralGaussian._log_pdf`: log-density and quadratic form
(einsum `'...dt,...de,...e,...ge,...gt->...t'`) -/
theorem cacgLogPdf_slices (tiny : α) (vecs : T κ) (vals : T α) (y : T κ) (lead : List Nat)
    (hv : 2 ≤ vecs.rank) (hl : 1 ≤ vals.rank) (hy : 2 ≤ y.rank) :
    fixLead (cacgLogPdf tiny vecs vals y).1 1 lead =
        (cacgLogPdf tiny (fixLead vecs 2 lead) (fixLead vals 1 lead) (fixLead y 2 lead)).1 ∧
    fixLead (cacgLogPdf tiny vecs vals y).2 1 lead =
        (cacgLogPdf tiny (fixLead vecs 2 lead) (fixLead vals 1 lead) (fixLead y 2 lead)).2 :=
  cacgLogPdf_fixLead tiny vecs vals y lead hv hl hy

end complex

/-! ## 2b. a mixture trainer: the EM loop of `GMMTrainer` (all three covariance types) -/

section gmm
variable [Add α] [Sub α] [Mul α] [Div α] [Neg α] [OfNat α 0] [OfNat α 1] [NatCast α] [Max α]
  [LT α] [DecidableLT α] [BEq α] [Transc α]

/-- the reshape pair when `e` of the flattened axes stay in the core (the class axis `K` of a mixture):
`reshape(-1, *core)` → per-row operation → reshape back, read at a leading index, is the same computation run on
the slice alone -/
theorem reshape_pair_class_slices {β : Type} (op : T α → T β) (c c' e : Nat) (t : T α) (lead : List Nat)
    (hop : ∀ u l, fixLead (op u) c' l = op (fixLead u c l))
    (hshape : ∀ u, (op u).rshape.drop c' = u.rshape.drop c)
    (hrank : ∀ u, c ≤ u.rank → c' ≤ (op u).rank)
    (hc : c + e ≤ t.rank) (hpos : ∀ d, d ∈ t.rshape.drop c → 0 < d)
    (hv : ValidLead (t.rshape.drop (c + e)) lead) :
    fixLead (unflattenLead c' (t.rshape.drop c) (op (flattenLead c t))) (c' + e) lead =
      unflattenLead c' ((t.rshape.drop c).take e) (op (flattenLead c (fixLead t (c + e) lead))) :=
  reshape_pair_gen op c c' e t lead hop hshape hrank hc hpos hv

/-- `GMMTrainer._m_step` + the model's `__post_init__`: weights, means, covariances, precision factors and
log-determinants of the stacked M-step at a leading index are those of the M-step run on the slice alone
(`Gmm.fix` fixes the leading index in every field; the class axis stays in the core) -/
theorem gmmMStep_slices (tiny eps : α) (ct : CovType) (chol : T α → T α) (y aff sal : T α) (lead : List Nat)
    (hy : 2 ≤ y.rank) (ha : 2 ≤ aff.rank) (hs : 1 ≤ sal.rank)
    (hg : GoodLead (covRank ct) (gmmMStep tiny eps ct chol y aff sal).cov lead) :
    (gmmMStep tiny eps ct chol y aff sal).fix ct lead =
      gmmMStep tiny eps ct chol (fixLead y 2 lead) (fixLead aff 2 lead) (fixLead sal 1 lead) :=
  gmmMStep_fixLead tiny eps ct chol y aff sal lead hy ha hs hg

/-- `GMM.predict` (E-step): the posterior of the stacked model at a leading index is the posterior of the
sliced model on the sliced observations -/
theorem gmmPredict_slices (tiny log2pi : α) (ct : CovType) (m : Gmm α) (y : T α) (lead : List Nat)
    (hw : 2 ≤ m.weight.rank) (hm : 2 ≤ m.mean.rank) (hp : covRank ct + 1 ≤ m.pc.rank) (hl : 1 ≤ m.logDet.rank)
    (hy : 2 ≤ y.rank) :
    fixLead (gmmPredict tiny log2pi ct m y) 2 lead = gmmPredict tiny log2pi ct (m.fix ct lead) (fixLead y 2 lead) :=
  gmmPredict_fixLead tiny log2pi ct m y lead hw hm hp hl hy

/-- **`GMMTrainer._fit`, any number of iterations**: every field of the model fitted on the stack, read at a
leading index, is the field of the model fitted on that slice alone (same initial affiliation slice, same
saliency slice, same number of iterations).  `hg` is a statement about SHAPES only — `lead` is in range for the
covariance field of every iterate and no flattened axis is empty; `goodLead_of_check` makes it checkable, and the
driver checks it for every leading index of every executed case. -/
theorem gmmFit_slices (tiny eps log2pi : α) (ct : CovType) (chol : T α → T α) (y init sal : T α) (lead : List Nat)
    (hy : 2 ≤ y.rank) (hi : 2 ≤ init.rank) (hs : 1 ≤ sal.rank) (n : Nat)
    (hg : ∀ k, k ≤ n → GoodLead (covRank ct) (gmmFit tiny eps log2pi ct chol y init sal k).cov lead) :
    (gmmFit tiny eps log2pi ct chol y init sal n).fix ct lead =
      gmmFit tiny eps log2pi ct chol (fixLead y 2 lead) (fixLead init 2 lead) (fixLead sal 1 lead) n :=
  gmmFit_fixLead tiny eps log2pi ct chol y init sal lead hy hi hs n hg

/-- **`GMMTrainer._fit` on well-shaped inputs, any number of iterations** — the headline for the mixture-trainer
clause: observations `(*lead, N, D)`, initial affiliation `(*lead, K, N)`, saliency `(*lead, N)` (`fit` replaces
`None` by ones), `K > 0`, no empty leading axis.  For every in-range leading index the model fitted on the stack,
restricted to that index (weights, means, covariances, precision factors, log-determinants), IS the model fitted
on the slice alone.  (`chol` = the per-matrix external of the full-covariance class.) -/
theorem gmmFit_slices_shaped (tiny eps log2pi : α) (ct : CovType) (chol : T α → T α) (y init sal : T α)
    (D N K : Nat) (Ld lead : List Nat)
    (hy : y.rshape = D :: N :: Ld) (hi : init.rshape = N :: K :: Ld) (hs : sal.rshape = N :: Ld)
    (hK : 0 < K) (hpos : ∀ d, d ∈ Ld → 0 < d) (hv : ValidLead Ld lead) (n : Nat) :
    (gmmFit tiny eps log2pi ct chol y init sal n).fix ct lead =
      gmmFit tiny eps log2pi ct chol (fixLead y 2 lead) (fixLead init 2 lead) (fixLead sal 1 lead) n :=
  gmmFit_fixLead_shaped tiny eps log2pi ct chol y init sal D N K Ld lead hy hi hs hK hpos hv n

/-- and its posterior (`fit_predict`) -/
theorem gmmFitPredict_slices_shaped (tiny eps log2pi : α) (ct : CovType) (chol : T α → T α) (y init sal : T α)
    (D N K : Nat) (Ld lead : List Nat)
    (hy : y.rshape = D :: N :: Ld) (hi : init.rshape = N :: K :: Ld) (hs : sal.rshape = N :: Ld)
    (hK : 0 < K) (hpos : ∀ d, d ∈ Ld → 0 < d) (hv : ValidLead Ld lead) (n : Nat) :
    fixLead (gmmPredict tiny log2pi ct (gmmFit tiny eps log2pi ct chol y init sal n) y) 2 lead =
      gmmPredict tiny log2pi ct
        (gmmFit tiny eps log2pi ct chol (fixLead y 2 lead) (fixLead init 2 lead) (fixLead sal 1 lead) n)
        (fixLead y 2 lead) := by
  have hsh := gmmFit_shapes tiny eps log2pi ct chol y init sal D N K Ld hy hi hs n
  have hl := length_covCore ct D
  rw [gmmPredict_fixLead tiny log2pi ct _ y lead
    (by simp only [T.rank, hsh.1, List.length_cons]; omega)
    (by simp only [T.rank, hsh.2.1, List.length_cons]; omega)
    (by simp only [T.rank, hsh.2.2.2.1, List.length_append, List.length_cons, hl]; omega)
    (by simp only [T.rank, hsh.2.2.2.2, List.length_cons]; omega)
    (by simp only [T.rank, hy, List.length_cons]; omega),
    gmmFit_fixLead_shaped tiny eps log2pi ct chol y init sal D N K Ld lead hy hi hs hK hpos hv n]

end gmm

/-- the shape hypothesis of `gmmFit_slices` is decidable: the boolean check the driver runs implies it -/
theorem goodLead_of_check (r : Nat) (cov : T α) (lead : List Nat) (h : goodLeadB r cov lead = true) :
    GoodLead r cov lead := goodLeadB_sound h

/-- non-vacuity of `GoodLead`: a diagonal covariance field of shape `(5, 4, K=2, D=3)` and the leading index `[3, 2]`
(reversed: axis of size 4 at 3, axis of size 5 at 2) -/
example : GoodLead 1 (⟨[3, 2, 4, 5], fun _ => 0⟩ : T Nat) [3, 2] := goodLeadB_sound (by decide)

/-! ## 3. singleton leading axes behave as if repeated -/

/-- `np.broadcast_to(initialization, (*independent, K, N))` (`cacgmm.py:228`): every slice of the broadcast
affiliation is the slice of the original read with its singleton axes at 0 — i.e. the original repeated -/
theorem broadcastLead_slices (t : T α) (c : Nat) (s lead : List Nat) (hc : c ≤ t.rank)
    (hlen : (t.rshape.drop c).length ≤ s.length)
    (hcompat : ∀ i, i < (t.rshape.drop c).length → (t.rshape.drop c).getD i 1 ≠ 1 → s.getD i 1 ≠ 1) :
    fixLead (broadcastLead c s t) c lead = fixLead t c lead :=
  broadcastLead_fixLead t c s lead hc hlen hcompat

section
variable [Add α] [Sub α] [Mul α] [Div α] [Neg α] [OfNat α 0] [OfNat α 1] [NatCast α] [Max α]
  [LT α] [DecidableLT α] [BEq α] [Transc α]
/-- first M-step of a mixture trainer started from an initial affiliation `γ₀` with singleton leading axes:
the weights at every leading index are the weights of `γ₀` (repeated) — with or without the explicit
`broadcast_to` -/
theorem singleton_init_weights (eps : α) (g0 : T α) (s lead : List Nat) (h2 : 2 ≤ g0.rank)
    (hlen : (g0.rshape.drop 2).length ≤ s.length)
    (hcompat : ∀ i, i < (g0.rshape.drop 2).length → (g0.rshape.drop 2).getD i 1 ≠ 1 → s.getD i 1 ≠ 1) :
    fixLead (estimateMixtureWeight eps (broadcastLead 2 s g0) none) 2 lead =
      estimateMixtureWeight eps (fixLead g0 2 lead) none ∧
    fixLead (estimateMixtureWeight eps g0 none) 2 lead = estimateMixtureWeight eps (fixLead g0 2 lead) none := by
  have hb : 2 ≤ (broadcastLead 2 s g0).rank := by
    simp only [T.rank, broadcastLead, List.length_append, List.length_take]
    have : 2 ≤ g0.rshape.length := h2
    omega
  constructor
  · rw [estimateMixtureWeight_fixLead eps _ none lead hb, broadcastLead_fixLead g0 2 s lead h2 hlen hcompat]; rfl
  · rw [estimateMixtureWeight_fixLead eps _ none lead h2]; rfl
end

/-! ## 4. counter-witnesses: what does NOT commute -/

/-- the 2×2 stack `[[1, 2], [3, 4]]` -/
def w22 : T Nat := ⟨[2, 2], fun idx => idx.getD 0 0 + 2 * idx.getD 1 0 + 1⟩

/-- An operation addressed with a NON-negative axis is not slice-wise: `np.cumprod(t, axis=0)` (the
`phase_correction` defect, commit e74d97d) on the stack `[[1,2],[3,4]]` gives `[3, 8]` in row 1, the row
alone gives `[3, 12]`. -/
theorem cumprod_axis0_not_slicewise :
    ∃ (t : T Nat) (lead : List Nat), fixLead (cumprodFromStart 0 t) 1 lead ≠ cumprodFromStart 0 (fixLead t 1 lead) := by
  refine ⟨w22, [1], fun h => ?_⟩
  have h1 := congrArg (fun x => x.get [1]) h
  revert h1
  decide

/-- the same operation addressed from the end IS slice-wise on this stack (instance of
`cumprodFromEnd_slices`, evaluated) -/
example : (fixLead (cumprodFromEnd 0 w22) 1 [1]).get [1] = 12 ∧ (cumprodFromEnd 0 (fixLead w22 1 [1])).get [1] = 12 := by
  decide

section
variable [Add α] [Mul α] [Div α] [OfNat α 0] [OfNat α 1] [NatCast α] [Transc α]
/-- Without the reshape-back of the log-determinant (the code before commit eb73118) a stack with leading
shape `(2, 3)` gets a flat field of shape `(6,)` instead of `(2, 3)`: it cannot be indexed by the leading
axes any more (broadcast error / wrong values in `log_pdf`). -/
theorem postInit_without_reshape_back_wrong_shape (cov : T α) (D : Nat) (h : cov.rshape = [D, 3, 2]) :
    (diagonalPostInitNoReshape cov).2.rshape = [6] ∧ (diagonalPostInit cov).2.rshape = [3, 2] := by
  simp [diagonalPostInitNoReshape, diagonalPostInit, unflattenLead, sumAxis, reduceDrop, map, flattenLead, h, eraseAt,
    padTake, prodList]
end

/-! ## non-vacuity: the hypotheses are satisfiable and the statements speak about real slices -/

/-- a stack with two leading axes `(2, 3)` and core `(2,)`, different content everywhere -/
def w232 : T Nat := ⟨[2, 3, 2], fun idx => idx.getD 0 0 + 10 * idx.getD 1 0 + 100 * idx.getD 2 0⟩

example : ValidLead (w232.rshape.drop 1) [2, 1] := by
  intro i hi _
  have : i = 0 ∨ i = 1 := by simp [w232] at hi; omega
  rcases this with rfl | rfl <;> simp [w232]

/-- `fixLead` is the NumPy slice: `w232[1, 2]` = `[120, 121]`; summing the last axis of the stack and then
slicing equals slicing and then summing (instance of `reduceDrop_slices`, evaluated) -/
example : (fixLead w232 1 [2, 1]).get [1] = 121 ∧
    (fixLead (sumAxis 0 w232) 0 [2, 1]).get [] = 241 ∧ (sumAxis 0 (fixLead w232 1 [2, 1])).get [] = 241 := by
  decide

/-- a `(1, 3, 2)` operand is read as if repeated along its singleton leading axis (instance of `zipWith_slices`) -/
example :
    let b : T Nat := ⟨[2, 3, 1], fun idx => 1000 * (idx.getD 1 0 + 1)⟩
    (fixLead (zipWith (· + ·) w232 b) 1 [2, 1]).get [0] = 3120 ∧
    (zipWith (· + ·) (fixLead w232 1 [2, 1]) (fixLead b 1 [2, 1])).get [0] = 3120 := by
  decide

/-! ## 5. the EM loops of the directional mixture trainers: `VMFMMTrainer`, `CWMMTrainer`, `CACGMMTrainer`

Model: `PbBss/Model/TensorEm.lean` (line-by-line transcriptions of `vmfmm.py`, `cwmm.py`, `cacgmm.py`, `get_pca`), proofs:
`PbBss/Proofs/TensorEmProof.lean`.  The state of a loop is a structure of tensors; `.fix lead` takes the slice of every
field at a leading index (the class axis `K` stays in the core).  Externals:
* elementwise ones (`lnorm D` = `log_norm()` of the component as a function of one concentration — `scipy.special.ive`
  resp. `hyp1f1` —, `kinv` = the concentration spline of the Watson trainer) are applied with `map`; nothing is
  assumed about them;
* `eigh` = `np.linalg.eigh` of ONE `(D, D)` matrix; that NumPy applies it to every matrix of a stack independently is
  part of the model (`mapCore`, exactly like `chol` in `fullPostInit` / `gmmFit`) — `mapCore_class_slices` is the
  resulting slice law and holds for EVERY function `eigh`. -/

/-- a per-matrix routine applied to every matrix of a stack (`np.linalg.eigh(covariance)` for `covariance : (..., K, D, D)`):
with `e` leading axes kept in the core, the result at a leading index is the routine applied to the matrices of that
slice — whatever the routine -/
theorem mapCore_class_slices (c c' e : Nat) (oshape : List Nat) (g : T α → T β) (t : T α) (lead : List Nat)
    (ho : oshape.length = c') (hr : c + e ≤ t.rank) :
    fixLead (mapCore c c' oshape g t) (c' + e) lead = mapCore c c' oshape g (fixLead t (c + e) lead) :=
  mapCore_fixLead_class c c' e oshape g t lead ho hr

/-- `pb_bss.utils.get_pca` on a stack of scatter matrices `(..., K, D, D)`: `reshape(-1, D, D)`, per-matrix `eigh`, last
eigenpair, reshape back.  Principal vector and eigenvalue at a valid leading index are those `get_pca` returns for
the slice `(K, D, D)` alone. -/
theorem getPca_slices {κ : Type} (eigh : T κ → T κ × T α) (psd : T κ) (lead : List Nat) (hg : GoodLead 2 psd lead) :
    fixLead (getPca eigh psd).1 2 lead = (getPca eigh (fixLead psd 3 lead)).1 ∧
    fixLead (getPca eigh psd).2 1 lead = (getPca eigh (fixLead psd 3 lead)).2 :=
  getPca_class eigh psd lead hg

section vmfmm
variable [Add α] [Sub α] [Mul α] [Div α] [Neg α] [OfNat α 0] [OfNat α 1] [NatCast α] [Max α]
  [LT α] [DecidableLT α] [BEq α] [Transc α]

/-- `VMFMMTrainer._m_step`: weights, mean directions and concentrations of the stacked M-step at a leading index are
those of the M-step run on the slice alone -/
theorem vmfmmMStep_slices (tiny eps minC maxC : α) (y aff sal : T α) (lead : List Nat)
    (hy : 2 ≤ y.rank) (ha : 2 ≤ aff.rank) (hs : 1 ≤ sal.rank) :
    (vmfmmMStep tiny eps minC maxC y aff sal).fix lead =
      vmfmmMStep tiny eps minC maxC (fixLead y 2 lead) (fixLead aff 2 lead) (fixLead sal 1 lead) :=
  vmfmmMStep_fixLead tiny eps minC maxC y aff sal lead hy ha hs

/-- `VMFMM.predict` (E-step, including the normalisation of the observations and `log_norm()`) -/
theorem vmfmmPredict_slices (tiny : α) (lnorm : Nat → α → α) (m : Vmfmm α) (y : T α) (lead : List Nat)
    (hw : 2 ≤ m.weight.rank) (hm : 2 ≤ m.mean.rank) (hc : 1 ≤ m.conc.rank) (hy : 2 ≤ y.rank) :
    fixLead (vmfmmPredict tiny lnorm m y) 2 lead = vmfmmPredict tiny lnorm (m.fix lead) (fixLead y 2 lead) :=
  vmfmmPredict_fixLead tiny lnorm m y lead hw hm hc hy

/-- one pass of the loop body of `VMFMMTrainer._fit` (E-step of the current model, then the M-step) -/
theorem vmfmmStep_slices (tiny eps minC maxC : α) (lnorm : Nat → α → α) (y sal : T α) (m : Vmfmm α) (lead : List Nat)
    (hw : 2 ≤ m.weight.rank) (hm : 2 ≤ m.mean.rank) (hc : 1 ≤ m.conc.rank) (hy : 2 ≤ y.rank) (hs : 1 ≤ sal.rank) :
    (vmfmmStep tiny eps minC maxC lnorm y sal m).fix lead =
      vmfmmStep tiny eps minC maxC lnorm (fixLead y 2 lead) (fixLead sal 1 lead) (m.fix lead) := by
  have hp := vmfmmPredict_fixLead tiny lnorm m y lead hw hm hc hy
  have := vmfmmMStep_fixLead tiny eps minC maxC y (vmfmmPredict tiny lnorm m y) sal lead hy (vmfmmPredict_rank _ _ _ _) hs
  rw [hp] at this
  exact this

/-- **`VMFMMTrainer._fit`, any number of iterations** (`iterations = n + 1`): every field of the model fitted on the
stack, read at a leading index, is the field of the model fitted on that slice alone.  The only hypotheses: the inputs
have their core axes (`y : (..., N, D)`, `initialization : (..., K, N)`, `saliency : (..., N)`); operands with
singleton / missing leading axes are read as if repeated. -/
theorem vmfmmFit_slices (tiny eps minC maxC : α) (lnorm : Nat → α → α) (y init sal : T α) (lead : List Nat)
    (hy : 2 ≤ y.rank) (hi : 2 ≤ init.rank) (hs : 1 ≤ sal.rank) (n : Nat) :
    (vmfmmFit tiny eps minC maxC lnorm y init sal n).fix lead =
      vmfmmFit tiny eps minC maxC lnorm (fixLead y 2 lead) (fixLead init 2 lead) (fixLead sal 1 lead) n :=
  vmfmmFit_fixLead tiny eps minC maxC lnorm y init sal lead hy hi hs n

/-- the same for well-shaped inputs `y : (*lead, N, D)`, `init : (*lead, K, N)`, `sal : (*lead, N)` -/
theorem vmfmmFit_slices_shaped (tiny eps minC maxC : α) (lnorm : Nat → α → α) (y init sal : T α)
    (D N K : Nat) (Ld lead : List Nat)
    (hy : y.rshape = D :: N :: Ld) (hi : init.rshape = N :: K :: Ld) (hs : sal.rshape = N :: Ld) (n : Nat) :
    (vmfmmFit tiny eps minC maxC lnorm y init sal n).fix lead =
      vmfmmFit tiny eps minC maxC lnorm (fixLead y 2 lead) (fixLead init 2 lead) (fixLead sal 1 lead) n :=
  vmfmmFit_fixLead tiny eps minC maxC lnorm y init sal lead
    (by simp only [T.rank, hy, List.length_cons]; omega) (by simp only [T.rank, hi, List.length_cons]; omega)
    (by simp only [T.rank, hs, List.length_cons]; omega) n

/-- and its posterior (`fit_predict`) -/
theorem vmfmmFitPredict_slices (tiny eps minC maxC : α) (lnorm : Nat → α → α) (y init sal : T α) (lead : List Nat)
    (hy : 2 ≤ y.rank) (hi : 2 ≤ init.rank) (hs : 1 ≤ sal.rank) (n : Nat) :
    fixLead (vmfmmPredict tiny lnorm (vmfmmFit tiny eps minC maxC lnorm y init sal n) y) 2 lead =
      vmfmmPredict tiny lnorm
        (vmfmmFit tiny eps minC maxC lnorm (fixLead y 2 lead) (fixLead init 2 lead) (fixLead sal 1 lead) n)
        (fixLead y 2 lead) := by
  obtain ⟨h1, h2, h3⟩ := vmfmmFit_ranks tiny eps minC maxC lnorm y init sal hy hi hs n
  rw [vmfmmPredict_fixLead tiny lnorm _ y lead h1 h2 h3 hy, vmfmmFit_fixLead tiny eps minC maxC lnorm y init sal lead hy hi hs n]

/-- `VMFMMTrainer.fit` itself (normalisation of `y`, `saliency=None` ↦ ones, then `_fit`) -/
theorem vmfmmTrainerFit_slices (tiny eps minC maxC : α) (lnorm : Nat → α → α) (y init : T α) (sal : Option (T α))
    (lead : List Nat) (hy : 2 ≤ y.rank) (hi : 2 ≤ init.rank) (hs : ∀ s, sal = some s → 1 ≤ s.rank) (n : Nat) :
    (vmfmmTrainerFit tiny eps minC maxC lnorm y init sal n).fix lead =
      vmfmmTrainerFit tiny eps minC maxC lnorm (fixLead y 2 lead) (fixLead init 2 lead) (sal.map (fixLead · 1 lead)) n :=
  vmfmmTrainerFit_fixLead tiny eps minC maxC lnorm y init sal lead hy hi hs n

end vmfmm

section cwmm
variable {κ : Type} [Add α] [Sub α] [Mul α] [Div α] [Neg α] [OfNat α 0] [OfNat α 1] [NatCast α] [Max α]
  [LT α] [DecidableLT α] [BEq α] [Transc α]
  [Add κ] [Sub κ] [Mul κ] [Div κ] [OfNat κ 0] [OfNat κ 1] [CxOps α κ]

/-- `CWMMTrainer._m_step` (scatter matrices, `get_pca` with its reshapes, concentration spline).  `hg` is a statement
about SHAPES: `lead` is a valid leading index of the scatter stack `(..., K, D, D)` that `get_pca` flattens and no
flattened axis is empty. -/
theorem cwmmMStep_slices (eps : α) (eigh : T κ → T κ × T α) (kinv : α → α) (y : T κ) (aff : T α) (sal : Option (T α))
    (lead : List Nat) (hy : 2 ≤ y.rank) (ha : 2 ≤ aff.rank) (hs : ∀ s, sal = some s → 1 ≤ s.rank)
    (hg : GoodLead 2 (cwmmScatter y aff sal) lead) :
    (cwmmMStep eps eigh kinv y aff sal).fix lead =
      cwmmMStep eps eigh kinv (fixLead y 2 lead) (fixLead aff 2 lead) (sal.map (fixLead · 1 lead)) :=
  cwmmMStep_fixLead eps eigh kinv y aff sal lead hy ha hs hg

/-- `CWMM.predict` (E-step) -/
theorem cwmmPredict_slices (tiny : α) (lnorm : Nat → α → α) (m : Cwmm α κ) (y : T κ) (lead : List Nat)
    (hw : 2 ≤ m.weight.rank) (hm : 2 ≤ m.mode.rank) (hc : 1 ≤ m.conc.rank) (hy : 2 ≤ y.rank) :
    fixLead (cwmmPredict tiny lnorm m y) 2 lead = cwmmPredict tiny lnorm (m.fix lead) (fixLead y 2 lead) :=
  cwmmPredict_fixLead tiny lnorm m y lead hw hm hc hy

/-- one pass of the loop body of `CWMMTrainer._fit` (E-step of the current model, then the M-step); `hg`: the shape
condition of `cwmmMStep_slices` for the scatter stack built from the new posterior -/
theorem cwmmStep_slices (tiny eps : α) (eigh : T κ → T κ × T α) (kinv : α → α) (lnorm : Nat → α → α) (y : T κ)
    (sal : Option (T α)) (m : Cwmm α κ) (lead : List Nat)
    (hw : 2 ≤ m.weight.rank) (hm : 2 ≤ m.mode.rank) (hc : 1 ≤ m.conc.rank) (hy : 2 ≤ y.rank)
    (hs : ∀ s, sal = some s → 1 ≤ s.rank) (hg : GoodLead 2 (cwmmScatter y (cwmmPredict tiny lnorm m y) sal) lead) :
    (cwmmStep tiny eps eigh kinv lnorm y sal m).fix lead =
      cwmmStep tiny eps eigh kinv lnorm (fixLead y 2 lead) (sal.map (fixLead · 1 lead)) (m.fix lead) := by
  have hp := cwmmPredict_fixLead tiny lnorm m y lead hw hm hc hy
  have := cwmmMStep_fixLead eps eigh kinv y (cwmmPredict tiny lnorm m y) sal lead hy (cwmmPredict_rank _ _ _ _) hs hg
  rw [hp] at this
  exact this

/-- **`CWMMTrainer._fit`, any number of iterations.**  `hg`: the shape condition of `cwmmMStep_slices` for the scatter
stack of every iteration (`cwmmAffiliation … k` is the affiliation the `k`-th M-step receives). -/
theorem cwmmFit_slices (tiny eps : α) (eigh : T κ → T κ × T α) (kinv : α → α) (lnorm : Nat → α → α) (y : T κ)
    (init : T α) (sal : Option (T α)) (lead : List Nat)
    (hy : 2 ≤ y.rank) (hi : 2 ≤ init.rank) (hs : ∀ s, sal = some s → 1 ≤ s.rank) (n : Nat)
    (hg : ∀ k, k ≤ n → GoodLead 2 (cwmmScatter y (cwmmAffiliation tiny eps eigh kinv lnorm y init sal k) sal) lead) :
    (cwmmFit tiny eps eigh kinv lnorm y init sal n).fix lead =
      cwmmFit tiny eps eigh kinv lnorm (fixLead y 2 lead) (fixLead init 2 lead) (sal.map (fixLead · 1 lead)) n :=
  cwmmFit_fixLead tiny eps eigh kinv lnorm y init sal lead hy hi hs n hg

/-- **`CWMMTrainer._fit` on well-shaped inputs, any number of iterations**: observations `(*lead, N, D)`, initial
affiliation `(*lead, K, N)`, saliency `(*lead, N)` or `None`, `K > 0`, no empty leading axis.  For every in-range leading
index the model fitted on the stack, restricted to that index (weights, modes, concentrations), IS the model fitted on
the slice alone. -/
theorem cwmmFit_slices_shaped (tiny eps : α) (eigh : T κ → T κ × T α) (kinv : α → α) (lnorm : Nat → α → α) (y : T κ)
    (init : T α) (sal : Option (T α)) (D N K : Nat) (Ld lead : List Nat)
    (hy : y.rshape = D :: N :: Ld) (hi : init.rshape = N :: K :: Ld) (hs : ∀ s, sal = some s → s.rshape = N :: Ld)
    (hK : 0 < K) (hpos : ∀ d, d ∈ Ld → 0 < d) (hv : ValidLead Ld lead) (n : Nat) :
    (cwmmFit tiny eps eigh kinv lnorm y init sal n).fix lead =
      cwmmFit tiny eps eigh kinv lnorm (fixLead y 2 lead) (fixLead init 2 lead) (sal.map (fixLead · 1 lead)) n :=
  cwmmFit_fixLead_shaped tiny eps eigh kinv lnorm y init sal D N K Ld lead hy hi hs hK hpos hv n

/-- and its posterior (`fit_predict`) -/
theorem cwmmFitPredict_slices_shaped (tiny eps : α) (eigh : T κ → T κ × T α) (kinv : α → α) (lnorm : Nat → α → α)
    (y : T κ) (init : T α) (sal : Option (T α)) (D N K : Nat) (Ld lead : List Nat)
    (hy : y.rshape = D :: N :: Ld) (hi : init.rshape = N :: K :: Ld) (hs : ∀ s, sal = some s → s.rshape = N :: Ld)
    (hK : 0 < K) (hpos : ∀ d, d ∈ Ld → 0 < d) (hv : ValidLead Ld lead) (n : Nat) :
    fixLead (cwmmPredict tiny lnorm (cwmmFit tiny eps eigh kinv lnorm y init sal n) y) 2 lead =
      cwmmPredict tiny lnorm
        (cwmmFit tiny eps eigh kinv lnorm (fixLead y 2 lead) (fixLead init 2 lead) (sal.map (fixLead · 1 lead)) n)
        (fixLead y 2 lead) := by
  obtain ⟨h1, h2, h3⟩ := cwmmFit_shapes tiny eps eigh kinv lnorm y init sal D N K Ld hy hi hs n
  rw [cwmmPredict_fixLead tiny lnorm _ y lead
    (by simp only [T.rank, h1, List.length_cons]; omega) (by simp only [T.rank, h2, List.length_cons]; omega)
    (by simp only [T.rank, h3, List.length_cons]; omega) (by simp only [T.rank, hy, List.length_cons]; omega),
    cwmmFit_fixLead_shaped tiny eps eigh kinv lnorm y init sal D N K Ld lead hy hi hs hK hpos hv n]

/-- `CWMMTrainer.fit` itself (`normalize_observation`, `saliency=None` ↦ ones, then `_fit`) on well-shaped inputs -/
theorem cwmmTrainerFit_slices_shaped (tiny eps : α) (eigh : T κ → T κ × T α) (kinv : α → α) (lnorm : Nat → α → α)
    (y : T κ) (init : T α) (sal : Option (T α)) (D N K : Nat) (Ld lead : List Nat)
    (hy : y.rshape = D :: N :: Ld) (hi : init.rshape = N :: K :: Ld) (hs : ∀ s, sal = some s → s.rshape = N :: Ld)
    (hK : 0 < K) (hpos : ∀ d, d ∈ Ld → 0 < d) (hv : ValidLead Ld lead) (n : Nat) :
    (cwmmTrainerFit tiny eps eigh kinv lnorm y init sal n).fix lead =
      cwmmTrainerFit tiny eps eigh kinv lnorm (fixLead y 2 lead) (fixLead init 2 lead) (sal.map (fixLead · 1 lead)) n :=
  cwmmTrainerFit_fixLead_shaped tiny eps eigh kinv lnorm y init sal D N K Ld lead hy hi hs hK hpos hv n

/-- `CACGMMTrainer._m_step` (`weight_constant_axis=(-1,)`, `covariance_norm='eigenvalue'`, no inline aligner, no
source-activity mask): weights, eigenvectors and (normalised, floored) eigenvalues -/
theorem cacgmmMStep_slices (tiny eps floor : α) (herm : Bool) (eigh : T κ → T κ × T α) (x : T κ) (q aff : T α)
    (sal : Option (T α)) (lead : List Nat)
    (hx : 2 ≤ x.rank) (hq : 2 ≤ q.rank) (ha : 2 ≤ aff.rank) (hs : ∀ s, sal = some s → 1 ≤ s.rank) :
    (cacgmmMStep tiny eps floor herm eigh x q aff sal).fix lead =
      cacgmmMStep tiny eps floor herm eigh (fixLead x 2 lead) (fixLead q 2 lead) (fixLead aff 2 lead)
        (sal.map (fixLead · 1 lead)) :=
  cacgmmMStep_fixLead tiny eps floor herm eigh x q aff sal lead hx hq ha hs

/-- `CACGMM._predict`: affiliation AND quadratic form -/
theorem cacgmmPredict_slices (tiny : α) (clip : Option α) (m : Cacgmm α κ) (y : T κ) (lead : List Nat)
    (hw : 2 ≤ m.weight.rank) (hv : 3 ≤ m.vecs.rank) (hl : 2 ≤ m.vals.rank) (hy : 2 ≤ y.rank) :
    fixLead (cacgmmPredict tiny clip m y).1 2 lead = (cacgmmPredict tiny clip (m.fix lead) (fixLead y 2 lead)).1 ∧
    fixLead (cacgmmPredict tiny clip m y).2 2 lead = (cacgmmPredict tiny clip (m.fix lead) (fixLead y 2 lead)).2 :=
  cacgmmPredict_fixLead tiny clip m y lead hw hv hl hy

/-- one pass of the loop body of `CACGMMTrainer.fit` (`_predict` of the current model — affiliation and quadratic form —,
then the M-step) -/
theorem cacgmmStep_slices (tiny eps floor : α) (herm : Bool) (clip : Option α) (eigh : T κ → T κ × T α) (y : T κ)
    (sal : Option (T α)) (m : Cacgmm α κ) (lead : List Nat)
    (hw : 2 ≤ m.weight.rank) (hv : 3 ≤ m.vecs.rank) (hl : 2 ≤ m.vals.rank) (hy : 2 ≤ y.rank)
    (hs : ∀ s, sal = some s → 1 ≤ s.rank) :
    (cacgmmStep tiny eps floor herm clip eigh y sal m).fix lead =
      cacgmmStep tiny eps floor herm clip eigh (fixLead y 2 lead) (sal.map (fixLead · 1 lead)) (m.fix lead) := by
  have hp := cacgmmPredict_fixLead tiny clip m y lead hw hv hl hy
  have hpr := cacgmmPredict_ranks tiny clip m y hy
  have := cacgmmMStep_fixLead tiny eps floor herm eigh y (cacgmmPredict tiny clip m y).2 (cacgmmPredict tiny clip m y).1 sal lead
    hy hpr.2 hpr.1 hs
  rw [hp.1, hp.2] at this
  exact this

/-- **the loop of `CACGMMTrainer.fit`, any number of iterations** (first M-step with `quadratic_form = ones`): every
field of the model fitted on the stack, read at a leading index, is the field of the model fitted on that slice alone.
The only hypotheses: the inputs have their core axes. -/
theorem cacgmmFit_slices (tiny eps floor : α) (herm : Bool) (clip : Option α) (eigh : T κ → T κ × T α) (y : T κ)
    (aff : T α) (sal : Option (T α)) (lead : List Nat)
    (hy : 2 ≤ y.rank) (ha : 2 ≤ aff.rank) (hs : ∀ s, sal = some s → 1 ≤ s.rank) (n : Nat) :
    (cacgmmFit tiny eps floor herm clip eigh y aff sal n).fix lead =
      cacgmmFit tiny eps floor herm clip eigh (fixLead y 2 lead) (fixLead aff 2 lead) (sal.map (fixLead · 1 lead)) n :=
  cacgmmFit_fixLead tiny eps floor herm clip eigh y aff sal lead hy ha hs n

/-- the same for well-shaped inputs `y : (*lead, D, N)` (normalised), `aff : (*lead, K, N)`, `sal : (*lead, N)` or `None` -/
theorem cacgmmFit_slices_shaped (tiny eps floor : α) (herm : Bool) (clip : Option α) (eigh : T κ → T κ × T α) (y : T κ)
    (aff : T α) (sal : Option (T α)) (D N K : Nat) (Ld lead : List Nat)
    (hy : y.rshape = N :: D :: Ld) (ha : aff.rshape = N :: K :: Ld) (hs : ∀ s, sal = some s → s.rshape = N :: Ld)
    (n : Nat) :
    (cacgmmFit tiny eps floor herm clip eigh y aff sal n).fix lead =
      cacgmmFit tiny eps floor herm clip eigh (fixLead y 2 lead) (fixLead aff 2 lead) (sal.map (fixLead · 1 lead)) n :=
  cacgmmFit_fixLead tiny eps floor herm clip eigh y aff sal lead
    (by simp only [T.rank, hy, List.length_cons]; omega) (by simp only [T.rank, ha, List.length_cons]; omega)
    (by intro s h; simp only [T.rank, hs s h, List.length_cons]; omega) n

/-- and its posterior and quadratic form (`_predict` of the fitted model) -/
theorem cacgmmFitPredict_slices (tiny eps floor : α) (herm : Bool) (clip : Option α) (eigh : T κ → T κ × T α) (y : T κ)
    (aff : T α) (sal : Option (T α)) (lead : List Nat)
    (hy : 2 ≤ y.rank) (ha : 2 ≤ aff.rank) (hs : ∀ s, sal = some s → 1 ≤ s.rank) (n : Nat) :
    fixLead (cacgmmPredict tiny clip (cacgmmFit tiny eps floor herm clip eigh y aff sal n) y).1 2 lead =
      (cacgmmPredict tiny clip
        (cacgmmFit tiny eps floor herm clip eigh (fixLead y 2 lead) (fixLead aff 2 lead) (sal.map (fixLead · 1 lead)) n)
        (fixLead y 2 lead)).1 := by
  obtain ⟨h1, h2, h3⟩ := cacgmmFit_ranks tiny eps floor herm clip eigh y aff sal hy ha n
  rw [(cacgmmPredict_fixLead tiny clip _ y lead h1 h2 h3 hy).1,
    cacgmmFit_fixLead tiny eps floor herm clip eigh y aff sal lead hy ha hs n]

/-- **`CACGMMTrainer.fit` itself**: `normalize_observation` (unit norm, swap `D` and `N`), `np.broadcast_to` of an initial
affiliation whose leading axes may be singletons, then the loop.  The slice of the fit of the stack is the fit of the
slice started from the slice of the initial affiliation (a singleton leading axis is read at 0, i.e. as if repeated). -/
theorem cacgmmTrainerFit_slices (tiny eps floor : α) (herm : Bool) (clip : Option α) (eigh : T κ → T κ × T α) (y : T κ)
    (init : T α) (sal : Option (T α)) (lead : List Nat)
    (hy : 2 ≤ y.rank) (hi : 2 ≤ init.rank) (hs : ∀ s, sal = some s → 1 ≤ s.rank)
    (hlen : (init.rshape.drop 2).length ≤ (y.rshape.drop 2).length)
    (hcompat : ∀ i, i < (init.rshape.drop 2).length → (init.rshape.drop 2).getD i 1 ≠ 1 → (y.rshape.drop 2).getD i 1 ≠ 1)
    (n : Nat) :
    (cacgmmTrainerFit tiny eps floor herm clip eigh y init sal n).fix lead =
      cacgmmTrainerFit tiny eps floor herm clip eigh (fixLead y 2 lead) (fixLead init 2 lead)
        (sal.map (fixLead · 1 lead)) n :=
  cacgmmTrainerFit_fixLead tiny eps floor herm clip eigh y init sal lead hy hi hs hlen hcompat n

end cwmm

/-- non-vacuity of the shape hypotheses of `cwmmFit_slices_shaped`: scatter matrices of shape `(5, 4, K=2, D=3, D=3)`
and the leading index `[3, 2]` (reversed: axis of size 4 at 3, axis of size 5 at 2) -/
example : GoodLead 2 (⟨[3, 3, 2, 4, 5], fun _ => 0⟩ : T Nat) [3, 2] ∧ ValidLead [4, 5] [3, 2] ∧ (∀ d, d ∈ [4, 5] → 0 < d) :=
  ⟨goodLeadB_sound (by decide), validLeadB_sound (by decide), by decide⟩

/-- `mapCore_class_slices` evaluated: "transpose every 2×2 matrix" applied to a `(3, 2, 2, 2)` stack (leading axis 3,
class axis 2), read at leading index 2, class 1, entry `[1, 0]` -/
example :
    let t : T Nat := ⟨[2, 2, 2, 3], fun idx => idx.getD 0 0 + 10 * idx.getD 1 0 + 100 * idx.getD 2 0 + 1000 * idx.getD 3 0⟩
    let tr : T Nat → T Nat := fun m => ⟨[2, 2], fun i => m.get [i.getD 1 0, i.getD 0 0]⟩
    (fixLead (mapCore 2 2 [2, 2] tr t) 3 [2]).get [1, 0, 1] = 2110 ∧
    (mapCore 2 2 [2, 2] tr (fixLead t 3 [2])).get [1, 0, 1] = 2110 := by
  decide


/-! ## Non-interference on the executable EM model `Em.fit` (`PbBss/Proofs/EmSlices.lean`)

The theorems above are about the tensor-layout transcriptions; the same property on the EM model of C02/C03 with the `sliced`
family (independent component parameters per leading index, weights tied within a slice): whatever the other slices
contain, slice `f₀` gets the result it would get alone — for every component family whose one-component fit ignores
observations of weight 0 (`MstepLocal`: proved for the spherical / diagonal / full Gaussian, vMF, Watson, cACG families and
preserved by `sliced` and `prodFamily`), every weight rule, every number of iterations. -/
section em_model
open PbBss.Em PbBss.EmProof
variable {Θ Y : Type} {K N F : Nat}

/-- two stacked problems that agree on slice `f₀` (same bins everywhere; same values, saliencies and start affiliations on
`f₀`; anything else elsewhere) have the same slice-`f₀` components, the same weights and the same posteriors on `f₀` -/
theorem em_sliced_fit_noninterference (tiny : ℝ) (fam : Family Θ Y ℝ) (hloc : MstepLocal fam) (rule : WeightRule)
    (tie : Tying N) (eps : ℝ) (f₀ : Fin F) (y y' : Fin N → Fin F × Y) (s s' : Fin N → ℝ)
    (γ₀ γ₀' : Fin (K+1) → Fin N → ℝ)
    (hbin : ∀ n, (y n).1 = (y' n).1) (hval : ∀ n, (y n).1 = f₀ → (y n).2 = (y' n).2)
    (hsal : ∀ n, (y n).1 = f₀ → s n = s' n) (hγ : ∀ k n, (y n).1 = f₀ → γ₀ k n = γ₀' k n)
    (htie : tie.uniform = true ∨ ∀ n m, (y n).1 = f₀ → (y m).1 ≠ f₀ → rd tie.grp n ≠ rd tie.grp m) (n : Nat) :
    (∀ k, rd ((fit tiny (sliced fam) rule tie eps s y n γ₀).c k) f₀
        = rd ((fit tiny (sliced fam) rule tie eps s' y' n γ₀').c k) f₀)
    ∧ (∀ k m, (y m).1 = f₀ → (fit tiny (sliced fam) rule tie eps s y n γ₀).w k m
        = (fit tiny (sliced fam) rule tie eps s' y' n γ₀').w k m)
    ∧ (∀ k m, (y m).1 = f₀ → eStep tiny (sliced fam) (fit tiny (sliced fam) rule tie eps s y n γ₀) y k m
        = eStep tiny (sliced fam) (fit tiny (sliced fam) rule tie eps s' y' n γ₀') y' k m) :=
  EmProof.sliced_fit_noninterference tiny fam hloc rule tie eps f₀ y y' s s' γ₀ γ₀' hbin hval hsal hγ htie n

/-- … and they are those of the single-slice problem fitted with the plain (un-sliced) family -/
theorem em_sliced_fit_eq_single (tiny : ℝ) (fam : Family Θ Y ℝ) (hloc : MstepLocal fam) (rule : WeightRule)
    (tie : Tying N) (eps : ℝ) (f₀ : Fin F) (y : Fin N → Fin F × Y) (s : Fin N → ℝ) (γ₀ γ₀' : Fin (K+1) → Fin N → ℝ)
    (hγ : ∀ k n, (y n).1 = f₀ → γ₀ k n = γ₀' k n)
    (htie : tie.uniform = true ∨ ∀ n m, (y n).1 = f₀ → (y m).1 ≠ f₀ → rd tie.grp n ≠ rd tie.grp m) (n : Nat) :
    (∀ k, rd ((fit tiny (sliced fam) rule tie eps s y n γ₀).c k) f₀
        = (fit tiny fam rule tie eps (aloneSal f₀ y s) (fun n => (y n).2) n γ₀').c k)
    ∧ (∀ k m, (y m).1 = f₀ → (fit tiny (sliced fam) rule tie eps s y n γ₀).w k m
        = (fit tiny fam rule tie eps (aloneSal f₀ y s) (fun n => (y n).2) n γ₀').w k m)
    ∧ (∀ k m, (y m).1 = f₀ → eStep tiny (sliced fam) (fit tiny (sliced fam) rule tie eps s y n γ₀) y k m
        = eStep tiny fam (fit tiny fam rule tie eps (aloneSal f₀ y s) (fun n => (y n).2) n γ₀')
            (fun n => (y n).2) k m) :=
  EmProof.sliced_fit_eq_single tiny fam hloc rule tie eps f₀ y s γ₀ γ₀' hγ htie n

/-- the locality hypothesis holds for every family of `Em.lean` (here: cACG and the GCACGMM composite) -/
theorem em_mstep_local_cacg (D : Nat) (eigh : Tab (D+1) (Tab (D+1) ℂ) → Tab (D+1) (Tab (D+1) ℂ) × Tab (D+1) ℝ)
    (nrm : CovNorm) (floor tiny : ℝ) : MstepLocal (cacgFamily D eigh nrm floor tiny) :=
  cacgFamily_local D eigh nrm floor tiny

theorem em_mstep_local_gcacgmm (F D E : Nat) (eigh : Tab (D+1) (Tab (D+1) ℂ) → Tab (D+1) (Tab (D+1) ℂ) × Tab (D+1) ℝ)
    (nrm : CovNorm) (floor tiny tinyG log2pi : ℝ) :
    MstepLocal (prodFamily (sliced (F := F) (cacgFamily D eigh nrm floor tiny)) (sphFamily E tinyG log2pi)) :=
  prodFamily_local _ _ (sliced_local _ (cacgFamily_local D eigh nrm floor tiny)) (sphFamily_local E tinyG log2pi)

end em_model

end PbBss.C06

import PbBss.Proofs.MetricsProof
/-! # C19 — SI-SDR and invasive SXR metrics obey their defining identities

Statements only (helper lemmas in `PbBss/Proofs/MetricsProof.lean`).  Model: `PbBss/Model/Metrics.lean`
(transcription of `pb_bss/evaluation/module_si_sdr.py` and `sxr_module.py`), tied to the code by the
correspondence run of `harness/props/c19.py`.  All theorems are about the real-number interpretation of the model;
guards (`0 <` powers, `≠ 0` scalings) are exactly the inputs on which the floating-point code returns finite
values, they are hypotheses and not consequences of totalised division. -/
namespace PbBss.C19
open PbBss PbBss.Metrics PbBss.MetricsProof

/-! ## si_sdr -/

/-- `si_sdr(s, ŝ) = 10 log₁₀ (‖α s‖² / ‖ŝ − α s‖²)` with `α = ⟨s, ŝ⟩ / ‖s‖²`, and this `α` minimises the residual
`‖ŝ − c s‖²` over all scalings `c` (the "optimal alpha" of the property) -/
theorem sisdr_def {T : Nat} (s e : Fin T → ℝ) :
    let a := (∑ t, s t * e t) / (∑ t, s t ^ 2)
    siSdr s e = 10 * Real.logb 10 ((∑ t, (a * s t) ^ 2) / (∑ t, (e t - a * s t) ^ 2)) ∧
      ∀ c : ℝ, ∑ t, (e t - a * s t) ^ 2 ≤ ∑ t, (e t - c * s t) ^ 2 := by
  intro a
  have ha : a = optimalScaling s e := by simp [a, optimalScaling, energy_eq, dot_eq]
  rw [ha]
  exact ⟨siSdr_eq s e, optimalScaling_minimises s e⟩

/-- invariance under non-zero rescaling of the reference (`a`) and of the estimate (`b`).  No hypothesis on `s`, `ŝ` is
needed: for a silent reference (or a perfect estimate) both sides are the same degenerate value — `nan` (`inf`) in
the floating-point code, the totalised value over ℝ — so the identity is not vacuous-by-totalisation on the domain
(`‖s‖ ≠ 0`), which is where the correspondence run exercises it -/
theorem sisdr_scale {T : Nat} (s e : Fin T → ℝ) (a b : ℝ) (ha : a ≠ 0) (hb : b ≠ 0) :
    siSdr (fun t => a * s t) (fun t => b * e t) = siSdr s e := siSdr_scale s e a b ha hb

/-- `si_sdr` acts independently per leading index: entry `i` of the result depends on slice `i` of the (broadcast)
inputs only -/
theorem sisdr_leading_index {ι : Type} {T : Nat} (s e s' e' : ι → Fin T → ℝ) (i : ι)
    (hs : s i = s' i) (he : e i = e' i) :
    siSdrBatch s e i = siSdrBatch s' e' i ∧ siSdrBatch s e i = siSdr (s i) (e i) := by
  simp [siSdrBatch, hs, he]

/-! ## input_sxr -/

/-- powers the code computes first: `get_variance_for_zero_mean_signal(·, axis=-1)` -/
noncomputable def powers2 {K D T : Nat} (x : Fin K → Fin D → Fin T → ℝ) : Fin K → Fin D → ℝ := fun k d => meanPower (x k d)
noncomputable def powers1 {D T : Nat} (x : Fin D → Fin T → ℝ) : Fin D → ℝ := fun d => meanPower (x d)

/-- `1/SDR = 1/SIR + 1/SNR` in the linear domain and `SDR ≤ min(SIR, SNR)`, per source and channel
(`average_sources=False, average_channels=False`); at least two sources, positive powers -/
theorem input_sxr_decomp {K D : Nat} (S : Fin K → Fin D → ℝ) (N : Fin D → ℝ) (hS : ∀ k d, 0 < S k d)
    (hN : ∀ d, 0 < N d) (k j : Fin K) (hjk : j ≠ k) (d : Fin D) :
    let r := inputSxrFF S N k d
    pow10 (-r.1 / 10) = pow10 (-r.2.1 / 10) + pow10 (-r.2.2 / 10) ∧ r.1 ≤ r.2.1 ∧ r.1 ≤ r.2.2 := by
  have hI := interference_pos S hS k j hjk d
  exact ⟨sxr_decomposition (hS k d) hI (hN d), sxr_sdr_le (hS k d) hI (hN d)⟩

/-- the same after channel averaging (`average_channels=True`) -/
theorem input_sxr_decomp_avg_channels {K D : Nat} (hD : 0 < D) (S : Fin K → Fin D → ℝ) (N : Fin D → ℝ)
    (hS : ∀ k d, 0 < S k d) (hN : ∀ d, 0 < N d) (k j : Fin K) (hjk : j ≠ k) :
    let r := inputSxrFT S N k
    pow10 (-r.1 / 10) = pow10 (-r.2.1 / 10) + pow10 (-r.2.2 / 10) ∧ r.1 ≤ r.2.1 ∧ r.1 ≤ r.2.2 := by
  have hpos : ∀ f : Fin D → ℝ, (∀ d, 0 < f d) → 0 < mean f := by
    intro f hf
    rw [mean_eq]
    have : 0 < ∑ d, f d := Finset.sum_pos (fun d _ => hf d) ⟨⟨0, hD⟩, Finset.mem_univ _⟩
    positivity
  have h1 := hpos (S k) (hS k)
  have h2 := hpos (interference S k) (fun d => interference_pos S hS k j hjk d)
  have h3 := hpos N hN
  exact ⟨sxr_decomposition h1 h2 h3, sxr_sdr_le h1 h2 h3⟩

/-- a single source (`K = 1`) has no interference: `SDR = SNR` -/
theorem input_sxr_single_source {D : Nat} (S : Fin 1 → Fin D → ℝ) (N : Fin D → ℝ) (d : Fin D) :
    (inputSxrFF S N 0 d).1 = (inputSxrFF S N 0 d).2.2 := by
  have : interference S 0 d = 0 := by simp [interference_eq]
  simp [inputSxrFF, this, sxr_no_interference]

/-- `SDR ≤ SIR` and `SDR ≤ SNR` survive the averaging over sources (all four option combinations are covered by
this and the two theorems above) -/
theorem input_sxr_sdr_le_avg_sources {K D : Nat} (S : Fin K → Fin D → ℝ) (N : Fin D → ℝ)
    (hS : ∀ k d, 0 < S k d) (hN : ∀ d, 0 < N d) (hK : 2 ≤ K) (d : Fin D) :
    (inputSxrTF S N d).1 ≤ (inputSxrTF S N d).2.1 ∧ (inputSxrTF S N d).1 ≤ (inputSxrTF S N d).2.2 := by
  have other : ∀ k : Fin K, ∃ j : Fin K, j ≠ k := by
    intro k
    by_cases h : k.val = 0
    · exact ⟨⟨1, by omega⟩, by intro e; have := congrArg Fin.val e; simp at this; omega⟩
    · exact ⟨⟨0, by omega⟩, by intro e; have := congrArg Fin.val e; simp at this; omega⟩
  simp only [inputSxrTF, meanTriple]
  constructor
  · apply mean_le_mean; intro k
    obtain ⟨j, hj⟩ := other k
    exact (input_sxr_decomp S N hS hN k j hj d).2.1
  · apply mean_le_mean; intro k
    obtain ⟨j, hj⟩ := other k
    exact (input_sxr_decomp S N hS hN k j hj d).2.2

/-- … and the averaging over channels AND sources (the default options) -/
theorem input_sxr_sdr_le_avg_both {K D : Nat} (hD : 0 < D) (S : Fin K → Fin D → ℝ) (N : Fin D → ℝ)
    (hS : ∀ k d, 0 < S k d) (hN : ∀ d, 0 < N d) (hK : 2 ≤ K) :
    (inputSxrTT S N).1 ≤ (inputSxrTT S N).2.1 ∧ (inputSxrTT S N).1 ≤ (inputSxrTT S N).2.2 := by
  have other : ∀ k : Fin K, ∃ j : Fin K, j ≠ k := by
    intro k
    by_cases h : k.val = 0
    · exact ⟨⟨1, by omega⟩, by intro e; have := congrArg Fin.val e; simp at this; omega⟩
    · exact ⟨⟨0, by omega⟩, by intro e; have := congrArg Fin.val e; simp at this; omega⟩
  simp only [inputSxrTT, meanTriple]
  constructor
  · apply mean_le_mean; intro k
    obtain ⟨j, hj⟩ := other k
    exact (input_sxr_decomp_avg_channels hD S N hS hN k j hj).2.1
  · apply mean_le_mean; intro k
    obtain ⟨j, hj⟩ := other k
    exact (input_sxr_decomp_avg_channels hD S N hS hN k j hj).2.2

/-- a common rescaling of all images and of the noise by `c ≠ 0` changes nothing (every option combination) -/
theorem input_sxr_common_scale {K D T : Nat} (images : Fin K → Fin D → Fin T → ℝ) (noise : Fin D → Fin T → ℝ)
    (c : ℝ) (hc : c ≠ 0) :
    let S := powers2 images; let N := powers1 noise
    let S' := powers2 fun k d t => c * images k d t; let N' := powers1 fun d t => c * noise d t
    (∀ k d, inputSxrFF S' N' k d = inputSxrFF S N k d) ∧ (∀ k, inputSxrFT S' N' k = inputSxrFT S N k) ∧
    (∀ d, inputSxrTF S' N' d = inputSxrTF S N d) ∧ inputSxrTT S' N' = inputSxrTT S N := by
  intro S N S' N'
  have hc2 : c ^ 2 ≠ 0 := pow_ne_zero 2 hc
  have hS' : S' = fun k d => c ^ 2 * S k d := by funext k d; exact meanPower_smul c _
  have hN' : N' = fun d => c ^ 2 * N d := by funext d; exact meanPower_smul c _
  have hFF : ∀ k d, inputSxrFF S' N' k d = inputSxrFF S N k d := by
    intro k d
    simp only [inputSxrFF, hS', hN', interference_scale, sxrTriple_common_scale hc2]
  have hFT : ∀ k, inputSxrFT S' N' k = inputSxrFT S N k := by
    intro k
    have hI : interference (fun k d => c ^ 2 * S k d) k = fun d => c ^ 2 * interference S k d := by
      funext d; exact interference_scale S _ k d
    simp only [inputSxrFT, hS', hN', hI, mean_scale, sxrTriple_common_scale hc2]
  refine ⟨hFF, hFT, ?_, ?_⟩
  · intro d; simp only [inputSxrTF, hFF]
  · simp only [inputSxrTT, hFT]

/-- scaling all source images by `c ≠ 0` (noise unchanged): SIR unchanged, SNR shifted by exactly `20 log₁₀ |c|`
— per source, with and without channel averaging, and after averaging over `K ≥ 1` sources -/
theorem input_sxr_image_scale {K D T : Nat} (images : Fin K → Fin D → Fin T → ℝ) (noise : Fin D → Fin T → ℝ)
    (c : ℝ) (hc : c ≠ 0) (hD : 0 < D) (hK : 0 < K) (hS : ∀ k d, 0 < powers2 images k d) (hN : ∀ d, 0 < powers1 noise d) :
    let S := powers2 images; let N := powers1 noise
    let S' := powers2 fun k d t => c * images k d t
    (∀ k d, (inputSxrFF S' N k d).2.1 = (inputSxrFF S N k d).2.1 ∧
            (inputSxrFF S' N k d).2.2 = (inputSxrFF S N k d).2.2 + 20 * log10 |c|) ∧
    (∀ k, (inputSxrFT S' N k).2.1 = (inputSxrFT S N k).2.1 ∧
          (inputSxrFT S' N k).2.2 = (inputSxrFT S N k).2.2 + 20 * log10 |c|) ∧
    (∀ d, (inputSxrTF S' N d).2.1 = (inputSxrTF S N d).2.1 ∧
          (inputSxrTF S' N d).2.2 = (inputSxrTF S N d).2.2 + 20 * log10 |c|) ∧
    ((inputSxrTT S' N).2.1 = (inputSxrTT S N).2.1 ∧ (inputSxrTT S' N).2.2 = (inputSxrTT S N).2.2 + 20 * log10 |c|) := by
  intro S N S'
  have hc2 : 0 < c ^ 2 := by positivity
  have hS' : S' = fun k d => c ^ 2 * S k d := by funext k d; exact meanPower_smul c _
  have hmean : ∀ f : Fin D → ℝ, (∀ d, 0 < f d) → 0 < mean f := by
    intro f hf
    rw [mean_eq]
    have : 0 < ∑ d, f d := Finset.sum_pos (fun d _ => hf d) ⟨⟨0, hD⟩, Finset.mem_univ _⟩
    positivity
  have hFF : ∀ k d, (inputSxrFF S' N k d).2.1 = (inputSxrFF S N k d).2.1 ∧
      (inputSxrFF S' N k d).2.2 = (inputSxrFF S N k d).2.2 + 20 * log10 |c| := by
    intro k d
    simp only [inputSxrFF, hS', interference_scale]
    rw [← dB_sq]
    exact sxrTriple_image_scale hc2 (hS k d) (hN d)
  have hFT : ∀ k, (inputSxrFT S' N k).2.1 = (inputSxrFT S N k).2.1 ∧
      (inputSxrFT S' N k).2.2 = (inputSxrFT S N k).2.2 + 20 * log10 |c| := by
    intro k
    have hI : interference (fun k d => c ^ 2 * S k d) k = fun d => c ^ 2 * interference S k d := by
      funext d; exact interference_scale S _ k d
    simp only [inputSxrFT, hS', hI, mean_scale]
    rw [← dB_sq]
    exact sxrTriple_image_scale hc2 (hmean _ (hS k)) (hmean _ hN)
  refine ⟨hFF, hFT, ?_, ?_⟩
  · intro d
    simp only [inputSxrTF, meanTriple]
    refine ⟨by simp only [(hFF _ d).1], ?_⟩
    simp only [(hFF _ d).2]
    exact mean_add_const hK _ _
  · simp only [inputSxrTT, meanTriple]
    refine ⟨by simp only [(hFT _).1], ?_⟩
    simp only [(hFT _).2]
    exact mean_add_const hK _ _

/-! ## output_sxr -/

/-- **selection maximality** (discrete): for `K_source ≤ K_target` the exhaustive search returns an injective
selection of outputs, and it captures at least as much source power `Σ_k S[k, sel k]` as EVERY injective
selection (the search is an arg-max, not an arg-min, over all of them) -/
theorem output_sxr_selection_max {Ks Kt : Nat} (hKt : 0 < Kt) (h : Ks ≤ Kt) (S : Fin Ks → Fin Kt → ℝ) :
    ∃ p, selectOutputs Ks Kt (extend S) = some p ∧ IsSelection Ks Kt p ∧
      ∀ f : Fin Ks → Fin Kt, Function.Injective f → ∑ k, S k (f k) ≤ ∑ k, S k (selFn hKt p k) := by
  obtain ⟨r, hr, hsel, hval, hmax⟩ := selectOutputs_max Ks Kt h (extend S)
  refine ⟨r.1, by simp [selectOutputs, hr], hsel, ?_⟩
  intro f hf
  have h1 := hmax _ (isSelection_ofFn f hf)
  rw [hval, permScore_extend hKt S _ (isSelection_ofFn f hf).1 (isSelection_ofFn f hf).2.2,
    permScore_extend hKt S _ hsel.1 hsel.2.2] at h1
  simpa [selFn_ofFn] using h1

/-- ties: among equally good selections the FIRST one in `itertools.permutations` order is taken (`np.argmax`):
every selection enumerated before the chosen one captures strictly less power, every selection at most as much -/
theorem output_sxr_selection_first_max {Ks Kt : Nat} (h : Ks ≤ Kt) (S : Nat → Nat → ℝ) :
    ∃ r l1 l2, optimalLoop S (selections Ks Kt) none = some r ∧ selections Ks Kt = l1 ++ r.1 :: l2 ∧
      r.2 = permScore S r.1 ∧ (∀ p ∈ l1, permScore S p < r.2) ∧ ∀ p ∈ selections Ks Kt, permScore S p ≤ r.2 := by
  obtain ⟨r, h1, h2⟩ := optimalLoop_first S (selections Ks Kt) none (Or.inl (selections_ne_nil h))
  obtain ⟨r', h1', -, -, hmax⟩ := selectOutputs_max Ks Kt h S
  rw [h1] at h1'; cases h1'
  rcases h2 with h2 | ⟨l1, l2, e, hv, hl, -⟩
  · cases h2
  · exact ⟨r, l1, l2, h1, e, hv, hl, fun p hp => hmax p (mem_selections.mp hp)⟩

/-- fewer outputs than sources: there is no injective selection, the model returns `none` (the code's shape
assertion fails) — the error branch of the totalised definition -/
theorem output_sxr_too_few_outputs {Ks Kt : Nat} (hKt : 0 < Kt) (h : Kt < Ks) (S : Fin Ks → Fin Kt → ℝ) (N : Fin Kt → ℝ) :
    outputSxrF hKt S N = none := by
  have hnil : selections Ks Kt = [] := by
    rw [List.eq_nil_iff_forall_not_mem]
    intro p hp
    obtain ⟨h1, h2⟩ := lexPermsAux_sound' Ks _ p hp
    have := h2.length_le
    simp at this; omega
  simp [outputSxrF, selectOutputs, hnil, optimalLoop]

/-- `1/SDR = 1/SIR + 1/SNR` and `SDR ≤ min(SIR, SNR)` for every source of `output_sxr(average_sources=False)` -/
theorem output_sxr_decomp {Ks Kt : Nat} (hKt : 0 < Kt) (S : Fin Ks → Fin Kt → ℝ) (N : Fin Kt → ℝ)
    (hS : ∀ k j, 0 < S k j) (hN : ∀ j, 0 < N j) (per : Fin Ks → ℝ × ℝ × ℝ) (hper : outputSxrF hKt S N = some per)
    (k i : Fin Ks) (hik : i ≠ k) :
    pow10 (-(per k).1 / 10) = pow10 (-(per k).2.1 / 10) + pow10 (-(per k).2.2 / 10) ∧
      (per k).1 ≤ (per k).2.1 ∧ (per k).1 ≤ (per k).2.2 := by
  simp only [outputSxrF, Option.map_eq_some_iff] at hper
  obtain ⟨p, -, rfl⟩ := hper
  have hI := outInterference_pos S hS k i hik (selFn hKt p k)
  exact ⟨sxr_decomposition (hS _ _) hI (hN _), sxr_sdr_le (hS _ _) hI (hN _)⟩

/-- `SDR ≤ min(SIR, SNR)` also after averaging over the sources (`average_sources=True`) -/
theorem output_sxr_sdr_le_avg {Ks Kt : Nat} (hKt : 0 < Kt) (hKs : 2 ≤ Ks) (S : Fin Ks → Fin Kt → ℝ) (N : Fin Kt → ℝ)
    (hS : ∀ k j, 0 < S k j) (hN : ∀ j, 0 < N j) (r : ℝ × ℝ × ℝ) (hr : outputSxrT hKt S N = some r) :
    r.1 ≤ r.2.1 ∧ r.1 ≤ r.2.2 := by
  simp only [outputSxrT, Option.map_eq_some_iff] at hr
  obtain ⟨per, hper, rfl⟩ := hr
  have other : ∀ k : Fin Ks, ∃ j : Fin Ks, j ≠ k := by
    intro k
    by_cases h : k.val = 0
    · exact ⟨⟨1, by omega⟩, by intro e; have := congrArg Fin.val e; simp at this; omega⟩
    · exact ⟨⟨0, by omega⟩, by intro e; have := congrArg Fin.val e; simp at this; omega⟩
  simp only [meanTriple]
  constructor
  · apply mean_le_mean; intro k
    obtain ⟨j, hj⟩ := other k
    exact (output_sxr_decomp hKt S N hS hN per hper k j hj).2.1
  · apply mean_le_mean; intro k
    obtain ⟨j, hj⟩ := other k
    exact (output_sxr_decomp hKt S N hS hN per hper k j hj).2.2

/-- a common rescaling of image and noise contributions by `c ≠ 0` changes neither the selection nor any value -/
theorem output_sxr_common_scale {Ks Kt T : Nat} (hKt : 0 < Kt) (ic : Fin Ks → Fin Kt → Fin T → ℝ)
    (nc : Fin Kt → Fin T → ℝ) (c : ℝ) (hc : c ≠ 0) :
    outputSxrF hKt (powers2 fun k j t => c * ic k j t) (powers1 fun j t => c * nc j t) =
      outputSxrF hKt (powers2 ic) (powers1 nc) ∧
    outputSxrT hKt (powers2 fun k j t => c * ic k j t) (powers1 fun j t => c * nc j t) =
      outputSxrT hKt (powers2 ic) (powers1 nc) := by
  have hc2 : 0 < c ^ 2 := by positivity
  have hS' : (powers2 fun k j t => c * ic k j t) = fun k j => c ^ 2 * powers2 ic k j := by
    funext k j; exact meanPower_smul c _
  have hN' : (powers1 fun j t => c * nc j t) = fun j => c ^ 2 * powers1 nc j := by
    funext j; exact meanPower_smul c _
  have hF : outputSxrF hKt (powers2 fun k j t => c * ic k j t) (powers1 fun j t => c * nc j t) =
      outputSxrF hKt (powers2 ic) (powers1 nc) := by
    simp only [outputSxrF, hS', hN', extend_scale, selectOutputs_scale _ _ _ _ hc2]
    congr 1
    funext p k
    exact outputSxrPer_common_scale _ _ _ hc2.ne' _ _
  exact ⟨hF, by simp only [outputSxrT, hF]⟩

/-- scaling all image contributions by `c ≠ 0` (noise contribution unchanged): the selection is unchanged, SIR is
unchanged and SNR shifts by exactly `20 log₁₀ |c|`, per source -/
theorem output_sxr_image_scale {Ks Kt T : Nat} (hKt : 0 < Kt) (ic : Fin Ks → Fin Kt → Fin T → ℝ)
    (nc : Fin Kt → Fin T → ℝ) (c : ℝ) (hc : c ≠ 0) (hS : ∀ k j, 0 < powers2 ic k j) (hN : ∀ j, 0 < powers1 nc j)
    (per : Fin Ks → ℝ × ℝ × ℝ) (hper : outputSxrF hKt (powers2 ic) (powers1 nc) = some per) :
    ∃ per', outputSxrF hKt (powers2 fun k j t => c * ic k j t) (powers1 nc) = some per' ∧
      ∀ k, (per' k).2.1 = (per k).2.1 ∧ (per' k).2.2 = (per k).2.2 + 20 * log10 |c| := by
  have hc2 : 0 < c ^ 2 := by positivity
  have hS' : (powers2 fun k j t => c * ic k j t) = fun k j => c ^ 2 * powers2 ic k j := by
    funext k j; exact meanPower_smul c _
  simp only [outputSxrF, Option.map_eq_some_iff] at hper
  obtain ⟨p, hp, rfl⟩ := hper
  refine ⟨outputSxrPer (fun k j => c ^ 2 * powers2 ic k j) (powers1 nc) (selFn hKt p), ?_, ?_⟩
  · simp only [outputSxrF, hS', extend_scale, selectOutputs_scale _ _ _ _ hc2, hp, Option.map_some]
  intro k
  rw [← dB_sq]
  exact outputSxrPer_image_scale _ _ _ hc2 hS hN _ _

/-- the same after averaging over `K_source ≥ 1` sources (`average_sources=True`) -/
theorem output_sxr_image_scale_avg {Ks Kt T : Nat} (hKt : 0 < Kt) (hKs : 0 < Ks) (ic : Fin Ks → Fin Kt → Fin T → ℝ)
    (nc : Fin Kt → Fin T → ℝ) (c : ℝ) (hc : c ≠ 0) (hS : ∀ k j, 0 < powers2 ic k j) (hN : ∀ j, 0 < powers1 nc j)
    (r : ℝ × ℝ × ℝ) (hr : outputSxrT hKt (powers2 ic) (powers1 nc) = some r) :
    ∃ r', outputSxrT hKt (powers2 fun k j t => c * ic k j t) (powers1 nc) = some r' ∧
      r'.2.1 = r.2.1 ∧ r'.2.2 = r.2.2 + 20 * log10 |c| := by
  simp only [outputSxrT, Option.map_eq_some_iff] at hr
  obtain ⟨per, hper, rfl⟩ := hr
  obtain ⟨per', hper', hk⟩ := output_sxr_image_scale hKt ic nc c hc hS hN per hper
  refine ⟨meanTriple per', by simp [outputSxrT, hper'], ?_, ?_⟩
  · simp only [meanTriple, (hk _).1]
  · simp only [meanTriple, (hk _).2]
    exact mean_add_const hKs _ _

/-- **the order of the estimated outputs does not matter** (tie-free constellations: no two injective selections
capture exactly the same power): permuting the outputs of the image and noise contributions by any permutation
`σ` leaves all values of `output_sxr` unchanged, with and without averaging over the sources -/
theorem output_sxr_perm_invariant {Ks Kt : Nat} (hKt : 0 < Kt) (h : Ks ≤ Kt) (S : Fin Ks → Fin Kt → ℝ) (N : Fin Kt → ℝ)
    (σ : Equiv.Perm (Fin Kt))
    (tieFree : ∀ p q, IsSelection Ks Kt p → IsSelection Ks Kt q → p ≠ q →
      permScore (extend S) p ≠ permScore (extend S) q) :
    outputSxrF hKt (fun k j => S k (σ j)) (fun j => N (σ j)) = outputSxrF hKt S N ∧
    outputSxrT hKt (fun k j => S k (σ j)) (fun j => N (σ j)) = outputSxrT hKt S N := by
  have hF := outputSxrF_perm_invariant hKt h S N σ σ.symm (fun j => by simp) (fun j => by simp) tieFree
  exact ⟨hF, by simp only [outputSxrT, hF]⟩

/-- non-vacuity of the output theorems: two sources, two outputs, the crossed assignment captures more power and is
selected -/
example : selectOutputs 2 2 (fun k j => if k = j then (1 : Nat) else 3) = some [1, 0] := by decide

/-! ## get_snr / set_snr -/

/-- `set_snr` followed by `get_snr` returns the requested SNR (non-silent target and noise) -/
theorem set_get_snr {T : Nat} (X N : Fin T → ℝ) (snr : ℝ) (hX : 0 < meanPower X) (hN : 0 < meanPower N) :
    getSnr X (setSnr X N snr) = snr := getSnr_setSnr X N snr hX hN

/-! ## return_dict -/

/-- `return_dict=True` gives the dict with keys `sdr, sir, snr`, a non-empty prefix string the dict with prefixed
keys, `False` the tuple — for BOTH functions, whose decision logic agrees on every argument -/
theorem return_dict_shape :
    (∀ rd, outputRet rd = inputRet rd) ∧
    inputRet (.bool true) = .dict ["sdr", "sir", "snr"] ∧ outputRet (.bool true) = .dict ["sdr", "sir", "snr"] ∧
    (∀ s : String, s ≠ "" → inputRet (.str s) = .dict [s ++ "sdr", s ++ "sir", s ++ "snr"] ∧
                            outputRet (.str s) = .dict [s ++ "sdr", s ++ "sir", s ++ "snr"]) ∧
    inputRet (.bool false) = .tuple ∧ outputRet (.bool false) = .tuple := by
  refine ⟨fun rd => rfl, rfl, rfl, ?_, rfl, rfl⟩
  intro s hs
  have : (s != "") = true := by simpa using hs
  simp [inputRet, outputRet, RetArg.truthy, this, sxrKeys]

/-- non-vacuity: a concrete prefix -/
example : outputRet (.str "prefix_") = .dict ["prefix_sdr", "prefix_sir", "prefix_snr"] := by decide

end PbBss.C19

import PbBss.Proofs.JitterProof
import PbBss.Proofs.PlanProof
/-! # C16 — blind alignment restores a frequency-consistent class order

Models: `Model/Plan.lean` (`alignment_plan`), `Model/Align.lean` (`greedyAligner`, `dhtv`).  Tie to the code:
`harness/props/c16.py` (plans exhaustive and exact; mappings exact on continuous random masks).

What is a theorem: plan coverage for every configuration with `shift ≤ width`; the returned mapping is the
accumulated net reordering (DHTV and adjacent-bin chain); identity on consistent masks; the greedy aligner
restores ONE class order for every permutation field under adjacent-bin row dominance, and the stated analytic
domain (patterns with pairwise cosine ≤ 0.1, jitter ≤ 10 %) implies that dominance for the `cos` metric.
What is NOT a theorem (search only): DHTV convergence from a 70 % majority through the interleaved segments. -/
namespace PbBss.C16
open PbBss PbBss.Align PbBss.Plan Function

/-- the DHTV alignment plan covers every frequency bin whenever `start + width ≤ F` and `0 < shift ≤ width` -/
theorem plan_covers (c : Cfg) (hw : c.start + c.width ≤ c.F) (hs : 0 < c.shift) (hsw : c.shift ≤ c.width)
    (f : Nat) (hf : f < c.F) : ∃ seg ∈ plan c, seg.1 ≤ f ∧ f < seg.2 := Plan.plan_covers c hw hs hsw f hf

/-- the first plan entry is the main segment, stretched to the border when there is no lower/upper neighbour -/
theorem plan_segments_within (c : Cfg) :
    (plan c).head? = some (if ((rangeDown c.start c.shift).map fun s => (s, s + c.width)).isEmpty then 0 else c.start,
      if ((rangeUp (c.start + c.shift) (c.F - c.width) c.shift).map fun s => (s, s + c.width)).isEmpty then c.F
      else c.start + c.width) := by
  simp [plan]

section net
variable {α : Type} [Field α] [LinearOrder α] [Transc α] {K F T : Nat}

/-- DHTV: the returned mapping is a per-bin permutation and is exactly the net reordering the procedure
applied: the converged features are `apply_mapping(start features, mapping)` — for EVERY mask, plan, metric
and assignment algorithm -/
theorem dhtv_net_reordering (tiny : α) (metric : Metric) (algo : Algo) (plan : List (Nat × Nat × Nat))
    (mask : Tab3 K F T α) :
    (∀ f, Bijective fun k => at2 (dhtv tiny metric algo plan mask).mapping k f) ∧
    ∀ k f t, at3 (dhtv tiny metric algo plan mask).features k f t =
      applyMapping (fun k f => at3 (dhtvStart tiny metric mask) k f)
        (at2 (dhtv tiny metric algo plan mask).mapping) k f t :=
  dhtv_inv tiny metric algo plan mask

/-- adjacent-bin aligner: identity at bin 0, then `mapping[:, f] = a_f[mapping[:, f-1]]` with `a_f` the
greedy assignment between bins `f` and `f-1` — the chain of adjacent-bin assignments -/
theorem greedyAligner_net (tiny : α) (metric : Metric) (mask : Tab3 K F T α) (k : Fin K) :
    (∀ h0 : 0 < F, greedyAligner tiny metric mask k ⟨0, h0⟩ = k) ∧
    ∀ (f : Nat) (hf : f + 1 < F),
      greedyAligner tiny metric mask k ⟨f + 1, hf⟩ =
        at1 (adjacentAssign tiny metric mask (f + 1)) (greedyAligner tiny metric mask k ⟨f, by omega⟩) :=
  ⟨fun _ => rfl, fun _ _ => rfl⟩
end net

section restore
variable {α : Type} [Field α] [LinearOrder α] [IsStrictOrderedRing α] [Transc α] {K F T : Nat}

/-- an already consistent mask (adjacent-bin row dominant) is returned unchanged: identity mapping -/
theorem consistent_identity (tiny : α) (metric : Metric) (base : Tab3 K F T α)
    (hdom : AdjacentDominant tiny metric base) (k : Fin K) (f : Fin F) :
    greedyAligner tiny metric base k f = k := greedyAligner_identity tiny metric base hdom k f

/-- **greedy aligner**: for EVERY per-frequency permutation field `π` of an adjacent-bin row-dominant mask the
aligned mask has the same class order (`π₀`) in every bin -/
theorem greedyAligner_restores (tiny : α) (metric : Metric) (base : Tab3 K F T α)
    (π : Fin F → Equiv.Perm (Fin K)) (hdom : AdjacentDominant tiny metric base) (k : Fin K) (f : Fin F) (t : Fin T) :
    applyMapping (at3 (permuted base π)) (greedyAligner tiny metric (permuted base π)) k f t
      = at3 base (permAtBin π 0 k) f t := greedyAligner_restores_aux tiny metric base π hdom k f t

/-- DHTV leaves a mask untouched (identity mapping, features unchanged) when every bin of every plan segment is
row dominant at the identity against the segment centroid -/
theorem dhtv_identity_on_dominant (tiny : α) (metric : Metric) (algo : Algo) (plan : List (Nat × Nat × Nat))
    (mask : Tab3 K F T α)
    (hdom : ∀ seg ∈ plan, ∀ f : Fin F, seg.2.1 ≤ f.val → f.val < seg.2.2 → ∀ i j : Fin K, j ≠ i →
      score tiny (if metric == .cos then Metric.multiply else metric)
          (fun k => at3 (dhtvStart tiny metric mask) k f)
          (at2 (tab2 (if metric == .cos then fun k => vecNormalize tiny (centroid (dhtvStart tiny metric mask) seg.2.1 seg.2.2 k)
            else centroid (dhtvStart tiny metric mask) seg.2.1 seg.2.2))) i j
        < score tiny (if metric == .cos then Metric.multiply else metric)
          (fun k => at3 (dhtvStart tiny metric mask) k f)
          (at2 (tab2 (if metric == .cos then fun k => vecNormalize tiny (centroid (dhtvStart tiny metric mask) seg.2.1 seg.2.2 k)
            else centroid (dhtvStart tiny metric mask) seg.2.1 seg.2.2))) i i) :
    dhtv tiny metric algo plan mask = ⟨dhtvStart tiny metric mask, tab2 fun k _ => k⟩ := by
  unfold dhtv
  have hstart : (if (metric == Metric.cos) = true then tab3 (fun k f => vecNormalize tiny (at3 mask k f)) else mask)
      = dhtvStart tiny metric mask := rfl
  simp only [hstart]
  generalize hs0 : (⟨dhtvStart tiny metric mask, tab2 fun k _ => k⟩ : St K F T α) = s0
  have hfeat : s0.features = dhtvStart tiny metric mask := by rw [← hs0]
  clear hs0
  induction plan with
  | nil => rfl
  | cons seg plan ih =>
    simp only [List.foldl_cons]
    have hpass : segmentPass (metric == .cos) (if (metric == .cos) = true then Metric.multiply else metric)
        tiny algo seg.2.1 seg.2.2 s0 = (s0, false) := by
      apply segmentPass_id
      intro f h1 h2
      rw [hfeat]
      exact assign_row_dominant algo _ id bijective_id
        (fun i j hj => hdom seg (by simp) f h1 h2 i j hj)
    rw [segmentIter_id _ _ _ _ _ _ _ hpass]
    exact ih (fun seg' hseg' => hdom seg' (List.mem_cons_of_mem _ hseg'))
end restore

/-- the analytic domain of the property implies the dominance hypothesis (cos metric): non-negative activity
patterns with pairwise cosine ≤ 0.1 and per-bin multiplicative jitter ≤ 10 % -/
theorem jitter_cos_dominant {K F T : Nat} (tiny : ℝ) (pat : Fin K → Fin T → ℝ) (base : Tab3 K F T ℝ)
    (hpat : ∀ k t, 0 ≤ pat k t) (hn : ∀ k, 0 < nrm (pat k))
    (hcos : ∀ k k', k' ≠ k → (∑ t, pat k' t * pat k t) ≤ 0.1 * (nrm (pat k') * nrm (pat k)))
    (hj1 : ∀ k f t, 0.9 * pat k t ≤ at3 base k f t) (hj2 : ∀ k f t, at3 base k f t ≤ 1.1 * pat k t)
    (ht : ∀ k f, tiny ≤ nrm (fun t => at3 base k f t)) :
    AdjacentDominant tiny .cos base := jitter_adjacent_dominant tiny pat base hpat hn hcos hj1 hj2 ht

/-- corollary: in the stated domain the greedy aligner (cos) returns one class order for every permutation field -/
theorem greedyAligner_consistent_in_domain {K F T : Nat} (tiny : ℝ) (pat : Fin K → Fin T → ℝ) (base : Tab3 K F T ℝ)
    (hpat : ∀ k t, 0 ≤ pat k t) (hn : ∀ k, 0 < nrm (pat k))
    (hcos : ∀ k k', k' ≠ k → (∑ t, pat k' t * pat k t) ≤ 0.1 * (nrm (pat k') * nrm (pat k)))
    (hj1 : ∀ k f t, 0.9 * pat k t ≤ at3 base k f t) (hj2 : ∀ k f t, at3 base k f t ≤ 1.1 * pat k t)
    (ht : ∀ k f, tiny ≤ nrm (fun t => at3 base k f t)) (π : Fin F → Equiv.Perm (Fin K)) (k : Fin K) (f : Fin F) (t : Fin T) :
    applyMapping (at3 (permuted base π)) (greedyAligner tiny .cos (permuted base π)) k f t
      = at3 base (permAtBin π 0 k) f t :=
  greedyAligner_restores tiny .cos base π (jitter_cos_dominant tiny pat base hpat hn hcos hj1 hj2 ht) k f t

/-! ### non-vacuity: the shipped 512 default satisfies the plan hypotheses and is covered -/
example : (⟨257, 70, 100, 20⟩ : Cfg).start + (⟨257, 70, 100, 20⟩ : Cfg).width ≤ 257 ∧ (0:Nat) < 20 ∧ 20 ≤ 100 := by decide
example : plan ⟨257, 70, 100, 20⟩ =
    [(70, 170), (90, 190), (50, 150), (110, 210), (30, 130), (130, 230), (0, 110), (150, 257)] := by decide
example : (plan ⟨513, 100, 100, 20⟩).length = 20 := by decide

end PbBss.C16

import PbBss.Props.C16Core
import PbBss.Proofs.AlignTwoLevel
/-! # C16 — blind alignment restores a frequency-consistent class order

`PbBss/Props/C16Core.lean` (same namespace `PbBss.C16`) holds the plan arithmetic, the net-reordering invariants, the
restoration theorems for the greedy aligner and DHTV in the property's analytic domain and the shipped plans.
This file adds the LINK to the EM stage (C03): the posteriors the EM really produces lie in that domain.

* `twoLevel_patterns_in_domain`: a two-level mask (`g` on the frames a class owns, `h` elsewhere, the same owner sequence in
  every bin) satisfies every hypothesis of the restoration theorems as soon as `10·T·h ≤ g` (T frames);
* `twoLevel_restored_by_greedy`: the greedy aligner therefore restores EVERY per-frequency relabelling of it;
* `em_posteriors_restored_by_greedy`, `em_posteriors_restored_by_dhtv`: the masks are literally
  `eStep (fit … n (hardStart c))` of the cACG mixture in the balanced scene (any `n ≥ 1`), scrambled by an arbitrary
  per-bin permutation `π` — the permutation problem EM creates — and the aligners return one class order (DHTV under the
  first-segment majority / `PlanOk` hypothesis of the core theorem), provided `10·N ≤ floor^{-(D+1)}`. -/
namespace PbBss.C16
open PbBss PbBss.Align PbBss.Em PbBss.FixedPoint PbBss.FixedPoint.CacgChain PbBss.PipelineProof Function Finset

/-- two-level masks lie in the domain of the restoration theorems -/
theorem twoLevel_patterns_in_domain {K T : Nat} (F : Nat) (c : Fin T → Fin K) (g h tiny : ℝ) (hh : 0 ≤ h) (hg : h < g)
    (hown : ∀ k, ∃ t, c t = k) (hsmall : 10 * (T : ℝ) * h ≤ g) (htiny : tiny ≤ g) :
    (∀ k t, 0 ≤ twoLevelPat c g h k t) ∧
    (∀ k, 0 < nrm (twoLevelPat c g h k)) ∧
    (∀ k k', k' ≠ k → (∑ t, twoLevelPat c g h k' t * twoLevelPat c g h k t)
        ≤ 0.1 * (nrm (twoLevelPat c g h k') * nrm (twoLevelPat c g h k))) ∧
    (∀ k (f : Fin F) t, 0.9 * twoLevelPat c g h k t ≤ at3 (twoLevelMask F c g h) k f t) ∧
    (∀ k (f : Fin F) t, at3 (twoLevelMask F c g h) k f t ≤ 1.1 * twoLevelPat c g h k t) ∧
    (∀ k (f : Fin F), tiny ≤ nrm (fun t => at3 (twoLevelMask F c g h) k f t)) :=
  Align.twoLevel_patterns_in_domain F c g h tiny hh hg hown hsmall htiny

/-- the greedy aligner restores every per-frequency relabelling of a two-level mask (class order of bin 0) -/
theorem twoLevel_restored_by_greedy {K F T : Nat} (c : Fin T → Fin K) (g h tiny : ℝ) (hh : 0 ≤ h)
    (hg : h < g) (hown : ∀ k, ∃ t, c t = k) (hsmall : 10 * (T : ℝ) * h ≤ g) (htiny : tiny ≤ g)
    (π : Fin F → Equiv.Perm (Fin K)) (k : Fin K) (f : Fin F) (t : Fin T) :
    applyMapping (at3 (permuted (twoLevelMask F c g h) π))
        (greedyAligner tiny .cos (permuted (twoLevelMask F c g h) π)) k f t
      = if c t = permAtBin π 0 k then g else h :=
  Align.twoLevel_restored_by_greedy c g h tiny hh hg hown hsmall htiny π k f t

section em
variable {K N D : Nat} {a : Fin (K+1) → Fin (D+1) → ℂ} {c : Fin N → Fin (K+1)} {z : Fin N → Fin (D+1) → ℂ}

/-- **EM posteriors → greedy aligner**: the masks are the E-step of the cACG mixture fitted for any `n ≥ 1` iterations in
the balanced noise-free scene (`Em.fit`), relabelled per bin by an ARBITRARY `π`; the greedy aligner (cos) returns the class
order of bin 0 in every bin.  One statement across the EM model and the alignment model. -/
theorem em_posteriors_restored_by_greedy {F : Nat}
    (eigh : Tab (D+1) (Tab (D+1) ℂ) → Tab (D+1) (Tab (D+1) ℂ) × Tab (D+1) ℝ)
    (tiny floor : ℝ) (rule : WeightRule) (tie : Tying N) (eps : ℝ) (s : Fin N → ℝ)
    (sc : Scene a c z) (heigh : EighOn eigh tiny z) (htiny : 0 < tiny)
    (h10 : ((10 : ℕ) : ℝ) * tiny ≤ 1) (ht : tiny ≤ 1 / ((K+1 : ℕ) : ℝ)) (hf0 : 0 < floor) (hf1 : floor < 1)
    (htie : tie.uniform = true) (S : ℝ) (hS : tiny ≤ S) (hbal : ∀ k, classMass c s k = S) (n : Nat) (hn : 1 ≤ n)
    (hE : 10 * (N : ℝ) ≤ ratioE D floor) (atiny : ℝ) (hat : atiny ≤ cacgG K D floor)
    (π : Fin F → Equiv.Perm (Fin (K+1))) (k : Fin (K+1)) (f : Fin F) (t : Fin N) :
    let base := emMask F eigh tiny floor rule tie eps s c z n
    applyMapping (at3 (permuted base π)) (greedyAligner atiny .cos (permuted base π)) k f t
      = if c t = permAtBin π 0 k then cacgG K D floor else cacgH K D floor :=
  Align.em_posteriors_restored_by_greedy eigh tiny floor rule tie eps s sc heigh htiny h10 ht hf0 hf1 htie S hS hbal n hn
    hE atiny hat π k f t

/-- **EM posteriors → DHTV**: the same masks under DHTV (cos metric, any assignment algorithm, any plan): with a set `Al₀`
of bins sharing the order `σ₀` and `PlanOk` for the domain constants, every aligned bin has the order `σ₀`. -/
theorem em_posteriors_restored_by_dhtv {F : Nat}
    (eigh : Tab (D+1) (Tab (D+1) ℂ) → Tab (D+1) (Tab (D+1) ℂ) × Tab (D+1) ℝ)
    (tiny floor : ℝ) (rule : WeightRule) (tie : Tying N) (eps : ℝ) (s : Fin N → ℝ)
    (sc : Scene a c z) (heigh : EighOn eigh tiny z) (htiny : 0 < tiny)
    (h10 : ((10 : ℕ) : ℝ) * tiny ≤ 1) (ht : tiny ≤ 1 / ((K+1 : ℕ) : ℝ)) (hf0 : 0 < floor) (hf1 : floor < 1)
    (htie : tie.uniform = true) (S : ℝ) (hS : tiny ≤ S) (hbal : ∀ k, classMass c s k = S) (n : Nat) (hn : 1 ≤ n)
    (hE : 10 * (N : ℝ) ≤ ratioE D floor) (atiny : ℝ) (hat0 : 0 < atiny) (hat : atiny ≤ cacgG K D floor)
    (algo : Algo) (plan : List (Nat × Nat × Nat)) (π : Fin F → Equiv.Perm (Fin (K+1))) (σ0 : Equiv.Perm (Fin (K+1)))
    (Al0 : Finset (Fin F)) (hAl : ∀ f ∈ Al0, π f = σ0)
    (hplan : PlanOk F (0.81 / 1.21) (1.21 / 0.81 * 0.1) plan Al0) :
    let base := emMask F eigh tiny floor rule tie eps s c z n
    ∀ f ∈ alignedAfter F plan Al0, ∀ k,
      (∀ t, at3 (dhtv atiny .cos algo plan (permuted base π)).features k f t = normRows atiny base (σ0 k) f t) ∧
      π f (at2 (dhtv atiny .cos algo plan (permuted base π)).mapping k f) = σ0 k ∧
      ∀ t, applyMapping (at3 (permuted base π)) (at2 (dhtv atiny .cos algo plan (permuted base π)).mapping) k f t
            = if c t = σ0 k then cacgG K D floor else cacgH K D floor :=
  Align.em_posteriors_restored_by_dhtv eigh tiny floor rule tie eps s sc heigh htiny h10 ht hf0 hf1 htie S hS hbal n hn
    hE atiny hat0 hat algo plan π σ0 Al0 hAl hplan

end em

end PbBss.C16

import PbBss.Proofs.EmEquivariance
import PbBss.Proofs.PosteriorProof
/-! # C04 — directional models depend only on the direction of each observation vector

Statements over `ℂ` / `ℝ` about the normalisation entry points (`normalizeWhere`: cACG `normalize_observation`;
`normalizeMax`: Watson / Bingham `normalize_observation` and `predict` of cWMM, cBMM, GCACGMM, VMFCACGMM;
`normalizeMaxR`: vMF) and the statistics through which the directional models read the data (`quadForm`: cACG /
Bingham density, `innerAbsSq`: Watson density, `scatter`: every M-step, `dotR` / `resultant`: vMF).

Key fact: all of them are functions of the outer products `z zᴴ` of the normalised frames
(`quadForm_eq_outer`, `innerAbsSq_eq_outer`, `scatter_eq_outer`), and `z zᴴ` of a normalised frame does not change
when the frame is multiplied by any non-zero complex scalar (`outer_normalizeWhere_smul`, `outer_normalizeMax_smul`).
`em_gain_invariant` lifts this to every number of EM iterations.  Gap: rounding / overflow (ℝ vs `Float`). -/
namespace PbBss.C04
open PbBss PbBss.Posterior PbBss.PosteriorProof

variable {D N : Nat}

/-- cACG normalisation: `normalize (c • y) = (c / |c|) • normalize y` for `c ≠ 0`, `y ≠ 0` -/
theorem normalizeWhere_smul (tiny : ℝ) {c : ℂ} (hc : c ≠ 0) (y : Fin D → ℂ) (hy : ∃ d, y d ≠ 0) (d : Fin D) :
    normalizeWhere (α := ℝ) tiny (fun d => c * y d) d = (c / ((‖c‖ : ℝ) : ℂ)) * normalizeWhere (α := ℝ) tiny y d :=
  PosteriorProof.normalizeWhere_smul tiny hc y hy d

/-- `y / max(‖y‖, tiny)`: the same, under the forced hypothesis that neither norm is floored -/
theorem normalizeMax_smul (tiny : ℝ) {c : ℂ} (hc : c ≠ 0) (y : Fin D → ℂ)
    (h1 : tiny ≤ norm2 (α := ℝ) y) (h2 : tiny ≤ norm2 (α := ℝ) (fun d => c * y d)) (d : Fin D) :
    normalizeMax (α := ℝ) tiny (fun d => c * y d) d = (c / ((‖c‖ : ℝ) : ℂ)) * normalizeMax (α := ℝ) tiny y d :=
  PosteriorProof.normalizeMax_smul tiny hc y h1 h2 d

/-- the hypothesis is forced: a frame whose norm lies below `tiny` is only scaled, not normalised, so a gain
changes the result (`D = 1`, `y = tiny/2`, `c = 2`: `1/2` versus `1`) -/
theorem normalizeMax_floor_excluded {tiny : ℝ} (ht : 0 < tiny) :
    ∃ (c : ℂ) (y : Fin 1 → ℂ), c ≠ 0 ∧ (∃ d, y d ≠ 0) ∧
      normalizeMax (α := ℝ) tiny (fun d => c * y d) 0 ≠ (c / ((‖c‖ : ℝ) : ℂ)) * normalizeMax (α := ℝ) tiny y 0 := by
  have ht' : ((tiny : ℝ) : ℂ) ≠ 0 := by exact_mod_cast ht.ne'
  refine ⟨2, fun _ => ((tiny / 2 : ℝ) : ℂ), by norm_num, ⟨0, by
    simpa using ht.ne'⟩, ?_⟩
  have hn1 : norm2 (α := ℝ) (fun _ : Fin 1 => ((tiny / 2 : ℝ) : ℂ)) = tiny / 2 := by
    rw [norm2_eq]; unfold sqSum
    simp only [Finset.univ_unique, Finset.sum_singleton, Complex.normSq_ofReal]
    rw [← sq, Real.sqrt_sq (by linarith)]
  have hn2 : norm2 (α := ℝ) (fun _ : Fin 1 => (2 : ℂ) * ((tiny / 2 : ℝ) : ℂ)) = tiny := by
    rw [norm2_smul, hn1]; simp; ring
  unfold normalizeMax
  rw [unitNorm_apply, unitNorm_apply, hn1, hn2]
  unfold unitNormDen
  rw [max_self, max_eq_right (by linarith : tiny / 2 ≤ tiny)]
  have h2 : ((‖(2 : ℂ)‖ : ℝ) : ℂ) = 2 := by simp
  rw [h2]
  push_cast
  intro h
  field_simp at h
  norm_num at h

/-- vMF: positive real scaling of an embedding does not change its normalised version -/
theorem normalizeMaxR_pos_smul (tiny : ℝ) {c : ℝ} (hc : 0 < c) (y : Fin D → ℝ) (ht : 0 < tiny)
    (h1 : tiny ≤ Real.sqrt (∑ d, y d * y d)) (h2 : tiny ≤ Real.sqrt (∑ d, (c * y d) * (c * y d))) :
    normalizeMaxR tiny (fun d => c * y d) = normalizeMaxR tiny y :=
  PosteriorProof.normalizeMaxR_pos_smul tiny hc y h1 h2 ht

/-- a unit-modulus factor drops out of `z zᴴ` -/
theorem outer_phase {u : ℂ} (hu : ‖u‖ = 1) (z : Fin D → ℂ) :
    outer (α := ℝ) (fun d => u * z d) = outer (α := ℝ) z := PosteriorProof.outer_phase hu z

/-- **any non-zero complex gain drops out of `z zᴴ` of the normalised frame** (cACG normalisation) -/
theorem outer_normalizeWhere_smul (tiny : ℝ) {c : ℂ} (hc : c ≠ 0) (y : Fin D → ℂ) (hy : ∃ d, y d ≠ 0) :
    outer (α := ℝ) (normalizeWhere (α := ℝ) tiny fun d => c * y d) = outer (α := ℝ) (normalizeWhere (α := ℝ) tiny y) :=
  PosteriorProof.outer_normalizeWhere_smul tiny hc y hy

/-- … (Watson / Bingham / integration-model normalisation, norms not floored) -/
theorem outer_normalizeMax_smul (tiny : ℝ) {c : ℂ} (hc : c ≠ 0) (y : Fin D → ℂ)
    (h1 : tiny ≤ norm2 (α := ℝ) y) (h2 : tiny ≤ norm2 (α := ℝ) (fun d => c * y d)) :
    outer (α := ℝ) (normalizeMax (α := ℝ) tiny fun d => c * y d) = outer (α := ℝ) (normalizeMax (α := ℝ) tiny y) :=
  PosteriorProof.outer_normalizeMax_smul tiny hc y h1 h2

/-- the cACG / Bingham quadratic form `zᴴ B z` is a function of `z zᴴ` only -/
theorem quadForm_eq_outer (B : Fin D → Fin D → ℂ) (z : Fin D → ℂ) :
    quadForm (α := ℝ) B z = ∑ d, ∑ e, B d e * outer (α := ℝ) z e d := PosteriorProof.quadForm_eq_outer B z

/-- the Watson statistic `|wᴴ z|²` is a function of `z zᴴ` only -/
theorem innerAbsSq_eq_outer (w z : Fin D → ℂ) :
    innerAbsSq (α := ℝ) w z = (∑ d, ∑ e, (starRingEnd ℂ) (w d) * w e * outer (α := ℝ) z d e).re :=
  PosteriorProof.innerAbsSq_eq_outer w z

/-- the weighted scatter matrix of every directional M-step is a function of the `z_n z_nᴴ` only -/
theorem scatter_eq_outer (s : Fin N → ℝ) (z : Fin N → Fin D → ℂ) (d e : Fin D) :
    scatter (α := ℝ) s z d e = ∑ n, (s n : ℂ) * outer (α := ℝ) (z n) d e := PosteriorProof.scatter_eq_outer s z d e

/-- phase invariance of the quadratic form -/
theorem quadForm_phase {u : ℂ} (hu : ‖u‖ = 1) (B : Fin D → Fin D → ℂ) (z : Fin D → ℂ) :
    quadForm (α := ℝ) B (fun d => u * z d) = quadForm (α := ℝ) B z := by
  rw [quadForm_eq_outer, quadForm_eq_outer, outer_phase hu]

/-- phase invariance of `|wᴴ z|²` -/
theorem innerAbsSq_phase {u : ℂ} (hu : ‖u‖ = 1) (w z : Fin D → ℂ) :
    innerAbsSq (α := ℝ) w (fun d => u * z d) = innerAbsSq (α := ℝ) w z := by
  rw [innerAbsSq_eq_outer, innerAbsSq_eq_outer, outer_phase hu]

/-- phase invariance of the scatter matrices: an independent unit factor per frame -/
theorem scatter_phase {u : Fin N → ℂ} (hu : ∀ n, ‖u n‖ = 1) (s : Fin N → ℝ) (z : Fin N → Fin D → ℂ) :
    scatter (α := ℝ) s (fun n d => u n * z n d) = scatter (α := ℝ) s z := by
  funext d e
  rw [scatter_eq_outer, scatter_eq_outer]
  refine Finset.sum_congr rfl fun n _ => ?_
  rw [outer_phase (hu n)]

/-- cACG density statistic of `c • y` (any gain) -/
theorem quadForm_gain (tiny : ℝ) {c : ℂ} (hc : c ≠ 0) (B : Fin D → Fin D → ℂ) (y : Fin D → ℂ) (hy : ∃ d, y d ≠ 0) :
    quadForm (α := ℝ) B (normalizeWhere (α := ℝ) tiny fun d => c * y d)
      = quadForm (α := ℝ) B (normalizeWhere (α := ℝ) tiny y) := by
  rw [quadForm_eq_outer, quadForm_eq_outer, outer_normalizeWhere_smul tiny hc y hy]

/-- Watson density statistic of `c • y` (any gain) -/
theorem innerAbsSq_gain (tiny : ℝ) {c : ℂ} (hc : c ≠ 0) (w y : Fin D → ℂ)
    (h1 : tiny ≤ norm2 (α := ℝ) y) (h2 : tiny ≤ norm2 (α := ℝ) (fun d => c * y d)) :
    innerAbsSq (α := ℝ) w (normalizeMax (α := ℝ) tiny fun d => c * y d)
      = innerAbsSq (α := ℝ) w (normalizeMax (α := ℝ) tiny y) := by
  rw [innerAbsSq_eq_outer, innerAbsSq_eq_outer, outer_normalizeMax_smul tiny hc y h1 h2]

/-- M-step scatter matrix of the gain field `c ⊙ y` (cACG normalisation; one gain per frame) -/
theorem scatter_gain (tiny : ℝ) {c : Fin N → ℂ} (hc : ∀ n, c n ≠ 0) (s : Fin N → ℝ) (y : Fin N → Fin D → ℂ)
    (hy : ∀ n, ∃ d, y n d ≠ 0) :
    scatter (α := ℝ) s (fun n => normalizeWhere (α := ℝ) tiny fun d => c n * y n d)
      = scatter (α := ℝ) s (fun n => normalizeWhere (α := ℝ) tiny (y n)) := by
  funext d e
  rw [scatter_eq_outer, scatter_eq_outer]
  refine Finset.sum_congr rfl fun n _ => ?_
  rw [outer_normalizeWhere_smul tiny (hc n) (y n) (hy n)]

/-- vMF density statistic under positive scaling -/
theorem dotR_pos_scale (tiny : ℝ) {c : ℝ} (hc : 0 < c) (y mu : Fin D → ℝ) (ht : 0 < tiny)
    (h1 : tiny ≤ Real.sqrt (∑ d, y d * y d)) (h2 : tiny ≤ Real.sqrt (∑ d, (c * y d) * (c * y d))) :
    dotR (normalizeMaxR tiny fun d => c * y d) mu = dotR (normalizeMaxR tiny y) mu := by
  rw [normalizeMaxR_pos_smul tiny hc y ht h1 h2]

/-- vMF M-step statistic under positive scaling of every embedding -/
theorem resultant_pos_scale (tiny : ℝ) {c : Fin N → ℝ} (hc : ∀ n, 0 < c n) (s : Fin N → ℝ) (y : Fin N → Fin D → ℝ)
    (ht : 0 < tiny) (h1 : ∀ n, tiny ≤ Real.sqrt (∑ d, y n d * y n d))
    (h2 : ∀ n, tiny ≤ Real.sqrt (∑ d, (c n * y n d) * (c n * y n d))) :
    resultant s (fun n => normalizeMaxR tiny fun d => c n * y n d) = resultant s (fun n => normalizeMaxR tiny (y n)) := by
  have : (fun n => normalizeMaxR tiny fun d => c n * y n d) = fun n => normalizeMaxR tiny (y n) :=
    funext fun n => normalizeMaxR_pos_smul tiny (hc n) (y n) ht (h1 n) (h2 n)
  rw [this]

/-- what a directional trainer sees of the data: `z_n z_nᴴ` of the normalised frames -/
noncomputable def feat (tiny : ℝ) (y : Fin N → Fin D → ℂ) : Fin N → Fin D → Fin D → ℂ :=
  fun n => outer (α := ℝ) (normalizeWhere (α := ℝ) tiny (y n))

/-- **gain invariance of EM**: for every trainer whose E-step and M-step read the observations only through
the normalised outer products (`E`, `M` arbitrary functions of `feat`; cACGMM and the spatial stream of the
integration models by `quadForm_eq_outer` / `scatter_eq_outer`), every gain field without zeros, every start and
every number of iterations, the fitted model and the posteriors of `c ⊙ y` and `y` coincide -/
theorem em_gain_invariant {Γ Θ : Type} (E : (Fin N → Fin D → Fin D → ℂ) → Θ → Γ)
    (M : (Fin N → Fin D → Fin D → ℂ) → Γ → Θ) (tiny : ℝ) (y : Fin N → Fin D → ℂ) (c : Fin N → ℂ)
    (hc : ∀ n, c n ≠ 0) (hy : ∀ n, ∃ d, y n d ≠ 0) (n : Nat) (γ₀ : Γ) :
    fit (E (feat tiny fun n d => c n * y n d)) (M (feat tiny fun n d => c n * y n d)) n γ₀
        = fit (E (feat tiny y)) (M (feat tiny y)) n γ₀ ∧
      fitPredict (E (feat tiny fun n d => c n * y n d)) (M (feat tiny fun n d => c n * y n d)) n γ₀
        = fitPredict (E (feat tiny y)) (M (feat tiny y)) n γ₀ := by
  have h : feat tiny (fun n d => c n * y n d) = feat tiny y :=
    funext fun n => outer_normalizeWhere_smul tiny (hc n) (y n) (hy n)
  rw [h]; exact ⟨rfl, rfl⟩

/-- the same for the `max(‖y‖, tiny)` normalisation (cWMM, cBMM) under the non-floored-norm hypotheses -/
theorem em_gain_invariant_max {Γ Θ : Type} (E : (Fin N → Fin D → Fin D → ℂ) → Θ → Γ)
    (M : (Fin N → Fin D → Fin D → ℂ) → Γ → Θ) (tiny : ℝ) (y : Fin N → Fin D → ℂ) (c : Fin N → ℂ)
    (hc : ∀ n, c n ≠ 0) (h1 : ∀ n, tiny ≤ norm2 (α := ℝ) (y n))
    (h2 : ∀ n, tiny ≤ norm2 (α := ℝ) (fun d => c n * y n d)) (n : Nat) (γ₀ : Γ) :
    fit (E fun n => outer (α := ℝ) (normalizeMax (α := ℝ) tiny fun d => c n * y n d))
        (M fun n => outer (α := ℝ) (normalizeMax (α := ℝ) tiny fun d => c n * y n d)) n γ₀
      = fit (E fun n => outer (α := ℝ) (normalizeMax (α := ℝ) tiny (y n)))
        (M fun n => outer (α := ℝ) (normalizeMax (α := ℝ) tiny (y n))) n γ₀ := by
  have h : (fun n => outer (α := ℝ) (normalizeMax (α := ℝ) tiny fun d => c n * y n d))
      = fun n => outer (α := ℝ) (normalizeMax (α := ℝ) tiny (y n)) :=
    funext fun n => outer_normalizeMax_smul tiny (hc n) (y n) (h1 n) (h2 n)
  rw [h]

/-- vMFMM / embedding stream of vMF-cACGMM: trainers reading the embeddings only through their normalised
versions are invariant under positive scaling of every embedding -/
theorem vmfmm_pos_scale {Γ Θ : Type} (E : (Fin N → Fin D → ℝ) → Θ → Γ) (M : (Fin N → Fin D → ℝ) → Γ → Θ)
    (tiny : ℝ) (ht : 0 < tiny) (y : Fin N → Fin D → ℝ) (c : Fin N → ℝ) (hc : ∀ n, 0 < c n)
    (h1 : ∀ n, tiny ≤ Real.sqrt (∑ d, y n d * y n d))
    (h2 : ∀ n, tiny ≤ Real.sqrt (∑ d, (c n * y n d) * (c n * y n d))) (n : Nat) (γ₀ : Γ) :
    fit (E fun n => normalizeMaxR tiny fun d => c n * y n d) (M fun n => normalizeMaxR tiny fun d => c n * y n d) n γ₀
      = fit (E fun n => normalizeMaxR tiny (y n)) (M fun n => normalizeMaxR tiny (y n)) n γ₀ := by
  have : (fun n => normalizeMaxR tiny fun d => c n * y n d) = fun n => normalizeMaxR tiny (y n) :=
    funext fun n => normalizeMaxR_pos_smul tiny (hc n) (y n) ht (h1 n) (h2 n)
  rw [this]

/-- non-vacuity: `c = 3i`, `y = (1, 2)` satisfy the hypotheses, and the gain really changes the frame -/
example : ∃ (c : ℂ) (y : Fin 2 → ℂ), c ≠ 0 ∧ (∃ d, y d ≠ 0) ∧ (fun d => c * y d) ≠ y ∧
    outer (α := ℝ) (normalizeWhere (α := ℝ) 1 fun d => c * y d) = outer (α := ℝ) (normalizeWhere (α := ℝ) 1 y) := by
  refine ⟨3 * Complex.I, ![1, 2], by simp, ⟨0, by simp⟩, ?_, ?_⟩
  · intro h
    have := congrFun h 0
    simp at this
    have h2 := congrArg Complex.re this
    simp at h2
  · exact outer_normalizeWhere_smul 1 (by simp) _ ⟨0, by simp⟩


/-! ## Direction-only dependence on the executable EM model `Em.fit` (`PbBss/Proofs/EmEquivariance.lean`)

`Em.fit` receives the observations the mixture has already normalised, so what is left of a per-observation complex gain is
a unit-modulus phase.  Generic form: observation sequences a family cannot tell apart give the same fit; instances for the
complex Watson and the cACG family (externals `get_pca`, the spline, `eigh` arbitrary). -/
section em_model
open PbBss.Em PbBss.EmProof
variable {Θ Y : Type} {K N : Nat}

/-- generic: indistinguishable observations (same log-densities, same auxiliary quantities, same one-component fits)
give the same `fit`, for every number of iterations -/
theorem em_fit_congr_obs (tiny : ℝ) (fam : Family Θ Y ℝ) (rule : WeightRule) (tie : Tying N) (eps : ℝ) (s : Fin N → ℝ)
    (y y' : Fin N → Y) (h : ObsIndist fam y y') (n : Nat) (γ₀ : Fin (K+1) → Fin N → ℝ) :
    fit tiny fam rule tie eps s y n γ₀ = fit tiny fam rule tie eps s y' n γ₀ :=
  EmProof.fit_congr_obs tiny h rule tie eps s n γ₀

/-- **cWMM**: per-observation unit-modulus phases do not change the fit -/
theorem em_watson_fit_phase_invariant {D : Nat} (tiny : ℝ) (pca : Tab D (Tab D ℂ) → Tab D ℂ × ℝ) (kinv lnorm : ℝ → ℝ)
    (rule : WeightRule) (tie : Tying N) (eps : ℝ) (s : Fin N → ℝ) (y : Fin N → Fin D → ℂ) (u : Fin N → ℂ)
    (hu : ∀ n, ‖u n‖ = 1) (n : Nat) (γ₀ : Fin (K+1) → Fin N → ℝ) :
    fit tiny (watsonFamily D pca kinv lnorm) rule tie eps s (fun n d => u n * y n d) n γ₀
      = fit tiny (watsonFamily D pca kinv lnorm) rule tie eps s y n γ₀ :=
  EmProof.watson_fit_phase_invariant tiny pca kinv lnorm rule tie eps s y u hu n γ₀

/-- **cACGMM**: the same for the cACG family (every `covariance_norm`) -/
theorem em_cacg_fit_phase_invariant {D : Nat} (tinyE tiny floor : ℝ)
    (eigh : Tab (D+1) (Tab (D+1) ℂ) → Tab (D+1) (Tab (D+1) ℂ) × Tab (D+1) ℝ) (nrm : CovNorm)
    (rule : WeightRule) (tie : Tying N) (eps : ℝ) (s : Fin N → ℝ) (y : Fin N → Fin (D+1) → ℂ) (u : Fin N → ℂ)
    (hu : ∀ n, ‖u n‖ = 1) (n : Nat) (γ₀ : Fin (K+1) → Fin N → ℝ) :
    fit tinyE (cacgFamily D eigh nrm floor tiny) rule tie eps s (fun n d => u n * y n d) n γ₀
      = fit tinyE (cacgFamily D eigh nrm floor tiny) rule tie eps s y n γ₀ :=
  EmProof.cacg_fit_phase_invariant tinyE eigh nrm floor tiny rule tie eps s y u hu n γ₀

end em_model

end PbBss.C04

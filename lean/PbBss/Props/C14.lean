import PbBss.Proofs.AlignProof
/-! # C14 — permutation alignment only reorders classes

Statements only (helper lemmas live in `PbBss/Proofs`).  Models: `PbBss/Model/{Greedy,Optimal,Align}.lean`,
tied to `pb_bss/permutation_alignment.py` and `mixture_model_utils.py` by the exact correspondence run
of `harness/props/c14.py`.  Score type: any linearly ordered additive monoid / field (ℝ in particular);
the `-inf` the source writes into used rows and columns is modelled as `none`, i.e. outside the score type,
which is exactly the hypothesis "finite score matrix". -/
namespace PbBss.C14
open PbBss PbBss.Align Function

section assignment
variable {α : Type} [LinearOrder α]

/-- every per-bin greedy assignment derived from a finite score matrix is a permutation of `0..K-1` -/
theorem greedy_assignment_bijective {K : Nat} (hK : 0 < K) (s : Fin K → Fin K → α) :
    Bijective (greedy hK s) := greedy_bijective hK s

variable [AddCommMonoid α]

/-- the brute-force `'optimal'` search returns a permutation of `0..K-1` -/
theorem optimal_assignment_bijective (K : Nat) (s : Nat → Nat → α) :
    ∃ r, optimal K s = some r ∧ r.1.Perm (List.range K) := by
  obtain ⟨r, h1, h2, -, -⟩ := optimal_is_max K s
  exact ⟨r, h1, h2⟩

/-- `_mapping_from_score_matrix` (either algorithm, any `K` including 0) is a bijection of the classes -/
theorem assign_bijective {K : Nat} (algo : Algo) (s : Fin K → Fin K → α) : Bijective (assign algo s) :=
  Align.assign_bijective algo s
end assignment

section apply
/-- `aligned[k, f] = mask[mapping[k, f], f]` -/
theorem applyMapping_spec {β : Type} {K F : Nat} (mask : Fin K → Fin F → β) (m : Fin K → Fin F → Fin K)
    (k : Fin K) (f : Fin F) : applyMapping mask m k f = mask (m k f) f := rfl

/-- sums over the class axis are preserved by any per-bin permutation -/
theorem applyMapping_class_sum {M : Type} [AddCommMonoid M] {K F : Nat} (mask : Fin K → Fin F → M)
    (m : Fin K → Fin F → Fin K) (f : Fin F) (hm : Bijective fun k => m k f) :
    ∑ k, applyMapping mask m k f = ∑ k, mask k f := applyMapping_sum mask m f hm

/-- the per-bin multiset of rows is preserved: nothing duplicated, dropped or altered -/
theorem applyMapping_rows_perm {β : Type} {K F : Nat} (mask : Fin K → Fin F → β)
    (m : Fin K → Fin F → Fin K) (f : Fin F) (hm : Bijective fun k => m k f) :
    (List.ofFn fun k => applyMapping mask m k f).Perm (List.ofFn fun k => mask k f) :=
  applyMapping_perm mask m f hm
end apply

section aligners
variable {α : Type} [Field α] [LinearOrder α] [Transc α] {K F T : Nat}

/-- adjacent-bin (greedy) aligner: every bin of the mapping is a permutation; the executable
column-by-column form computes the same mapping -/
theorem greedyAligner_bijective (tiny : α) (metric : Metric) (mask : Tab3 K F T α) (f : Fin F) :
    Bijective (fun k => greedyAligner tiny metric mask k f) ∧
    ∃ c, (greedyAlignerCols tiny metric mask)[f.val]? = some c ∧ ∀ k, at1 c k = greedyAligner tiny metric mask k f := by
  constructor
  · apply composeChain_bijective
    intro g
    unfold adjacentAssign
    have hfun : ∀ x : Fin K → Fin K, at1 (tab1 x) = x := fun x => funext (at1_tab1 x)
    split
    · rw [hfun]; exact Align.assign_bijective (α := α) Algo.greedy _
    · rw [hfun]; exact bijective_id
  · obtain ⟨F', rfl⟩ : ∃ F', F = F' + 1 := ⟨F - 1, by have := f.isLt; omega⟩
    unfold greedyAlignerCols greedyAligner
    rcases Nat.eq_zero_or_pos f.val with h0 | hpos
    · refine ⟨tab1 id, by simp [h0], ?_⟩
      intro k; simp [h0, composeChain]
    · obtain ⟨i, hi⟩ : ∃ i, f.val = i + 1 := ⟨f.val - 1, by omega⟩
      obtain ⟨c, hc, hck⟩ := chainCols_get (fun g => at1 (adjacentAssign tiny metric mask g)) F'
        (fun g => adjacentAssign tiny metric mask (g+1)) (tab1 id) 0 (by intro k; simp [composeChain])
        (by intro j k; congr 2; omega) i (by have := f.isLt; omega)
      refine ⟨c, by simpa [hi] using hc, ?_⟩
      intro k; rw [hck k, hi]; congr 1; omega

theorem oracleAligner_bijective (tiny : α) (metric : Metric) (algo : Algo) (mask ref : Tab3 K F T α)
    (f : Fin F) : Bijective (fun k => oracleAligner tiny metric algo mask ref k f) :=
  Align.assign_bijective algo _

/-- DHTV: for every segment plan, metric, assignment algorithm and mask, every bin of the returned mapping
is a permutation of the classes -/
theorem dhtv_bijective (tiny : α) (metric : Metric) (algo : Algo) (plan : List (Nat × Nat × Nat))
    (mask : Tab3 K F T α) (f : Fin F) :
    Bijective (fun k => at2 (dhtv tiny metric algo plan mask).mapping k f) :=
  (dhtv_inv tiny metric algo plan mask).1 f

/-- DHTV: the features the procedure converged to are exactly the start features reordered by the
returned mapping (`apply_mapping(features₀, mapping)`) -/
theorem dhtv_features_eq_applyMapping (tiny : α) (metric : Metric) (algo : Algo)
    (plan : List (Nat × Nat × Nat)) (mask : Tab3 K F T α) (k : Fin K) (f : Fin F) (t : Fin T) :
    at3 (dhtv tiny metric algo plan mask).features k f t =
      applyMapping (fun k f => at3 (dhtvStart tiny metric mask) k f)
        (at2 (dhtv tiny metric algo plan mask).mapping) k f t :=
  (dhtv_inv tiny metric algo plan mask).2 k f t
end aligners

section inline
/-- alignment inside EM: posteriors and quadratic forms are reordered by one and the same mapping,
computed from the (transposed) posteriors -/
theorem inline_same_mapping {α : Type} {K F T : Nat}
    (aligner : (Fin K → Fin F → Fin T → α) → Fin K → Fin F → Fin K)
    (aff quad : Fin F → Fin K → Fin T → α) :
    let m := aligner (fun k f t => aff f k t)
    ∀ f k t, (applyInline aligner aff quad).1 f k t = aff f (m k f) t ∧
             (applyInline aligner aff quad).2 f k t = quad f (m k f) t := by
  intro m f k t; exact ⟨rfl, rfl⟩

variable {α : Type} [Field α] [LinearOrder α] [Transc α] {K T : Nat}

/-- built-in spatial/spectral alignment of the integration models: the chosen candidate is a permutation
of the classes … -/
theorem inlinePa_is_permutation (tiny : α) (spatial spectral : Fin (K+1) → Fin T → α) :
    ∃ p v, firstMaxLoop (inlineAux tiny spatial spectral) (lexPerms (K+1)) none = some (p, v) ∧
      p.Perm (List.range (K+1)) ∧ Bijective (permAt (K := K) p) := by
  have hne : lexPerms (K+1) ≠ [] := by
    have := lexPermsAux_complete (K+1) (List.range (K+1)) (List.range (K+1)) (by simp) (List.Perm.refl _)
    intro h; rw [lexPerms] at h; rw [h] at this; simp at this
  obtain ⟨r, h1, -, h3, -, -⟩ := firstMaxLoop_max (inlineAux tiny spatial spectral) (lexPerms (K+1)) none
    (by simp) (Or.inl hne)
  have hperm : r.1.Perm (List.range (K+1)) := by
    rcases h3 with h3 | h3
    · exact lexPermsAux_sound (K+1) (List.range (K+1)) r.1 (by simp) h3
    · cases h3
  refine ⟨r.1, r.2, h1, hperm, ?_⟩
  apply Finite.injective_iff_bijective.mp
  intro a b hab
  unfold permAt at hab
  have ha := perm_range_getD_lt hperm a.val a.isLt
  have hb := perm_range_getD_lt hperm b.val b.isLt
  simp only [ha, hb, dite_true] at hab
  exact Fin.ext (perm_range_getD_inj hperm a.val b.val a.isLt b.isLt (by simpa using congrArg Fin.val hab))

/-- … whose criterion value is at least that of every permutation, in particular of the identity -/
theorem inlinePa_not_worse (tiny : α) (spatial spectral : Fin (K+1) → Fin T → α) :
    ∃ p v, firstMaxLoop (inlineAux tiny spatial spectral) (lexPerms (K+1)) none = some (p, v) ∧
      v = inlineAux tiny spatial spectral p ∧
      inlineAux tiny spatial spectral (List.range (K+1)) ≤ v ∧
      ∀ q : List Nat, q.Perm (List.range (K+1)) → inlineAux tiny spatial spectral q ≤ v := by
  have hne : lexPerms (K+1) ≠ [] := by
    have := lexPermsAux_complete (K+1) (List.range (K+1)) (List.range (K+1)) (by simp) (List.Perm.refl _)
    intro h; rw [lexPerms] at h; rw [h] at this; simp at this
  obtain ⟨r, h1, h2, -, h4, -⟩ := firstMaxLoop_max (inlineAux tiny spatial spectral) (lexPerms (K+1)) none
    (by simp) (Or.inl hne)
  have hall : ∀ q : List Nat, q.Perm (List.range (K+1)) → inlineAux tiny spatial spectral q ≤ r.2 :=
    fun q hq => h4 q (lexPermsAux_complete (K+1) (List.range (K+1)) q (by simp) hq)
  exact ⟨r.1, r.2, h1, h2, hall _ (List.Perm.refl _), hall⟩
end inline

/-! ### non-vacuity: the hypotheses are met by concrete data -/
example : Bijective (greedy (K := 2) (by decide) (fun i j => if i = j then (0 : Int) else 1)) :=
  greedy_assignment_bijective _ _
example : (List.ofFn fun k : Fin 2 => applyMapping (fun k (_ : Fin 1) => k.val) (fun k _ => ⟨1 - k.val, by omega⟩) k 0)
    = [1, 0] := by decide

end PbBss.C14

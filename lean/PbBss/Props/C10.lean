import PbBss.Proofs.PsdProof
/-! # C10 — the PSD estimate is the mask-weighted mean outer product; `condition_covariance`

Statements only (helper lemmas: `PbBss/Proofs/PsdProof.lean`).  Model: `PbBss/Model/Psd.lean`, the same
definitions the driver `driver_psd` executes on `Float` and `harness/props/c10.py` compares with
`pb_bss/extraction/beamformer.py` on every run.  Here `α := ℝ`, `β := ℂ`.

`x : Fin D → Fin T → ℂ` is the observation of one leading index (sensors × frames), `m : Fin T → ℝ` the mask of
one (leading index, source); `floor` is the literal `1e-10` of the source (every theorem holds for any value). -/
namespace PbBss.C10
open PbBss PbBss.Psd Matrix
open scoped ComplexOrder

variable {D T : Nat}

/-- `normalize=True`: `Φ[d,e] = Σ_t m'[t] x[d,t] conj(x[e,t])` with `m' = m / max(Σ_t m[t], floor)` -/
theorem psd_value (floor : ℝ) (x : Fin D → Fin T → ℂ) (m : Fin T → ℝ) (d e : Fin D) :
    psd floor true x m d e
      = ∑ t, ((m t / max (∑ s, m s) floor : ℝ) : ℂ) * x d t * starRingEnd ℂ (x e t) := by
  unfold psd weights
  simp only [if_true, wsum_eq, normMask_eq]

/-- `normalize=False`: the undivided sum -/
theorem psd_value_unnormalized (floor : ℝ) (x : Fin D → Fin T → ℂ) (m : Fin T → ℝ) (d e : Fin D) :
    psd floor false x m d e = ∑ t, (m t : ℂ) * x d t * starRingEnd ℂ (x e t) := by
  unfold psd weights
  simp [wsum_eq]

/-- without a mask: the sum divided by the number of frames -/
theorem psd_value_nomask (x : Fin D → Fin T → ℂ) (d e : Fin D) :
    psdNoMask (α := ℝ) x d e = (∑ t, x d t * starRingEnd ℂ (x e t)) / (T : ℂ) :=
  psdNoMask_eq x d e

/-- a boolean mask is its 0/1 float mask; normalised, it averages the selected frames -/
theorem psd_bool_mask (floor : ℝ) (nz : Bool) (x : Fin D → Fin T → ℂ) (b : Fin T → Bool) :
    psdBool floor nz x b = psd floor nz x (fun t => if b t then (1 : ℝ) else 0) ∧
    ∀ d e, psdBool floor true x b d e
      = (∑ t with b t = true, x d t * starRingEnd ℂ (x e t))
          / ((max (((Finset.univ.filter fun t => b t = true).card : ℝ)) floor : ℝ) : ℂ) := by
  refine ⟨rfl, fun d e => ?_⟩
  unfold psdBool boolMask
  rw [psd_value, Finset.sum_div, Finset.sum_filter]
  have hs : (∑ s : Fin T, if b s = true then (1 : ℝ) else 0) = ((Finset.univ.filter fun t => b t = true).card : ℝ) := by
    rw [Finset.sum_boole]
  rw [hs]
  apply Finset.sum_congr rfl
  intro t _
  by_cases h : b t = true <;> simp [h]
  ring

/-- Hermitian: `conj Φ[d,e] = Φ[e,d]` (any real mask, either normalisation) -/
theorem psd_hermitian (floor : ℝ) (nz : Bool) (x : Fin D → Fin T → ℂ) (m : Fin T → ℝ) :
    (Matrix.of (psd floor nz x m)).IsHermitian := by
  ext d e
  exact wsum_hermitian _ x e d

theorem psd_nomask_hermitian (x : Fin D → Fin T → ℂ) : (Matrix.of (psdNoMask (α := ℝ) x)).IsHermitian := by
  rw [psdNoMask_eq_wsum]
  ext d e
  exact wsum_hermitian (fun _ => (1 : ℝ) / T) x e d

/-- positive semidefinite for every non-negative mask (either normalisation, any floor, all-zero masks included) -/
theorem psd_posSemidef (floor : ℝ) (nz : Bool) (x : Fin D → Fin T → ℂ) (m : Fin T → ℝ) (hm : ∀ t, 0 ≤ m t) :
    (Matrix.of (psd floor nz x m)).PosSemidef :=
  wsum_posSemidef _ (weights_nonneg floor nz m hm) x

theorem psd_nomask_posSemidef (x : Fin D → Fin T → ℂ) : (Matrix.of (psdNoMask (α := ℝ) x)).PosSemidef := by
  rw [psdNoMask_eq_wsum]
  exact wsum_posSemidef _ (fun _ => by positivity) x

/-- a normalised mask may be rescaled by any `c > 0`, provided both mask sums reach the floor
(below the floor the source divides by the floor, and the estimate does scale) -/
theorem psd_scale_invariant (floor c : ℝ) (hc : 0 < c) (x : Fin D → Fin T → ℂ) (m : Fin T → ℝ)
    (hs : floor ≤ ∑ t, m t) (hcs : floor ≤ c * ∑ t, m t) :
    psd floor true x (fun t => c * m t) = psd floor true x m := by
  funext d e
  rw [psd_value, psd_value]
  apply Finset.sum_congr rfl
  intro t _
  rw [← Finset.mul_sum, max_eq_left hcs, max_eq_left hs, mul_div_mul_left _ _ (ne_of_gt hc)]

/-- the hypothesis of `psd_scale_invariant` cannot be dropped: below the floor the estimate scales with the mask -/
example : psd (1 : ℝ) true (fun (_ : Fin 1) (_ : Fin 1) => (1 : ℂ)) (fun _ => (1/4 : ℝ)) 0 0
    ≠ psd (1 : ℝ) true (fun (_ : Fin 1) (_ : Fin 1) => (1 : ℂ)) (fun _ => 2 * (1/4 : ℝ)) 0 0 := by
  rw [psd_value, psd_value]
  norm_num

/-- an all-zero mask gives the zero matrix (finite), normalised or not -/
theorem psd_zero_mask (floor : ℝ) (nz : Bool) (x : Fin D → Fin T → ℂ) :
    psd floor nz x (fun _ => 0) = fun _ _ => 0 := by
  funext d e
  cases nz
  · rw [psd_value_unnormalized]; simp
  · rw [psd_value]; simp

/-! ### axis layouts (full arrays addressed by multi-indices, `PbBss.Psd.psdFull`)

`xc`, `mc` are the data in the canonical layout `(..., sensors, frames)` / `(..., sources, frames)`;
`fun idx => xc (toCanon n a b idx)` is the SAME data presented with the sensor (source) axis at position `a` and the
frame axis at position `b` (`toCanon` = the index map of `np.moveaxis(·, [a, b], [-2, -1])`).  `normDim n d = d % n`
is the position a (possibly negative) axis argument addresses.  The right-hand sides do not mention the axis
arguments: every admissible choice yields the same index-level value. -/

/-- mask with a source axis, any `sensor_dim ≠ time_dim`, `source_dim ≠ time_dim`: the result element of (leading
index `lead`, source `k`, sensors `d, e`) — found at `lead ++ [k, d, e]`, or with `k` inserted at the source position
when `source_dim` addresses an axis in front of the last two (`rollaxis`) — is the index-level PSD -/
theorem psd_layout_source (c : Cfg) (hn : 2 ≤ c.n)
    (hst : normDim c.n c.sensor ≠ normDim c.n c.time) (hqt : normDim c.n c.source ≠ normDim c.n c.time)
    (floor : ℝ) (shape : List Nat) (xc : List Nat → ℂ) (mc : List Nat → ℝ)
    (lead : List Nat) (hl : lead.length + 2 = c.n) (k : Nat) (d e : Fin D) :
    psdFull c floor shape
      (fun idx => xc (toCanon c.n (normDim c.n c.sensor) (normDim c.n c.time) idx))
      (.float c.n fun idx => mc (toCanon c.n (normDim c.n c.source) (normDim c.n c.time) idx))
      (if normDim c.n c.source + 2 < c.n then (lead ++ [d.val, e.val]).insertIdx (normDim c.n c.source) k
        else lead ++ [k, d.val, e.val])
    = psd floor c.normalize
        (fun (d : Fin D) (t : Fin (shape.getD (normDim c.n c.time) 0)) => xc (lead ++ [d.val, t.val]))
        (fun t => mc (lead ++ [k, t.val])) d e :=
  psdFull_source c hn hst hqt floor shape xc mc lead hl k d e

/-- mask without a source axis (`mask.ndim + 1 == observation.ndim`, frames last), any `sensor_dim` -/
theorem psd_layout_plain (c : Cfg) (hn : 2 ≤ c.n)
    (hst : normDim c.n c.sensor ≠ normDim c.n c.time) (ht : normDim c.n c.time = c.n - 1)
    (floor : ℝ) (shape : List Nat) (xc : List Nat → ℂ) (mc : List Nat → ℝ)
    (lead : List Nat) (hl : lead.length + 2 = c.n) (d e : Fin D) :
    psdFull c floor shape
      (fun idx => xc (toCanon c.n (normDim c.n c.sensor) (normDim c.n c.time) idx))
      (.float (c.n - 1) mc) (lead ++ [d.val, e.val])
    = psd floor c.normalize
        (fun (d : Fin D) (t : Fin (shape.getD (normDim c.n c.time) 0)) => xc (lead ++ [d.val, t.val]))
        (fun t => mc (lead ++ [t.val])) d e :=
  psdFull_plain c hn hst ht floor shape xc mc lead hl d e

/-- no mask, any `sensor_dim ≠ time_dim` -/
theorem psd_layout_nomask (c : Cfg) (hn : 2 ≤ c.n)
    (hst : normDim c.n c.sensor ≠ normDim c.n c.time)
    (floor : ℝ) (shape : List Nat) (xc : List Nat → ℂ)
    (lead : List Nat) (hl : lead.length + 2 = c.n) (d e : Fin D) :
    psdFull c floor shape
      (fun idx => xc (toCanon c.n (normDim c.n c.sensor) (normDim c.n c.time) idx))
      (.absent : MaskArg ℝ) (lead ++ [d.val, e.val])
    = psdNoMask (α := ℝ)
        (fun (d : Fin D) (t : Fin (shape.getD (normDim c.n c.time) 0)) => xc (lead ++ [d.val, t.val])) d e :=
  psdFull_nomask c hn hst floor shape xc lead hl d e

/-- a boolean mask array is handled as its 0/1 float array, in every layout -/
theorem psd_layout_bool (c : Cfg) (floor : ℝ) (shape : List Nat) (x : List Nat → ℂ) (nd : Nat)
    (b : List Nat → Bool) (out : List Nat) :
    psdFull c floor shape x (.bool nd b) out
      = psdFull c floor shape x (.float nd fun i => if b i then (1 : ℝ) else 0) out := rfl

/-- non-vacuity of the layout hypotheses: the documented `source_dim = 0` call, `X: (F, D, T)`, `mask: (K, F, T)` -/
example : let c : Cfg := ⟨3, -2, 0, -1, true⟩
    2 ≤ c.n ∧ normDim c.n c.sensor ≠ normDim c.n c.time ∧ normDim c.n c.source ≠ normDim c.n c.time ∧
    normDim c.n c.source + 2 < c.n ∧ toCanon 3 0 2 [7, 8, 9] = [8, 7, 9] := by decide

/-! ### `condition_covariance` -/

/-- `condition_covariance(Φ, γ)[d,e] = (Φ[d,e] + [d=e] γ tr(Φ)/D) / (1+γ)` -/
theorem condition_cov_formula (gamma : ℝ) (phi : Fin D → Fin D → ℂ) (d e : Fin D) :
    condCov gamma phi d e =
      (phi d e + if d = e then (gamma : ℂ) * (∑ i, phi i i) / (D : ℂ) else 0) / (1 + (gamma : ℂ)) :=
  condCov_eq gamma phi d e

/-- the trace is preserved (`γ ≠ -1`) -/
theorem condition_cov_trace (gamma : ℝ) (hg : 1 + gamma ≠ 0) (phi : Fin D → Fin D → ℂ) :
    ∑ d, condCov gamma phi d d = ∑ d, phi d d := by
  have hg' : (1 + (gamma : ℂ)) ≠ 0 := by exact_mod_cast hg
  simp only [condCov_eq, if_true]
  rw [← Finset.sum_div, Finset.sum_add_distrib, Finset.sum_const, Finset.card_univ, Fintype.card_fin]
  rcases Nat.eq_zero_or_pos D with rfl | hD
  · simp
  · have hD' : (D : ℂ) ≠ 0 := by exact_mod_cast (ne_of_gt hD)
    rw [nsmul_eq_mul, mul_div_cancel₀ _ hD', div_eq_iff hg']
    ring

/-- Hermitian symmetry is preserved -/
theorem condition_cov_hermitian (gamma : ℝ) (phi : Fin D → Fin D → ℂ) (h : (Matrix.of phi).IsHermitian) :
    (Matrix.of (condCov gamma phi)).IsHermitian := by
  have hd : ∀ d e, starRingEnd ℂ (phi e d) = phi d e := fun d e => by
    have := congrFun (congrFun h d) e
    simpa [Matrix.conjTranspose_apply] using this
  ext d e
  simp only [Matrix.conjTranspose_apply, Matrix.of_apply, condCov_eq, Complex.star_def, map_div₀, map_add,
    map_one, Complex.conj_ofReal, hd]
  by_cases hde : d = e
  · subst hde
    simp only [if_true, map_div₀, map_mul, Complex.conj_ofReal, map_sum, hd, map_natCast]
  · have : ¬ e = d := fun h => hde h.symm
    simp [hde, this]

/-- positive semidefiniteness is preserved for `γ ≥ 0` -/
theorem condition_cov_posSemidef (gamma : ℝ) (hg : 0 ≤ gamma) (phi : Fin D → Fin D → ℂ)
    (h : (Matrix.of phi).PosSemidef) : (Matrix.of (condCov gamma phi)).PosSemidef := by
  rw [condCov_matrix]
  have htr : 0 ≤ (Matrix.of phi).trace := h.trace_nonneg
  have hg' : (0 : ℂ) ≤ (gamma : ℂ) := by exact_mod_cast hg
  have hD : (0 : ℂ) ≤ ((D : ℂ))⁻¹ := by
    rw [inv_nonneg]; exact_mod_cast Nat.zero_le D
  have hs : (0 : ℂ) ≤ (gamma : ℂ) * (Matrix.of phi).trace / (D : ℂ) := by
    rw [div_eq_mul_inv]; exact mul_nonneg (mul_nonneg hg' htr) hD
  have h1 : (0 : ℂ) ≤ (1 + (gamma : ℂ))⁻¹ := by
    rw [inv_nonneg]; exact add_nonneg zero_le_one hg'
  exact (h.add (PosSemidef.one.smul hs)).smul h1

/-! ### non-vacuity -/

/-- a concrete value: one sensor, two frames `x = (1, i)`, mask `(1, 3)`: `Φ = (1·1 + 3·1)/4 = 1` -/
example : psd (1e-10 : ℝ) true (fun (_ : Fin 1) (t : Fin 2) => if t = 0 then (1 : ℂ) else Complex.I)
    (fun t => if t = 0 then 1 else 3) 0 0 = 1 := by
  rw [psd_value]
  simp [Fin.sum_univ_two]
  rw [mul_assoc, Complex.I_mul_I]
  norm_num

end PbBss.C10

import PbBss.Proofs.OracleReal
import PbBss.Proofs.OracleMultiply
/-! # C15 — oracle alignment is optimal and undoes any per-frequency permutation

Models: `Model/Optimal.lean` (`'optimal'` brute force in `itertools.permutations` order), `Model/Greedy.lean`,
`Model/Align.lean` (`score`, `assign`, `oracleAligner`); tie to the code: exact correspondence in
`harness/props/c15.py` / `c14.py`.  Real-number statements (metrics) are over ℝ. -/
namespace PbBss.C15
open PbBss PbBss.Align Function

section optimal
variable {α : Type} [AddCommMonoid α] [LinearOrder α]

/-- the `'optimal'` result is a permutation of `0..K-1` whose (left-to-right summed) total score is at least
that of every permutation list -/
theorem optimal_is_max (K : Nat) (s : Nat → Nat → α) :
    ∃ r, optimal K s = some r ∧ r.1.Perm (List.range K) ∧ r.2 = permScore s r.1 ∧
      ∀ p : List Nat, p.Perm (List.range K) → permScore s p ≤ r.2 := PbBss.optimal_is_max K s

/-- the same in `Finset.sum` form: the assignment attains the maximum total score over ALL permutations
(= the linear-sum-assignment optimum) -/
theorem optimal_ge_every_permutation {K : Nat} (s : Fin K → Fin K → α) (σ : Equiv.Perm (Fin K)) :
    ∑ k, s k (σ k) ≤ ∑ k, s k (assign .optimal s k) := optimal_ge_perm s σ σ.bijective

/-- … in particular it is never below the greedy result -/
theorem optimal_ge_greedy {K : Nat} (s : Fin K → Fin K → α) :
    ∑ k, s k (assign .greedy s k) ≤ ∑ k, s k (assign .optimal s k) :=
  optimal_ge_perm s _ (assign_bijective .greedy s)
end optimal

section dominance
variable {α : Type} [AddCommMonoid α] [LinearOrder α] [IsOrderedCancelAddMonoid α]

/-- if every row `i` of the score matrix has its strict maximum at `σ i` (σ a permutation), greedy returns σ -/
theorem row_dominant_greedy {K : Nat} (s : Fin K → Fin K → α) (σ : Equiv.Perm (Fin K))
    (hdom : ∀ i j, j ≠ σ i → s i j < s i (σ i)) : assign .greedy s = σ :=
  assign_row_dominant .greedy s σ σ.bijective hdom

/-- … and so does the optimal search -/
theorem row_dominant_optimal {K : Nat} (s : Fin K → Fin K → α) (σ : Equiv.Perm (Fin K))
    (hdom : ∀ i j, j ≠ σ i → s i j < s i (σ i)) : assign .optimal s = σ :=
  assign_row_dominant .optimal s σ σ.bijective hdom
end dominance

section metrics
variable {K F T : Nat}

/-- euclidean similarity: a row is strictly more similar to itself than to any different row -/
theorem euclidean_row_dominant (tiny : ℝ) (r m : Fin T → ℝ) (h : m ≠ r) :
    sim tiny .euclidean r m < sim tiny .euclidean r r := euclidean_dominant tiny r m h

/-- cosine similarity: rows of norm ≥ tiny with different normalised rows score strictly below the self score -/
theorem cos_row_dominant (tiny : ℝ) (ht : 0 < tiny) (r m : Fin T → ℝ)
    (hr : tiny ≤ Real.sqrt (∑ t, r t * r t)) (hm : tiny ≤ Real.sqrt (∑ t, m t * m t))
    (h : vecNormalize tiny m ≠ vecNormalize tiny r) :
    sim tiny .cos r m < sim tiny .cos r r := cos_dominant tiny ht r m hr hm h

/-- `multiply` is not row dominant, but for pairwise distinct rows the identity is the strict unique
maximiser of the TOTAL score (what the optimal search compares) -/
theorem multiply_optimal_dominant (ρ : Fin K → Fin T → ℝ) (hd : Injective ρ)
    (τ : Equiv.Perm (Fin K)) (hne : τ ≠ 1) :
    ∑ k, (∑ t, ρ (τ k) t * ρ k t) < ∑ k, ∑ t, ρ k t * ρ k t :=
  multiply_total_lt ρ hd τ τ.bijective (fun h => hne (Equiv.ext fun k => by simpa using congrFun h k))

/-- **oracle inversion (abstract)**: reference rows strictly self-dominant in every bin ⇒ the oracle aligner
applied to ANY per-frequency permutation of the reference returns the reference exactly, both algorithms -/
theorem oracle_inverts_row_dominant {α : Type} [Field α] [LinearOrder α] [IsStrictOrderedRing α] [Transc α]
    (tiny : α) (metric : Metric) (algo : Algo) (ref : Tab3 K F T α) (π : Fin F → Equiv.Perm (Fin K))
    (hdom : ∀ (f : Fin F) (k k' : Fin K), k' ≠ k →
      sim tiny metric (fun t => at3 ref k f t) (fun t => at3 ref k' f t)
        < sim tiny metric (fun t => at3 ref k f t) (fun t => at3 ref k f t)) :
    ∀ k f t, applyMapping (at3 (permuted ref π)) (oracleAligner tiny metric algo (permuted ref π) ref) k f t
      = at3 ref k f t := oracle_inverts_of_dominant tiny metric algo ref π hdom

/-- euclidean metric, both algorithms, reference rows pairwise distinct in every bin -/
theorem oracle_inverts_euclidean (tiny : ℝ) (algo : Algo) (ref : Tab3 K F T ℝ) (π : Fin F → Equiv.Perm (Fin K))
    (hd : ∀ f, Injective fun k => fun t => at3 ref k f t) :
    ∀ k f t, applyMapping (at3 (permuted ref π)) (oracleAligner tiny .euclidean algo (permuted ref π) ref) k f t
      = at3 ref k f t :=
  oracle_inverts_of_dominant tiny .euclidean algo ref π
    (fun f _ _ hk => euclidean_dominant tiny _ _ (fun h => hk ((hd f) h)))

/-- cos metric, both algorithms, rows of norm ≥ tiny with pairwise distinct normalised rows -/
theorem oracle_inverts_cos (tiny : ℝ) (ht : 0 < tiny) (algo : Algo) (ref : Tab3 K F T ℝ)
    (π : Fin F → Equiv.Perm (Fin K))
    (hn : ∀ f k, tiny ≤ Real.sqrt (∑ t, at3 ref k f t * at3 ref k f t))
    (hd : ∀ f, Injective fun k => vecNormalize tiny fun t => at3 ref k f t) :
    ∀ k f t, applyMapping (at3 (permuted ref π)) (oracleAligner tiny .cos algo (permuted ref π) ref) k f t
      = at3 ref k f t :=
  oracle_inverts_of_dominant tiny .cos algo ref π
    (fun f k k' hk => cos_dominant tiny ht _ _ (hn f k) (hn f k') (fun h => hk ((hd f) h)))

/-- multiply metric with the greedy algorithm: `multiply` is not row dominant, but in every remaining block the
largest entry is a squared norm on the graph of the inverse permutation (stepwise dominance) -/
theorem oracle_inverts_multiply_greedy (tiny : ℝ) (ref : Tab3 K F T ℝ) (π : Fin F → Equiv.Perm (Fin K))
    (hd : ∀ f, Injective fun k => fun t => at3 ref k f t) :
    ∀ k f t, applyMapping (at3 (permuted ref π)) (oracleAligner tiny .multiply .greedy (permuted ref π) ref) k f t
      = at3 ref k f t := oracle_inverts_multiply_greedy_aux tiny ref π hd

/-- multiply metric with the optimal algorithm, rows pairwise distinct -/
theorem oracle_inverts_multiply_optimal (tiny : ℝ) (ref : Tab3 K F T ℝ) (π : Fin F → Equiv.Perm (Fin K))
    (hd : ∀ f, Injective fun k => fun t => at3 ref k f t) :
    ∀ k f t, applyMapping (at3 (permuted ref π)) (oracleAligner tiny .multiply .optimal (permuted ref π) ref) k f t
      = at3 ref k f t := oracle_inverts_multiply_optimal_aux tiny ref π hd
end metrics

/-! ### non-vacuity -/
example : ∃ (ρ : Fin 2 → Fin 2 → ℝ), Injective ρ :=
  ⟨fun k t => if k = t then 1 else 0, by
    intro a b h
    have := congrFun h a
    by_contra hab
    simp at this
    exact hab this.symm⟩
/-- `F = 1`, `T = F·T` is the flattened "purely global permutation" case of the property -/
example (tiny : ℝ) (algo : Algo) (ref : Tab3 3 1 8 ℝ) (π : Fin 1 → Equiv.Perm (Fin 3))
    (hd : ∀ f, Injective fun k => fun t => at3 ref k f t) (k : Fin 3) (t : Fin 8) :
    applyMapping (at3 (permuted ref π)) (oracleAligner tiny .euclidean algo (permuted ref π) ref) k 0 t
      = at3 ref k 0 t := oracle_inverts_euclidean tiny algo ref π hd k 0 t

end PbBss.C15

import PbBss.Proofs.BfProof
/-! # C12 — GEV / PCA maximise their Rayleigh quotients; BAN only rescales (work in progress: spike theorems) -/
open PbBss PbBss.Bf Matrix
namespace PbBss.C12
variable {D : Nat}

theorem gev_rayleigh_le_core (Pxx Pnn V : Matrix (Fin D) (Fin D) ℂ) (l : Fin D → ℝ) (hV : IsUnit V)
    (hN : Vᴴ * Pnn * V = 1) (hX : Vᴴ * Pxx * V = diagonal (fun i => (l i : ℂ)))
    (lmax : ℝ) (hl : ∀ i, l i ≤ lmax) (w : Fin D → ℂ) :
    (star w ⬝ᵥ Pxx *ᵥ w).re ≤ lmax * (star w ⬝ᵥ Pnn *ᵥ w).re :=
  gev_rayleigh_le Pxx Pnn V l hV hN hX lmax hl w

end PbBss.C12

import PbBss.Proofs.BfProof
/-! # C12 — GEV and PCA beamformers maximise their Rayleigh quotients; BAN only rescales

Statements only (helper lemmas: `PbBss/Proofs/BfProof.lean`, spike `Proofs/Gev.lean`).  Models: `PbBss/Model/Bf.lean`
at `α := ℝ`, `β := ℂ`, tied to `pb_bss/extraction/beamformer.py` / `beamformer_wrapper.py` by the correspondence run
of `harness/props/c12.py`.  Externals enter through their contracts:
* `scipy.linalg.eigh(Φxx, Φnn)` (and `eig` on the same Hermitian-definite pencil): `Vᴴ Φnn V = 1`, `Vᴴ Φxx V = diag λ`;
* `np.linalg.eigh(Φ)`: `Uᴴ U = 1`, `Uᴴ Φ U = diag λ`, `λ` ascending;
* `np.sqrt` on complex numbers (`csqrt`): `|csqrt z| = sqrt |z|`, `csqrt x = sqrt x` for real `x ≥ 0`. -/
open PbBss PbBss.Bf PbBss.BfProof Matrix
open scoped ComplexOrder
namespace PbBss.C12
variable {D n : Nat}

/-! ### GEV -/
/-- the vector `get_gev_vector` selects (`eigenvecs[:, argmax(eigenvals)]`) has output SNR equal to the largest
generalised eigenvalue: `wᴴΦxx w = λ_max`, `wᴴΦnn w = 1`, `λ_max ≥ λ_i` -/
theorem gev_quotient_eq (Pxx Pnn V : Matrix (Fin (n+1)) (Fin (n+1)) ℂ) (l : Fin (n+1) → ℝ)
    (hN : Vᴴ * Pnn * V = 1) (hX : Vᴴ * Pxx * V = diagonal (fun i => (l i : ℂ))) :
    star (gevSelect l V) ⬝ᵥ Pxx *ᵥ gevSelect l V = (l (vargmax l) : ℂ) ∧
    star (gevSelect l V) ⬝ᵥ Pnn *ᵥ gevSelect l V = 1 ∧ ∀ i, l i ≤ l (vargmax l) :=
  ⟨(gev_quotient Pxx Pnn V l hN hX).1, (gev_quotient Pxx Pnn V l hN hX).2, fun i => vargmax_ge l i⟩

/-- … and no vector exceeds it: `vᴴΦxx v ≤ λ_max vᴴΦnn v` for all `v` -/
theorem gev_max (Pxx Pnn V : Matrix (Fin (n+1)) (Fin (n+1)) ℂ) (l : Fin (n+1) → ℝ)
    (hN : Vᴴ * Pnn * V = 1) (hX : Vᴴ * Pxx * V = diagonal (fun i => (l i : ℂ))) (v : Fin (n+1) → ℂ) :
    (star v ⬝ᵥ Pxx *ᵥ v).re ≤ l (vargmax l) * (star v ⬝ᵥ Pnn *ᵥ v).re :=
  BfProof.gev_max Pxx Pnn V l hN hX v

/-- corollary: the SNR of *any* vector with non-zero noise output — in particular of every vector `get_bf_vector`
can return (`mvdrFromSolve`, `souden`, `wmwf`, `pcaVector`, unit vectors, `ban` of these; see the `example`s
below) — is at most the SNR of the GEV vector -/
theorem gev_dominates_all (Pxx Pnn V : Matrix (Fin (n+1)) (Fin (n+1)) ℂ) (l : Fin (n+1) → ℝ)
    (hN : Vᴴ * Pnn * V = 1) (hX : Vᴴ * Pxx * V = diagonal (fun i => (l i : ℂ))) (v : Fin (n+1) → ℂ)
    (hv : 0 < (star v ⬝ᵥ Pnn *ᵥ v).re) :
    (star v ⬝ᵥ Pxx *ᵥ v).re / (star v ⬝ᵥ Pnn *ᵥ v).re ≤
      (star (gevSelect l V) ⬝ᵥ Pxx *ᵥ gevSelect l V).re / (star (gevSelect l V) ⬝ᵥ Pnn *ᵥ gevSelect l V).re := by
  obtain ⟨h1, h2⟩ := gev_quotient Pxx Pnn V l hN hX
  rw [h1, h2, div_le_iff₀ hv]
  simpa using BfProof.gev_max Pxx Pnn V l hN hX v

/-- the output SNR `wᴴPw / wᴴQw` does not depend on a non-zero complex scale of `w`; this is why the differently
normalised eigenvectors of `scipy.linalg.eig` (`use_eig=True`: unit 2-norm instead of `Vᴴ Φnn V = 1`) attain the
same SNR `λ_max` as those of `eigh` -/
theorem quotient_smul (c : ℂ) (hc : c ≠ 0) (w : Fin D → ℂ) (P Q : Matrix (Fin D) (Fin D) ℂ) :
    (star (c • w) ⬝ᵥ P *ᵥ (c • w)).re / (star (c • w) ⬝ᵥ Q *ᵥ (c • w)).re =
    (star w ⬝ᵥ P *ᵥ w).re / (star w ⬝ᵥ Q *ᵥ w).re := by
  have e : ∀ M : Matrix (Fin D) (Fin D) ℂ,
      (star (c • w) ⬝ᵥ M *ᵥ (c • w)).re = Complex.normSq c * (star w ⬝ᵥ M *ᵥ w).re := by
    intro M
    rw [mulVec_smul, star_smul, smul_dotProduct, dotProduct_smul, smul_eq_mul, smul_eq_mul, ← mul_assoc,
      RCLike.star_def, ← Complex.normSq_eq_conj_mul_self]
    simp
  rw [e, e, mul_div_mul_left _ _ (Complex.normSq_pos.mpr hc).ne']

/-! ### PCA -/
/-- `get_pca`'s vector (`eigenvecs[..., -1]`) has unit norm, Rayleigh quotient `λ_max = eigenvals[..., -1]`, and no
vector has a larger quotient `vᴴΦv / vᴴv` -/
theorem pca_max (P U : Matrix (Fin (n+1)) (Fin (n+1)) ℂ) (l : Fin (n+1) → ℝ) (hU : Uᴴ * U = 1)
    (hX : Uᴴ * P * U = diagonal (fun i => (l i : ℂ))) (hl : Monotone l) :
    star (pcaSelect l U).1 ⬝ᵥ P *ᵥ (pcaSelect l U).1 = ((pcaSelect l U).2 : ℂ) ∧
    star (pcaSelect l U).1 ⬝ᵥ (pcaSelect l U).1 = 1 ∧
    ∀ v : Fin (n+1) → ℂ, (star v ⬝ᵥ P *ᵥ v).re ≤ (pcaSelect l U).2 * (star v ⬝ᵥ v).re :=
  BfProof.pca_max P U l hU hX hl

/-- the scaling options multiply the unit-norm principal eigenvector by `1`, `sqrt(tr Φ)` (`'trace'`) resp.
`λ_max` (`'eigenvalue'`); `sqrt(tr Φ) > 0` for a non-zero positive semidefinite `Φ` -/
theorem pca_scalings (csqrt : ℂ → ℂ) (hcs : ∀ x : ℝ, 0 ≤ x → csqrt (x : ℂ) = ((Real.sqrt x : ℝ) : ℂ))
    (P : Matrix (Fin D) (Fin D) ℂ) (hP : P.PosSemidef) (v : Fin D → ℂ) (hv : star v ⬝ᵥ v = 1) (lam : ℝ) :
    pcaVector csqrt .none P v lam = v ∧
    pcaVector csqrt .trace P v lam = ((Real.sqrt (Matrix.trace P).re : ℝ) : ℂ) • v ∧
    pcaVector csqrt .eigenvalue P v lam = (lam : ℂ) • v ∧
    0 ≤ (Matrix.trace P).re ∧ (P ≠ 0 → 0 < Real.sqrt (Matrix.trace P).re) :=
  BfProof.pca_scalings csqrt hcs P hP v hv lam

/-- … and `λ_max > 0` for a non-zero positive semidefinite `Φ` -/
theorem pca_lambda_pos (P U : Matrix (Fin (n+1)) (Fin (n+1)) ℂ) (l : Fin (n+1) → ℝ) (hU : Uᴴ * U = 1)
    (hX : Uᴴ * P * U = diagonal (fun i => (l i : ℂ))) (hl : Monotone l) (hP : P.PosSemidef) (hne : P ≠ 0) :
    0 < (pcaSelect l U).2 := BfProof.pca_lambda_pos P U l hU hX hl hP hne

/-! ### rank-one PSD estimates (`get_pca_rank_one_estimate`, `get_gev_rank_one_estimate`) -/
/-- Hermitian (the trace of a Hermitian input is real), rank ≤ 1, trace preserving -/
theorem rank1_props (P : Matrix (Fin D) (Fin D) ℂ) (a : Fin D → ℂ) (ha : a ≠ 0) :
    ((Matrix.trace P).im = 0 → (Matrix.of (rankOne ℝ P a)).IsHermitian) ∧
    (Matrix.of (rankOne ℝ P a)).rank ≤ 1 ∧
    Matrix.trace (Matrix.of (rankOne ℝ P a)) = Matrix.trace P := BfProof.rank1_props P a ha

/-- PCA: an eigenvector of `σ b bᴴ` for a non-zero eigenvalue is parallel to the steering vector `b` -/
theorem pca_top_parallel (b v : Fin D → ℂ) (σ lam : ℂ) (hlam : lam ≠ 0)
    (hv : (σ • vecMulVec b (star b)) *ᵥ v = lam • v) : v = (σ * (star b ⬝ᵥ v) / lam) • b :=
  BfProof.pca_top_parallel b v σ lam hlam hv

/-- GEV: `Φnn w` of a generalised eigenvector `w` of `(σ b bᴴ, Φnn)` for a non-zero eigenvalue is parallel to `b` -/
theorem gev_atf_parallel (N : Matrix (Fin D) (Fin D) ℂ) (b w : Fin D → ℂ) (σ lam : ℂ) (hlam : lam ≠ 0)
    (hw : (σ • vecMulVec b (star b)) *ᵥ w = lam • (N *ᵥ w)) : gevAtf N w = (σ * (star b ⬝ᵥ w) / lam) • b :=
  BfProof.gev_atf_parallel N b w σ lam hlam hw

/-- exactly rank-one target `σ b bᴴ`: from the eigen-solver contract, the estimate built from the column with
eigenvalue `λ_k ≠ 0` equals the target, and the estimated transfer function is a non-zero multiple of `b`
(GEV variant; `Φnn := 1`, where `gevAtf 1 w = w`, is the PCA variant) -/
theorem rank1_recovers (Pnn V : Matrix (Fin D) (Fin D) ℂ) (l : Fin D → ℝ) (b : Fin D → ℂ) (hb : b ≠ 0)
    (σ : ℂ) (hN : Vᴴ * Pnn * V = 1)
    (hX : Vᴴ * (σ • vecMulVec b (star b)) * V = diagonal (fun i => (l i : ℂ))) (k : Fin D) (hk : l k ≠ 0) :
    Matrix.of (rankOne ℝ (σ • vecMulVec b (star b)) (gevAtf Pnn fun d => V d k)) = σ • vecMulVec b (star b) ∧
    ∃ c : ℂ, c ≠ 0 ∧ gevAtf Pnn (fun d => V d k) = c • b :=
  rank1_recovers_of_contract Pnn V l b hb σ hN hX k hk

/-! ### blind analytic normalisation -/
/-- BAN multiplies the vector by the real gain `sqrt(wᴴΦΦw) / (wᴴΦw)`, which is positive for a positive definite
`Φnn` and `w ≠ 0` -/
theorem ban_factor (csqrt : ℂ → ℂ) (hcs : ∀ z, ‖csqrt z‖ = Real.sqrt ‖z‖) (w : Fin D → ℂ)
    (N : Matrix (Fin D) (Fin D) ℂ) (hN : N.PosDef) (hw : w ≠ 0) :
    ban (α := ℝ) csqrt w N = ((banFactor (α := ℝ) csqrt w N : ℝ) : ℂ) • w ∧
    banFactor (α := ℝ) csqrt w N = Real.sqrt (star w ⬝ᵥ N *ᵥ (N *ᵥ w)).re / (star w ⬝ᵥ N *ᵥ w).re ∧
    0 < banFactor (α := ℝ) csqrt w N :=
  ⟨ban_eq_smul csqrt w N, (banFactor_pos csqrt hcs w N hN hw).1, (banFactor_pos csqrt hcs w N hN hw).2⟩

/-- the result depends on the scale `c ≠ 0` of the input vector only through its phase (not on `|c|`) -/
theorem ban_scale (csqrt : ℂ → ℂ) (hcs : ∀ z, ‖csqrt z‖ = Real.sqrt ‖z‖) (w : Fin D → ℂ)
    (N : Matrix (Fin D) (Fin D) ℂ) (c : ℂ) (hc : c ≠ 0) :
    ban (α := ℝ) csqrt (c • w) N = (c / (‖c‖ : ℂ)) • ban (α := ℝ) csqrt w N ∧
    ∀ r : ℝ, 0 < r → ban (α := ℝ) csqrt (((r : ℝ) : ℂ) • w) N = ban (α := ℝ) csqrt w N := by
  refine ⟨ban_smul csqrt hcs w N c hc, fun r hr => ?_⟩
  rw [ban_smul csqrt hcs w N _ (by exact_mod_cast hr.ne')]
  have : ((r : ℂ) / ((‖(r : ℂ)‖ : ℝ) : ℂ)) = 1 := by
    rw [Complex.norm_real, Real.norm_of_nonneg hr.le]
    exact div_self (by exact_mod_cast hr.ne')
  rw [this, one_smul]

/-- direction and every quotient of quadratic forms (SNR) are untouched by BAN -/
theorem ban_preserves_quotient (csqrt : ℂ → ℂ) (w : Fin D → ℂ) (N P Q : Matrix (Fin D) (Fin D) ℂ)
    (hg : banFactor (α := ℝ) csqrt w N ≠ 0) :
    (star (ban (α := ℝ) csqrt w N) ⬝ᵥ P *ᵥ ban (α := ℝ) csqrt w N).re /
      (star (ban (α := ℝ) csqrt w N) ⬝ᵥ Q *ᵥ ban (α := ℝ) csqrt w N).re =
    (star w ⬝ᵥ P *ᵥ w).re / (star w ⬝ᵥ Q *ᵥ w).re := by
  rw [ban_eq_smul]
  set g := banFactor (α := ℝ) csqrt w N
  have e : ∀ M : Matrix (Fin D) (Fin D) ℂ,
      (star ((g : ℂ) • w) ⬝ᵥ M *ᵥ ((g : ℂ) • w)).re = g * g * (star w ⬝ᵥ M *ᵥ w).re := by
    intro M
    rw [mulVec_smul, star_smul, smul_dotProduct, dotProduct_smul, smul_eq_mul, smul_eq_mul]
    simp [Complex.mul_re, mul_assoc]
  rw [e, e, mul_div_mul_left _ _ (mul_ne_zero hg hg)]

/-! ### non-vacuity -/
/-- a complex square root meeting both contracts exists (NumPy's principal branch is another one) -/
example : ∃ csqrt : ℂ → ℂ, (∀ z, ‖csqrt z‖ = Real.sqrt ‖z‖) ∧
    ∀ x : ℝ, 0 ≤ x → csqrt (x : ℂ) = ((Real.sqrt x : ℝ) : ℂ) :=
  ⟨fun z => ((Real.sqrt ‖z‖ : ℝ) : ℂ), fun z => by simp [abs_of_nonneg (Real.sqrt_nonneg _)],
    fun x hx => by simp [abs_of_nonneg hx]⟩

/-- the eigen-solver contract is met e.g. by `V = 1`, `Φnn = 1`, `Φxx = diag λ` -/
example (l : Fin 2 → ℝ) : ((1 : Matrix (Fin 2) (Fin 2) ℂ)ᴴ * 1 * 1 = 1) ∧
    ((1 : Matrix (Fin 2) (Fin 2) ℂ)ᴴ * diagonal (fun i => (l i : ℂ)) * 1 = diagonal (fun i => (l i : ℂ))) := by
  simp

/-- `gev_dominates_all` instantiated at model outputs -/
example (Pxx Pnn V : Matrix (Fin (n+1)) (Fin (n+1)) ℂ) (l : Fin (n+1) → ℝ)
    (hN : Vᴴ * Pnn * V = 1) (hX : Vᴴ * Pxx * V = diagonal (fun i => (l i : ℂ)))
    (a u : Fin (n+1) → ℂ) (phi : Matrix (Fin (n+1)) (Fin (n+1)) ℂ) (ref : Fin (n+1)) (eps μ : ℝ) :
    (star (mvdrFromSolve ℝ a u) ⬝ᵥ Pxx *ᵥ mvdrFromSolve ℝ a u).re ≤
      l (vargmax l) * (star (mvdrFromSolve ℝ a u) ⬝ᵥ Pnn *ᵥ mvdrFromSolve ℝ a u).re ∧
    (star (souden phi ref eps) ⬝ᵥ Pxx *ᵥ souden phi ref eps).re ≤
      l (vargmax l) * (star (souden phi ref eps) ⬝ᵥ Pnn *ᵥ souden phi ref eps).re ∧
    (star (wmwf μ phi ref) ⬝ᵥ Pxx *ᵥ wmwf μ phi ref).re ≤
      l (vargmax l) * (star (wmwf μ phi ref) ⬝ᵥ Pnn *ᵥ wmwf μ phi ref).re :=
  ⟨gev_max Pxx Pnn V l hN hX _, gev_max Pxx Pnn V l hN hX _, gev_max Pxx Pnn V l hN hX _⟩

end PbBss.C12

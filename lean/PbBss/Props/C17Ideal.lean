import PbBss.Proofs.PipelineProof
/-! # C17 — the documented pipeline separates a separable multi-channel scene

Statements only (helper lemmas: `PbBss/Proofs/PipelineProof.lean`, `PbBss/Proofs/Mvdr.lean`).  Model:
`PbBss/Model/Pipeline.lean`, tied to `get_power_spectral_density_matrix`, `get_mvdr_vector_souden`,
`get_wmwf_vector`, `apply_mapping`, `apply_beamforming_vector`, `output_sxr` by the correspondence run of
`harness/props/c17.py`.

**What is proved** (for all `K`, `D`, `F`, `T`):
* the axis contract of the chain `(F,K,T)` posteriors → `(K,F,T)` masks → per-bin mapping → global permutation →
  `(F,K,T)` → PSDs `(F,K,D,D)` → beamformer `(F,D)` → output `(F,T)`  (`axes_contract`, `axes_contract_bf`);
* for IDEAL masks (every source alone in its frames: class PSD `σ_j a_j a_jᴴ + ε_j·1`): the MVDR leakage bound
  against any zero-forcing vector, the SIR bound `σ_k/(ε‖v_ZF‖²)` and its 30 dB corollary, invariance under
  rescaling (BAN, reference channel), the weighting by activity fractions and the aggregation over frequency bins
  that `output_sxr` performs, and that GEV / Souden MVDR / WMWF / PCA and the rank-one variants are all multiples
  of `Φnn⁻¹ a_k` for a rank-one target, hence share that bound (`ideal_pipeline_sir_partial`).

**What is NOT proved** (gap, the property is claimed *partial*): that the EM posteriors started from a blurred,
per-frequency permuted partition, after DHTV and oracle alignment, are close enough to the ideal masks for the
99 % / 30 dB thresholds.  That clause is decided by the search on the real code only. -/
namespace PbBss.C17
open Matrix PbBss PbBss.Pipeline PbBss.PipelineProof
open scoped ComplexOrder

/-! ## axis contract -/
section axes
variable {α β : Type} [Add α] [Div α] [OfNat α 0] [Max α] [Add β] [Mul β] [OfNat β 0] [CxOps α β] {F K T D : Nat}

/-- **Axis contract of the documented chain** (any scalar types, in particular `Float`/`CF` and `ℝ`/`ℂ`).
The PSD handed to the beamformer for output class `k` at bin `f` is the normalised-mask-weighted sum over the
frames `t` of the outer products of the observations *of the same bin* `f`, where the mask is the posterior of
model class `m (g k) f` of *that bin's* mixture model: no index of another bin, class or frame enters. -/
theorem axes_contract (floor : α) (obs : Fin F → Fin D → Fin T → β) (post : Fin F → Fin K → Fin T → α)
    (m : Fin K → Fin F → Fin K) (g : Fin K → Fin K) (f : Fin F) (k : Fin K) (d e : Fin D) :
    pipelinePsd floor obs post m g f k d e =
      vsum fun t => CxOps.ofReal (post f (m (g k) f) t / max (vsum fun t' => post f (m (g k) f) t') floor)
        * obs f d t * CxOps.conj (α := α) (obs f e t) := rfl

omit [Add α] [Div α] [OfNat α 0] [Max α] in
/-- masks handed to the PSD estimator: `mask[f, k, t] = post[f, mapping[global[k], f], t]`; the noise PSD of target
`k` sums the PSDs of the other classes of the same bin; the beamformer output at `(f, t)` is `Σ_d conj(w[f,d]) x[f,d,t]` -/
theorem axes_contract_bf (post : Fin F → Fin K → Fin T → α) (m : Fin K → Fin F → Fin K) (g : Fin K → Fin K)
    (P : Fin F → Fin K → Fin D → Fin D → β) (w : Fin F → Fin D → β) (x : Fin F → Fin D → Fin T → β)
    (f : Fin F) (k : Fin K) (t : Fin T) (d e : Fin D) :
    pipelineMasks post m g f k t = post f (m (g k) f) t ∧
    noiseFromPsd P f k d e = (vsum fun j => if j = k then (0 : β) else P f j d e) ∧
    applyBf (α := α) w x f t = vsum fun d' => CxOps.conj (α := α) (w f d') * x f d' t :=
  ⟨rfl, rfl, rfl⟩
/-- **class bookkeeping across the two alignments**: if the posteriors are a per-frequency permutation `π f` of
frequency-consistent masks (`post[f, c, t] = truth[f, π f c, t]`) and the DHTV mapping followed by the global
permutation undoes it (`π f (mapping[global[k], f]) = k` — what C14–C16 establish for the aligners), the masks
handed to the PSD estimator are the consistent ones, class by class and bin by bin. -/
theorem axes_alignment_bookkeeping {γ : Type} (truth : Fin F → Fin K → Fin T → γ) (perm : Fin F → Fin K → Fin K)
    (m : Fin K → Fin F → Fin K) (g : Fin K → Fin K) (h : ∀ f k, perm f (m (g k) f) = k) (f : Fin F) (k : Fin K)
    (t : Fin T) : pipelineMasks (fun f c t => truth f (perm f c) t) m g f k t = truth f k t := by
  simp only [pipelineMasks, toFKT, applyGlobal, applyMapping, toKFT, h]
end axes

/-- non-vacuity of the axis contract: a permutation of the classes is undone by the inverse mapping -/
example (post : Fin 3 → Fin 2 → Fin 4 → ℝ) (f : Fin 3) (t : Fin 4) :
    pipelineMasks post (fun k _ => k) (fun k => ⟨1 - k.val, by omega⟩) f 0 t = post f 1 t := rfl

/-! ## ideal masks: leakage and SIR -/
section ideal
variable {K D : Nat}

/-- **Ideal masks give the ideal-scene PSDs.**  `get_power_spectral_density_matrix` (model `psd`, floor `1e-10`) with
the TRUE one-hot mask of class `k`, on frames in which only the owning source is present (`y[f,:,t] = a[f, owner t] s[f,t]`),
returns the rank-one class PSD `σ_k a_k a_kᴴ` with `σ_k` the mean of `|s|²` over the frames of class `k` (which must be
non-empty: the 15 % activity premise).  White sensor noise adds `ε·1` in expectation (`classPsd`); the sampling
fluctuation of the noise is not modelled. -/
theorem ideal_mask_psd {F T : Nat} (floor : ℝ) (owner : Fin T → Fin K) (s : Fin F → Fin T → ℂ)
    (a : Fin F → Fin K → Fin D → ℂ) (f : Fin F) (k : Fin K)
    (hn : floor ≤ ∑ t, (if owner t = k then (1 : ℝ) else 0)) (hn0 : 0 < ∑ t, (if owner t = k then (1 : ℝ) else 0)) :
    psd floor (fun f d t => a f (owner t) d * s f t) (fun _ k t => if owner t = k then (1 : ℝ) else 0) f k =
      classPsd ((∑ t, if owner t = k then Complex.normSq (s f t) else 0) /
        (∑ t, (if owner t = k then (1 : ℝ) else 0))) 0 (a f k) :=
  psd_ideal_mask floor owner s a f k hn hn0

/-- the model's noise PSD has the quadratic form `wᴴ Φnn w = Σ_{j≠k} σ_j |wᴴa_j|² + (Σ_{j≠k} ε_j) ‖w‖²`
(interference plus white-noise gain) — no sign assumptions -/
theorem ideal_noise_psd_quadratic_form (sigma eps : Fin K → ℝ) (a : Fin K → Fin D → ℂ) (k : Fin K)
    (w : Fin D → ℂ) :
    quadForm (α := ℝ) (noisePsd sigma eps a k) w = leakage sigma (noiseEps eps k) a w k := by
  rw [quadForm_eq, quad_noisePsd, Complex.ofReal_re]

/-- **MVDR leakage bound** (from `mvdr_optimal` against the zero-forcing vector).  Ideal noise PSD
`Φnn = Σ_{j≠k} (σ_j a_j a_jᴴ + ε_j 1)` with `σ_j, ε_j ≥ 0`, `ε = Σ_{j≠k} ε_j > 0`; solver contract `Φnn u = a_k`;
`v` any vector with `vᴴa_k = 1`, `vᴴa_j = 0 (j ≠ k)`.  Then `w = u/(a_kᴴu)` satisfies
`Σ_{j≠k} σ_j |wᴴa_j|² + ε‖w‖² ≤ ε‖v‖²`. -/
theorem mvdr_leakage_bound (sigma eps : Fin K → ℝ) (hs : ∀ j, 0 ≤ sigma j) (he : ∀ j, 0 ≤ eps j)
    (a : Fin K → Fin D → ℂ) (k : Fin K) (hpos : 0 < noiseEps eps k) (u v : Fin D → ℂ)
    (hu : (Matrix.of (noisePsd sigma eps a k)) *ᵥ u = a k)
    (hv1 : star v ⬝ᵥ a k = 1) (hv0 : ∀ j, j ≠ k → star v ⬝ᵥ a j = 0) :
    interference sigma a (mvdrFromSolve (α := ℝ) (a k) u) k
        + noiseEps eps k * normSq (α := ℝ) (mvdrFromSolve (α := ℝ) (a k) u)
      ≤ noiseEps eps k * normSq (α := ℝ) v :=
  mvdr_leakage hs he a k hpos u v hu hv1 hv0

/-- **SIR bound, division-free form** (covers the branch of zero interference, where the ratio is `+∞`):
`σ_k · interference ≤ signal · ε‖v‖²` with `signal = σ_k |wᴴa_k|² = σ_k`. -/
theorem sir_bound_mul (sigma eps : Fin K → ℝ) (hs : ∀ j, 0 ≤ sigma j) (he : ∀ j, 0 ≤ eps j)
    (a : Fin K → Fin D → ℂ) (k : Fin K) (hpos : 0 < noiseEps eps k) (u v : Fin D → ℂ)
    (hu : (Matrix.of (noisePsd sigma eps a k)) *ᵥ u = a k)
    (hv1 : star v ⬝ᵥ a k = 1) (hv0 : ∀ j, j ≠ k → star v ⬝ᵥ a j = 0) :
    let w := mvdrFromSolve (α := ℝ) (a k) u
    outPower sigma a w k = sigma k ∧
    interference sigma a w k ≤ zfBound (noiseEps eps k) v ∧
    sigma k * interference sigma a w k ≤ outPower sigma a w k * zfBound (noiseEps eps k) v := by
  intro w
  have hak : a k ≠ 0 := by
    intro h0; rw [h0, dotProduct_zero] at hv1; exact zero_ne_one hv1
  have h1 : outPower sigma a w k = sigma k := mvdr_outPower hs he a k hpos u hu hak
  have h2 : interference sigma a w k ≤ zfBound (noiseEps eps k) v :=
    le_trans (interference_le_leakage sigma hpos.le a w k) (mvdr_leakage hs he a k hpos u v hu hv1 hv0)
  exact ⟨h1, h2, by rw [h1]; exact mul_le_mul_of_nonneg_left h2 (hs k)⟩

/-- **SIR bound**: `SIR_out ≥ σ_k / (ε ‖v_ZF‖²)`.  The guard `0 < interference` excludes the totalised `x/0 = 0`
(with zero interference the SIR is infinite; that branch is `sir_bound_mul`). -/
theorem sir_bound (sigma eps : Fin K → ℝ) (hs : ∀ j, 0 ≤ sigma j) (he : ∀ j, 0 ≤ eps j)
    (a : Fin K → Fin D → ℂ) (k : Fin K) (hpos : 0 < noiseEps eps k) (u v : Fin D → ℂ)
    (hu : (Matrix.of (noisePsd sigma eps a k)) *ᵥ u = a k)
    (hv1 : star v ⬝ᵥ a k = 1) (hv0 : ∀ j, j ≠ k → star v ⬝ᵥ a j = 0)
    (hI : 0 < interference sigma a (mvdrFromSolve (α := ℝ) (a k) u) k) :
    sirLower (sigma k) (noiseEps eps k) v ≤ sirOut sigma a (mvdrFromSolve (α := ℝ) (a k) u) k := by
  obtain ⟨h1, h2, -⟩ := sir_bound_mul sigma eps hs he a k hpos u v hu hv1 hv0
  unfold sirLower sirOut
  rw [h1]
  exact div_le_div_of_nonneg_left (hs k) hI h2

/-- **30 dB, linear domain**: noise floor `ε ≤ 1e-4 σ_k` (40 dB below the target) and a zero-forcing vector with
`‖v‖² ≤ 10` give `SIR_out ≥ 1000`. -/
theorem sir_30dB (sigma eps : Fin K → ℝ) (hs : ∀ j, 0 ≤ sigma j) (he : ∀ j, 0 ≤ eps j)
    (a : Fin K → Fin D → ℂ) (k : Fin K) (hpos : 0 < noiseEps eps k) (u v : Fin D → ℂ)
    (hu : (Matrix.of (noisePsd sigma eps a k)) *ᵥ u = a k)
    (hv1 : star v ⬝ᵥ a k = 1) (hv0 : ∀ j, j ≠ k → star v ⬝ᵥ a j = 0)
    (hI : 0 < interference sigma a (mvdrFromSolve (α := ℝ) (a k) u) k)
    (hfloor : noiseEps eps k ≤ 1e-4 * sigma k) (hv : normSq (α := ℝ) v ≤ 10) :
    1000 ≤ sirOut sigma a (mvdrFromSolve (α := ℝ) (a k) u) k := by
  refine le_trans ?_ (sir_bound sigma eps hs he a k hpos u v hu hv1 hv0 hI)
  obtain ⟨-, h2, -⟩ := sir_bound_mul sigma eps hs he a k hpos u v hu hv1 hv0
  have hz : 0 < zfBound (noiseEps eps k) v := lt_of_lt_of_le hI h2
  have hzb : zfBound (noiseEps eps k) v ≤ 1e-3 * sigma k := by
    unfold zfBound
    have hn := normSq_nonneg v
    nlinarith [hs k]
  unfold sirLower
  rw [le_div_iff₀ hz]
  nlinarith

/-- **30 dB** with `Real.logb`: `10·log₁₀ SIR_out ≥ 30`. -/
theorem sir_30dB_logb (sigma eps : Fin K → ℝ) (hs : ∀ j, 0 ≤ sigma j) (he : ∀ j, 0 ≤ eps j)
    (a : Fin K → Fin D → ℂ) (k : Fin K) (hpos : 0 < noiseEps eps k) (u v : Fin D → ℂ)
    (hu : (Matrix.of (noisePsd sigma eps a k)) *ᵥ u = a k)
    (hv1 : star v ⬝ᵥ a k = 1) (hv0 : ∀ j, j ≠ k → star v ⬝ᵥ a j = 0)
    (hI : 0 < interference sigma a (mvdrFromSolve (α := ℝ) (a k) u) k)
    (hfloor : noiseEps eps k ≤ 1e-4 * sigma k) (hv : normSq (α := ℝ) v ≤ 10) :
    30 ≤ 10 * Real.logb 10 (sirOut sigma a (mvdrFromSolve (α := ℝ) (a k) u) k) := by
  have h := sir_30dB sigma eps hs he a k hpos u v hu hv1 hv0 hI hfloor hv
  have h3 : Real.logb 10 1000 = 3 := by
    rw [show (1000 : ℝ) = 10 ^ (3 : ℕ) by norm_num, Real.logb_pow, Real.logb_self_eq_one (by norm_num)]
    norm_num
  have := Real.logb_le_logb_of_le (b := 10) (by norm_num) (by norm_num : (0 : ℝ) < 1000) h
  rw [h3] at this
  linarith

/-- the SIR does not depend on a (per-bin) non-zero complex rescaling of the beamformer — blind analytic
normalisation, the `conj(a_ref)` factor of the Souden form, the eigenvector normalisation of `eigh` -/
theorem sir_scale_invariant (sigma : Fin K → ℝ) (a : Fin K → Fin D → ℂ) (w : Fin D → ℂ) (c : ℂ) (hc : c ≠ 0)
    (k : Fin K) : sirOut sigma a (fun d => c * w d) k = sirOut sigma a w k :=
  sirOut_smul sigma a w hc k

/-- `output_sxr` weights every source by its activity fraction `p_j ∈ [0, 1]` (variance over ALL frames): the
measured interference is at most the class-conditional one, so the measured SIR is at least
`p_k σ_k / (ε‖v_ZF‖²)` (≥ 0.15 · … under the 15 % activity premise). -/
theorem sir_weighted_bound (sigma eps p : Fin K → ℝ) (hs : ∀ j, 0 ≤ sigma j) (he : ∀ j, 0 ≤ eps j)
    (hp0 : ∀ j, 0 ≤ p j) (hp1 : ∀ j, p j ≤ 1)
    (a : Fin K → Fin D → ℂ) (k : Fin K) (hpos : 0 < noiseEps eps k) (u v : Fin D → ℂ)
    (hu : (Matrix.of (noisePsd sigma eps a k)) *ᵥ u = a k)
    (hv1 : star v ⬝ᵥ a k = 1) (hv0 : ∀ j, j ≠ k → star v ⬝ᵥ a j = 0)
    (hI : 0 < interference (fun j => p j * sigma j) a (mvdrFromSolve (α := ℝ) (a k) u) k) :
    p k * sigma k / zfBound (noiseEps eps k) v ≤
      sirOut (fun j => p j * sigma j) a (mvdrFromSolve (α := ℝ) (a k) u) k := by
  obtain ⟨h1, h2, -⟩ := sir_bound_mul sigma eps hs he a k hpos u v hu hv1 hv0
  have h3 := interference_weighted_le hs hp1 a (mvdrFromSolve (α := ℝ) (a k) u) k
  have hsig : outPower (fun j => p j * sigma j) a (mvdrFromSolve (α := ℝ) (a k) u) k = p k * sigma k := by
    have : outPower (fun j => p j * sigma j) a (mvdrFromSolve (α := ℝ) (a k) u) k
        = p k * outPower sigma a (mvdrFromSolve (α := ℝ) (a k) u) k := by
      simp only [outPower]; ring
    rw [this, h1]
  unfold sirOut
  rw [hsig]
  exact div_le_div_of_nonneg_left (mul_nonneg (hp0 k) (hs k)) hI (le_trans h3 h2)

/-- `output_sxr` pools all frequency bins: if every bin has `c · interference_f ≤ signal_f`, the pooled ratio is
at least `c` (again guarded against the empty denominator) -/
theorem sir_aggregate_over_bins {F : Nat} (S I : Fin F → ℝ) (c : ℝ) (h : ∀ f, c * I f ≤ S f)
    (hI : 0 < ∑ f, I f) : c ≤ (∑ f, S f) / (∑ f, I f) := by
  rw [le_div_iff₀ hI, Finset.mul_sum]
  exact Finset.sum_le_sum fun f _ => h f
end ideal

/-! ## rank-one target: every listed beamformer is a multiple of `u = Φnn⁻¹ a_k` -/
section direction
variable {K D : Nat}

/-- **GEV** (`get_gev_vector`, contract of `scipy.linalg.eigh(Φxx, Φnn)`: `Φxx w = λ Φnn w`): for the rank-one target
`σ_k a_k a_kᴴ` every generalised eigenvector with non-zero eigenvalue is a multiple of `u` -/
theorem gev_same_direction (sigma eps : Fin K → ℝ) (hs : ∀ j, 0 ≤ sigma j) (a : Fin K → Fin D → ℂ) (k : Fin K)
    (hpos : 0 < noiseEps eps k) (u w : Fin D → ℂ) (lam : ℂ)
    (hu : (Matrix.of (noisePsd sigma eps a k)) *ᵥ u = a k)
    (hw : (Matrix.of (classPsd (sigma k) 0 (a k))) *ᵥ w = lam • ((Matrix.of (noisePsd sigma eps a k)) *ᵥ w))
    (hlam : lam ≠ 0) :
    w = (((sigma k : ℂ) * (star (a k) ⬝ᵥ w)) / lam) • u := by
  rw [targetPsd_eq] at hw
  exact gev_parallel _ (fun x hx => noisePsd_injective hs a k hpos hx) (sigma k) (a k) u w lam hu hw hlam

/-- … and such an eigenvector exists: `u` itself, with the positive eigenvalue `σ_k a_kᴴu` (all other eigenvalues
are `0` by `gev_same_direction`, so this is the one `argmax` selects) -/
theorem gev_principal_exists (sigma eps : Fin K → ℝ) (hs : ∀ j, 0 ≤ sigma j) (a : Fin K → Fin D → ℂ) (k : Fin K)
    (hpos : 0 < noiseEps eps k) (hsk : 0 < sigma k) (hak : a k ≠ 0) (u : Fin D → ℂ)
    (hu : (Matrix.of (noisePsd sigma eps a k)) *ᵥ u = a k) :
    (Matrix.of (classPsd (sigma k) 0 (a k))) *ᵥ u =
        ((sigma k : ℂ) * (star (a k) ⬝ᵥ u)) • ((Matrix.of (noisePsd sigma eps a k)) *ᵥ u) ∧
      0 < ((sigma k : ℂ) * (star (a k) ⬝ᵥ u)).re ∧ ((sigma k : ℂ) * (star (a k) ⬝ᵥ u)).im = 0 := by
  obtain ⟨h1, h2⟩ := solve_dot_pos hs a k hpos (a k) u hu hak
  refine ⟨by rw [targetPsd_eq]; exact gev_principal _ (sigma k) (a k) u hu, ?_, ?_⟩
  · rw [Complex.re_ofReal_mul]; exact mul_pos hsk h1
  · rw [Complex.im_ofReal_mul, h2, mul_zero]

/-- **Souden MVDR** (`get_mvdr_vector_souden`): `phi = σ_k u a_kᴴ` is what the solver contract `Φnn phi = Φxx`
yields for the rank-one target, and the returned column is `conj(a_k[ref])/(a_kᴴu) · u` — the MVDR vector of
`mvdr_leakage_bound` times `conj(a_k[ref])` (floor `tiny` not active). -/
theorem souden_same_direction (sigma eps : Fin K → ℝ) (hs : ∀ j, 0 ≤ sigma j) (a : Fin K → Fin D → ℂ) (k : Fin K)
    (hpos : 0 < noiseEps eps k) (hsk : 0 < sigma k) (hak : a k ≠ 0) (u : Fin D → ℂ)
    (hu : (Matrix.of (noisePsd sigma eps a k)) *ᵥ u = a k) (tiny : ℝ) (ht : 0 < tiny)
    (hfloor : tiny ≤ sigma k * (star (a k) ⬝ᵥ u).re) (ref : Fin D) :
    (Matrix.of (noisePsd sigma eps a k)) * Matrix.of (rankOnePhi (sigma k) (a k) u) =
        Matrix.of (classPsd (sigma k) 0 (a k)) ∧
      souden tiny (rankOnePhi (sigma k) (a k) u) ref =
        fun d => star (a k ref) * mvdrFromSolve (α := ℝ) (a k) u d := by
  obtain ⟨-, h2⟩ := solve_dot_pos hs a k hpos (a k) u hu hak
  refine ⟨rankOnePhi_solves _ (sigma k) (a k) u hu, ?_⟩
  rw [souden_rankOne ht hsk (a k) u ref h2 hfloor]
  funext d
  simp only [mvdrFromSolve, cdot_eq]
  ring

/-- **WMWF** (`get_wmwf_vector`, numeric `distortion_weight = μ`): the returned column is
`σ_k conj(a_k[ref]) / (μ + σ_k a_kᴴu) · u` -/
theorem wmwf_same_direction (mu sigmak : ℝ) (ak u : Fin D → ℂ) (ref : Fin D) :
    wmwf mu (rankOnePhi sigmak ak u) ref =
      fun d => ((sigmak : ℂ) * star (ak ref) / ((mu : ℂ) + (sigmak : ℂ) * (star ak ⬝ᵥ u))) * u d :=
  wmwf_rankOne mu sigmak ak u ref

/-- **PCA** (`get_pca_vector`, contract of `eigh`): the principal eigenvector of the rank-one target is a multiple
of the steering vector `a_k`, so `'pca+mvdr'` solves `Φnn x = c·a_k`, i.e. `x = c·u` -/
theorem pca_same_direction (sigmak : ℝ) (ak b : Fin D → ℂ) (mu : ℂ)
    (hb : (Matrix.of (classPsd sigmak 0 ak)) *ᵥ b = mu • b) (hmu : mu ≠ 0) :
    b = (((sigmak : ℂ) * (star ak ⬝ᵥ b)) / mu) • ak := by
  rw [targetPsd_eq] at hb
  exact pca_parallel sigmak ak b mu hb hmu

/-- **rank-one variants** (`rank1_pca+…`, `rank1_gev+…`): the rank-one estimate built from any non-zero multiple of
`a_k` — the PCA vector (`pca_same_direction`) or the GEV ATF `Φnn·w_gev = c·Φnn u = c·a_k` (`gev_same_direction`) —
*is* the rank-one target again, so these names reduce to the plain ones. -/
theorem rank_one_estimate_fixed (sigmak : ℝ) (ak : Fin D → ℂ) (c : ℂ) (hc : c ≠ 0) (hak : ak ≠ 0) :
    rankOneEstimate (α := ℝ) (classPsd sigmak 0 ak) (fun d => c * ak d) = classPsd sigmak 0 ak :=
  rankOneEstimate_fixed sigmak ak c hc hak

/-- **Ideal-mask pipeline bound (partial: ideal masks only).**  Any beamformer that is a non-zero multiple of
`u = Φnn⁻¹ a_k` — by the theorems above: Souden MVDR, GEV with or without BAN, WMWF, `pca+mvdr`, and their rank-one
variants for a rank-one target — reaches `SIR ≥ 1000` (30 dB) in a bin where the noise floor is 40 dB below the
target and a zero-forcing vector of squared norm ≤ 10 exists.  MISSING for the full property: the masks are the
EM posteriors after alignment, not the ideal ones (search-only). -/
theorem ideal_pipeline_sir_partial (sigma eps : Fin K → ℝ) (hs : ∀ j, 0 ≤ sigma j) (he : ∀ j, 0 ≤ eps j)
    (a : Fin K → Fin D → ℂ) (k : Fin K) (hpos : 0 < noiseEps eps k) (u v w : Fin D → ℂ) (c : ℂ)
    (hu : (Matrix.of (noisePsd sigma eps a k)) *ᵥ u = a k)
    (hw : w = fun d => c * u d) (hc : c ≠ 0)
    (hv1 : star v ⬝ᵥ a k = 1) (hv0 : ∀ j, j ≠ k → star v ⬝ᵥ a j = 0)
    (hI : 0 < interference sigma a w k)
    (hfloor : noiseEps eps k ≤ 1e-4 * sigma k) (hv : normSq (α := ℝ) v ≤ 10) :
    1000 ≤ sirOut sigma a w k ∧ 30 ≤ 10 * Real.logb 10 (sirOut sigma a w k) := by
  have hak : a k ≠ 0 := by
    intro h0; rw [h0, dotProduct_zero] at hv1; exact zero_ne_one hv1
  have hq : star (a k) ⬝ᵥ u ≠ 0 := by
    intro h0
    have := (solve_dot_pos hs a k hpos (a k) u hu hak).1
    rw [h0] at this; simp at this
  -- w = c' · w_mvdr with c' = c · (a_kᴴ u) ≠ 0
  have hw' : w = fun d => (c * (star (a k) ⬝ᵥ u)) * mvdrFromSolve (α := ℝ) (a k) u d := by
    rw [hw]; funext d
    simp only [mvdrFromSolve, cdot_eq]
    field_simp
  have hc' : c * (star (a k) ⬝ᵥ u) ≠ 0 := mul_ne_zero hc hq
  have hsir : sirOut sigma a w k = sirOut sigma a (mvdrFromSolve (α := ℝ) (a k) u) k := by
    rw [hw']; exact sirOut_smul sigma a _ hc' k
  have hI' : 0 < interference sigma a (mvdrFromSolve (α := ℝ) (a k) u) k := by
    rw [hw', interference_smul] at hI
    have hn : 0 < Complex.normSq (c * (star (a k) ⬝ᵥ u)) := Complex.normSq_pos.mpr hc'
    by_contra hneg
    have := mul_nonpos_of_nonneg_of_nonpos hn.le (not_lt.mp hneg)
    linarith
  rw [hsir]
  exact ⟨sir_30dB sigma eps hs he a k hpos u v hu hv1 hv0 hI' hfloor hv,
    sir_30dB_logb sigma eps hs he a k hpos u v hu hv1 hv0 hI' hfloor hv⟩
end direction

/-! ## non-vacuity: a concrete two-source, three-sensor bin satisfies every hypothesis of the SIR theorems -/
section nonvacuous
/-- steering vectors `a₀ = (1,0,0)`, `a₁ = (1,1,0)` (not orthogonal: the interference is NOT zero), powers
`σ = (20000, 1)`, white noise `ε_j = 1` (43 dB below the target): `Φnn = a₁a₁ᴴ + 1`, `u = (2/3, -1/3, 0)` solves
`Φnn u = a₀`, `v = (1,-1,0)` is zero-forcing with `‖v‖² = 2 ≤ 10`; the MVDR vector is `(1, -1/2, 0)` and lets
`σ₁|wᴴa₁|² = 1/4 > 0` through, so the guarded theorems apply: `SIR ≥ 1000`. -/
example :
    let sigma : Fin 2 → ℝ := fun j => if j.val = 0 then 20000 else 1
    let a : Fin 2 → Fin 3 → ℂ := fun j d => if d.val ≤ j.val then 1 else 0
    let u : Fin 3 → ℂ := fun d => if d.val = 0 then 2/3 else if d.val = 1 then -1/3 else 0
    1000 ≤ sirOut sigma a (mvdrFromSolve (α := ℝ) (a 0) u) 0 := by
  intro sigma a u
  let eps : Fin 2 → ℝ := fun _ => 1
  let v : Fin 3 → ℂ := fun d => if d.val = 0 then 1 else if d.val = 1 then -1 else 0
  have hcd : cdot ℝ (a 0) u = 2/3 := by
    simp [cdot_eq, dotProduct, Fin.sum_univ_succ, a, u]
  have hw : mvdrFromSolve (α := ℝ) (a 0) u = fun d => if d.val = 0 then 1 else if d.val = 1 then -1/2 else 0 := by
    funext d
    simp only [mvdrFromSolve, hcd]
    fin_cases d <;> simp [u]
    norm_num
  refine sir_30dB sigma eps ?_ ?_ a 0 ?_ u v ?_ ?_ ?_ ?_ ?_ ?_
  · intro j; fin_cases j <;> simp [sigma]
  · intro j; simp [eps]
  · simp [noiseEps, vsum_eq_sum, eps]
  · funext d
    fin_cases d <;>
      simp [mulVec, dotProduct, noisePsd, classPsd, cj, vsum_eq_sum, Fin.sum_univ_succ, sigma, eps, a, u] <;> norm_num
  · simp [dotProduct, v, a]
  · intro j hj
    fin_cases j
    · exact absurd rfl hj
    · simp [dotProduct, Fin.sum_univ_succ, v, a]
  · rw [hw]
    simp [interference, outPower, absSq_eq, cdot_eq, dotProduct, vsum_eq_sum, Fin.sum_univ_succ, sigma, a]
    norm_num [map_ofNat]
  · simp [noiseEps, vsum_eq_sum, Fin.sum_univ_succ, eps, sigma]; norm_num
  · simp [normSq_eq, Fin.sum_univ_succ, v]; norm_num
end nonvacuous

end PbBss.C17

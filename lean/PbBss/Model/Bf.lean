import PbBss.Model.Basic
/-! Models of `pb_bss/extraction/beamformer.py` and the rank-one helpers of `beamformer_wrapper.py`
(core Lean only; generic in the scalar types: `α` "real", `β` "complex over `α`").

Anchors (line numbers of /repo at the time of writing):
* `get_mvdr_vector`                 beamformer.py:230-260   → `hermSym`, `mvdrFromSolve`, `getMvdrVector`
* `get_lcmv_vector`                 beamformer.py:414-456   → `lcmvGram`, `lcmvCombine`, `getLcmvVector`
* `get_optimal_reference_channel`   beamformer.py:601-624   → `cmaxReal`, `quadF`, `refSnr`, `refChannel`
* `get_mvdr_vector_souden`          beamformer.py:627-698   → `soudenMat`, `souden`, `soudenAuto`
* `get_wmwf_vector` (numeric `distortion_weight`, reference-channel branch)
                                    beamformer.py:701-753   → `wmwfFilter`, `wmwf`, `wmwfAuto`
* `get_pca` / `get_pca_vector`      beamformer.py:163-224   → `pcaSelect`, `pcaVector`
* `_get_gev_vector`                 beamformer.py:351-411   → `gevSelect`
* `blind_analytic_normalization`    beamformer.py:459-488   → `banFactor`, `ban`
* `get_pca_rank_one_estimate`, `_get_gev_atf_vector`, `get_gev_rank_one_estimate`
                                    beamformer_wrapper.py:11-75 → `rankOne`, `gevAtf`

Externals are parameters (DESIGN.md 2.1): the linear solver (`np.linalg.solve` / `stable_solve`) enters through its
*result* (`u` with `Φ u = a`, `phi` with `Φnn phi = Φxx`) or as a function argument of the `get…` compositions, the
(generalised) Hermitian eigen-solver through its eigenvalue / eigenvector tables, and NumPy's complex square root
`np.sqrt` through the parameter `csqrt`.  The `complex64` cast of the LCMV response vector is transcribed as the
identity (DESIGN.md section 4, C11 gap).  -/
namespace PbBss.Bf

section
variable (α : Type) {β : Type} [Add α] [Sub α] [Mul α] [Div α] [Neg α] [OfNat α 0] [OfNat α 1] [Max α] [LT α]
  [DecidableLT α] [Transc α]
  [Add β] [Sub β] [Mul β] [Div β] [Neg β] [OfNat β 0] [OfNat β 1] [CxOps α β]

/-- complex conjugate (the scalar layer needs `α` to find the instance) -/
@[reducible] def cj (z : β) : β := CxOps.conj (α := α) z

/-- `xᴴ y = Σ_d conj(x_d) y_d`   (`np.einsum('...d,...d->...', x.conj(), y)`) -/
def cdot {D : Nat} (x y : Fin D → β) : β := vsum fun d => cj α (x d) * y d

/-- `0.5` -/
def half : α := (1 : α) / ((1 : α) + (1 : α))

/-- `0.5 * (Φ + conj(Φ.swapaxes(-1, -2)))` -/
def hermSym {D : Nat} (Φ : Fin D → Fin D → β) : Fin D → Fin D → β :=
  fun i j => CxOps.ofReal (half α) * (Φ i j + cj α (Φ j i))

/-- `numerator / denominator[..., None]` with `denominator = einsum('...d,...d->...', a.conj(), numerator)`;
`u` is the solver's result `numerator = solve(Φ, a)` -/
def mvdrFromSolve {D : Nat} (a u : Fin D → β) : Fin D → β :=
  let den := cdot α a u
  fun d => u d / den

/-- `get_mvdr_vector` for one bin: symmetrise, solve, normalise -/
def getMvdrVector {D : Nat} (solve : (Fin D → Fin D → β) → (Fin D → β) → Fin D → β)
    (a : Fin D → β) (Φ : Fin D → Fin D → β) : Fin D → β :=
  mvdrFromSolve α a (solve (hermSym α Φ) a)

/-- `get_mvdr_vector` on a stack: steering vectors `(K sources, F bins, D)`, noise PSDs `(F, D, D)` broadcast over
the source axis (`np.expand_dims(noise_psd_matrix, axis=0)` until the ranks match; the batched `solve` and the
`'...d,...d->...'` einsum act per leading index) -/
def mvdrStack {K F D : Nat} (solve : (Fin D → Fin D → β) → (Fin D → β) → Fin D → β)
    (atf : Fin K → Fin F → Fin D → β) (noise : Fin F → Fin D → Fin D → β) : Fin K → Fin F → Fin D → β :=
  fun k f => getMvdrVector α solve (atf k f) (noise f)

/-! ### LCMV -/
/-- `H_times_Phi_inverse_times_H[k, K] = Σ_d conj(atf[k, d]) · Phi_inverse_times_H[K, d]` -/
def lcmvGram {K D : Nat} (A U : Fin K → Fin D → β) : Fin K → Fin K → β := fun k k' => cdot α (A k) (U k')

/-- `einsum('k...d,...k->...d', Phi_inverse_times_H, temp)` -/
def lcmvCombine {K D : Nat} (U : Fin K → Fin D → β) (t : Fin K → β) : Fin D → β :=
  fun d => vsum fun k => U k d * t k

/-- `get_lcmv_vector` for one bin (`response_vector.astype(np.complex64)` transcribed as the identity) -/
def getLcmvVector {K D : Nat} (solveD : (Fin D → Fin D → β) → (Fin D → β) → Fin D → β)
    (solveK : (Fin K → Fin K → β) → (Fin K → β) → Fin K → β)
    (A : Fin K → Fin D → β) (r : Fin K → β) (Φ : Fin D → Fin D → β) : Fin D → β :=
  let U : Fin K → Fin D → β := fun k => solveD Φ (A k)
  lcmvCombine U (solveK (lcmvGram α A U) r)
end

section
variable {α β : Type} [Add α] [Sub α] [Mul α] [Div α] [Neg α] [OfNat α 0] [OfNat α 1] [Max α] [LT α]
  [DecidableLT α] [Transc α]
  [Add β] [Sub β] [Mul β] [Div β] [Neg β] [OfNat β 0] [OfNat β 1] [CxOps α β]

/-- `np.trace(phi, axis1=-1, axis2=-2)` -/
def trace {D : Nat} (M : Fin D → Fin D → β) : β := vsum fun i => M i i

/-- `M @ x` -/
def matVec {D : Nat} (M : Fin D → Fin D → β) (x : Fin D → β) : Fin D → β := fun i => vsum fun j => M i j * x j

/-! ### Souden MVDR and the weighted multichannel Wiener filter; `phi = stable_solve(Φnn, Φxx)` -/
/-- `mat = phi / np.maximum(lambda_.real, eps)` -/
def soudenMat {D : Nat} (phi : Fin D → Fin D → β) (eps : α) : Fin D → Fin D → β :=
  let lam := trace phi
  let den : α := max (CxOps.re lam) eps
  fun i j => phi i j / CxOps.ofReal den

/-- `get_mvdr_vector_souden(..., ref_channel=ref)` for one bin: `mat[..., ref_channel]` -/
def souden {D : Nat} (phi : Fin D → Fin D → β) (ref : Fin D) (eps : α) : Fin D → β :=
  fun d => soudenMat phi eps d ref

/-- `filter_ = phi / (distortion_weight + lambda_)` -/
def wmwfFilter {D : Nat} (mu : α) (phi : Fin D → Fin D → β) : Fin D → Fin D → β :=
  let lam := trace phi
  fun i j => phi i j / (CxOps.ofReal mu + lam)

/-- `get_wmwf_vector(..., reference_channel=ref, distortion_weight=mu)` for one bin -/
def wmwf {D : Nat} (mu : α) (phi : Fin D → Fin D → β) (ref : Fin D) : Fin D → β :=
  fun d => wmwfFilter mu phi d ref

/-! ### reference-channel selection -/
/-- `np.maximum(z, eps)` for complex `z` and real `eps`: NumPy orders complex numbers lexicographically -/
def cmaxReal (z : β) (eps : α) : β :=
  let x : α := CxOps.re z
  if eps < x then z
  else if x < eps then CxOps.ofReal eps
  else if CxOps.im z < (0 : α) then CxOps.ofReal eps else z

/-- `einsum('...FdR,...FdD,...FDR->...R', w.conj(), P, w)` for one `R` (`w f d = w_mat[f, d, R]`) -/
def quadF {F D : Nat} (w : Fin F → Fin D → β) (P : Fin F → Fin D → Fin D → β) : β :=
  vsum fun f => vsum fun d => vsum fun e => CxOps.conj (α := α) (w f d) * P f d e * w f e

/-- the library's SNR criterion (real part taken by `np.argmax(SNR.real)`) -/
def refSnr {F D : Nat} (wmat : Fin F → Fin D → Fin D → β) (X N : Fin F → Fin D → Fin D → β) (eps : α) :
    Fin D → α := fun R =>
  let w : Fin F → Fin D → β := fun f d => wmat f d R
  CxOps.re (quadF (α := α) w X / cmaxReal (quadF (α := α) w N) eps)

/-- `get_optimal_reference_channel`: first arg-max of the SNR criterion -/
def refChannel {F n : Nat} (wmat : Fin F → Fin (n+1) → Fin (n+1) → β) (X N : Fin F → Fin (n+1) → Fin (n+1) → β)
    (eps : α) : Fin (n+1) := vargmax (refSnr wmat X N eps)

/-- `get_mvdr_vector_souden(..., ref_channel=None, return_ref_channel=True)`: `(F, D, D)` inputs,
`phi f = stable_solve(Φnn_f, Φxx_f)`; returns the chosen channel and the beamformer `mat[..., ref_channel]` -/
def soudenAuto {F n : Nat} (phi X N : Fin F → Fin (n+1) → Fin (n+1) → β) (eps : α) :
    Fin (n+1) × (Fin F → Fin (n+1) → β) :=
  let ref := refChannel (fun f => soudenMat (phi f) eps) X N eps
  (ref, fun f => souden (phi f) ref eps)

/-- `get_wmwf_vector(..., reference_channel=None)` (the selection is called with the default `eps = tiny`);
the chosen channel is returned as well (the Python function keeps it local) -/
def wmwfAuto {F n : Nat} (mu : α) (phi X N : Fin F → Fin (n+1) → Fin (n+1) → β) (tiny : α) :
    Fin (n+1) × (Fin F → Fin (n+1) → β) :=
  let ref := refChannel (fun f => wmwfFilter mu (phi f)) X N tiny
  (ref, fun f => wmwf mu (phi f) ref)

/-! ### GEV / PCA -/
/-- `eigenvecs[:, np.argmax(eigenvals)]` -/
def gevSelect {n D : Nat} (vals : Fin (n+1) → α) (vecs : Fin D → Fin (n+1) → β) : Fin D → β :=
  fun d => vecs d (vargmax vals)

/-- `eigenvecs[..., -1]`, `eigenvals[..., -1]` of `np.linalg.eigh` (ascending) -/
def pcaSelect {n : Nat} (vals : Fin (n+1) → α) (vecs : Fin (n+1) → Fin (n+1) → β) : (Fin (n+1) → β) × α :=
  (fun d => vecs d (Fin.last n), vals (Fin.last n))

/-- `|z|` -/
def cabs (z : β) : α := Transc.sqrt (CxOps.re z * CxOps.re z + CxOps.im z * CxOps.im z)

/-- `np.linalg.norm(v, axis=-1)` -/
def vnorm {D : Nat} (v : Fin D → β) : α :=
  Transc.sqrt (vsum fun d => CxOps.re (v d) * CxOps.re (v d) + CxOps.im (v d) * CxOps.im (v d))

inductive PcaScaling | none | trace | eigenvalue
deriving DecidableEq, Repr

/-- `get_pca_vector(Φ, scaling)` given the top eigenpair `(v, lam)` returned by `get_pca`;
`csqrt` is NumPy's complex square root (the trace of a complex array is complex) -/
def pcaVector {D : Nat} (csqrt : β → β) (s : PcaScaling) (Φ : Fin D → Fin D → β) (v : Fin D → β) (lam : α) :
    Fin D → β :=
  match s with
  | .none => v
  | .trace =>
    let nrm : α := vnorm v
    let scale : β := csqrt (trace Φ) / CxOps.ofReal nrm
    fun d => v d * scale
  | .eigenvalue =>
    let scale : α := lam / vnorm v
    fun d => v d * CxOps.ofReal scale

/-! ### rank-one PSD estimates -/
/-- `einsum('...d,...D->...dD', a, a.conj())` -/
def outer (α : Type) {β : Type} [CxOps α β] [Mul β] {D : Nat} (a : Fin D → β) : Fin D → Fin D → β :=
  fun i j => a i * CxOps.conj (α := α) (a j)

/-- `scale[..., None, None] * cov_rank1` with `scale = trace(cov) / trace(cov_rank1)` -/
def rankOne (α : Type) {β : Type} [CxOps α β] [Add β] [Mul β] [Div β] [OfNat β 0] {D : Nat}
    (Φ : Fin D → Fin D → β) (a : Fin D → β) : Fin D → Fin D → β :=
  let c := outer α a
  let scale := trace Φ / trace c
  fun i j => scale * c i j

/-- `_get_gev_atf_vector`: `einsum('...dD,...D->...d', Φnn, w)` -/
def gevAtf {D : Nat} (N : Fin D → Fin D → β) (w : Fin D → β) : Fin D → β := matVec N w

/-! ### blind analytic normalisation -/
/-- `z != 0` on complex numbers, expressed with the order of the real scalars -/
def isZero (z : β) : Bool :=
  !(decide (CxOps.re z < (0 : α))) && !(decide ((0 : α) < CxOps.re z)) &&
  !(decide (CxOps.im z < (0 : α))) && !(decide ((0 : α) < CxOps.im z))

/-- the gain `np.abs(normalization)`:
`nominator = sqrt(wᴴΦΦw)`, `denominator = sqrt(d·conj d)` with `d = wᴴΦw`, `0` where the denominator is `0` -/
def banFactor {D : Nat} (csqrt : β → β) (w : Fin D → β) (N : Fin D → Fin D → β) : α :=
  let nom : β := vsum fun a => vsum fun b => vsum fun c => CxOps.conj (α := α) (w a) * N a b * N b c * w c
  let nominator := csqrt nom
  let d : β := vsum fun a => vsum fun b => CxOps.conj (α := α) (w a) * N a b * w b
  let denominator := csqrt (d * CxOps.conj (α := α) d)
  let normalization : β := if isZero (α := α) denominator then 0 else nominator / denominator
  cabs normalization

/-- `blind_analytic_normalization(vector, Φnn)` for one bin -/
def ban {D : Nat} (csqrt : β → β) (w : Fin D → β) (N : Fin D → Fin D → β) : Fin D → β :=
  let g : α := banFactor csqrt w N
  fun d => w d * CxOps.ofReal g
end

end PbBss.Bf

import PbBss.Model.Basic
import PbBss.Model.Greedy
import PbBss.Model.Optimal
/-! Models of `pb_bss/permutation_alignment.py` (core Lean only):
`apply_mapping`, `_parameterized_vector_norm`, `_ScoreMatrix.{multiply,cos,euclidean}`,
`_mapping_from_score_matrix` (via `Greedy`/`Optimal`), `GreedyPermutationAlignment.calculate_mapping`,
`OraclePermutationAlignment.calculate_mapping`, `DHTVPermutationAlignment.calculate_mapping`.

Masks are `Fin K → Fin F → Fin T → α` (class, bin, frame), exactly the documented `(K, F, T)` layout. -/
namespace PbBss.Align


/-! Tables: compiled Lean re-evaluates a definition that *returns a function* at every application, so
state that is carried through loops is stored as data (`Vector`) and read back with `at1/at2/at3`. -/
abbrev Tab1 (n : Nat) (β : Type) := Vector β n
abbrev Tab2 (n m : Nat) (β : Type) := Vector (Vector β m) n
abbrev Tab3 (n m l : Nat) (β : Type) := Vector (Vector (Vector β l) m) n

def tab1 {β} {n : Nat} (x : Fin n → β) : Tab1 n β := Vector.ofFn x
def tab2 {β} {n m : Nat} (x : Fin n → Fin m → β) : Tab2 n m β := Vector.ofFn fun i => Vector.ofFn fun j => x i j
def tab3 {β} {n m l : Nat} (x : Fin n → Fin m → Fin l → β) : Tab3 n m l β :=
  Vector.ofFn fun i => Vector.ofFn fun j => Vector.ofFn fun k => x i j k
def at1 {β} {n : Nat} (v : Tab1 n β) (i : Fin n) : β := v[i]
def at2 {β} {n m : Nat} (v : Tab2 n m β) (i : Fin n) (j : Fin m) : β := (v[i])[j]
def at3 {β} {n m l : Nat} (v : Tab3 n m l β) (i : Fin n) (j : Fin m) (k : Fin l) : β := ((v[i])[j])[k]

@[simp] theorem at1_tab1 {β} {n : Nat} (x : Fin n → β) (i) : at1 (tab1 x) i = x i := by
  simp [at1, tab1]
@[simp] theorem at2_tab2 {β} {n m : Nat} (x : Fin n → Fin m → β) (i j) : at2 (tab2 x) i j = x i j := by
  simp [at2, tab2]
@[simp] theorem at3_tab3 {β} {n m l : Nat} (x : Fin n → Fin m → Fin l → β) (i j k) :
    at3 (tab3 x) i j k = x i j k := by
  simp [at3, tab3]

/-- `apply_mapping`: `mask[mapping, range(F)]`, i.e. `aligned[k, f] = mask[mapping[k, f], f]` -/
def applyMapping {β} {K F : Nat} (mask : Fin K → Fin F → β) (m : Fin K → Fin F → Fin K) :
    Fin K → Fin F → β :=
  fun k f => mask (m k f) f

/-- `x[:, f] = x[rp, f]` (all other bins untouched) -/
def permuteBin {β} {K F : Nat} (x : Fin K → Fin F → β) (f : Fin F) (rp : Fin K → Fin K) :
    Fin K → Fin F → β :=
  fun k g => if g = f then x (rp k) g else x k g

section scores
variable {α : Type} [Add α] [Sub α] [Mul α] [Div α] [Neg α] [OfNat α 0] [Max α] [Transc α]

/-- `_parameterized_vector_norm(a, axis=-1)` for one row: `a / max(‖a‖, tiny)` -/
def vecNormalize {T : Nat} (tiny : α) (a : Fin T → α) : Fin T → α :=
  let nrm := Transc.sqrt (vsum fun t => a t * a t)
  let d := max nrm tiny
  fun t => a t / d

/-- `_ScoreMatrix.multiply(mask, reference)[k, K'] = Σ_t mask[K', t] * reference[k, t]` (real masks) -/
def scoreMultiply {K T : Nat} (mask ref : Fin K → Fin T → α) : Fin K → Fin K → α :=
  fun k k' => vsum fun t => mask k' t * ref k t

def scoreCos {K T : Nat} (tiny : α) (mask ref : Fin K → Fin T → α) : Fin K → Fin K → α :=
  scoreMultiply (fun k => vecNormalize tiny (mask k)) (fun k => vecNormalize tiny (ref k))

/-- `_ScoreMatrix.euclidean`: `-sqrt(Σ_t |mask[K'] - reference[k]|²)` at `[k, K']` -/
def scoreEuclidean {K T : Nat} (mask ref : Fin K → Fin T → α) : Fin K → Fin K → α :=
  fun k k' => - Transc.sqrt (vsum fun t => (mask k' t - ref k t) * (mask k' t - ref k t))

inductive Metric | cos | multiply | euclidean
deriving DecidableEq, Repr

def score {K T : Nat} (tiny : α) : Metric → (Fin K → Fin T → α) → (Fin K → Fin T → α) → Fin K → Fin K → α
  | .cos => scoreCos tiny
  | .multiply => scoreMultiply
  | .euclidean => scoreEuclidean
end scores

section assign
variable {α : Type} [Add α] [OfNat α 0] [LT α] [DecidableLT α]

inductive Algo | greedy | optimal
deriving DecidableEq, Repr

/-- `_mapping_from_score_matrix` for one bin. `optimal` returns the first permutation (in
`itertools.permutations` order) with the strictly largest left-to-right summed score. -/
def assign {K : Nat} (algo : Algo) (s : Fin K → Fin K → α) : Fin K → Fin K :=
  if hK : 0 < K then
    match algo with
    | .greedy => greedy hK s
    | .optimal =>
      match optimal K (fun i j => if h : i < K ∧ j < K then s ⟨i, h.1⟩ ⟨j, h.2⟩ else 0) with
      | some (p, _) => fun k => if h : p.getD k.val 0 < K then ⟨p.getD k.val 0, h⟩ else k
      | none => id
  else id
end assign

/-- `GreedyPermutationAlignment.calculate_mapping`, composition part: per-bin assignments `a f` between
bin `f` and `f-1` (the entry for `f = 0` is ignored), identity at bin 0, then
`mapping[:, f] = a_f[mapping[:, f-1]]`.  Result: list of columns `mapping[:, f]`, `f = 0 .. F-1`. -/
def composeChain {K : Nat} (a : Nat → Fin K → Fin K) : Nat → Fin K → Fin K
  | 0 => id
  | f+1 => fun k => a (f+1) (composeChain a f k)

/-- the same chain computed column by column as data (what the driver executes) -/
def chainCols {K : Nat} (a : Nat → Tab1 K (Fin K)) : Nat → Tab1 K (Fin K) → List (Tab1 K (Fin K))
  | 0, _ => []
  | n+1, prev =>
    -- `prev` is column `f-1`; the next column is `a₀ ∘ prev`, then continue with the shifted table
    let col : Tab1 K (Fin K) := tab1 fun k => at1 (a 0) (at1 prev k)
    col :: chainCols (fun g => a (g+1)) n col

section aligners
variable {α : Type} [Add α] [Sub α] [Mul α] [Div α] [Neg α] [OfNat α 0] [Max α] [Transc α]
  [LT α] [DecidableLT α] [NatCast α]

/-- per-bin assignment table of the adjacent-bin aligner: entry `f` (for `1 ≤ f < F`) is
`_mapping_from_score_matrix(score(mask[:, f], mask[:, f-1]), 'greedy')` -/
def adjacentAssign {K F T : Nat} (tiny : α) (metric : Metric) (mask : Tab3 K F T α) (f : Nat) : Tab1 K (Fin K) :=
  if h : 0 < f ∧ f < F then
    -- the source always uses `algorithm='greedy'` here, whatever `self.algorithm` says
    tab1 (assign .greedy (score tiny metric (fun k => at3 mask k ⟨f, h.2⟩) (fun k => at3 mask k ⟨f - 1, by omega⟩)))
  else tab1 id

/-- `GreedyPermutationAlignment.calculate_mapping` as a function `(k, f) ↦ mapping[k, f]` -/
def greedyAligner {K F T : Nat} (tiny : α) (metric : Metric) (mask : Tab3 K F T α) : Fin K → Fin F → Fin K :=
  fun k f => composeChain (fun g => at1 (adjacentAssign tiny metric mask g)) f.val k

/-- executable form: columns `mapping[:, 0], mapping[:, 1], …` -/
def greedyAlignerCols {K F T : Nat} (tiny : α) (metric : Metric) (mask : Tab3 K F T α) : List (Tab1 K (Fin K)) :=
  match F with
  | 0 => []
  | F'+1 => tab1 id :: chainCols (fun g => adjacentAssign tiny metric mask (g+1)) F' (tab1 id)

def oracleAligner {K F T : Nat} (tiny : α) (metric : Metric) (algo : Algo)
    (mask ref : Tab3 K F T α) : Fin K → Fin F → Fin K :=
  fun k f => assign algo (score tiny metric (fun k => at3 mask k f) (fun k => at3 ref k f)) k

/-- DHTV state: current features (permuted in place) and accumulated mapping -/
structure St (K F T : Nat) (α : Type) where
  features : Tab3 K F T α
  mapping : Tab2 K F (Fin K)

/-- `np.mean(features[:, lo:hi, :], axis=1)` -/
def centroid {K F T : Nat} (x : Tab3 K F T α) (lo hi : Nat) : Fin K → Fin T → α :=
  let idx : List (Fin F) := (List.finRange F).filter fun f => lo ≤ f.val ∧ f.val < hi
  let cnt : α := (idx.length : Nat)
  fun k t => (idx.foldl (fun acc f => acc + at3 x k f t) 0) / cnt

/-- one bin of the inner loop: assignment against the centroid, in-place reorder if not identity -/
def binStep {K F T : Nat} (metricDhtv : Metric) (tiny : α) (algo : Algo) (cent : Tab2 K T α)
    (s : St K F T α) (f : Fin F) : St K F T α × Bool :=
  let rp := tab1 (assign algo (score tiny metricDhtv (fun k => at3 s.features k f) (at2 cent)))
  if (List.finRange K).all fun k => at1 rp k = k then (s, false)
  else (⟨tab3 (permuteBin (at3 s.features) f (at1 rp)), tab2 (permuteBin (at2 s.mapping) f (at1 rp))⟩, true)

/-- one pass over the bins of a segment; returns the state and `not nothing_changed` -/
def segmentPass {K F T : Nat} (isCos : Bool) (metricDhtv : Metric) (tiny : α) (algo : Algo) (lo hi : Nat)
    (s : St K F T α) : St K F T α × Bool :=
  let c0 := centroid s.features lo hi
  let c : Tab2 K T α := tab2 (if isCos then fun k => vecNormalize tiny (c0 k) else c0)
  ((List.finRange F).filter fun f => lo ≤ f.val ∧ f.val < hi).foldl
    (fun (acc : St K F T α × Bool) f =>
      let r := binStep metricDhtv tiny algo c acc.1 f
      (r.1, acc.2 || r.2))
    (s, false)

/-- `for iteration in range(iterations): ...; if nothing_changed: break` -/
def segmentIter {K F T : Nat} (isCos : Bool) (metricDhtv : Metric) (tiny : α) (algo : Algo) (lo hi : Nat) :
    Nat → St K F T α → St K F T α
  | 0, s => s
  | n+1, s =>
    let r := segmentPass isCos metricDhtv tiny algo lo hi s
    if r.2 then segmentIter isCos metricDhtv tiny algo lo hi n r.1 else r.1

/-- `DHTVPermutationAlignment.calculate_mapping`; `plan` = list of `(iterations, lo, hi)`.
With `similarity_metric='cos'` the features are normalised once and `multiply` is used afterwards;
otherwise the raw mask is used with the named metric. -/
def dhtv {K F T : Nat} (tiny : α) (metric : Metric) (algo : Algo) (plan : List (Nat × Nat × Nat))
    (mask : Tab3 K F T α) : St K F T α :=
  let isCos := metric == .cos
  let metricDhtv := if isCos then Metric.multiply else metric
  let feats : Tab3 K F T α := if isCos then tab3 (fun k f => vecNormalize tiny (at3 mask k f)) else mask
  plan.foldl (fun s seg => segmentIter isCos metricDhtv tiny algo seg.2.1 seg.2.2 seg.1 s)
    ⟨feats, tab2 fun k _ => k⟩
end aligners

end PbBss.Align

namespace PbBss.Align

/-- `apply_inline_permutation_alignment`: `(F, K, T)` affiliation and quadratic form are transposed to
`(K, F, T)`, the mapping is computed from the affiliation only, both are reordered with it and
transposed back. -/
def applyInline {α : Type} {K F T : Nat}
    (aligner : (Fin K → Fin F → Fin T → α) → Fin K → Fin F → Fin K)
    (aff quad : Fin F → Fin K → Fin T → α) :
    (Fin F → Fin K → Fin T → α) × (Fin F → Fin K → Fin T → α) :=
  let affT : Fin K → Fin F → Fin T → α := fun k f t => aff f k t
  let m := aligner affT
  let quadT : Fin K → Fin F → Fin T → α := fun k f t => quad f k t
  (fun f k t => applyMapping affT m k f t, fun f k t => applyMapping quadT m k f t)

/-- first strict maximum of `g` over a list, `none` playing the role of `-inf`
(`if value > best_value:` loops of the source) -/
def firstMaxLoop {β α : Type} [LT α] [DecidableLT α] (g : β → α) :
    List β → Option (β × α) → Option (β × α)
  | [], best => best
  | p :: ps, best =>
    let v := g p
    match best with
    | none => firstMaxLoop g ps (some (p, v))
    | some (bp, bv) => firstMaxLoop g ps (if bv < v then some (p, v) else some (bp, bv))

section inlinePa
variable {α : Type} [Add α] [Sub α] [Mul α] [Div α] [OfNat α 0] [OfNat α 1] [Max α] [Transc α]
  [LT α] [DecidableLT α]

/-- class index after applying a candidate permutation (given as a list, as `itertools` yields it) -/
def permAt {K : Nat} (p : List Nat) (k : Fin (K+1)) : Fin (K+1) :=
  if h : p.getD k.val 0 < K+1 then ⟨p.getD k.val 0, h⟩ else k

/-- `log_pdf = spatial_log_pdf[f, permutation, :] + spectral_log_pdf[f, :, :]` for one bin -/
def inlineLogPdf {K T : Nat} (spatial spectral : Fin (K+1) → Fin T → α) (p : List Nat) :
    Fin (K+1) → Fin T → α :=
  fun k t => spatial (permAt p k) t + spectral k t

/-- auxiliary function value of a candidate permutation: `Σ_{k,t} softmax_k(log_pdf)[k,t] * log_pdf[k,t]` -/
def inlineAux {K T : Nat} (tiny : α) (spatial spectral : Fin (K+1) → Fin T → α) (p : List Nat) : α :=
  let lp := inlineLogPdf spatial spectral p
  vsum fun k : Fin (K+1) => vsum fun t : Fin T =>
    affiliation tiny (fun _ => (1 : α)) (fun j => lp j t) k * lp k t

/-- `log_pdf_to_affiliation_for_integration_models_with_inline_pa` for one frequency bin (no mask, no clipping) -/
def inlinePa {K T : Nat} (tiny : α) (w : Fin (K+1) → Fin T → α) (spatial spectral : Fin (K+1) → Fin T → α) :
    Fin (K+1) → Fin T → α :=
  match firstMaxLoop (inlineAux tiny spatial spectral) (lexPerms (K+1)) none with
  | some (p, _) =>
    let lp := inlineLogPdf spatial spectral p
    fun k t => affiliation tiny (fun j => w j t) (fun j => lp j t) k
  | none => fun _ _ => 0
end inlinePa

end PbBss.Align

import PbBss.Model.Tensor
/-! # Tensor-layer transcriptions of the EM loops of `VMFMMTrainer`, `CWMMTrainer`, `CACGMMTrainer` — core Lean only

Same conventions as `PbBss/Model/Tensor.lean` (reversed shapes / reversed multi-indices; NumPy axis `-(k+1)` is
position `k`).  Every function follows the quoted Python source line by line and re-uses the building blocks of
`Tensor.lean` (`estimateMixtureWeight`, `logPdfToAffiliation`, `vmfFit`, `vmfLogPdf`, `scatter`, `watsonLogPdf`,
`cacgFitCovariance`, `cacgEigenvalueNorm`, `cacgLogPdf`, `cacgNormalize`).

External routines are parameters:
* `lnorm : Nat → α → α` — `log_norm()` of the component model as a function of the dimension `D` and ONE concentration
  (`scipy.special.ive` for the vMF, `hyp1f1` for the Watson); it is elementwise, hence applied with `map`;
* `kinv : α → α` — `ComplexWatsonTrainer.hypergeometric_ratio_inverse` (the `interp1d` spline), elementwise;
* `eigh : T κ → T κ × T α` — `np.linalg.eigh` of ONE `(D, D)` matrix: `(eigenvectors (D, D), eigenvalues (D,))`;
  NumPy applies it to every matrix of a stack (`mapCore`).

The state carried through a loop is a structure of tensors (`Vmfmm`, `Cwmm`, `Cacgmm`) with a `.fix lead`
operation (the slice of every field at a leading index; the class axis stays in the core). -/
namespace PbBss.Tensor

variable {α : Type}

section real
variable [Add α] [Sub α] [Mul α] [Div α] [Neg α] [OfNat α 0] [OfNat α 1] [NatCast α] [Max α]
  [LT α] [DecidableLT α] [BEq α] [Transc α]

/-- `y / np.maximum(np.linalg.norm(y, axis=-1, keepdims=True), np.finfo(y.dtype).tiny)` for real `y`
(`VMFMM.predict`, `VMFMMTrainer.fit`) -/
def unitNormReal (tiny : α) (y : T α) : T α :=
  zipWith (· / ·) y (map (fun x => max x tiny) (normAxisKeep 0 y))

/-! ### `pb_bss/distribution/vmfmm.py` -/

/-- fields of `VMFMM` (`weight`, and the `vmf` with its two fields) -/
structure Vmfmm (α : Type) where
  weight : T α      -- (..., K, 1)
  mean : T α        -- (..., K, D)
  conc : T α        -- (..., K)

/-- the slice of a stacked vMF mixture at a leading index (the class axis stays in the core) -/
def Vmfmm.fix (m : Vmfmm α) (lead : List Nat) : Vmfmm α :=
  ⟨fixLead m.weight 2 lead, fixLead m.mean 2 lead, fixLead m.conc 1 lead⟩

/-- `VMFMMTrainer._m_step` (`weight_constant_axis=(-1,)`): `y : (..., N, D)`, `affiliation : (..., K, N)`,
`saliency : (..., N)` (`fit` replaces `None` by ones) -/
def vmfmmMStep (tiny eps minC maxC : α) (y affiliation saliency : T α) : Vmfmm α :=
  -- weight = estimate_mixture_weight(affiliation=affiliation, saliency=saliency, weight_constant_axis=weight_constant_axis)
  let weight := estimateMixtureWeight eps affiliation (some saliency)
  -- vmf = VonMisesFisherTrainer()._fit(y=y[..., None, :, :], saliency=affiliation * saliency[..., None, :], min_, max_)
  let vmf := vmfFit tiny minC maxC (expandDims 2 y) (some (zipWith (· * ·) affiliation (expandDims 1 saliency)))
  -- return VMFMM(weight=weight, vmf=vmf)
  ⟨weight, vmf.1, vmf.2⟩

/-- `VMFMM.predict` (with `_predict`): `y : (..., N, D)`; result `(..., K, N)`.
`self.vmf.log_norm()` is `lnorm D` applied to every concentration (`D = self.mean.shape[-1]`). -/
def vmfmmPredict (tiny : α) (lnorm : Nat → α → α) (m : Vmfmm α) (y : T α) : T α :=
  -- y = y / np.maximum(np.linalg.norm(y, axis=-1, keepdims=True), np.finfo(y.dtype).tiny)
  let y := unitNormReal tiny y
  -- return log_pdf_to_affiliation(self.weight, self.vmf.log_pdf(y[..., None, :, :]))
  let logNorm := map (lnorm (m.mean.rshape.getD 0 1)) m.conc
  logPdfToAffiliation tiny m.weight (vmfLogPdf tiny m.mean m.conc logNorm (expandDims 2 y)) none none

/-- one pass of the loop body of `VMFMMTrainer._fit` once a model exists:
`affiliation = model.predict(y)`; `model = self._m_step(y, affiliation=affiliation, saliency=saliency, …)` -/
def vmfmmStep (tiny eps minC maxC : α) (lnorm : Nat → α → α) (y saliency : T α) (model : Vmfmm α) : Vmfmm α :=
  vmfmmMStep tiny eps minC maxC y (vmfmmPredict tiny lnorm model y) saliency

/-- `VMFMMTrainer._fit` with `iterations = n + 1`: M-step from the initial affiliation, then alternately
`affiliation = model.predict(y)` and the M-step -/
def vmfmmFit (tiny eps minC maxC : α) (lnorm : Nat → α → α) (y initialization saliency : T α) : Nat → Vmfmm α
  | 0 => vmfmmMStep tiny eps minC maxC y initialization saliency
  | n + 1 =>
    vmfmmStep tiny eps minC maxC lnorm y saliency (vmfmmFit tiny eps minC maxC lnorm y initialization saliency n)

/-- `VMFMMTrainer.fit` with a given `initialization : (..., K, N)` and `iterations = n + 1`: normalise the
observations, `saliency = np.ones_like(initialization[..., 0, :])` when it is `None`, then `_fit` -/
def vmfmmTrainerFit (tiny eps minC maxC : α) (lnorm : Nat → α → α) (y initialization : T α)
    (saliency : Option (T α)) (n : Nat) : Vmfmm α :=
  -- y = y / np.maximum(np.linalg.norm(y, axis=-1, keepdims=True), np.finfo(y.dtype).tiny)
  let y := unitNormReal tiny y
  -- if saliency is None: saliency = np.ones_like(initialization[..., 0, :])
  let saliency := match saliency with
    | none => const (eraseAt 1 initialization.rshape 1) 1
    | some s => s
  vmfmmFit tiny eps minC maxC lnorm y initialization saliency n

end real

/-! ### complex-valued mixtures: `κ` is "complex over `α`" -/
section complex
variable {κ : Type} [Add α] [Sub α] [Mul α] [Div α] [Neg α] [OfNat α 0] [OfNat α 1] [NatCast α] [Max α]
  [LT α] [DecidableLT α] [BEq α] [Transc α]
  [Add κ] [Sub κ] [Mul κ] [Div κ] [OfNat κ 0] [OfNat κ 1] [CxOps α κ]

/-- `complex_watson.py: normalize_observation` and the first line of `CWMM.predict`:
`y / np.maximum(np.linalg.norm(y, axis=-1, keepdims=True), tiny)` for complex `y : (..., N, D)` -/
def unitNormCx (tiny : α) (y : T κ) : T κ :=
  let norm : T α := reduceKeep 0 (fun n f => Transc.sqrt (sumN n fun j => abs2S (α := α) (f j))) y
  zipWith (divR (α := α)) y (map (fun x => max x tiny) norm)

/-- `t[..., -1]`: the last entry along the last axis -/
def selectLast {β : Type} (t : T β) : T β :=
  ⟨t.rshape.drop 1, fun idx => t.get ((t.rshape.getD 0 1 - 1) :: idx)⟩

/-- `pb_bss/utils.py: get_pca(target_psd_matrix)` (`use_scipy=False`) around the per-matrix external `eigh`
(`np.linalg.eigh` applied to each `(D, D)` matrix of the flattened stack, eigenvalues ascending):
`psd : (..., D, D)`; returns `(beamforming_vector (..., D), eigenvalues (...))` -/
def getPca (eigh : T κ → T κ × T α) (psd : T κ) : T κ × T α :=
  -- shape = target_psd_matrix.shape
  let lead := psd.rshape.drop 2
  -- target_psd_matrix = np.reshape(target_psd_matrix, (-1,) + shape[-2:])
  let flat := flattenLead 2 psd
  -- eigenvals, eigenvecs = np.linalg.eigh(target_psd_matrix)
  let eigenvecs : T κ := mapCore 2 2 (psd.rshape.take 2) (fun m => (eigh m).1) flat
  let eigenvals : T α := mapCore 2 1 (psd.rshape.take 1) (fun m => (eigh m).2) flat
  -- beamforming_vector = eigenvecs[..., -1]; eigenvalues = eigenvals[..., -1]
  let beamformingVector := selectLast eigenvecs
  let eigenvalues := selectLast eigenvals
  -- beamforming_vector = np.reshape(beamforming_vector, shape[:-1]); eigenvalues = np.reshape(eigenvalues, shape[:-2])
  (unflattenLead 1 lead beamformingVector, unflattenLead 0 lead eigenvalues)

/-! ### `pb_bss/distribution/cwmm.py` -/

/-- fields of `CWMM` (`weight`, and the `complex_watson` with its two fields) -/
structure Cwmm (α κ : Type) where
  weight : T α      -- (..., K, 1)
  mode : T κ        -- (..., K, D)
  conc : T α        -- (..., K)

def Cwmm.fix (m : Cwmm α κ) (lead : List Nat) : Cwmm α κ :=
  ⟨fixLead m.weight 2 lead, fixLead m.mode 2 lead, fixLead m.conc 1 lead⟩

/-- `masked_affiliation` of `CWMMTrainer._m_step` / `CACGMMTrainer._m_step` -/
def maskedAffiliation (affiliation : T α) (saliency : Option (T α)) : T α :=
  -- if saliency is None: masked_affiliation = affiliation
  -- else: masked_affiliation = affiliation * saliency[..., None, :]
  match saliency with
  | none => affiliation
  | some s => zipWith (· * ·) affiliation (expandDims 1 s)

/-- the scatter matrix `ComplexWatsonTrainer._fit` hands to `get_pca` inside `CWMMTrainer._m_step`:
`(..., K, D, D)` -/
def cwmmScatter (y : T κ) (affiliation : T α) (saliency : Option (T α)) : T κ :=
  scatter none (expandDims 2 y) (some (maskedAffiliation affiliation saliency))

/-- `CWMMTrainer._m_step` (`weight_constant_axis=(-1,)`): `y : (..., N, D)` complex (normalised),
`affiliation : (..., K, N)`, `saliency : (..., N)` or `None` -/
def cwmmMStep (eps : α) (eigh : T κ → T κ × T α) (kinv : α → α) (y : T κ) (affiliation : T α)
    (saliency : Option (T α)) : Cwmm α κ :=
  -- weight = estimate_mixture_weight(affiliation=affiliation, saliency=saliency, weight_constant_axis=weight_constant_axis)
  let weight := estimateMixtureWeight eps affiliation saliency
  -- complex_watson = self.complex_watson_trainer._fit(y=y[..., None, :, :], saliency=masked_affiliation):
  --   covariance = np.einsum("...n,...nd,...nD->...dD", saliency, y, y.conj()); covariance /= denominator
  let covariance := cwmmScatter y affiliation saliency
  --   mode, eigenvalues = get_pca(covariance)
  let pca := getPca eigh covariance
  --   concentration = self.hypergeometric_ratio_inverse(eigenvalues)
  let concentration := map kinv pca.2
  -- return CWMM(weight=weight, complex_watson=ComplexWatson(mode=mode, concentration=concentration))
  ⟨weight, pca.1, concentration⟩

/-- `CWMM.predict` (with `_predict`): `y : (..., N, D)` complex; result `(..., K, N)`.
`self.complex_watson.log_norm()` is `lnorm D` applied to every concentration (`D = self.mode.shape[-1]`). -/
def cwmmPredict (tiny : α) (lnorm : Nat → α → α) (m : Cwmm α κ) (y : T κ) : T α :=
  -- y = y / np.maximum(np.linalg.norm(y, axis=-1, keepdims=True), np.finfo(y.dtype).tiny)
  let y := unitNormCx tiny y
  -- return log_pdf_to_affiliation(self.weight, self.complex_watson.log_pdf(y[..., None, :, :]),
  --                               source_activity_mask=None, affiliation_eps=0.)
  let logNorm := map (lnorm (m.mode.rshape.getD 0 1)) m.conc
  logPdfToAffiliation tiny m.weight (watsonLogPdf m.mode m.conc logNorm (expandDims 2 y)) none none

/-- one pass of the loop body of `CWMMTrainer._fit` once a model exists (`inline_permutation_aligner=None`):
`affiliation = model.predict(y)`; `model = self._m_step(y, affiliation=affiliation, saliency=saliency, …)` -/
def cwmmStep (tiny eps : α) (eigh : T κ → T κ × T α) (kinv : α → α) (lnorm : Nat → α → α) (y : T κ)
    (saliency : Option (T α)) (model : Cwmm α κ) : Cwmm α κ :=
  cwmmMStep eps eigh kinv y (cwmmPredict tiny lnorm model y) saliency

/-- `CWMMTrainer._fit` (`inline_permutation_aligner=None`) with `iterations = n + 1` -/
def cwmmFit (tiny eps : α) (eigh : T κ → T κ × T α) (kinv : α → α) (lnorm : Nat → α → α) (y : T κ)
    (initialization : T α) (saliency : Option (T α)) : Nat → Cwmm α κ
  | 0 => cwmmMStep eps eigh kinv y initialization saliency
  | n + 1 =>
    cwmmStep tiny eps eigh kinv lnorm y saliency (cwmmFit tiny eps eigh kinv lnorm y initialization saliency n)

/-- the affiliation the `k`-th M-step of `cwmmFit` receives (`initialization`, then the posteriors of the iterates) -/
def cwmmAffiliation (tiny eps : α) (eigh : T κ → T κ × T α) (kinv : α → α) (lnorm : Nat → α → α) (y : T κ)
    (initialization : T α) (saliency : Option (T α)) : Nat → T α
  | 0 => initialization
  | k + 1 => cwmmPredict tiny lnorm (cwmmFit tiny eps eigh kinv lnorm y initialization saliency k) y

/-- `CWMMTrainer.fit` with a given `initialization : (..., K, N)` and `iterations = n + 1`:
`y = normalize_observation(y)`, `saliency = np.ones_like(initialization[..., 0, :])` when it is `None`, then `_fit` -/
def cwmmTrainerFit (tiny eps : α) (eigh : T κ → T κ × T α) (kinv : α → α) (lnorm : Nat → α → α) (y : T κ)
    (initialization : T α) (saliency : Option (T α)) (n : Nat) : Cwmm α κ :=
  let y := unitNormCx tiny y
  let saliency := match saliency with
    | none => const (eraseAt 1 initialization.rshape 1) 1
    | some s => s
  cwmmFit tiny eps eigh kinv lnorm y initialization (some saliency) n

/-! ### `pb_bss/distribution/cacgmm.py` -/

/-- fields of `CACGMM` (`weight`, and the `cacg` with its two fields) -/
structure Cacgmm (α κ : Type) where
  weight : T α      -- (..., K, 1)
  vecs : T κ        -- covariance_eigenvectors (..., K, D, D)
  vals : T α        -- covariance_eigenvalues (..., K, D)

def Cacgmm.fix (m : Cacgmm α κ) (lead : List Nat) : Cacgmm α κ :=
  ⟨fixLead m.weight 2 lead, fixLead m.vecs 3 lead, fixLead m.vals 2 lead⟩

/-- `CACGMMTrainer._m_step` with `weight_constant_axis=(-1,)`, `covariance_norm='eigenvalue'`:
`x : (..., D, N)` complex (normalised and swapped), `quadratic_form, affiliation : (..., K, N)`,
`saliency : (..., N)` or `None` -/
def cacgmmMStep (tiny eps floor : α) (hermitize : Bool) (eigh : T κ → T κ × T α) (x : T κ)
    (quadraticForm affiliation : T α) (saliency : Option (T α)) : Cacgmm α κ :=
  -- weight = estimate_mixture_weight(affiliation=affiliation, saliency=saliency, weight_constant_axis=weight_constant_axis)
  let weight := estimateMixtureWeight eps affiliation saliency
  -- cacg = ComplexAngularCentralGaussianTrainer()._fit(y=x[..., None, :, :], saliency=masked_affiliation,
  --            quadratic_form=quadratic_form, hermitize=hermitize, covariance_norm=covariance_norm, eigenvalue_floor=…)
  let covariance := cacgFitCovariance tiny hermitize (expandDims 2 x) (some (maskedAffiliation affiliation saliency))
    quadraticForm
  --   from_covariance: eigenvals, eigenvecs = np.linalg.eigh(covariance)     (every (D, D) matrix of the stack)
  let eigenvecs : T κ := mapCore 2 2 (covariance.rshape.take 2) (fun m => (eigh m).1) covariance
  let eigenvals : T α := mapCore 2 1 (covariance.rshape.take 1) (fun m => (eigh m).2) covariance
  --   eigenvals = eigenvals / np.maximum(np.amax(eigenvals, axis=-1, keepdims=True), tiny); np.maximum(·, eigenvalue_floor)
  let eigenvals := cacgEigenvalueNorm tiny floor eigenvals
  -- return CACGMM(weight=weight, cacg=cacg)
  ⟨weight, eigenvecs, eigenvals⟩

/-- `CACGMM._predict` (no source-activity mask): `y : (..., D, N)` normalised; returns `(affiliation, quadratic_form)`,
both `(..., K, N)`; `clip = some eps` iff `affiliation_eps != 0` -/
def cacgmmPredict (tiny : α) (clip : Option α) (m : Cacgmm α κ) (y : T κ) : T α × T α :=
  -- log_pdf, quadratic_form = self.cacg._log_pdf(y[..., None, :, :])
  let lp := cacgLogPdf tiny m.vecs m.vals (expandDims 2 y)
  -- affiliation = log_pdf_to_affiliation(self.weight, log_pdf, source_activity_mask=…, affiliation_eps=affiliation_eps)
  (logPdfToAffiliation tiny m.weight lp.1 none clip, lp.2)

/-- one pass of the loop body of `CACGMMTrainer.fit` once a model exists (no inline aligner, no source-activity mask):
`affiliation, quadratic_form, _ = model._predict(y, affiliation_eps=affiliation_eps)`;
`model = self._m_step(y, quadratic_form, affiliation=affiliation, saliency=saliency, …)` -/
def cacgmmStep (tiny eps floor : α) (hermitize : Bool) (clip : Option α) (eigh : T κ → T κ × T α) (y : T κ)
    (saliency : Option (T α)) (model : Cacgmm α κ) : Cacgmm α κ :=
  let p := cacgmmPredict tiny clip model y
  cacgmmMStep tiny eps floor hermitize eigh y p.2 p.1 saliency

/-- the loop of `CACGMMTrainer.fit` with `iterations = n + 1` (no inline aligner, no source-activity mask) from the
(broadcast) initial `affiliation : (..., K, N)` and `y : (..., D, N)` normalised: first M-step with
`quadratic_form = np.ones(affiliation_shape)`, then alternately `model._predict(y, affiliation_eps=…)` and the M-step -/
def cacgmmFit (tiny eps floor : α) (hermitize : Bool) (clip : Option α) (eigh : T κ → T κ × T α) (y : T κ)
    (affiliation : T α) (saliency : Option (T α)) : Nat → Cacgmm α κ
  | 0 => cacgmmMStep tiny eps floor hermitize eigh y (const affiliation.rshape 1) affiliation saliency
  | n + 1 =>
    cacgmmStep tiny eps floor hermitize clip eigh y saliency
      (cacgmmFit tiny eps floor hermitize clip eigh y affiliation saliency n)

/-- `CACGMMTrainer.fit` with an `np.ndarray` initialization `(..., K, N)` (leading axes possibly singletons) and
`iterations = n + 1`: `y = normalize_observation(y)` (unit norm, swap `D` and `N`),
`affiliation = np.broadcast_to(initialization, (*independent, K, N))`, then the loop -/
def cacgmmTrainerFit (tiny eps floor : α) (hermitize : Bool) (clip : Option α) (eigh : T κ → T κ × T α) (y : T κ)
    (initialization : T α) (saliency : Option (T α)) (n : Nat) : Cacgmm α κ :=
  -- y = normalize_observation(y)  # swap D and N dim
  let y := cacgNormalize tiny y
  -- *independent, D, num_observations = y.shape; affiliation = np.broadcast_to(initialization, affiliation_shape)
  let affiliation := broadcastLead 2 (y.rshape.drop 2) initialization
  cacgmmFit tiny eps floor hermitize clip eigh y affiliation saliency n

/-- `CACGMM.predict` (`affiliation_eps = 0`): `y : (..., N, D)` -/
def cacgmmPredictTop (tiny : α) (m : Cacgmm α κ) (y : T κ) : T α :=
  (cacgmmPredict tiny none m (cacgNormalize tiny y)).1

end complex

end PbBss.Tensor

import PbBss.Model.Basic
/-! Models for C17 (the documented pipeline on a separable scene).  Core Lean only.

1. **Index plumbing** of the documented chain (`examples/mixture_model_example.ipynb`, docstrings of
   `pb_bss.extraction`): posteriors `(F, K, T)` → `rearrange 'f k t -> k f t'` → `apply_mapping(mask, mapping)`
   (`mask[mapping, range(F)]`) → `mask[global_permutation]` → `'k f t -> f k t'` →
   `get_power_spectral_density_matrix(Y (F,D,T), mask (F,K,T))` `(F, K, D, D)` → sum over the other classes →
   beamforming vector `(F, D)` → `apply_beamforming_vector(w, x) = einsum('...a,...at->...t', w.conj(), x)`.
   Shapes live in the types (`Fin F → Fin K → Fin T → α`), so an axis mix-up does not type-check.
2. **Ideal-mask scene model**: class PSD `σ_j a_j a_jᴴ + ε_j·1` (what `get_power_spectral_density_matrix` returns for the
   true mask of a source that is alone in its frames), noise PSD of target `k` = sum over the other classes,
   output powers / SIR / leakage as quadratic forms, the zero-forcing bound `ε‖v‖²`, and the closed forms the
   solver contract `Φnn u = a_k` determines for a rank-one target (`phi = σ u a_kᴴ`, Souden and WMWF column). -/
namespace PbBss.Pipeline

/-! ### 1. index plumbing -/
section axes
variable {γ : Type} {F K T D : Nat}

/-- `rearrange(affiliation, 'f k t -> k f t')` / `post.transpose(1, 0, 2)` -/
def toKFT (post : Fin F → Fin K → Fin T → γ) : Fin K → Fin F → Fin T → γ := fun k f t => post f k t

/-- `rearrange(mask, 'k f t -> f k t')` -/
def toFKT (mask : Fin K → Fin F → Fin T → γ) : Fin F → Fin K → Fin T → γ := fun f k t => mask k f t

/-- `apply_mapping(mask, mapping) = mask[mapping, range(F)]`: `aligned[k, f] = mask[mapping[k, f], f]` -/
def applyMapping (mask : Fin K → Fin F → Fin T → γ) (m : Fin K → Fin F → Fin K) : Fin K → Fin F → Fin T → γ :=
  fun k f t => mask (m k f) f t

/-- `affiliation_pa[global_permutation]` -/
def applyGlobal (mask : Fin K → Fin F → Fin T → γ) (g : Fin K → Fin K) : Fin K → Fin F → Fin T → γ :=
  fun k f t => mask (g k) f t

/-- posteriors of the per-frequency models → masks handed to the PSD estimator -/
def pipelineMasks (post : Fin F → Fin K → Fin T → γ) (m : Fin K → Fin F → Fin K) (g : Fin K → Fin K) :
    Fin F → Fin K → Fin T → γ :=
  toFKT (applyGlobal (applyMapping (toKFT post) m) g)
end axes

section psd
variable {α β : Type} [Add α] [Mul α] [Div α] [OfNat α 0] [Max α]
  [Add β] [Mul β] [Div β] [OfNat β 0] [CxOps α β] {F K T D : Nat}

/-- complex conjugate (`α` has to be named for instance resolution) -/
@[reducible] def cj (α : Type) {β : Type} [CxOps α β] (z : β) : β := CxOps.conj (α := α) z

/-- `mask /= np.maximum(np.sum(mask, axis=time_dim, keepdims=True), 1e-10)` for one (bin, class) row -/
def normalizeMask (floor : α) (row : Fin T → α) : Fin T → α :=
  let den := max (vsum row) floor
  fun t => row t / den

/-- `get_power_spectral_density_matrix(observation (F,D,T), mask (F,K,T))`:
`einsum('...kt,...dt,...et->...kde', mask, observation, observation.conj())` after the normalisation -/
def psd (floor : α) (obs : Fin F → Fin D → Fin T → β) (mask : Fin F → Fin K → Fin T → α) :
    Fin F → Fin K → Fin D → Fin D → β :=
  fun f k =>
    let m := normalizeMask floor (mask f k)
    fun d e => vsum fun t => CxOps.ofReal (m t) * obs f d t * cj α (obs f e t)

/-- noise PSD of target class `k`: `psd[:, [j for j in range(K) if j != k]].sum(axis=1)` -/
def noiseFromPsd (P : Fin F → Fin K → Fin D → Fin D → β) : Fin F → Fin K → Fin D → Fin D → β :=
  fun f k d e => vsum fun j => if j = k then (0 : β) else P f j d e

/-- `apply_beamforming_vector(vector (F,D), mix (F,D,T)) = einsum('...a,...at->...t', vector.conj(), mix)` -/
def applyBf (w : Fin F → Fin D → β) (x : Fin F → Fin D → Fin T → β) : Fin F → Fin T → β :=
  fun f t => vsum fun d => cj α (w f d) * x f d t

/-- the composite: posteriors `(F,K,T)`, per-bin mapping `(K,F)`, global permutation `(K)`, observation `(F,D,T)`
↦ PSDs `(F,K,D,D)` -/
def pipelinePsd (floor : α) (obs : Fin F → Fin D → Fin T → β) (post : Fin F → Fin K → Fin T → α)
    (m : Fin K → Fin F → Fin K) (g : Fin K → Fin K) : Fin F → Fin K → Fin D → Fin D → β :=
  psd floor obs (pipelineMasks post m g)
end psd

/-! ### 2. ideal-mask scene -/
section ideal
variable {α β : Type} [Add α] [Mul α] [Div α] [OfNat α 0] [Max α]
  [Add β] [Mul β] [Div β] [OfNat β 0] [CxOps α β] {K D : Nat}

/-- `|z|²` -/
def absSq (z : β) : α := CxOps.re z * CxOps.re z + CxOps.im z * CxOps.im z

/-- `wᴴ x = Σ_d conj(w_d) x_d` -/
def cdot (α : Type) {β : Type} [Add β] [Mul β] [OfNat β 0] [CxOps α β] (w x : Fin D → β) : β :=
  vsum fun d => cj α (w d) * x d

/-- `‖w‖² = Σ_d |w_d|²` -/
def normSq (w : Fin D → β) : α := vsum fun d => absSq (α := α) (w d)

/-- PSD of a class whose frames contain one source with steering vector `a`, power `σ`, plus white sensor noise
of power `ε`: `σ a aᴴ + ε·1` -/
def classPsd (sigma eps : α) (a : Fin D → β) : Fin D → Fin D → β :=
  fun d e => CxOps.ofReal sigma * (a d * cj α (a e)) + (if d = e then CxOps.ofReal eps else (0 : β))

/-- noise PSD for target `k`: `Σ_{j≠k} (σ_j a_j a_jᴴ + ε_j·1)` -/
def noisePsd (sigma eps : Fin K → α) (a : Fin K → Fin D → β) (k : Fin K) : Fin D → Fin D → β :=
  fun d e => vsum fun j => if j = k then (0 : β) else classPsd (sigma j) (eps j) (a j) d e

/-- the white part of the noise PSD: `Σ_{j≠k} ε_j` -/
def noiseEps (eps : Fin K → α) (k : Fin K) : α := vsum fun j => if j = k then (0 : α) else eps j

/-- `Re(wᴴ P w)` -/
def quadForm (P : Fin D → Fin D → β) (w : Fin D → β) : α :=
  CxOps.re (vsum fun d => cj α (w d) * vsum fun e => P d e * w e : β)

/-- power of source `j` at the output of `w`: `σ_j |wᴴ a_j|²` -/
def outPower (sigma : Fin K → α) (a : Fin K → Fin D → β) (w : Fin D → β) (j : Fin K) : α :=
  sigma j * absSq (α := α) (cdot α w (a j))

/-- interference at the output for target `k`: `Σ_{j≠k} σ_j |wᴴ a_j|²` -/
def interference (sigma : Fin K → α) (a : Fin K → Fin D → β) (w : Fin D → β) (k : Fin K) : α :=
  vsum fun j => if j = k then (0 : α) else outPower sigma a w j

/-- leakage = interference + white-noise gain: `Σ_{j≠k} σ_j |wᴴ a_j|² + ε ‖w‖²`  (`= wᴴ Φnn w`) -/
def leakage (sigma : Fin K → α) (eps : α) (a : Fin K → Fin D → β) (w : Fin D → β) (k : Fin K) : α :=
  interference sigma a w k + eps * normSq (α := α) w

/-- output signal-to-interference ratio (linear): `σ_k |wᴴ a_k|² / Σ_{j≠k} σ_j |wᴴ a_j|²` -/
def sirOut (sigma : Fin K → α) (a : Fin K → Fin D → β) (w : Fin D → β) (k : Fin K) : α :=
  outPower sigma a w k / interference sigma a w k

/-- `ε ‖v‖²`: what a zero-forcing vector `v` lets through -/
def zfBound (eps : α) (v : Fin D → β) : α := eps * normSq (α := α) v

/-- the SIR guaranteed by `sir_bound`: `σ_k / (ε ‖v‖²)` -/
def sirLower (sigmak eps : α) (v : Fin D → β) : α := sigmak / zfBound eps v

/-- MVDR from the solver value `u = solve(Φnn, a)`: `u / (aᴴ u)` -/
def mvdrFromSolve (a u : Fin D → β) : Fin D → β :=
  let den := cdot α a u
  fun d => u d / den

/-- `stable_solve(Φnn, σ a aᴴ)` as determined by the solver contract `Φnn u = a`: `phi = σ u aᴴ` -/
def rankOnePhi (sigma : α) (a u : Fin D → β) : Fin D → Fin D → β :=
  fun d e => CxOps.ofReal sigma * (u d * cj α (a e))

/-- `np.trace(phi, axis1=-1, axis2=-2)` -/
def trace (M : Fin D → Fin D → β) : β := vsum fun i => M i i

/-- `get_mvdr_vector_souden(..., ref_channel=ref)`: `(phi / np.maximum(trace(phi).real, eps))[..., ref]` -/
def souden (tiny : α) (phi : Fin D → Fin D → β) (ref : Fin D) : Fin D → β :=
  let den : α := max (CxOps.re (trace phi)) tiny
  fun d => phi d ref / CxOps.ofReal den

/-- `get_wmwf_vector(..., reference_channel=ref, distortion_weight=mu)`: `(phi / (mu + trace(phi)))[..., ref]` -/
def wmwf (mu : α) (phi : Fin D → Fin D → β) (ref : Fin D) : Fin D → β :=
  let den : β := CxOps.ofReal mu + trace phi
  fun d => phi d ref / den

/-- rank-one estimate of `get_pca_rank_one_estimate` / `get_gev_rank_one_estimate` from an ATF estimate `b`:
`(trace(Φ) / trace(b bᴴ)) · b bᴴ` -/
def rankOneEstimate (P : Fin D → Fin D → β) (b : Fin D → β) : Fin D → Fin D → β :=
  let bb : Fin D → Fin D → β := fun d e => b d * cj α (b e)
  let scale : β := trace P / trace bb
  fun d e => scale * bb d e
end ideal

end PbBss.Pipeline

/-! Model of the `'optimal'` branch of `_mapping_from_score_matrix`: brute force over
`itertools.permutations(range(K))` in lexicographic order, strict `>` update. core-only -/
namespace PbBss

/-- all ways to pick one element, with the remaining list in original order -/
def picks {α} : List α → List (α × List α)
  | [] => []
  | x :: xs => (x, xs) :: (picks xs).map fun p => (p.1, x :: p.2)

/-- permutations of `l` in `itertools.permutations` order; `fuel = l.length` -/
def lexPermsAux {α} : Nat → List α → List (List α)
  | 0, _ => [[]]
  | n+1, l => (picks l).flatMap fun p => (lexPermsAux n p.2).map (p.1 :: ·)

def lexPerms (K : Nat) : List (List Nat) := lexPermsAux K (List.range K)

/-- Python `sum(score_matrix[range(K), permutation])`: left-to-right from `0` -/
def permScore {α} [Add α] [OfNat α 0] (s : Nat → Nat → α) (p : List Nat) : α :=
  (p.zipIdx).foldl (fun acc jc => acc + s jc.2 jc.1) 0

/-- brute-force search with strict improvement; `none` plays the role of `best_score = -inf` -/
def optimalLoop {α} [Add α] [OfNat α 0] [LT α] [DecidableLT α] (s : Nat → Nat → α) :
    List (List Nat) → Option (List Nat × α) → Option (List Nat × α)
  | [], best => best
  | p :: ps, best =>
    let sc := permScore s p
    match best with
    | none => optimalLoop s ps (some (p, sc))
    | some (bp, bs) => optimalLoop s ps (if bs < sc then some (p, sc) else some (bp, bs))

def optimal {α} [Add α] [OfNat α 0] [LT α] [DecidableLT α] (K : Nat) (s : Nat → Nat → α) :
    Option (List Nat × α) :=
  optimalLoop s (lexPerms K) none

end PbBss

/-! core-only generic model -/
namespace PbBss

class Transc (α : Type) where
  exp : α → α
  log : α → α
  sqrt : α → α

def vsum {α} [Add α] [OfNat α 0] {n : Nat} (f : Fin n → α) : α :=
  Fin.foldl n (fun acc i => acc + f i) 0

def vmax {α} [Max α] {n : Nat} (f : Fin (n+1) → α) : α :=
  Fin.foldl n (fun acc i => max acc (f i.succ)) (f 0)

section
variable {α : Type} [Add α] [Sub α] [Mul α] [Div α] [OfNat α 0] [Max α] [Transc α]

/-- log_pdf_to_affiliation for one observation: K classes, no mask, no clipping -/
def affiliation {K : Nat} (tiny : α) (w lp : Fin (K+1) → α) : Fin (K+1) → α :=
  let m := vmax lp
  let u : Fin (K+1) → α := fun k => Transc.exp (lp k - m) * w k
  let den := max (vsum u) tiny
  fun k => u k / den
end

instance : Transc Float := ⟨Float.exp, Float.log, Float.sqrt⟩

end PbBss

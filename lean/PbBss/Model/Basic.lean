/-! Core-only generic scalar layer shared by every numeric model.

A model function is written once over scalar types `α` ("real") and `β` ("complex over α") using the
standard notation classes plus `Transc` and `CxOps`.  The driver instantiates `α := Float`,
`β := CF` (pairs of doubles); the proofs instantiate `α := ℝ`, `β := ℂ` (`PbBss/Proofs/RealInst.lean`). -/
namespace PbBss

class Transc (α : Type) where
  exp : α → α
  log : α → α
  sqrt : α → α

/-- `β` is "complex over `α`" -/
class CxOps (α β : Type) where
  re : β → α
  im : β → α
  conj : β → β
  ofReal : α → β

/-- left-to-right sum `f 0 + f 1 + …` starting from `0` -/
def vsum {α} [Add α] [OfNat α 0] {n : Nat} (f : Fin n → α) : α :=
  Fin.foldl n (fun acc i => acc + f i) 0

/-- maximum of a non-empty family (`np.amax`) -/
def vmax {α} [Max α] {n : Nat} (f : Fin (n+1) → α) : α :=
  Fin.foldl n (fun acc i => max acc (f i.succ)) (f 0)

/-- first index attaining the maximum (`np.argmax`) -/
def vargmax {α} [LT α] [DecidableLT α] {n : Nat} (f : Fin (n+1) → α) : Fin (n+1) :=
  Fin.foldl n (fun best i => if f best < f i.succ then i.succ else best) 0

section
variable {α : Type} [Add α] [Sub α] [Mul α] [Div α] [OfNat α 0] [Max α] [Transc α]

/-- `log_pdf_to_affiliation` for one observation: K+1 classes, no mask, no clipping
(kept from the design spike; the full version is `Posterior.affiliation`). -/
def affiliation {K : Nat} (tiny : α) (w lp : Fin (K+1) → α) : Fin (K+1) → α :=
  let m := vmax lp
  let u : Fin (K+1) → α := fun k => Transc.exp (lp k - m) * w k
  let den := max (vsum u) tiny
  fun k => u k / den
end

/-! ### `Float` instances (driver side) -/
instance : Transc Float := ⟨Float.exp, Float.log, Float.sqrt⟩
instance : NatCast Float := ⟨Float.ofNat⟩

/-- complex double -/
structure CF where
  re : Float
  im : Float
deriving Inhabited

namespace CF
instance : Add CF := ⟨fun a b => ⟨a.re + b.re, a.im + b.im⟩⟩
instance : Sub CF := ⟨fun a b => ⟨a.re - b.re, a.im - b.im⟩⟩
instance : Neg CF := ⟨fun a => ⟨-a.re, -a.im⟩⟩
instance : Mul CF := ⟨fun a b => ⟨a.re * b.re - a.im * b.im, a.re * b.im + a.im * b.re⟩⟩
/-- Smith-free textbook division (NumPy uses Smith's algorithm; results agree to rounding) -/
instance : Div CF := ⟨fun a b =>
  let d := b.re * b.re + b.im * b.im
  ⟨(a.re * b.re + a.im * b.im) / d, (a.im * b.re - a.re * b.im) / d⟩⟩
instance : OfNat CF 0 := ⟨⟨0, 0⟩⟩
instance : OfNat CF 1 := ⟨⟨1, 0⟩⟩
instance : CxOps Float CF := ⟨CF.re, CF.im, fun a => ⟨a.re, -a.im⟩, fun x => ⟨x, 0⟩⟩
end CF

end PbBss

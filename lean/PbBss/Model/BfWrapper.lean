import PbBss.Model.Basic
/-! Models of
* `pb_bss/extraction/beamformer_wrapper.py: get_bf_vector` (name dispatch, lines 124-236) with the helpers
  `_get_atf_vector`, `_get_rank_1_approximation` it dispatches to,
* `pb_bss/extraction/beamformer.py: apply_beamforming_vector` (572-583), `phase_correction` (517-560),
* `pb_bss/math/solve.py: stable_solve` (91-114).
Core Lean only. -/
namespace PbBss.BfWrapper

/-! ### name dispatch (discrete) -/

/-- `_get_atf_vector(atf_type, …)` -/
inductive Atf | pca | scaledGev
deriving DecidableEq, Repr
/-- `_get_rank_1_approximation(atf_type, …)` -/
inductive Rank1 | pca | gev
deriving DecidableEq, Repr

/-- the branch of `get_bf_vector` that computes the vector -/
inductive Core
  | pca                              -- get_pca_vector(target)
  | mvdr (a : Atf)                   -- get_mvdr_vector(_get_atf_vector(a, target, noise), noise)
  | souden (r : Option Rank1)        -- get_mvdr_vector_souden(target or its rank-1 approximation, noise)
  | gev (r : Option Rank1)           -- get_gev_vector(…)
  | wmwf (r : Option Rank1)          -- get_wmwf_vector(…)
  | ch (n : Nat)                     -- unit vector of channel n
deriving DecidableEq, Repr

structure Plan where
  core : Core
  ban : Bool                         -- blind_analytic_normalization(vector, noise) afterwards
deriving DecidableEq, Repr

/-- `sub in s` for strings (as character lists) -/
def hasSub (sub : List Char) : List Char → Bool
  | [] => sub.isEmpty
  | c :: s => sub.isPrefixOf (c :: s) || hasSub sub s

/-- first element of `s.split('+')` -/
def firstTok (s : List Char) : List Char := s.takeWhile (· != '+')

/-- `int(s)` for a string of ASCII digits -/
def digitsToNat (s : List Char) : Nat := s.foldl (fun acc c => 10 * acc + (c.toNat - '0'.toNat)) 0

/-- `_get_atf_vector`'s dispatch on `atf_type` (`ValueError` otherwise) -/
def atfOf (tok : List Char) : Option Atf :=
  if tok = "pca".toList then some .pca
  else if tok = "scaled_gev_atf".toList then some .scaledGev
  else none

/-- `_get_rank_1_approximation`'s dispatch on `atf_type` (`ValueError` otherwise) -/
def rank1Of (tok : List Char) : Option Rank1 :=
  if tok = "rank1_pca".toList then some .pca
  else if tok = "rank1_gev".toList then some .gev
  else none

/-- the `if / elif` chain on `beamformer_core` -/
def coreOf (core : List Char) : Option Core :=
  if core = "pca".toList then some .pca
  else if core = "pca+mvdr".toList || core = "scaled_gev_atf+mvdr".toList then
    (atfOf (firstTok core)).map .mvdr
  else if core = "mvdr_souden".toList || core = "rank1_pca+mvdr_souden".toList
      || core = "rank1_gev+mvdr_souden".toList then
    if core = "mvdr_souden".toList then some (.souden none)
    else (rank1Of (firstTok core)).map fun r => .souden (some r)
  else if core = "gev".toList || core = "rank1_pca+gev".toList || core = "rank1_gev+gev".toList then
    if core = "gev".toList then some (.gev none)
    else (rank1Of (firstTok core)).map fun r => .gev (some r)
  else if core = "wmwf".toList || core = "rank1_pca+wmwf".toList || core = "rank1_gev+wmwf".toList then
    if core = "wmwf".toList then some (.wmwf none)
    else (rank1Of (firstTok core)).map fun r => .wmwf (some r)
  else if hasSub "ch".toList core && (!(core.drop 2).isEmpty && (core.drop 2).all Char.isDigit) then
    some (.ch (digitsToNat (core.drop 2)))
  else none                          -- raise ValueError

/-- `get_bf_vector`'s reading of `beamformer`; `none` = the call raises (AssertionError for 'lcmv', ValueError
for an unknown core) -/
def dispatch (name : List Char) : Option Plan :=
  if hasSub "lcmv".toList name then none
  else
    let ban := "+ban".toList.isSuffixOf name
    let core := if ban then name.take (name.length - 4) else name
    (coreOf core).map fun c => ⟨c, ban⟩

/-- the primitives `get_bf_vector` composes, with the caller's keyword arguments already bound
(`M` = stacks of PSD matrices, `V` = stacks of vectors) -/
structure Prims (M V : Type) where
  pcaVector : M → V                 -- get_pca_vector(target, **kw)
  gevVector : M → M → V             -- get_gev_vector(target, noise, **kw)
  mvdr : V → M → V                  -- get_mvdr_vector(atf, noise)
  souden : M → M → V                -- get_mvdr_vector_souden(target, noise, **kw)
  wmwf : M → M → V                  -- get_wmwf_vector(target, noise, **kw)
  ban : V → M → V                   -- blind_analytic_normalization(vector, noise)
  matVec : M → V → V                -- einsum('...dD,...D->...d', noise, w)
  rank1 : M → V → M                 -- trace(cov)/trace(a aᴴ) · a aᴴ
  unit : Nat → M → V                -- broadcast one-hot vector

def evalAtf {M V : Type} (P : Prims M V) (a : Atf) (target noise : M) : V :=
  match a with
  | .pca => P.pcaVector target
  | .scaledGev => P.matVec noise (P.gevVector target noise)

def evalRank1 {M V : Type} (P : Prims M V) (r : Option Rank1) (target noise : M) : M :=
  match r with
  | none => target
  | some .pca => P.rank1 target (P.pcaVector target)
  | some .gev => P.rank1 target (P.matVec noise (P.gevVector target noise))

/-- the value `get_bf_vector` returns for a plan -/
def evalPlan {M V : Type} (P : Prims M V) (p : Plan) (target noise : M) : V :=
  let w := match p.core with
    | .pca => P.pcaVector target
    | .mvdr a => P.mvdr (evalAtf P a target noise) noise
    | .souden r => P.souden (evalRank1 P r target noise) noise
    | .gev r => P.gevVector (evalRank1 P r target noise) noise
    | .wmwf r => P.wmwf (evalRank1 P r target noise) noise
    | .ch n => P.unit n target
  if p.ban then P.ban w noise else w

/-- identifiers of the spied primitives (order of `harness/props/c13.py: PRIMS`) -/
inductive Prim | pcaVector | gevVector | mvdr | souden | wmwf | ban
deriving DecidableEq, Repr

def Prim.code : Prim → Nat
  | .pcaVector => 1 | .gevVector => 2 | .mvdr => 3 | .souden => 4 | .wmwf => 5 | .ban => 6

def rank1Trace : Option Rank1 → List Prim
  | none => []
  | some .pca => [.pcaVector]
  | some .gev => [.gevVector]

/-- the sequence of primitive calls of a plan -/
def trace (p : Plan) : List Prim :=
  (match p.core with
    | .pca => [.pcaVector]
    | .mvdr .pca => [.pcaVector, .mvdr]
    | .mvdr .scaledGev => [.gevVector, .mvdr]
    | .souden r => rank1Trace r ++ [.souden]
    | .gev r => rank1Trace r ++ [.gevVector]
    | .wmwf r => rank1Trace r ++ [.wmwf]
    | .ch _ => []) ++ (if p.ban then [.ban] else [])

/-! ### `apply_beamforming_vector` -/
section apply
variable {α β : Type} [Add β] [Mul β] [OfNat β 0] [CxOps α β]

/-- `einsum('...a,...at->...t', vector.conj(), mix)` for one leading index -/
def applyBf (α : Type) {β : Type} [Add β] [Mul β] [OfNat β 0] [CxOps α β] {D T : Nat}
    (w : Fin D → β) (x : Fin D → Fin T → β) : Fin T → β :=
  fun t => vsum fun a => CxOps.conj (α := α) (w a) * x a t
end apply

/-! ### `phase_correction` -/

/-- `np.angle` and `np.exp(1j * ·)` -/
class Polar (α β : Type) where
  arg : β → α
  expI : α → β

instance : Polar Float CF := ⟨fun z => Float.atan2 z.im z.re, fun t => ⟨Float.cos t, Float.sin t⟩⟩

section phase
variable {α β : Type} [Add β] [Mul β] [OfNat β 0] [OfNat β 1] [CxOps α β] [Polar α β]

/-- `np.cumprod` along one axis: `out[g] = p[0] * … * p[g]` -/
def cumprod {n : Nat} (p : Fin n → β) (g : Fin n) : β :=
  Fin.foldl (g.val + 1) (fun acc j => acc * p ⟨j.val, Nat.lt_of_lt_of_le j.isLt (Nat.succ_le_of_lt g.isLt)⟩) 1

/-- `np.exp(1j * np.angle(np.sum(vector[..., 1:, :].conj() * vector[..., :-1, :], axis=-1, keepdims=True)))`
at bin `g` of the `F` shortened bins -/
def phasor (α : Type) {β : Type} [Add β] [Mul β] [OfNat β 0] [CxOps α β] [Polar α β] {F D : Nat}
    (v : Fin (F+1) → Fin D → β) (g : Fin F) : β :=
  Polar.expI (Polar.arg (α := α) (vsum fun d => CxOps.conj (α := α) (v g.succ d) * v g.castSucc d))

/-- `phase_correction` for one leading index: bins `0..F`, `vector[1:] *= cumprod(phasors, axis=bins)` -/
def phaseCorrection (α : Type) {β : Type} [Add β] [Mul β] [OfNat β 0] [OfNat β 1] [CxOps α β] [Polar α β]
    {F D : Nat} (v : Fin (F+1) → Fin D → β) : Fin (F+1) → Fin D → β :=
  fun f d => Fin.cases (v 0 d) (fun g => v g.succ d * cumprod (phasor α v) g) f

/-- `phase_correction` on a full array of shape `shape` (`len(shape) >= 2`), addressed by the multi-index:
slices `[..., 1:, :]`, `[..., :-1, :]`, `sum(axis=-1)`, `cumprod(axis=-2)` written with explicit positions -/
def phaseFull (α : Type) {β : Type} [Add β] [Mul β] [OfNat β 0] [OfNat β 1] [CxOps α β] [Polar α β]
    (shape : List Nat) (x : List Nat → β) (idx : List Nat) : β :=
  let n := shape.length
  let D := shape.getD (n - 1) 0
  let lead := idx.take (n - 2)
  let f := idx.getD (n - 2) 0
  match f with
  | 0 => x idx
  | g + 1 =>
    -- phasors[lead, j] for j = 0..g, multiplied up along axis -2
    x idx * Fin.foldl (g + 1) (fun acc j => acc *
      Polar.expI (Polar.arg (α := α) (vsum fun d : Fin D =>
        CxOps.conj (α := α) (x (lead ++ [j.val + 1, d.val])) * x (lead ++ [j.val, d.val])))) 1

/-- the pre-fix source (`np.cumprod(..., axis=0)`): the product runs over the FIRST axis of the phasor array -/
def phaseFullAxis0 (α : Type) {β : Type} [Add β] [Mul β] [OfNat β 0] [OfNat β 1] [CxOps α β] [Polar α β]
    (shape : List Nat) (x : List Nat → β) (idx : List Nat) : β :=
  let n := shape.length
  let D := shape.getD (n - 1) 0
  let f := idx.getD (n - 2) 0
  match f with
  | 0 => x idx
  | g + 1 =>
    -- index of the phasor array (shape[:-2] + [F-1, 1]) belonging to this element
    let pidx := idx.take (n - 2) ++ [g]
    let i0 := pidx.getD 0 0
    x idx * Fin.foldl (i0 + 1) (fun acc j => acc *
      (let q := pidx.set 0 j.val
       let lead := q.take (n - 2)
       let b := q.getD (n - 2) 0
       Polar.expI (Polar.arg (α := α) (vsum fun d : Fin D =>
        CxOps.conj (α := α) (x (lead ++ [b + 1, d.val])) * x (lead ++ [b, d.val]))))) 1
end phase

/-! ### `stable_solve` -/

/-- the decision tree of `stable_solve`: `batched` = outcome of `np.linalg.solve(A, B)` on the whole stack
(`none` = `LinAlgError`), `single i` = outcome of `np.linalg.solve(A[i], B[i])`, `lstsq i` = `np.linalg.lstsq(A[i], B[i])[0]` -/
def stableSolve {n : Nat} {γ : Type} (batched : Option (Fin n → γ)) (single : Fin n → Option γ)
    (lstsq : Fin n → γ) : Fin n → γ :=
  match batched with
  | some c => c
  | none => fun i =>
    match single i with
    | some c => c
    | none => lstsq i

/-- contract of `np.linalg.solve` on a stack (gufunc): it raises iff one of the matrices raises, and otherwise
returns the per-matrix solutions -/
def SolveContract {n : Nat} {γ : Type} (batched : Option (Fin n → γ)) (single : Fin n → Option γ) : Prop :=
  match batched with
  | some c => ∀ i, single i = some (c i)
  | none => ∃ i, single i = none

end PbBss.BfWrapper

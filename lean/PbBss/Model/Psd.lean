import PbBss.Model.Basic
/-! Models of `pb_bss/extraction/beamformer.py`: `get_power_spectral_density_matrix` (lines 59-160) and
`condition_covariance` (lines 563-569).  Core Lean only; scalars `α` (real) and `β` (complex over `α`).

Two levels:
* index level (`psd`, `psdBool`, `psdNoMask`): one leading index, one source; observation `x : Fin D → Fin T → β`
  (sensors, frames), mask `m : Fin T → α`.
* full-array level (`psdFull`): arrays are functions of the multi-index (`List Nat`, NumPy order), the model does
  the axis handling of the source itself (`d % ndim`, the two `transpose` calls, `expand_dims`, the three `einsum`
  branches, `rollaxis`).  -/
namespace PbBss.Psd

section index
variable {α β : Type} [Add α] [Div α] [OfNat α 0] [OfNat α 1] [Max α] [NatCast α]
  [Add β] [Mul β] [Div β] [OfNat β 0] [CxOps α β]

/-- `mask /= np.maximum(np.sum(mask, axis=time_dim, keepdims=True), 1e-10)` for one (leading index, source);
`floor` is the literal `1e-10` -/
def normMask {T : Nat} (floor : α) (m : Fin T → α) : Fin T → α :=
  let s := max (vsum m) floor
  fun t => m t / s

/-- `if normalize: mask /= …` -/
def weights {T : Nat} (floor : α) (normalize : Bool) (m : Fin T → α) : Fin T → α :=
  if normalize then normMask floor m else m

/-- `mask.astype(np.float64)` of a boolean mask -/
def boolMask {T : Nat} (b : Fin T → Bool) : Fin T → α := fun t => if b t then 1 else 0

/-- `einsum('...dt,...et->...de', mask * observation, observation.conj())`
(and `einsum('...kt,...dt,...et->...kde', mask, observation, observation.conj())` for one `k`) -/
def wsum {D T : Nat} (w : Fin T → α) (x : Fin D → Fin T → β) : Fin D → Fin D → β :=
  fun d e => vsum fun t => (CxOps.ofReal (w t) * x d t) * CxOps.conj (α := α) (x e t)

/-- PSD matrix for a float mask -/
def psd {D T : Nat} (floor : α) (normalize : Bool) (x : Fin D → Fin T → β) (m : Fin T → α) :
    Fin D → Fin D → β :=
  wsum (weights floor normalize m) x

/-- PSD matrix for a boolean mask (`mask.dtype == bool` branch) -/
def psdBool {D T : Nat} (floor : α) (normalize : Bool) (x : Fin D → Fin T → β) (b : Fin T → Bool) :
    Fin D → Fin D → β :=
  psd floor normalize x (boolMask b)

/-- `mask is None`: `einsum('...dt,...et->...de', observation, observation.conj()) / observation.shape[-1]` -/
def psdNoMask {D T : Nat} (x : Fin D → Fin T → β) : Fin D → Fin D → β :=
  fun d e => (vsum fun t => x d t * CxOps.conj (α := α) (x e t)) / CxOps.ofReal ((T : Nat) : α)

end index

section condcov
variable {α β : Type} [Add α] [OfNat α 1] [NatCast α]
  [Add β] [Mul β] [Div β] [OfNat β 0] [OfNat β 1] [CxOps α β]

/-- `condition_covariance(x, gamma)` for one leading index:
`scale = gamma * trace(x) / D`, `(x + eye * scale) / (1 + gamma)` -/
def condCov {D : Nat} (gamma : α) (phi : Fin D → Fin D → β) : Fin D → Fin D → β :=
  let scale : β := CxOps.ofReal gamma * (vsum fun d => phi d d) / CxOps.ofReal ((D : Nat) : α)
  fun d e => (phi d e + (if d = e then (1 : β) else 0) * scale) / CxOps.ofReal (1 + gamma)

end condcov

/-! ### full arrays: axis handling -/
section layout

/-- `d % observation.ndim`: the position addressed by a (possibly negative) axis argument.  The source keeps the
negative alias `d % ndim - ndim`; every later use (`i not in [...]`, `transpose`, `source_dim < -2`) is the same
statement about the position. -/
def normDim (n : Nat) (d : Int) : Nat := (d % (n : Int)).toNat

/-- `[i for i in range(-ndim, 0) if i not in [a, b]] + [a, b]` as positions -/
def movePerm (n a b : Nat) : List Nat := ((List.range n).filter fun i => i != a && i != b) ++ [a, b]

/-- index into the array BEFORE `transpose(perm)` from the index AFTER it: `new[idx'] = old[idx]` with
`idx[perm[j]] = idx'[j]` -/
def untranspose (perm idx' : List Nat) : List Nat :=
  (List.range perm.length).map fun i => idx'.getD (perm.idxOf i) 0

/-- the configuration of one call -/
structure Cfg where
  n : Nat              -- observation.ndim
  sensor : Int         -- sensor_dim as passed
  source : Int         -- source_dim as passed
  time : Int           -- time_dim as passed
  normalize : Bool

/-- kind of mask argument -/
inductive MaskArg (α : Type)
  | absent
  | float (ndim : Nat) (m : List Nat → α)
  | bool (ndim : Nat) (m : List Nat → Bool)

variable {α β : Type} [Add α] [Div α] [OfNat α 0] [OfNat α 1] [Max α] [NatCast α]
  [Add β] [Mul β] [Div β] [OfNat β 0] [CxOps α β]

/-- the observation after `observation.transpose(obs_transpose)`: index `lead ++ [d, t]` -/
def obsT (c : Cfg) (x : List Nat → β) (idx' : List Nat) : β :=
  x (untranspose (movePerm c.n (normDim c.n c.sensor) (normDim c.n c.time)) idx')

/-- one row of the mask along mask axis `ax` through index `idx`, as a `Fin T` vector -/
def maskRow (T ax : Nat) (m : List Nat → α) (idx : List Nat) : Fin T → α := fun t => m (idx.set ax t.val)

/-- the mask after copy / bool→float / in-place normalisation along `time_dim`
(`axis = time_dim` is counted from the END of the mask's own shape) -/
def maskW (c : Cfg) (floor : α) (T mndim : Nat) (m : List Nat → α) (idx : List Nat) : α :=
  if c.normalize then
    let ax := normDim c.n c.time + mndim - c.n
    m idx / max (vsum (maskRow T ax m idx)) floor
  else m idx

/-- `np.copy(mask)`, `mask.astype(np.float64)` for booleans -/
def MaskArg.toFloat : MaskArg α → Option (Nat × (List Nat → α))
  | .absent => Option.none
  | .float nd m => Option.some (nd, m)
  | .bool nd b => Option.some (nd, fun i => if b i then 1 else 0)

/-- `get_power_spectral_density_matrix` on full arrays.  `shape` is `observation.shape`; the result is read at the
multi-index `out` of the returned array. -/
def psdFull (c : Cfg) (floor : α) (shape : List Nat) (x : List Nat → β) (mask : MaskArg α) (out : List Nat) : β :=
  let n := c.n
  let T := shape.getD (normDim n c.time) 0
  match mask.toFloat with
  | none =>
    -- psd = einsum('...dt,...et->...de', observation, observation.conj()); psd /= observation.shape[-1]
    let lead := out.take (n - 2)
    let d := out.getD (n - 2) 0
    let e := out.getD (n - 1) 0
    (vsum fun t : Fin T => obsT c x (lead ++ [d, t.val]) * CxOps.conj (α := α) (obsT c x (lead ++ [e, t.val])))
      / CxOps.ofReal ((T : Nat) : α)
  | some (mndim, m) =>
    let w := maskW c floor T mndim m
    if mndim + 1 = n then
      -- mask = np.expand_dims(mask, -2); einsum('...dt,...et->...de', mask * observation, observation.conj())
      let lead := out.take (n - 2)
      let d := out.getD (n - 2) 0
      let e := out.getD (n - 1) 0
      vsum fun t : Fin T => (CxOps.ofReal (w (lead ++ [t.val])) * obsT c x (lead ++ [d, t.val]))
        * CxOps.conj (α := α) (obsT c x (lead ++ [e, t.val]))
    else
      -- mask.transpose(mask_transpose); einsum('...kt,...dt,...et->...kde', mask, observation, observation.conj());
      -- if source_dim < -2: psd = np.rollaxis(psd, -3, source_dim % observation.ndim)
      let ps := normDim n c.source
      let out' := if ps + 2 < n then (out.eraseIdx ps).insertIdx (n - 2) (out.getD ps 0) else out
      let lead := out'.take (n - 2)
      let k := out'.getD (n - 2) 0
      let d := out'.getD (n - 1) 0
      let e := out'.getD n 0
      let mperm := movePerm n ps (normDim n c.time)
      vsum fun t : Fin T => (CxOps.ofReal (w (untranspose mperm (lead ++ [k, t.val]))) * obsT c x (lead ++ [d, t.val]))
        * CxOps.conj (α := α) (obsT c x (lead ++ [e, t.val]))

/-- shape of the returned array -/
def outShape (c : Cfg) (shape : List Nat) (mask : Option (List Nat)) : List Nat :=
  let n := c.n
  let po := normDim n c.sensor
  let pt := normDim n c.time
  let lead := ((List.range n).filter fun i => i != po && i != pt).map fun i => shape.getD i 0
  let D := shape.getD po 0
  match mask with
  | none => lead ++ [D, D]
  | some mshape =>
    if mshape.length + 1 = n then lead ++ [D, D]
    else
      let ps := normDim n c.source
      let K := mshape.getD ps 0
      let canon := lead ++ [K, D, D]
      if ps + 2 < n then (canon.eraseIdx (n - 2)).insertIdx ps K else canon

end layout
end PbBss.Psd

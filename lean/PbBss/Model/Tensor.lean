import PbBss.Model.Basic
/-! # Reversed-index tensor layer (DESIGN.md 2.2) — core Lean only

A tensor is `⟨rshape, get⟩`: `rshape` is the NumPy shape REVERSED (head = size of the last axis) and
`get` takes the REVERSED multi-index (head = index along the last axis).  A NumPy operation addressed
by a negative axis `-(k+1)` touches position `k` of these lists, whatever the number of leading axes;
an operation addressed by a non-negative axis has to be defined through `rshape.length`.

All index manipulations are total and "pad-aware" (`padTake`, `setAt`, `insertAt` extend a too short
list with a default) so that the commutation laws with `fixLead` are plain equalities of tensors.

Supersedes the design spike `PbBss/Model/RT.lean` (left untouched). -/
namespace PbBss.Tensor

/-! ## index lists -/

/-- the first `n` entries of `l`, missing entries replaced by `d` (length exactly `n`) -/
def padTake (d : Nat) (n : Nat) (l : List Nat) : List Nat := (List.range n).map fun i => l.getD i d

/-- pad-aware `l.set k x` -/
def setAt (d : Nat) (l : List Nat) (k x : Nat) : List Nat := padTake d k l ++ x :: l.drop (k + 1)

/-- insert `x` so that it ends up at position `k` -/
def insertAt (d : Nat) (l : List Nat) (k x : Nat) : List Nat := padTake d k l ++ x :: l.drop k

/-- remove position `k` (pad-aware like the others: a list shorter than `k` is first extended) -/
def eraseAt (d : Nat) (l : List Nat) (k : Nat) : List Nat := padTake d k l ++ l.drop (k + 1)

/-- exchange positions `i` and `j` -/
def swapAt (d : Nat) (l : List Nat) (i j : Nat) : List Nat :=
  (List.range (max l.length (max i j + 1))).map fun p =>
    if p = i then l.getD j d else if p = j then l.getD i d else l.getD p d

/-- NumPy broadcasting of an index against a shape: entries beyond the rank are dropped, entries on
axes of size 1 read position 0 (length exactly `shape.length`) -/
def bidx (shape idx : List Nat) : List Nat :=
  (List.range shape.length).map fun i => if shape.getD i 1 = 1 then 0 else idx.getD i 0

/-- NumPy broadcast shape (reversed shapes are aligned at the head); no compatibility check:
a size-1 (or missing) axis takes the size of the other operand -/
def bshape (a b : List Nat) : List Nat :=
  (List.range (max a.length b.length)).map fun i => if a.getD i 1 = 1 then b.getD i 1 else a.getD i 1

def prodList (l : List Nat) : Nat := l.foldl (· * ·) 1

/-- reversed multi-index of the row-major offset `o` in the reversed shape `s` (`np.unravel_index`);
the head (last axis) varies fastest -/
def unravel : List Nat → Nat → List Nat
  | [], _ => []
  | d :: s, o => (o % d) :: unravel s (o / d)

/-- row-major offset of a reversed multi-index (`np.ravel_multi_index`) -/
def ravel : List Nat → List Nat → Nat
  | [], _ => 0
  | d :: s, idx => idx.getD 0 0 + d * ravel s (idx.drop 1)

/-! ## tensors -/

structure T (α : Type) where
  rshape : List Nat          -- reversed shape: head = size of the last axis
  get : List Nat → α         -- reversed multi-index

variable {α β γ : Type}

def T.rank (t : T α) : Nat := t.rshape.length

/-- Fix the leading (NumPy) axes and keep the last `c` axes free: `t[lead]` for `lead` given in
reversed order (head = index of axis `-(c+1)`).  Leading axes of size 1 are read at 0 whatever `lead`
says (NumPy broadcasting: a singleton leading axis behaves as if repeated). -/
def fixLead (t : T α) (c : Nat) (lead : List Nat) : T α :=
  ⟨t.rshape.take c, fun core => t.get (padTake 0 c core ++ bidx (t.rshape.drop c) lead)⟩

/-! ## folds over one axis -/

/-- `f 0 + f 1 + … + f (n-1)` from `0`, left to right -/
def sumN [Add α] [OfNat α 0] (n : Nat) (f : Nat → α) : α :=
  (List.range n).foldl (fun acc j => acc + f j) 0

/-- `f 0 * f 1 * … * f (n-1)` from `1` -/
def prodN [Mul α] [OfNat α 1] (n : Nat) (f : Nat → α) : α :=
  (List.range n).foldl (fun acc j => acc * f j) 1

/-- maximum of `f 0 … f (n-1)` (`f 0` when `n ≤ 1`) -/
def maxN [Max α] (n : Nat) (f : Nat → α) : α :=
  (List.range (n - 1)).foldl (fun acc j => max acc (f (j + 1))) (f 0)

/-- mean: sum divided by the count -/
def meanN [Add α] [Div α] [OfNat α 0] [NatCast α] (n : Nat) (f : Nat → α) : α :=
  sumN n f / (n : α)

/-! ## primitives addressed from the END of the shape (`k = 0` is NumPy axis `-1`) -/

/-- elementwise unary operation (also: operations with a Python scalar) -/
def map (f : α → β) (t : T α) : T β := ⟨t.rshape, fun idx => f (t.get idx)⟩

/-- scalar as a rank-`n` tensor of ones-shape is never needed: a constant tensor of a given shape -/
def const (rshape : List Nat) (x : α) : T α := ⟨rshape, fun _ => x⟩

/-- elementwise binary operation with NumPy broadcasting -/
def zipWith (f : α → β → γ) (a : T α) (b : T β) : T γ :=
  ⟨bshape a.rshape b.rshape, fun idx => f (a.get (bidx a.rshape idx)) (b.get (bidx b.rshape idx))⟩

/-- reduction over axis `-(k+1)` with `keepdims=True`; `r n f` reduces `f 0 … f (n-1)` -/
def reduceKeep (k : Nat) (r : Nat → (Nat → α) → β) (t : T α) : T β :=
  ⟨setAt 1 t.rshape k 1, fun idx => r (t.rshape.getD k 1) fun j => t.get (setAt 0 idx k j)⟩

/-- reduction over axis `-(k+1)` with `keepdims=False` (the axis disappears) -/
def reduceDrop (k : Nat) (r : Nat → (Nat → α) → β) (t : T α) : T β :=
  ⟨eraseAt 1 t.rshape k, fun idx => r (t.rshape.getD k 1) fun j => t.get (insertAt 0 idx k j)⟩

/-- `np.sum(t, axis=-(k+1), keepdims=True)` -/
def sumAxisKeep [Add α] [OfNat α 0] (k : Nat) (t : T α) : T α := reduceKeep k sumN t
/-- `np.sum(t, axis=-(k+1))` -/
def sumAxis [Add α] [OfNat α 0] (k : Nat) (t : T α) : T α := reduceDrop k sumN t
/-- `np.mean(t, axis=-(k+1), keepdims=True)` -/
def meanAxisKeep [Add α] [Div α] [OfNat α 0] [NatCast α] (k : Nat) (t : T α) : T α := reduceKeep k meanN t
/-- `np.mean(t, axis=-(k+1))` -/
def meanAxis [Add α] [Div α] [OfNat α 0] [NatCast α] (k : Nat) (t : T α) : T α := reduceDrop k meanN t
/-- `np.amax(t, axis=-(k+1), keepdims=True)` -/
def amaxAxisKeep [Max α] (k : Nat) (t : T α) : T α := reduceKeep k maxN t
/-- `np.amax(t, axis=-(k+1))` -/
def amaxAxis [Max α] (k : Nat) (t : T α) : T α := reduceDrop k maxN t

/-- running reduction along axis `-(k+1)`: entry `i` holds `r (i+1) (entries 0..i)` -/
def scanAxis (k : Nat) (r : Nat → (Nat → α) → β) (t : T α) : T β :=
  ⟨t.rshape, fun idx => r (idx.getD k 0 + 1) fun j => t.get (setAt 0 idx k j)⟩

/-- `np.cumprod(t, axis=-(k+1))` -/
def cumprodFromEnd [Mul α] [OfNat α 1] (k : Nat) (t : T α) : T α := scanAxis k prodN t
/-- `np.cumsum(t, axis=-(k+1))` -/
def cumsumFromEnd [Add α] [OfNat α 0] (k : Nat) (t : T α) : T α := scanAxis k sumN t

/-- `np.cumprod(t, axis=a)` with a NON-negative axis: its position from the end depends on the rank -/
def cumprodFromStart [Mul α] [OfNat α 1] (a : Nat) (t : T α) : T α :=
  cumprodFromEnd (t.rshape.length - 1 - a) t

/-- `np.expand_dims(t, -(k+1))`, i.e. `t[..., None, :, …, :]` with `k` trailing colons -/
def expandDims (k : Nat) (t : T α) : T α :=
  ⟨insertAt 1 t.rshape k 1, fun idx => t.get (eraseAt 0 idx k)⟩

/-- `np.swapaxes(t, -(i+1), -(j+1))` -/
def swapaxes (i j : Nat) (t : T α) : T α :=
  ⟨swapAt 1 t.rshape i j, fun idx => t.get (swapAt 0 idx i j)⟩

/-- diagonal of the last two axes: `t[..., i, i]` (the `[:, ::D+1]` stride trick of sklearn's
`_compute_log_det_cholesky` on the flattened matrices) -/
def diagLast2 (t : T α) : T α := ⟨t.rshape.drop 1, fun idx => t.get (idx.getD 0 0 :: idx)⟩

/-- `np.broadcast_to(t, (*lead, *t.shape[-c:]))`: only leading axes are broadcast (the call site
asserts that the last `c` sizes agree); `lead` is the reversed list of the new leading sizes -/
def broadcastLead (c : Nat) (lead : List Nat) (t : T α) : T α :=
  ⟨t.rshape.take c ++ lead, fun idx => t.get (padTake 0 c idx ++ bidx (t.rshape.drop c) (idx.drop c))⟩

/-- `np.reshape(t, (-1, *t.shape[-c:]))`: all leading axes flattened into one (row-major) -/
def flattenLead (c : Nat) (t : T α) : T α :=
  ⟨t.rshape.take c ++ [prodList (t.rshape.drop c)],
   fun idx => t.get (padTake 0 c idx ++ unravel (t.rshape.drop c) (idx.getD c 0))⟩

/-- `np.reshape(t, (*lead, *t.shape[-c:]))` of a tensor with ONE leading axis (the reshape back) -/
def unflattenLead (c : Nat) (lead : List Nat) (t : T α) : T α :=
  ⟨t.rshape.take c ++ lead, fun idx => t.get (padTake 0 c idx ++ [ravel lead (idx.drop c)])⟩

/-- apply `g` to the last-`c`-axes slice of every leading index; `c'` = rank of `g`'s results
(how an external per-matrix routine such as sklearn's `_compute_precision_cholesky(·, 'full')`
acts on a stack; `oshape` = reversed core shape of its result) -/
def mapCore (c c' : Nat) (oshape : List Nat) (g : T α → T β) (t : T α) : T β :=
  ⟨oshape ++ t.rshape.drop c, fun idx => (g (fixLead t c (idx.drop c'))).get (padTake 0 c' idx)⟩


/-! ## Transcriptions of pb_bss functions (NumPy axis `-(k+1)` ↦ position `k`)

`c` below is the *core rank* of an argument: the number of trailing axes the function addresses;
everything before is a leading (frequency / batch / class) axis. -/

section transcriptions
variable [Add α] [Sub α] [Mul α] [Div α] [Neg α] [OfNat α 0] [OfNat α 1] [NatCast α] [Max α]
  [LT α] [DecidableLT α] [BEq α] [Transc α]

def absS (x : α) : α := if x < 0 then -x else x

/-- `pb_bss/distribution/mixture_model_utils.py: log_pdf_to_affiliation` — the shared posterior routine.
`weight` broadcast compatible (e.g. `(..., K, 1)`, `(K, 1)`), `log_pdf : (..., K, N)` (core rank 2),
`mask : (..., K, N)` given as 0/1 numbers, `clip = some eps` iff `affiliation_eps != 0`. -/
def logPdfToAffiliation (tiny : α) (weight logPdf : T α) (mask : Option (T α)) (clip : Option α) : T α :=
  -- affiliation = log_pdf - np.amax(log_pdf, axis=-2, keepdims=True)
  let a := zipWith (· - ·) logPdf (amaxAxisKeep 1 logPdf)
  -- np.exp(affiliation, out=affiliation)
  let a := map Transc.exp a
  -- affiliation *= weight
  let a := zipWith (· * ·) a weight
  -- affiliation *= source_activity_mask
  let a := match mask with
    | none => a
    | some m => zipWith (· * ·) a m
  -- denominator = np.maximum(np.sum(affiliation, axis=-2, keepdims=True), tiny)
  let den := map (fun x => max x tiny) (sumAxisKeep 1 a)
  -- affiliation /= denominator
  let a := zipWith (· / ·) a den
  -- np.clip(affiliation, eps, 1 - eps)
  match clip with
  | none => a
  | some e => map (fun x => if x < e then e else if (1 - e) < x then 1 - e else x) a

/-- `mixture_model_utils.py: estimate_mixture_weight` for `weight_constant_axis = (-1,)` (per-slice,
per-class weights; the branch every trainer uses by default).  `affiliation : (..., K, N)` (core rank 2),
`saliency : (..., N)` (core rank 1) or `None`; `eps = 1e-10`. -/
def estimateMixtureWeight (eps : α) (affiliation : T α) (saliency : Option (T α)) : T α :=
  match saliency with
  | none =>
    -- np.mean(affiliation, axis=weight_constant_axis, keepdims=True)
    meanAxisKeep 0 affiliation
  | some s =>
    -- masked_affiliation = affiliation * saliency[..., None, :]
    let masked := zipWith (· * ·) affiliation (expandDims 1 s)
    -- np.sum(masked_affiliation, axis=weight_constant_axis, keepdims=True)
    let sm := sumAxisKeep 0 masked
    -- _unit_norm(·, ord=1, axis=-2, eps=1e-10, eps_style='where'):
    --   norm = np.linalg.norm(signal, ord=1, axis=-2, keepdims=True); norm = np.where(norm == 0, eps, norm)
    let norm := sumAxisKeep 1 (map absS sm)
    let norm := map (fun x => if x == 0 then eps else x) norm
    -- signal / norm
    zipWith (· / ·) sm norm

/-- covariance types of `pb_bss/distribution/gaussian.py` -/
inductive CovType | full | diagonal | spherical
deriving DecidableEq, Repr

/-- `gaussian.py: GaussianTrainer._fit` — `y : (..., N, D)` (core rank 2), `saliency : (..., N)` (core
rank 1) or `None`.  Returns `(mean, covariance)` with core ranks `1` and `2 / 1 / 0`. -/
def gaussianFit (tiny : α) (ct : CovType) (y : T α) (saliency : Option (T α)) : T α × T α :=
  let dimension : Nat := y.rshape.getD 0 1        -- y.shape[-1]
  let nObs : Nat := y.rshape.getD 1 1             -- y.shape[-2]
  -- if saliency is None: denominator = np.array(y.shape[-2]); mean = np.einsum("...nd->...d", y)
  -- else: denominator = np.maximum(np.einsum("...n->...", saliency), tiny)
  --       mean = np.einsum("...n,...nd->...d", saliency, y)
  let denominator : T α := match saliency with
    | none => const [] (nObs : α)
    | some s => map (fun x => max x tiny) (sumAxis 0 s)
  let mean : T α := match saliency with
    | none => sumAxis 1 y
    | some s => sumAxis 1 (zipWith (· * ·) (expandDims 0 s) y)
  -- mean /= denominator[..., None]
  let mean := zipWith (· / ·) mean (expandDims 0 denominator)
  -- difference = y - mean[..., None, :]
  let difference := zipWith (· - ·) y (expandDims 1 mean)
  -- the saliency factor of the three-operand einsums: "...n," ++ operation
  let weighted : T α → T α := fun prod3 => match saliency with
    | none => prod3
    | some s => zipWith (· * ·) (expandDims 0 (expandDims 0 s)) prod3
  let weighted2 : T α → T α := fun prod2 => match saliency with
    | none => prod2
    | some s => zipWith (· * ·) (expandDims 0 s) prod2
  match ct with
  | .full =>
    -- "...nd,...nD->...dD"; denominator[..., None, None]
    let prod := zipWith (· * ·) (expandDims 0 difference) (expandDims 1 difference)   -- (..., n, d, D)
    let cov := sumAxis 2 (weighted prod)
    (mean, zipWith (· / ·) cov (expandDims 0 (expandDims 0 denominator)))
  | .diagonal =>
    -- "...nd,...nd->...d"; denominator[..., None]
    let prod := zipWith (· * ·) difference difference                                   -- (..., n, d)
    let cov := sumAxis 1 (weighted2 prod)
    (mean, zipWith (· / ·) cov (expandDims 0 denominator))
  | .spherical =>
    -- "...nd,...nd->..."; denominator = denominator * dimension
    let prod := zipWith (· * ·) difference difference
    let cov := sumAxis 0 (sumAxis 0 (weighted2 prod))
    (mean, zipWith (· / ·) cov (map (fun x => x * (dimension : α)) denominator))

/-- `- 1 / 2 * D * np.log(2 * np.pi) + log_det[..., None] - 1 / 2 * quad` (shared tail of the three `log_pdf`s) -/
def gaussLogPdfTail (log2pi : α) (dim : Nat) (logDet quad : T α) : T α :=
  let two : α := 1 + 1
  let c0 : α := -(1 : α) / two * (dim : α) * log2pi
  zipWith (· - ·) (map (fun x => c0 + x) (expandDims 0 logDet)) (map (fun q => (1 : α) / two * q) quad)

/-- `gaussian.py: Gaussian.log_pdf` — `mean : (..., D)`, `precision_cholesky : (..., D, D)`,
`log_det_precision_cholesky : (...)`, `y : (..., N, D)`; result `(..., N)`. -/
def gaussianLogPdf (log2pi : α) (mean pc logDet y : T α) : T α :=
  let dim : Nat := mean.rshape.getD 0 1
  -- difference = y - self.mean[..., None, :]
  let difference := zipWith (· - ·) y (expandDims 1 mean)
  -- white_x = np.einsum('...Dd,...nD->...nd', self.precision_cholesky, difference)
  let white := sumAxis 1 (zipWith (· * ·) (expandDims 2 pc) (expandDims 0 difference))   -- (..., n, D, d) summed over D
  -- np.einsum('...nd,...nd->...n', white_x, white_x)
  let quad := sumAxis 0 (zipWith (· * ·) white white)
  gaussLogPdfTail log2pi dim logDet quad

/-- `gaussian.py: DiagonalGaussian.log_pdf` — `precision_cholesky : (..., D)` -/
def diagonalGaussianLogPdf (log2pi : α) (mean pc logDet y : T α) : T α :=
  let dim : Nat := mean.rshape.getD 0 1
  let difference := zipWith (· - ·) y (expandDims 1 mean)
  -- white_x = np.einsum('...d,...nd->...nd', self.precision_cholesky, difference)
  let white := zipWith (· * ·) (expandDims 1 pc) difference
  let quad := sumAxis 0 (zipWith (· * ·) white white)
  gaussLogPdfTail log2pi dim logDet quad

/-- `gaussian.py: SphericalGaussian.log_pdf` — `precision_cholesky : (...)` -/
def sphericalGaussianLogPdf (log2pi : α) (mean pc logDet y : T α) : T α :=
  let dim : Nat := mean.rshape.getD 0 1
  let difference := zipWith (· - ·) y (expandDims 1 mean)
  -- white_x = np.einsum('...,...nd->...nd', self.precision_cholesky, difference)
  let white := zipWith (· * ·) (expandDims 0 (expandDims 0 pc)) difference
  let quad := sumAxis 0 (zipWith (· * ·) white white)
  gaussLogPdfTail log2pi dim logDet quad

/-- `DiagonalGaussian.__post_init__`: `c = np.reshape(covariance, (-1, D))`,
`pc = 1 / np.sqrt(c)` (sklearn `_compute_precision_cholesky(c, 'diag')`),
`precision_cholesky = np.reshape(pc, covariance.shape)`,
`log_det_precision_cholesky = np.reshape(np.sum(np.log(pc), axis=1), covariance.shape[:-1])`
(sklearn `_compute_log_det_cholesky(pc, 'diag', D)`).  Returns `(precision_cholesky, log_det)`. -/
def diagonalPostInit (covariance : T α) : T α × T α :=
  let lead := covariance.rshape.drop 1
  let c := flattenLead 1 covariance
  let pc := map (fun x => (1 : α) / Transc.sqrt x) c
  (unflattenLead 1 lead pc, unflattenLead 0 lead (sumAxis 0 (map Transc.log pc)))

/-- the same WITHOUT the reshape of the log-determinant (the code before commit eb73118) -/
def diagonalPostInitNoReshape (covariance : T α) : T α × T α :=
  let lead := covariance.rshape.drop 1
  let c := flattenLead 1 covariance
  let pc := map (fun x => (1 : α) / Transc.sqrt x) c
  (unflattenLead 1 lead pc, sumAxis 0 (map Transc.log pc))

/-- `SphericalGaussian.__post_init__`: `c = np.reshape(covariance, (-1,))`, `pc = 1 / np.sqrt(c)`,
`log_det = D * np.log(pc)` (sklearn `'spherical'`), both reshaped to `covariance.shape`. -/
def sphericalPostInit (dim : Nat) (covariance : T α) : T α × T α :=
  let lead := covariance.rshape
  let c := flattenLead 0 covariance
  let pc := map (fun x => (1 : α) / Transc.sqrt x) c
  (unflattenLead 0 lead pc, unflattenLead 0 lead (map (fun x => (dim : α) * Transc.log x) pc))

/-- `Gaussian.__post_init__` around the per-matrix external `chol` (sklearn
`_compute_precision_cholesky(·, 'full')` applied to each `(D, D)` matrix of the flattened stack):
`c = np.reshape(covariance, (-1, D, D))`, `pc = chol(c)`, `np.reshape(pc, covariance.shape)`;
`log_det = np.sum(np.log(pc.reshape(n, -1)[:, ::D+1]), 1)` (the diagonal), reshaped to `covariance.shape[:-2]`. -/
def fullPostInit (chol : T α → T α) (covariance : T α) : T α × T α :=
  let lead := covariance.rshape.drop 2
  let dd := covariance.rshape.take 2
  let c := flattenLead 2 covariance
  let pc := mapCore 2 2 dd chol c
  (unflattenLead 2 lead pc, unflattenLead 0 lead (sumAxis 0 (map Transc.log (diagLast2 pc))))

end transcriptions

end PbBss.Tensor

import PbBss.Model.Basic
/-! # Reversed-index tensor layer (DESIGN.md 2.2) — core Lean only

A tensor is `⟨rshape, get⟩`: `rshape` is the NumPy shape REVERSED (head = size of the last axis) and
`get` takes the REVERSED multi-index (head = index along the last axis).  A NumPy operation addressed
by a negative axis `-(k+1)` touches position `k` of these lists, whatever the number of leading axes;
an operation addressed by a non-negative axis has to be defined through `rshape.length`.

All index manipulations are total and "pad-aware" (`padTake`, `setAt`, `insertAt` extend a too short
list with a default) so that the commutation laws with `fixLead` are plain equalities of tensors.

Supersedes the design spike `PbBss/Model/RT.lean` (left untouched). -/
namespace PbBss.Tensor

/-! ## index lists -/

/-- the first `n` entries of `l`, missing entries replaced by `d` (length exactly `n`) -/
def padTake (d : Nat) (n : Nat) (l : List Nat) : List Nat := (List.range n).map fun i => l.getD i d

/-- pad-aware `l.set k x` -/
def setAt (d : Nat) (l : List Nat) (k x : Nat) : List Nat := padTake d k l ++ x :: l.drop (k + 1)

/-- insert `x` so that it ends up at position `k` -/
def insertAt (d : Nat) (l : List Nat) (k x : Nat) : List Nat := padTake d k l ++ x :: l.drop k

/-- remove position `k` (pad-aware like the others: a list shorter than `k` is first extended) -/
def eraseAt (d : Nat) (l : List Nat) (k : Nat) : List Nat := padTake d k l ++ l.drop (k + 1)

/-- exchange positions `i` and `j` -/
def swapAt (d : Nat) (l : List Nat) (i j : Nat) : List Nat :=
  (List.range (max l.length (max i j + 1))).map fun p =>
    if p = i then l.getD j d else if p = j then l.getD i d else l.getD p d

/-- NumPy broadcasting of an index against a shape: entries beyond the rank are dropped, entries on
axes of size 1 read position 0 (length exactly `shape.length`) -/
def bidx (shape idx : List Nat) : List Nat :=
  (List.range shape.length).map fun i => if shape.getD i 1 = 1 then 0 else idx.getD i 0

/-- NumPy broadcast shape (reversed shapes are aligned at the head); no compatibility check:
a size-1 (or missing) axis takes the size of the other operand -/
def bshape (a b : List Nat) : List Nat :=
  (List.range (max a.length b.length)).map fun i => if a.getD i 1 = 1 then b.getD i 1 else a.getD i 1

def prodList (l : List Nat) : Nat := l.foldl (· * ·) 1

/-- reversed multi-index of the row-major offset `o` in the reversed shape `s` (`np.unravel_index`);
the head (last axis) varies fastest -/
def unravel : List Nat → Nat → List Nat
  | [], _ => []
  | d :: s, o => (o % d) :: unravel s (o / d)

/-- row-major offset of a reversed multi-index (`np.ravel_multi_index` with `mode='wrap'`: an index is
taken modulo the size of its axis, so the offset of an out-of-range index is that of a definite in-range
one; on valid indices this is the plain row-major offset) -/
def ravel : List Nat → List Nat → Nat
  | [], _ => 0
  | d :: s, idx => idx.getD 0 0 % d + d * ravel s (idx.drop 1)

/-- the index `ravel` actually addresses: every entry modulo the size of its axis -/
def modnorm : List Nat → List Nat → List Nat
  | [], _ => []
  | d :: s, idx => (idx.getD 0 0 % d) :: modnorm s (idx.drop 1)

/-- the leading index `lead`, read with NumPy broadcasting against the (reversed) leading sizes `dims`,
is in range: on every leading axis that is not a singleton the index is below the size -/
def ValidLead (dims lead : List Nat) : Prop :=
  ∀ i, i < dims.length → dims.getD i 1 ≠ 1 → lead.getD i 0 < dims.getD i 1

/-- executable form of `ValidLead` -/
def validLeadB (dims lead : List Nat) : Bool :=
  (List.range dims.length).all fun i => dims.getD i 1 == 1 || decide (lead.getD i 0 < dims.getD i 1)

/-! ## tensors -/

structure T (α : Type) where
  rshape : List Nat          -- reversed shape: head = size of the last axis
  get : List Nat → α         -- reversed multi-index

variable {α β γ : Type}

def T.rank (t : T α) : Nat := t.rshape.length

/-- Fix the leading (NumPy) axes and keep the last `c` axes free: `t[lead]` for `lead` given in
reversed order (head = index of axis `-(c+1)`).  Leading axes of size 1 are read at 0 whatever `lead`
says (NumPy broadcasting: a singleton leading axis behaves as if repeated). -/
def fixLead (t : T α) (c : Nat) (lead : List Nat) : T α :=
  ⟨t.rshape.take c, fun core => t.get (padTake 0 c core ++ bidx (t.rshape.drop c) lead)⟩

/-! ## folds over one axis -/

/-- `f 0 + f 1 + … + f (n-1)` from `0`, left to right -/
def sumN [Add α] [OfNat α 0] (n : Nat) (f : Nat → α) : α :=
  (List.range n).foldl (fun acc j => acc + f j) 0

/-- `f 0 * f 1 * … * f (n-1)` from `1` -/
def prodN [Mul α] [OfNat α 1] (n : Nat) (f : Nat → α) : α :=
  (List.range n).foldl (fun acc j => acc * f j) 1

/-- maximum of `f 0 … f (n-1)` (`f 0` when `n ≤ 1`) -/
def maxN [Max α] (n : Nat) (f : Nat → α) : α :=
  (List.range (n - 1)).foldl (fun acc j => max acc (f (j + 1))) (f 0)

/-- mean: sum divided by the count -/
def meanN [Add α] [Div α] [OfNat α 0] [NatCast α] (n : Nat) (f : Nat → α) : α :=
  sumN n f / (n : α)

/-! ## primitives addressed from the END of the shape (`k = 0` is NumPy axis `-1`) -/

/-- elementwise unary operation (also: operations with a Python scalar) -/
def map (f : α → β) (t : T α) : T β := ⟨t.rshape, fun idx => f (t.get idx)⟩

/-- a constant tensor of a given (reversed) shape: `np.ones(shape)`, `np.array(x)` for `rshape = []` -/
def const (rshape : List Nat) (x : α) : T α := ⟨rshape, fun _ => x⟩

/-- elementwise binary operation with NumPy broadcasting -/
def zipWith (f : α → β → γ) (a : T α) (b : T β) : T γ :=
  ⟨bshape a.rshape b.rshape, fun idx => f (a.get (bidx a.rshape idx)) (b.get (bidx b.rshape idx))⟩

/-- reduction over axis `-(k+1)` with `keepdims=True`; `r n f` reduces `f 0 … f (n-1)` -/
def reduceKeep (k : Nat) (r : Nat → (Nat → α) → β) (t : T α) : T β :=
  ⟨setAt 1 t.rshape k 1, fun idx => r (t.rshape.getD k 1) fun j => t.get (setAt 0 idx k j)⟩

/-- reduction over axis `-(k+1)` with `keepdims=False` (the axis disappears) -/
def reduceDrop (k : Nat) (r : Nat → (Nat → α) → β) (t : T α) : T β :=
  ⟨eraseAt 1 t.rshape k, fun idx => r (t.rshape.getD k 1) fun j => t.get (insertAt 0 idx k j)⟩

/-- `np.sum(t, axis=-(k+1), keepdims=True)` -/
def sumAxisKeep [Add α] [OfNat α 0] (k : Nat) (t : T α) : T α := reduceKeep k sumN t
/-- `np.sum(t, axis=-(k+1))` -/
def sumAxis [Add α] [OfNat α 0] (k : Nat) (t : T α) : T α := reduceDrop k sumN t
/-- `np.mean(t, axis=-(k+1), keepdims=True)` -/
def meanAxisKeep [Add α] [Div α] [OfNat α 0] [NatCast α] (k : Nat) (t : T α) : T α := reduceKeep k meanN t
/-- `np.mean(t, axis=-(k+1))` -/
def meanAxis [Add α] [Div α] [OfNat α 0] [NatCast α] (k : Nat) (t : T α) : T α := reduceDrop k meanN t
/-- `np.amax(t, axis=-(k+1), keepdims=True)` -/
def amaxAxisKeep [Max α] (k : Nat) (t : T α) : T α := reduceKeep k maxN t
/-- `np.amax(t, axis=-(k+1))` -/
def amaxAxis [Max α] (k : Nat) (t : T α) : T α := reduceDrop k maxN t

/-- running reduction along axis `-(k+1)`: entry `i` holds `r (i+1) (entries 0..i)` -/
def scanAxis (k : Nat) (r : Nat → (Nat → α) → β) (t : T α) : T β :=
  ⟨t.rshape, fun idx => r (idx.getD k 0 + 1) fun j => t.get (setAt 0 idx k j)⟩

/-- `np.cumprod(t, axis=-(k+1))` -/
def cumprodFromEnd [Mul α] [OfNat α 1] (k : Nat) (t : T α) : T α := scanAxis k prodN t
/-- `np.cumsum(t, axis=-(k+1))` -/
def cumsumFromEnd [Add α] [OfNat α 0] (k : Nat) (t : T α) : T α := scanAxis k sumN t

/-- `np.cumprod(t, axis=a)` with a NON-negative axis: its position from the end depends on the rank -/
def cumprodFromStart [Mul α] [OfNat α 1] (a : Nat) (t : T α) : T α :=
  cumprodFromEnd (t.rshape.length - 1 - a) t

/-- `np.expand_dims(t, -(k+1))`, i.e. `t[..., None, :, …, :]` with `k` trailing colons -/
def expandDims (k : Nat) (t : T α) : T α :=
  ⟨insertAt 1 t.rshape k 1, fun idx => t.get (eraseAt 0 idx k)⟩

/-- `np.swapaxes(t, -(i+1), -(j+1))` -/
def swapaxes (i j : Nat) (t : T α) : T α :=
  ⟨swapAt 1 t.rshape i j, fun idx => t.get (swapAt 0 idx i j)⟩

/-- diagonal of the last two axes: `t[..., i, i]` (the `[:, ::D+1]` stride trick of sklearn's
`_compute_log_det_cholesky` on the flattened matrices) -/
def diagLast2 (t : T α) : T α := ⟨t.rshape.drop 1, fun idx => t.get (idx.getD 0 0 :: idx)⟩

/-- `np.broadcast_to(t, (*lead, *t.shape[-c:]))`: only leading axes are broadcast (the call site
asserts that the last `c` sizes agree); `lead` is the reversed list of the new leading sizes -/
def broadcastLead (c : Nat) (lead : List Nat) (t : T α) : T α :=
  ⟨t.rshape.take c ++ lead, fun idx => t.get (padTake 0 c idx ++ bidx (t.rshape.drop c) (idx.drop c))⟩

/-- `np.reshape(t, (-1, *t.shape[-c:]))`: all leading axes flattened into one (row-major) -/
def flattenLead (c : Nat) (t : T α) : T α :=
  ⟨t.rshape.take c ++ [prodList (t.rshape.drop c)],
   fun idx => t.get (padTake 0 c idx ++ unravel (t.rshape.drop c) (idx.getD c 0))⟩

/-- `np.reshape(t, (*lead, *t.shape[-c:]))` of a tensor with ONE leading axis (the reshape back) -/
def unflattenLead (c : Nat) (lead : List Nat) (t : T α) : T α :=
  ⟨t.rshape.take c ++ lead, fun idx => t.get (padTake 0 c idx ++ [ravel lead (idx.drop c)])⟩

/-- apply `g` to the last-`c`-axes slice of every leading index; `c'` = rank of `g`'s results
(how an external per-matrix routine such as sklearn's `_compute_precision_cholesky(·, 'full')`
acts on a stack; `oshape` = reversed core shape of its result) -/
def mapCore (c c' : Nat) (oshape : List Nat) (g : T α → T β) (t : T α) : T β :=
  ⟨oshape ++ t.rshape.drop c, fun idx => (g (fixLead t c (idx.drop c'))).get (padTake 0 c' idx)⟩


/-! ## Transcriptions of pb_bss functions (NumPy axis `-(k+1)` ↦ position `k`)

`c` below is the *core rank* of an argument: the number of trailing axes the function addresses;
everything before is a leading (frequency / batch / class) axis. -/

section transcriptions
variable [Add α] [Sub α] [Mul α] [Div α] [Neg α] [OfNat α 0] [OfNat α 1] [NatCast α] [Max α]
  [LT α] [DecidableLT α] [BEq α] [Transc α]

def absS (x : α) : α := if x < 0 then -x else x

/-- `pb_bss/distribution/mixture_model_utils.py: log_pdf_to_affiliation` — the shared posterior routine.
`weight` broadcast compatible (e.g. `(..., K, 1)`, `(K, 1)`), `log_pdf : (..., K, N)` (core rank 2),
`mask : (..., K, N)` given as 0/1 numbers, `clip = some eps` iff `affiliation_eps != 0`. -/
def logPdfToAffiliation (tiny : α) (weight logPdf : T α) (mask : Option (T α)) (clip : Option α) : T α :=
  -- affiliation = log_pdf - np.amax(log_pdf, axis=-2, keepdims=True)
  let a := zipWith (· - ·) logPdf (amaxAxisKeep 1 logPdf)
  -- np.exp(affiliation, out=affiliation)
  let a := map Transc.exp a
  -- affiliation *= weight
  let a := zipWith (· * ·) a weight
  -- affiliation *= source_activity_mask
  let a := match mask with
    | none => a
    | some m => zipWith (· * ·) a m
  -- denominator = np.maximum(np.sum(affiliation, axis=-2, keepdims=True), tiny)
  let den := map (fun x => max x tiny) (sumAxisKeep 1 a)
  -- affiliation /= denominator
  let a := zipWith (· / ·) a den
  -- np.clip(affiliation, eps, 1 - eps)
  match clip with
  | none => a
  | some e => map (fun x => if x < e then e else if (1 - e) < x then 1 - e else x) a

/-- `mixture_model_utils.py: estimate_mixture_weight` for `weight_constant_axis = (-1,)` (per-slice,
per-class weights; the branch every trainer uses by default).  `affiliation : (..., K, N)` (core rank 2),
`saliency : (..., N)` (core rank 1) or `None`; `eps = 1e-10`. -/
def estimateMixtureWeight (eps : α) (affiliation : T α) (saliency : Option (T α)) : T α :=
  match saliency with
  | none =>
    -- np.mean(affiliation, axis=weight_constant_axis, keepdims=True)
    meanAxisKeep 0 affiliation
  | some s =>
    -- masked_affiliation = affiliation * saliency[..., None, :]
    let masked := zipWith (· * ·) affiliation (expandDims 1 s)
    -- np.sum(masked_affiliation, axis=weight_constant_axis, keepdims=True)
    let sm := sumAxisKeep 0 masked
    -- _unit_norm(·, ord=1, axis=-2, eps=1e-10, eps_style='where'):
    --   norm = np.linalg.norm(signal, ord=1, axis=-2, keepdims=True); norm = np.where(norm == 0, eps, norm)
    let norm := sumAxisKeep 1 (map absS sm)
    let norm := map (fun x => if x == 0 then eps else x) norm
    -- signal / norm      (the later `if -2 in [...]` branch is not taken for weight_constant_axis = (-1,))
    zipWith (· / ·) sm norm

/-- covariance types of `pb_bss/distribution/gaussian.py` -/
inductive CovType | full | diagonal | spherical
deriving DecidableEq, Repr

/-- `gaussian.py: GaussianTrainer._fit` — `y : (..., N, D)` (core rank 2), `saliency : (..., N)` (core
rank 1) or `None`.  Returns `(mean, covariance)` with core ranks `1` and `2 / 1 / 0`. -/
def gaussianFit (tiny : α) (ct : CovType) (y : T α) (saliency : Option (T α)) : T α × T α :=
  let dimension : Nat := y.rshape.getD 0 1        -- y.shape[-1]
  let nObs : Nat := y.rshape.getD 1 1             -- y.shape[-2]
  -- if saliency is None: denominator = np.array(y.shape[-2]); mean = np.einsum("...nd->...d", y)
  -- else: denominator = np.maximum(np.einsum("...n->...", saliency), tiny)
  --       mean = np.einsum("...n,...nd->...d", saliency, y)
  let denominator : T α := match saliency with
    | none => const [] (nObs : α)
    | some s => map (fun x => max x tiny) (sumAxis 0 s)
  let mean : T α := match saliency with
    | none => sumAxis 1 y
    | some s => sumAxis 1 (zipWith (· * ·) (expandDims 0 s) y)
  -- mean /= denominator[..., None]
  let mean := zipWith (· / ·) mean (expandDims 0 denominator)
  -- difference = y - mean[..., None, :]
  let difference := zipWith (· - ·) y (expandDims 1 mean)
  -- the saliency factor of the three-operand einsums: "...n," ++ operation
  let weighted : T α → T α := fun prod3 => match saliency with
    | none => prod3
    | some s => zipWith (· * ·) (expandDims 0 (expandDims 0 s)) prod3
  let weighted2 : T α → T α := fun prod2 => match saliency with
    | none => prod2
    | some s => zipWith (· * ·) (expandDims 0 s) prod2
  match ct with
  | .full =>
    -- "...nd,...nD->...dD"; denominator[..., None, None]
    let prod := zipWith (· * ·) (expandDims 0 difference) (expandDims 1 difference)   -- (..., n, d, D)
    let cov := sumAxis 2 (weighted prod)
    (mean, zipWith (· / ·) cov (expandDims 0 (expandDims 0 denominator)))
  | .diagonal =>
    -- "...nd,...nd->...d"; denominator[..., None]
    let prod := zipWith (· * ·) difference difference                                   -- (..., n, d)
    let cov := sumAxis 1 (weighted2 prod)
    (mean, zipWith (· / ·) cov (expandDims 0 denominator))
  | .spherical =>
    -- "...nd,...nd->..."; denominator = denominator * dimension
    let prod := zipWith (· * ·) difference difference
    let cov := sumAxis 0 (sumAxis 0 (weighted2 prod))
    (mean, zipWith (· / ·) cov (map (fun x => x * (dimension : α)) denominator))

/-- `- 1 / 2 * D * np.log(2 * np.pi) + log_det[..., None] - 1 / 2 * quad` (shared tail of the three `log_pdf`s) -/
def gaussLogPdfTail (log2pi : α) (dim : Nat) (logDet quad : T α) : T α :=
  let two : α := 1 + 1
  let c0 : α := -(1 : α) / two * (dim : α) * log2pi
  zipWith (· - ·) (map (fun x => c0 + x) (expandDims 0 logDet)) (map (fun q => (1 : α) / two * q) quad)

/-- `gaussian.py: Gaussian.log_pdf` — `mean : (..., D)`, `precision_cholesky : (..., D, D)`,
`log_det_precision_cholesky : (...)`, `y : (..., N, D)`; result `(..., N)`. -/
def gaussianLogPdf (log2pi : α) (mean pc logDet y : T α) : T α :=
  let dim : Nat := mean.rshape.getD 0 1
  -- difference = y - self.mean[..., None, :]
  let difference := zipWith (· - ·) y (expandDims 1 mean)
  -- white_x = np.einsum('...Dd,...nD->...nd', self.precision_cholesky, difference)
  let white := sumAxis 1 (zipWith (· * ·) (expandDims 2 pc) (expandDims 0 difference))   -- (..., n, D, d) summed over D
  -- np.einsum('...nd,...nd->...n', white_x, white_x)
  let quad := sumAxis 0 (zipWith (· * ·) white white)
  gaussLogPdfTail log2pi dim logDet quad

/-- `gaussian.py: DiagonalGaussian.log_pdf` — `precision_cholesky : (..., D)` -/
def diagonalGaussianLogPdf (log2pi : α) (mean pc logDet y : T α) : T α :=
  let dim : Nat := mean.rshape.getD 0 1
  let difference := zipWith (· - ·) y (expandDims 1 mean)
  -- white_x = np.einsum('...d,...nd->...nd', self.precision_cholesky, difference)
  let white := zipWith (· * ·) (expandDims 1 pc) difference
  let quad := sumAxis 0 (zipWith (· * ·) white white)
  gaussLogPdfTail log2pi dim logDet quad

/-- `gaussian.py: SphericalGaussian.log_pdf` — `precision_cholesky : (...)` -/
def sphericalGaussianLogPdf (log2pi : α) (mean pc logDet y : T α) : T α :=
  let dim : Nat := mean.rshape.getD 0 1
  let difference := zipWith (· - ·) y (expandDims 1 mean)
  -- white_x = np.einsum('...,...nd->...nd', self.precision_cholesky, difference)
  let white := zipWith (· * ·) (expandDims 0 (expandDims 0 pc)) difference
  let quad := sumAxis 0 (zipWith (· * ·) white white)
  gaussLogPdfTail log2pi dim logDet quad

/-- `DiagonalGaussian.__post_init__`: `c = np.reshape(covariance, (-1, D))`,
`pc = 1 / np.sqrt(c)` (sklearn `_compute_precision_cholesky(c, 'diag')`),
`precision_cholesky = np.reshape(pc, covariance.shape)`,
`log_det_precision_cholesky = np.reshape(np.sum(np.log(pc), axis=1), covariance.shape[:-1])`
(sklearn `_compute_log_det_cholesky(pc, 'diag', D)`).  Returns `(precision_cholesky, log_det)`. -/
def diagonalPostInit (covariance : T α) : T α × T α :=
  let lead := covariance.rshape.drop 1
  let c := flattenLead 1 covariance
  let pc := map (fun x => (1 : α) / Transc.sqrt x) c
  (unflattenLead 1 lead pc, unflattenLead 0 lead (sumAxis 0 (map Transc.log pc)))

/-- the same WITHOUT the reshape of the log-determinant (the code before commit eb73118) -/
def diagonalPostInitNoReshape (covariance : T α) : T α × T α :=
  let lead := covariance.rshape.drop 1
  let c := flattenLead 1 covariance
  let pc := map (fun x => (1 : α) / Transc.sqrt x) c
  (unflattenLead 1 lead pc, sumAxis 0 (map Transc.log pc))

/-- what `DiagonalGaussian.__post_init__` computes for ONE model (no leading axes, no reshapes):
`pc = 1 / sqrt(covariance)`, `log_det = sum(log(pc))` -/
def diagonalPostInitCore (cov : T α) : T α × T α :=
  let pc := map (fun x => (1 : α) / Transc.sqrt x) cov
  (pc, sumAxis 0 (map Transc.log pc))

/-- what `SphericalGaussian.__post_init__` computes for ONE model -/
def sphericalPostInitCore (dim : Nat) (cov : T α) : T α × T α :=
  let pc := map (fun x => (1 : α) / Transc.sqrt x) cov
  (pc, map (fun x => (dim : α) * Transc.log x) pc)

/-- what `Gaussian.__post_init__` computes for ONE `(D, D)` covariance: the external factor and the
sum of the logs of its diagonal -/
def fullPostInitCore (chol : T α → T α) (cov : T α) : T α × T α :=
  let pc := mapCore 2 2 (cov.rshape.take 2) chol cov
  (pc, sumAxis 0 (map Transc.log (diagLast2 pc)))

/-- `SphericalGaussian.__post_init__`: `c = np.reshape(covariance, (-1,))`, `pc = 1 / np.sqrt(c)`,
`log_det = D * np.log(pc)` (sklearn `'spherical'`), both reshaped to `covariance.shape`. -/
def sphericalPostInit (dim : Nat) (covariance : T α) : T α × T α :=
  let lead := covariance.rshape
  let c := flattenLead 0 covariance
  let pc := map (fun x => (1 : α) / Transc.sqrt x) c
  (unflattenLead 0 lead pc, unflattenLead 0 lead (map (fun x => (dim : α) * Transc.log x) pc))

/-- `Gaussian.__post_init__` around the per-matrix external `chol` (sklearn
`_compute_precision_cholesky(·, 'full')` applied to each `(D, D)` matrix of the flattened stack):
`c = np.reshape(covariance, (-1, D, D))`, `pc = chol(c)`, `np.reshape(pc, covariance.shape)`;
`log_det = np.sum(np.log(pc.reshape(n, -1)[:, ::D+1]), 1)` (the diagonal), reshaped to `covariance.shape[:-2]`. -/
def fullPostInit (chol : T α → T α) (covariance : T α) : T α × T α :=
  let lead := covariance.rshape.drop 2
  let dd := covariance.rshape.take 2
  let c := flattenLead 2 covariance
  let pc := mapCore 2 2 dd chol c
  (unflattenLead 2 lead pc, unflattenLead 0 lead (sumAxis 0 (map Transc.log (diagLast2 pc))))

/-! ### the Gaussian mixture model: `gmm.py` -/

/-- fields of `GMM` (`weight`, and the `gaussian` with its derived fields) -/
structure Gmm (α : Type) where
  weight : T α      -- (..., K, 1)
  mean : T α        -- (..., K, D)
  cov : T α         -- (..., K, D, D) / (..., K, D) / (..., K)
  pc : T α          -- precision_cholesky, shape of `cov`
  logDet : T α      -- log_det_precision_cholesky, (..., K)

/-- `lead` is a valid leading index of a stacked covariance field whose last `r` axes belong to one
covariance and whose axis before them is the class axis: the field has these `r + 1` axes, none of the
flattened axes is empty, and `lead` is in range on every non-singleton leading axis -/
def GoodLead (r : Nat) (cov : T α) (lead : List Nat) : Prop :=
  r + 1 ≤ cov.rank ∧ (∀ d, d ∈ cov.rshape.drop r → 0 < d) ∧ ValidLead (cov.rshape.drop (r + 1)) lead

/-- executable form of `GoodLead` (a statement about shapes only) -/
def goodLeadB (r : Nat) (cov : T α) (lead : List Nat) : Bool :=
  (decide (r + 1 ≤ cov.rank) && (cov.rshape.drop r).all fun d => decide (0 < d)) &&
    validLeadB (cov.rshape.drop (r + 1)) lead

/-- `__post_init__` of the model class selected by `covariance_type` -/
def gaussPostInit (ct : CovType) (chol : T α → T α) (dim : Nat) (cov : T α) : T α × T α :=
  match ct with
  | .full => fullPostInit chol cov
  | .diagonal => diagonalPostInit cov
  | .spherical => sphericalPostInit dim cov

/-- `log_pdf` of the model class selected by `covariance_type` -/
def gaussLogPdfOf (ct : CovType) (log2pi : α) (mean pc logDet y : T α) : T α :=
  match ct with
  | .full => gaussianLogPdf log2pi mean pc logDet y
  | .diagonal => diagonalGaussianLogPdf log2pi mean pc logDet y
  | .spherical => sphericalGaussianLogPdf log2pi mean pc logDet y

/-- core rank of the covariance field of ONE Gaussian per covariance type -/
def covRank : CovType → Nat
  | .full => 2
  | .diagonal => 1
  | .spherical => 0

/-- `GMMTrainer._m_step` (`fixed_covariance=None`): `y : (..., N, D)`, `affiliation : (..., K, N)`,
`saliency : (..., N)` (`fit` replaces `None` by ones) -/
def gmmMStep (tiny eps : α) (ct : CovType) (chol : T α → T α) (y affiliation saliency : T α) : Gmm α :=
  -- weight = estimate_mixture_weight(affiliation=affiliation, saliency=saliency, weight_constant_axis=(-1,))
  let weight := estimateMixtureWeight eps affiliation (some saliency)
  -- gaussian = GaussianTrainer()._fit(y=x[..., None, :, :], saliency=affiliation * saliency[..., None, :], covariance_type)
  let fit := gaussianFit tiny ct (expandDims 2 y) (some (zipWith (· * ·) affiliation (expandDims 1 saliency)))
  let pi := gaussPostInit ct chol (y.rshape.getD 0 1) fit.2
  ⟨weight, fit.1, fit.2, pi.1, pi.2⟩

/-- `GMM.predict`: `log_pdf_to_affiliation(self.weight, self.gaussian.log_pdf(x[..., None, :, :]))` -/
def gmmPredict (tiny log2pi : α) (ct : CovType) (m : Gmm α) (y : T α) : T α :=
  logPdfToAffiliation tiny m.weight (gaussLogPdfOf ct log2pi m.mean m.pc m.logDet (expandDims 2 y)) none none

/-- `GMMTrainer._fit` with `iterations = n + 1`: M-step from the initial affiliation, then alternately
`affiliation = model.predict(y)` and the M-step -/
def gmmFit (tiny eps log2pi : α) (ct : CovType) (chol : T α → T α) (y initialization saliency : T α) : Nat → Gmm α
  | 0 => gmmMStep tiny eps ct chol y initialization saliency
  | n + 1 =>
    gmmMStep tiny eps ct chol y
      (gmmPredict tiny log2pi ct (gmmFit tiny eps log2pi ct chol y initialization saliency n) y) saliency

/-- `np.linalg.norm(t, axis=-(k+1))` of a real tensor (`keepdims=False`) -/
def normAxis (k : Nat) (t : T α) : T α := reduceDrop k (fun n f => Transc.sqrt (sumN n fun j => f j * f j)) t
/-- `np.linalg.norm(t, axis=-(k+1), keepdims=True)` of a real tensor -/
def normAxisKeep (k : Nat) (t : T α) : T α := reduceKeep k (fun n f => Transc.sqrt (sumN n fun j => f j * f j)) t

/-- `von_mises_fisher.py: VonMisesFisherTrainer._fit` — `y : (..., N, D)` (unit norm, core rank 2),
`saliency : (..., N)` or `None`.  Returns `(mean, concentration)` with core ranks 1 and 0. -/
def vmfFit (tiny minC maxC : α) (y : T α) (saliency : Option (T α)) : T α × T α :=
  let dim : Nat := y.rshape.getD 0 1
  -- if saliency is None: saliency = np.ones(y.shape[:-1])
  let sal : T α := match saliency with
    | none => const (y.rshape.drop 1) 1
    | some s => s
  -- r = np.einsum("...n,...nd->...d", saliency, y)
  let r := sumAxis 1 (zipWith (· * ·) (expandDims 0 sal) y)
  -- norm = np.linalg.norm(r, axis=-1)
  let norm := normAxis 0 r
  -- mean = r / np.maximum(norm, tiny)[..., None]
  let mean := zipWith (· / ·) r (expandDims 0 (map (fun x => max x tiny) norm))
  -- r_bar = np.minimum(norm / np.sum(saliency, axis=-1), 1)
  let rBar := map (fun x => if 1 < x then 1 else x) (zipWith (· / ·) norm (sumAxis 0 sal))
  -- concentration = (r_bar * D - r_bar ** 3) / (1 - r_bar ** 2); np.clip(·, min, max)
  let conc := map (fun x => (x * (dim : α) - x * x * x) / (1 - x * x)) rBar
  let conc := map (fun x => if x < minC then minC else if maxC < x then maxC else x) conc
  (mean, conc)

/-- `VonMisesFisher.log_pdf` — `mean : (..., D)`, `concentration, log_norm : (...)` (`log_norm()` uses the
elementwise external `scipy.special.ive`; its values are an input), `y : (..., N, D)`; result `(..., N)` -/
def vmfLogPdf (tiny : α) (mean conc logNorm y : T α) : T α :=
  -- y = y / np.maximum(np.linalg.norm(y, axis=-1, keepdims=True), tiny)
  let y := zipWith (· / ·) y (map (fun x => max x tiny) (normAxisKeep 0 y))
  -- result = np.einsum("...d,...d", y, self.mean[..., None, :])
  let r := sumAxis 0 (zipWith (· * ·) y (expandDims 1 mean))
  -- result *= self.concentration[..., None]; result -= self.log_norm()[..., None]
  let r := zipWith (· * ·) r (expandDims 0 conc)
  zipWith (· - ·) r (expandDims 0 logNorm)

end transcriptions

/-! ### complex-valued models: `κ` is "complex over `α`" (`CxOps α κ`) -/
section complex
variable {κ : Type} [Add α] [Sub α] [Mul α] [Div α] [Neg α] [OfNat α 0] [OfNat α 1] [NatCast α] [Max α]
  [LT α] [DecidableLT α] [BEq α] [Transc α]
  [Add κ] [Sub κ] [Mul κ] [Div κ] [OfNat κ 0] [OfNat κ 1] [CxOps α κ]

def conjT (t : T κ) : T κ := map (CxOps.conj (α := α)) t
def reT (t : T κ) : T α := map (CxOps.re (β := κ)) t
def abs2S (z : κ) : α := CxOps.re z * CxOps.re z + CxOps.im z * CxOps.im z
def absC (z : κ) : α := Transc.sqrt (abs2S (α := α) z)
def scaleC (s : α) (z : κ) : κ := CxOps.ofReal s * z
def divR (z : κ) (s : α) : κ := z / CxOps.ofReal s

/-- scatter matrix of `ComplexWatsonTrainer._fit`, `ComplexBinghamTrainer._fit` (`floorDen = none`) and
`ComplexCircularSymmetricGaussianTrainer._fit` (`floorDen = some tiny`): `y : (..., N, D)` complex,
`saliency : (..., N)` real or `None`; result `(..., D, D)` -/
def scatter (floorDen : Option α) (y : T κ) (saliency : Option (T α)) : T κ :=
  let nObs : Nat := y.rshape.getD 1 1
  -- np.einsum("...nd,...nD->...dD", y, y.conj())  /  np.einsum("...n,...nd,...nD->...dD", saliency, y, y.conj())
  let prod := zipWith (· * ·) (expandDims 0 y) (expandDims 1 (conjT (α := α) y))            -- (..., n, d, D)
  match saliency with
  | none =>
    -- denominator = np.array(y.shape[-2])
    map (fun z => divR z (nObs : α)) (sumAxis 2 prod)
  | some s =>
    let cov := sumAxis 2 (zipWith (scaleC (α := α)) (expandDims 0 (expandDims 0 s)) prod)
    -- denominator = np.einsum("...n->...", saliency)[..., None, None]   (cgauss: np.maximum(·, tiny))
    let den := sumAxis 0 s
    let den := match floorDen with
      | none => den
      | some tiny => map (fun x => max x tiny) den
    zipWith (divR (α := α)) cov (expandDims 0 (expandDims 0 den))

/-- `ComplexWatson.log_pdf` — `mode : (..., D)` complex, `concentration, log_norm : (...)` real
(`log_norm` uses the elementwise external `hyp1f1`; values are an input), `y : (..., N, D)`; result `(..., N)` -/
def watsonLogPdf (mode : T κ) (conc logNorm : T α) (y : T κ) : T α :=
  -- result = np.einsum("...d,...d", y, self.mode[..., None, :].conj())
  let r := sumAxis 0 (zipWith (· * ·) y (conjT (α := α) (expandDims 1 mode)))
  -- result = result.real ** 2 + result.imag ** 2
  let r := map (abs2S (α := α)) r
  -- result *= self.concentration[..., None]; result -= self.log_norm()[..., None]
  zipWith (· - ·) (zipWith (· * ·) r (expandDims 0 conc)) (expandDims 0 logNorm)

/-- the `covariance` property of cACG / Bingham: `np.einsum('...wx,...x,...zx->...wz', U, λ, U.conj())` -/
def eigCovariance (vecs : T κ) (vals : T α) : T κ :=
  -- (..., w, z, x) summed over x
  sumAxis 0 (zipWith (· * ·) (zipWith (fun z (s : α) => scaleC s z) (expandDims 1 vecs) (expandDims 1 (expandDims 1 vals)))
    (expandDims 2 (conjT (α := α) vecs)))

/-- `ComplexBingham.log_pdf` — `covariance_eigenvectors : (..., D, D)`, `covariance_eigenvalues : (..., D)`,
`log_norm : (...)` (value of `self.log_norm()` passed in), `y : (..., N, D)`; result `(..., N)` -/
def binghamLogPdf (vecs : T κ) (vals logNorm : T α) (y : T κ) : T α :=
  let cov := eigCovariance vecs vals
  -- np.einsum("...td,...dD,...tD->...t", y.conj(), self.covariance, y)
  let yc := expandDims 0 (conjT (α := α) y)                                                   -- (..., t, d, 1)
  let q := sumAxis 0 (sumAxis 0 (zipWith (· * ·) (zipWith (· * ·) yc (expandDims 2 cov)) (expandDims 1 y)))
  -- result = result.real; result -= self.log_norm()[..., None]
  zipWith (· - ·) (reT q) (expandDims 0 logNorm)

/-- `complex_angular_central_gaussian.py: normalize_observation` — `_unit_norm(axis=-1, eps=tiny,
eps_style='where')` followed by `np.swapaxes(·, -2, -1)`: `(..., N, D) ↦ (..., D, N)` -/
def cacgNormalize (tiny : α) (y : T κ) : T κ :=
  -- norm = np.linalg.norm(signal, axis=-1, keepdims=True); norm = np.where(norm == 0, eps, norm)
  let norm : T α := reduceKeep 0 (fun n f => Transc.sqrt (sumN n fun j => abs2S (α := α) (f j))) y
  let norm := map (fun x => if x == 0 then tiny else x) norm
  swapaxes 0 1 (zipWith (divR (α := α)) y norm)

/-- the start value of `ComplexAngularCentralGaussianTrainer.fit`:
`quadratic_form = np.ones((*independent, N))` for `y : (..., N, D)` (commit cf5e8f1) -/
def cacgStartQuadraticForm (y : T κ) : T α := const (y.rshape.drop 1) 1

/-- `ComplexAngularCentralGaussianTrainer._fit` up to the eigen-decomposition: `y : (..., D, N)` (already
normalised and swapped), `saliency : (..., N)` or `None` (then `1`), `quadratic_form : (..., N)`;
result: the (hermitised) covariance `(..., D, D)` handed to `from_covariance` -/
def cacgFitCovariance (tiny : α) (hermitize : Bool) (y : T κ) (saliency : Option (T α)) (quadraticForm : T α) : T κ :=
  let dim : Nat := y.rshape.getD 1 1          -- D = y.shape[-2]
  let nObs : Nat := quadraticForm.rshape.getD 0 1
  let ten : α := ((10 : Nat) : α)
  -- quadratic_form = np.maximum(quadratic_form, 10 * tiny)
  let q := map (fun x => max x (ten * tiny)) quadraticForm
  -- (saliency / quadratic_form)
  let w : T α := match saliency with
    | none => map (fun x => (1 : α) / x) q
    | some s => zipWith (· / ·) s q
  -- covariance = D * np.einsum('...dn,...Dn,...n->...dD', y, y.conj(), saliency / quadratic_form)
  let prod := zipWith (· * ·) (expandDims 1 y) (expandDims 2 (conjT (α := α) y))             -- (..., d, D, n)
  let cov := sumAxis 0 (zipWith (fun z (s : α) => scaleC s z) prod (expandDims 1 (expandDims 1 w)))
  let cov := map (fun z => scaleC (dim : α) z) cov
  -- denominator: np.array(N) or np.einsum('...n->...', saliency)[..., None, None]; covariance /= np.maximum(denominator, tiny)
  let cov := match saliency with
    | none => map (fun z => divR z (max (nObs : α) tiny)) cov
    | some s => zipWith (divR (α := α)) cov (expandDims 0 (expandDims 0 (map (fun x => max x tiny) (sumAxis 0 s))))
  -- force_hermitian: (matrix + np.swapaxes(matrix.conj(), -1, -2)) / 2
  if hermitize then
    map (fun z => divR z ((1 : α) + 1)) (zipWith (· + ·) cov (swapaxes 0 1 (conjT (α := α) cov)))
  else cov

/-- eigenvalue post-processing of `ComplexAngularCentralGaussian.from_covariance` for
`covariance_norm='eigenvalue'`: `λ / max(amax(λ, axis=-1, keepdims=True), tiny)` then `max(·, floor)` -/
def cacgEigenvalueNorm (tiny floor : α) (vals : T α) : T α :=
  let v := zipWith (· / ·) vals (map (fun x => max x tiny) (amaxAxisKeep 0 vals))
  map (fun x => max x floor) v

/-- `ComplexAngularCentralGaussian._log_pdf` — `y : (..., D, T)` normalised, eigenvectors `(..., D, D)`,
eigenvalues `(..., D)`; returns `(log_pdf, quadratic_form)`, both `(..., T)` -/
def cacgLogPdf (tiny : α) (vecs : T κ) (vals : T α) (y : T κ) : T α × T α :=
  let dim : Nat := y.rshape.getD 1 1
  -- np.einsum('...dt,...de,...e,...ge,...gt->...t', y.conj(), U, 1 / λ, U.conj(), y)
  let a := sumAxis 2 (zipWith (· * ·) (expandDims 1 (conjT (α := α) y)) (expandDims 0 vecs))              -- (..., e, t)
  let b := sumAxis 2 (zipWith (· * ·) (expandDims 0 (conjT (α := α) vecs)) (expandDims 1 y))              -- (..., e, t)
  let inv := map (fun x => (1 : α) / x) vals
  let s := sumAxis 1 (zipWith (· * ·) (zipWith (fun z (x : α) => scaleC x z) a (expandDims 0 inv)) b)     -- (..., t)
  -- quadratic_form = np.maximum(np.abs(·), tiny)
  let q := map (fun z => max (absC (α := α) z) tiny) s
  -- log_pdf = -D * np.log(quadratic_form); log_pdf -= self.log_determinant[..., None]
  let logDet := sumAxis 0 (map Transc.log vals)
  (zipWith (· - ·) (map (fun x => -(dim : α) * Transc.log x) q) (expandDims 0 logDet), q)

end complex

end PbBss.Tensor

import PbBss.Model.Basic
/-! # Generic EM for the mixture models of `pb_bss.distribution` (core Lean only)

One scalar-generic definition of the EM loop shared by `CACGMMTrainer.fit`, `CWMMTrainer._fit`,
`GMMTrainer._fit` and `GCACGMMTrainer.fit`:

* a `Mixture` is ⟨weight, component parameters⟩; weights are indexed by class *and* observation, the
  weight-tying option (`weight_constant_axis`) says which observations share one weight vector;
* `eStep` = `log_pdf_to_affiliation` (`PbBss.affiliation`) per observation, together with the auxiliary
  quantity the M-step reuses (`eAux`: the cACG quadratic form `zᴴB⁻¹z` of the *previous* parameters);
* `mStep` = `estimate_mixture_weight` (`mWeight`) + the component trainer's `_fit` (`Family.mstep`);
* `fit n γ₀ = emStep^[n-1] (mStep γ₀)` — exactly the loop `for iteration in range(iterations)` of the
  trainers (first pass: M-step on the initial affiliations with quadratic form 1, later passes: E-step of
  the current model, then M-step);
* `logLik` = `Σ_n s_n log Σ_k π_k(n) exp(logPdf θ_k y_n)`; `logLikMethod` transcribes
  `CACGMM._log_likelihood` (`scipy.special.logsumexp(log_pdf, b=weight, axis=-2)` summed).

Observations are indexed by one flat index `n : Fin N` (all leading indices `f` and frames `t`
together); a leading axis is handled by `sliced` (independent component parameters per slice) and by
the group map of the tying option.

Component families that are executable here: spherical / diagonal Gaussian (`GaussianTrainer._fit`,
`SphericalGaussian.log_pdf`, `DiagonalGaussian.log_pdf`), complex Watson with the PCA, the spline and
the `hyp1f1` normaliser as externals, cACG with `eigh` as external.
Sources: `pb_bss/distribution/{cacgmm,cwmm,gmm,gcacgmm,gaussian,complex_watson,
complex_angular_central_gaussian,mixture_model_utils}.py`.

Everything that is stored in a model or reused is DATA (`Tab` = `Vector`), read back with `rd`:
compiled Lean re-evaluates a function-valued definition at every application. -/
namespace PbBss.Em

abbrev Tab (n : Nat) (β : Type) := Vector β n

/-- tabulate -/
def tab {β : Type} {n : Nat} (f : Fin n → β) : Tab n β := Vector.ofFn f
/-- read -/
def rd {β : Type} {n : Nat} (t : Tab n β) (i : Fin n) : β := t[i]

def tab2 {β : Type} {n m : Nat} (f : Fin n → Fin m → β) : Tab n (Tab m β) := tab fun i => tab (f i)
def rd2 {β : Type} {n m : Nat} (t : Tab n (Tab m β)) (i : Fin n) (j : Fin m) : β := rd (rd t i) j

@[simp] theorem rd_tab {β : Type} {n : Nat} (f : Fin n → β) (i : Fin n) : rd (tab f) i = f i := by
  simp [rd, tab]

@[simp] theorem rd2_tab2 {β : Type} {n m : Nat} (f : Fin n → Fin m → β) (i : Fin n) (j : Fin m) :
    rd2 (tab2 f) i j = f i j := by
  simp [rd2, tab2]

/-- `f` applied `n` times -/
def iter {β : Type} (f : β → β) : Nat → β → β
  | 0, x => x
  | n+1, x => iter f n (f x)

/-- mixture parameters: `weight[k][n]` = mixture weight of class `k` at observation `n`
(constant in `n` inside every tie group), `comp[k]` = parameters of component `k` -/
structure Mixture (Θ α : Type) (K N : Nat) where
  weight : Tab K (Tab N α)
  comp : Tab K Θ

def Mixture.w {Θ α : Type} {K N : Nat} (θ : Mixture Θ α K N) (k : Fin K) (n : Fin N) : α := rd2 θ.weight k n
def Mixture.c {Θ α : Type} {K N : Nat} (θ : Mixture Θ α K N) (k : Fin K) : Θ := rd θ.comp k

/-- a component family: log-density, the auxiliary quantity handed from the E-step to the next M-step
(1 for every family but cACG), and the weighted one-component fit `Trainer._fit(y, saliency = w, aux)` -/
structure Family (Θ Y α : Type) where
  logPdf : Θ → Y → α
  aux : Θ → Y → α
  mstep : (N : Nat) → (Fin N → α) → (Fin N → α) → (Fin N → Y) → Θ

/-- how the weight update normalises: `np.mean` (`estimate_mixture_weight`, saliency `None`),
`_unit_norm(sum, ord=1, axis=-2, eps=1e-10, eps_style='where')` (`estimate_mixture_weight`, saliency given), or
`sum / np.maximum(np.sum(sum, axis=-2), tiny)` (the inline update of `GCACGMMTrainer._m_step` / `VMFCACGMMTrainer._m_step`;
the floor is passed as `eps`) -/
inductive WeightRule | mean | unitNorm | tinyFloor
deriving DecidableEq, Repr

/-- weight tying: `uniform = true` is `weight_constant_axis = -2` (weights fixed to `1/K`); otherwise
observations with the same `grp` value share one weight vector (`(-1,)`: `grp` = leading index,
`(-3,)`: `grp` = frame index, `(-3,-1)`: one group) -/
structure Tying (N : Nat) where
  uniform : Bool
  G : Nat
  grp : Tab N (Fin G)

section generic
variable {Θ Y α : Type} [Add α] [Sub α] [Mul α] [Div α] [Neg α] [OfNat α 0] [OfNat α 1] [Max α]
  [LT α] [DecidableLT α] [NatCast α] [Transc α]

/-- E-step: posterior of class `k` at observation `n` (`log_pdf_to_affiliation`, no mask, no clipping) -/
def eStep {K N : Nat} (tiny : α) (fam : Family Θ Y α) (θ : Mixture Θ α (K+1) N) (y : Fin N → Y) :
    Fin (K+1) → Fin N → α :=
  fun k n => affiliation tiny (fun j => θ.w j n) (fun j => fam.logPdf (θ.c j) (y n)) k

/-- what the E-step hands to the M-step besides the posterior (cACG: `quadratic_form`) -/
def eAux {K N : Nat} (fam : Family Θ Y α) (θ : Mixture Θ α K N) (y : Fin N → Y) : Fin K → Fin N → α :=
  fun k n => fam.aux (θ.c k) (y n)

/-- sum of `c m` over the observations tied to group `g` -/
def groupSum {N G : Nat} (grp : Fin N → Fin G) (g : Fin G) (c : Fin N → α) : α :=
  vsum fun m => if grp m = g then c m else 0

def absα (x : α) : α := max x (-x)

/-- `estimate_mixture_weight(affiliation, saliency, weight_constant_axis)` for tie group `g`: the weight
vector shared by the observations of that group.  `γ` posterior, `s` saliency (all ones when the
code's saliency is `None`). -/
def groupWeight {K N G : Nat} (rule : WeightRule) (grp : Fin N → Fin G) (eps : α)
    (γ : Fin K → Fin N → α) (s : Fin N → α) (g : Fin G) : Fin K → α :=
  match rule with
  | .mean => fun k => groupSum grp g (γ k) / groupSum grp g (fun _ => (1 : α))
  | .unitNorm =>
      let num : Tab K α := tab fun j => groupSum grp g (fun m => γ j m * s m)
      let nrm : α := vsum fun j => absα (rd num j)
      let den : α := if 0 < nrm then nrm else if nrm < 0 then nrm else eps
      fun k => rd num k / den
  | .tinyFloor =>
      let num : Tab K α := tab fun j => groupSum grp g (fun m => γ j m * s m)
      let den : α := max (vsum fun j => rd num j) eps
      fun k => rd num k / den

/-- the weights broadcast back to every observation -/
def mWeight {K N : Nat} (rule : WeightRule) (tie : Tying N) (eps : α) (γ : Fin K → Fin N → α)
    (s : Fin N → α) : Tab K (Tab N α) :=
  if tie.uniform then tab2 fun _ _ => 1 / (K : α)
  else
    let perGroup : Tab tie.G (Tab K α) := tab fun g => tab (groupWeight rule (rd tie.grp) eps γ s g)
    tab2 fun k n => rd2 perGroup (rd tie.grp n) k

/-- M-step: new weights and, per class, the component fit with weights `γ k n * s n` -/
def mStep {K N : Nat} (fam : Family Θ Y α) (rule : WeightRule) (tie : Tying N) (eps : α) (s : Fin N → α)
    (y : Fin N → Y) (γ aux : Fin K → Fin N → α) : Mixture Θ α K N :=
  { weight := mWeight rule tie eps γ s
    comp := tab fun k => fam.mstep N (fun n => γ k n * s n) (aux k) y }

/-- one EM iteration from a model: `_predict` (tabulated) then `_m_step` -/
def emStep {K N : Nat} (tiny : α) (fam : Family Θ Y α) (rule : WeightRule) (tie : Tying N) (eps : α)
    (s : Fin N → α) (y : Fin N → Y) (θ : Mixture Θ α (K+1) N) : Mixture Θ α (K+1) N :=
  let γ := tab2 (eStep tiny fam θ y)
  let a := tab2 (eAux fam θ y)
  mStep fam rule tie eps s y (rd2 γ) (rd2 a)

/-- the model after `n ≥ 1` iterations of `Trainer.fit(initialization = γ₀)` (`n = 0` is read as 1) -/
def fit {K N : Nat} (tiny : α) (fam : Family Θ Y α) (rule : WeightRule) (tie : Tying N) (eps : α)
    (s : Fin N → α) (y : Fin N → Y) (n : Nat) (γ₀ : Fin (K+1) → Fin N → α) : Mixture Θ α (K+1) N :=
  iter (emStep tiny fam rule tie eps s y) (n - 1) (mStep fam rule tie eps s y γ₀ (fun _ _ => 1))

/-- saliency-weighted observed-data log-likelihood `Σ_n s_n log Σ_k π_k(n) p_k(y_n)` -/
def logLik {K N : Nat} (fam : Family Θ Y α) (s : Fin N → α) (θ : Mixture Θ α K N) (y : Fin N → Y) : α :=
  vsum fun n => s n * Transc.log (vsum fun k => θ.w k n * Transc.exp (fam.logPdf (θ.c k) (y n)))

/-- `CACGMM._log_likelihood`: `np.sum(logsumexp(log_pdf, b=weight, axis=-2))`;
`logsumexp(a, b)` is `log(Σ b·exp(a − a_max)) + a_max` -/
def logLikMethod {K N : Nat} (fam : Family Θ Y α) (θ : Mixture Θ α (K+1) N) (y : Fin N → Y) : α :=
  vsum fun n =>
    let lp : Tab (K+1) α := tab fun k => fam.logPdf (θ.c k) (y n)
    let m := vmax (rd lp)
    Transc.log (vsum fun k => θ.w k n * Transc.exp (rd lp k - m)) + m

/-- independent component parameters per leading index: observation = (slice, value); the component
fit of slice `f` sees the observations of the other slices with weight 0 -/
def sliced {F : Nat} (fam : Family Θ Y α) : Family (Tab F Θ) (Fin F × Y) α where
  logPdf θ y := fam.logPdf (rd θ y.1) y.2
  aux θ y := fam.aux (rd θ y.1) y.2
  mstep N w a y := tab fun f => fam.mstep N (fun n => if (y n).1 = f then w n else 0) a (fun n => (y n).2)

/-- two independent observation streams with unit stream weights (`GCACGMM` with `spatial_weight = spectral_weight
= 1`): the log-densities add, each stream's component is fitted on its own observations with the same posterior
weights; the auxiliary quantity is the first stream's (the cACG quadratic form) -/
def prodFamily {Θ₂ Y₂ : Type} (fam₁ : Family Θ Y α) (fam₂ : Family Θ₂ Y₂ α) : Family (Θ × Θ₂) (Y × Y₂) α where
  logPdf θ y := fam₁.logPdf θ.1 y.1 + fam₂.logPdf θ.2 y.2
  aux θ y := fam₁.aux θ.1 y.1
  mstep N w a y := (fam₁.mstep N w a (fun n => (y n).1), fam₂.mstep N w (fun _ => 1) (fun n => (y n).2))

end generic

/-! ## Gaussian components (`gaussian.py`) -/
section gauss
variable {α : Type} [Add α] [Sub α] [Mul α] [Div α] [Neg α] [OfNat α 0] [OfNat α 1] [Max α]
  [NatCast α] [Transc α]

/-- `SphericalGaussian(mean, covariance)` with scalar covariance -/
structure SphG (α : Type) (D : Nat) where
  mean : Tab D α
  var : α

/-- `DiagonalGaussian(mean, covariance)` with one variance per dimension -/
structure DiagG (α : Type) (D : Nat) where
  mean : Tab D α
  var : Tab D α

def half : α := 1 / (1 + 1)

/-- `SphericalGaussian.log_pdf`: `precision_cholesky = 1/sqrt(cov)`, `log_det = D·log(precision_cholesky)`,
`-D/2·log(2π) + log_det − ½‖precision_cholesky·(y−μ)‖²`.  `log2pi` is the constant `log(2π)`. -/
def sphLogPdf {D : Nat} (log2pi : α) (θ : SphG α D) (y : Fin D → α) : α :=
  let pc := 1 / Transc.sqrt θ.var
  (-(half * (D : α) * log2pi)) + (D : α) * Transc.log pc
    - half * vsum fun d => (pc * (y d - rd θ.mean d)) * (pc * (y d - rd θ.mean d))

/-- `DiagonalGaussian.log_pdf` -/
def diagLogPdf {D : Nat} (log2pi : α) (θ : DiagG α D) (y : Fin D → α) : α :=
  (-(half * (D : α) * log2pi)) + (vsum fun d => Transc.log (1 / Transc.sqrt (rd θ.var d)))
    - half * vsum fun d => (1 / Transc.sqrt (rd θ.var d) * (y d - rd θ.mean d))
        * (1 / Transc.sqrt (rd θ.var d) * (y d - rd θ.mean d))

/-- `GaussianTrainer._fit(y, saliency = w)`, weighted mean -/
def gaussMean {N D : Nat} (tiny : α) (w : Fin N → α) (y : Fin N → Fin D → α) : Tab D α :=
  let den := max (vsum w) tiny
  tab fun d => (vsum fun n => w n * y n d) / den

/-- `covariance_type='spherical'`: one variance, `Σ_n w_n Σ_d (y_nd − μ_d)² / (D · Σ_n w_n)` -/
def sphMstep {D : Nat} (tiny : α) (N : Nat) (w _aux : Fin N → α) (y : Fin N → Fin D → α) : SphG α D :=
  let den := max (vsum w) tiny
  let mean := gaussMean tiny w y
  ⟨mean, (vsum fun n => vsum fun d => w n * ((y n d - rd mean d) * (y n d - rd mean d))) / (den * (D : α))⟩

/-- `covariance_type='diagonal'` -/
def diagMstep {D : Nat} (tiny : α) (N : Nat) (w _aux : Fin N → α) (y : Fin N → Fin D → α) : DiagG α D :=
  let den := max (vsum w) tiny
  let mean := gaussMean tiny w y
  ⟨mean, tab fun d => (vsum fun n => w n * ((y n d - rd mean d) * (y n d - rd mean d))) / den⟩

/-- `Gaussian(mean, covariance)` with a full covariance matrix -/
structure FullG (α : Type) (D : Nat) where
  mean : Tab D α
  cov : Tab D (Tab D α)

/-- `Gaussian.log_pdf`.  External: `pchol cov = (P, ℓ)` = sklearn's `_compute_precision_cholesky(cov, 'full')` (upper
triangular `P` with `P Pᵀ = Σ⁻¹`) and `_compute_log_det_cholesky` (`ℓ = Σ_d log P_dd`).  Whitening as in the source,
`np.einsum('...Dd,...nD->...nd', precision_cholesky, difference)`: `white_d = Σ_e P[e][d]·(y_e − μ_e)`. -/
def fullLogPdf {D : Nat} (pchol : Tab D (Tab D α) → Tab D (Tab D α) × α) (log2pi : α) (θ : FullG α D)
    (y : Fin D → α) : α :=
  let pe := pchol θ.cov
  let white : Tab D α := tab fun d => vsum fun e => rd2 pe.1 e d * (y e - rd θ.mean e)
  (-(half * (D : α) * log2pi)) + pe.2 - half * vsum fun d => rd white d * rd white d

/-- `covariance_type='full'`: `Σ_n w_n (y_n − μ)(y_n − μ)ᵀ / Σ_n w_n` -/
def fullMstep {D : Nat} (tiny : α) (N : Nat) (w _aux : Fin N → α) (y : Fin N → Fin D → α) : FullG α D :=
  let den := max (vsum w) tiny
  let mean := gaussMean tiny w y
  ⟨mean, tab2 fun d e => (vsum fun n => w n * ((y n d - rd mean d) * (y n e - rd mean e))) / den⟩

def fullFamily (D : Nat) (pchol : Tab D (Tab D α) → Tab D (Tab D α) × α) (tiny log2pi : α) :
    Family (FullG α D) (Fin D → α) α :=
  ⟨fullLogPdf pchol log2pi, fun _ _ => 1, fullMstep tiny⟩

/-- `VonMisesFisher(mean, concentration)`; `logNorm` is the value of `log_norm()` (Bessel function `ive`: external) -/
structure Vmf (α : Type) (D : Nat) where
  mean : Tab D α
  kappa : α
  logNorm : α

/-- `VonMisesFisher.log_pdf` on an observation that the mixture has already normalised to unit length:
`κ·Σ_d y_d μ_d − log_norm` -/
def vmfLogPdf {D : Nat} (θ : Vmf α D) (y : Fin D → α) : α :=
  θ.kappa * (vsum fun d => y d * rd θ.mean d) - θ.logNorm

/-- `VonMisesFisherTrainer._fit(y, saliency = w)`: mean = normalised resultant, concentration = Banerjee's
approximation `(r̄·D − r̄³)/(1 − r̄²)` of the clipped mean resultant length, clipped to `[lo, hi]`; `lnorm` = `log_norm` -/
def vmfMstep {D : Nat} [LT α] [DecidableLT α] (lnorm : α → α) (lo hi tiny : α) (N : Nat) (w _aux : Fin N → α)
    (y : Fin N → Fin D → α) : Vmf α D :=
  let r : Tab D α := tab fun d => vsum fun n => w n * y n d
  let nrm : α := Transc.sqrt (vsum fun d => rd r d * rd r d)
  let den : α := max nrm tiny
  let q : α := nrm / vsum w
  let rbar : α := if q < 1 then q else 1
  let c : α := (rbar * (D : α) - rbar * rbar * rbar) / (1 - rbar * rbar)
  let c1 : α := if c < lo then lo else c
  let κ : α := if hi < c1 then hi else c1
  ⟨tab fun d => rd r d / den, κ, lnorm κ⟩

def vmfFamily (D : Nat) [LT α] [DecidableLT α] (lnorm : α → α) (lo hi tiny : α) : Family (Vmf α D) (Fin D → α) α :=
  ⟨vmfLogPdf, fun _ _ => 1, vmfMstep lnorm lo hi tiny⟩

def sphFamily (D : Nat) (tiny log2pi : α) : Family (SphG α D) (Fin D → α) α :=
  ⟨sphLogPdf log2pi, fun _ _ => 1, sphMstep tiny⟩

def diagFamily (D : Nat) (tiny log2pi : α) : Family (DiagG α D) (Fin D → α) α :=
  ⟨diagLogPdf log2pi, fun _ _ => 1, diagMstep tiny⟩

end gauss

/-! ## Complex directional components (`complex_watson.py`, `complex_angular_central_gaussian.py`) -/
section complex
variable {α β : Type} [Add α] [Sub α] [Mul α] [Div α] [Neg α] [OfNat α 0] [OfNat α 1] [Max α]
  [NatCast α] [Transc α] [Add β] [Mul β] [Div β] [OfNat β 0] [CxOps α β]

/-- `|z|²` as `re² + im²` (the source: `result.real ** 2 + result.imag ** 2`) -/
def abs2 (z : β) : α := CxOps.re z * CxOps.re z + CxOps.im z * CxOps.im z

/-- `Σ_d y_d · conj(w_d)` (`np.einsum('...d,...d', y, mode.conj())`) -/
def cdot {D : Nat} (y w : Fin D → β) : β := vsum fun d => y d * CxOps.conj (α := α) (w d)

/-- `Σ_n c_n · y_nd · conj(y_ne)`, the weighted outer-product sum both directional trainers start from -/
def outerSum {N D : Nat} (c : Fin N → α) (y : Fin N → Fin D → β) : Tab D (Tab D β) :=
  tab2 fun d e => vsum fun n => CxOps.ofReal (c n) * (y n d * CxOps.conj (α := α) (y n e))

/-- `ComplexWatson(mode, concentration)`; `logNorm` is the value of `log_norm_1f1(concentration, D)` -/
structure Watson (α β : Type) (D : Nat) where
  mode : Tab D β
  kappa : α
  logNorm : α

/-- `ComplexWatson.log_pdf`: `κ·|Σ_d y_d conj(mode_d)|² − log_norm` -/
def watsonLogPdf {D : Nat} (θ : Watson α β D) (y : Fin D → β) : α :=
  θ.kappa * abs2 (cdot (α := α) y (rd θ.mode)) - θ.logNorm

/-- the covariance `ComplexWatsonTrainer._fit` hands to `get_pca`: `Σ_n w_n y_n y_nᴴ / Σ_n w_n` -/
def watsonScatter {N D : Nat} (w : Fin N → α) (y : Fin N → Fin D → β) : Tab D (Tab D β) :=
  let den : β := CxOps.ofReal (vsum w)
  let s := outerSum w y
  tab2 fun d e => rd2 s d e / den

/-- `ComplexWatsonTrainer._fit(y, saliency = w)`.  Externals: `pca` = `get_pca` (eigenvector and value of
the largest eigenvalue), `kinv` = the spline `hypergeometric_ratio_inverse`, `lnorm` = `log_norm_1f1`. -/
def watsonMstep {D : Nat} (pca : Tab D (Tab D β) → Tab D β × α) (kinv lnorm : α → α)
    (N : Nat) (w _aux : Fin N → α) (y : Fin N → Fin D → β) : Watson α β D :=
  let p := pca (watsonScatter w y)
  let κ := kinv p.2
  ⟨p.1, κ, lnorm κ⟩

def watsonFamily (D : Nat) (pca : Tab D (Tab D β) → Tab D β × α) (kinv lnorm : α → α) :
    Family (Watson α β D) (Fin D → β) α :=
  ⟨watsonLogPdf, fun _ _ => 1, watsonMstep pca kinv lnorm⟩

/-- `ComplexAngularCentralGaussian(covariance_eigenvectors, covariance_eigenvalues)`:
`vecs[d][e]` = component `d` of eigenvector `e` -/
structure Cacg (α β : Type) (D : Nat) where
  vecs : Tab D (Tab D β)
  vals : Tab D α

/-- `_log_pdf`, quadratic form `zᴴ B⁻¹ z = Σ_e |Σ_g conj(U_ge) z_g|² / λ_e`, floored at `tiny` -/
def cacgQuad {D : Nat} (tiny : α) (θ : Cacg α β D) (z : Fin D → β) : α :=
  max (vsum fun e => abs2 (vsum fun g => CxOps.conj (α := α) (rd2 θ.vecs g e) * z g) / rd θ.vals e) tiny

/-- `_log_pdf`: `−D·log(quadratic_form) − Σ_e log λ_e` -/
def cacgLogPdf {D : Nat} (tiny : α) (θ : Cacg α β D) (z : Fin D → β) : α :=
  (-((D : α) * Transc.log (cacgQuad tiny θ z))) - vsum fun e => Transc.log (rd θ.vals e)

/-- `covariance_norm`: `'eigenvalue'`, `'trace'` or `False` -/
inductive CovNorm | eigenvalue | trace | none
deriving DecidableEq, Repr

/-- `from_covariance`, the part after `eigh`: normalise by the largest eigenvalue and floor
(`'eigenvalue'`), or floor relative to the largest eigenvalue (and at `tiny`) -/
def cacgEigvals {D : Nat} (nrm : CovNorm) (floor tiny : α) (ev : Fin (D+1) → α) : Tab (D+1) α :=
  let mx := vmax ev
  match nrm with
  | .eigenvalue => tab fun e => max (ev e / max mx tiny) floor
  | _ => tab fun e => max (ev e) (max (mx * floor) tiny)

/-- the matrix `ComplexAngularCentralGaussianTrainer._fit` hands to `eigh`:
`D · Σ_n (w_n / q_n) z_n z_nᴴ / Σ_n w_n`, hermitised, trace-normalised if asked (Tyler / Ito step) -/
def cacgScatter {D : Nat} (nrm : CovNorm) (tiny : α) (N : Nat) (w q : Fin N → α)
    (z : Fin N → Fin (D+1) → β) : Tab (D+1) (Tab (D+1) β) :=
  let den : α := max (vsum w) tiny
  let s := outerSum (fun n => w n / max (q n) (((10 : Nat) : α) * tiny)) z
  let cov : Tab (D+1) (Tab (D+1) β) :=
    tab2 fun d e => CxOps.ofReal (((D+1 : Nat) : α)) * rd2 s d e / CxOps.ofReal den
  let two : β := CxOps.ofReal ((1 : α) + 1)
  let herm : Tab (D+1) (Tab (D+1) β) :=
    tab2 fun d e => (rd2 cov d e + CxOps.conj (α := α) (rd2 cov e d)) / two
  match nrm with
  | .trace =>
      let tr : α := max (vsum fun d => CxOps.re (rd2 herm d d)) tiny
      tab2 fun d e => rd2 herm d e / CxOps.ofReal tr
  | _ => herm

/-- `ComplexAngularCentralGaussianTrainer._fit(y, saliency = w, quadratic_form = q)`; `eigh` external -/
def cacgMstep {D : Nat} (eigh : Tab (D+1) (Tab (D+1) β) → Tab (D+1) (Tab (D+1) β) × Tab (D+1) α)
    (nrm : CovNorm) (floor tiny : α) (N : Nat) (w q : Fin N → α) (z : Fin N → Fin (D+1) → β) :
    Cacg α β (D+1) :=
  let r := eigh (cacgScatter nrm tiny N w q z)
  ⟨r.1, cacgEigvals nrm floor tiny (rd r.2)⟩

def cacgFamily (D : Nat) (eigh : Tab (D+1) (Tab (D+1) β) → Tab (D+1) (Tab (D+1) β) × Tab (D+1) α)
    (nrm : CovNorm) (floor tiny : α) : Family (Cacg α β (D+1)) (Fin (D+1) → β) α :=
  ⟨cacgLogPdf tiny, cacgQuad tiny, cacgMstep eigh nrm floor tiny⟩

end complex

end PbBss.Em

/-! Model of `DHTVPermutationAlignment.alignment_plan` (segment bounds only). core-only -/
namespace PbBss.Plan

/-- Python `range(a, b, s)` for `s > 0`, on naturals (empty if `a ≥ b`) -/
def rangeUp (a b s : Nat) : List Nat :=
  (List.range ((b - a + s - 1) / s)).map fun i => a + i * s

/-- Python `range(a, 0, -s)` for `s > 0` and an integer start `a = hi - s` that may be negative:
we pass `hi` and `s` and enumerate `hi - s - i*s` while positive -/
def rangeDown (hi s : Nat) : List Nat :=
  (List.range ((hi - s + s - 1) / s)).map fun i => hi - s - i * s

structure Cfg where
  F : Nat          -- stft_size / 2 + 1
  start : Nat
  width : Nat
  shift : Nat

/-- set the upper bound of the last segment to `F` -/
def fixLastHi (F : Nat) : List (Nat × Nat) → List (Nat × Nat)
  | [] => []
  | [(lo, _)] => [(lo, F)]
  | x :: xs => x :: fixLastHi F xs

/-- set the lower bound of the last segment to `0` -/
def fixLastLo : List (Nat × Nat) → List (Nat × Nat)
  | [] => []
  | [(_, hi)] => [(0, hi)]
  | x :: xs => x :: fixLastLo xs

def interleave {α} : List α → List α → List α
  | [], ys => ys
  | xs, [] => xs
  | x :: xs, y :: ys => x :: y :: interleave xs ys

/-- `(lo, hi)` of every plan entry, in the order of the source -/
def plan (c : Cfg) : List (Nat × Nat) :=
  let ups := (rangeUp (c.start + c.shift) (c.F - c.width) c.shift).map fun s => (s, s + c.width)
  let downs := (rangeDown c.start c.shift).map fun s => (s, s + c.width)
  let first : Nat × Nat :=
    (if downs.isEmpty then 0 else c.start, if ups.isEmpty then c.F else c.start + c.width)
  first :: interleave (fixLastHi c.F ups) (fixLastLo downs)

end PbBss.Plan

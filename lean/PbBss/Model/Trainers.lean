import PbBss.Model.Basic
import PbBss.Model.Align
/-! Index-level models of the single-distribution trainers and of the mixture-weight update (core Lean only).

Sources (pb_bss/distribution): `gaussian.py:GaussianTrainer._fit`,
`complex_circular_symmetric_gaussian.py:…Trainer._fit`, `von_mises_fisher.py:VonMisesFisherTrainer.fit/_fit`,
`complex_watson.py:ComplexWatsonTrainer.fit/_fit` (+ `pb_bss/utils.py:get_pca`, spline = external),
`complex_angular_central_gaussian.py:normalize_observation/_fit/from_covariance/_log_pdf/fit`
(+ `utils.py:force_hermitian`), `complex_bingham.py:_remove_duplicate_eigenvalues`, tail of `find_eigenvalues_v3`,
`mixture_model_utils.py:estimate_mixture_weight`, weight formula of `gcacgmm.py/vmfcacgmm.py:_m_step`, and the
iteration skeleton shared by every `<Mixture>Trainer.fit`.

One data set is `y : Fin N → Fin D → _` (frame, channel); `sal : Option (Fin N → α)` is the `saliency=None | array`
argument.  External routines are parameters: `eigh` (contract: unitary `U`, `A U = U diag λ`, `λ` ascending),
the spline inverse of the hypergeometric ratio, the bounded least-squares solver of the Bingham eigenvalues. -/
namespace PbBss.Trainers
open PbBss PbBss.Align

/-- output of `np.linalg.eigh`: eigenvalues (ascending) and eigenvectors as columns `vecs · i` -/
structure Eig (α β : Type) (n : Nat) where
  vals : Fin n → α
  vecs : Fin n → Fin n → β

section real
variable {α : Type} [Add α] [Sub α] [Mul α] [Div α] [Neg α] [OfNat α 0] [OfNat α 1] [NatCast α]
  [Max α] [Min α] [LT α] [DecidableLT α] [Transc α]

/-- the observation weight: `1` when `saliency is None` -/
def wOf {N : Nat} (sal : Option (Fin N → α)) (n : Fin N) : α :=
  match sal with
  | none => 1
  | some s => s n

/-- `denominator` of the Gaussian trainers: `N`, or `max(sum(saliency), tiny)` -/
def denFloor {N : Nat} (tiny : α) (sal : Option (Fin N → α)) : α :=
  match sal with
  | none => (N : α)
  | some s => max (vsum s) tiny

/-- `denominator` of the Watson / Bingham trainers: `N`, or `sum(saliency)` (no floor) -/
def denPlain {N : Nat} (sal : Option (Fin N → α)) : α :=
  match sal with
  | none => (N : α)
  | some s => vsum s

/-- `np.clip(x, lo, hi) = minimum(maximum(x, lo), hi)` -/
def clip (x lo hi : α) : α := min (max x lo) hi

def absR (x : α) : α := if x < 0 then -x else x

/-! ### `GaussianTrainer._fit` -/

/-- `mean = einsum('...n,...nd->...d', saliency, y) / denominator` -/
def gaussMean {N D : Nat} (tiny : α) (sal : Option (Fin N → α)) (y : Fin N → Fin D → α) : Fin D → α :=
  fun d => (vsum fun n => wOf sal n * y n d) / denFloor tiny sal

/-- `covariance_type='full'`: `einsum('...n,...nd,...nD->...dD', saliency, diff, diff) / denominator` -/
def gaussCovFull {N D : Nat} (tiny : α) (sal : Option (Fin N → α)) (y : Fin N → Fin D → α) : Fin D → Fin D → α :=
  let m := tab1 (gaussMean tiny sal y)
  fun d e => (vsum fun n => wOf sal n * (y n d - at1 m d) * (y n e - at1 m e)) / denFloor tiny sal

/-- `'diagonal'`: `einsum('...n,...nd,...nd->...d', …) / denominator` -/
def gaussCovDiag {N D : Nat} (tiny : α) (sal : Option (Fin N → α)) (y : Fin N → Fin D → α) : Fin D → α :=
  let m := tab1 (gaussMean tiny sal y)
  fun d => (vsum fun n => wOf sal n * (y n d - at1 m d) * (y n d - at1 m d)) / denFloor tiny sal

/-- `'spherical'`: `einsum('...n,...nd,...nd->...', …) / (denominator * D)` -/
def gaussCovSph {N D : Nat} (tiny : α) (sal : Option (Fin N → α)) (y : Fin N → Fin D → α) : α :=
  let m := tab1 (gaussMean tiny sal y)
  (vsum fun n => vsum fun d => wOf sal n * (y n d - at1 m d) * (y n d - at1 m d)) / (denFloor tiny sal * (D : α))

/-! ### `VonMisesFisherTrainer.fit / _fit` -/

/-- `y / maximum(norm(y, axis=-1), tiny)` for real observations -/
def unitRowsR {N D : Nat} (tiny : α) (y : Fin N → Fin D → α) : Fin N → Fin D → α :=
  fun n d => y n d / max (Transc.sqrt (vsum fun e => y n e * y n e)) tiny

/-- weighted resultant `r = einsum('...n,...nd->...d', saliency, y)` of already normalised data -/
def vmfResultant {N D : Nat} (sal : Option (Fin N → α)) (z : Fin N → Fin D → α) : Fin D → α :=
  fun d => vsum fun n => wOf sal n * z n d

def vecNorm {D : Nat} (r : Fin D → α) : α := Transc.sqrt (vsum fun d => r d * r d)

/-- `mean = r / maximum(norm, tiny)` -/
def vmfMean {D : Nat} (tiny : α) (r : Fin D → α) : Fin D → α :=
  fun d => r d / max (vecNorm r) tiny

/-- `r_bar = minimum(norm / sum(saliency), 1)` -/
def vmfRbar {N D : Nat} (sal : Option (Fin N → α)) (r : Fin D → α) : α :=
  min (vecNorm r / vsum (wOf (N := N) sal)) 1

/-- Banerjee et al. (2005) Eq. 4.4: `(r_bar D - r_bar³) / (1 - r_bar²)` -/
def banerjee (D : Nat) (rbar : α) : α := (rbar * (D : α) - rbar * rbar * rbar) / (1 - rbar * rbar)

def vmfConcentration {N D : Nat} (lo hi : α) (sal : Option (Fin N → α)) (r : Fin D → α) : α :=
  clip (banerjee D (vmfRbar (N := N) sal r)) lo hi

/-- `VonMisesFisherTrainer.fit`: returns `(mean, concentration)` -/
def vmfFit {N D : Nat} (tiny lo hi : α) (sal : Option (Fin N → α)) (y : Fin N → Fin D → α) : (Fin D → α) × α :=
  let r := tab1 (vmfResultant sal (unitRowsR tiny y))
  (vmfMean tiny (at1 r), vmfConcentration (N := N) lo hi sal (at1 r))

/-! ### `ComplexWatsonTrainer`: concentration through the tabulated inverse ratio (`interp1d`, external) -/

/-- `interp1d(..., bounds_error=False, fill_value=(0, max_concentration))`: `yLo, yHi` are the ratio at the first
and last marker, `spl` the interpolant inside the table -/
def watsonConcentration (yLo yHi maxc : α) (spl : α → α) (lam : α) : α :=
  if lam < yLo then 0 else if yHi < lam then maxc else spl lam

/-! ### cACG `from_covariance`: eigenvalue post-processing -/

/-- `covariance_norm='eigenvalue'`: `maximum(λ / maximum(amax λ, tiny), floor)` -/
def cacgEigsEigenvalue {D : Nat} (tiny floor : α) (lam : Fin (D+1) → α) : Fin (D+1) → α :=
  let mx := max (vmax lam) tiny
  fun i => max (lam i / mx) floor

/-- `covariance_norm='trace' | False`: `maximum(λ, maximum(amax λ * floor, tiny))` -/
def cacgEigsRelative {D : Nat} (tiny floor : α) (lam : Fin (D+1) → α) : Fin (D+1) → α :=
  let fl := max (vmax lam * floor) tiny
  fun i => max (lam i) fl

/-! ### complex Bingham: `_remove_duplicate_eigenvalues` (ascending input) and the tail of `find_eigenvalues_v3` -/

/-- `λ[1:] = λ[0] + cumsum(maximum(diff(λ), eps))` -/
def removeDup {D : Nat} (eps : α) (lam : Fin (D+1) → α) : Fin (D+1) → α :=
  fun i => lam 0 + vsum fun j : Fin D => if j.val < i.val then max (lam j.succ - lam j.castSucc) eps else 0

/-- `est = cumsum([*x, 0][::-1])[::-1]`: `est i = Σ_{j ≥ i} x j`, last entry `0` -/
def binghamEst {D : Nat} (x : Fin D → α) : Fin (D+1) → α :=
  fun i => vsum fun j : Fin D => if i.val ≤ j.val then x j else 0

/-- tail of `find_eigenvalues_v3` for an ascending scatter spectrum (identity permutation):
`max_concentration = inf` returns `est`; otherwise clip at `-max_concentration` and de-duplicate again -/
def binghamPost {D : Nat} (eps : α) (maxc : Option α) (x : Fin D → α) : Fin (D+1) → α :=
  match maxc with
  | none => binghamEst x
  | some m =>
    let est := tab1 (binghamEst x)
    removeDup eps (fun i => max (at1 est i) (-m))

/-! ### `estimate_mixture_weight` and the weight formula of the integration models -/

/-- `_unit_norm(S, ord=1, axis=-2, eps=1e-10, eps_style='where')` over the class axis -/
def l1Where {K : Nat} (eps : α) (S : Fin K → α) : Fin K → α :=
  let nrm := vsum fun k => absR (S k)
  let d := if nrm < 0 then nrm else if 0 < nrm then nrm else eps
  fun k => S k / d

/-- integration models: `weight /= maximum(sum(weight, axis=-2), tiny)` -/
def l1Plain {K : Nat} (tiny : α) (S : Fin K → α) : Fin K → α :=
  let d := max (vsum S) tiny
  fun k => S k / d

/-- `weight_constant_axis=-1`, no saliency: `mean(affiliation, axis=-1)` for one leading index -/
def weightMeanT {K T : Nat} (aff : Fin K → Fin T → α) : Fin K → α :=
  fun k => (vsum fun t => aff k t) / (T : α)

/-- `weight_constant_axis=-3`, no saliency: mean over the leading axis, one value per `(k, t)` -/
def weightMeanF {F K T : Nat} (aff : Fin F → Fin K → Fin T → α) : Fin K → Fin T → α :=
  fun k t => (vsum fun f => aff f k t) / (F : α)

/-- `weight_constant_axis=(-3, -1)`, no saliency -/
def weightMeanFT {F K T : Nat} (aff : Fin F → Fin K → Fin T → α) : Fin K → α :=
  fun k => (vsum fun f => vsum fun t => aff f k t) / ((F * T : Nat) : α)

/-- `weight_constant_axis=-2` (int): `full([K, 1], 1/K)` -/
def weightUniform (K : Nat) : Fin K → α := fun _ => 1 / (K : α)

/-- saliency given, tied over `-1` -/
def weightSalT {K T : Nat} (eps : α) (aff : Fin K → Fin T → α) (s : Fin T → α) : Fin K → α :=
  l1Where eps fun k => vsum fun t => aff k t * s t

/-- saliency given, tied over `-3` -/
def weightSalF {F K T : Nat} (eps : α) (aff : Fin F → Fin K → Fin T → α) (s : Fin F → Fin T → α) : Fin K → Fin T → α :=
  fun k t => l1Where eps (fun k' => vsum fun f => aff f k' t * s f t) k

/-- saliency given, tied over `(-3, -1)` -/
def weightSalFT {F K T : Nat} (eps : α) (aff : Fin F → Fin K → Fin T → α) (s : Fin F → Fin T → α) : Fin K → α :=
  l1Where eps fun k => vsum fun f => vsum fun t => aff f k t * s f t

/-- saliency given, tuple form tied over the class axis only (`weight_constant_axis=(-2,)`, the default of
`GMMTrainer.fit_predict`): the sum over the classes is L1-normalised over the (now singleton) class axis and every
class gets the equal share `1/K` of it (one stored value per frame) -/
def weightSalK {K : Nat} (eps : α) (aff : Fin K → α) (s : α) : α :=
  l1Where eps (fun _ : Fin 1 => vsum fun k => aff k * s) 0 / (K : α)

/-- integration models, `weight_constant_axis=(-1,)`: one weight vector per bin -/
def weightIntT {K T : Nat} (tiny : α) (aff : Fin K → Fin T → α) (s : Fin T → α) : Fin K → α :=
  l1Plain tiny fun k => vsum fun t => aff k t * s t

def weightIntF {F K T : Nat} (tiny : α) (aff : Fin F → Fin K → Fin T → α) (s : Fin F → Fin T → α) : Fin K → Fin T → α :=
  fun k t => l1Plain tiny (fun k' => vsum fun f => aff f k' t * s f t) k

def weightIntFT {F K T : Nat} (tiny : α) (aff : Fin F → Fin K → Fin T → α) (s : Fin F → Fin T → α) : Fin K → α :=
  l1Plain tiny fun k => vsum fun f => vsum fun t => aff f k t * s f t

end real

/-! ## complex observations -/
section complex
variable {α β : Type} [Add α] [Sub α] [Mul α] [Div α] [Neg α] [OfNat α 0] [OfNat α 1] [NatCast α]
  [Max α] [Min α] [LT α] [DecidableLT α] [Transc α]
  [Add β] [Mul β] [Div β] [OfNat β 0] [CxOps α β]

/-- `|z|²` as `re² + im²` -/
def absSq (z : β) : α := CxOps.re z * CxOps.re z + CxOps.im z * CxOps.im z

/-- `np.linalg.norm(y_n)` of a complex row -/
def rowNormC {D : Nat} (y : Fin D → β) : α := Transc.sqrt (vsum fun d => absSq (α := α) (y d))

/-- Watson / Bingham / integration models: `y / maximum(norm, tiny)` -/
def unitRowsC {N D : Nat} (tiny : α) (y : Fin N → Fin D → β) : Fin N → Fin D → β :=
  fun n d => y n d / CxOps.ofReal (max (rowNormC (α := α) (y n)) tiny)

/-- cACG `normalize_observation` (`eps_style='where'`): zero rows are divided by `tiny` (stay zero) -/
def unitRowsWhere {N D : Nat} (tiny : α) (y : Fin N → Fin D → β) : Fin N → Fin D → β :=
  fun n d =>
    let nrm := rowNormC (α := α) (y n)
    y n d / CxOps.ofReal (if 0 < nrm then nrm else tiny)

/-- `einsum('...n,...nd,...nD->...dD', saliency, y, y.conj()) / denominator` with a floored denominator:
`ComplexCircularSymmetricGaussianTrainer._fit` -/
def cgaussCov {N D : Nat} (tiny : α) (sal : Option (Fin N → α)) (y : Fin N → Fin D → β) : Fin D → Fin D → β :=
  fun d e => (vsum fun n => CxOps.ofReal (wOf sal n) * y n d * CxOps.conj α (y n e)) / CxOps.ofReal (denFloor tiny sal)

/-- scatter of the Watson / Bingham trainers (denominator not floored) -/
def scatterPlain {N D : Nat} (sal : Option (Fin N → α)) (z : Fin N → Fin D → β) : Fin D → Fin D → β :=
  fun d e => (vsum fun n => CxOps.ofReal (wOf sal n) * z n d * CxOps.conj α (z n e)) / CxOps.ofReal (denPlain sal)

/-- `force_hermitian`: `(A + Aᴴ) / 2` -/
def forceHermitian {D : Nat} (c : Fin D → Fin D → β) : Fin D → Fin D → β :=
  fun d e => (c d e + CxOps.conj α (c e d)) / CxOps.ofReal (1 + 1 : α)

/-- `ComplexWatsonTrainer._fit`: `get_pca` picks the last eigenpair of `eigh(covariance)`; returns
`(mode, concentration)` -/
def watsonFit {N D : Nat} (yLo yHi maxc : α) (spl : α → α)
    (eigh : (Fin (D+1) → Fin (D+1) → β) → Eig α β (D+1))
    (sal : Option (Fin N → α)) (z : Fin N → Fin (D+1) → β) : (Fin (D+1) → β) × α :=
  let e := eigh (scatterPlain sal z)
  (fun d => e.vecs d (Fin.last D), watsonConcentration yLo yHi maxc spl (e.vals (Fin.last D)))

/-- lexicographic `np.maximum` of two complex numbers (real part first) -/
def cxMax (a b : β) : β :=
  if CxOps.re (α := α) b < CxOps.re a then a
  else if CxOps.re (α := α) a < CxOps.re b then b
  else if CxOps.im (α := α) b < CxOps.im a then a else b

/-- `ComplexAngularCentralGaussianTrainer._fit`, scatter part:
`D * einsum('...dn,...Dn,...n->...dD', y, y.conj(), saliency / maximum(q, 10 tiny)) / maximum(denominator, tiny)`,
`denominator = N` (no saliency) or `sum(saliency)`; `qfloor = 10 * tiny` -/
def cacgCov {N D : Nat} (tiny qfloor : α) (sal : Option (Fin N → α)) (q : Fin N → α) (z : Fin N → Fin D → β) :
    Fin D → Fin D → β :=
  fun d e =>
    CxOps.ofReal (D : α) * (vsum fun n => z n d * CxOps.conj α (z n e) * CxOps.ofReal (wOf sal n / max (q n) qfloor))
      / CxOps.ofReal (max (denPlain sal) tiny)

inductive CovNorm | eigenvalue | trace | none
deriving DecidableEq, Repr

/-- `from_covariance`: optional trace normalisation, `eigh`, eigenvalue normalisation / floor -/
def fromCovariance {D : Nat} (norm : CovNorm) (tiny floor : α)
    (eigh : (Fin (D+1) → Fin (D+1) → β) → Eig α β (D+1)) (c : Fin (D+1) → Fin (D+1) → β) : Eig α β (D+1) :=
  match norm with
  | .trace =>
    let tr : β := cxMax (α := α) (vsum fun d => c d d) (CxOps.ofReal tiny)
    let e := eigh fun d d' => c d d' / tr
    ⟨cacgEigsRelative tiny floor e.vals, e.vecs⟩
  | .none =>
    let e := eigh c
    ⟨cacgEigsRelative tiny floor e.vals, e.vecs⟩
  | .eigenvalue =>
    let e := eigh c
    ⟨cacgEigsEigenvalue tiny floor e.vals, e.vecs⟩

/-- one call of `_fit`: scatter, optional `force_hermitian`, `from_covariance` -/
def cacgStep {N D : Nat} (hermitize : Bool) (norm : CovNorm) (tiny qfloor floor : α)
    (eigh : (Fin (D+1) → Fin (D+1) → β) → Eig α β (D+1))
    (sal : Option (Fin N → α)) (q : Fin N → α) (z : Fin N → Fin (D+1) → β) : Eig α β (D+1) :=
  let c := tab2 (cacgCov tiny qfloor sal q z)
  let c' := if hermitize then forceHermitian (α := α) (at2 c) else at2 c
  fromCovariance norm tiny floor eigh c'

/-- `covariance` property: `U diag(e) Uᴴ` -/
def eigCovariance {D : Nat} (m : Eig α β D) : Fin D → Fin D → β :=
  fun d e => vsum fun i => m.vecs d i * CxOps.ofReal (m.vals i) * CxOps.conj α (m.vecs e i)

/-- `_log_pdf`, quadratic form of one frame: `maximum(|zᴴ U diag(1/e) Uᴴ z|, tiny)` -/
def cacgQuad {D : Nat} (tiny : α) (m : Eig α β D) (z : Fin D → β) : α :=
  let s : β := vsum fun i =>
    (vsum fun d => CxOps.conj α (z d) * m.vecs d i) * CxOps.ofReal (1 / m.vals i) * (vsum fun g => CxOps.conj α (m.vecs g i) * z g)
  max (Transc.sqrt (absSq (α := α) s)) tiny

/-- `ComplexAngularCentralGaussianTrainer.fit`: `iterations` alternations of `_fit` and `_log_pdf`, start `q = 1`
(state kept as tables) -/
def cacgFit {N D : Nat} (hermitize : Bool) (norm : CovNorm) (tiny qfloor floor : α)
    (eigh : (Fin (D+1) → Fin (D+1) → β) → Eig α β (D+1))
    (y : Fin N → Fin (D+1) → β) : Nat → Tab1 N α × Tab1 (D+1) α × Tab2 (D+1) (D+1) β
  | 0 => (tab1 fun _ => 1, tab1 fun _ => 1, tab2 fun d e => if d = e then CxOps.ofReal (1 : α) else 0)
  | it+1 =>
    let prev := cacgFit hermitize norm tiny qfloor floor eigh y it
    let z := tab2 (unitRowsWhere tiny y)
    let m := cacgStep hermitize norm tiny qfloor floor eigh none (at1 prev.1) (at2 z)
    let vals := tab1 m.vals
    let vecs := tab2 m.vecs
    let mt : Eig α β (D+1) := ⟨at1 vals, at2 vecs⟩
    (tab1 fun n => cacgQuad tiny mt (at2 z n), vals, vecs)

end complex

/-! ## the iteration skeleton of every `<Mixture>Trainer.fit`

```
model = None
for iteration in range(iterations):
    if model is not None: affiliation[, quadratic_form] = E(model)      # incl. optional inline alignment
    model = M(affiliation[, quadratic_form])
```
`Γ` = what the M-step consumes (posteriors, for the cACG-based models together with the quadratic forms),
`Θ` = fitted model. -/
def emLoop {Γ Θ : Type} (mStep : Γ → Θ) (eStep : Θ → Γ) : Nat → Γ → Option Θ → Option Θ
  | 0, _, model => model
  | n+1, g, none => emLoop mStep eStep n g (some (mStep g))
  | n+1, _, some m =>
    let g' := eStep m
    emLoop mStep eStep n g' (some (mStep g'))

/-- `fit(initialization=γ₀, iterations=n)` -/
def emFit {Γ Θ : Type} (mStep : Γ → Θ) (eStep : Θ → Γ) (n : Nat) (g0 : Γ) : Option Θ :=
  emLoop mStep eStep n g0 none

end PbBss.Trainers

/-! ## E-step of the cACG mixture model (`CACGMM._predict`) for one leading index

`log_pdf[k, n] = -D log q[k, n] - Σ_i log e[k, i]`, posterior by `PbBss.affiliation` (Bayes rule with the maximum
subtracted, denominator floored by `tiny`), then `np.clip(·, eps, 1 - eps)` when `affiliation_eps ≠ 0`.
Returns the affiliations AND the quadratic forms, which the next M-step consumes. -/
namespace PbBss.Trainers
open PbBss PbBss.Align
section estep
variable {α β : Type} [Add α] [Sub α] [Mul α] [Div α] [Neg α] [OfNat α 0] [OfNat α 1] [NatCast α]
  [Max α] [Min α] [LT α] [DecidableLT α] [Transc α]
  [Add β] [Mul β] [Div β] [OfNat β 0] [CxOps α β]

/-- `_log_pdf` of one class for one frame, given its quadratic form -/
def cacgLogPdf {D : Nat} (m : Eig α β D) (q : α) : α :=
  (-(D : α)) * Transc.log q - vsum fun i => Transc.log (m.vals i)

/-- `np.clip(affiliation, eps, 1 - eps)` unless `eps = 0` -/
def clipAff (eps : α) (x : α) : α :=
  if eps < 0 then clip x eps (1 - eps) else if 0 < eps then clip x eps (1 - eps) else x

/-- quadratic forms `q[k, n]` and clipped posteriors `γ[k, n]` of `K+1` classes -/
def cacgmmEStep {K N D : Nat} (tiny eps : α) (w : Fin (K+1) → Fin N → α) (m : Fin (K+1) → Eig α β D)
    (z : Fin N → Fin D → β) : (Fin (K+1) → Fin N → α) × (Fin (K+1) → Fin N → α) :=
  let q : Tab2 (K+1) N α := tab2 fun k n => cacgQuad tiny (m k) (z n)
  let lp : Tab2 (K+1) N α := tab2 fun k n => cacgLogPdf (m k) (at2 q k n)
  (fun k n => clipAff eps (affiliation tiny (fun j => w j n) (fun j => at2 lp j n) k), at2 q)
end estep
end PbBss.Trainers

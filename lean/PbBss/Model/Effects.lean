/-! Effect IR for C20 (spike): any-order semantics, certificate checker, soundness. core-only -/
namespace Eff

abbrev Var := Nat
abbrev Loc := Nat

inductive Stmt
  | alloc (x : Var)
  | alias (x : Var) (ys : List Var)
  | write (x : Var)
deriving DecidableEq, Repr

structure Prog where
  params : List Var
  stmts : List Stmt

structure St where
  env : Var → Option Loc
  heap : Loc → Nat
  next : Loc

def setEnv (e : Var → Option Loc) (x : Var) (l : Loc) : Var → Option Loc :=
  fun y => if y = x then some l else e y

/-- one nondeterministic step of one statement -/
inductive Step : Stmt → St → St → Prop
  | alloc {s} (x) : Step (.alloc x) s ⟨setEnv s.env x s.next, s.heap, s.next + 1⟩
  | aliasView {s} (x ys y l) : y ∈ ys → s.env y = some l → Step (.alias x ys) s ⟨setEnv s.env x l, s.heap, s.next⟩
  | aliasCopy {s} (x ys) : Step (.alias x ys) s ⟨setEnv s.env x s.next, s.heap, s.next + 1⟩
  | writeHit {s} (x l v) : s.env x = some l → Step (.write x) s ⟨s.env, fun m => if m = l then v else s.heap m, s.next⟩
  | writeMiss {s} (x) : s.env x = none → Step (.write x) s s

/-- executions: statements of the program in ANY order, any number of times -/
inductive Exec (p : Prog) : St → St → Prop
  | refl (s) : Exec p s s
  | step (s t u st) : st ∈ p.stmts → Exec p s t → Step st t u → Exec p s u

/-- certificate: `may x` = parameters whose caller buffer `x` may share -/
def checkCert (p : Prog) (may : Var → List Var) : Bool :=
  p.params.all (fun q => (may q).contains q) &&
  p.stmts.all fun st => match st with
    | .alloc _ => true
    | .alias x ys => ys.all fun y => (may y).all fun q => (may x).contains q
    | .write x => (may x).isEmpty

structure Init (p : Prog) (s : St) : Prop where
  bound : ∀ q ∈ p.params, ∃ l, s.env q = some l ∧ l < s.next
  unbound : ∀ x, x ∉ p.params → s.env x = none

def IsParamBuf (p : Prog) (s0 : St) (l : Loc) : Prop := ∃ q ∈ p.params, s0.env q = some l

def Inv (p : Prog) (may : Var → List Var) (s0 s : St) : Prop :=
  s0.next ≤ s.next ∧
  (∀ l, IsParamBuf p s0 l → l < s0.next) ∧
  (∀ x l, s.env x = some l → IsParamBuf p s0 l → may x ≠ []) ∧
  (∀ l, IsParamBuf p s0 l → s.heap l = s0.heap l)

theorem checkCert_sound (p : Prog) (may : Var → List Var) (hc : checkCert p may = true)
    (s0 s : St) (hi : Init p s0) (hx : Exec p s0 s) :
    ∀ q l, q ∈ p.params → s0.env q = some l → s.heap l = s0.heap l := by
  have hc' := hc
  simp only [checkCert, Bool.and_eq_true, List.all_eq_true] at hc'
  obtain ⟨hpar, hst⟩ := hc'
  suffices h : Inv p may s0 s from fun q l hq hl => h.2.2.2 l ⟨q, hq, hl⟩
  have hlt : ∀ l, IsParamBuf p s0 l → l < s0.next := by
    rintro l ⟨q, hq, hl⟩
    obtain ⟨l', h1, h2⟩ := hi.bound q hq
    rw [h1] at hl; cases hl; exact h2
  induction hx with
  | refl =>
    refine ⟨Nat.le_refl _, hlt, ?_, fun _ _ => rfl⟩
    intro x l hxl _
    by_cases hxp : x ∈ p.params
    · have := hpar x hxp
      intro h; rw [h] at this; simp at this
    · rw [hi.unbound x hxp] at hxl; cases hxl
  | step t u st hmem _ hstep ih =>
    obtain ⟨h1, h2, h3, h4⟩ := ih
    have hs := hst st hmem
    cases hstep with
    | alloc x =>
      refine ⟨Nat.le_succ_of_le h1, h2, ?_, h4⟩
      intro y l hyl hpb
      simp only [setEnv] at hyl
      split at hyl
      · cases hyl; have := h2 _ hpb; exact absurd h1 (Nat.not_le.mpr this)
      · exact h3 y l hyl hpb
    | aliasView x ys y l hy hyl =>
      refine ⟨h1, h2, ?_, h4⟩
      intro z l' hzl hpb
      simp only [setEnv] at hzl
      split at hzl
      · rename_i hzx; subst hzx
        have hll : l = l' := by injection hzl
        subst hll
        have hne := h3 y l hyl hpb
        simp only [List.all_eq_true] at hs
        have hsub := hs y hy
        intro hx0
        cases hm : may y with
        | nil => exact hne hm
        | cons a as =>
          have := hsub a (by rw [hm]; simp)
          rw [hx0] at this; simp at this
      · exact h3 z l' hzl hpb
    | aliasCopy x ys =>
      refine ⟨Nat.le_succ_of_le h1, h2, ?_, h4⟩
      intro y l hyl hpb
      simp only [setEnv] at hyl
      split at hyl
      · cases hyl; have := h2 _ hpb; exact absurd h1 (Nat.not_le.mpr this)
      · exact h3 y l hyl hpb
    | writeHit x l v hxl =>
      refine ⟨h1, h2, h3, ?_⟩
      intro l' hpb
      have hne : l' ≠ l := by
        intro h; subst h
        have := h3 x l' hxl hpb
        simp only [List.isEmpty_iff] at hs
        exact this hs
      simp [hne, h4 l' hpb]
    | writeMiss x hxn => exact ⟨h1, h2, h3, h4⟩

/-- example program: `mask = np.copy(mask); mask /= ...` is accepted, `cov /= ...` on a parameter is rejected -/
example : checkCert ⟨[0], [.alias 1 [0], .alloc 2, .write 2]⟩ (fun x => if x = 0 ∨ x = 1 then [0] else []) = true := by decide
example : checkCert ⟨[0], [.write 0]⟩ (fun x => if x = 0 then [0] else []) = false := by decide
end Eff

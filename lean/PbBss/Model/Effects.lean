/-! Effect IR for C20: any-order semantics, certificate checker, soundness.  Core Lean only.

A program is a *set* of statements over SSA-renamed variables (naturals):
* `alloc x`      x is bound to a freshly allocated buffer,
* `alias x ys`   x is bound to (a view of) the buffer of one of `ys`, or to a fresh copy,
* `write x`      the buffer x is bound to is overwritten with arbitrary values.
An execution is any finite sequence of statement instances, in any order, any number of times; this over-approximates
every control flow of the Python function the program was generated from (`harness/translate/effects.py`).
A certificate is a map `may : Var → List Var` ("x may share a buffer with these parameters"). -/
namespace Eff

abbrev Var := Nat
abbrev Loc := Nat

inductive Stmt
  | alloc (x : Var)
  | alias (x : Var) (ys : List Var)
  | write (x : Var)
deriving DecidableEq, Repr

structure Prog where
  params : List Var
  stmts : List Stmt

structure St where
  env : Var → Option Loc
  heap : Loc → Nat
  next : Loc

def setEnv (e : Var → Option Loc) (x : Var) (l : Loc) : Var → Option Loc :=
  fun y => if y = x then some l else e y

/-- one nondeterministic step of one statement -/
inductive Step : Stmt → St → St → Prop
  | alloc {s} (x) : Step (.alloc x) s ⟨setEnv s.env x s.next, s.heap, s.next + 1⟩
  | aliasView {s} (x ys y l) : y ∈ ys → s.env y = some l → Step (.alias x ys) s ⟨setEnv s.env x l, s.heap, s.next⟩
  | aliasCopy {s} (x ys) : Step (.alias x ys) s ⟨setEnv s.env x s.next, s.heap, s.next + 1⟩
  | writeHit {s} (x l v) : s.env x = some l → Step (.write x) s ⟨s.env, fun m => if m = l then v else s.heap m, s.next⟩
  | writeMiss {s} (x) : s.env x = none → Step (.write x) s s

/-- executions: statements of the program in ANY order, any number of times -/
inductive Exec (p : Prog) : St → St → Prop
  | refl (s) : Exec p s s
  | step (s t u st) : st ∈ p.stmts → Exec p s t → Step st t u → Exec p s u

/-- the aliasing part of a certificate: parameters own themselves, `alias` statements propagate may-sets -/
def checkAlias (p : Prog) (may : Var → List Var) : Bool :=
  p.params.all (fun q => (may q).contains q) &&
  p.stmts.all fun st => match st with
    | .alloc _ => true
    | .alias x ys => ys.all fun y => (may y).all fun q => (may x).contains q
    | .write _ => true

/-- parameters whose buffer some `write` may touch according to the certificate (the derived "mutates" summary) -/
def writesTo (p : Prog) (may : Var → List Var) : List Var :=
  p.stmts.flatMap fun st => match st with
    | .write x => may x
    | _ => []

/-- certificate check used for pure functions: aliasing is consistent and no write can reach a parameter -/
def checkCert (p : Prog) (may : Var → List Var) : Bool :=
  p.params.all (fun q => (may q).contains q) &&
  p.stmts.all fun st => match st with
    | .alloc _ => true
    | .alias x ys => ys.all fun y => (may y).all fun q => (may x).contains q
    | .write x => (may x).isEmpty

structure Init (p : Prog) (s : St) : Prop where
  bound : ∀ q ∈ p.params, ∃ l, s.env q = some l ∧ l < s.next
  unbound : ∀ x, x ∉ p.params → s.env x = none

def IsParamBuf (p : Prog) (s0 : St) (l : Loc) : Prop := ∃ q ∈ p.params, s0.env q = some l

/-- invariant of the general soundness proof: a variable bound to a caller buffer `l` has a parameter in its may-set
that is itself bound to `l` (so aliased parameters need no extra hypothesis) -/
def InvG (p : Prog) (may : Var → List Var) (s0 s : St) : Prop :=
  s0.next ≤ s.next ∧
  (∀ x l, s.env x = some l → IsParamBuf p s0 l → ∃ q, q ∈ may x ∧ q ∈ p.params ∧ s0.env q = some l)

theorem paramBuf_lt {p : Prog} {s0 : St} (hi : Init p s0) : ∀ l, IsParamBuf p s0 l → l < s0.next := by
  rintro l ⟨q, hq, hl⟩
  obtain ⟨l', h1, h2⟩ := hi.bound q hq
  rw [h1] at hl; cases hl; exact h2

theorem mem_of_contains {xs : List Var} {q : Var} (h : xs.contains q = true) : q ∈ xs := by
  simpa using h

/-- the may-sets are sound: whatever a variable is bound to after any execution, if it is a caller buffer then the
certificate lists a parameter bound to that buffer -/
theorem may_sound (p : Prog) (may : Var → List Var) (hc : checkAlias p may = true)
    (s0 s : St) (hi : Init p s0) (hx : Exec p s0 s) : InvG p may s0 s := by
  simp only [checkAlias, Bool.and_eq_true, List.all_eq_true] at hc
  obtain ⟨hpar, hst⟩ := hc
  have hlt := paramBuf_lt hi
  induction hx with
  | refl =>
    refine ⟨Nat.le_refl _, ?_⟩
    intro x l hxl _
    by_cases hxp : x ∈ p.params
    · exact ⟨x, mem_of_contains (hpar x hxp), hxp, hxl⟩
    · rw [hi.unbound x hxp] at hxl; cases hxl
  | step t u st hmem _ hstep ih =>
    obtain ⟨h1, h3⟩ := ih
    have hs := hst st hmem
    cases hstep with
    | alloc x =>
      refine ⟨Nat.le_succ_of_le h1, ?_⟩
      intro y l hyl hpb
      simp only [setEnv] at hyl
      split at hyl
      · cases hyl; exact absurd h1 (Nat.not_le.mpr (hlt _ hpb))
      · exact h3 y l hyl hpb
    | aliasView x ys y l hy hyl =>
      refine ⟨h1, ?_⟩
      intro z l' hzl hpb
      simp only [setEnv] at hzl
      split at hzl
      · rename_i hzx; subst hzx
        have hll : l = l' := by injection hzl
        subst hll
        obtain ⟨q, hq, hqp, hql⟩ := h3 y l hyl hpb
        simp only [List.all_eq_true] at hs
        exact ⟨q, mem_of_contains (hs y hy q hq), hqp, hql⟩
      · exact h3 z l' hzl hpb
    | aliasCopy x ys =>
      refine ⟨Nat.le_succ_of_le h1, ?_⟩
      intro y l hyl hpb
      simp only [setEnv] at hyl
      split at hyl
      · cases hyl; exact absurd h1 (Nat.not_le.mpr (hlt _ hpb))
      · exact h3 y l hyl hpb
    | writeHit x l v hxl => exact ⟨h1, h3⟩
    | writeMiss x hxn => exact ⟨h1, h3⟩

/-- General soundness: a caller buffer that is not the buffer of a parameter listed in `writesTo` keeps its contents
along every execution. -/
theorem writes_sound (p : Prog) (may : Var → List Var) (hc : checkAlias p may = true)
    (s0 s : St) (hi : Init p s0) (hx : Exec p s0 s) :
    ∀ l, IsParamBuf p s0 l → (∀ q ∈ writesTo p may, s0.env q ≠ some l) → s.heap l = s0.heap l := by
  induction hx with
  | refl => intros; rfl
  | step t u st hmem hpre hstep ih =>
    intro l hpb hnot
    have hI := may_sound p may hc s0 t hi hpre
    cases hstep with
    | alloc x => exact ih l hpb hnot
    | aliasView x ys y l' hy hyl => exact ih l hpb hnot
    | aliasCopy x ys => exact ih l hpb hnot
    | writeMiss x hxn => exact ih l hpb hnot
    | writeHit x l' v hxl =>
      have hne : l ≠ l' := by
        intro h; subst h
        obtain ⟨q, hq, _, hql⟩ := hI.2 x l hxl hpb
        refine hnot q ?_ hql
        simp only [writesTo, List.mem_flatMap]
        exact ⟨.write x, hmem, hq⟩
      simp [hne, ih l hpb hnot]

theorem checkAlias_of_checkCert {p : Prog} {may : Var → List Var} (hc : checkCert p may = true) :
    checkAlias p may = true := by
  simp only [checkCert, Bool.and_eq_true, List.all_eq_true] at hc
  simp only [checkAlias, Bool.and_eq_true, List.all_eq_true]
  refine ⟨hc.1, fun st hst => ?_⟩
  have := hc.2 st hst
  cases st with
  | alloc x => rfl
  | alias x ys => exact this
  | write x => rfl

theorem writesTo_nil_of_checkCert {p : Prog} {may : Var → List Var} (hc : checkCert p may = true) :
    ∀ q, q ∉ writesTo p may := by
  simp only [checkCert, Bool.and_eq_true, List.all_eq_true] at hc
  intro q hq
  simp only [writesTo, List.mem_flatMap] at hq
  obtain ⟨st, hst, hq⟩ := hq
  have := hc.2 st hst
  cases st with
  | alloc x => simp at hq
  | alias x ys => simp at hq
  | write x =>
    simp only [List.isEmpty_iff] at this
    have hq' : q ∈ may x := hq
    rw [this] at hq'; simp at hq'

/-- Soundness of the certificate checker: if `checkCert p may` holds then NO execution of `p` (any order, any number of
statement instances) changes the contents of a buffer passed in by the caller. -/
theorem checkCert_sound (p : Prog) (may : Var → List Var) (hc : checkCert p may = true)
    (s0 s : St) (hi : Init p s0) (hx : Exec p s0 s) :
    ∀ q l, q ∈ p.params → s0.env q = some l → s.heap l = s0.heap l := by
  intro q l hq hl
  exact writes_sound p may (checkAlias_of_checkCert hc) s0 s hi hx l ⟨q, hq, hl⟩
    (fun q' hq' => absurd hq' (writesTo_nil_of_checkCert hc q'))

/-! ### Functions, certificates as tables, callee summaries -/

/-- may-sets as an association table (what the translator emits) -/
def mayOf (tab : List (Var × List Var)) (x : Var) : List Var :=
  match tab.lookup x with
  | some l => l
  | none => []

/-- summary of a callee as used at call sites: parameters it may write to, parameters its result may alias -/
structure Summary where
  mutates : List Var
  returns : List Var
deriving DecidableEq, Repr

structure Fn where
  name : String
  prog : Prog
  rets : List Var                       -- returned variables
  mayTab : List (Var × List Var)
  summary : Summary                     -- the summary the translator used for calls of this function

def Fn.may (f : Fn) : Var → List Var := mayOf f.mayTab

def subset (xs ys : List Var) : Bool := xs.all fun x => ys.contains x

/-- the summary derived from the function's own certificate -/
def Fn.derived (f : Fn) : Summary := ⟨writesTo f.prog f.may, f.rets.flatMap f.may⟩

/-- the summary used by callers over-approximates the derived one, and the aliasing certificate checks -/
def Fn.summaryOk (f : Fn) : Bool :=
  checkAlias f.prog f.may && subset f.derived.mutates f.summary.mutates && subset f.derived.returns f.summary.returns

/-- example programs: `mask = np.copy(mask); mask /= ...` is accepted, `cov /= ...` on a parameter is rejected -/
example : checkCert ⟨[0], [.alias 1 [0], .alloc 2, .write 2]⟩ (fun x => if x = 0 ∨ x = 1 then [0] else []) = true := by decide
example : checkCert ⟨[0], [.write 0]⟩ (fun x => if x = 0 then [0] else []) = false := by decide
example : checkCert ⟨[0], [.alias 1 [0], .write 1]⟩ (mayOf [(0, [0]), (1, [0])]) = false := by decide
end Eff

import PbBss.Model.Basic
import PbBss.Model.Optimal
/-! Models of `pb_bss/evaluation/module_si_sdr.py` (`si_sdr`) and `pb_bss/evaluation/sxr_module.py`
(`get_variance_for_zero_mean_signal`, `get_snr`, `set_snr`, `_sxr`, `input_sxr`, `output_sxr`); core Lean only,
generic in the scalar type.  `np.log10 x` is modelled as `log x / log 10`, `10 ** x` as `exp (x * log 10)`.

The output selection of `output_sxr` reuses `lexPermsAux` / `optimalLoop` / `permScore` of `Model/Optimal.lean`:
`lexPermsAux K_source (range K_target)` enumerates `itertools.permutations(range(K_target), r=K_source)` in the same
order, `optimalLoop` (strict improvement) is `np.argmax` (first maximum) over the left-to-right summed scores. -/
namespace PbBss.Metrics

section scalar
variable {α : Type} [Add α] [Sub α] [Mul α] [Div α] [Neg α] [OfNat α 0] [OfNat α 1] [NatCast α] [Transc α]

def ten : α := ((10 : Nat) : α)
def twenty : α := ((20 : Nat) : α)

/-- `np.log10` -/
def log10 (x : α) : α := Transc.log x / Transc.log (ten : α)

/-- `10 ** x` -/
def pow10 (x : α) : α := Transc.exp (x * Transc.log (ten : α))

/-- `10 * np.log10(x)` -/
def dB (x : α) : α := ten * log10 x

/-- `np.mean` over a vector -/
def mean {n : Nat} (f : Fin n → α) : α := vsum f / (n : α)

/-- `np.sum(x ** 2, axis=-1)` -/
def energy {T : Nat} (x : Fin T → α) : α := vsum fun t => x t * x t

/-- `np.sum(a * b, axis=-1)` -/
def dot {T : Nat} (a b : Fin T → α) : α := vsum fun t => a t * b t

/-! ### `si_sdr` -/

/-- `optimal_scaling`: `α = ⟨s, ŝ⟩ / ‖s‖²` -/
def optimalScaling {T : Nat} (s e : Fin T → α) : α := dot s e / energy s

/-- `si_sdr(reference = s, estimation = e)` for one pair of signals (one leading index) -/
def siSdr {T : Nat} (s e : Fin T → α) : α :=
  let a := optimalScaling s e
  let projection : Fin T → α := fun t => a * s t
  let noise : Fin T → α := fun t => e t - projection t
  dB (energy projection / energy noise)

/-- `si_sdr` on arrays `[..., T]`: the leading multi-index `ι` is carried along (after `np.broadcast_arrays`) -/
def siSdrBatch {ι : Type} {T : Nat} (s e : ι → Fin T → α) : ι → α := fun i => siSdr (s i) (e i)

/-! ### `get_snr` / `set_snr` -/

/-- `get_variance_for_zero_mean_signal` of a real signal: `np.mean(X ** 2)` -/
def meanPower {T : Nat} (x : Fin T → α) : α := mean fun t => x t * x t

/-- the same for a complex signal given by real and imaginary parts: `np.mean(X.real ** 2 + X.imag ** 2)` -/
def meanPowerC {T : Nat} (re im : Fin T → α) : α := mean fun t => re t * re t + im t * im t

/-- `get_snr` from the two mean powers: `10 * np.log10(power_X / power_N)` -/
def snrOfPowers (pX pN : α) : α := dB (pX / pN)

def getSnr {T : Nat} (X N : Fin T → α) : α := snrOfPowers (meanPower X) (meanPower N)

/-- `factor = 10 ** (-(snr - current_snr) / 20)` -/
def snrFactor (snr current : α) : α := pow10 (-(snr - current) / (twenty : α))

/-- `N * factor` -/
def scaleNoise {T : Nat} (f : α) (N : Fin T → α) : Fin T → α := fun t => N t * f

/-- `set_snr(X, N, snr)`: the rescaled noise (`current_snr` defaults to `get_snr(X, N)`) -/
def setSnr {T : Nat} (X N : Fin T → α) (snr : α) : Fin T → α :=
  scaleNoise (snrFactor snr (getSnr X N)) N

/-! ### `_sxr`, `input_sxr` -/

/-- the three ratios of one source: `(SDR, SIR, SNR) = (_sxr(S, I+N), _sxr(S, I), _sxr(S, N))` -/
def sxrTriple (S I N : α) : α × α × α := (dB (S / (I + N)), dB (S / I), dB (S / N))

/-- interference power of source `k` at channel `d`: `np.sum(S[[n for n in range(K) if n != k], d])` -/
def interference {K D : Nat} (S : Fin K → Fin D → α) (k : Fin K) (d : Fin D) : α :=
  vsum fun n : Fin K => if n = k then 0 else S n d

/-- `input_sxr(average_sources=False, average_channels=False)` from the signal powers `S[k, d]`, noise powers `N[d]` -/
def inputSxrFF {K D : Nat} (S : Fin K → Fin D → α) (N : Fin D → α) (k : Fin K) (d : Fin D) : α × α × α :=
  sxrTriple (S k d) (interference S k d) (N d)

/-- `average_channels=True`: `S, I, N = [np.mean(power, axis=-1) …]` before the ratios -/
def inputSxrFT {K D : Nat} (S : Fin K → Fin D → α) (N : Fin D → α) (k : Fin K) : α × α × α :=
  sxrTriple (mean (S k)) (mean (interference S k)) (mean N)

/-- componentwise `np.mean(·, axis=0)` of per-source triples -/
def meanTriple {K : Nat} (x : Fin K → α × α × α) : α × α × α :=
  (mean fun k => (x k).1, mean fun k => (x k).2.1, mean fun k => (x k).2.2)

/-- `average_sources=True, average_channels=False` -/
def inputSxrTF {K D : Nat} (S : Fin K → Fin D → α) (N : Fin D → α) (d : Fin D) : α × α × α :=
  meanTriple fun k => inputSxrFF S N k d

/-- `average_sources=True, average_channels=True` (the defaults) -/
def inputSxrTT {K D : Nat} (S : Fin K → Fin D → α) (N : Fin D → α) : α × α × α :=
  meanTriple fun k => inputSxrFT S N k

/-! ### `output_sxr` -/

/-- `itertools.permutations(range(K_target), r=K_source)` -/
def selections (Ks Kt : Nat) : List (List Nat) := lexPermsAux Ks (List.range Kt)

variable [LT α] [DecidableLT α]

/-- `all_target_selections[np.argmax(mutual_power)]`; `none` when there is no injective selection
(`K_target < K_source`: the code's shape assertion fails) -/
def selectOutputs (Ks Kt : Nat) (S : Nat → Nat → α) : Option (List Nat) :=
  (optimalLoop S (selections Ks Kt) none).map (·.1)

/-- per-source triples of `output_sxr` for a given selection `sel` (`S[k, j]`: power of source `k` in output `j`) -/
def outputSxrPer {Ks Kt : Nat} (S : Fin Ks → Fin Kt → α) (N : Fin Kt → α) (sel : Fin Ks → Fin Kt) (k : Fin Ks) :
    α × α × α :=
  sxrTriple (S k (sel k)) (vsum fun n : Fin Ks => if n = k then 0 else S n (sel k)) (N (sel k))

/-- the selection as a function (entries that are out of range cannot occur; they are mapped to `0`) -/
def selFn {Ks Kt : Nat} (hKt : 0 < Kt) (p : List Nat) : Fin Ks → Fin Kt :=
  fun k => if h : p.getD k.val 0 < Kt then ⟨p.getD k.val 0, h⟩ else ⟨0, hKt⟩

def extend {Ks Kt : Nat} (S : Fin Ks → Fin Kt → α) : Nat → Nat → α :=
  fun i j => if h : i < Ks ∧ j < Kt then S ⟨i, h.1⟩ ⟨j, h.2⟩ else 0

/-- `output_sxr(average_sources=False)` -/
def outputSxrF {Ks Kt : Nat} (hKt : 0 < Kt) (S : Fin Ks → Fin Kt → α) (N : Fin Kt → α) :
    Option (Fin Ks → α × α × α) :=
  (selectOutputs Ks Kt (extend S)).map fun p => outputSxrPer S N (selFn hKt p)

/-- `output_sxr(average_sources=True)` -/
def outputSxrT {Ks Kt : Nat} (hKt : 0 < Kt) (S : Fin Ks → Fin Kt → α) (N : Fin Kt → α) : Option (α × α × α) :=
  (outputSxrF hKt S N).map meanTriple

end scalar

/-! ### `return_dict` decision logic (identical text at the end of `input_sxr` and of `output_sxr`) -/

/-- the Python value passed as `return_dict`, as far as the code inspects it -/
inductive RetArg
  | bool (b : Bool)
  | str (s : String)
  /-- any other object, with its truth value (`None`, numbers, lists, …) -/
  | other (truthy : Bool)
deriving DecidableEq, Repr

/-- what the call returns -/
inductive RetShape
  | tuple
  | dict (keys : List String)
  | typeError
deriving DecidableEq, Repr

/-- Python truthiness of the argument -/
def RetArg.truthy : RetArg → Bool
  | .bool b => b
  | .str s => s != ""
  | .other t => t

def sxrKeys : List String := ["sdr", "sir", "snr"]

/-- tail of `input_sxr`: `if return_dict: if return_dict is True … elif isinstance(return_dict, str) … else raise` -/
def inputRet (rd : RetArg) : RetShape :=
  if rd.truthy then
    match rd with
    | .bool true => .dict sxrKeys
    | .str s => .dict (sxrKeys.map (s ++ ·))
    | _ => .typeError
  else .tuple

/-- tail of `output_sxr` (transcribed separately: the two functions do not share code) -/
def outputRet (rd : RetArg) : RetShape :=
  if rd.truthy then
    match rd with
    | .bool true => .dict sxrKeys
    | .str s => .dict (sxrKeys.map (s ++ ·))
    | _ => .typeError
  else .tuple

end PbBss.Metrics

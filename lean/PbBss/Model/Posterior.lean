import PbBss.Model.Basic
/-! Models of the posterior / initialiser / normalisation layer (core Lean only; properties C01, C04, C05).

Transcribed sources (pb_bss):
* `distribution/mixture_model_utils.py`: `log_pdf_to_affiliation` (`affiliation`), `estimate_mixture_weight`
  (`estimateWeight`, `estimateWeightSal`), the `_m_step` weight formula of the integration models
  (`integrationWeight`);
* `utils.py: unsqueeze` (`unsqueezeShape`) and NumPy broadcasting of the stored weight against a `(F, K, T)`
  log-pdf (`bcastOffset`, `weightAt`);
* `initializer/iid.py` (`uniformNormalized`, `oneHot`, `dirichletT`), `deterministic.py: flag` (`flag`; the
  `np.linspace` segment labels are an input, their Float arithmetic is transcribed in the driver), `deflation.py` (`deflationSimilarity`, `deflationTail`);
* `distribution/utils.py: _unit_norm` (`unitNorm`, three eps styles), `normalize_observation` of cACG
  (`normalizeWhere`) and of Watson / Bingham / the integration models (`normalizeMax`), the real variant used by
  vMF (`normalizeMaxR`);
* the observation statistics through which the directional models see the data: `outer` (`z zᴴ`), `quadForm`
  (cACG / Bingham), `innerAbsSq` (Watson), `scatter` (M-steps), `dotR` / `resultant` (vMF);
* the loop of every mixture trainer (`fit`): M-step on the start affiliation, then `(E-step; M-step)`
  repeated, and the generic mixture E-step and M-step pair (`Mix.eStep`, `Mix.mStep`) with per-class component
  routines as parameters.

Index conventions: classes `Fin (K+1)` (the source takes a maximum over the class axis, which needs one class),
affiliations `γ f k t` for the documented `(F, K, T)` / `(…, K, N)` layout. -/
namespace PbBss.Posterior

/-! ### `log_pdf_to_affiliation` for one observation -/
section affiliation
variable {α : Type} [Add α] [Sub α] [Mul α] [Div α] [OfNat α 0] [OfNat α 1] [Max α] [Min α] [Transc α]

/-- a boolean mask entry as the factor NumPy multiplies with (`True → 1.0`, `False → 0.0`) -/
def maskVal (b : Bool) : α := if b then 1 else 0

/-- `affiliation *= source_activity_mask` (skipped when the mask is `None`) -/
def applyMask {n : Nat} (mask : Option (Fin n → Bool)) (u : Fin n → α) : Fin n → α :=
  match mask with
  | none => u
  | some m => fun k => u k * maskVal (m k)

/-- `np.clip(a, eps, 1 - eps)` when `affiliation_eps != 0` (`none` = the `== 0` branch: no clipping) -/
def clip (eps : Option α) (a : α) : α :=
  match eps with
  | none => a
  | some e => min (1 - e) (max a e)

/-- the unnormalised posterior: `exp(lp - amax(lp)) * weight (* mask)` -/
def unnorm {K : Nat} (w lp : Fin (K+1) → α) (mask : Option (Fin (K+1) → Bool)) : Fin (K+1) → α :=
  let m := vmax lp
  applyMask mask (fun k => Transc.exp (lp k - m) * w k)

/-- `denominator = np.maximum(np.sum(affiliation, axis=-2), tiny)` -/
def denominator {K : Nat} (tiny : α) (w lp : Fin (K+1) → α) (mask : Option (Fin (K+1) → Bool)) : α :=
  max (vsum (unnorm w lp mask)) tiny

/-- `log_pdf_to_affiliation(weight, log_pdf, source_activity_mask, affiliation_eps)` for one observation:
`w k` is the (already broadcast) weight of class `k`, `lp k` its log-pdf. -/
def affiliation {K : Nat} (tiny : α) (eps : Option α) (w lp : Fin (K+1) → α)
    (mask : Option (Fin (K+1) → Bool)) : Fin (K+1) → α :=
  let u := unnorm w lp mask
  let den := denominator tiny w lp mask
  fun k => clip eps (u k / den)

/-- the test `affiliation_eps != 0` of the source -/
def epsOption [BEq α] (eps : α) : Option α := if eps == 0 then none else some eps

/-- log-pdf of the integration models: `spatial_weight * cacg_log_pdf + spectral_weight * other_log_pdf` -/
def integrationLogPdf (spatialWeight spectralWeight a b : α) : α :=
  spatialWeight * a + spectralWeight * b
end affiliation

/-! ### broadcasting of the stored weights (`unsqueeze` + NumPy broadcasting) -/
section broadcast

/-- Python `list.insert(p, x)` -/
def insertAt (l : List Nat) (p x : Nat) : List Nat := l.take p ++ x :: l.drop p

/-- insertion into an ascending list / insertion sort (`sorted(axis)`) -/
def insSorted (x : Nat) : List Nat → List Nat
  | [] => [x]
  | y :: ys => if x ≤ y then x :: y :: ys else y :: insSorted x ys

def sortNat (l : List Nat) : List Nat := l.foldr insSorted []

/-- `pb_bss.utils.unsqueeze(array, axis)`: the new shape (`none` = the `IndexError` branch) -/
def unsqueezeShape (shape : List Nat) (axis : List Int) : Option (List Nat) :=
  let fut : Int := ((shape.length + axis.length : Nat) : Int)
  if axis.all (fun a => decide (-fut ≤ a) && decide (a < fut)) then
    let pos := sortNat (axis.map fun a => (a % fut).toNat)
    some (pos.foldl (fun s p => insertAt s p 1) shape)
  else none

/-- row-major offset into an array of shape `shape` when it is broadcast against the index `idx` of a larger
array (right-aligned; axes of extent 1 are read at position 0) -/
def bcastOffset (shape idx : List Nat) : Nat :=
  let idx' := idx.drop (idx.length - shape.length)
  (shape.zip idx').foldl (fun acc di => acc * di.1 + (if di.1 = 1 then 0 else di.2)) 0

/-- weight that meets log-pdf entry `(f, k, t)`: flat weight data `wd` of shape `shape` -/
def weightAt {α : Type} (wd : Nat → α) (shape : List Nat) (f k t : Nat) : α :=
  wd (bcastOffset shape [f, k, t])
end broadcast

/-! ### `estimate_mixture_weight` -/
section weights
variable {α : Type} [Add α] [Sub α] [Mul α] [Div α] [Neg α] [OfNat α 0] [OfNat α 1] [Max α] [LT α]
  [DecidableLT α] [NatCast α]

/-- which of the axes `-3, -2, -1` of the `(F, K, T)` affiliation are in `weight_constant_axis` -/
structure Tie where
  f : Bool
  k : Bool
  t : Bool
deriving DecidableEq, Repr

/-- sum over one axis if it is tied, otherwise keep the index (`keepdims=True`) -/
def redAxis (b : Bool) {n : Nat} (g : Fin n → α) (i : Fin n) : α := if b then vsum g else g i

/-- `np.sum(x, axis=weight_constant_axis, keepdims=True)` read at `(f, k, t)` -/
def sumTied {F K T : Nat} (tie : Tie) (x : Fin F → Fin K → Fin T → α) (f : Fin F) (k : Fin K) (t : Fin T) : α :=
  redAxis tie.f (fun f' => redAxis tie.k (fun k' => redAxis tie.t (fun t' => x f' k' t') t) k) f

/-- number of entries averaged by `np.mean(…, axis=weight_constant_axis)` -/
def tiedCount (tie : Tie) (F K T : Nat) : Nat :=
  (if tie.f then F else 1) * (if tie.k then K else 1) * (if tie.t then T else 1)

/-- `estimate_mixture_weight(affiliation, saliency=None, weight_constant_axis)`; `intMinus2` is the branch
`isinstance(weight_constant_axis, int) and … == -2` returning `np.full([K, 1], 1/K)` -/
def estimateWeight {F K T : Nat} (intMinus2 : Bool) (tie : Tie) (γ : Fin F → Fin K → Fin T → α) :
    Fin F → Fin K → Fin T → α :=
  if intMinus2 then fun _ _ _ => 1 / (K : α)
  else fun f k t => sumTied tie γ f k t / ((tiedCount tie F K T : Nat) : α)

/-- `abs` through the order (`|x| = max x (-x)`) -/
def absv (x : α) : α := max x (-x)

/-- `np.where(norm == 0, eps, norm)`; the equality test is written with `<` (identical for every non-NaN value) -/
def whereZero (eps n : α) : α := if n < 0 then n else if 0 < n then n else eps

/-- the saliency branch: `_unit_norm(sum(affiliation * saliency[..., None, :], axis=wca, keepdims=True),
ord=1, axis=-2, eps=1e-10, eps_style='where')` -/
def estimateWeightSal {F K T : Nat} (intMinus2 : Bool) (tie : Tie) (eps : α) (γ : Fin F → Fin K → Fin T → α)
    (sal : Fin F → Fin T → α) : Fin F → Fin K → Fin T → α :=
  if intMinus2 then fun _ _ _ => 1 / (K : α)
  else
    let s : Fin F → Fin K → Fin T → α := sumTied tie (fun f k t => γ f k t * sal f t)
    -- tuple `weight_constant_axis` containing the class axis: the L1 norm runs over a singleton axis, each of the
    -- `K` classes then gets an equal share (`weight / affiliation.shape[-2]`)
    fun f k t =>
      -- `keepdims=True`: when the class axis is tied, the L1 norm over axis -2 runs over a singleton
      let nrm := if tie.k then absv (s f k t) else vsum fun k' => absv (s f k' t)
      let w := s f k t / whereZero eps nrm
      if tie.k then w / (K : α) else w

/-- `_m_step` of GCACGMM / VMFCACGMM: `1/K` if `-2 in weight_constant_axis`, else
`sum(masked_affiliation, axis=wca, keepdims=True)` divided by `maximum(its sum over the class axis, tiny)` -/
def integrationWeight {F K T : Nat} (tiny : α) (tie : Tie) (γ : Fin F → Fin K → Fin T → α)
    (sal : Fin F → Fin T → α) : Fin F → Fin K → Fin T → α :=
  if tie.k then fun _ _ _ => 1 / (K : α)
  else
    let s : Fin F → Fin K → Fin T → α := sumTied tie (fun f k t => γ f k t * sal f t)
    fun f k t => s f k t / max (vsum fun k' => s f k' t) tiny
end weights

/-! ### initialisers -/
section init
variable {α : Type} [Add α] [Sub α] [Mul α] [Div α] [OfNat α 0] [OfNat α 1] [Max α] [NatCast α]

/-- `iid.uniform_normalized` for one observation: `u / einsum('...kn->...n', u)` (`u` = the uniform draws) -/
def uniformNormalized {K : Nat} (u : Fin K → α) : Fin K → α := fun k => u k / vsum u

/-- `label_to_one_hot(labels, K).T`: `np.eye(K)[labels].T` -/
def oneHot {K N : Nat} (labels : Fin N → Fin K) : Fin K → Fin N → α :=
  fun k n => if labels n = k then 1 else 0

/-- `iid.dirichlet`: the drawn rows `(N, K)` with the last two axes swapped -/
def dirichletT {K N : Nat} (draws : Fin N → Fin K → α) : Fin K → Fin N → α := fun k n => draws n k

/-- `deterministic.flag` (branch `minimum != 0`): `init = maximum(one_hot, minimum / (1 - (K-1)·minimum))`,
then `init /= sum over classes` -/
def flag {K N : Nat} (minimum : α) (labels : Fin N → Fin K) : Fin K → Fin N → α :=
  let c : α := minimum / (1 - ((K - 1 : Nat) : α) * minimum)
  let raw : Fin K → Fin N → α := fun k n => max (oneHot labels k n) c
  fun k n => raw k n / vsum fun k' => raw k' n

/-- tail of `deflationSeed` for one time-frequency point: `sims` are the `K` similarities collected in the
loop; the last class gets `1 - Σ sims`; `maximum(·, eps)`; normalise over the classes -/
def deflationTail {K : Nat} (eps : α) (sims : Fin K → α) : Fin (K+1) → α :=
  let p : Fin (K+1) → α := fun k => if h : k.val < K then sims ⟨k.val, h⟩ else 1 - vsum sims
  let q : Fin (K+1) → α := fun k => max (p k) eps
  fun k => q k / vsum q
end init

/-! ### normalisation of observations and the statistics the directional models read -/

/-- constructor of a complex number from its parts (`CxOps` has only the projections) -/
class CxMk (α β : Type) where
  ofParts : α → α → β

instance : CxMk Float CF := ⟨fun a b => ⟨a, b⟩⟩

section direction
variable {α β : Type} [Add α] [Sub α] [Mul α] [Div α] [OfNat α 0] [OfNat α 1] [Max α] [LT α] [DecidableLT α]
  [Transc α] [CxOps α β] [CxMk α β] [Add β] [Mul β] [OfNat β 0]

/-- complex array divided by a real array (`signal / norm`): NumPy divides both parts by the real number -/
def divReal (z : β) (r : α) : β := CxMk.ofParts (CxOps.re z / r) (CxOps.im z / r)

/-- `|z|²` -/
def absSq (z : β) : α := CxOps.re z * CxOps.re z + CxOps.im z * CxOps.im z

/-- `np.linalg.norm(y, axis=-1)` of a complex vector -/
def norm2 {D : Nat} (y : Fin D → β) : α := Transc.sqrt (vsum fun d => absSq (α := α) (y d))

/-- eps styles of `_unit_norm` -/
inductive EpsStyle | plus | max | where_
deriving DecidableEq, Repr

/-- the denominator `_unit_norm` divides by -/
def unitNormDen (style : EpsStyle) (eps nrm : α) : α :=
  match style with
  | .plus => nrm + eps
  | .max => max nrm eps
  | .where_ => if nrm < 0 then nrm else if 0 < nrm then nrm else eps

/-- `_unit_norm(signal, axis=-1, eps, eps_style)` (2-norm) for one vector -/
def unitNorm {D : Nat} (style : EpsStyle) (eps : α) (y : Fin D → β) : Fin D → β :=
  let den := unitNormDen style eps (norm2 (α := α) y)
  fun d => divReal (y d) den

/-- cACG `normalize_observation` for one frame (`eps = tiny`, `eps_style = 'where'`) -/
def normalizeWhere {D : Nat} (tiny : α) (y : Fin D → β) : Fin D → β := unitNorm EpsStyle.where_ tiny y

/-- `y / np.maximum(np.linalg.norm(y), tiny)`: Watson / Bingham `normalize_observation`, `predict` of cWMM,
cBMM, GCACGMM, VMFCACGMM -/
def normalizeMax {D : Nat} (tiny : α) (y : Fin D → β) : Fin D → β := unitNorm EpsStyle.max tiny y

/-- the real-valued variant used by vMF / vMFMM and the embedding stream of vMF-cACGMM -/
def normalizeMaxR {D : Nat} (tiny : α) (y : Fin D → α) : Fin D → α :=
  let den := max (Transc.sqrt (vsum fun d => y d * y d)) tiny
  fun d => y d / den

/-- `z zᴴ` -/
def outer {D : Nat} (z : Fin D → β) : Fin D → Fin D → β := fun d e => z d * CxOps.conj (α := α) (z e)

/-- `zᴴ B z` (cACG: `B = U diag(1/λ) Uᴴ`; Bingham: `B` = parameter matrix) -/
def quadForm {D : Nat} (B : Fin D → Fin D → β) (z : Fin D → β) : β :=
  vsum fun d => vsum fun e => CxOps.conj (α := α) (z d) * B d e * z e

/-- Watson: `|Σ_d y_d conj(w_d)|²` -/
def innerAbsSq {D : Nat} (w z : Fin D → β) : α :=
  absSq (α := α) (vsum fun d => z d * CxOps.conj (α := α) (w d))

/-- weighted scatter matrix `Σ_n s_n z_n z_nᴴ` (M-steps of cACG, Watson, Bingham) -/
def scatter {D N : Nat} (s : Fin N → α) (z : Fin N → Fin D → β) : Fin D → Fin D → β :=
  fun d e => vsum fun n => CxOps.ofReal (s n) * (z n d * CxOps.conj (α := α) (z n e))

/-- vMF: `Σ_d y_d μ_d` -/
def dotR {D : Nat} (y mu : Fin D → α) : α := vsum fun d => y d * mu d

/-- vMF M-step: resultant `Σ_n s_n y_n` -/
def resultant {D N : Nat} (s : Fin N → α) (y : Fin N → Fin D → α) : Fin D → α :=
  fun d => vsum fun n => s n * y n d

/-- `deflationSeed`: `|Σ_d conj(Z_d) m_d|²` -/
def deflationSimilarity {D : Nat} (z m : Fin D → β) : α :=
  absSq (α := α) (vsum fun d => CxOps.conj (α := α) (z d) * m d)
end direction

/-! ### the EM loop of the mixture trainers -/
section em

/-- `Trainer.fit(initialization=γ₀, iterations=n+1)`: `model = m_step(γ₀)`, then `n` times
`affiliation = predict(model); model = m_step(affiliation)` -/
def fit {Γ Θ : Type} (eStep : Θ → Γ) (mStep : Γ → Θ) : Nat → Γ → Θ
  | 0, γ => mStep γ
  | n+1, γ => mStep (eStep (fit eStep mStep n γ))

/-- `fit_predict`: posterior of the fitted model -/
def fitPredict {Γ Θ : Type} (eStep : Θ → Γ) (mStep : Γ → Θ) (n : Nat) (γ : Γ) : Γ :=
  eStep (fit eStep mStep n γ)

variable {α : Type} [Add α] [Sub α] [Mul α] [Div α] [Neg α] [OfNat α 0] [OfNat α 1] [Max α] [Min α] [LT α]
  [DecidableLT α] [NatCast α] [Transc α]

/-- what the E-step hands to the M-step: affiliations and the per-class auxiliary statistic
(the quadratic form of the cACG based models; unused by the others) -/
structure EOut (α : Type) (F K T : Nat) where
  aff : Fin F → Fin K → Fin T → α
  aux : Fin F → Fin K → Fin T → α

/-- a fitted mixture: broadcast weights and one component parameter per class -/
structure Mix (α P : Type) (F K T : Nat) where
  weight : Fin F → Fin K → Fin T → α
  comp : Fin K → P

/-- which weight formula the trainer's `_m_step` uses -/
inductive WeightRule (α : Type)
  /-- `estimate_mixture_weight(affiliation, saliency=None, …)` (cACGMM without saliency) -/
  | mean (intMinus2 : Bool)
  /-- `estimate_mixture_weight(affiliation, saliency, …)` (cACGMM with saliency; cWMM, cBMM, GMM, vMFMM always) -/
  | saliency (intMinus2 : Bool) (eps : α)
  /-- the in-line formula of GCACGMM / VMFCACGMM -/
  | integration (tiny : α)

/-- the mixture weights computed by `_m_step` -/
def mixWeight {F K T : Nat} (rule : WeightRule α) (tie : Tie) (γ : Fin F → Fin K → Fin T → α)
    (sal : Fin F → Fin T → α) : Fin F → Fin K → Fin T → α :=
  match rule with
  | .mean i2 => estimateWeight i2 tie γ
  | .saliency i2 eps => estimateWeightSal i2 tie eps γ sal
  | .integration tiny => integrationWeight tiny tie γ sal

/-- configuration of a generic mixture trainer; the per-class component routines are parameters
(`logPdf`, `auxStat`: density and auxiliary statistic of one component on the whole `(F, T)` slab;
`fitComp`: component M-step from the class's saliency-weighted affiliations and auxiliary statistic) -/
structure MixCfg (α P : Type) (F K T : Nat) where
  tiny : α
  eps : Option α
  rule : WeightRule α
  tie : Tie
  sal : Fin F → Fin T → α
  mask : Option (Fin F → Fin K → Fin T → Bool)
  logPdf : P → Fin F → Fin T → α
  auxStat : P → Fin F → Fin T → α
  fitComp : (Fin F → Fin T → α) → (Fin F → Fin T → α) → P

/-- E-step (`_predict`): component log-pdfs + stored weights through `log_pdf_to_affiliation` -/
def Mix.eStep {P : Type} {F K T : Nat} (c : MixCfg α P F (K+1) T) (θ : Mix α P F (K+1) T) : EOut α F (K+1) T :=
  { aff := fun f k t =>
      affiliation c.tiny c.eps (fun k' => θ.weight f k' t) (fun k' => c.logPdf (θ.comp k') f t)
        (c.mask.map fun m k' => m f k' t) k
    aux := fun f k t => c.auxStat (θ.comp k) f t }

/-- M-step (`_m_step`): mixture weights by the trainer's weight rule, every component from its own class row
(`masked_affiliation = affiliation * saliency[..., None, :]`) -/
def Mix.mStep {P : Type} {F K T : Nat} (c : MixCfg α P F K T) (e : EOut α F K T) : Mix α P F K T :=
  { weight := mixWeight c.rule c.tie e.aff c.sal
    comp := fun k => c.fitComp (fun f t => e.aff f k t * c.sal f t) (fun f t => e.aux f k t) }
end em

end PbBss.Posterior

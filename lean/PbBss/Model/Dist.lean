import PbBss.Model.Basic
/-! Models of the `log_pdf` methods of the distribution objects (property C07), core Lean only, one observation
(the leading axes and the sample axis of the NumPy code are independent repetitions of these scalar programs).

Transcribed sources (`/repo/pb_bss/distribution/`):
* `gaussian.py`: `Gaussian.log_pdf`, `DiagonalGaussian.log_pdf`, `SphericalGaussian.log_pdf`
  (+ the scikit-learn helpers `_compute_precision_cholesky('diag')`, `_compute_log_det_cholesky` for all three types);
* `complex_circular_symmetric_gaussian.py`: `log_pdf`;
* `von_mises_fisher.py`: `log_norm`, `log_pdf`;
* `complex_watson.py`: `log_norm_1f1`, `log_pdf`;
* `complex_bingham.py`: `covariance`, `log_pdf`, `norm`, `_remove_duplicate_eigenvalues`;
* `complex_angular_central_gaussian.py`: `normalize_observation`, `log_determinant`, `_log_pdf`, `log_pdf`.

Externals are parameters (their values come from the real call in the correspondence run):
the full precision-Cholesky factor `P`, `np.linalg.slogdet` / `np.linalg.solve` of the complex Gaussian,
`scipy.special.ive`, `scipy.special.hyp1f1`, the stored eigen-decomposition, the constant `np.pi` and
`np.finfo(float).tiny`. -/
namespace PbBss.Dist

/-- `x ** n` for a natural exponent -/
def npow {α} [Mul α] [OfNat α 1] (x : α) (n : Nat) : α := Fin.foldl n (fun acc _ => acc * x) 1

/-- `np.prod` of a family -/
def vprod {α} [Mul α] [OfNat α 1] {n : Nat} (f : Fin n → α) : α := Fin.foldl n (fun acc i => acc * f i) 1

/-- `math.factorial` -/
def fact : Nat → Nat
  | 0 => 1
  | n + 1 => (n + 1) * fact n

section real
variable {α : Type} [Add α] [Sub α] [Mul α] [Div α] [Neg α] [OfNat α 0] [OfNat α 1] [OfNat α 2] [NatCast α]
  [Max α] [LT α] [DecidableLT α] [Transc α]

/-- `np.abs` of a real number -/
def absR (x : α) : α := if x < 0 then -x else x

/-! ### `gaussian.py` -/

/-- `_compute_log_det_cholesky(pc, 'full', D)`: sum of the logs of the diagonal -/
def logDetFull {D : Nat} (P : Fin D → Fin D → α) : α := vsum fun d => Transc.log (P d d)

/-- `_compute_precision_cholesky(c, 'diag')`: `1 / sqrt(c)` (also used for the spherical type) -/
def precCholDiag {D : Nat} (c : Fin D → α) : Fin D → α := fun d => 1 / Transc.sqrt (c d)

/-- `_compute_log_det_cholesky(pc, 'diag', D)` -/
def logDetDiag {D : Nat} (p : Fin D → α) : α := vsum fun d => Transc.log (p d)

/-- `_compute_log_det_cholesky(pc, 'spherical', D)`: `D * log(pc)` -/
def logDetSpherical (D : Nat) (p : α) : α := (D : α) * Transc.log p

/-- the common tail of the three `log_pdf`s:
`- 1 / 2 * D * np.log(2 * np.pi) + log_det_precision_cholesky - 1 / 2 * einsum('...nd,...nd->...n', white_x, white_x)` -/
def gaussTail {D : Nat} (pi ell : α) (white : Fin D → α) : α :=
  (-(1 : α)) / 2 * (D : α) * Transc.log (2 * pi) + ell - 1 / 2 * vsum fun d => white d * white d

/-- `Gaussian.log_pdf`, one observation.  `P = precision_cholesky`, `ell = log_det_precision_cholesky`.
`white_x = einsum('...Dd,...nD->...nd', precision_cholesky, difference)`, i.e. `white[d] = Σ_D P[D,d]·diff[D]`. -/
def gaussLogPdf {D : Nat} (pi : α) (μ : Fin D → α) (P : Fin D → Fin D → α) (ell : α) (y : Fin D → α) : α :=
  let diff : Fin D → α := fun d => y d - μ d
  gaussTail pi ell fun d => vsum fun D' => P D' d * diff D'

/-- `DiagonalGaussian.log_pdf`: `white_x = einsum('...d,...nd->...nd', precision_cholesky, difference)` -/
def diagLogPdf {D : Nat} (pi : α) (μ p : Fin D → α) (ell : α) (y : Fin D → α) : α :=
  gaussTail pi ell fun d => p d * (y d - μ d)

/-- `SphericalGaussian.log_pdf`: `white_x = einsum('...,...nd->...nd', precision_cholesky, difference)` -/
def sphLogPdf {D : Nat} (pi : α) (μ : Fin D → α) (p ell : α) (y : Fin D → α) : α :=
  gaussTail pi ell fun d => p * (y d - μ d)

/-- `DiagonalGaussian(mean, covariance).log_pdf(y)` including `__post_init__` -/
def diagOfCov {D : Nat} (pi : α) (μ c : Fin D → α) (y : Fin D → α) : α :=
  diagLogPdf pi μ (precCholDiag c) (logDetDiag (precCholDiag c)) y

/-- `SphericalGaussian(mean, covariance).log_pdf(y)` including `__post_init__` -/
def sphOfCov {D : Nat} (pi : α) (μ : Fin D → α) (c : α) (y : Fin D → α) : α :=
  let p := 1 / Transc.sqrt c
  sphLogPdf pi μ p (logDetSpherical D p) y

/-! ### `von_mises_fisher.py` -/

/-- `VonMisesFisher.log_norm`; `iveVal = scipy.special.ive(D / 2 - 1, concentration)` -/
def vmfLogNorm (D : Nat) (pi κ iveVal : α) : α :=
  ((D : α) / 2) * Transc.log (2 * pi) + Transc.log iveVal + (absR κ - ((D : α) / 2 - 1) * Transc.log κ)

/-- `VonMisesFisher.log_pdf`, one observation: normalise, `einsum('...d,...d', y, mean)`, `*= κ`, `-= log_norm` -/
def vmfLogPdf {D : Nat} (pi tiny : α) (μ : Fin D → α) (κ iveVal : α) (y : Fin D → α) : α :=
  let nrm := Transc.sqrt (vsum fun d => y d * y d)
  let den := max nrm tiny
  (vsum fun d => y d / den * μ d) * κ - vmfLogNorm D pi κ iveVal

/-! ### `complex_bingham.py`: the normaliser -/

/-- `np.sort` (ascending) -/
def sortAsc (l : List α) : List α := l.mergeSort fun a b => !(b < a)

/-- the loop behind `cov[..., 1:] = cov[..., 0] + np.cumsum(np.maximum(np.diff(cov), eps))`:
`prev` is the previous *sorted input* value, `c` the running `cumsum` -/
def spreadAux (eps s0 : α) : α → α → List α → List α
  | _, _, [] => []
  | prev, c, x :: xs =>
    let c' := c + max (x - prev) eps
    (s0 + c') :: spreadAux eps s0 x c' xs

/-- `_remove_duplicate_eigenvalues` on an already sorted list (second return value) -/
def spread (eps : α) : List α → List α
  | [] => []
  | s0 :: xs => s0 :: spreadAux eps s0 s0 0 xs

/-- `ComplexBingham.norm(remove_duplicate_eigenvalues=False)`:
`deltas = λ[:, None] - λ[None, :]; deltas[d, d] = 1; a = 1 / prod(deltas, -1); 2 * pi**D * sum(a * exp(λ))` -/
def binghamNormRaw {D : Nat} (pi : α) (lam : Fin D → α) : α :=
  let a : Fin D → α := fun j => 1 / vprod fun k => if k = j then 1 else lam j - lam k
  2 * npow pi D * vsum fun j => a j * Transc.exp (lam j)

/-- `np.take_along_axis(λ, np.argsort(λ))`: the sorted eigenvalues as a family -/
def sortedFam {D : Nat} (lam : Fin D → α) : Fin D → α :=
  let l := sortAsc (List.ofFn lam)
  fun j => l.getD j.val 0

/-- sorted and spread eigenvalues as a family (the lists have length `D`, see `Proofs/DistProof.lean`) -/
def removeDup {D : Nat} (eps : α) (lam : Fin D → α) : Fin D → α :=
  let l := spread eps (sortAsc (List.ofFn lam))
  fun j => l.getD j.val 0

/-- `ComplexBingham.norm(remove_duplicate_eigenvalues=True, eps)` -/
def binghamNorm {D : Nat} (pi eps : α) (lam : Fin D → α) : α := binghamNormRaw pi (removeDup eps lam)

end real

section complex
variable {α β : Type} [Add α] [Sub α] [Mul α] [Div α] [Neg α] [OfNat α 0] [OfNat α 1] [OfNat α 2] [NatCast α]
  [Max α] [LT α] [DecidableLT α] [Transc α]
  [Add β] [Mul β] [OfNat β 0] [CxOps α β]

/-! ### `complex_circular_symmetric_gaussian.py` -/

/-- `ComplexCircularSymmetricGaussian.log_pdf`, one observation.
`logdet = np.linalg.slogdet(covariance)[-1]`, `s = np.linalg.solve(covariance, y)`:
`- D * log(pi) - logdet - einsum('...nd,...nd->...n', y.conj(), s).real` -/
def cgaussLogPdf {D : Nat} (pi logdet : α) (s y : Fin D → β) : α :=
  -(D : α) * Transc.log pi - logdet - CxOps.re (vsum fun d => CxOps.conj (α := α) (y d) * s d)

/-! ### `complex_watson.py` -/

/-- `log_norm_1f1`; `h = scipy.special.hyp1f1(1, D, κ)`: `log(h * (2 * pi**D / factorial(D-1)))` -/
def watsonLogNorm (D : Nat) (pi h : α) : α :=
  Transc.log (h * (2 * npow pi D / ((fact (D - 1) : Nat) : α)))

/-- `ComplexWatson.log_pdf`, one observation: `r = einsum('...d,...d', y, mode.conj())`,
`r.real**2 + r.imag**2`, `*= κ`, `-= log_norm` -/
def watsonLogPdf {D : Nat} (pi : α) (w : Fin D → β) (κ h : α) (y : Fin D → β) : α :=
  let r : β := vsum fun d => y d * CxOps.conj (α := α) (w d)
  (CxOps.re r * CxOps.re r + CxOps.im r * CxOps.im r) * κ - watsonLogNorm D pi h

/-! ### `complex_bingham.py`: `log_pdf` -/

/-- `covariance = einsum('...wx,...x,...zx->...wz', U, λ, U.conj())` (shared by Bingham and cACG) -/
def covariance {D : Nat} (U : Fin D → Fin D → β) (lam : Fin D → α) : Fin D → Fin D → β :=
  fun w z => vsum fun x => U w x * CxOps.ofReal (lam x) * CxOps.conj (α := α) (U z x)

/-- `einsum('...td,...dD,...tD->...t', y.conj(), covariance, y).real` -/
def binghamQuad {D : Nat} (U : Fin D → Fin D → β) (lam : Fin D → α) (y : Fin D → β) : α :=
  CxOps.re (vsum fun d => vsum fun e => CxOps.conj (α := α) (y d) * covariance U lam d e * y e)

/-- `ComplexBingham.log_pdf`, one observation -/
def binghamLogPdf {D : Nat} (pi eps : α) (U : Fin D → Fin D → β) (lam : Fin D → α) (y : Fin D → β) : α :=
  binghamQuad U lam y - Transc.log (binghamNorm pi eps lam)

/-! ### `complex_angular_central_gaussian.py` -/

/-- `np.abs` of a complex number -/
def absC (z : β) : α := Transc.sqrt (CxOps.re z * CxOps.re z + CxOps.im z * CxOps.im z)

/-- `normalize_observation` for one observation (`_unit_norm(..., eps=tiny, eps_style='where')`: the norm is
replaced by `tiny` where it is zero; a norm is never negative, so `norm == 0` is written `¬ 0 < norm`).
`complex / real` is the componentwise division; `CxOps` has no constructor from parts, so it is written as the
product with `ofReal (1 / den)` (identical over ℂ, within one ulp over `Float`). -/
def cacgNormalize {D : Nat} (tiny : α) (y : Fin D → β) : Fin D → β :=
  let nrm := Transc.sqrt (vsum fun d => CxOps.re (y d) * CxOps.re (y d) + CxOps.im (y d) * CxOps.im (y d))
  let den := if 0 < nrm then nrm else tiny
  fun d => y d * CxOps.ofReal (1 / den)

/-- the quadratic form of `_log_pdf`:
`einsum('...dt,...de,...e,...ge,...gt->...t', y.conj(), U, 1 / λ, U.conj(), y)`, then `maximum(abs(.), tiny)` -/
def cacgQuad {D : Nat} (tiny : α) (U : Fin D → Fin D → β) (lam : Fin D → α) (z : Fin D → β) : α :=
  let q : β := vsum fun d => vsum fun e => vsum fun g =>
    CxOps.conj (α := α) (z d) * U d e * CxOps.ofReal (1 / lam e) * CxOps.conj (α := α) (U g e) * z g
  max (absC q) tiny

/-- `ComplexAngularCentralGaussian.log_pdf`, one observation:
`-D * log(quadratic_form) - sum(log(eigenvalues))` of the normalised observation -/
def cacgLogPdf {D : Nat} (tiny : α) (U : Fin D → Fin D → β) (lam : Fin D → α) (y : Fin D → β) : α :=
  -(D : α) * Transc.log (cacgQuad tiny U lam (cacgNormalize tiny y)) - vsum fun e => Transc.log (lam e)

end complex

end PbBss.Dist

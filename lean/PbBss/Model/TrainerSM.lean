/-! C20, models 2 and 3 (core Lean only; executed by `driver_effects`).

**Trainer state machine** — transcription of the state handling of `CWMMTrainer` / `CBMMTrainer` /
`ComplexWatsonTrainer` / `ComplexBinghamTrainer` (pb_bss/distribution/cwmm.py:131-139, 217-223; cbmm.py:131-138, 207-213;
complex_watson.py:188-224, 243-251):

    def fit(self, y, ...):
        if self.dimension is None: self.dimension = y.shape[-1]
        else: assert self.dimension == y.shape[-1]                     # reject
        ... self._m_step(...)  ->  self.complex_watson_trainer          # cached_property, built from self.dimension
                                   (ComplexWatsonTrainer: self.spline   # cached_property, built from self.dimension)

State = ⟨dimension, cachedFor⟩ where `cachedFor` is the dimension the cached table / inner trainer was built for.
The numerical result of a fit is abstracted as `run tableDim args`: a function of the table actually used and of the
call's arguments only.

**Split fits** — transcription of the loop of `CACGMMTrainer.fit` (cacgmm.py:218-224, 252-275) for an abstract E-step
and M-step (data and options fixed). -/
namespace PbBss.TrainerSM

structure State where
  dimension : Option Nat
  cachedFor : Option Nat
deriving DecidableEq, Repr

/-- `Trainer(dimension=c)` -/
def init (c : Option Nat) : State := ⟨c, none⟩

/-- one `fit` call: feature dimension of the data, whether at least one M-step runs (iterations > 0), other arguments -/
structure Op (α : Type) where
  d : Nat
  usesTable : Bool
  args : α

inductive Out (ρ : Type) where
  | ok (table : Option Nat) (r : ρ)     -- accepted; `table` = dimension of the cached table used (none: no M-step ran)
  | reject                              -- AssertionError "different dimension"
deriving DecidableEq, Repr

variable {α ρ : Type}

/-- the accepted branch: bind the dimension, build the table on first use, run -/
def accept (run : Option Nat → α → ρ) (s : State) (o : Op α) : State × Out ρ :=
  if o.usesTable then
    let t := match s.cachedFor with
      | some t => t          -- cached_property: reuse whatever was built before
      | none => o.d          -- built now from self.dimension (= o.d on this branch)
    (⟨some o.d, some t⟩, .ok (some t) (run (some t) o.args))
  else
    (⟨some o.d, s.cachedFor⟩, .ok none (run none o.args))

def step (run : Option Nat → α → ρ) (s : State) (o : Op α) : State × Out ρ :=
  match s.dimension with
  | none => accept run s o
  | some d0 => if d0 = o.d then accept run s o else (s, .reject)

/-- state after a list of operations -/
def runOps (run : Option Nat → α → ρ) (s : State) : List (Op α) → State
  | [] => s
  | o :: os => runOps run (step run s o).1 os

/-- outputs of a list of operations -/
def outs (run : Option Nat → α → ρ) (s : State) : List (Op α) → List (Out ρ)
  | [] => []
  | o :: os => (step run s o).2 :: outs run (step run s o).1 os

/-- a (wrong) machine without the dimension check: used only to show the theorems are not vacuous -/
def stepNoCheck (run : Option Nat → α → ρ) (s : State) (o : Op α) : State × Out ρ := accept run s o

/-! ### split fits -/
section Split
variable {Γ Θ : Type} (mstep : Γ → Θ) (estep : Θ → Γ)

/-- loop state of `CACGMMTrainer.fit`: current model (None before the first M-step) and current affiliation/quadratic form -/
abbrev LoopSt (Γ Θ : Type) := Option Θ × Γ

/-- one pass of `for iteration in range(iterations)` -/
def loopBody (st : LoopSt Γ Θ) : LoopSt Γ Θ :=
  let γ := match st.1 with
    | some θ => estep θ        -- if model is not None: E-step (+ inline alignment) with the current model
    | none => st.2
  (some (mstep γ), γ)

/-- `n`-fold application (structural, so that it also runs in the driver) -/
def iter {β : Type} (f : β → β) : Nat → β → β
  | 0, x => x
  | n + 1, x => iter f n (f x)

/-- `fit(initialization=γ₀, iterations=n)` started from affiliations; returns the variable `model` -/
def fitAff (n : Nat) (γ₀ : Γ) : Option Θ := (iter (loopBody mstep estep) n (none, γ₀)).1

/-- `fit(initialization=θ, iterations=n)` started from a fitted model (`dummy` is the never-read affiliation variable) -/
def fitModel (n : Nat) (θ : Θ) (dummy : Γ) : Option Θ := (iter (loopBody mstep estep) n (some θ, dummy)).1

/-- closed forms -/
def emStep (θ : Θ) : Θ := mstep (estep θ)
def fitFromAff (n : Nat) (γ₀ : Γ) : Θ := iter (emStep mstep estep) (n - 1) (mstep γ₀)
def fitFromModel (n : Nat) (θ : Θ) : Θ := iter (emStep mstep estep) n θ

end Split
end PbBss.TrainerSM

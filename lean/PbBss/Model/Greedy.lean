/-! Model of `_mapping_from_score_matrix(..., 'greedy')` for one bin. core-only -/
namespace PbBss

/-- score entries: `none` = the `-inf` mask the code writes into picked rows/columns. -/
abbrev Sc (α : Type) := Option α

/-- strict "greater" on masked scores: anything finite beats -inf, -inf beats nothing -/
def gtSc {α} [LT α] [DecidableLT α] : Sc α → Sc α → Bool
  | some a, some b => decide (b < a)
  | some _, none => true
  | none, _ => false

/-- flat row-major argmax, first maximum wins (numpy argmax). Position list must be non-empty. -/
def argmaxOn {α} [LT α] [DecidableLT α] {K : Nat} (s : Fin K → Fin K → Sc α) :
    List (Fin K × Fin K) → Fin K × Fin K → Fin K × Fin K
  | [], best => best
  | p :: ps, best => argmaxOn s ps (if gtSc (s p.1 p.2) (s best.1 best.2) then p else best)

def allPos (K : Nat) : List (Fin K × Fin K) :=
  (List.finRange K).flatMap fun i => (List.finRange K).map fun j => (i, j)

def maskRC {α} {K : Nat} (s : Fin K → Fin K → Sc α) (i j : Fin K) : Fin K → Fin K → Sc α :=
  fun a b => if a = i ∨ b = j then none else s a b

/-- `t` greedy rounds; `rp` is `reverse_permutation` (initialised with zeros in the code). -/
def greedyLoop {α} [LT α] [DecidableLT α] {K : Nat} (hK : 0 < K) :
    Nat → (Fin K → Fin K → Sc α) → (Fin K → Fin K) → (Fin K → Fin K)
  | 0, _, rp => rp
  | t+1, s, rp =>
    let p := argmaxOn s (allPos K) (⟨0, hK⟩, ⟨0, hK⟩)
    greedyLoop hK t (maskRC s p.1 p.2) (fun a => if a = p.1 then p.2 else rp a)

def greedy {α} [LT α] [DecidableLT α] {K : Nat} (hK : 0 < K) (s : Fin K → Fin K → α) : Fin K → Fin K :=
  greedyLoop hK K (fun a b => some (s a b)) (fun _ => ⟨0, hK⟩)

end PbBss

import PbBss.Model.Basic
/-! Models of `pb_bss/extraction/mask_module.py` (core Lean only; `abs_square` from `pb_bss/utils.py`).

Two layers, both generic in the scalar types (`α` real, `β` complex over `α`):

* **point kernels** — what a mask function computes for ONE time-frequency point (a fibre of the input along
  the source axis and, if pooled, the sensor axis) or, for the quantile / Lorenz masks, for one row of
  statistics points: `ibm`, `ratioMask` (`wiener`, `irm`), `iam`, `psm`, `icm`, `percentileLinear`,
  `quantileLevel`, `lorenzThreshold`, `lorenzLevel`.
* **tensor layer** — the whole-array functions with their axis arguments (`source_axis`, `sensor_axis`,
  `keepdims`, `axis`), on tensors `Tens r γ` indexed by `Fin r → Nat`: `ibmT`, `wienerT`, `irmT`, `iamT`,
  `psmT`, `icmT`, `quantileT`, `lorenzT`, plus `transposeT` (`np.moveaxis` / `np.transpose`) and `squeezeT`.
  The driver executes this layer on full arrays, so the harness does no slicing of its own. -/
namespace PbBss.Masks

/-- `np.cos` and `np.angle(z) = arctan2(z.imag, z.real)` -/
class Trig (α : Type) where
  cos : α → α
  /-- `atan2 y x` -/
  atan2 : α → α → α

/-- `floor` of a non-negative real as an index (`np.floor(virtual_index).astype(intp)`) -/
class FloorNat (α : Type) where
  floorNat : α → Nat

instance : Trig Float := ⟨Float.cos, Float.atan2⟩
instance : FloorNat Float := ⟨fun x => x.floor.toUInt64.toNat⟩

/-! ## point kernels -/
section kernels
variable {α β : Type} [Add α] [Sub α] [Mul α] [Div α] [Neg α] [OfNat α 0] [OfNat α 1]
  [LT α] [DecidableLT α] [Transc α] [CxOps α β]

/-- `abs_square(x) = x.real ** 2 + x.imag ** 2` -/
def absSq (z : β) : α := CxOps.re z * CxOps.re z + CxOps.im z * CxOps.im z

/-- `np.abs` of a complex number -/
def cabs (z : β) : α := Transc.sqrt (absSq z)

/-- `mask.sum(sensor_axis)`: power of one source pooled over the sensors -/
def pooled {D : Nat} (s : Fin D → β) : α := vsum fun d => absSq (α := α) (s d)

/-- `ideal_binary_mask` at one point: `argmax(power, source_axis) == arange(K)` (first maximum) -/
def ibm {K : Nat} (p : Fin (K+1) → α) (k : Fin (K+1)) : α := if vargmax p = k then 1 else 0

/-- `mask /= mask.sum(source_axis, keepdims=True) + eps` -/
def ratioMask {K : Nat} (eps : α) (q : Fin K → α) (k : Fin K) : α := q k / (vsum q + eps)

/-- `wiener_like_mask` at one point with sensor pooling: `s k d` = source `k` at sensor `d` -/
def wiener {K D : Nat} (eps : α) (s : Fin K → Fin D → β) : Fin K → α :=
  ratioMask eps fun k => pooled (α := α) (s k)

/-- `wiener_like_mask` at one point, `sensor_axis=None` -/
def wiener1 {K : Nat} (eps : α) (s : Fin K → β) : Fin K → α :=
  ratioMask eps fun k => absSq (α := α) (s k)

/-- `ideal_ratio_mask` at one point: magnitudes instead of powers -/
def irm {K : Nat} (eps : α) (s : Fin K → β) : Fin K → α :=
  ratioMask eps fun k => cabs (α := α) (s k)

variable [Add β] [Div β] [OfNat β 0]

/-- `np.sum(signal, source_axis)`: the observed mixture at one point -/
def mixture {K : Nat} (s : Fin K → β) : β := vsum s

/-- `ideal_amplitude_mask`: `|s_k| / (|Σ_j s_j| + eps)` -/
def iam {K : Nat} (eps : α) (s : Fin K → β) (k : Fin K) : α :=
  cabs (α := α) (s k) / (cabs (α := α) (mixture s) + eps)

/-- `ideal_complex_mask`: `s_k / Σ_j s_j` -/
def icm {K : Nat} (s : Fin K → β) (k : Fin K) : β := s k / mixture s

variable [Trig α]

/-- `np.angle` -/
def angle (z : β) : α := Trig.atan2 (CxOps.im z : α) (CxOps.re z)

/-- `phase_sensitive_mask`: `|s_k| / (|y| + eps) * cos(angle(s_k) - angle(y))` -/
def psm {K : Nat} (eps : α) (s : Fin K → β) (k : Fin K) : α :=
  cabs (α := α) (s k) / (cabs (α := α) (mixture s) + eps)
    * Trig.cos (angle (α := α) (s k) - angle (α := α) (mixture s))

end kernels

/-! ### rows of statistics points: quantile and Lorenz masks -/
section rows
variable {α : Type} [Add α] [Sub α] [Mul α] [Div α] [Neg α] [OfNat α 0] [OfNat α 1]
  [LT α] [DecidableLT α] [NatCast α] [FloorNat α]

/-- `np.sort` (ascending) -/
def sortAsc (l : List α) : List α := l.mergeSort fun a b => !decide (b < a)

def half : α := 1 / (1 + 1)

/-- `0.5 + weight * (mask - 0.5)` for a boolean `mask` -/
def level (w : α) (b : Bool) : α := half + w * ((if b then 1 else 0) - half)

/-- `np.percentile(row, 100 * frac)` with the default method `'linear'`: virtual index `(n-1) * frac` into the
ascending order, neighbours `lo = ⌊vi⌋`, `hi = lo + 1` (clipped), `_lerp` with weight `γ = vi - lo`
(`a + (b-a) γ`, replaced by `b - (b-a)(1-γ)` where `γ ≥ 0.5`). -/
def percentileLinear (frac : α) (row : List α) : α :=
  let a := sortAsc row
  let n := a.length
  let vi : α := ((n - 1 : Nat) : α) * frac
  let lo := min (FloorNat.floorNat vi) (n - 1)
  let hi := min (lo + 1) (n - 1)
  let g : α := vi - (lo : α)
  let x := a.getD lo 0
  let y := a.getD hi 0
  if g < half then x + (y - x) * g else y - (y - x) * (1 - g)

def hundred : α := ((100 : Nat) : α)

/-- the percentile fraction `quantile_mask` asks for: `(1 - q) * 100 / 100` for `q ≥ 0`, `|q| * 100 / 100` else -/
def quantileFrac (q : α) : α :=
  if q < 0 then ((-q) * hundred) / hundred else ((1 - q) * hundred) / hundred

/-- `quantile_mask` for one point of magnitude `x` in its row of magnitudes: high level iff the point lies
strictly above the `(1-q)` quantile (`q ≥ 0`) / strictly below the `|q|` quantile (`q < 0`) -/
def quantileLevel (q w : α) (row : List α) (x : α) : α :=
  let thr := percentileLinear (quantileFrac q) row
  level w (if q < 0 then decide (x < thr) else decide (thr < x))

/-- running sums `np.cumsum` -/
def cumsumFrom : α → List α → List α
  | _, [] => []
  | acc, x :: xs => (acc + x) :: cumsumFrom (acc + x) xs

/-- `np.min` of a list (`none` = zero-size reduction, a `ValueError`) -/
def minList : List α → Option α
  | [] => none
  | x :: xs => some (xs.foldl (fun m v => if v < m then v else m) x)

/-- descending powers paired with their cumulative share: `(sorted_power, lorenz_function)` -/
def lorenzPairs (row : List α) : List (α × α) :=
  let d := (sortAsc row).reverse
  let tot := d.foldl (· + ·) 0
  d.zip ((cumsumFrom 0 d).map fun c => c / tot)

/-- `np.min(sorted_power[lorenz_function < lorenz_fraction])` -/
def lorenzThreshold (fraction : α) (row : List α) : Option α :=
  minList (((lorenzPairs row).filter fun p => decide (p.2 < fraction)).map (·.1))

/-- `lorenz_mask` for one point of (pooled) power `x` in its row; `none` = the code raises -/
def lorenzLevel (fraction w : α) (row : List α) (x : α) : Option α :=
  (lorenzThreshold fraction row).map fun thr => level w (decide (thr < x))

end rows

/-! ## tensor layer -/

/-- a tensor of rank `r`: shape and entries addressed by a multi-index `Fin r → Nat`
(entries outside the shape are never read by a well-formed caller) -/
structure Tens (r : Nat) (γ : Type) where
  shape : Fin r → Nat
  get : (Fin r → Nat) → γ

/-- multi-index with position `a` replaced by `v` -/
def upd {r : Nat} (idx : Fin r → Nat) (a : Fin r) (v : Nat) : Fin r → Nat :=
  fun i => if i = a then v else idx i

/-- multi-index with a new entry `v` inserted at position `a` (`np.expand_dims` on the index side) -/
def insAt {r : Nat} (a : Fin (r+1)) (v : Nat) (idx : Fin r → Nat) : Fin (r+1) → Nat :=
  fun i =>
    if h : i.val < a.val then idx ⟨i.val, by omega⟩
    else if h2 : i.val = a.val then v
    else idx ⟨i.val - 1, by omega⟩

/-- position `i` of the squeezed tensor in the un-squeezed one -/
def skipAt {r : Nat} (a : Fin (r+1)) (i : Fin r) : Fin (r+1) :=
  if i.val < a.val then ⟨i.val, by omega⟩ else ⟨i.val + 1, by omega⟩

namespace Tens
variable {r : Nat} {γ δ : Type}

def map (f : γ → δ) (t : Tens r γ) : Tens r δ := ⟨t.shape, fun idx => f (t.get idx)⟩

/-- `np.transpose(t, order)`: result axis `i` is input axis `order i`; `inv` is the inverse permutation
(`np.moveaxis` is the special case built by `moveaxisOrder`) -/
def transposeT (order inv : Fin r → Fin r) (t : Tens r γ) : Tens r γ :=
  ⟨fun i => t.shape (order i), fun idx => t.get fun j => idx (inv j)⟩

/-- `np.squeeze(t, a)` -/
def squeezeT (a : Fin (r+1)) (t : Tens (r+1) γ) : Tens r γ :=
  ⟨fun i => t.shape (skipAt a i), fun idx => t.get (insAt a 0 idx)⟩

end Tens

/-! Reductions along an axis are folds over `0 .. shape a - 1` indexed by `Nat` (not `Fin (shape a)`), so that an
axis permutation, under which `shape a` changes only up to a propositional equality, rewrites cleanly.
`sumRange_eq_vsum` / `argmaxUpTo_eq_vargmax` (`Proofs/MasksProof.lean`) identify them with the folds the point
kernels use. -/

/-- `f 0 + f 1 + … + f (n-1)`, left to right from `0` (same order as `vsum`) -/
def sumRange {γ : Type} [Add γ] [OfNat γ 0] : Nat → (Nat → γ) → γ
  | 0, _ => 0
  | n+1, f => sumRange n f + f n

/-- first index in `0 .. m` attaining the maximum of `f` (same scan as `vargmax`) -/
def argmaxUpTo {γ : Type} [LT γ] [DecidableLT γ] : Nat → (Nat → γ) → Nat
  | 0, _ => 0
  | m+1, f => let b := argmaxUpTo m f; if f b < f (m+1) then m+1 else b

section tensorMasks
variable {α β : Type} [Add α] [Sub α] [Mul α] [Div α] [Neg α] [OfNat α 0] [OfNat α 1]
  [LT α] [DecidableLT α] [Transc α] [CxOps α β]
variable {r : Nat}

/-- sum of the fibre of `t` through `idx` along axis `a` -/
def fibreSum {γ : Type} [Add γ] [OfNat γ 0] (t : Tens r γ) (a : Fin r) (idx : Fin r → Nat) : γ :=
  sumRange (t.shape a) fun j => t.get (upd idx a j)

/-- `x.sum(a, keepdims=True)` -/
def sumKeep (t : Tens r α) (a : Fin r) : Tens r α :=
  ⟨upd t.shape a 1, fun idx => fibreSum t a idx⟩

/-- `abs_square(signal)` followed by the optional `sum(sensor_axis, keepdims=True)` -/
def pooledPower (t : Tens r β) (se : Option (Fin r)) : Tens r α :=
  match se with
  | none => t.map (absSq (α := α))
  | some a => sumKeep (t.map (absSq (α := α))) a

/-- `ideal_binary_mask(signal, source_axis, sensor_axis, keepdims=True)` -/
def ibmT (t : Tens r β) (sa : Fin r) (se : Option (Fin r)) : Tens r α :=
  let p := pooledPower (α := α) t se
  ⟨p.shape, fun idx => if argmaxUpTo (p.shape sa - 1) (fun k => p.get (upd idx sa k)) = idx sa then 1 else 0⟩

/-- `x / (x.sum(source_axis, keepdims=True) + eps)` -/
def ratioT (eps : α) (p : Tens r α) (sa : Fin r) : Tens r α :=
  ⟨p.shape, fun idx => p.get idx / (fibreSum p sa idx + eps)⟩

/-- `wiener_like_mask(signal, source_axis, sensor_axis, eps, keepdims=True)` -/
def wienerT (eps : α) (t : Tens r β) (sa : Fin r) (se : Option (Fin r)) : Tens r α :=
  ratioT eps (pooledPower (α := α) t se) sa

/-- `ideal_ratio_mask(signal, source_axis, eps=eps)` -/
def irmT (eps : α) (t : Tens r β) (sa : Fin r) : Tens r α :=
  ratioT eps (t.map (cabs (α := α))) sa

variable [Add β] [Div β] [OfNat β 0]

/-- `np.sum(signal, source_axis, keepdims=True)` read at `idx` (broadcast along the source axis) -/
def mixtureT (t : Tens r β) (sa : Fin r) (idx : Fin r → Nat) : β := fibreSum t sa idx

def iamT (eps : α) (t : Tens r β) (sa : Fin r) : Tens r α :=
  ⟨t.shape, fun idx => cabs (α := α) (t.get idx) / (cabs (α := α) (mixtureT t sa idx) + eps)⟩

def icmT (t : Tens r β) (sa : Fin r) : Tens r β :=
  ⟨t.shape, fun idx => t.get idx / mixtureT t sa idx⟩

variable [Trig α]

def psmT (eps : α) (t : Tens r β) (sa : Fin r) : Tens r α :=
  ⟨t.shape, fun idx =>
    cabs (α := α) (t.get idx) / (cabs (α := α) (mixtureT t sa idx) + eps)
      * Trig.cos (angle (α := α) (t.get idx) - angle (α := α) (mixtureT t sa idx))⟩

end tensorMasks

section tensorRows
variable {α β : Type} [Add α] [Sub α] [Mul α] [Div α] [Neg α] [OfNat α 0] [OfNat α 1]
  [LT α] [DecidableLT α] [NatCast α] [FloorNat α] [Transc α] [CxOps α β]
variable {r : Nat}

/-- all entries of `t` that share with `idx` the positions outside `axes` — the row
`np.reshape(np.moveaxis(x, axis, tmp_axis), working_shape)[i]` as a list (its order is irrelevant: the row
is sorted before use) -/
def rowOf (t : Tens r α) : List (Fin r) → (Fin r → Nat) → List α
  | [], idx => [t.get idx]
  | a :: as, idx => (List.range (t.shape a)).flatMap fun j => rowOf t as (upd idx a j)

/-- `quantile_mask(signal, quantile=q, axis=axes, weight=w)` for a scalar `q` -/
def quantileT (q w : α) (t : Tens r β) (axes : List (Fin r)) : Tens r α :=
  let m := t.map (cabs (α := α))
  ⟨t.shape, fun idx => quantileLevel q w (rowOf m axes idx) (m.get idx)⟩

/-- `np.abs(signal)**2` followed by the optional sensor pooling -/
def lorenzPower (t : Tens r β) (se : Option (Fin r)) : Tens r α :=
  let p := t.map fun z => cabs (α := α) z * cabs (α := α) z
  match se with
  | none => p
  | some a => sumKeep p a

/-- `lorenz_mask(signal, sensor_axis, axis=axes, lorenz_fraction, weight, keepdims=True)`;
an entry `none` means the code raises on the row of that point -/
def lorenzT (fraction w : α) (t : Tens r β) (se : Option (Fin r)) (axes : List (Fin r)) : Tens r (Option α) :=
  let p := lorenzPower (α := α) t se
  ⟨p.shape, fun idx => lorenzLevel fraction w (rowOf p axes idx) (p.get idx)⟩

end tensorRows

/-- non-negative position of a possibly negative NumPy axis argument -/
def normAxis (r : Nat) (a : Int) : Nat := if a < 0 then (a + r).toNat else a.toNat

/-- axis order of `np.moveaxis(x, src, dst)` (result axis `i` = input axis `order[i]`): the remaining axes in
their original order, then each source inserted at its destination, destinations ascending -/
def moveaxisOrder (r : Nat) (src dst : List Nat) : List Nat :=
  let rest := (List.range r).filter fun n => !src.contains n
  let pairs := (dst.zip src).mergeSort fun a b => a.1 ≤ b.1
  pairs.foldl (fun order p => (order.take p.1) ++ [p.2] ++ (order.drop p.1)) rest

end PbBss.Masks

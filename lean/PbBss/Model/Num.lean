/-! Driver-side numerics spike: complex Hermitian Jacobi eigen-decomposition on `Float`,
cACG M-step (`_fit` + `from_covariance`, eigenvalue normalisation + floor) and `_log_pdf`. core-only -/
namespace PbBss.Num

structure C where
  re : Float
  im : Float
deriving Inhabited

instance : Add C := ⟨fun a b => ⟨a.re + b.re, a.im + b.im⟩⟩
instance : Sub C := ⟨fun a b => ⟨a.re - b.re, a.im - b.im⟩⟩
instance : Mul C := ⟨fun a b => ⟨a.re * b.re - a.im * b.im, a.re * b.im + a.im * b.re⟩⟩
def C.conj (a : C) : C := ⟨a.re, -a.im⟩
def C.abs2 (a : C) : Float := a.re * a.re + a.im * a.im
def C.scale (s : Float) (a : C) : C := ⟨s * a.re, s * a.im⟩
def C.zero : C := ⟨0, 0⟩
def C.one : C := ⟨1, 0⟩

abbrev Mat := Array (Array C)

def Mat.get (m : Mat) (i j : Nat) : C := (m[i]!)[j]!
def Mat.set (m : Mat) (i j : Nat) (v : C) : Mat := m.set! i ((m[i]!).set! j v)
def Mat.id (n : Nat) : Mat := Array.ofFn (n := n) fun i => Array.ofFn (n := n) fun j => if i.val = j.val then C.one else C.zero

/-- one complex Jacobi rotation zeroing `a[p][q]`; updates `a` (Hermitian) and accumulates `v` -/
def rotate (n : Nat) (a v : Mat) (p q : Nat) : Mat × Mat := Id.run do
  let apq := a.get p q
  let r := Float.sqrt apq.abs2
  if r == 0 then return (a, v)
  let app := (a.get p p).re
  let aqq := (a.get q q).re
  -- phase e^{iφ} = apq/|apq|
  let ph : C := ⟨apq.re / r, apq.im / r⟩
  let theta := 0.5 * Float.atan2 (2 * r) (app - aqq)
  let c := Float.cos theta
  let s := Float.sin theta
  -- columns: new_p = c*col_p + s*conj(ph)... apply unitary G with G[p,p]=c, G[q,p]=s*conj(ph)?  use formulas on rows/cols
  let mut a := a
  let mut v := v
  -- A <- Gᴴ A G,  V <- V G  where G = [[c, -s·ph],[s·conj ph, c]] on (p,q)
  let g_pp : C := ⟨c, 0⟩
  let g_pq : C := C.scale (-s) ph
  let g_qp : C := C.scale s ph.conj
  let g_qq : C := ⟨c, 0⟩
  -- A G
  for i in [0:n] do
    let aip := a.get i p
    let aiq := a.get i q
    a := a.set i p (aip * g_pp + aiq * g_qp)
    a := a.set i q (aip * g_pq + aiq * g_qq)
  -- Gᴴ (A G)
  for j in [0:n] do
    let apj := a.get p j
    let aqj := a.get q j
    a := a.set p j (g_pp.conj * apj + g_qp.conj * aqj)
    a := a.set q j (g_pq.conj * apj + g_qq.conj * aqj)
  for i in [0:n] do
    let vip := v.get i p
    let viq := v.get i q
    v := v.set i p (vip * g_pp + viq * g_qp)
    v := v.set i q (vip * g_pq + viq * g_qq)
  return (a, v)

/-- cyclic Jacobi sweeps; returns eigenvalues (ascending) and eigenvectors as columns -/
def eigh (n : Nat) (a0 : Mat) (sweeps : Nat := 30) : Array Float × Mat := Id.run do
  let mut a := a0
  let mut v := Mat.id n
  for _ in [0:sweeps] do
    let mut off := 0.0
    for p in [0:n] do
      for q in [p+1:n] do
        off := off + (a.get p q).abs2
    if off < 1e-300 then break
    for p in [0:n] do
      for q in [p+1:n] do
        let (a', v') := rotate n a v p q
        a := a'; v := v'
  -- sort ascending (selection sort on indices)
  let vals := (Array.range n).map fun i => (a.get i i).re
  let idx := (Array.range n).qsort (fun i j => vals[i]! < vals[j]!)
  let svals := idx.map fun i => vals[i]!
  let svecs : Mat := Array.ofFn (n := n) fun i => idx.map fun j => v.get i.val j
  return (svals, svecs)

end PbBss.Num

/-! reversed-index functional tensors: index list head = LAST numpy axis -/
namespace RT

structure T (α : Type) where
  rshape : List Nat          -- reversed shape: head = size of last axis
  get : List Nat → α         -- reversed multi-index

variable {α : Type}

/-- fix the leading (numpy) axes: keep `c` trailing axes free -/
def fixLead (t : T α) (c : Nat) (lead : List Nat) : T α :=
  ⟨t.rshape.take c, fun core => t.get (core.take c ++ lead)⟩

def prodUpTo [Mul α] [OfNat α 1] (f : Nat → α) : Nat → α
  | 0 => f 0
  | n+1 => prodUpTo f n * f (n+1)

/-- `np.cumprod(t, axis=-(k+1))` -/
def cumprodFromEnd [Mul α] [OfNat α 1] (k : Nat) (t : T α) : T α :=
  ⟨t.rshape, fun idx => prodUpTo (fun j => t.get (idx.set k j)) (idx.getD k 0)⟩

/-- `np.cumprod(t, axis=a)` with non-negative `a`: position from the end depends on ndim -/
def cumprodFromStart [Mul α] [OfNat α 1] (a : Nat) (t : T α) : T α :=
  cumprodFromEnd (t.rshape.length - 1 - a) t

theorem cumprodFromEnd_fixLead [Mul α] [OfNat α 1] (k c : Nat) (hk : k < c) (t : T α)
    (lead core : List Nat) (hc : core.length = c) :
    (fixLead (cumprodFromEnd k t) c lead).get core = (cumprodFromEnd k (fixLead t c lead)).get core := by
  simp only [fixLead, cumprodFromEnd]
  have h1 : (core.take c ++ lead).getD k 0 = core.getD k 0 := by
    simp [List.getD_eq_getElem?_getD, List.getElem?_append_left, hc, hk, List.take_of_length_le]
  rw [h1]
  congr 1
  funext j
  congr 1
  subst hc
  simp [List.take_of_length_le, List.set_append_left _ _ hk]

end RT

import Spike.Num
open PbBss.Num

def parseBits (s : String) : Float := Float.ofBits (s.toNat!.toUInt64)

partial def loop (h : IO.FS.Stream) : IO Unit := do
  let line ← h.getLine
  if line.isEmpty then return ()
  let toks := (line.trimAscii.toString.splitOn " ").filter (· ≠ "")
  match toks with
  | "eigh" :: k :: rest =>
    let n := k.toNat!
    let xs := rest.toArray.map parseBits
    let a : Mat := Array.ofFn (n := n) fun i => Array.ofFn (n := n) fun j =>
      (⟨xs[2*(i.val*n+j.val)]!, xs[2*(i.val*n+j.val)+1]!⟩ : C)
    let (vals, vecs) := eigh n a
    let out := vals.toList.map (fun x => toString x.toBits) ++
      (vecs.toList.flatMap fun row => row.toList.flatMap fun c => [toString c.re.toBits, toString c.im.toBits])
    IO.println (" ".intercalate out)
  | _ => IO.println "bad-op"
  loop h

def main : IO Unit := do loop (← IO.getStdin)

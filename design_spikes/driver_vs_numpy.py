import numpy as np, subprocess, struct, time, warnings
warnings.filterwarnings('ignore')
from pb_bss.distribution.mixture_model_utils import log_pdf_to_affiliation
from pb_bss.permutation_alignment import _mapping_from_score_matrix
rng=np.random.default_rng(0)
def bits(a): return ' '.join(str(int(x)) for x in np.asarray(a,np.float64).ravel().view(np.uint64))
lines=[];exp=[]
for _ in range(2000):
    K=rng.integers(1,7); w=rng.random(K); w/=w.sum(); lp=rng.normal(size=K)*rng.choice([1,100,1e5])
    lines.append(f'aff {K} {bits(w)} {bits(lp)}'); exp.append(log_pdf_to_affiliation(w[:,None],lp[:,None])[:,0])
for _ in range(2000):
    K=rng.integers(1,6); s=rng.integers(0,3,size=(K,K)).astype(float) if rng.random()<0.5 else rng.normal(size=(K,K))
    lines.append(f'greedy {K} {bits(s)}'); exp.append(_mapping_from_score_matrix(s,'greedy'))
t=time.time()
out=subprocess.run(['/tmp/spike/Spike/.lake/build/bin/driver'],input='\n'.join(lines)+'\n',capture_output=True,text=True).stdout.strip().split('\n')
print('driver time',time.time()-t,len(out))
maxd=0;bad=0
for l,o,e in zip(lines,out,exp):
    if l.startswith('aff'):
        v=np.array([int(x) for x in o.split()],dtype=np.uint64).view(np.float64); maxd=max(maxd,np.abs(v-e).max())
    else:
        v=np.array([int(x) for x in o.split()]); bad+= not np.array_equal(v,e)
print('aff maxdiff',maxd,'greedy mismatches',bad)

import Spike.Plan
open PbBss.Plan
def main : IO Unit := do
  for stft in [2,4,6,8,10,12,14,16,18,20,22,24,30,40] do
    let F := stft / 2 + 1
    for start in List.range (F+1) do
      for width in List.range (F+1) do
        if width ≥ 1 ∧ start + width ≤ F then
          for shift in List.range (F+1) do
            if shift ≥ 1 then
              let p := plan ⟨F, start, width, shift⟩
              IO.println s!"{stft} {start} {width} {shift} {p}"

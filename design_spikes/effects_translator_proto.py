"""Prototype of the C20 effect translator: Python AST -> (alloc/alias/write) statements + may-sets.
Flow-sensitive renaming (each assignment creates a new version), joins handled by 'alias x [versions]'.
Only a feasibility probe: prints, per public function, the write sites whose target may alias a parameter."""
import ast, sys, pathlib, collections

FRESH_FUNCS = {  # np.<name> returning a fresh array
 'copy','array','zeros','ones','empty','zeros_like','ones_like','empty_like','full','full_like','eye','arange','linspace','logspace',
 'einsum*','sum','mean','amax','amin','max','min','maximum','minimum','abs','absolute','exp','log','log10','sqrt','cos','sin','angle',
 'where','clip','stack','concatenate','append','repeat','tile','sort','argsort','argmax','argmin','cumsum','cumprod','prod','diff',
 'take_along_axis','delete','percentile','trace','isfinite','isnan','all','any','array_equal','unravel_index','conj','conjugate',
 'logical_and','logical_or','divide','multiply','add','subtract','power','sign','floor','ceil','round','around','linalg.norm','linalg.solve',
 'linalg.eigh','linalg.eig','linalg.lstsq','linalg.slogdet','linalg.cholesky','linalg.inv','linalg.matrix_rank','random.uniform','random.dirichlet',
 'random.randint','random.normal','random.choice','random.permutation','finfo','iinfo','isscalar','shape','ndim','size','unique','outer','dot','matmul',
 'nan_to_num','sinc','hypot','isposinf','isinf','iscomplexobj','isrealobj','ndindex','prod','asfarray','asfortranarray*',
}
VIEW_FUNCS = {'asarray','asanyarray','ascontiguousarray','broadcast_to','broadcast_arrays','swapaxes','transpose','reshape','squeeze','expand_dims',
 'moveaxis','rollaxis','ravel','atleast_1d','atleast_2d','split','real','imag','diagonal','flip'}
VIEW_METHODS = {'transpose','reshape','swapaxes','squeeze','ravel','view','T','real','imag','conj','conjugate'}  # conj conservative
FRESH_METHODS = {'copy','astype','sum','mean','max','min','flatten','dot','any','all','argmax','argmin','tolist','cumsum','round','clip','std','var','prod','nonzero','repeat','take'}
INPLACE_METHODS = {'sort','fill','put','itemset','partition','resize'}

ATTR_TYPES = {'cacg': 'ComplexAngularCentralGaussian', 'complex_watson': 'ComplexWatson', 'complex_bingham': 'ComplexBingham',
  'gaussian': 'Gaussian', 'vmf': 'VonMisesFisher', 'complex_watson_trainer': 'ComplexWatsonTrainer', 'complex_bingham_trainer': 'ComplexBinghamTrainer',
  'kmeans': None}
VAR_TYPES = {'model': None, 'csg': 'ComplexCircularSymmetricGaussian', 'cacg': 'ComplexAngularCentralGaussian', 'aligner': None, 'g': None, 'd': None}

class Fn:
    def __init__(self, node, qual):
        self.node, self.qual = node, qual
        allargs = node.args.posonlyargs + node.args.args + node.args.kwonlyargs
        defaults = dict(zip([a.arg for a in node.args.args][len(node.args.args)-len(node.args.defaults):], node.args.defaults))
        defaults.update({a.arg: d for a, d in zip(node.args.kwonlyargs, node.args.kw_defaults) if d is not None})
        def scalar(a):
            ann = ast.unparse(a.annotation) if a.annotation is not None else ''
            if any(t in ann for t in ('int', 'float', 'bool', 'str')) and 'ndarray' not in ann and 'array' not in ann: return True
            d = defaults.get(a.arg)
            if isinstance(d, ast.Constant) and d.value is not None: return True       # numeric / bool / str default
            if isinstance(d, (ast.Tuple, ast.UnaryOp)): return True                    # (-1,), -2 ...
            return a.arg in ('size', 'num_classes', 'iterations', 'axis', 'K', 'F', 'stft_size', 'name', 'beamformer')
        self.params = [a.arg for a in allargs if a.arg not in ('self','cls') and not scalar(a)]
        self.stmts = []       # ('alloc',x) ('alias',x,[ys]) ('write',x,lineno,src)
        self.ver = collections.Counter()
        self.cur = {}         # name -> current versioned var
        for p in self.params: self.cur[p] = p
        self.ret = []

    def new(self, name):
        self.ver[name] += 1
        v = f'{name}#{self.ver[name]}'
        self.cur[name] = v
        return v

def np_name(func):
    """return dotted name after np./numpy. or None"""
    parts = []
    n = func
    while isinstance(n, ast.Attribute):
        parts.append(n.attr); n = n.value
    if isinstance(n, ast.Name) and n.id in ('np', 'numpy', 'scipy'):
        return '.'.join(reversed(parts))
    return None

class Walker:
    def __init__(self, fn, summaries, module_funcs):
        self.f = fn; self.summ = summaries; self.mf = module_funcs

    # --- expression: returns list of vars the value may alias ([] = fresh / scalar)
    def expr(self, e):
        f = self.f
        if e is None: return []
        if isinstance(e, ast.Name):
            return [f.cur[e.id]] if e.id in f.cur else []
        if isinstance(e, ast.Attribute):
            if e.attr in ('shape', 'ndim', 'dtype', 'size'): return []
            return self.expr(e.value)          # obj.attr aliases obj (views .real/.T, or stored arrays)
        if isinstance(e, ast.Subscript):
            base = self.expr(e.value); self.expr(e.slice)
            return base                         # basic slicing = view; fancy indexing = copy (conservative: alias)
        if isinstance(e, (ast.BinOp, ast.UnaryOp, ast.Compare, ast.BoolOp)):
            for c in ast.iter_child_nodes(e):
                if isinstance(c, ast.expr): self.expr(c)
            return []
        if isinstance(e, ast.IfExp):
            self.expr(e.test); return self.expr(e.body) + self.expr(e.orelse)
        if isinstance(e, (ast.Tuple, ast.List, ast.Set)):
            out = []
            for x in e.elts: out += self.expr(x)
            return out
        if isinstance(e, ast.Starred): return self.expr(e.value)
        if isinstance(e, ast.Dict):
            out = []
            for x in e.values: out += self.expr(x)
            return out
        if isinstance(e, (ast.ListComp, ast.GeneratorExp, ast.SetComp, ast.DictComp)):
            return []   # comprehension results: treat as fresh (elements could alias; conservative enough for probe)
        if isinstance(e, ast.Call):
            return self.call(e)
        if isinstance(e, (ast.Constant, ast.JoinedStr, ast.Lambda)): return []
        return []

    def call(self, c):
        f = self.f
        args = [self.expr(a) for a in c.args]
        kw = {k.arg: self.expr(k.value) for k in c.keywords}
        flat = [v for a in args for v in a] + [v for k, a in kw.items() if k != 'out' for v in a]
        # out= is a write
        if 'out' in kw:
            for v in kw['out']: f.stmts.append(('write', v, c.lineno, ast.unparse(c)[:60]))
            return kw['out']
        name = np_name(c.func)
        if name is not None:
            if name == 'einsum':
                if len(c.args) == 2 and isinstance(c.args[0], ast.Constant) and isinstance(c.args[0].value, str):
                    spec = c.args[0].value.replace(' ', '')
                    if '->' in spec:
                        i, o = spec.split('->')
                        letters = [ch for ch in i.replace('...', '') if ch.isalpha()]
                        view = all(ch in o for ch in letters)
                    else:
                        letters = [ch for ch in spec.replace('...', '') if ch.isalpha()]
                        view = len(set(letters)) == len(letters)     # implicit mode: repeated letters are summed
                    return flat if view else []
                return flat if len(c.args) == 2 else []
            if name == 'array':
                copy_false = any(k.arg == 'copy' and isinstance(k.value, ast.Constant) and k.value.value is False for k in c.keywords)
                return flat if copy_false else []
            if name in VIEW_FUNCS: return flat
            if name in ('fill_diagonal', 'copyto', 'put', 'place', 'random.shuffle'):
                for v in (args[0] if args else []): f.stmts.append(('write', v, c.lineno, ast.unparse(c)[:60]))
                return []
            return []      # everything else in numpy/scipy: fresh (trusted table)
        if isinstance(c.func, ast.Attribute):
            recv = self.expr(c.func.value)
            m = c.func.attr
            if m in INPLACE_METHODS:
                for v in recv: f.stmts.append(('write', v, c.lineno, ast.unparse(c)[:60]))
                return []
            if m in VIEW_METHODS: return recv
            if m in FRESH_METHODS: return []
            # method of a repo object: resolve the receiver's class where it is syntactically evident
            cls = self.recv_class(c.func.value)
            if cls is not None:
                cands = [s for q, s in self.summ.items() if q == cls + '.' + m]
                if not cands and cls + '.' + m not in self.summ:
                    cands = []
                    if any(q.startswith(cls + '.') for q in self.summ): return []   # known class, method without arrays semantics (e.g. inherited) -> fresh
            else:
                cands = [s for q, s in self.summ.items() if '.' in q and q.split('.')[-1] == m]
            if len(cands) >= 1:
                out = []
                for s in cands:
                    out += self.apply_summary(s, c, args, kw, method=True)
                return out
            return []   # unknown method (third-party object): assumed neither to mutate nor to return a view of its arguments (trusted, probed dynamically)
        if isinstance(c.func, ast.Name):
            q = c.func.id
            if q in self.summ:
                return self.apply_summary(self.summ[q], c, args, kw, method=False)
            if q in ('range', 'len', 'int', 'float', 'list', 'tuple', 'zip', 'enumerate', 'isinstance', 'sum', 'max', 'min', 'abs', 'sorted', 'xor', 'print', 'getattr', 'hasattr', 'str', 'bool', 'perm'):
                return []
            return flat
        return flat

    def recv_class(self, e):
        # self.method -> own class ; ClassName(...).method / ClassName.method -> that class ;
        # self.<attr>.method -> class named in ATTR_TYPES ; model.<field> per dataclass annotations
        own = self.f.qual.split('.')[1] if self.f.qual.count('.') == 2 else None
        if isinstance(e, ast.Name):
            if e.id in ('self', 'cls'): return own
            if any(q.startswith(e.id + '.') for q in self.summ): return e.id
            return VAR_TYPES.get(e.id)
        if isinstance(e, ast.Call) and isinstance(e.func, ast.Name) and any(q.startswith(e.func.id + '.') for q in self.summ):
            return e.func.id
        if isinstance(e, ast.Attribute):
            return ATTR_TYPES.get(e.attr)
        return None

    def apply_summary(self, s, c, args, kw, method):
        f = self.f
        params = s['params']
        bind = {}
        for i, a in enumerate(args):
            if i < len(params): bind[params[i]] = a
        for k, a in kw.items():
            if k in params: bind[k] = a
        for p in s['mutates']:
            for v in bind.get(p, []):
                f.stmts.append(('write', v, c.lineno, 'via ' + s['qual'] + ': ' + ast.unparse(c)[:40]))
        out = []
        for p in s['returns']:
            out += bind.get(p, [])
        return out

    def assign_target(self, t, srcs, lineno, node):
        f = self.f
        if isinstance(t, ast.Name):
            v = f.new(t.id)
            if srcs: f.stmts.append(('alias', v, list(dict.fromkeys(srcs))))
            else: f.stmts.append(('alloc', v))
        elif isinstance(t, (ast.Tuple, ast.List)):
            for x in t.elts: self.assign_target(x, srcs, lineno, node)
        elif isinstance(t, ast.Starred):
            self.assign_target(t.value, srcs, lineno, node)
        elif isinstance(t, ast.Subscript):
            base = self.expr(t.value)
            for v in base: f.stmts.append(('write', v, lineno, ast.unparse(node)[:60]))
        elif isinstance(t, ast.Attribute):
            pass  # attribute store on objects (trainer state), not an array write

    def block(self, body):
        for st in body: self.stmt(st)

    def stmt(self, st):
        f = self.f
        if isinstance(st, ast.Assign):
            srcs = self.expr(st.value)
            for t in st.targets: self.assign_target(t, srcs, st.lineno, st)
        elif isinstance(st, ast.AnnAssign):
            if st.value is not None:
                self.assign_target(st.target, self.expr(st.value), st.lineno, st)
        elif isinstance(st, ast.AugAssign):
            self.expr(st.value)
            tgt = self.expr(st.target) if not isinstance(st.target, ast.Name) else ([f.cur[st.target.id]] if st.target.id in f.cur else [])
            # numeric scalars are rebinding, arrays are in place: we cannot tell -> treat as write only if var may be array (always)
            for v in tgt: f.stmts.append(('write', v, st.lineno, ast.unparse(st)[:60]))
        elif isinstance(st, ast.Return):
            f.ret += self.expr(st.value)
        elif isinstance(st, ast.Expr):
            self.expr(st.value)
        elif isinstance(st, (ast.If, ast.While)):
            self.expr(st.test)
            before = dict(f.cur)
            self.block(st.body); after_body = dict(f.cur)
            f.cur = dict(before); self.block(st.orelse); after_else = dict(f.cur)
            self.join(before, [after_body, after_else])
            if isinstance(st, ast.While): self.block(st.body)
        elif isinstance(st, ast.For):
            srcs = self.expr(st.iter)
            before = dict(f.cur)
            self.assign_target(st.target, srcs, st.lineno, st)
            self.block(st.body); a1 = dict(f.cur)
            self.join(before, [a1, before])
            self.block(st.body); a2 = dict(f.cur)      # second pass: loop-carried aliases
            self.join(before, [a2, a1])
            self.block(st.orelse)
        elif isinstance(st, ast.Try):
            before = dict(f.cur)
            self.block(st.body); outs = [dict(f.cur)]
            for h in st.handlers:
                f.cur = dict(before); self.block(h.body); outs.append(dict(f.cur))
            self.join(before, outs)
            self.block(st.orelse); self.block(st.finalbody)
        elif isinstance(st, ast.With):
            for it in st.items: self.expr(it.context_expr)
            self.block(st.body)
        elif isinstance(st, (ast.Assert, ast.Raise, ast.Pass, ast.Import, ast.ImportFrom, ast.Break, ast.Continue, ast.Global, ast.Nonlocal, ast.Delete)):
            pass
        elif isinstance(st, (ast.FunctionDef, ast.ClassDef)):
            pass

    def join(self, before, outs):
        f = self.f
        names = set()
        for o in outs: names |= set(o)
        for n in names:
            vs = list(dict.fromkeys(o[n] for o in outs if n in o))
            if len(vs) > 1:
                v = f.new(n); f.stmts.append(('alias', v, vs))
            elif vs: f.cur[n] = vs[0]

def analyse(fn):
    may = collections.defaultdict(set)
    for p in fn.params: may[p].add(p)
    changed = True
    while changed:
        changed = False
        for s in fn.stmts:
            if s[0] == 'alias':
                for y in s[2]:
                    if not may[y] <= may[s[1]]:
                        may[s[1]] |= may[y]; changed = True
    muts = {}
    for s in fn.stmts:
        if s[0] == 'write' and may[s[1]]:
            for p in may[s[1]]: muts.setdefault(p, []).append((s[2], s[3]))
    rets = set()
    for v in fn.ret: rets |= may[v]
    return muts, rets

def main(files):
    funcs = {}
    for path in files:
        tree = ast.parse(open(path).read())
        mod = pathlib.Path(path).stem
        for node in tree.body:
            if isinstance(node, ast.FunctionDef): funcs[node.name] = (node, f'{mod}.{node.name}')
            elif isinstance(node, ast.ClassDef):
                for n in node.body:
                    if isinstance(n, ast.FunctionDef): funcs[f'{node.name}.{n.name}'] = (n, f'{mod}.{node.name}.{n.name}')
    summaries = {}
    for it in range(4):            # iterate summaries to a fixpoint (call graph is shallow)
        new = {}
        for key, (node, qual) in funcs.items():
            fn = Fn(node, qual)
            Walker(fn, summaries, funcs).block(node.body)
            muts, rets = analyse(fn)
            new[key] = {'qual': qual, 'params': fn.params, 'mutates': sorted(muts), 'returns': sorted(rets), 'sites': muts, 'nstmts': len(fn.stmts)}
        if all(summaries.get(k, {}).get('mutates') == v['mutates'] and summaries.get(k, {}).get('returns') == v['returns'] for k, v in new.items()):
            summaries = new; break
        summaries = new
    flagged = 0
    for key, s in sorted(summaries.items(), key=lambda kv: kv[1]['qual']):
        if s['mutates']:
            flagged += 1
            print('MUTATES', s['qual'], s['mutates'])
            for p, sites in s['sites'].items():
                for ln, src in sites[:3]: print('     ', p, 'line', ln, '|', src)
    print('functions analysed', len(summaries), 'flagged', flagged, 'total stmts', sum(s['nstmts'] for s in summaries.values()))

if __name__ == '__main__':
    main(sys.argv[1:])

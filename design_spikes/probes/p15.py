import warnings; warnings.filterwarnings('ignore')
import numpy as np, traceback
from pb_bss.distribution import *
from pb_bss.distribution.complex_bingham import ComplexBingham, ComplexBinghamTrainer
from pb_bss.extraction import beamformer as bf, mask_module as mm
from pb_bss.extraction.beamformer_wrapper import get_bf_vector
from pb_bss.permutation_alignment import *
from pb_bss.evaluation import si_sdr
from pb_bss.evaluation.sxr_module import *
from pb_bss.evaluation.sxr_module import set_snr
from pb_bss import initializer
rng=np.random.default_rng(15)
def cn(*s): return rng.normal(size=s)+1j*rng.normal(size=s)
def ro(a):
    a=np.array(a); a.setflags(write=False); return a
def run(name,f,*args,**kw):
    args=[ro(a) if isinstance(a,np.ndarray) else a for a in args]
    kw={k:(ro(v) if isinstance(v,np.ndarray) else v) for k,v in kw.items()}
    before=[a.tobytes() if isinstance(a,np.ndarray) else None for a in args]+[v.tobytes() if isinstance(v,np.ndarray) else None for v in kw.values()]
    try:
        r=f(*args,**kw)
    except Exception as e:
        print(name,'EXC',type(e).__name__,str(e)[:80]); return None
    after=[a.tobytes() if isinstance(a,np.ndarray) else None for a in args]+[v.tobytes() if isinstance(v,np.ndarray) else None for v in kw.values()]
    if before!=after: print(name,'MUTATED')
    return r
F,T,D,K,E=2,30,4,3,5
y=cn(F,T,D); yr=rng.normal(size=(F,T,D)); emb=rng.normal(size=(F,T,E))
init=rng.random((F,K,T)); init/=init.sum(-2,keepdims=True)
sal=rng.random((F,T)); sam=rng.random((F,K,T))>0.2
m=run('cacgmm.fit',CACGMMTrainer().fit,y,initialization=init,iterations=3,saliency=sal,source_activity_mask=sam)
for norm in ['eigenvalue','trace',False]:
    run(f'cacgmm.fit {norm}',CACGMMTrainer().fit,y,initialization=init,iterations=2,covariance_norm=norm)
run('cacgmm.predict',m.predict,y); run('cacgmm.ll',m.log_likelihood,y)
run('cacgmm.fit from model',CACGMMTrainer().fit,y,initialization=m,iterations=2)
run('cacgmm inline',CACGMMTrainer().fit,y,initialization=init,iterations=2,weight_constant_axis=(-3,),inline_permutation_aligner=GreedyPermutationAlignment('cos')) if F%2 else None
y3=cn(3,T,D); i3=rng.random((3,K,T)); i3/=i3.sum(-2,keepdims=True)
run('cacgmm inline',CACGMMTrainer().fit,y3,initialization=i3,iterations=2,weight_constant_axis=(-3,),inline_permutation_aligner=GreedyPermutationAlignment('cos'))
run('cwmm inline',CWMMTrainer().fit,y3,initialization=i3,iterations=2,weight_constant_axis=(-3,),inline_permutation_aligner=GreedyPermutationAlignment('cos'))
w=run('cwmm.fit',CWMMTrainer().fit,y,initialization=init,iterations=3,saliency=sal); run('cwmm.predict',w.predict,y)
b=run('cbmm.fit',CBMMTrainer().fit,y[...,:3],initialization=init,iterations=2,saliency=sal); 
if b is not None: run('cbmm.predict',b.predict,y[...,:3])
for ct in ['full','spherical']:
    g=run('gmm.fit '+ct,GMMTrainer().fit,yr[0],initialization=init[0],iterations=3,saliency=sal[0],covariance_type=ct)
    if g is not None: run('gmm.predict',g.predict,yr[0])
v=run('vmfmm.fit',VMFMMTrainer().fit,yr,initialization=init,iterations=3,saliency=sal); run('vmfmm.predict',v.predict,yr)
gc=run('gcacgmm.fit',GCACGMMTrainer().fit,y,emb,initialization=init,iterations=3,saliency=sal); run('gcacgmm.predict',gc.predict,y,emb)
gc=run('gcacgmm.fit pa',GCACGMMTrainer().fit,y,emb,initialization=init,iterations=3,inline_permutation_alignment=True)
vc=run('vmfcacgmm.fit',VMFCACGMMTrainer().fit,y,emb,initialization=init,iterations=3,saliency=sal); run('vmfcacgmm.predict',vc.predict,y,emb)
run('cacg.fit',ComplexAngularCentralGaussianTrainer().fit,y[0]); run('watson.fit',ComplexWatsonTrainer().fit,y,saliency=sal); run('bingham.fit',ComplexBinghamTrainer().fit,y[...,:3],saliency=sal)
run('gauss.fit',GaussianTrainer().fit,yr,saliency=sal); run('vmf.fit',VonMisesFisherTrainer().fit,yr,saliency=sal); run('ccsg.fit',ComplexCircularSymmetricGaussianTrainer().fit,y,saliency=sal)
C=cn(D,D); C=C@C.conj().T
for norm in ['eigenvalue','trace',False]: run(f'from_covariance {norm}',ComplexAngularCentralGaussian.from_covariance,C,covariance_norm=norm)
cg=ComplexAngularCentralGaussian.from_covariance(C.copy()); run('cacg.log_pdf',cg.log_pdf,y)
run('ccsg.log_pdf',ComplexCircularSymmetricGaussian(covariance=ro(C)).log_pdf,y)
run('bingham.log_pdf',ComplexBingham(np.linalg.qr(cn(3,3))[0],np.array([0.,-1,-3])).log_pdf,y[...,:3])
# beamformers
X=cn(F,D,T); msk=rng.random((F,K,T)); 
P=run('psd',bf.get_power_spectral_density_matrix,X,msk); run('psd bool',bf.get_power_spectral_density_matrix,X,msk>0.5); run('psd none',bf.get_power_spectral_density_matrix,X)
Px=P[:,0]; Pn=P[:,1]+P[:,2]
for n in ['pca','pca+mvdr','mvdr_souden','mvdr_souden+ban','rank1_gev+mvdr_souden+ban','rank1_pca+gev','gev+ban','wmwf','rank1_gev+wmwf','ch1']:
    run('bf '+n,get_bf_vector,n,Px,Pn)
wv=bf.get_gev_vector(Px,Pn)
run('ban',bf.blind_analytic_normalization,wv,Pn); run('phase',bf.phase_correction,wv); run('apply',bf.apply_beamforming_vector,wv,X); run('cond',bf.condition_covariance,Px,0.1)
run('lcmv',bf.get_lcmv_vector,cn(2,F,D),np.array([1.,0]),Pn); run('mvdr',bf.get_mvdr_vector,cn(D),Pn[0])
# masks
S=cn(K,D,F,T)
for fn in [mm.ideal_binary_mask,mm.wiener_like_mask]: run(fn.__name__,fn,S,sensor_axis=1)
for fn in [mm.ideal_ratio_mask,mm.ideal_amplitude_mask,mm.phase_sensitive_mask,mm.ideal_complex_mask]: run(fn.__name__,fn,S)
run('lorenz',mm.lorenz_mask,S[0],sensor_axis=0); run('quantile',mm.quantile_mask,S[0,0]); run('biased',mm.biased_binary_mask,cn(2,T,600))
# alignment
mk=rng.random((K,257,T))
run('dhtv',DHTVPermutationAlignment.from_stft_size(512),mk); run('dhtv euclid',DHTVPermutationAlignment.from_stft_size(512,'euclidean'),mk); run('greedy',GreedyPermutationAlignment('cos'),mk); run('oracle',OraclePermutationAlignment('cos'),mk,mk[[1,0,2]])
run('oracle greedy int',OraclePermutationAlignment('multiply','greedy'),(mk>0.5).astype(np.int8),(mk>0.5).astype(np.int8))
# metrics
r=rng.normal(size=(2,100)); run('si_sdr',si_sdr,r,r+0.1*rng.normal(size=(2,100)))
run('input_sxr',input_sxr,rng.normal(size=(2,3,100)),rng.normal(size=(3,100))); run('output_sxr',output_sxr,rng.normal(size=(2,3,100)),rng.normal(size=(3,100))); run('get_snr',get_snr,r,r*2); run('set_snr notinplace',set_snr,r,r*2,3.,inplace=False)
# initializers
for fn in [initializer.iid.uniform_normalized,initializer.iid.dirichlet_uniform,initializer.iid.one_hot]: run(fn.__name__,fn,y,3)
run('flag',initializer.deterministic.flag,y,3,permutation_free=True,minimum=0.1)
run('deflation',initializer.deflation.deflationSeed,cn(257,20,4),3)
print('done')

import warnings; warnings.filterwarnings('ignore')
import numpy as np, itertools
from pb_bss.distribution import *
rng=np.random.default_rng(9)
def cn(*s): return rng.normal(size=s)+1j*rng.normal(size=s)
F,T,D,K=2,60,4,3
y=cn(F,T,D); init=rng.random((F,K,T)); init/=init.sum(-2,keepdims=True)
# C20 split
m5=CACGMMTrainer().fit(y,initialization=init,iterations=5)
m2=CACGMMTrainer().fit(y,initialization=init,iterations=2); m23=CACGMMTrainer().fit(y,initialization=m2,iterations=3)
print('split bitwise', np.array_equal(m5.weight,m23.weight), np.array_equal(m5.cacg.covariance_eigenvalues,m23.cacg.covariance_eigenvalues), np.array_equal(m5.cacg.covariance_eigenvectors,m23.cacg.covariance_eigenvectors))
# C05
perm=[2,0,1]
for name,tr,kw in [('cacgmm',CACGMMTrainer(),{}),('cwmm',CWMMTrainer(),{}),]:
    a=tr.fit_predict(y,initialization=init,iterations=6,**kw); b=type(tr)().fit_predict(y,initialization=init[:,perm],iterations=6,**kw)
    print('C05',name,np.abs(a[:,perm]-b).max())
yr=rng.normal(size=(F,T,D))
for ct in ['full']:
    a=GMMTrainer().fit_predict(yr,initialization=init,iterations=6,covariance_type=ct,weight_constant_axis=(-1,)); b=GMMTrainer().fit_predict(yr,initialization=init[:,perm],iterations=6,covariance_type=ct,weight_constant_axis=(-1,))
    print('C05 gmm',ct,np.abs(a[:,perm]-b).max())
a=VMFMMTrainer().fit_predict(yr,initialization=init,iterations=6); b=VMFMMTrainer().fit_predict(yr,initialization=init[:,perm],iterations=6); print('C05 vmf',np.abs(a[:,perm]-b).max())
# C04
c=np.exp(rng.uniform(-100,100,size=(F,T))*np.log(10))*np.exp(2j*np.pi*rng.random((F,T)))
for name,tr in [('cacgmm',CACGMMTrainer),('cwmm',CWMMTrainer)]:
    a=tr().fit_predict(y,initialization=init,iterations=6); b=tr().fit_predict(y*c[...,None],initialization=init,iterations=6)
    print('C04',name,np.abs(a-b).max())
# C02 monotone
def ll(model,lp,w): 
    a=lp+np.log(w); mx=a.max(-2,keepdims=True); return (mx[...,0,:]+np.log(np.exp(a-mx).sum(-2))).sum()
for ct in ['full','spherical']:
    L=[]
    for it in range(1,12):
        m=GMMTrainer().fit(yr[0],initialization=init[0],iterations=it,covariance_type=ct)
        lp=m.gaussian.log_pdf(yr[0][None]); 
        if ct=='spherical': lp=lp.reshape(K,T)
        L.append(ll(m,lp,m.weight))
    d=np.diff(L); print('C02 gmm',ct,'min diff',d.min())
L=[]
for it in range(1,12):
    m=CACGMMTrainer().fit(y[0],initialization=init[0],iterations=it,affiliation_eps=0)
    lp=m.cacg.log_pdf(y[0][None]); L.append(ll(m,lp,m.weight))
print('C02 cacgmm min diff',np.diff(L).min())
L=[]
for it in range(1,12):
    m=CWMMTrainer().fit(y[0],initialization=init[0],iterations=it)
    yn=y[0]/np.linalg.norm(y[0],axis=-1,keepdims=True)
    lp=m.complex_watson.log_pdf(yn[None]); L.append(ll(m,lp,m.weight))
print('C02 cwmm min diff',np.diff(L).min())
# trainer reuse
t=CWMMTrainer(); r1=t.fit_predict(y,initialization=init,iterations=3); t.fit(cn(1,30,4),num_classes=2,iterations=2); r2=t.fit_predict(y,initialization=init,iterations=3); print('reuse same',np.array_equal(r1,r2))
try: t.fit(cn(1,30,5),num_classes=2,iterations=2); print('no reject!')
except AssertionError as e: print('rejects dim')

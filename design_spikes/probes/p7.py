import warnings; warnings.filterwarnings('ignore')
import numpy as np, itertools
from pb_bss.permutation_alignment import DHTVPermutationAlignment as D
bad=0; tot=0; badshift=0
for stft in range(2,66,2):
    F=stft//2+1
    for start in range(0,F+1):
        for width in range(1,F+1):
            if start+width>F: continue
            for shift in range(1,F+1):
                d=D(stft_size=stft,segment_start=start,segment_width=width,segment_shift=shift,main_iterations=1,sub_iterations=1)
                plan=d.alignment_plan
                cov=np.zeros(F,bool)
                for _,s,e in plan: cov[s:e]=True
                tot+=1
                if shift<=width and not cov.all(): bad+=1; print('UNCOVERED',stft,start,width,shift,plan) if bad<5 else None
                if shift>width and not cov.all(): badshift+=1
print(tot,bad,badshift)

import warnings; warnings.filterwarnings('ignore')
from pb_bss.permutation_alignment import DHTVPermutationAlignment as D
out=[]
for stft in [2,4,6,8,10,12,14,16,18,20,22,24,30,40]:
    F=stft//2+1
    for start in range(F+1):
        for width in range(F+1):
            if width>=1 and start+width<=F:
                for shift in range(1,F+1):
                    p=D(stft_size=stft,segment_start=start,segment_width=width,segment_shift=shift,main_iterations=1,sub_iterations=1).alignment_plan
                    out.append(f"{stft} {start} {width} {shift} [" + ", ".join(f"({a}, {b})" for _,a,b in p) + "]")
open('/tmp/probe/plans_py.txt','w').write("\n".join(out)+"\n")

import warnings; warnings.filterwarnings('ignore')
import numpy as np, itertools
from pb_bss.permutation_alignment import *
from pb_bss.permutation_alignment import _mapping_from_score_matrix, apply_mapping
rng=np.random.default_rng(3)
def scene(K,F,T,jit=0.1):
    # near-orthogonal patterns: disjoint supports
    owner=rng.integers(0,K,size=T); 
    P=np.stack([(owner==k)*rng.uniform(0.5,1.5,size=T)+0.01*rng.random(T) for k in range(K)])  # K,T
    M=P[:,None,:]*(1+jit*rng.uniform(-1,1,size=(K,F,T)))
    return M
def is_perm(mapping,K): return all(sorted(mapping[:,f])==list(range(K)) for f in range(mapping.shape[1]))
for K,F,T in [(2,9,20),(3,65,40),(4,257,60),(3,513,50)]:
    ref=scene(K,F,T)
    perm=np.stack([rng.permutation(K) for _ in range(F)],1)
    mask=apply_mapping(ref,perm)
    for metric in ['cos','euclidean','multiply']:
      for alg in ['greedy','optimal']:
        g=GreedyPermutationAlignment(metric,alg)
        mp=g.calculate_mapping(mask)
        comp=np.stack([perm[mp[:,f],f] for f in range(F)],1)
        const=(comp==comp[:,:1]).all()
        print('greedy',K,F,metric,alg,'perm',is_perm(mp,K),'consistent',const)
    if F in (257,513):
        perm2=perm.copy()
        d=DHTVPermutationAlignment.from_stft_size((F-1)*2)
        plan=d.alignment_plan
        s,e=plan[0][1],plan[0][2]
        idx=rng.permutation(np.arange(s,e))[:int(0.72*(e-s))]
        perm2[:,idx]=np.arange(K)[:,None]
        mask=apply_mapping(ref,perm2)
        mp=d.calculate_mapping(mask)
        comp=np.stack([perm2[mp[:,f],f] for f in range(F)],1)
        print('dhtv',K,F,'perm',is_perm(mp,K),'consistent',(comp==comp[:,:1]).all(), 'ident on consistent', (d.calculate_mapping(ref)==np.arange(K)[:,None]).all())
        # applying mapping reproduces? 
        o=OraclePermutationAlignment('cos')
        print('oracle exact', np.array_equal(o(mask,ref),ref), np.array_equal(OraclePermutationAlignment('euclidean','greedy')(mask,ref),ref))

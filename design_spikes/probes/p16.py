import warnings; warnings.filterwarnings('ignore')
import numpy as np
from pb_bss.distribution import *
from pb_bss.distribution.complex_bingham import ComplexBingham, ComplexBinghamTrainer
from pb_bss.distribution.complex_bingham_utils import grad_log_norm_symbolic
from scipy.special import hyp1f1
rng=np.random.default_rng(16)
def cn(*s): return rng.normal(size=s)+1j*rng.normal(size=s)
for D in [2,3,4]:
  for maxc in [np.inf,100.]:
    y=cn(40,D)*np.array([3,1,0.5,0.2])[:D]
    try:
        m=ComplexBinghamTrainer(max_concentration=maxc).fit(y)
        ev=m.covariance_eigenvalues; U=m.covariance_eigenvectors
        yn=y/np.linalg.norm(y,axis=-1,keepdims=True); S=np.einsum('nd,ne->de',yn,yn.conj())/40
        se=np.linalg.eigvalsh(S)
        g=np.array(grad_log_norm_symbolic[D](*ev))
        print(D,maxc,'ev',ev,'max0',ev.max(),'>= -maxc',ev.min()>=-maxc-1e-6,'unit',np.abs(U.conj().T@U-np.eye(D)).max(),'grad-res',np.abs(np.sort(g)-np.sort(se)).max())
    except Exception as e: print(D,maxc,'ERR',type(e).__name__,str(e)[:100])
# degenerate bingham
for name,y in [('zero',np.zeros((10,3),complex)),('dup',np.tile(cn(1,3),(10,1)))]:
    try:
        m=ComplexBinghamTrainer().fit(y); print(name,m.covariance_eigenvalues)
    except Exception as e: print(name,'ERR',type(e).__name__,str(e)[:100])
# watson concentration relation
t=ComplexWatsonTrainer(4); y=cn(200,4)*np.array([3,1,1,1]); s=rng.random(200)
m=t.fit(y,saliency=s); yn=y/np.linalg.norm(y,axis=-1,keepdims=True); S=np.einsum('n,nd,ne->de',s,yn,yn.conj())/s.sum(); lam=np.linalg.eigvalsh(S)[-1]
k=m.concentration; r=hyp1f1(2,5,k)/(4*hyp1f1(1,4,k)); print('watson ratio',r,lam,abs(r-lam))
# vmf
yr=rng.normal(size=(200,4))+np.array([2,0,0,0]); m=VonMisesFisherTrainer().fit(yr,saliency=s); x=yr/np.linalg.norm(yr,axis=-1,keepdims=True); R=(s[:,None]*x).sum(0); rb=np.linalg.norm(R)/s.sum()
print('vmf',np.abs(m.mean-R/np.linalg.norm(R)).max(), abs(m.concentration-(rb*4-rb**3)/(1-rb**2)))

import warnings; warnings.filterwarnings('ignore')
import numpy as np, itertools, time, sys
from pb_bss.distribution import *
def cn(rng,*s): return (rng.normal(size=s)+1j*rng.normal(size=s))/np.sqrt(2)
def protos(rng,K,D,maxcos,cplx=True):
    for _ in range(10000):
        A=cn(rng,K,D) if cplx else rng.normal(size=(K,D))
        # mix towards orthonormal
        Q=np.linalg.qr(A.T)[0].T[:K]
        t=rng.uniform(0,1)
        A=Q+t*0.25*(cn(rng,K,D) if cplx else rng.normal(size=(K,D)))
        A/=np.linalg.norm(A,axis=-1,keepdims=True)
        G=np.abs(A.conj()@A.T)-np.eye(K)
        if G.max()<=maxcos: return A,G.max()
    raise RuntimeError
fails={}
tot=0
t0=time.time()
for seed in range(int(sys.argv[1])):
    rng=np.random.default_rng(seed)
    K=int(rng.integers(2,5)); D=int(rng.integers(K,9))
    sizes=[int(rng.integers(D+2,3*D+6)) for _ in range(K)]
    lab=np.concatenate([[k]*n for k,n in enumerate(sizes)]); N=len(lab)
    eps=10**rng.uniform(-6,-2)
    blurw=rng.uniform(0,0.45)
    truth=np.eye(K)[lab].T
    init=(1-blurw)*truth+blurw*rng.dirichlet(np.ones(K),size=N).T
    # keep true class largest
    if not (init.argmax(0)==lab).all(): continue
    iters=int(rng.integers(1,21))
    # complex models
    A,mc=protos(rng,K,D,0.3,True)
    gains=np.exp(rng.uniform(-3,3,size=N))*np.exp(2j*np.pi*rng.random(N))
    Y=(A[lab]+eps*cn(rng,N,D))*gains[:,None]
    Ar,mcr=protos(rng,K,D,0.3,False)
    E=Ar[lab]+eps*rng.normal(size=(N,D))
    Eg=E*np.exp(rng.uniform(-1,1,size=N))[:,None]
    def chk(name,post):
        global tot
        tot+=1
        ok=np.isfinite(post).all() and (post.argmax(0)==lab).all()
        if not ok:
            fails.setdefault(name,[]).append((seed,K,D,iters,round(float(eps),6),round(mc,2)))
    for name,f in [
      ('cacgmm',lambda: CACGMMTrainer().fit_predict(Y,initialization=init,iterations=iters)),
      ('cwmm',lambda: CWMMTrainer().fit_predict(Y,initialization=init,iterations=iters)),
      ('cbmm',lambda: CBMMTrainer().fit_predict(Y,initialization=init,iterations=min(iters,3)) if D<=4 and seed%4==0 else None),
      ('gmm_full',lambda: GMMTrainer().fit_predict(E,initialization=init,iterations=iters,weight_constant_axis=(-1,))),
      ('gmm_sph',lambda: GMMTrainer().fit_predict(E,initialization=init,iterations=iters,covariance_type='spherical',weight_constant_axis=(-1,))),
      ('vmfmm',lambda: VMFMMTrainer().fit_predict(Eg,initialization=init,iterations=iters)),
      ('gcacgmm',lambda: GCACGMMTrainer().fit_predict(Y[None],E[None],initialization=init[None],iterations=iters)[0]),
      ('vmfcacgmm',lambda: VMFCACGMMTrainer().fit_predict(Y[None],Eg[None],initialization=init[None],iterations=iters)[0]),
    ]:
        try:
            p=f()
            if p is None: continue
            chk(name,p)
        except Exception as ex:
            fails.setdefault(name+'_ERR',[]).append((seed,K,D,iters,type(ex).__name__,str(ex)[:50]))
print('tot',tot,'time',round(time.time()-t0,1))
for k,v in fails.items(): print(k,len(v),v[:4])

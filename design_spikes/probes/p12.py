import warnings; warnings.filterwarnings('ignore')
import numpy as np, itertools, time, sys
from pb_bss.permutation_alignment import *
from pb_bss.permutation_alignment import apply_mapping
def patterns(rng,K,T,maxcos=0.1):
    for _ in range(1000):
        owner=rng.integers(0,K,size=T)
        if len(set(owner))<K: continue
        P=np.stack([(owner==k)*rng.uniform(0.3,1.5,size=T) for k in range(K)])+rng.uniform(0,0.03)*rng.random((K,T))
        Pn=P/np.linalg.norm(P,axis=-1,keepdims=True); G=Pn@Pn.T-np.eye(K)
        if G.max()<=maxcos: return P
    raise RuntimeError
fails={}; tot=0; t0=time.time()
for seed in range(int(sys.argv[1])):
    rng=np.random.default_rng(seed)
    K=int(rng.integers(2,5)); F=int(rng.choice([9,17,33,65,129,257,513])); T=int(rng.integers(8,40))
    P=patterns(rng,K,T)
    ref=P[:,None,:]*(1+0.1*rng.uniform(-1,1,size=(K,F,T)))
    # scale per (k,f)? keep
    stft=(F-1)*2
    if stft in (512,1024) and rng.random()<0.5: d=DHTVPermutationAlignment.from_stft_size(stft,similarity_metric=rng.choice(['cos','euclidean','multiply']))
    else:
        width=int(rng.integers(3,F+1)); shift=int(rng.integers(1,max(2,width//3+1))); start=int(rng.integers(0,F-width+1))
        d=DHTVPermutationAlignment(stft_size=stft,segment_start=start,segment_width=width,segment_shift=shift,main_iterations=20,sub_iterations=2,similarity_metric=rng.choice(['cos','euclidean','multiply']),algorithm=rng.choice(['greedy','optimal']))
    plan=d.alignment_plan; s,e=plan[0][1],plan[0][2]
    perm=np.stack([rng.permutation(K) for _ in range(F)],1)
    maj=rng.permutation(K)
    keep=rng.permutation(np.arange(s,e))[:int(np.ceil(0.7*(e-s)))]
    perm[:,keep]=maj[:,None]
    mask=apply_mapping(ref,perm)
    tot+=1
    mp=d.calculate_mapping(mask)
    comp=np.stack([perm[mp[:,f],f] for f in range(F)],1)
    if not (comp==comp[:,:1]).all(): fails.setdefault('dhtv',[]).append((seed,K,F,T,d.similarity_metric,d.algorithm,d.segment_start,d.segment_width,d.segment_shift,int((comp!=comp[:,:1]).any(0).sum())))
    if not (d.calculate_mapping(ref)==np.arange(K)[:,None]).all(): fails.setdefault('dhtv_ident',[]).append(seed)
    for metric in ['cos','euclidean','multiply']:
        g=GreedyPermutationAlignment(metric)
        mp=g.calculate_mapping(mask); comp=np.stack([perm[mp[:,f],f] for f in range(F)],1)
        if not (comp==comp[:,:1]).all(): fails.setdefault('greedy_'+metric,[]).append((seed,K,F,T))
        if not (g.calculate_mapping(ref)==np.arange(K)[:,None]).all(): fails.setdefault('greedy_ident_'+metric,[]).append(seed)
print(tot,round(time.time()-t0,1)); 
for k,v in fails.items(): print(k,len(v),v[:6])

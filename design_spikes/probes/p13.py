import warnings; warnings.filterwarnings('ignore')
import numpy as np
from pb_bss.distribution import *
from pb_bss.distribution.complex_bingham import ComplexBinghamTrainer
rng=np.random.default_rng(13)
def cn(*s): return rng.normal(size=s)+1j*rng.normal(size=s)
y=cn(3,20,4)
for name,f in [('cacg fit lead',lambda: ComplexAngularCentralGaussianTrainer().fit(y)),
               ('cacg fit nolead',lambda: ComplexAngularCentralGaussianTrainer().fit(y[0])),
               ('watson fit lead',lambda: ComplexWatsonTrainer().fit(y)),
               ('watson fit sal',lambda: ComplexWatsonTrainer().fit(y,saliency=rng.random((3,20)))),
               ('bingham fit',lambda: ComplexBinghamTrainer().fit(y[:, :, :3])),
               ('ccsg fit',lambda: ComplexCircularSymmetricGaussianTrainer().fit(y,saliency=rng.random((3,20)))),
               ('vmf fit',lambda: VonMisesFisherTrainer().fit(y.real,saliency=rng.random((3,20)))),
               ('gauss fit diag lead',lambda: GaussianTrainer().fit(y.real,saliency=rng.random((3,20)),covariance_type='diagonal')),
               ('gauss fit sph lead',lambda: GaussianTrainer().fit(y.real,covariance_type='spherical')),
               ]:
    try:
        m=f(); print(name,'OK',{k:np.shape(v) for k,v in m.__dict__.items()})
    except Exception as e: print(name,'ERR',type(e).__name__,str(e)[:100])
# compare stack vs slice
m=ComplexWatsonTrainer().fit(y); m0=ComplexWatsonTrainer().fit(y[1]); print('watson slice',np.abs(m.concentration[1]-m0.concentration).max(), np.abs(np.abs(np.vdot(m.mode[1],m0.mode))-1))
s=rng.random((3,20))
m=ComplexCircularSymmetricGaussianTrainer().fit(y,saliency=s); m0=ComplexCircularSymmetricGaussianTrainer().fit(y[1],saliency=s[1]); print('ccsg slice',np.abs(m.covariance[1]-m0.covariance).max())
lp=m.log_pdf(y); lp0=m0.log_pdf(y[1]); print('ccsg logpdf slice',np.abs(lp[1]-lp0).max())
m=VonMisesFisherTrainer().fit(y.real,saliency=s); m0=VonMisesFisherTrainer().fit(y.real[1],saliency=s[1]); print('vmf slice',np.abs(m.mean[1]-m0.mean).max(),np.abs(m.concentration[1]-m0.concentration)); print('vmf logpdf',np.abs(m.log_pdf(y.real)[1]-m0.log_pdf(y.real[1])).max())
m=GaussianTrainer().fit(y.real,saliency=s); m0=GaussianTrainer().fit(y.real[1],saliency=s[1]); print('gauss full slice',np.abs(m.covariance[1]-m0.covariance).max(), np.abs(m.log_pdf(y.real)[1]-m0.log_pdf(y.real[1])).max())
# estimators
yy=y[0]; ss=s[0]
m=GaussianTrainer().fit(yy.real,saliency=ss); mu=(ss[:,None]*yy.real).sum(0)/ss.sum(); d=yy.real-mu; print('gauss est',np.abs(m.mean-mu).max(),np.abs(m.covariance-(ss[:,None,None]*d[:,:,None]*d[:,None,:]).sum(0)/ss.sum()).max())
m=GaussianTrainer().fit(yy.real,saliency=ss,covariance_type='spherical'); print('sph est',np.abs(m.covariance-(ss[:,None]*d**2).sum()/ss.sum()/4))
m=GaussianTrainer().fit(yy.real,saliency=ss,covariance_type='diagonal'); print('diag est',np.abs(m.covariance-(ss[:,None]*d**2).sum(0)/ss.sum()).max())

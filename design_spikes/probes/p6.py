import warnings; warnings.filterwarnings('ignore')
import numpy as np
from pb_bss.evaluation import si_sdr
from pb_bss.evaluation.sxr_module import *
from pb_bss.evaluation.sxr_module import set_snr
from pb_bss.extraction.mask_module import *
rng=np.random.default_rng(6)
def cn(*s): return rng.normal(size=s)+1j*rng.normal(size=s)
r=rng.normal(size=(3,200)); e=r+0.3*rng.normal(size=(3,200))
a=si_sdr(r,e); print('sisdr scale', np.abs(si_sdr(r,e*7.3)-a).max(), np.abs(si_sdr(r*-0.01,e)-a).max(), np.abs(a-np.array([si_sdr(r[i],e[i]) for i in range(3)])).max())
al=(r*e).sum(-1,keepdims=True)/(r*r).sum(-1,keepdims=True); print('sisdr def',np.abs(a-10*np.log10(((al*r)**2).sum(-1)/((e-al*r)**2).sum(-1))).max())
K,D,T=3,2,500
im=rng.normal(size=(K,D,T)); no=0.1*rng.normal(size=(D,T))
for avs in [True,False]:
  for avc in [True,False]:
    s=input_sxr(im,no,average_sources=avs,average_channels=avc)
    if not avs: print('input 1/sdr',avs,avc,np.abs(10**(-s.sdr/10)-10**(-s.sir/10)-10**(-s.snr/10)).max())
    s2=input_sxr(im*3,no*3,average_sources=avs,average_channels=avc); print(' common scale',max(np.abs(np.array(s2.sdr)-s.sdr).max(),np.abs(np.array(s2.sir)-s.sir).max()))
    s3=input_sxr(im*3,no,average_sources=avs,average_channels=avc); print(' image scale snr',np.abs(np.array(s3.snr)-s.snr-20*np.log10(3)).max(),'sir',np.abs(np.array(s3.sir)-s.sir).max())
ic=rng.normal(size=(2,3,T))*np.array([[1,.1,.1],[.1,.1,1]])[:,:,None]; nc=0.05*rng.normal(size=(3,T))
s=output_sxr(ic,nc,average_sources=False); print('out',s)
print('out 1/sdr',np.abs(10**(-s.sdr/10)-10**(-s.sir/10)-10**(-s.snr/10)).max())
p=[2,0,1]; s2=output_sxr(ic[:,p],nc[p],average_sources=False); print('out perm',np.abs(s2.sdr-s.sdr).max())
X=rng.normal(size=(2,300)); N=rng.normal(size=(2,300)); N2=N.copy(); set_snr(X,N2,7.5); print('set/get snr',get_snr(X,N2))
_,N3=set_snr(X,N,-3.,inplace=False); print(get_snr(X,N3))
# masks
S=cn(3,4,5,6)  # K, D?, F, T
m=ideal_binary_mask(S); print('ibm onehot',(m.sum(0)==1).all(), (np.argmax(np.abs(S)**2,0)==np.argmax(m,0)).all())
m=ideal_binary_mask(S,sensor_axis=1); print('ibm pooled',m.shape,(m.sum(0)==1).all(), (np.argmax((np.abs(S)**2).sum(1),0)==np.argmax(m,0)).all())
m2=ideal_binary_mask(np.moveaxis(S,0,2),source_axis=2,sensor_axis=0); print('ibm moved',m2.shape, np.array_equal(np.moveaxis(m2,1,0),m))
m=wiener_like_mask(S); print('wiener',m.min()>=0,m.max()<=1,np.abs(m.sum(0)-1).max())
m=ideal_ratio_mask(S); print('irm',np.abs(m.sum(0)-1).max())
m=ideal_complex_mask(S); print('icm recon',np.abs(m*S.sum(0)-S).max()); pm=phase_sensitive_mask(S); print('psm=re(icm)',np.abs(pm-m.real).max())
Z=np.zeros((2,3,4),complex); print('zeros', np.isfinite(wiener_like_mask(Z)).all(), np.isfinite(ideal_ratio_mask(Z)).all(), np.isfinite(ideal_amplitude_mask(Z)).all(), np.isfinite(phase_sensitive_mask(Z)).all())
Y=cn(4,20,30)
q=quantile_mask(Y,quantile=0.2,axis=-2); thr=np.percentile(np.abs(Y),80,axis=-2,keepdims=True); print('quantile pos', np.array_equal(q>0.5, np.abs(Y)>thr), np.unique(q))
q=quantile_mask(Y,quantile=-0.3,axis=(-2,-1)); thr=np.percentile(np.abs(Y),30,axis=(-2,-1),keepdims=True); print('quantile neg', np.array_equal(q>0.5, np.abs(Y)<thr))
q=quantile_mask(Y,quantile=0.2,axis=-1); thr=np.percentile(np.abs(Y),80,axis=-1,keepdims=True); print('quantile axis-1', np.array_equal(q>0.5, np.abs(Y)>thr))
q=quantile_mask(Y,quantile=0.2,axis=0); thr=np.percentile(np.abs(Y),80,axis=0,keepdims=True); print('quantile axis0', q.shape, np.array_equal(q>0.5, np.abs(Y)>thr))
l=lorenz_mask(Y); 
def lor(P,frac=0.98):
    s=np.sort(P.ravel())[::-1]; c=np.cumsum(s)/s.sum(); th=s[c<frac].min(); return P>th
print('lorenz', all(np.array_equal(l[i]>0.5, lor(np.abs(Y[i])**2)) for i in range(4)), np.unique(l))
l=lorenz_mask(Y,axis=-1); print('lorenz axis-1', all(np.array_equal(l[i,j]>0.5, lor(np.abs(Y[i,j])**2)) for i in range(4) for j in range(20)))
l=lorenz_mask(Y,axis=(0,1)); print('lorenz axis(0,1)', l.shape, all(np.array_equal(l[:,:,t]>0.5, lor(np.abs(Y[:,:,t])**2)) for t in range(30)))
l=lorenz_mask(cn(4,3,20,30),sensor_axis=1); print('lorenz sensor',l.shape)

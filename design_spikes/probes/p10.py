import warnings; warnings.filterwarnings('ignore')
import numpy as np, itertools, time, sys
from pb_bss.distribution import CACGMMTrainer, CWMMTrainer
from pb_bss.permutation_alignment import DHTVPermutationAlignment, OraclePermutationAlignment, apply_mapping
from pb_bss.extraction import get_power_spectral_density_matrix, get_bf_vector, apply_beamforming_vector
from pb_bss.evaluation.sxr_module import output_sxr
def cn(rng,*s): return (rng.normal(size=s)+1j*rng.normal(size=s))/np.sqrt(2)
def scene(rng,K,D,F,T,noise_db=-40):
    A=cn(rng,F,K,D)                       # steering
    # activity: disjoint in TF: owner[f,t]; class patterns consistent across f (time activity)
    # each source active in >=15% frames: random partition of frames
    while True:
        owner_t=rng.integers(0,K,size=T)
        if all((owner_t==k).mean()>=0.15 for k in range(K)): break
    owner=np.tile(owner_t,(F,1))
    S=cn(rng,F,T)*rng.uniform(0.5,1.5,size=(F,T))
    X_img=np.zeros((K,F,D,T),complex)
    for k in range(K):
        X_img[k]=A[:,k,:,None]*(S*(owner==k))[:,None,:]
    sigpow=np.mean(np.abs(X_img.sum(0))**2)
    N=cn(rng,F,D,T)*np.sqrt(sigpow*10**(noise_db/10))
    return A,owner,X_img,N
def run(seed,K,D,F,T,model='cacgmm',bfs=('mvdr_souden','gev','gev+ban','rank1_gev+mvdr_souden','wmwf')):
    rng=np.random.default_rng(seed)
    A,owner,X_img,N=scene(rng,K,D,F,T)
    Y=X_img.sum(0)+N   # F,D,T
    truth=np.stack([(owner==k) for k in range(K)],1).astype(float)  # F,K,T
    blur=0.6*truth+0.4/K
    # per-frequency permutation field inside DHTV domain
    stft=(F-1)*2
    if stft in (512,1024): dh=DHTVPermutationAlignment.from_stft_size(stft)
    else:
        w=max(8,F//3); dh=DHTVPermutationAlignment(stft_size=stft,segment_start=F//4,segment_width=w,segment_shift=max(1,w//5),main_iterations=20,sub_iterations=2)
    plan=dh.alignment_plan; s,e=plan[0][1],plan[0][2]
    perm=np.stack([rng.permutation(K) for _ in range(F)],1)  # K,F
    keep=rng.permutation(np.arange(s,e))[:int(np.ceil(0.72*(e-s)))]
    perm[:,keep]=np.arange(K)[:,None]
    init=np.stack([blur[f,perm[:,f],:] for f in range(F)])
    Yt=Y.transpose(0,2,1)
    if model=='cacgmm': post=CACGMMTrainer().fit_predict(Yt,initialization=init,iterations=10)
    else: post=CWMMTrainer().fit_predict(Yt,initialization=init,iterations=10)
    masks=post.transpose(1,0,2)  # K,F,T
    aligned=dh(masks)
    ref=truth.transpose(1,0,2)
    glob=OraclePermutationAlignment('cos')(aligned.reshape(K,1,F*T), ref.reshape(K,1,F*T))
    # global mapping only: compute mapping and apply to all freqs
    mp=OraclePermutationAlignment('cos').calculate_mapping(aligned.reshape(K,F*T)[:,None,:] if False else aligned.reshape(K,1,F*T), ref.reshape(K,1,F*T))
    aligned=aligned[mp[:,0]]
    acc=(aligned.argmax(0)==ref.argmax(0)).mean()
    res={'acc':acc}
    m=aligned.transpose(1,0,2) # F,K,T
    psd=get_power_spectral_density_matrix(Y,m)  # F,K,D,D
    for bf in bfs:
        sirs=[]
        W=[]
        for k in range(K):
            tp=psd[:,k]; npd=psd[:,[j for j in range(K) if j!=k]].sum(1)
            try:
                w=get_bf_vector(bf,tp,npd)
            except Exception as ex:
                w=None; res[bf]='ERR '+str(ex)[:40]; break
            W.append(w)
        if w is None: continue
        W=np.stack(W) # K,F,D
        ic=np.zeros((K,K,F*T)); 
        # image contributions: source ks through beamformer kt
        icc=np.einsum('kfd,sfdt->skft',W.conj(),X_img)  # s source, k target
        ncc=np.einsum('kfd,fdt->kft',W.conj(),N)
        # time-domain equivalent: use real/imag stacking for power
        ic=np.concatenate([icc.real.reshape(K,K,-1),icc.imag.reshape(K,K,-1)],-1)
        nc=np.concatenate([ncc.real.reshape(K,-1),ncc.imag.reshape(K,-1)],-1)
        sx=output_sxr(ic,nc,average_sources=False)
        res[bf]=float(np.min(sx.sir))
    return res
if __name__=='__main__':
    t=time.time()
    for seed in range(int(sys.argv[1]) if len(sys.argv)>1 else 6):
        rng=np.random.default_rng(1000+seed)
        K=int(rng.integers(2,4)); D=int(rng.integers(K+1,9)); F=int(rng.choice([33,65,257])); T=int(rng.integers(60,201))
        for model in ['cacgmm','cwmm']:
            r=run(seed,K,D,F,T,model)
            print(seed,K,D,F,T,model,{k:(round(v,3) if not isinstance(v,str) else v) for k,v in r.items()},round(time.time()-t,1))

import warnings; warnings.filterwarnings('ignore')
import numpy as np, math
from scipy.stats import multivariate_normal as mvn, vonmises_fisher
from scipy.special import hyp1f1
from pb_bss.distribution import *
from pb_bss.distribution.complex_bingham import ComplexBingham
rng=np.random.default_rng(2)
def cn(*s): return rng.normal(size=s)+1j*rng.normal(size=s)
D=3
A=rng.normal(size=(D,D)); S=A@A.T+0.5*np.eye(D); mu=rng.normal(size=D)
x=rng.normal(size=(5,D))
print('gauss full', Gaussian(mean=mu,covariance=S).log_pdf(x)-mvn(mu,S).logpdf(x))
try: print('gauss diag', DiagonalGaussian(mean=mu,covariance=np.diag(S).copy()).log_pdf(x)-mvn(mu,np.diag(np.diag(S))).logpdf(x))
except Exception as e: print('diag ERR',e)
try: print('gauss sph', SphericalGaussian(mean=mu,covariance=np.array(2.0)).log_pdf(x)-mvn(mu,2*np.eye(D)).logpdf(x))
except Exception as e: print('sph ERR',e)
# complex gaussian
B=cn(D,D); C=B@B.conj().T+np.eye(D); z=cn(5,D)
ref=-D*np.log(np.pi)-np.linalg.slogdet(C)[1]-np.einsum('nd,de,ne->n',z.conj(),np.linalg.inv(C),z).real
print('ccsg', ComplexCircularSymmetricGaussian(covariance=C).log_pdf(z)-ref)
# vMF
m=rng.normal(size=D); m/=np.linalg.norm(m); xs=x/np.linalg.norm(x,axis=-1,keepdims=True)
for kappa in [1e-6,0.5,10.,500.]:
    print('vmf',kappa, VonMisesFisher(mean=m,concentration=np.array(kappa)).log_pdf(x)-vonmises_fisher(m,kappa).logpdf(xs))
# Watson: normaliser c = 2 pi^D/(D-1)! 1F1(1;D;k); check integrates: MC on complex sphere
w=cn(D); w/=np.linalg.norm(w)
zs=cn(200000,D); zs/=np.linalg.norm(zs,axis=-1,keepdims=True)
area=2*np.pi**D/math.factorial(D-1)
for kappa in [0.1,5.,50.]:
    p=ComplexWatson(mode=w,concentration=np.array(kappa)).pdf(zs)
    print('watson int',kappa,p.mean()*area)
# Bingham
lam=np.array([0.,-2.,-5.]); U=np.linalg.qr(cn(D,D))[0]
p=ComplexBingham(U,lam).pdf(zs); print('bingham int',p.mean()*area)
# cACG: density*area integrates to area? exp(log_pdf) mean *area... property: exp(log_pdf) integrates to sphere area
cacg=ComplexAngularCentralGaussian.from_covariance(C)
p=np.exp(cacg.log_pdf(zs)); print('cacg int/area',p.mean())

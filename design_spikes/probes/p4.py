import warnings; warnings.filterwarnings('ignore')
import numpy as np
from pb_bss.distribution import *
rng=np.random.default_rng(4)
def cn(*s): return rng.normal(size=s)+1j*rng.normal(size=s)
T,D,K=12,4,2
def rep(name,f):
    try:
        r=f(); print(name,'OK',r)
    except Exception as e: print(name,'ERR',type(e).__name__,str(e)[:120])
init=rng.random((K,T)); init/=init.sum(0)
hard=np.zeros((K,T)); hard[0,:6]=1; hard[1,6:]=1
cases={'zero':np.zeros((T,D),complex),'dup':np.tile(cn(1,D),(T,1)),'fewer':None,'collinear':np.outer(cn(T),cn(D)), 'big':cn(T,D)*1e150,'small':cn(T,D)*1e-150, 'halfzero':np.concatenate([np.zeros((6,D),complex),cn(6,D)])}
for nm,y in cases.items():
    if y is None:
        y=cn(3,D); ini=rng.random((K,3)); ini/=ini.sum(0); hd=np.array([[1,1,0],[0,0,1.]])
    else: ini,hd=init,hard
    for inm,i0 in [('soft',ini),('hard',hd)]:
        def f():
            m=CACGMMTrainer().fit(y,initialization=i0,iterations=5)
            ev=m.cacg.covariance_eigenvalues; U=m.cacg.covariance_eigenvectors
            g=m.predict(y)
            return dict(evmin=ev.min(),evmax=ev.max(-1),unit=np.abs(U.conj().swapaxes(-1,-2)@U-np.eye(D)).max(),w=m.weight.ravel(),gfin=np.isfinite(g).all(),gsum=np.abs(g.sum(0)-1).max())
        rep(f'cacgmm {nm} {inm}',f)
        def f2():
            m=CWMMTrainer().fit(y,initialization=i0,iterations=5)
            g=m.predict(y)
            return dict(modenorm=np.linalg.norm(m.complex_watson.mode,axis=-1),kappa=m.complex_watson.concentration,w=m.weight.ravel(),gfin=np.isfinite(g).all(),gsum=np.abs(g.sum(0)-1).max())
        rep(f'cwmm {nm} {inm}',f2)

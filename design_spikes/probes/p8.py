import warnings; warnings.filterwarnings('ignore')
import numpy as np, itertools
from pb_bss.permutation_alignment import *
from pb_bss.permutation_alignment import _mapping_from_score_matrix, apply_mapping
rng=np.random.default_rng(8)
bad={}
for trial in range(3000):
    K=rng.integers(1,5); F=1; T=rng.integers(1,6)
    kind=rng.integers(0,3)
    if kind==0: ref=rng.normal(size=(K,F,T))
    elif kind==1: ref=rng.integers(-3,4,size=(K,F,T)).astype(float)
    else: ref=np.abs(rng.normal(size=(K,F,T)))*rng.choice([0.1,1,10],size=(K,1,1))
    perm=np.stack([rng.permutation(K) for _ in range(F)],1)
    mask=apply_mapping(ref,perm)
    for metric in ['cos','euclidean','multiply']:
        r=ref
        if metric=='cos':
            n=ref/np.maximum(np.linalg.norm(ref,axis=-1,keepdims=True),1e-300)
            d=min([np.abs(n[i,0]-n[j,0]).max() for i in range(K) for j in range(i)]+[1])
            if d<1e-6 or (np.linalg.norm(ref,axis=-1)==0).any(): continue
        else:
            d=min([np.abs(ref[i,0]-ref[j,0]).max() for i in range(K) for j in range(i)]+[1])
            if d==0: continue
        for alg in ['greedy','optimal']:
            out=OraclePermutationAlignment(metric,alg)(mask,ref)
            if not np.array_equal(out,ref): bad[(metric,alg)]=bad.get((metric,alg),0)+1; 
            if not np.array_equal(out,ref) and bad[(metric,alg)]<3: print(metric,alg,'\n',ref[:,0],'\n',mask[:,0])
print(bad)

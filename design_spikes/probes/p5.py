import warnings; warnings.filterwarnings('ignore')
import numpy as np, itertools
from pb_bss.extraction import beamformer as bf
from pb_bss.extraction.beamformer_wrapper import *
from pb_bss.extraction.beamformer_wrapper import get_pca_rank_one_estimate, get_gev_rank_one_estimate
rng=np.random.default_rng(5)
def cn(*s): return rng.normal(size=s)+1j*rng.normal(size=s)
def hpd(*lead,D):
    A=cn(*lead,D,D+2); return A@A.conj().swapaxes(-1,-2)/ (D+2)
psd=bf.get_power_spectral_density_matrix
# C10 layouts
F,D,T,K=3,4,7,2
X=cn(F,D,T); m=rng.random((F,K,T))
ref=np.einsum('fkt,fdt,fet->fkde',m/m.sum(-1,keepdims=True),X,X.conj())
print('psd default',np.abs(psd(X,m)-ref).max())
print('psd nonorm',np.abs(psd(X,m,normalize=False)-np.einsum('fkt,fdt,fet->fkde',m,X,X.conj())).max())
print('psd nomask',np.abs(psd(X)-np.einsum('fdt,fet->fde',X,X.conj())/T).max())
m2=rng.random((F,T)); print('psd 2d mask',np.abs(psd(X,m2)-np.einsum('ft,fdt,fet->fde',m2/m2.sum(-1,keepdims=True),X,X.conj())).max())
# source_dim=0: mask (K,F,T)
try:
    r=psd(X,m.transpose(1,0,2),source_dim=0); print('psd source_dim0',r.shape,np.abs(r-ref.transpose(1,0,2,3)).max())
except Exception as e: print('source_dim0 ERR',e)
# sensor_dim: X (D,F,T)
try:
    r=psd(X.transpose(1,0,2),m,sensor_dim=0); print('psd sensor_dim0',r.shape,np.abs(r-ref).max())
except Exception as e: print('sensor_dim0 ERR',e)
# time_dim with source-axis mask: X (F,T,D), mask (F,T,K)? time_dim=-2? 
try:
    r=psd(X.transpose(0,2,1),m.transpose(0,2,1),sensor_dim=-1,source_dim=-1,time_dim=-2); print('psd time_dim-2',r.shape,np.abs(r-ref).max())
except Exception as e: print('time_dim ERR',type(e).__name__,e)
try:
    r=psd(X.transpose(0,2,1),None,sensor_dim=-1,time_dim=-2); print('psd nomask time_dim-2',np.abs(r-np.einsum('fdt,fet->fde',X,X.conj())/T).max())
except Exception as e: print('time_dim ERR',type(e).__name__,e)
z=np.zeros((F,K,T)); r=psd(X,z); print('zero mask finite',np.isfinite(r).all(),np.abs(r).max())
# condition covariance
P=hpd(3,D=4); g=0.3; cc=bf.condition_covariance(P,g); print('cond',np.abs(cc-(P+g*np.trace(P,axis1=-1,axis2=-2)[...,None,None]/4*np.eye(4))/(1+g)).max())
# C11
Fq=5; Pn=hpd(Fq,D=4); a=cn(Fq,4)
_mv=bf.get_mvdr_vector
def _mvdr(a,P):
    try: return _mv(a,P)
    except Exception as e:
        print('MVDR ERR',str(e)[:50]); 
        P=np.broadcast_to(P,a.shape+(a.shape[-1],)); return np.linalg.solve(P,a[...,None])[...,0]/np.einsum('...d,...d->...',a.conj(),np.linalg.solve(P,a[...,None])[...,0])[...,None]
bf.get_mvdr_vector=_mvdr
w=bf.get_mvdr_vector(a,Pn); print('mvdr wHa',np.abs(np.einsum('fd,fd->f',w.conj(),a)-1).max())
a3=cn(2,Fq,4); w=bf.get_mvdr_vector(a3,Pn); print('mvdr stack',np.abs(np.einsum('kfd,kfd->kf',w.conj(),a3)-1).max())
sig=rng.random(Fq)+0.5; Px=sig[:,None,None]*np.einsum('fd,fe->fde',a,a.conj())
for ref_ch in [0,2]:
    ws=bf.get_mvdr_vector_souden(Px,Pn,ref_channel=ref_ch); wm=bf.get_mvdr_vector(a,Pn)
    print('souden vs mvdr',ref_ch,np.abs(ws-wm*a[:,ref_ch].conj()[:,None]).max())
    for mu in [0,1.,10.]:
        ww=bf.get_wmwf_vector(Px,Pn,reference_channel=ref_ch,distortion_weight=mu)
        exact=np.linalg.solve(Px+mu*Pn,Px)[...,ref_ch]
        print('wmwf',mu,np.abs(ww-exact).max(), 'mu0=souden', np.abs(ww-ws).max() if mu==0 else '')
print('souden auto ref', bf.get_mvdr_vector_souden(Px,Pn,return_ref_channel=True)[1])
# lcmv
A=cn(2,Fq,4); r=np.array([1,0.]); wl=bf.get_lcmv_vector(A,r,Pn); print('lcmv',np.abs(np.einsum('fd,kfd->kf',wl.conj(),A)-r[:,None]).max())
r=np.array([0.3,2.]); wl=bf.get_lcmv_vector(A,r,Pn); print('lcmv r',np.abs(np.einsum('fd,kfd->kf',wl.conj(),A)-r[:,None]).max(), np.abs(np.einsum('fd,kfd->kf',wl,A.conj())-r[:,None]).max())
# C12 gev
Px2=hpd(Fq,D=4)
import scipy.linalg
for ue in [False,True]:
    w=bf.get_gev_vector(Px2,Pn,use_eig=ue)
    snr=np.einsum('fd,fde,fe->f',w.conj(),Px2,w).real/np.einsum('fd,fde,fe->f',w.conj(),Pn,w).real
    lam=[scipy.linalg.eigh(Px2[f],Pn[f])[0][-1] for f in range(Fq)]
    print('gev',ue,np.abs(snr-lam).max())
for sc in [None,'trace','eigenvalue']:
    w=bf.get_pca_vector(Px2,scaling=sc); ev=np.linalg.eigvalsh(Px2)[:,-1]
    rq=np.einsum('fd,fde,fe->f',w.conj(),Px2,w).real/np.einsum('fd,fd->f',w.conj(),w).real
    print('pca',sc,np.abs(rq-ev).max(), np.linalg.norm(w,axis=-1)/ {None:1,'trace':np.sqrt(np.trace(Px2,axis1=-1,axis2=-2).real),'eigenvalue':ev}[sc])
R=get_pca_rank_one_estimate(Px2); print('rank1 pca trace',np.abs(np.trace(R,axis1=-1,axis2=-2)-np.trace(Px2,axis1=-1,axis2=-2)).max(), 'rank',np.linalg.matrix_rank(R[0]),'herm',np.abs(R-R.conj().swapaxes(-1,-2)).max())
R=get_gev_rank_one_estimate(Px,Pn); print('rank1 gev recover', np.abs(R-Px).max())
w=bf.get_gev_vector(Px2,Pn); b1=bf.blind_analytic_normalization(w,Pn); b2=bf.blind_analytic_normalization(w*(3-2j),Pn); print('ban scale inv',np.abs(b1-b2*np.exp(-1j*np.angle(3-2j))).max())
fac=np.sqrt(np.einsum('fa,fab,fbc,fc->f',w.conj(),Pn,Pn,w).real)/np.einsum('fa,fab,fb->f',w.conj(),Pn,w).real
print('ban factor',np.abs(b1-w*fac[:,None]).max())
# C13 names
names=['pca','pca+mvdr','scaled_gev_atf+mvdr','mvdr_souden','rank1_pca+mvdr_souden','rank1_gev+mvdr_souden','gev','rank1_pca+gev','rank1_gev+gev','wmwf','rank1_pca+wmwf','rank1_gev+wmwf','ch0','ch2']
for n in names:
  for ban in ['','+ban']:
    try:
        w=get_bf_vector(n+ban,Px2,Pn); ok=np.isfinite(w).all()
        # stack
        P2=np.stack([Px2,Px2[::-1]]); N2=np.stack([Pn,Pn[::-1]])
        try:
            ws=get_bf_vector(n+ban,P2,N2, **({'ref_channel':0} if 'souden' in n else {'reference_channel':0} if 'wmwf' in n else {}))
            w0=get_bf_vector(n+ban,Px2,Pn, **({'ref_channel':0} if 'souden' in n else {'reference_channel':0} if 'wmwf' in n else {}))
            w1=get_bf_vector(n+ban,Px2[::-1],Pn[::-1], **({'ref_channel':0} if 'souden' in n else {'reference_channel':0} if 'wmwf' in n else {}))
            # compare up to phase for eig-based
            def d(a,b): 
                a=a/ (np.linalg.norm(a,axis=-1,keepdims=True)); b=b/np.linalg.norm(b,axis=-1,keepdims=True)
                return np.abs(1-np.abs(np.einsum('...d,...d->...',a.conj(),b))).max()
            st=max(d(ws[0],w0),d(ws[1],w1))
        except Exception as e: st='ERR '+str(e)[:60]
        print(n+ban,'ok',ok,'stackdiff',st)
    except Exception as e: print(n+ban,'ERR',type(e).__name__,str(e)[:80])
# singular
Pz=Px2.copy(); Pz[2]=0; Nz=Pn.copy(); Nz[1]=0
w=bf.get_mvdr_vector_souden(Pz,Nz,ref_channel=0); print('souden singular finite',np.isfinite(w).all(), np.abs(w[[0,3,4]]-bf.get_mvdr_vector_souden(Px2,Pn,ref_channel=0)[[0,3,4]]).max())
w=bf.get_wmwf_vector(Pz,Nz,reference_channel=0); print('wmwf singular finite',np.isfinite(w).all())

import warnings; warnings.filterwarnings('ignore')
import numpy as np, itertools
from pb_bss.distribution import *
from pb_bss.distribution.mixture_model_utils import *
rng=np.random.default_rng(1)
def cn(*s): return rng.normal(size=s)+1j*rng.normal(size=s)
# C01: posterior = Bayes for each model w/ tying options
F,T,D,K=3,40,4,3
y=cn(F,T,D)
init=rng.random((F,K,T)); init/=init.sum(-2,keepdims=True)
def bayes(w,lp):
    a=np.exp(lp-lp.max(-2,keepdims=True))*w
    return a/a.sum(-2,keepdims=True)
for wca in [(-1,),(-3,),(-3,-1),-2,(-2,)]:
    try:
        m=CACGMMTrainer().fit(y,initialization=init,iterations=3,weight_constant_axis=wca)
        g=m.predict(y)
        lp=m.cacg.log_pdf(y[...,None,:,:])
        print('cacgmm',wca,'w',m.weight.shape,'sum1',np.abs(g.sum(-2)-1).max(),'bayes',np.abs(g-bayes(m.weight,lp)).max())
    except Exception as e: print('cacgmm',wca,'ERR',type(e).__name__,e)
for wca in [(-1,),(-3,),(-3,-1),-2]:
    try:
        m=CWMMTrainer().fit(y,initialization=init,iterations=3,weight_constant_axis=wca)
        g=m.predict(y); lp=m.complex_watson.log_pdf((y/np.linalg.norm(y,axis=-1,keepdims=True))[...,None,:,:])
        print('cwmm',wca,'w',m.weight.shape,'sum1',np.abs(g.sum(-2)-1).max(),'bayes',np.abs(g-bayes(m.weight,lp)).max())
    except Exception as e: print('cwmm',wca,'ERR',type(e).__name__,e)
yr=rng.normal(size=(F,T,D))
for ct in ['full','diagonal','spherical']:
  for wca in [(-1,),(-3,),-2]:
    try:
        m=GMMTrainer().fit(yr,initialization=init,iterations=3,weight_constant_axis=wca,covariance_type=ct)
        g=m.predict(yr); lp=m.gaussian.log_pdf(yr[...,None,:,:])
        print('gmm',ct,wca,'w',m.weight.shape,'sum1',np.abs(g.sum(-2)-1).max(),'bayes',np.abs(g-bayes(m.weight,lp)).max())
    except Exception as e: print('gmm',ct,wca,'ERR',type(e).__name__,str(e)[:100])
for wca in [(-1,),(-3,),-2]:
    try:
        m=VMFMMTrainer().fit(yr,initialization=init,iterations=3,weight_constant_axis=wca)
        g=m.predict(yr); lp=m.vmf.log_pdf(yr[...,None,:,:])
        print('vmfmm',wca,'w',m.weight.shape,'sum1',np.abs(g.sum(-2)-1).max(),'bayes',np.abs(g-bayes(m.weight,lp)).max())
    except Exception as e: print('vmfmm',wca,'ERR',type(e).__name__,str(e)[:100])
E=5
emb=rng.normal(size=(F,T,E))
for wca in [(-1,),(-3,),(-3,-1),(-3,-2,-1)]:
  for tr,name in [(GCACGMMTrainer(),'gcacgmm'),(VMFCACGMMTrainer(),'vmfcacgmm')]:
    try:
        m=tr.fit(y,emb,initialization=init,iterations=3,weight_constant_axis=wca)
        g=m.predict(y,emb)
        print(name,wca,'w',np.shape(m.weight),'sum1',np.abs(g.sum(-2)-1).max())
    except Exception as e: print(name,wca,'ERR',type(e).__name__,str(e)[:100])

import numpy as np, subprocess, time
rng=np.random.default_rng(0)
def bits(a): return ' '.join(str(int(x)) for x in np.asarray(a,np.float64).ravel().view(np.uint64))
lines=[];mats=[]
for t in range(500):
    n=int(rng.integers(1,9))
    kind=rng.integers(0,4)
    B=rng.normal(size=(n,n))+1j*rng.normal(size=(n,n))
    if kind==0: A=B@B.conj().T
    elif kind==1: A=(B+B.conj().T)/2
    elif kind==2:
        v=B[:, :max(1,n//2)]; A=v@v.conj().T   # rank deficient
    else:
        A=B@np.diag(10.0**rng.uniform(-8,0,size=n))@B.conj().T; A=(A+A.conj().T)/2
    mats.append(A)
    ri=np.stack([A.real,A.imag],-1)
    lines.append(f'eigh {n} {bits(ri)}')
t0=time.time()
out=subprocess.run(['/tmp/spike/Spike/.lake/build/bin/numdriver'],input='\n'.join(lines)+'\n',capture_output=True,text=True).stdout.strip().split('\n')
print('time',time.time()-t0)
worst=[0,0,0]
for A,o in zip(mats,out):
    n=A.shape[0]
    v=np.array([int(x) for x in o.split()],dtype=np.uint64).view(np.float64)
    vals=v[:n]; V=(v[n::2]+1j*v[n+1::2]).reshape(n,n)
    w=np.linalg.eigvalsh(A); sc=max(np.abs(w).max(),1e-300)
    worst[0]=max(worst[0],np.abs(vals-w).max()/sc)
    worst[1]=max(worst[1],np.abs(V.conj().T@V-np.eye(n)).max())
    worst[2]=max(worst[2],np.abs(A@V-V*vals).max()/sc)
print('eigval rel',worst[0],'unitarity',worst[1],'residual rel',worst[2])

import warnings; warnings.filterwarnings('ignore')
import numpy as np, sys, time
from pb_bss.distribution import *
def cn(rng,*s): return rng.normal(size=s)+1j*rng.normal(size=s)
issues={}
t0=time.time()
for seed in range(int(sys.argv[1])):
    rng=np.random.default_rng(seed)
    K=int(rng.integers(1,5)); D=int(rng.integers(2,7)); N=int(rng.integers(1,30)); F=int(rng.integers(1,3))
    kind=rng.choice(['normal','zero','dup','collinear','big','small','halfzero','mixedscale'])
    Y=cn(rng,F,N,D); E=rng.normal(size=(F,N,D))
    if kind=='zero': Y[:]=0; E[:]=0
    if kind=='dup': Y[:]=Y[:,:1]; E[:]=E[:,:1]
    if kind=='collinear': Y=cn(rng,F,N,1)*cn(rng,F,1,D); E=rng.normal(size=(F,N,1))*rng.normal(size=(F,1,D))
    if kind=='big': Y*=1e150; E*=1e150
    if kind=='small': Y*=1e-150; E*=1e-150
    if kind=='halfzero': Y[:,:N//2]=0; E[:,:N//2]=0
    if kind=='mixedscale': s=10**rng.uniform(-150,150,size=(F,N,1)); Y=Y*s; E=E*s
    init=rng.dirichlet(np.ones(K),size=(F,N)).transpose(0,2,1) if rng.random()<0.7 else np.eye(K)[rng.integers(0,K,size=(F,N))].transpose(0,2,1)
    if (init.sum(-1)==0).any(): continue
    it=int(rng.integers(1,6))
    dt=rng.choice(['d','s'])
    if dt=='s':
        if kind in ('big','small','mixedscale'): sc=1e-120 if kind=='big' else (1e120 if kind=='small' else 1); Y=Y*sc; E=E*sc
        if kind=='mixedscale': Y=Y/np.maximum(np.abs(Y),1e-300)*np.abs(Y)**0.2; E=np.sign(E)*np.abs(E)**0.2
        Yc=Y.astype(np.complex64); Ec=E.astype(np.float32)
        if not (np.isfinite(Yc).all() and np.isfinite(Ec).all()): continue
    else: Yc,Ec=Y,E
    for name,f in [('cacgmm',lambda: CACGMMTrainer().fit_predict(Yc,initialization=init,iterations=it) if K>1 else None),
                   ('cwmm',lambda: CWMMTrainer().fit_predict(Yc,initialization=init,iterations=it)),
                   ('gmm',lambda: GMMTrainer().fit_predict(Ec,initialization=init,iterations=it,weight_constant_axis=(-1,))),
                   ('gmm_sph',lambda: GMMTrainer().fit_predict(Ec[0],initialization=init[0],iterations=it,covariance_type='spherical',weight_constant_axis=(-1,))),
                   ('vmfmm',lambda: VMFMMTrainer().fit_predict(Ec,initialization=init,iterations=it)),
                   ('gcacgmm',lambda: GCACGMMTrainer().fit_predict(Yc,Ec,initialization=init,iterations=it)),
                   ('vmfcacgmm',lambda: VMFCACGMMTrainer().fit_predict(Yc,Ec,initialization=init,iterations=it)),
                   ]:
        try:
            with np.errstate(all='ignore'):
                p=f()
            if p is None: continue
            bad=[]
            if not np.isfinite(p).all(): bad.append('nonfinite')
            elif p.min()<0 or p.max()>1+1e-12: bad.append('range')
            elif np.abs(p.sum(-2)-1).max()>1e-6: bad.append('sum %.3g'%np.abs(p.sum(-2)-1).max())
            if bad: issues.setdefault(name+':'+bad[0].split()[0],[]).append((seed,kind,K,D,N,dt,bad[0]))
        except Exception as ex:
            issues.setdefault(name+':EXC:'+type(ex).__name__,[]).append((seed,kind,K,D,N,dt,str(ex)[:60]))
print(round(time.time()-t0,1))
for k,v in sorted(issues.items()): print(k,len(v),v[:3])

import Spike.Model
import Spike.Greedy
open PbBss

def parseBits (s : String) : Float := Float.ofBits (s.toNat!.toUInt64)

partial def loop (h : IO.FS.Stream) : IO Unit := do
  let line ← h.getLine
  if line.isEmpty then return ()
  let toks := (line.trimAscii.toString.splitOn " ").filter (· ≠ "")
  match toks with
  | "aff" :: k :: rest =>
    let K := k.toNat!
    if h : 0 < K then
      let xs := rest.toArray.map parseBits
      let w : Fin ((K-1)+1) → Float := fun i => xs[i.val]!
      let lp : Fin ((K-1)+1) → Float := fun i => xs[K + i.val]!
      let out := List.ofFn (affiliation (K := K-1) 2.2250738585072014e-308 w lp)
      IO.println (" ".intercalate (out.map fun x => toString x.toBits))
    else IO.println "bad-op"
  | "greedy" :: k :: rest =>
    let K := k.toNat!
    if hK : 0 < K then
      let xs := rest.toArray.map parseBits
      let s : Fin K → Fin K → Float := fun i j => xs[i.val * K + j.val]!
      let g := greedy hK s
      IO.println (" ".intercalate ((List.ofFn g).map fun x => toString x.val))
    else IO.println "bad-op"
  | _ => IO.println "bad-op"
  loop h

def main : IO Unit := do loop (← IO.getStdin)

#!/venv/bin/python
"""Rewrites the generated blocks of DESIGN.md (between <!-- BEGIN x --> / <!-- END x -->): seeded-change table, findings table."""
import glob, json, os, re
V = os.path.dirname(os.path.dirname(os.path.abspath(__file__)))
def block(name, text, doc):
    b, e = f'<!-- BEGIN {name} -->', f'<!-- END {name} -->'
    if b not in doc:
        return doc + f'\n{b}\n{text}\n{e}\n'
    return re.sub(re.escape(b) + '.*?' + re.escape(e), lambda m: b + '\n' + text + '\n' + e, doc, flags=re.S)
rows = ['| seeded change | property | what it needs to manifest | detected by |', '|---|---|---|---|']
for d in sorted(glob.glob(os.path.join(V, 'seeded', '*'))):
    m = json.load(open(os.path.join(d, 'meta.json')))
    rows.append(f"| `seeded/{os.path.basename(d)}` | {m['property']} | {m['needs_to_manifest']} | {m['detection']} |")
seeded = '\n'.join(rows)
fix, fnd = [], []
for line in open(os.path.join(V, 'known_findings.txt')):
    line = line.strip()
    if line.startswith('fixed:'):
        _, p, c, rest = line.split(None, 3)
        fix.append(f"| {p.split('=')[1]} | `{c}` | {rest} |")
    elif line.startswith('finding:'):
        _, p, k, rest = line.split(None, 3)
        fnd.append(f"| {p.split('=')[1]} | `{k.split('=', 1)[1]}` | {rest} |")
findings = ('**Repaired (one `fix:` commit each in /repo, baseline suite unchanged):**\n\n| property | commit | what failed |\n|---|---|---|\n' + '\n'.join(fix) +
            '\n\n**Recorded known findings (printed as `KNOWN-FINDING`, exit 0):**\n\n| property | key | what fails |\n|---|---|---|\n' + '\n'.join(fnd))
man = json.load(open(os.path.join(V, 'MANIFEST.json')))
st = ['| id | theorems audited | correspondence cases (quick) | search evaluations (quick) | wall s | gap / partial clause (from MANIFEST level_note) |', '|---|---|---|---|---|---|']
for c in man['checks']:
    pid = c['property_id']
    try:
        e = json.load(open(os.path.join(V, 'evidence', pid + '.json')))
        cov = e['coverage']
        note = c['level_note'].split('Float vs ℝ rounding not covered. ')[-1]
        st.append(f"| {pid} | {cov['discharged']}/{cov['obligations']} | {cov.get('correspondence_cases', '')} | {cov.get('search_evaluations', '')} | {e['wall_s']} | {note} |")
    except Exception as ex:
        st.append(f'| {pid} | (no evidence yet: {ex}) | | | | |')
status = '\n'.join(st)
p = os.path.join(V, 'DESIGN.md')
doc = open(p).read()
doc = block('FINDINGS', findings, doc)
doc = block('SEEDED', seeded, doc)
doc = block('STATUS', status, doc)
open(p, 'w').write(doc)
print('fixed', len(fix), 'findings', len(fnd), 'seeded', len(rows) - 2)

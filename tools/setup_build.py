#!/venv/bin/python
"""Build exactly what the checks registered in MANIFEST.json need: their Props modules and model drivers."""
import importlib, json, os, subprocess, sys
V = os.path.dirname(os.path.dirname(os.path.abspath(__file__)))
sys.path.insert(0, V); sys.path.insert(0, os.environ.get('PB_BSS_REPO', '/repo'))
sys.dont_write_bytecode = True
import warnings; warnings.filterwarnings('ignore')
man = json.load(open(os.path.join(V, 'MANIFEST.json')))
targets, drivers = [], set()
for c in man['checks']:
    pid = c['property_id']
    targets.append(f'PbBss.Props.{pid}')
    mod = importlib.import_module(f'harness.props.{pid.lower()}')
    drivers.update(getattr(mod, 'DRIVERS', ('driver',)))
    pre = getattr(mod, 'setup_targets', None)
    if pre:
        targets += list(pre())
cmd = ['lake', 'build'] + targets + sorted(drivers)
print(' '.join(cmd), flush=True)
r = subprocess.run(cmd, cwd=os.path.join(V, 'lean'), capture_output=True, text=True)
out = r.stdout + r.stderr
keep = [l for l in out.splitlines() if l.startswith(('error', '✖', 'Build completed', 'Some required'))]
print('\n'.join(keep[-40:]))
sys.exit(r.returncode)

#!/bin/bash
# all checks against a worktree of /repo with tools/harmless_rewrite.diff applied (git -C /repo worktree add --detach /tmp/wt_h HEAD; git -C /tmp/wt_h apply tools/harmless_rewrite.diff): deep mode everywhere, must exit 0; remove the worktree afterwards
cd /verif
out=/tmp/harmless_run; rm -rf $out; mkdir -p $out
for grp in "C01 C02 C03 C04 C05" "C06 C07 C08 C09 C10 C11" "C12 C13 C14 C15 C16" "C17 C18 C19 C20"; do
  for p in $grp; do
    ( PB_BSS_REPO=/tmp/wt_h VERIF_SEED=${SEED:-0} VERIF_EVIDENCE_DIR=$out/ev ./check $p --no-lean > $out/$p.log 2>&1; echo "$p exit=$?" >> $out/summary.txt ) &
  done
  wait
done
sort $out/summary.txt | tr '\n' ' '; echo
grep -h "^VIOLATION\|deep mode" $out/*.log | cut -c1-200 | head -40

#!/venv/bin/python
"""tools/keep_mutant.py <srcdir> <seed-id> <property> "<needs>" "<detected-by>"  -> /verif/seeded/<seed-id>/"""
import json, os, shutil, sys
src, sid, prop, needs, det = sys.argv[1:6]
V = os.path.dirname(os.path.dirname(os.path.abspath(__file__)))
dst = os.path.join(V, 'seeded', sid); os.makedirs(dst, exist_ok=True)
for f in ('patch.diff', 'demo.py', 'notes.md'):
    if os.path.exists(os.path.join(src, f)):
        shutil.copy(os.path.join(src, f), os.path.join(dst, f))
conf = json.load(open(os.path.join(src, 'confirm.json')))
assert conf['confirmed'], conf
meta = {'property': prop, 'breaks': prop, 'origin': 'fresh sub-agent given only the property text and a scratch worktree of /repo',
        'needs_to_manifest': needs,
        'confirmed_by_coordinator': {'what_was_run': 'tools/confirm_mutant.py: scratch worktree of /repo HEAD; demo.py without the patch (exit 0), '
                                     'git apply patch.diff, demo.py again (exit != 0), tools/baseline_check.py (all 542 stable tests still pass)',
                                     **conf},
        'detection': det}
json.dump(meta, open(os.path.join(dst, 'meta.json'), 'w'), indent=1)
print('kept', dst)

#!/venv/bin/python
"""Regenerates MANIFEST.json from the table below (one entry per claimed property)."""
import json, os
V = os.path.dirname(os.path.dirname(os.path.abspath(__file__)))
props = [json.loads(l) for l in open(os.path.join(V, 'properties.jsonl'))]
NOTE = ("Trusted: Lean 4.33 kernel + Mathlib v4.33; axioms of every listed theorem ⊆ {propext, Classical.choice, Quot.sound} "
        "(audited every run, no sorry/native_decide/own axioms); the reading of the property as the statements in "
        "lean/PbBss/Props/%s.lean; the hand-written model, tied to /repo's working tree by the per-run correspondence run "
        "(Lean driver vs in-process Python) — tolerances 1e-9 rel. for floats, exact for discrete outputs; NumPy/SciPy/"
        "sklearn semantics and externals' contracts modelled, not verified; Float vs ℝ rounding not covered. ")
C = {}
C['C14'] = dict(
 text="Lean theorems for all K, F, T and all score matrices over any linear order: greedy/optimal assignments are bijections, apply_mapping preserves per-bin multisets and class sums, greedy/oracle/DHTV mappings are per-bin permutations for every plan, DHTV features = apply_mapping(start features, mapping), inline alignment uses one mapping for posteriors and quadratic forms, integration-model alignment picks a permutation not worse than the identity. Tied to the code by exact correspondence (exhaustive {0,1,2}^(KxK), K<=3; random/tied matrices; all three aligners on real masks) and backed by the search on the real code.",
 note="-inf mask value modelled as outside the score type (integer matrices containing iinfo.min and overflowing float sums are excluded points, DESIGN.md 5).",
 tech="Lean 4 proof (induction, loop invariants) + exact differential correspondence + oracle search on the implementation")
C['C15'] = dict(
 text="Lean theorems: the 'optimal' assignment attains the maximum total score over all permutations (Finset.sum form, hence >= greedy); row dominance forces greedy = optimal = sigma; euclidean and cosine similarities are strictly self-dominant for distinct (normalised) rows, multiply has the identity as strict unique maximiser of the total; hence the oracle aligner undoes EVERY per-frequency permutation field (all K, F, T; F=1 is the flattened global case) for all three metrics (euclidean, cos, multiply) with both algorithms (multiply+greedy via stepwise dominance). Correspondence exact; search exhaustive for K<=3, F<=3, vs scipy linear_sum_assignment.",
 note="real-number statements, float near-ties excluded by a 1e-6 separation margin in the generators.",
 tech="Lean 4 proof over ordered monoids / reals + exact correspondence + exhaustive small-space search")
C['C16'] = dict(
 text="Lean theorems: alignment_plan model (bit-identical to the code on every configuration with STFT size <= 24/64 and the 512/1024 defaults) covers every bin whenever shift <= width; DHTV and adjacent-bin mappings are exactly the accumulated net reordering (loop invariant, all masks/plans/metrics); identity on consistent masks; the greedy aligner restores ONE class order for every permutation field under adjacent-bin row dominance, which the stated analytic domain (cosine <= 0.1, jitter <= 10 %) implies for the cos metric (jitter lemma); DHTV (cos/multiply, any assignment algorithm, any plan): one pass = per-bin reassignment against the fixed centroid (functional characterisation of the in-place loop), majority inequality, induction over the plan => from a first-segment majority and >= 2/3 overlap of every later segment every processed bin ends in one order and pi_f o mapping[:, f] is constant (dhtv_majority, dhtv_restores_in_domain); the shipped 512 and 1024 plans satisfy the overlap premise and cover all bins (kernel decide on the plan model).",
 note="Partial: DHTV with the euclidean metric and greedy restoration for euclidean/multiply outside the dominance hypothesis are search-only; tie-free masks (1e-9 margin). Link to the EM stage: two-level masks - literally eStep(fit n) of the cACG mixture in the balanced scene, scrambled by an arbitrary per-bin permutation - satisfy the hypotheses of the restoration theorems when 10*T*h <= g (em_posteriors_restored_by_greedy / _by_dhtv).",
 tech="Lean 4 proof (plan arithmetic, loop invariants, functional characterisation of the in-place pass, real analysis for jitter/majority bounds, kernel decide for the shipped plans) + exact correspondence + search")
man = {
 "version": 1,
 "setup_cmd": "./setup.sh",
 "hooks": {"guard": "PB_BSS_VERIF",
           "enable": "no source hooks are needed: checks import pb_bss from /repo's working tree in-process (sys.path) and observe iterates through public/private methods; PB_BSS_VERIF=1 is exported by ./check but read by nothing in /repo",
           "baseline_off_cmd": "cd /repo && /venv/bin/python -m pytest -ra -q -p no:cacheprovider --timeout=900 --continue-on-collection-errors",
           "source_commits": [], "add_only": True},
 "engines": [{"name": "lean-proof+correspondence", "path": "check", "serves_properties": sorted(C),
              "kind_free_text": "Lean 4 theorems about hand-written executable models (lean/PbBss), axiom audit per run; compiled Lean drivers run against the in-process Python implementation (correspondence); property oracles on the real code (failing-input search)"}],
 "checks": [], "notes": "see DESIGN.md; replay files are written to out/replays/; known findings in known_findings.txt",
 "not_applicable": []}
extra = os.path.join(V, 'tools', 'manifest_entries.json')
if os.path.exists(extra):
    C.update(json.load(open(extra)))
    man['engines'][0]['serves_properties'] = sorted(C)
for pid in sorted(C):
    e = C[pid]
    man['checks'].append({
        "property_id": pid, "quick_cmd": f"./check {pid} --tier quick", "thorough_cmd": f"./check {pid} --tier thorough",
        "evidence_file": f"evidence/{pid}.json", "replay_cmd_template": f"./check {pid} --replay {{path}}",
        "engine": "lean-proof+correspondence",
        "level_claimed": {"category": e.get('level', 'proof'), "text": e['text'], "design_ref": f"DESIGN.md section 4, {pid}"},
        "level_note": (NOTE % pid) + e['note'], "technique": e['tech']})
for p in props:
    if p['id'] not in C:
        man['not_applicable'].append({"property_id": p['id'], "reason": "check not integrated yet in this round (being built; DESIGN.md section 7)"})
json.dump(man, open(os.path.join(V, 'MANIFEST.json'), 'w'), indent=1, ensure_ascii=False)
print('claimed', sorted(C))

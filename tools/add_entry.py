#!/venv/bin/python
"""tools/add_entry.py Cxx <<< '{"text":..., "note":..., "tech":..., "level": "proof"}'  -> tools/manifest_entries.json; regenerates MANIFEST.json"""
import json, os, sys, subprocess
V = os.path.dirname(os.path.dirname(os.path.abspath(__file__)))
p = os.path.join(V, 'tools', 'manifest_entries.json')
d = json.load(open(p)) if os.path.exists(p) else {}
d[sys.argv[1]] = json.load(sys.stdin)
json.dump(d, open(p, 'w'), indent=1, ensure_ascii=False)
subprocess.check_call([os.path.join(V, 'tools', 'gen_manifest.py')])

#!/venv/bin/python
"""tools/try_mutant.py <patch.diff> <Cxx> [<Cyy> ...] [--tier quick] [--seed N]
Applies the patch to a scratch worktree of /repo (never to /repo itself), runs the listed checks against it
(PB_BSS_REPO), prints their verdict lines and removes the worktree.  Evidence of these runs goes to out/mutant_evidence."""
import os, subprocess, sys, tempfile, shutil
args = sys.argv[1:]
tier, seed = 'quick', '0'
nolean = '--no-lean' in args
if nolean:
    args.remove('--no-lean')
if '--tier' in args:
    i = args.index('--tier'); tier = args[i + 1]; del args[i:i + 2]
if '--seed' in args:
    i = args.index('--seed'); seed = args[i + 1]; del args[i:i + 2]
patch, props = os.path.abspath(args[0]), args[1:]
V = os.path.dirname(os.path.dirname(os.path.abspath(__file__)))
wt = tempfile.mkdtemp(prefix='mt_', dir='/tmp'); os.rmdir(wt)
subprocess.check_call(['git', '-C', '/repo', 'worktree', 'add', '-q', '--detach', wt, 'HEAD'])
rc_all = {}
try:
    subprocess.check_call(['git', '-C', wt, 'apply', patch])
    env = dict(os.environ, PB_BSS_REPO=wt, VERIF_SEED=seed, VERIF_EVIDENCE_DIR=os.path.join(V, 'out', 'mutant_evidence'))
    for p in props:
        r = subprocess.run([os.path.join(V, 'check'), p, '--tier', tier] + (['--no-lean'] if nolean else []), cwd=V, env=env, capture_output=True, text=True)
        lines = [l for l in r.stdout.splitlines() if l.startswith(('VIOLATION', 'KNOWN', 'check ', '  '))]
        print(f'--- {p}: exit {r.returncode}')
        print('\n'.join(lines[-8:]))
        if r.returncode not in (0, 1):
            print(r.stderr[-1500:])
        rc_all[p] = r.returncode
finally:
    subprocess.call(['git', '-C', '/repo', 'worktree', 'remove', '--force', wt])
    shutil.rmtree(wt, ignore_errors=True)
print('SUMMARY', rc_all)

#!/venv/bin/python
"""tools/harvest_corpus.py <seed-id> [...]   (e.g. C15-m7)
For each seeded change: apply it in a scratch worktree, run the property's check against it, take the failing inputs the
search found, confirm that the SAME inputs hold on the unchanged /repo, and keep the smallest one as
corpus/<ID>-<seed-id>.json (replayed first on every run: the seeded set becomes a regression suite that does not depend
on the PRNG seed).  Inputs over MAXKB are not kept."""
import glob, json, os, shutil, subprocess, sys, tempfile
V = os.path.dirname(os.path.dirname(os.path.abspath(__file__)))
MAXKB = 400
for sid in sys.argv[1:]:
    sd = os.path.join(V, 'seeded', sid)
    prop = json.load(open(os.path.join(sd, 'meta.json')))['property']
    dst = os.path.join(V, 'corpus', f'{prop}-{sid}.json')
    if os.path.exists(dst):
        print(sid, 'already harvested'); continue
    wt = tempfile.mkdtemp(prefix='hv_', dir='/tmp'); os.rmdir(wt)
    out = tempfile.mkdtemp(prefix='hvout_', dir='/tmp')
    subprocess.check_call(['git', '-C', '/repo', 'worktree', 'add', '-q', '--detach', wt, 'HEAD'])
    kept = None
    try:
        subprocess.check_call(['git', '-C', wt, 'apply', os.path.join(sd, 'patch.diff')])
        for seed in ('0', '1', '2'):
            env = dict(os.environ, PB_BSS_REPO=wt, VERIF_SEED=seed, VERIF_OUT_DIR=out, VERIF_EVIDENCE_DIR=os.path.join(out, 'ev'))
            subprocess.run([os.path.join(V, 'check'), prop, '--no-lean'], cwd=V, env=env, capture_output=True, text=True)
            cands = []
            for f in glob.glob(os.path.join(out, 'replays', '*.json')):
                d = json.load(open(f))
                if d.get('kind') == 'failing-input' and os.path.getsize(f) <= MAXKB * 1024:
                    cands.append((os.path.getsize(f), f))
            for _, f in sorted(cands):
                r = subprocess.run([os.path.join(V, 'check'), prop, '--replay', f], cwd=V, capture_output=True, text=True,
                                   env=dict(os.environ, VERIF_OUT_DIR=out))
                if r.returncode == 0 and 'oracle holds' in r.stdout:
                    kept = f; break
            if kept:
                break
            shutil.rmtree(os.path.join(out, 'replays'), ignore_errors=True)
        if kept:
            d = json.load(open(kept))
            d['corpus_note'] = f'failing input of seeded change {sid} (holds on the unchanged tree)'
            json.dump(d, open(dst, 'w'), indent=0)
            print(sid, 'kept', os.path.basename(dst), os.path.getsize(dst) // 1024, 'KB', d.get('key'))
        else:
            print(sid, 'nothing harvested (not detected by search, too large, or fails on the clean tree too)')
    finally:
        subprocess.call(['git', '-C', '/repo', 'worktree', 'remove', '--force', wt])
        shutil.rmtree(wt, ignore_errors=True); shutil.rmtree(out, ignore_errors=True)

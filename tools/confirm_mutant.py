#!/venv/bin/python
"""tools/confirm_mutant.py <dir with patch.diff + demo.py>: confirm in a scratch worktree that the demo passes
without the patch, fails with it, and that the repository's stable baseline still passes with the patch."""
import os, subprocess, sys, tempfile, shutil, json
d = os.path.abspath(sys.argv[1])
wt = tempfile.mkdtemp(prefix='cm_', dir='/tmp'); os.rmdir(wt)
subprocess.check_call(['git', '-C', '/repo', 'worktree', 'add', '-q', '--detach', wt, 'HEAD'])
res = {}
try:
    env = dict(os.environ, PYTHONPATH=wt)
    run = lambda: subprocess.run(['/venv/bin/python', os.path.join(d, 'demo.py')], cwd=wt, env=env, capture_output=True, text=True).returncode
    res['demo_clean_rc'] = run()
    subprocess.check_call(['git', '-C', wt, 'apply', os.path.join(d, 'patch.diff')])
    res['demo_mutant_rc'] = run()
    r = subprocess.run([os.path.join(os.path.dirname(os.path.abspath(__file__)), 'baseline_check.py')],
                       env=dict(os.environ, PB_BSS_REPO=wt), capture_output=True, text=True)
    res['baseline_rc'] = r.returncode
    res['baseline'] = r.stdout.strip().splitlines()[0] if r.stdout else ''
finally:
    subprocess.call(['git', '-C', '/repo', 'worktree', 'remove', '--force', wt])
    shutil.rmtree(wt, ignore_errors=True)
res['confirmed'] = res.get('demo_clean_rc') == 0 and res.get('demo_mutant_rc', 0) != 0 and res.get('baseline_rc') == 0
print(json.dumps(res))

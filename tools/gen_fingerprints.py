#!/venv/bin/python
"""tools/gen_fingerprints.py  -> /verif/source_fingerprints.json from /repo's working tree (run after every fix: commit)"""
import json, os, subprocess, sys
V = os.path.dirname(os.path.dirname(os.path.abspath(__file__)))
sys.path.insert(0, V)
from harness import drift
repo = os.environ.get('PB_BSS_REPO', '/repo')
head = subprocess.check_output(['git', '-C', repo, 'rev-parse', 'HEAD'], text=True).strip()
dirty = subprocess.check_output(['git', '-C', repo, 'status', '--porcelain', '--', 'pb_bss'], text=True).strip()
assert not dirty, 'working tree of /repo differs from HEAD:\n' + dirty
json.dump({'commit': head, 'files': drift.all_sources(repo)}, open(drift.BASELINE, 'w'), indent=0, sort_keys=True)
print('fingerprints of', head)

#!/venv/bin/python
"""Run /repo's test-suite (guard off) and verify every test of BASELINE.json's stable_pass still passes."""
import json, os, subprocess, sys, tempfile
import xml.etree.ElementTree as ET
repo = os.environ.get('PB_BSS_REPO', '/repo')
base = json.load(open('/root/.vp/BASELINE.json'))
env = dict(os.environ); env.pop('PB_BSS_VERIF', None)
with tempfile.TemporaryDirectory() as d:
    x = os.path.join(d, 'j.xml')
    subprocess.run(['/venv/bin/python', '-m', 'pytest', '-ra', '-q', '-p', 'no:cacheprovider', '--timeout=900',
                    '--continue-on-collection-errors', f'--junitxml={x}'], cwd=repo, env=env,
                   stdout=subprocess.DEVNULL, stderr=subprocess.DEVNULL)
    passed = set()
    for tc in ET.parse(x).getroot().iter('testcase'):
        if not any(c.tag in ('failure', 'error', 'skipped') for c in tc):
            passed.add(f"{tc.get('classname')}::{tc.get('name')}")
missing = [t for t in base['stable_pass'] if t not in passed]
print(f'stable_pass={len(base["stable_pass"])} passed_now={len(passed)} missing={len(missing)}')
for m in missing[:20]:
    print('  NOT PASSING:', m)
sys.exit(1 if missing else 0)

#!/bin/bash
# sequential seeds, 5 checks at a time (C06 excluded while the tensor agent edits it)
cd /verif
for s in "$@"; do
  out=/tmp/seedrun_$s; rm -rf $out; mkdir -p $out
  for grp in "C01 C02 C03 C04 C05" "C06 C07 C08 C09 C10 C11" "C12 C13 C14 C15 C16" "C17 C18 C19 C20"; do
    for p in $grp; do
      ( VERIF_SEED=$s VERIF_EVIDENCE_DIR=$out/ev ./check $p --no-lean > $out/$p.log 2>&1; echo "$p exit=$?" >> $out/summary.txt ) &
    done
    wait
  done
  echo "seed $s: $(sort $out/summary.txt | grep -v 'exit=0' | tr '\n' ' ')"
done

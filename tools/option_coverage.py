#!/venv/bin/python
"""tools/option_coverage.py — merge out/record/*.json (VERIF_RECORD=1 runs) and list, per pb_bss function, the keyword
options never called with a non-default value and the dtypes / ranks seen.  Development aid."""
import glob, json, os, sys
V = os.path.dirname(os.path.dirname(os.path.abspath(__file__)))
funcs, seen = {}, {}
for f in glob.glob(os.path.join(V, 'out', 'record', '*.json')):
    d = json.load(open(f))
    funcs.update(d['functions'])
    for q, r in d['seen'].items():
        s = seen.setdefault(q, {'calls': 0, 'nondefault': {}, 'dtypes': {}, 'ndims': {}, 'flags': {}})
        s['calls'] += r['calls']
        for key in ('nondefault', 'dtypes', 'ndims', 'flags'):
            for k, v in r[key].items():
                s[key].setdefault(k, set()).update(v if not isinstance(v, list) else [str(x) for x in v])
mode = sys.argv[1] if len(sys.argv) > 1 else 'gaps'
if mode == 'gaps':
    print('# never called'); 
    for q in sorted(funcs):
        if q not in seen and not q.split('.')[-1].startswith('__'):
            print('  ', q)
    print('# options never non-default (function called)')
    for q in sorted(seen):
        miss = [f'{k}={funcs[q]["defaults"][k]}' for k in funcs.get(q, {}).get('defaults', {}) if k not in seen[q]['nondefault']]
        if miss:
            print(f'  {q} [{seen[q]["calls"]} calls]: ' + ', '.join(miss))
elif mode == 'dtypes':
    for q in sorted(seen):
        if seen[q]['dtypes']:
            print(q, {k: sorted(v) for k, v in seen[q]['dtypes'].items()}, {k: sorted(v) for k, v in seen[q]['flags'].items() if v})

#!/bin/bash
# Build the Lean project (theorems + compiled model driver) from files on disk only. Offline.
set -e
cd "$(dirname "$0")/lean"
mkdir -p ../out
# root module = every model / proof / property file present
(cd PbBss; ls Model/*.lean Proofs/*.lean Props/*.lean 2>/dev/null | sed 's/\.lean$//; s#/#.#g; s/^/import PbBss./') > PbBss.lean
flock ../out/lake.lock lake build PbBss driver driver_masks driver_metrics driver_psd driver_bf driver_dist driver_trainers driver_posterior driver_em driver_tensor driver_effects driver_pipeline 2>&1 | grep -v "^✔\|^ℹ\|^⚠\|warning:\|^Hint\|^Note\|^$\|apply\]\|push_neg\|^```\|open Lean\|macro \|tactic|" | tail -40
test -x .lake/build/bin/driver
echo "setup ok"

#!/bin/bash
# Build the Lean project (theorems of every claimed property + compiled model drivers) from files on disk only. Offline.
set -e
cd "$(dirname "$0")"
mkdir -p out
# root module = every model / proof / property file present (informational; the build below is per claimed property)
(cd lean/PbBss; ls Model/*.lean Proofs/*.lean Props/*.lean 2>/dev/null | sed 's/\.lean$//; s#/#.#g; s/^/import PbBss./') > lean/PbBss.lean
flock out/lake.lock tools/setup_build.py
echo "setup ok"
